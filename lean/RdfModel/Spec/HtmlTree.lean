/-
  RdfModel.Spec.HtmlTree — abstract HTML element trees for the C11 fragment semantics.

  The HTML5 tokenizer / tree builder (golang.org/x/net/html, inspecthtml) is outside the model: the
  harness serialises these trees to HTML text in such a way that the HTML5 parser reproduces them
  verbatim (checked on the Go side for every document), in random attribute order, with random
  irrelevant markup and whitespace around them.

  * `Tag`    the element names the fragment distinguishes (everything else is `other`)
  * `Attrs`  the attributes RDFa / Microdata / embedded JSON-LD look at, as a record: attribute *order* is a
             serialisation choice, duplicate attributes do not survive HTML5 parsing
  * `Tree`   element (tag, attributes, children) | text
  Strings are lists of code points. Core-only.
-/
import RdfModel.Model.Term
namespace RdfModel.Spec.Html

abbrev Str := List Nat

inductive Tag where
  | html | head | body | base | title | script
  | div | span | sect | b | i | em
  | a | area | link | img | metaEl | time | data | meter | object
  | audio | video | embed | iframe | source | track
  | other
  deriving DecidableEq, Repr, Inhabited

structure Attrs where
  -- RDFa
  about : Option Str := none
  resource : Option Str := none
  href : Option Str := none
  src : Option Str := none
  typeof : Option Str := none
  property : Option Str := none
  rel : Option Str := none
  rev : Option Str := none
  content : Option Str := none
  datatype : Option Str := none
  inlist : Option Str := none
  pfx : Option Str := none        -- @prefix
  vocab : Option Str := none
  lang : Option Str := none
  -- Microdata
  itemscope : Bool := false
  itemid : Option Str := none
  itemtype : Option Str := none
  itemprop : Option Str := none
  itemref : Option Str := none
  id : Option Str := none
  data : Option Str := none       -- object@data
  value : Option Str := none      -- data@value, meter@value
  datetime : Option Str := none   -- time@datetime
  -- script@type
  type : Option Str := none
  deriving DecidableEq, Repr, Inhabited

inductive Tree where
  | elem (tag : Tag) (a : Attrs) (kids : List Tree)
  | text (s : Str)
  deriving Repr, Inhabited

mutual
/-- DOM `textContent`: the concatenation of all descendant text nodes, in document order. -/
def textOf : Tree → Str
  | .text s => s
  | .elem _ _ ks => textOfList ks
def textOfList : List Tree → Str
  | [] => []
  | k :: ks => textOf k ++ textOfList ks
end

/-- ASCII whitespace of HTML (space, TAB, LF, FF, CR): the separators of space-separated token attributes. -/
def isWs (c : Nat) : Bool := c == 32 || c == 9 || c == 10 || c == 12 || c == 13

/-- split on runs of ASCII whitespace (`acc` = current token, reversed) -/
def fieldsAux : Str → Str → List Str
  | [], acc => if acc.isEmpty then [] else [acc.reverse]
  | c :: rest, acc =>
    if isWs c then
      (if acc.isEmpty then fieldsAux rest [] else acc.reverse :: fieldsAux rest [])
    else fieldsAux rest (c :: acc)

/-- the space-separated tokens of an attribute value -/
def fields (s : Str) : List Str := fieldsAux s []

/-- split at the first `:`; `none` when there is none -/
def splitColon : Str → Option (Str × Str)
  | [] => none
  | c :: rest =>
    if c = 0x3a then some ([], rest)
    else match splitColon rest with
      | some (a, b) => some (c :: a, b)
      | none => none

def alookup (k : Str) : List (Str × Str) → Option Str
  | [] => none
  | (k', v) :: rest => if k' = k then some v else alookup k rest

def toLowerAscii (s : Str) : Str := s.map (fun c => if 65 ≤ c ∧ c ≤ 90 then c + 32 else c)

end RdfModel.Spec.Html
