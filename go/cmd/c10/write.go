package main

// Stage "write": documents produced by the Lean fragment writer (driver op jl.write) for generated
// datasets are decoded by the implementation; the result must be isomorphic to the model's toRdf of
// the same document (T3) and to the dataset itself (the property).

import (
	"fmt"
	"math"
	"strconv"
	"strings"

	"verifharness/vh"

	"github.com/dpb587/rdfkit-go/rdf"
)

func (h *harness) writeCases(n int) {
	for i := 0; i < n; i++ {
		r := h.r
		o := dsOpts{graphs: r.Chance(50), lists: r.Chance(70), nested: r.Chance(70), cycles: r.Chance(15), natives: r.Chance(60), exoticIR: r.Chance(20)}
		ds := h.genDataset(o)
		ch, cfeat := h.genChoices(ds.quads)
		h.writeOne(ds, ch, cfeat, i%3 == 0)
	}
}

// docFeatures walks a document and names the constructs it uses.
func docFeatures(v *JV, parentKey string, feat map[string]bool) {
	docFeaturesAt(v, parentKey, false, feat)
}

func docFeaturesAt(v *JV, parentKey string, inArray bool, feat map[string]bool) {
	switch v.kind {
	case jArr:
		for _, x := range v.xs {
			docFeaturesAt(x, parentKey, true, feat)
		}
	case jObj:
		hasID := v.get("@id") != nil
		if parentKey != "" && parentKey[0] != '@' && !hasID && v.get("@value") == nil && v.get("@list") == nil {
			feat["doc:embedded-node-without-@id"] = true
		}
		for _, m := range v.ms {
			switch m.k {
			case "@context":
				if parentKey == "" && !inArray {
					feat["doc:@context"] = true
				} else {
					feat["doc:nested-@context"] = true
					if dl := m.v.get("@language"); dl != nil {
						feat["doc:nested-@context-with-@language"] = true
					}
				}
				continue
			case "@list":
				feat["doc:@list"] = true
			case "@graph":
				if hasID {
					feat["doc:named-@graph"] = true
				}
			case "@type":
				if v.get("@value") == nil {
					feat["doc:@type"] = true
				} else {
					feat["doc:typed-value-object"] = true
				}
			case "@language":
				feat["doc:@language-value-object"] = true
			case "@id":
				if m.v.kind == jStr && !strings.Contains(m.v.s, ":") {
					feat["doc:relative-@id"] = true
				}
			default:
				if m.k != "" && m.k[0] != '@' {
					if !strings.Contains(m.k, ":") {
						feat["doc:term-key"] = true
					} else if !strings.Contains(m.k, "//") && !strings.HasPrefix(m.k, "urn:") && !strings.HasPrefix(m.k, "tag:") {
						feat["doc:compact-iri-key"] = true
					}
					if m.v.kind == jStr || m.v.kind == jInt || m.v.kind == jDbl || m.v.kind == jBool {
						feat["doc:unwrapped-single-value"] = true
					}
					if m.v.kind == jObj && m.v.get("@id") == nil && m.v.get("@value") == nil && m.v.get("@list") == nil && len(m.v.ms) > 0 {
						allStr := true
						for _, mm := range m.v.ms {
							if mm.v.kind != jStr && mm.v.kind != jArr {
								allStr = false
							}
						}
						if allStr {
							feat["doc:maybe-language-map"] = true
						}
					}
				}
			}
			docFeaturesAt(m.v, m.k, false, feat)
		}
	case jInt, jDbl:
		feat["doc:native-number"] = true
	case jBool:
		feat["doc:native-boolean"] = true
	}
}

// nativeDoublesOK checks the assumption under which the model's `dbl lex` values are meaningful: the
// lexical form the writer put into the document is the canonical form of the double it reads as, and
// that double is not an integer below 10^21.
func nativeDoublesOK(v *JV) bool {
	switch v.kind {
	case jDbl:
		f, err := strconv.ParseFloat(v.s, 64)
		if err != nil || canonicalDouble(f) != v.s {
			return false
		}
		return !(f == math.Trunc(f) && math.Abs(f) < 1e21)
	case jArr:
		for _, x := range v.xs {
			if !nativeDoublesOK(x) {
				return false
			}
		}
	case jObj:
		for _, m := range v.ms {
			if !nativeDoublesOK(m.v) {
				return false
			}
		}
	}
	return true
}

func (h *harness) writeOne(ds dataset, ch choices, cfeat map[string]bool, mutate bool) {
	cj, lj := "-", "-"
	if ch.context != nil {
		cj = ch.context.wire()
	}
	if ch.local != nil {
		lj = ch.local.wire()
	}
	line := fmt.Sprintf("jl.write %s %s %s %s %s %s", modeTok(ch.mode11), baseTok(ch.base), ch.wire(), cj, lj, gquadsWire(ds.quads))
	want, _ := gquadsRDF(ds.quads)
	h.stable(line)
	h.add(line, func(model string) {
		desc := fmt.Sprintf("write %s dataset=%s", ch, showQuads(want))
		h.rep.Count("op:write")
		if !strings.HasPrefix(model, "ok:") {
			h.rep.Add(vh.Case{Kind: "disagreement", Op: line, Model: model, Detail: "driver: " + desc})
			return
		}
		f := strings.Fields(model[3:])
		if len(f) != 3 {
			h.rep.Add(vh.Case{Kind: "disagreement", Op: line, Model: model, Detail: "driver answer: " + desc})
			return
		}
		doc, err := parseWire(f[0])
		if err != nil {
			h.rep.Add(vh.Case{Kind: "disagreement", Op: line, Model: model, Detail: "document token unreadable: " + err.Error()})
			return
		}
		text := doc.text()
		desc += " doc=" + string(text)
		nontrivial := len(ds.feat) > 0
		h.rep.Eval(desc, nontrivial)
		h.rep.Count("write:path:" + f[1])
		feat := map[string]bool{}
		docFeatures(doc, "", feat)
		for k := range feat {
			h.rep.Count(k)
		}
		if feat["doc:@context"] {
			for k := range cfeat {
				h.rep.Count(k)
			}
		}
		for k := range ds.feat {
			h.rep.Count("ds:" + k)
		}
		if !nativeDoublesOK(doc) {
			h.rep.Add(vh.Case{Kind: "disagreement", Op: line, Model: model, Detail: "the writer emitted a native number whose lexical form is not the canonical form of a non-integer double — " + desc})
			return
		}
		// the theorem: the model's reading of the written document is isomorphic to the dataset
		if f[2] == "outside" {
			h.rep.Add(vh.Case{Kind: "disagreement", Op: line, Model: model, Detail: "toRdf (write d ch) = none, contradicting theorem write_denotes — " + desc})
			return
		}
		mq, err := modelQuads(f[2])
		if err != nil || !vh.IsomorphicMulti(mq, want) {
			h.rep.Add(vh.Case{Kind: "disagreement", Op: line, Model: model, Detail: "toRdf (write d ch) is not isomorphic to d, contradicting theorem write_denotes — " + desc})
			return
		}
		before := loaderCalls.Load()
		res := goDecode(text, ch.mode11, ch.base)
		if loaderCalls.Load() != before {
			h.rep.Add(vh.Case{Kind: "violation", Op: line, Detail: "the decoder tried to load a remote document — " + desc})
		}
		if res.panicked != "" {
			h.decoderPanic(res.panicked, desc)
			h.rep.Add(vh.Case{Kind: "violation", Op: line, Go: "panic " + res.panicked, Detail: "decoder panic on a document of the fragment — " + desc})
			return
		}
		if res.err != nil {
			h.mismatchW(line, "decoder error: "+res.err.Error(), want, desc, doc, ch)
			return
		}
		if !vh.IsomorphicMulti(res.quads, want) {
			h.mismatchW(line, showQuads(res.quads), want, desc, doc, ch)
			return
		}
		if mutate {
			for i, n := 0, 1+h.r.Intn(2); i < n; i++ {
				m := h.mutateDoc(doc)
				if m.wf() {
					h.decodeCompare("mutated-write", m, ch.mode11, ch.base, nil)
				}
			}
		}
	})
}

func (h *harness) mismatchW(line, goR string, want []rdf.Quad, desc string, doc *JV, ch choices) {
	if key := h.classify(doc, ch.mode11, ch.base); key != "" {
		if h.knownCase(key, desc+" impl="+goR) {
			return
		}
	}
	h.rep.Add(vh.Case{Kind: "violation", Op: line, Go: goR, Model: showQuads(want), Detail: "the decoder does not yield the dataset the document denotes — " + desc})
}
