/-
  Definitions used by the C20 theorems: what the theorems require of the facts regenerated from the
  Go source (`Gen.XsdFacts`, T2). Every condition is a decidable check on extracted data;
  `Props/C20Facts.lean` proves them for the current facts by `decide`.
-/
import RdfModel.Model.Xsd
namespace RdfModel.C20
open RdfModel RdfModel.Xsd
open RdfModel.Spec.Xsd (Dt IntTy)

def xsdNs : Bytes := asc "http://www.w3.org/2001/XMLSchema#"

/-- IRI of a mapped datatype -/
def dtIRI (T : Dt) : Bytes := xsdNs ++ asc T.name

/-- the integers the Go type of `Map<T>`'s result can represent, within the value space of `T`:
    xsd:integer is mapped to an `int64`; every other type's Go type covers its whole value space -/
def goLo (T : IntTy) : Int := match T.lo with | some l => l | none => -9223372036854775808
def goHi (T : IntTy) : Int := match T.hi with | some h => h | none => 9223372036854775807

/-- hand-written expectation (T2): the strconv function and bit size that give exactly that range -/
def expParser : IntTy → Parser
  | .integer | .long | .int | .short | .byte => .parseInt
  | _ => .parseUint
def expBits : IntTy → Nat
  | .integer | .long | .unsignedLong => 64
  | .int | .unsignedInt => 32
  | .short | .unsignedShort => 16
  | .byte | .unsignedByte => 8

/-- the formatter expression prints every value of the Go type `g` in decimal without wrapping:
    `strconv.FormatInt(int64(v), 10)` needs `g ⊆ int64`, `strconv.FormatUint(uint64(v), 10)` needs `g ⊆ uint64` -/
def fmtOK (fm : Formatter) (conv g : GoInt) (base : Nat) : Bool :=
  base == 10 &&
  ((fm == .formatInt && conv == ⟨true, 64⟩ && decide (-9223372036854775808 ≤ g.lo ∧ g.hi ≤ 9223372036854775807)) ||
   (fm == .formatUint && conv == ⟨false, 64⟩ && decide (0 ≤ g.lo ∧ g.hi ≤ 18446744073709551615)))

/-- facts of one integer-family type that the theorems rest on -/
def intFactOK (T : IntTy) (f : IntFact) : Bool :=
  f.collapse && f.base == 10 && f.parser == expParser T && f.bitSize == expBits T
  && decide (f.goType.lo ≤ goLo T) && decide (goHi T ≤ f.goType.hi) && decide (1 ≤ f.goType.bits)
  && fmtOK f.objFmt f.objConv f.goType f.objBase && fmtOK f.eqFmt f.eqConv f.goType f.eqBase
  && f.datatype == dtIRI T.dt && f.eqDatatypeSame

def boolFactOK (f : BoolFact) : Bool :=
  f.collapse && f.trueCases == [Spec.Xsd.bTrue, [0x31]] && f.falseCases == [Spec.Xsd.bFalse, [0x30]]
  && f.lexTrue == Spec.Xsd.bTrue && f.lexFalse == Spec.Xsd.bFalse
  && f.eqTrue == Spec.Xsd.bTrue && f.eqFalse == Spec.Xsd.bFalse
  && f.datatype == dtIRI .boolean && f.eqDatatypeSame

/-- expected lexical check of a string-like type (source text of the regular expression) -/
def expStrRE : StrTy → Option Bytes
  | .anyURI | .string => none
  | .hexBinary => some reHexBinarySrc
  | .base64Binary => some reBase64Src

def strFactOK (T : StrTy) (f : StrFact) : Bool :=
  f.collapse == (T != .string) && f.lexRE == expStrRE T && f.datatype == dtIRI T.dt && f.eqDatatypeSame

def expFloatRE : FloatTy → Bytes
  | .decimal => reDecimalSrc
  | _ => reDoubleSrc

def floatFactOK (T : FloatTy) (f : FloatFact) : Bool :=
  f.collapse && f.parser == .parseFloat && f.bitSize == (if T = .float then 32 else 64)
  && f.lexRE == some (expFloatRE T)
  && f.objFmt == (if T = .decimal then .formatFloat else .formatDouble) && f.objBits == f.bitSize
  && f.eqFmt == f.objFmt && f.eqBits == f.bitSize
  && f.datatype == dtIRI T.dt && f.eqDatatypeSame

/-- every layout of the date/time family consists of elements the model covers -/
def timeFactOK (T : TimeTy) (f : TimeFact) : Bool :=
  f.collapse && !f.layouts.isEmpty && f.layouts.all (fun l => !(layoutToks l).contains .unknown)
  && f.layouts.all (fun l => l.all (fun b => decide (0x20 < b ∧ b < 0x7F)))   -- no extractor marker ("\x00unknown-shape")
  && f.datatype == dtIRI T.dt && f.eqDatatypeSame

def durationFactOK (f : DurationFact) : Bool :=
  f.collapse && f.regex == durationRESrc && f.datatype == dtIRI .duration && f.eqDatatypeSame

def IntTy.all := Spec.Xsd.IntTy.all
def floatTys : List FloatTy := [.decimal, .double, .float]
def strTys : List StrTy := [.anyURI, .base64Binary, .hexBinary, .string]
def timeTys : List TimeTy := [.date, .dateTime, .dateTimeStamp, .gDay, .gMonth, .gMonthDay, .gYear, .gYearMonth, .time]

/-- all facts at once -/
def factsOK (F : Facts) : Bool :=
  Spec.Xsd.IntTy.all.all (fun T => intFactOK T (F.int T)) && floatTys.all (fun T => floatFactOK T (F.float T))
  && strTys.all (fun T => strFactOK T (F.str T)) && timeTys.all (fun T => timeFactOK T (F.time T))
  && boolFactOK F.bool && durationFactOK F.duration

/-- a string without XML white space -/
def NoWs (s : Bytes) : Prop := ∀ b ∈ s, Spec.Xsd.isWs b = false

end RdfModel.C20
