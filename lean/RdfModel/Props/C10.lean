/-
  Property C10 — JSON-LD documents decode to the dataset they denote; encoder output round-trips.
  Level: fragment. Theorems only; helper lemmas live in RdfModel/Proofs/C10*.lean.

  What is stated here is about three executable objects the driver runs:
    * `JL.toRdf`  (Spec/JsonLdFragment.lean) — the fragment semantics, written from the W3C
      recommendation; tied to /repo's decoder by correspondence (T3) only;
    * `JL.write`  (Spec/JsonLdWriter.lean) — the harness writer (expanded / flattened / nested / compacted
      through an inline context);
    * `JLEnc.encode` (Model/JsonLdEncoder.lean) — the model of /repo's encoder; tied by T3.

  THE WRITER VALIDATES ITS OUTPUT. `write` keeps a compacted document only after it has evaluated
  `toRdf` on it and found exactly the numbering-of-blank-nodes image (`denForest`) of a tree whose
  quads are a permutation of the dataset; otherwise it writes the expanded fallback. So
  `write_denotes` rests on (i) the certificate lemma `forest_certificate` — a validated tree is an
  isomorphism witness — and (ii) a direct proof for the fallback (`writeFlat_denotes`). It does not
  contain a proof that compaction through a context is inverted by expansion in general; that such
  documents are *produced* (not only the fallback) is measured by the harness (histogram `write:path:*`,
  `doc:*`), and what they denote is decided by `toRdf` itself.
-/
import RdfModel.Props.C10Defs
import RdfModel.Spec.GraphIso
import RdfModel.Proofs.C10Write
import RdfModel.Proofs.C10EncStruct
namespace RdfModel.C10
open RdfModel RdfModel.Desc RdfModel.JL RdfModel.JLEnc

variable {β : Type}

/-- **Fragment writer.** For every well-formed dataset `d`, every injective labelling of its blank nodes
    by non-empty labels and all choices `ch` (processing mode, document base, inline context, local contexts on embedded node
    objects and graph members, nesting, lists, native values, document shape, …), the document `write name d ch` is inside the fragment and denotes a dataset
    isomorphic to `d` (same quads up to an injective renaming of blank nodes, multiplicities kept). -/
theorem write_denotes [DecidableEq β] (name : β → Str) (hname : Function.Injective name)
    (hne : ∀ b, name b ≠ []) (d : List (DQuad β)) (hwf : WFDataset d) (ch : Choices) :
    ∃ out, toRdf ch.mode11 ch.base (write name d ch) = some out ∧ Spec.IsoQ out d :=
  Proofs.C10.write_denotes name hname hne d hwf ch

/-- The expanded, flattened form (no context, one node object per quad) denotes the dataset itself, blank
    nodes relabelled by `name`; proved by evaluating the semantics symbolically, for every processing
    mode and base. -/
theorem writeFlat_denotes (name : β → Str) (hne : ∀ b, name b ≠ []) (mode11 : Bool) (base : Option Str)
    (d : List (DQuad β)) (hwf : WFDataset d) :
    toRdf mode11 base (writeFlat name d) = some (d.map (DQuad.map (fun b => BN.orig (name b)))) :=
  Proofs.C10.writeFlat_denotes name hne mode11 base d hwf

/-- **Certificate lemma.** A forest that validates against `d` (`forestOK`: its quads are a permutation
    of `d`, the blank nodes it anonymises are pairwise distinct and are not used by identifier anywhere)
    denotes, with fresh blank nodes numbered in document order from any start, a dataset isomorphic to
    `d`. -/
theorem forest_certificate [DecidableEq β] (name : β → Str) (hname : Function.Injective name) (F : Forest β)
    (d : List (DQuad β)) (h : forestOK F d = true) (n0 : Nat) :
    Spec.IsoQ (denForest name F n0).1 d :=
  Proofs.C10.forest_iso name hname F d h n0

/-- **Encoder direction (partial).** If the certificate `encCert` holds for a configuration, a dataset and
    an iteration order of the subject map — a decidable check the driver evaluates on every case of the
    harness — then the fragment semantics reads the encoder's document as a dataset isomorphic to the
    input, for the given processing mode and document base.
    GAP (why `_partial`): the hypothesis is the certificate, not the natural conditions of the property
    text; see `encoder_roundtrip_natural` below. -/
theorem encoder_roundtrip_partial [DecidableEq β] (mode11 : Bool) (base : Option Str) (cfg : Cfg β)
    (hl : Function.Injective cfg.label) (d : List (DQuad β)) (ord ord2 : List (Term β))
    (h : encCert mode11 base cfg d ord ord2 = true) :
    ∃ doc out, encode cfg d ord ord2 = some doc ∧ toRdf mode11 base doc = some out ∧ Spec.IsoQ out d := by
  unfold encCert at h
  cases he : encode cfg d ord ord2 with
  | none => simp [he] at h
  | some doc =>
    cases hf : encForest cfg d ord ord2 with
    | none => simp [he, hf] at h
    | some F =>
      simp only [he, hf, Bool.and_eq_true, decide_eq_true_eq] at h
      exact ⟨doc, _, rfl, h.2, Proofs.C10.forest_iso cfg.label hl F d h.1 _⟩

/-- The statement at the strength of the property text for the encoder direction: default-graph datasets
    without literals of the natively written datatypes and without cycles of once-referenced blank nodes
    (`acyclic`: the hypothesis of property C17 before patch fix-c17-export-cycles, a parameter here so that
    this file does not depend on C17's development; with the repaired export the harness finds the
    certificate to hold for cyclic datasets as well, so `acyclic` may be taken to be `fun _ => True`), prefix tables and base arbitrary. NOT PROVED. What is missing: a proof that under
    these conditions the certificate holds, i.e. (a) that `processLocal` of the `@context` the encoder
    writes yields exactly the used prefixes as prefix terms, (b) that `expandIri` inverts
    `compactVocabIRI` / `compactDocumentIRI` (rests on C13's round-trip theorem and on the agreement of
    `Prefix.goResolve` with RFC 3986 on the relevant domain), (c) that the tree of the export
    (`encForest`) validates (C17's theorem). The harness checks this implication on every generated case
    (`encode:natural-implies-cert`), and reports a disagreement if it fails. It is known to FAIL when an
    IRI of the dataset has a scheme equal to a used prefix (finding C10-K2): the full statement carries
    that exclusion as `schemeClash`.
    UPDATE (round 3b): (a) and (b) are now proved under local decidable hypotheses — `encoder_context_read`,
    `encoder_iri_roundtrip`, `encoder_doc_context` below; (c) and the assembly remain open
    (`encCert_of_natural`). The hypothesis list of THIS def is too weak: the model refutes it for a prefix
    name `@1`, a relative base, an empty blank node label and a base-relative `@id` containing a colon
    (necessity witnesses N1–N3 in `Witness`); `encCert_of_natural` carries the corrected list. -/
def encoder_roundtrip_natural [DecidableEq β] (acyclic : List (DQuad β) → Prop) (schemeClash : Cfg β → List (DQuad β) → Prop) : Prop :=
  ∀ (mode11 : Bool) (base : Option Str) (cfg : Cfg β) (d : List (DQuad β)) (ord ord2 : List (Term β)),
    Function.Injective cfg.label → WFDataset d → defaultGraphOnly d = true → noNativeTyped d = true →
    acyclic d → ¬ schemeClash cfg d → ord.Perm (defaultOrd d) → ord2.Perm (defaultOrd d) →
    ∃ doc out, encode cfg d ord ord2 = some doc ∧ toRdf mode11 base doc = some out ∧ Spec.IsoQ out d

/-! ### Encoder direction under natural, local hypotheses (task builder-c10enc)

  The certificate `encCert` of `encoder_roundtrip_partial` evaluates `toRdf` on the whole document. The
  theorems below replace two of the three things the certificate was standing for — (a) that the
  `@context` the encoder writes is processed into exactly the declared prefixes, (b) that IRI expansion
  under that context inverts the encoder's three ways of writing an IRI — by proofs from decidable,
  LOCAL hypotheses (`ctxOK`: about the declared prefixes; `compactOK`/`relOK`: about one IRI). What is
  now also proved is the document-level induction (c): the node objects `buildResource` produces evaluate
  to `denForest` of the exported forest (`encCert_of_natural_holds`). What is still NOT proved: that the
  forest validates (`structOK`, C17's business) — it remains a hypothesis of
  `encoder_roundtrip_natural2_partial`. -/

/-- every usable prefix list is duplicate free -/
theorem usedPrefixes_nodup [DecidableEq β] (cfg : Cfg β) (d : List (DQuad β)) (ord ord2 : List (Term β)) :
    (usedPrefixes cfg d ord ord2).Nodup := by
  unfold usedPrefixes
  simp only []
  split
  · exact List.nodup_nil
  · exact Proofs.C10.dedupStr_nodup _

/-- **(a) The encoder's `@context` is read as intended.** If the declared prefixes satisfy `ctxOK`
    (usable term names, absolute namespaces ending in a gen-delim, no namespace or dataset IRI whose
    scheme is a declared prefix, an absolute base), then — in both processing modes and for every
    document base — Context Processing of the context object `{"@base": cfg.base, p: ns, …}` succeeds
    and yields an active context without vocabulary mapping and default language, whose base is the
    configured one, in which every declared prefix is a term with the prefix flag set and IRI mapping
    its namespace, and which has no other term (`GoodCtx`). -/
theorem encoder_context_read [DecidableEq β] (mode11 : Bool) (base : Option Str) (cfg : Cfg β)
    (d : List (DQuad β)) (ord ord2 : List (Term β)) (h : ctxOK cfg d ord ord2 = true) :
    ∃ c, processCtxObj (Ctx.initial mode11 base) (Proofs.C10.ctxMs cfg.base (declared cfg d ord ord2)) = some c ∧
      c.mode11 = mode11 ∧
      Proofs.C10.GoodCtx (mkEnc cfg) cfg.base (usedPrefixes cfg d ord ord2)
        ((declared cfg d ord ord2).map (·.1)) c := by
  simp only [ctxOK, Bool.and_eq_true, List.all_eq_true] at h
  obtain ⟨⟨hb, hd⟩, _⟩ := h
  have hdecl : Proofs.C10.DeclOK cfg.base (declared cfg d ord ord2) :=
    { base := by intro b hbs; rw [hbs] at hb; exact hb
      name := fun e he => (hd e he).1.1.1
      abs := fun e he => (hd e he).1.1.2
      gd := fun e he => (hd e he).1.2
      sch := fun e he => (hd e he).2
      nodup := Proofs.C10.declOf_names_nodup _ _ (usedPrefixes_nodup cfg d ord ord2) }
  exact Proofs.C10.goodCtx_of_decl (mkEnc cfg) cfg.base (usedPrefixes cfg d ord ord2)
    (usedPrefixes_nodup cfg d ord ord2) (Ctx.initial mode11 base) rfl rfl rfl hdecl

/-- **(b) Expansion inverts the encoder's compaction.** Under an active context as in (a), for every
    absolute IRI `v` whose scheme is no declared prefix, which the prefix table shortens invertibly
    (`compactOK`: C13's `compact_expand` through the UTF-8 conversions) through a used, usable prefix:
    what `compactVocabIRI` writes (property names, `@type` values, datatypes) is no keyword, has a colon
    and expands to `v` in vocabulary position; what `compactDocumentIRI` writes as a value of `@id` — a
    compact IRI, a reference relative to the base passing `relOK`, or `v` itself — expands to `v` in
    document position. -/
theorem encoder_iri_roundtrip (E : Enc) (bs : Option Str) (used names : List Str) (c : Ctx)
    (hc : Proofs.C10.GoodCtx E bs used names c) (hbase : bs.isSome = E.base.isSome) (v : Str)
    (habs : absIri v = true) (hfree : schemeFree names v = true) (hcomp : compactOK E v = true)
    (hused : ∀ p r, compactPrefix E v = some (p, r) → p ∈ used ∧ pfxNameOK p = true) :
    ((compactVocabIRI E v).1.head? ≠ some cAt ∧ (compactVocabIRI E v).1.contains cColon = true ∧
      ∀ vocab docRel, expandIri c vocab docRel (compactVocabIRI E v).1 = .iri v) ∧
    ((∀ b, bs = some b → relOK E names b v = true) →
      expandIri c false true (compactDocumentIRI E v).1 = .iri v) := by
  have hok : Proofs.C10.IriOK E used names v :=
    ⟨habs, hfree, hcomp, fun p r h => (hused p r h).1, fun p r h _ => (hused p r h).2⟩
  exact ⟨Proofs.C10.vocabForm hc hok, fun hrel => Proofs.C10.docForm hc hbase hok hrel⟩

/-- the `@context` member of the encoder's document is the context object of theorem (a) -/
theorem encoder_doc_context [DecidableEq β] (cfg : Cfg β) (d : List (DQuad β)) (ord ord2 : List (Term β)) (doc : Json)
    (h : encode cfg d ord ord2 = some doc) :
    ∃ body, doc = .obj (body ++
      (if Proofs.C10.ctxMs cfg.base (declared cfg d ord ord2) = [] then []
       else [(kContext, .obj (Proofs.C10.ctxMs cfg.base (declared cfg d ord ord2)))])) := by
  unfold encode at h
  simp only [] at h
  split at h
  · cases h
  · rename_i rs hrs
    have hu : usedPrefixes cfg d ord ord2 = dedupStr (buildRoots (mkEnc cfg) cfg.label ((dbuild d).builder none) rs []).2 := by
      unfold usedPrefixes; simp only []; rw [hrs]
    have hd : declared cfg d ord ord2 = (dedupStr (buildRoots (mkEnc cfg) cfg.label ((dbuild d).builder none) rs []).2).filterMap
        fun p => (ctxEntry (mkEnc cfg) p).map fun ns => (p, ns) := by
      unfold declared; rw [hu]
    rw [Proofs.C10.ctxMembers_eq, ← hd] at h
    cases hcb : cfg.base with
    | none =>
      simp only [hcb] at h
      simp only [Proofs.C10.ctxMs]
      split at h
      · rename_i ms _
        simp only [Option.some.injEq] at h
        exact ⟨ms, h.symm⟩
      · simp only [Option.some.injEq] at h
        exact ⟨[(kGraph, .arr _)], by rw [← h]; rfl⟩
    | some b =>
      simp only [hcb] at h
      simp only [Proofs.C10.ctxMs]
      split at h
      · rename_i ms _
        simp only [Option.some.injEq] at h
        exact ⟨ms, h.symm⟩
      · simp only [Option.some.injEq] at h
        exact ⟨[(kGraph, .arr _)], by rw [← h]; rfl⟩

/-- the hypotheses of (b) for one IRI -/
def IriHyp (E : Enc) (used names : List Str) (v : Str) : Prop :=
  absIri v = true ∧ schemeFree names v = true ∧ compactOK E v = true ∧
    ∀ p r, compactPrefix E v = some (p, r) → p ∈ used ∧ pfxNameOK p = true

/-- **(c1) One statement is read back.** Under an active context as in (a): the member name
    `buildResource` files an ObjectStatement `p o` under classifies as the property `p` (plain term
    definition), and the JSON value it writes for `o` — `{"@id": …}` for an IRI (not a value of `@type`) or a
    blank node, a string, a typed or language-tagged value object for a literal that is not written as a
    native number / boolean — evaluates to exactly the quad `s p o`, with blank nodes relabelled by `label`.
    This is the statement level of the missing document induction (c); the nesting of AnonResources, the
    grouping by member name, `@type` arrays and the root level are not covered. -/
theorem encoder_statement_read [DecidableEq β] (E : Enc) (bs : Option Str) (used names : List Str) (c : Ctx)
    (hc : Proofs.C10.GoodCtx E bs used names c) (hbase : bs.isSome = E.base.isSome)
    (label : β → Str) (hne : ∀ b, label b ≠ []) (p : Str) (o : Term β) (used0 : List Str)
    (hp : IriHyp E used names p) (hwf : wfObj o = true)
    (hiri : ∀ v, o = .iri v → IriHyp E used names v)
    (hdt : ∀ lex dt lang, o = .lit lex dt lang → dt ≠ xsdString → IriHyp E used names dt)
    (hrel : ∀ v, o = .iri v → ∀ b, bs = some b → relOK E names b v = true)
    (hnn : ∀ lex dt lang, o = .lit lex dt lang → (dt == xsdInteger || dt == xsdDouble || dt == xsdBoolean) = false)
    (hty : ∀ v, o = .iri v → p ≠ rdfType) :
    classifyKey c (buildStmt E label (.obj p o) used0).1 = .prop p TermDef.plain ∧
      ∀ g s n, evalItem c TermDef.plain g s p (buildStmt E label (.obj p o) used0).2.1 n =
        some ([quad s p (outTerm label o) g], n) := by
  have cv : ∀ v, IriHyp E used names v → Proofs.C10.IriOK E used names v := fun v h =>
    ⟨h.1, h.2.1, h.2.2.1, fun p r e => (h.2.2.2 p r e).1, fun p r e _ => (h.2.2.2 p r e).2⟩
  have hkey := Proofs.C10.classifyKey_vocab hc (cv p hp)
  cases o with
  | iri v =>
    have hne' := hty v rfl
    simp only [buildStmt, hne', if_false]
    refine ⟨hkey, fun g s n => ?_⟩
    exact Proofs.C10.evalItem_iriObj hc hbase (cv v (hiri v rfl)) (hrel v rfl) g s p n
  | bnode b =>
    simp only [buildStmt]
    exact ⟨hkey, fun g s n => Proofs.C10.evalItem_bnodeObj label hne c g s p b n⟩
  | lit lex dt lang =>
    simp only [buildStmt]
    refine ⟨hkey, fun g s n => ?_⟩
    exact Proofs.C10.evalItem_litObj hc lex dt lang hwf (hnn lex dt lang rfl)
      (fun h => cv dt (hdt lex dt lang rfl h)) g s p n

/-- **(c) The natural hypotheses imply the certificate** — the statement that closes the encoder
    direction except for `structOK`. Hypotheses, all decidable or plain: the blank node label provider
    never returns the empty string (the decidable `labelsOK cfg d` restricts this to the nodes of `d`; the
    theorem is stated with the provider-wide form); the iteration orders of the two passes of
    `ExportResources` only contain subjects of the default graph; `WFDataset`, `noNativeTyped`, `ctxOK`,
    `locOK` (local conditions, see Props/C10Defs.lean) and `structOK` (the exported forest validates). -/
def encCert_of_natural [DecidableEq β] : Prop :=
  ∀ (mode11 : Bool) (base : Option Str) (cfg : Cfg β) (d : List (DQuad β)) (ord ord2 : List (Term β)),
    (∀ b, cfg.label b ≠ []) → (∀ s ∈ ord, s ∈ defaultOrd d) → (∀ s ∈ ord2, s ∈ defaultOrd d) →
    WFDataset d → noNativeTyped d = true → ctxOK cfg d ord ord2 = true →
    locOK cfg d ord ord2 = true → structOK cfg d ord ord2 = true →
    encCert mode11 base cfg d ord ord2 = true

/-- PROVED: the document-level induction. The node objects `buildResource` produces — nested
    AnonResources, statements grouped by member name, `@type` values and arrays, `{"@id": …}` references,
    value objects — evaluate under the fragment semantics `toRdf`, in both processing modes and for every
    document base, to exactly `denForest` of the exported forest; the document is well-formed JSON
    (`Json.wf`); a single item is the document itself, several (or none) sit in `@graph`; every prefix a
    compaction uses is declared in the `@context` (a)–(b). -/
theorem encCert_of_natural_holds [DecidableEq β] : encCert_of_natural (β := β) :=
  fun mode11 base cfg d ord ord2 hne hord hord2 hwf hnn hctx hloc hst =>
    Proofs.C10.encCert_holds mode11 base cfg d ord ord2 hne hord hord2 hwf hnn hctx hloc hst

/-- The forest of the exported resources exists for every configuration, every dataset and every pair of
    iteration orders: the tagged export terminates within the fuel `|d|+1` (C17's termination theorem for the
    repaired export, transferred to the tagged copy `exportT`). -/
theorem encoder_forest_exists [DecidableEq β] (cfg : Cfg β) (d : List (DQuad β)) (ord ord2 : List (Term β)) :
    (encForest cfg d ord ord2).isSome :=
  Proofs.C10.encForest_isSome cfg d ord ord2

/-- **The document is read as the exported forest — WITHOUT `structOK`.** Under the hypotheses of
    `encCert_of_natural` except `structOK`, the encoder produces a document, the forest exists, and the
    fragment semantics reads the document as exactly `denForest` of that forest (both processing modes,
    every document base). What `structOK` (= `forestOK F d`) adds is only that this forest is the dataset
    up to blank node renaming — a statement about the resource-list export alone (C17), still a hypothesis
    of `encoder_roundtrip_natural2_partial`. -/
theorem encoder_document_read [DecidableEq β] (mode11 : Bool) (base : Option Str) (cfg : Cfg β)
    (d : List (DQuad β)) (ord ord2 : List (Term β))
    (hne : ∀ b, cfg.label b ≠ []) (hord : ∀ s ∈ ord, s ∈ defaultOrd d) (hord2 : ∀ s ∈ ord2, s ∈ defaultOrd d)
    (hwf : WFDataset d) (hnn : noNativeTyped d = true) (hctx : ctxOK cfg d ord ord2 = true)
    (hloc : locOK cfg d ord ord2 = true) :
    ∃ doc F, encode cfg d ord ord2 = some doc ∧ encForest cfg d ord ord2 = some F ∧
      toRdf mode11 base doc = some (denForest cfg.label F (encStart F)).1 :=
  Proofs.C10.doc_reads_forest mode11 base cfg d ord ord2 hne hord hord2 hwf hnn hctx hloc

/-- **Encoder round trip under natural hypotheses (partial).** For every configuration (base, prefixes,
    buffering, injective never-empty labels), every well-formed dataset without natively written datatypes and
    all iteration orders of the subject map: if the declared `@context` is usable (`ctxOK`), every IRI is
    shortened invertibly (`locOK`) and the exported forest validates (`structOK`), then the fragment
    semantics reads the encoder's document as a dataset isomorphic to the input.
    GAP (why `_partial`): `structOK` is still a hypothesis — a decidable check on the export of the
    resource-list builder alone (no JSON-LD involved; it implies that `d` is a default-graph dataset). It
    is what C17's `flatten_export_repaired` expresses through `NewTriples`, but it is not derived from that
    theorem here; `compactOK` / `relOK` inside `locOK` are local restatements of C13's `compact_expand` /
    `relativize_sound` through the UTF-8 conversions and are not derived from C13 either. -/
theorem encoder_roundtrip_natural2_partial [DecidableEq β] (mode11 : Bool) (base : Option Str) (cfg : Cfg β)
    (hl : Function.Injective cfg.label) (hne : ∀ b, cfg.label b ≠ []) (d : List (DQuad β)) (ord ord2 : List (Term β))
    (hord : ∀ s ∈ ord, s ∈ defaultOrd d) (hord2 : ∀ s ∈ ord2, s ∈ defaultOrd d)
    (hwf : WFDataset d) (hnn : noNativeTyped d = true) (hctx : ctxOK cfg d ord ord2 = true)
    (hloc : locOK cfg d ord ord2 = true) (hst : structOK cfg d ord ord2 = true) :
    ∃ doc out, encode cfg d ord ord2 = some doc ∧ toRdf mode11 base doc = some out ∧ Spec.IsoQ out d :=
  encoder_roundtrip_partial mode11 base cfg hl d ord ord2
    (encCert_of_natural_holds mode11 base cfg d ord ord2 hne hord hord2 hwf hnn hctx hloc hst)

/-! ### Non-vacuity: a dataset with a named graph, a shared blank node and a language-tagged literal -/

namespace Witness

def s : Term Nat := .iri (asc "http://e.org/s")
def p : Str := asc "http://e.org/v/p"

/-- `<s> <p> _:0 . _:0 <p> "x" . _:0 <p> "y"@en <s>` -/
def d : List (DQuad Nat) :=
  [⟨⟨s, p, .bnode 0⟩, none⟩,
   ⟨⟨.bnode 0, p, .lit (asc "x") xsdString none⟩, none⟩,
   ⟨⟨.bnode 0, p, .lit (asc "y") rdfLangString (some (asc "en"))⟩, some s⟩]

/-- the default-graph part: what the encoder can write -/
def d0 : List (DQuad Nat) := d.take 2

def name (n : Nat) : Str := natDigits n

/-- `{"v": "http://e.org/v/", "q": {"@id": "v:p", "@container": "@set"}}` -/
def ctx : Json :=
  .obj [(asc "v", .str (asc "http://e.org/v/")), (asc "q", .obj [(kId, .str (asc "v:p")), (kContainer, .str kSet)])]

/-- a local context for embedded node objects: `{"w": "http://e.org/w/", "@language": null}` -/
def localCtx : Json := .obj [(asc "w", .str (asc "http://e.org/w/")), (kLanguage, .null)]

def ch : Choices :=
  { mode11 := true, base := none, context := some ctx, localContext := some localCtx, nest := true, lists := true, anonTop := true,
    natives := true, useType := true, compactGroups := true, shape := 1, seed := 0 }

def cfg : Cfg Nat := { base := none, prefixes := [(asc "v", asc "http://e.org/v/")], buffered := false, label := name }

theorem wf : WFDataset d := by decide

/-- the hypotheses of `write_denotes` are satisfiable, and on this instance the writer keeps a compacted,
    validated document (it does not fall back) -/
theorem validated : (tryWrite name d ch).isSome = true := by decide

/-- the certificate of `encoder_roundtrip_partial` holds on this instance -/
theorem cert : encCert true none cfg d0 (defaultOrd d0) (defaultOrd d0) = true := by decide

/-- the conditions of the full statement hold on this instance as well -/
theorem natural : WFDataset d0 ∧ defaultGraphOnly d0 = true ∧ noNativeTyped d0 = true ∧ schemeClash cfg d0 = false := by
  decide


/-- the hypotheses of `encCert_of_natural` / of theorems (a), (b) hold on this instance -/
theorem natural2 : labelsOK cfg d0 = true ∧ ctxOK cfg d0 (defaultOrd d0) (defaultOrd d0) = true ∧
    locOK cfg d0 (defaultOrd d0) (defaultOrd d0) = true ∧ structOK cfg d0 (defaultOrd d0) (defaultOrd d0) = true ∧
    declared cfg d0 (defaultOrd d0) (defaultOrd d0) = [(asc "v", asc "http://e.org/v/")] := by
  decide

/-- … and the hypotheses of (b) for the predicate `p`: it is shortened to `v:p` through the used prefix `v` -/
example : compactPrefix (mkEnc cfg) p = some (asc "v", asc "p") ∧ compactOK (mkEnc cfg) p = true ∧
    schemeFree [asc "v"] p = true ∧ pfxNameOK (asc "v") = true ∧ (compactVocabIRI (mkEnc cfg) p).1 = asc "v:p" := by
  decide

/-! #### Necessity witnesses: dropping one hypothesis, the certificate fails in the model.
    Replays on the Go encoder + decoder (harness, histogram `encode:witness:*`) are recorded in
    props/C10.json `assumptions`: N2 (known C10-K1 / C13-K3) and N4 (known finding C10-K2) fail in Go as well; N2' is
    the regression of the repaired defect C10-K5, N3/N5/N6 are outside the property's quantifier, N1 round-trips in Go (the
    hypothesis is a limit of the fragment semantics, which refuses unknown `@…` members of a context). -/

def lit (x : String) : Term Nat := .lit (asc x) xsdString none

/-- N1 `ctxOK` (prefix name `@1`) -/
example : let c : Cfg Nat := { cfg with prefixes := [(asc "@1", asc "http://e.org/v/")] }
    ctxOK c d0 (defaultOrd d0) (defaultOrd d0) = false ∧ encCert true none c d0 (defaultOrd d0) (defaultOrd d0) = false := by
  decide

/-- N2 `locOK`/`relOK`: base `http://e.org/doc#f` (carries a fragment), subject equal to the base: written
    as the empty reference, which RFC 3986 resolves to the base without its fragment (C13-K3 / C10-K1) -/
example : let c : Cfg Nat := { cfg with base := some (asc "http://e.org/doc#f"), prefixes := [] }
    let dd : List (DQuad Nat) := [⟨⟨.iri (asc "http://e.org/doc#f"), p, lit "x"⟩, none⟩]
    locOK c dd (defaultOrd dd) (defaultOrd dd) = false ∧ ctxOK c dd (defaultOrd dd) (defaultOrd dd) = true ∧
      structOK c dd (defaultOrd dd) (defaultOrd dd) = true ∧
      encCert true none c dd (defaultOrd dd) (defaultOrd dd) = false := by
  decide

/-- N2' regression for fix c10-enc-5-rel-colon (commit ed9c0d1, finding C10-K5): base `http://e.org/doc`,
    subject `http://e.org/doc#a://b`. The unrepaired encoder wrote `"@id": "#a://b"`, which a reader takes
    for an absolute IRI; the repaired one writes the IRI in full, all hypotheses and the certificate hold. -/
example : let c : Cfg Nat := { cfg with base := some (asc "http://e.org/doc"), prefixes := [] }
    let dd : List (DQuad Nat) := [⟨⟨.iri (asc "http://e.org/doc#a://b"), p, lit "x"⟩, none⟩]
    (compactDocumentIRI (mkEnc c) (asc "http://e.org/doc#a://b")).1 = asc "http://e.org/doc#a://b" ∧
      locOK c dd (defaultOrd dd) (defaultOrd dd) = true ∧ ctxOK c dd (defaultOrd dd) (defaultOrd dd) = true ∧
      encCert true none c dd (defaultOrd dd) (defaultOrd dd) = true := by
  decide

/-- N3 `labelsOK`: an empty label on a blank node referenced twice -/
example : let c : Cfg Nat := { cfg with label := fun _ => [] }
    let dd : List (DQuad Nat) := [⟨⟨s, p, .bnode 0⟩, none⟩, ⟨⟨s, p ++ asc "2", .bnode 0⟩, none⟩, ⟨⟨.bnode 0, p, lit "x"⟩, none⟩]
    labelsOK c dd = false ∧ structOK c dd (defaultOrd dd) (defaultOrd dd) = true ∧
      encCert true none c dd (defaultOrd dd) (defaultOrd dd) = false := by
  decide

/-- N4 `ctxOK` (scheme clash, finding C10-K2): prefix `urn` declared, object `urn:x:y` -/
example : let c : Cfg Nat := { cfg with prefixes := [(asc "urn", asc "http://e.org/v/")] }
    let dd : List (DQuad Nat) := [⟨⟨s, p, .iri (asc "urn:x:y")⟩, none⟩]
    ctxOK c dd (defaultOrd dd) (defaultOrd dd) = false ∧ locOK c dd (defaultOrd dd) (defaultOrd dd) = true ∧
      encCert true none c dd (defaultOrd dd) (defaultOrd dd) = false := by
  decide

/-- N5 `structOK` (named graph: the encoder drops the quad) -/
example : structOK cfg d (defaultOrd d) (defaultOrd d) = false ∧
    encCert true none cfg d (defaultOrd d) (defaultOrd d) = false := by
  decide

/-- N6 `noNativeTyped`: `"-0"^^xsd:integer` is written as the number `-0` and read back as `"0"` -/
example : let dd : List (DQuad Nat) := [⟨⟨s, p, .lit (asc "-0") xsdInteger none⟩, none⟩]
    noNativeTyped dd = false ∧ structOK cfg dd (defaultOrd dd) (defaultOrd dd) = true ∧
      encCert true none cfg dd (defaultOrd dd) (defaultOrd dd) = false := by
  decide

end Witness


/-- non-vacuity of `IriHyp` (and of the hypotheses of `encoder_statement_read`): the predicate of the witness -/
example : IriHyp (mkEnc Witness.cfg) [asc "v"] [asc "v"] Witness.p :=
  ⟨by decide, by decide, by decide, fun p r h => by
    have : compactPrefix (mkEnc Witness.cfg) Witness.p = some (asc "v", asc "p") := by decide
    rw [this] at h
    simp only [Option.some.injEq, Prod.mk.injEq] at h
    obtain ⟨rfl, rfl⟩ := h
    exact ⟨by decide, by decide⟩⟩

end RdfModel.C10
