/-
  RdfModel.Model.GoTime — executable model of Go's `time.Parse(layout, value)` and
  `Time.Format(layout)` (go1.25 src/time/format.go) RESTRICTED to the layout elements that the
  date/time family of ontology/xsd/xsdtype uses, and of the nine Map functions / AsObjectValue /
  TermEquals built on them (date.go, date_time.go, date_time_stamp.go, time.go, g_*.go).
  Core-only, total; strings are byte lists.

  Which layouts each Map function tries, in which order, whether it collapses white space and which
  datatype IRI it writes is NOT written here: it is the `TimeFact` regenerated from the Go source on
  every run (T2, `Gen/XsdFacts.lean`). The layout string is split into elements by
  `Xsd.layoutToks` (model of `time.nextStdChunk`, shared with Model/Xsd.lean).

  Function by function (names of format.go):
  * `getnum2` / `getnum1`   getnum(s, fixed=true) / getnum(s, fixed=false)
  * `getYear`               case stdLongYear: four bytes, first a digit, atoi of the four
  * `atoi`                  atoi: optional sign, digits to the end (the empty digit string is 0)
  * `parseNanos`            parseNanoseconds(value, nbytes)
  * `step`                  one iteration of the `for` loop of `parse`: the `switch std & stdMask` for
                            stdLongYear, stdZeroMonth, stdZeroDay, stdHour, stdZeroMinute, stdZeroSecond
                            (incl. "fractional second in the input but not in the layout"),
                            stdFracSecond0, stdISO8601ColonTZ, and `skip` for a literal byte
  * `parseToks`             the loop, ending with the "extra text" test
  * `timeParse`             `parse`: the loop, defaults for unset month/day, the day-of-month range test.
                            The result is the set of local variables (year, month, day, hour, min, sec,
                            nsec, zone offset option), not a Unix instant: Date(..., UTC/FixedZone) and
                            the accessors/Format of the resulting Time give these fields back (all are
                            in range), which the T3 harness checks field by field.
  * `timeFormat`            Time.Format for the same elements (appendInt width 4/2, formatNano for
                            ".000…", "Z07:00": `Z` for offset 0, else ±hh:mm of offset/60)
  * `mapTime`, `lexTime`, `termEquals`   xsdtype.Map<T>, v.AsObjectValue().LexicalForm, v.TermEquals

  Restriction: layouts with at most ONE zone element (all layouts in use). With two, Go prefers a
  `Z` read by either element over a numeric offset (`if z != nil` is tested before `zoneOffset`);
  here the last one read wins. The driver answers `unmodelled` for such layouts.

  Besides the fields, the parse records HOW the text was read (`Notes`): one-digit hour, comma as
  fraction separator, a sign inside a ".000000000" field, a zone offset outside XSD's ±14:00, a
  non-zero fraction read under a layout that has no fraction element. These are not part of the
  value; they name the branches where time.Parse is laxer than the XSD lexical spaces and are what
  the deviation classes of Props/C20Time.lean are defined by.
-/
import RdfModel.Model.Xsd
namespace RdfModel.GoTime
open RdfModel
open RdfModel.Xsd (Bytes Tok layoutToks isDigit TimeFact TimeTy TermArg NumErr argOf nextIsFrac)

/-- value of an ASCII digit -/
def dig (b : Nat) : Nat := b - 0x30

/-- `time.getnum(s, true)`: exactly two digits -/
def getnum2 : Bytes → Option (Nat × Bytes)
  | a :: b :: r => if isDigit a && isDigit b then some (dig a * 10 + dig b, r) else none
  | _ => none

/-- `time.getnum(s, false)`: one or two digits; the flag says "one digit" -/
def getnum1 : Bytes → Option (Nat × Bytes × Bool)
  | [] => none
  | [a] => if isDigit a then some (dig a, [], true) else none
  | a :: b :: r =>
    if !isDigit a then none
    else if isDigit b then some (dig a * 10 + dig b, r, false)
    else some (dig a, b :: r, true)

/-- `case stdLongYear`: `len(value) < 4 || !isDigit(value, 0)` → errBad; `atoi(value[0:4])`
    (no sign possible: the first byte is a digit; four digits cannot overflow) -/
def getYear : Bytes → Option (Nat × Bytes)
  | a :: b :: c :: d :: r =>
    if isDigit a && isDigit b && isDigit c && isDigit d
    then some (((dig a * 10 + dig b) * 10 + dig c) * 10 + dig d, r) else none
  | _ => none

/-- value of a digit string, most significant first -/
def natVal : Bytes → Nat → Nat
  | [], acc => acc
  | b :: r, acc => natVal r (acc * 10 + dig b)

/-- `time.atoi` (at most 9 digits here, no overflow): `(signed?, negative?, magnitude)` -/
def atoi (s : Bytes) : Option (Bool × Bool × Nat) :=
  let go (signed neg : Bool) (r : Bytes) : Option (Bool × Bool × Nat) :=
    if r.all isDigit then some (signed, neg, natVal r 0) else none
  match s with
  | b :: r => if b = 0x2D then go true true r else if b = 0x2B then go true false r else go false false s
  | [] => go false false []

/-- how the fraction was written -/
structure Frac where
  ns : Nat
  comma : Bool
  signed : Bool
  deriving DecidableEq, Repr

/-- `time.parseNanoseconds(value, nbytes)`, `value` at least `nbytes` long; `none` = errBad or
    "fractional second out of range" -/
def parseNanos (value : Bytes) (nbytes : Nat) : Option Frac :=
  match value with
  | [] => none
  | c :: _ =>
    if ¬(c = 0x2E ∨ c = 0x2C) then none
    else
      let nb := if nbytes > 10 then 10 else nbytes
      match atoi ((value.take nb).drop 1) with
      | none => none
      | some (signed, neg, m) =>
        if neg ∧ m > 0 then none
        else some { ns := m * 10 ^ (10 - nb), comma := c = 0x2C, signed := signed }

/-- the value being constructed: the local variables of `time.parse` -/
structure PT where
  year : Nat := 0
  month : Option Nat := none       -- Go: -1 = not set
  day : Option Nat := none
  hour : Nat := 0
  min : Nat := 0
  sec : Nat := 0
  nsec : Nat := 0
  /-- `none`: no zone element read (Go: z = nil, zoneOffset = -1 → UTC); `Z` ↦ some 0; ±hh:mm ↦ seconds east -/
  zone : Option Int := none
  deriving DecidableEq, Repr

/-- how the text was read (not part of the value) -/
structure Notes where
  hour1 : Bool := false       -- the hour had one digit
  comma : Bool := false       -- ',' introduced the fraction
  fsign : Bool := false       -- a sign inside a ".000000000" field
  tzWide : Bool := false      -- zone offset not within XSD's (('0' digit | '1' [0-3]) ':' minuteFrag | '14:00')
  fracDropped : Bool := false -- non-zero fraction read by the "not in the layout" rule
  deriving DecidableEq, Repr

def Notes.clean (n : Notes) : Bool := !n.hour1 && !n.comma && !n.fsign && !n.tzWide

structure PS where
  t : PT := {}
  n : Notes := {}
  deriving DecidableEq, Repr

/-- XSD's bound on a written zone offset -/
def tzInXsd (hr mm : Nat) : Bool := (hr ≤ 13 && mm ≤ 59) || (hr == 14 && mm == 0)

/-- one iteration of the loop of `time.parse`; `ts` = the elements that follow (for the
    `nextStdChunk(layout)` look-ahead of the seconds case) -/
def step (ts : List Tok) (tok : Tok) (st : PS) (v : Bytes) : Option (PS × Bytes) :=
  match tok with
  | .unknown => none
  | .lit b =>
    (match v with
     | c :: r => if c = b then some (st, r) else none
     | [] => none)
  | .year =>
    (match getYear v with
     | some (y, r) => some ({ st with t := { st.t with year := y } }, r)
     | none => none)
  | .month =>
    (match getnum2 v with
     | some (m, r) => if m = 0 ∨ 12 < m then none else some ({ st with t := { st.t with month := some m } }, r)
     | none => none)
  | .day =>
    (match getnum2 v with
     | some (d, r) => some ({ st with t := { st.t with day := some d } }, r)
     | none => none)
  | .hour =>
    (match getnum1 v with
     | some (h, r, one) =>
       if 24 ≤ h then none
       else some ({ t := { st.t with hour := h }, n := { st.n with hour1 := one } }, r)
     | none => none)
  | .minute =>
    (match getnum2 v with
     | some (m, r) => if 60 ≤ m then none else some ({ st with t := { st.t with min := m } }, r)
     | none => none)
  | .second =>
    (match getnum2 v with
     | some (s, r) =>
       if 60 ≤ s then none
       else
         (match r with
          | p :: d :: r2 =>
            if (p = 0x2E ∨ p = 0x2C) ∧ isDigit d = true ∧ nextIsFrac ts = false then
              -- fractional second in the input but not in the layout
              let n := 2 + (r2.takeWhile isDigit).length
              (match parseNanos r n with
               | some f =>
                 some ({ t := { st.t with sec := s, nsec := f.ns },
                         n := { st.n with comma := f.comma, fracDropped := decide (f.ns ≠ 0) } }, r.drop n)
               | none => none)
            else some ({ st with t := { st.t with sec := s } }, r)
          | _ => some ({ st with t := { st.t with sec := s } }, r))
     | none => none)
  | .frac0 n _ =>
    let nd := 1 + n
    if v.length < nd then none
    else
      (match parseNanos v nd with
       | some f =>
         some ({ t := { st.t with nsec := f.ns }, n := { st.n with comma := f.comma, fsign := f.signed } }, v.drop nd)
       | none => none)
  | .tz =>
    (match v with
     | [] => none
     | z :: r0 =>
       if z = 0x5A then some ({ st with t := { st.t with zone := some 0 } }, r0)
       else
         (match v with
          | sg :: h1 :: h2 :: c :: m1 :: m2 :: r =>
            if c ≠ 0x3A then none
            else
              (match getnum2 [h1, h2], getnum2 [m1, m2] with
               | some (hr, _), some (mm, _) =>
                 if hr > 24 ∨ mm > 60 then none
                 else
                   let off : Int := ((hr * 60 + mm) * 60 : Nat)
                   let st' (o : Int) : PS :=
                     { t := { st.t with zone := some o }, n := { st.n with tzWide := !tzInXsd hr mm } }
                   if sg = 0x2B then some (st' off, r)
                   else if sg = 0x2D then some (st' (-off), r)
                   else none
               | _, _ => none)
          | _ => none))

/-- the loop of `time.parse`; at the end of the layout any remaining text is an error -/
def parseToks : List Tok → PS → Bytes → Option PS
  | [], st, v => if v = [] then some st else none
  | t :: ts, st, v => (step ts t st v).bind fun p => parseToks ts p.1 p.2

def isLeap (y : Nat) : Bool := y % 4 == 0 && (y % 100 != 0 || y % 400 == 0)

/-- `time.daysIn(Month(m), year)` -/
def daysIn (m y : Nat) : Nat :=
  if m = 2 then (if isLeap y then 29 else 28)
  else if m = 4 ∨ m = 6 ∨ m = 9 ∨ m = 11 then 30 else 31

/-- the tests after the loop: unset month/day default to January / 1, then "day out of range" -/
def dayOK (t : PT) : Bool :=
  let m := t.month.getD 1
  let d := t.day.getD 1
  decide (1 ≤ d) && decide (d ≤ daysIn m t.year)

/-- `time.Parse(layout, value)`, the layout given as its elements -/
def parseWith (toks : List Tok) (value : Bytes) : Option PS :=
  match parseToks toks {} value with
  | some st => if dayOK st.t then some st else none
  | none => none

def timeParse (layout value : Bytes) : Option PS := parseWith (layoutToks layout) value

/-! ### Time.Format -/

/-- `appendInt(b, x, 2)` for x < 100 -/
def pad2 (n : Nat) : Bytes := [0x30 + n / 10 % 10, 0x30 + n % 10]
/-- `appendInt(b, x, 4)` for x < 10000 -/
def pad4 (n : Nat) : Bytes := [0x30 + n / 1000 % 10, 0x30 + n / 100 % 10, 0x30 + n / 10 % 10, 0x30 + n % 10]
/-- nine digits of the nanoseconds (`formatNano`), most significant first -/
def pad9 (n : Nat) : Bytes :=
  [0x30 + n / 100000000 % 10, 0x30 + n / 10000000 % 10, 0x30 + n / 1000000 % 10, 0x30 + n / 100000 % 10,
   0x30 + n / 10000 % 10, 0x30 + n / 1000 % 10, 0x30 + n / 100 % 10, 0x30 + n / 10 % 10, 0x30 + n % 10]

/-- the text one layout element contributes. Fields are those of a successful parse (year < 10000,
    month/day/hour/min/sec two digits, zone |offset| ≤ 25 h), which is all the Map functions format. -/
def fmtTok (t : PT) : Tok → Bytes
  | .lit b => [b]
  | .year => pad4 t.year
  | .month => pad2 (t.month.getD 1)
  | .day => pad2 (t.day.getD 1)
  | .hour => pad2 t.hour
  | .minute => pad2 t.min
  | .second => pad2 t.sec
  | .frac0 n sep => sep :: (pad9 t.nsec).take (if n < 9 then n else 9)
  | .tz =>
    -- `if offset == 0 { 'Z' }`; `zone := offset / 60` (Go division truncates toward zero); sign from zone
    let off : Int := t.zone.getD 0
    if off = 0 then [0x5A]
    else
      let zone : Int := Int.tdiv off 60
      let a := zone.natAbs
      (if zone < 0 then 0x2D else 0x2B) :: (pad2 (a / 60) ++ [0x3A] ++ pad2 (a % 60))
  | .unknown => []

def formatWith (toks : List Tok) (t : PT) : Bytes := toks.flatMap (fmtTok t)

/-- `t.Format(layout)` -/
def timeFormat (layout : Bytes) (t : PT) : Bytes := formatWith (layoutToks layout) t

/-! ### xsdtype.Map<T> / AsObjectValue / TermEquals of the date/time family -/

/-- the Go value `struct { Time time.Time; Layout string }` -/
structure TVal where
  t : PT
  layout : Bytes
  deriving DecidableEq, Repr

/-- first layout of the list that parses -/
def firstParse : List Bytes → Bytes → Option (TVal × Notes)
  | [], _ => none
  | l :: ls, a =>
    match timeParse l a with
    | some st => some ({ t := st.t, layout := l }, st.n)
    | none => firstParse ls a

/-- `xsdtype.MapDate` …: white-space collapse, then the layouts in order -/
def mapTime (f : TimeFact) (s : Bytes) : Except NumErr (TVal × Notes) :=
  let a := argOf f.collapse s
  if f.layouts.any (fun l => (layoutToks l).contains .unknown) then .error .unmodelled
  else
    match firstParse f.layouts a with
    | some r => .ok r
    | none => .error .syntax

/-- `v.AsObjectValue().(rdf.Literal).LexicalForm` = `v.Time.Format(v.Layout)` -/
def lexTime (v : TVal) : Bytes := timeFormat v.layout v.t

/-- `v.TermEquals(t)`; `none` = the method's shape was not the expected one (T2) -/
def termEquals (f : TimeFact) (v : TVal) (t : TermArg) : Option Bool :=
  match t with
  | .notLiteral => some false
  | .literal dt lex =>
    if ¬f.eqDatatypeSame then none
    else if dt ≠ f.datatype then some false
    else some (decide (lexTime v = lex))

/-- what the harness compares: same calendar fields and same zone offset (Go's `time.Time` cannot
    tell "no zone" from UTC; the Layout field is presentation) -/
def PT.same (a b : PT) : Bool :=
  a.year == b.year && a.month.getD 1 == b.month.getD 1 && a.day.getD 1 == b.day.getD 1 && a.hour == b.hour
  && a.min == b.min && a.sec == b.sec && a.nsec == b.nsec && a.zone.getD 0 == b.zone.getD 0

end RdfModel.GoTime
