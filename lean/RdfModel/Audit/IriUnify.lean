import RdfModel.Props.IriUnify
#print axioms RdfModel.IRIU.goUrl_accepts_eq_full_partial
#print axioms RdfModel.IRIU.goUrl_accepts_eq_full_witness
#print axioms RdfModel.IRIU.urlOk_unified
#print axioms RdfModel.IRIU.urlOk_switch_noop
#print axioms RdfModel.IRIU.relativize_sound_code
#print axioms RdfModel.IRIU.relativize_sound_code_relative_witness
#print axioms RdfModel.IRIU.relativize_relative_suffix
#print axioms RdfModel.IRIU.relativize_sound_rfc_partial
#print axioms RdfModel.IRIU.relativize_no_base_panic
#print axioms RdfModel.IRIU.relativize_special_no_authority_witness
