/-
  C10 helper lemmas, part 9 (encoder direction): the exported resources and the document.
-/
import RdfModel.Proofs.C10EncBuild
import RdfModel.Proofs.C17Dataset
namespace RdfModel.Proofs.C10
open RdfModel RdfModel.Desc RdfModel.JL RdfModel.JLEnc RdfModel.C10

variable {β : Type} [DecidableEq β]

/-! ### the tagged export is the export -/

theorem foldStmtsT_untag (B : Builder β)
    (recT : Term β → List β → Option (List (TStmt β) × List β))
    (recV : Term β → List β → Option (List (Stmt β) × List β))
    (hrec : ∀ s V lt V', recT s V = some (lt, V') → recV s V = some (untags lt, V')) :
    ∀ (l : List (PO β)) (V : List β) (lt : List (TStmt β)) (V' : List β),
      foldStmtsT B recT l V = some (lt, V') → B.foldStmtsV Opts.default recV l V = some (untags lt, V') := by
  intro l
  induction l with
  | nil =>
    intro V lt V' h
    simp only [foldStmtsT, Option.some.injEq, Prod.mk.injEq] at h
    obtain ⟨rfl, rfl⟩ := h
    simp [Builder.foldStmtsV, untags]
  | cons po rest ih =>
    intro V lt V' h
    obtain ⟨p, o⟩ := po
    cases o with
    | bnode b =>
      simp only [foldStmtsT] at h
      by_cases hc : (B.refCount b == 1 && !decide (b ∈ V)) = true
      · simp only [hc, if_true] at h
        have hV : B.isInlV Opts.default V (Term.bnode b) = true := by
          simpa [Builder.isInlV, Opts.default] using hc
        cases hr : recT (Term.bnode b) V with
        | none => simp [hr] at h
        | some r =>
          obtain ⟨lb, V1⟩ := r
          simp only [hr] at h
          cases hf : foldStmtsT B recT rest V1 with
          | none => simp [hf] at h
          | some r2 =>
            obtain ⟨l2, V2⟩ := r2
            simp only [hf, Option.some.injEq, Prod.mk.injEq] at h
            obtain ⟨rfl, rfl⟩ := h
            simp [Builder.foldStmtsV, hV, hrec _ _ _ _ hr, ih _ _ _ hf, untags, untag]
      · simp only [hc, if_false, Bool.false_eq_true] at h
        have hV : B.isInlV Opts.default V (Term.bnode b) = false := by
          simpa [Builder.isInlV, Opts.default] using hc
        cases hf : foldStmtsT B recT rest V with
        | none => simp [hf] at h
        | some r2 =>
          obtain ⟨l2, V2⟩ := r2
          simp only [hf, Option.some.injEq, Prod.mk.injEq] at h
          obtain ⟨rfl, rfl⟩ := h
          simp [Builder.foldStmtsV, hV, ih _ _ _ hf, untags, untag]
    | iri v =>
      simp only [foldStmtsT] at h
      cases hf : foldStmtsT B recT rest V with
      | none => simp [hf] at h
      | some r2 =>
        obtain ⟨l2, V2⟩ := r2
        simp only [hf, Option.some.injEq, Prod.mk.injEq] at h
        obtain ⟨rfl, rfl⟩ := h
        simp [Builder.foldStmtsV, Builder.isInlV, ih _ _ _ hf, untags, untag]
    | lit a b c =>
      simp only [foldStmtsT] at h
      cases hf : foldStmtsT B recT rest V with
      | none => simp [hf] at h
      | some r2 =>
        obtain ⟨l2, V2⟩ := r2
        simp only [hf, Option.some.injEq, Prod.mk.injEq] at h
        obtain ⟨rfl, rfl⟩ := h
        simp [Builder.foldStmtsV, Builder.isInlV, ih _ _ _ hf, untags, untag]

theorem exportT_untag (B : Builder β) : ∀ (fuel : Nat) (s : Term β) (V : List β) (lt : List (TStmt β)) (V' : List β),
    exportT B fuel s V = some (lt, V') → B.exportStatementsV Opts.default fuel s V = some (untags lt, V') := by
  intro fuel
  induction fuel with
  | zero => intro s V lt V' h; simp [exportT] at h
  | succ k ih =>
    intro s V lt V' h
    simp only [exportT] at h
    simp only [Builder.exportStatementsV]
    exact foldStmtsT_untag B _ _ (ih) _ _ _ _ h

/-- the resource made from a tagged root -/
def toRes (B : Builder β) (r : Term β × List (TStmt β)) : Resource β := B.resourceOf Opts.default r.1 (untags r.2)

theorem foldRootsT_untag (B : Builder β) (fuel : Nat) (pick : Term β → List β → Bool) :
    ∀ (ord : List (Term β)) (V : List β) (rs : List (Term β × List (TStmt β))) (V' : List β),
      foldRootsT B fuel pick ord V = some (rs, V') →
      B.foldRootsV Opts.default fuel pick ord V = some (rs.map (toRes B), V') := by
  intro ord
  induction ord with
  | nil =>
    intro V rs V' h
    simp only [foldRootsT, Option.some.injEq, Prod.mk.injEq] at h
    obtain ⟨rfl, rfl⟩ := h
    simp [Builder.foldRootsV]
  | cons s ord ih =>
    intro V rs V' h
    simp only [foldRootsT] at h
    simp only [Builder.foldRootsV]
    by_cases hp : pick s V = true
    · simp only [hp, if_true] at h ⊢
      cases he : exportT B fuel s V with
      | none => simp [he] at h
      | some r =>
        obtain ⟨st, V1⟩ := r
        simp only [he] at h
        cases hf : foldRootsT B fuel pick ord V1 with
        | none => simp [hf] at h
        | some r2 =>
          obtain ⟨rs2, V2⟩ := r2
          simp only [hf, Option.some.injEq, Prod.mk.injEq] at h
          obtain ⟨rfl, rfl⟩ := h
          simp [Builder.exportResourceV, exportT_untag B fuel s V st V1 he, ih _ _ _ hf, toRes]
    · simp only [hp, if_false, Bool.false_eq_true] at h ⊢
      exact ih _ _ _ h

/-! ### where the statements come from -/

theorem foldStmtsT_pos (B : Builder β) (recT : Term β → List β → Option (List (TStmt β) × List β))
    (hrec : ∀ s V lt V', recT s V = some (lt, V') → ∀ po ∈ tposL lt, ∃ s', po ∈ B.stmts s') :
    ∀ (l : List (PO β)) (V : List β) (lt : List (TStmt β)) (V' : List β),
      foldStmtsT B recT l V = some (lt, V') → ∀ po ∈ tposL lt, po ∈ l ∨ ∃ s', po ∈ B.stmts s' := by
  intro l
  induction l with
  | nil =>
    intro V lt V' h
    simp only [foldStmtsT, Option.some.injEq, Prod.mk.injEq] at h
    obtain ⟨rfl, rfl⟩ := h
    intro po hpo; simp [tposL] at hpo
  | cons po0 rest ih =>
    intro V lt V' h
    obtain ⟨p, o⟩ := po0
    have plain : ∀ l2 V2, foldStmtsT B recT rest V = some (l2, V2) → lt = TStmt.obj p o :: l2 →
        ∀ po ∈ tposL lt, po ∈ (p, o) :: rest ∨ ∃ s', po ∈ B.stmts s' := by
      intro l2 V2 hf e po hpo
      subst e
      simp only [tposL, tpos, List.singleton_append, List.mem_cons] at hpo
      rcases hpo with rfl | hpo
      · exact Or.inl (by simp)
      · rcases ih _ _ _ hf po hpo with h' | h'
        · exact Or.inl (List.mem_cons_of_mem _ h')
        · exact Or.inr h'
    cases o with
    | bnode b =>
      simp only [foldStmtsT] at h
      by_cases hc : (B.refCount b == 1 && !decide (b ∈ V)) = true
      · simp only [hc, if_true] at h
        cases hr : recT (Term.bnode b) V with
        | none => simp [hr] at h
        | some r =>
          obtain ⟨lb, V1⟩ := r
          simp only [hr] at h
          cases hf : foldStmtsT B recT rest V1 with
          | none => simp [hf] at h
          | some r2 =>
            obtain ⟨l2, V2⟩ := r2
            simp only [hf, Option.some.injEq, Prod.mk.injEq] at h
            obtain ⟨rfl, rfl⟩ := h
            intro po hpo
            simp only [tposL, tpos, List.cons_append, List.mem_cons, List.mem_append] at hpo
            rcases hpo with rfl | hpo | hpo
            · exact Or.inl (by simp)
            · exact Or.inr (hrec _ _ _ _ hr po hpo)
            · rcases ih _ _ _ hf po hpo with h' | h'
              · exact Or.inl (List.mem_cons_of_mem _ h')
              · exact Or.inr h'
      · simp only [hc, if_false, Bool.false_eq_true] at h
        cases hf : foldStmtsT B recT rest V with
        | none => simp [hf] at h
        | some r2 =>
          obtain ⟨l2, V2⟩ := r2
          simp only [hf, Option.some.injEq, Prod.mk.injEq] at h
          exact plain l2 V2 hf h.1.symm
    | iri v =>
      simp only [foldStmtsT] at h
      cases hf : foldStmtsT B recT rest V with
      | none => simp [hf] at h
      | some r2 =>
        obtain ⟨l2, V2⟩ := r2
        simp only [hf, Option.some.injEq, Prod.mk.injEq] at h
        exact plain l2 V2 hf h.1.symm
    | lit a b c =>
      simp only [foldStmtsT] at h
      cases hf : foldStmtsT B recT rest V with
      | none => simp [hf] at h
      | some r2 =>
        obtain ⟨l2, V2⟩ := r2
        simp only [hf, Option.some.injEq, Prod.mk.injEq] at h
        exact plain l2 V2 hf h.1.symm

theorem exportT_pos (B : Builder β) : ∀ (fuel : Nat) (s : Term β) (V : List β) (lt : List (TStmt β)) (V' : List β),
    exportT B fuel s V = some (lt, V') → ∀ po ∈ tposL lt, ∃ s', po ∈ B.stmts s' := by
  intro fuel
  induction fuel with
  | zero => intro s V lt V' h; simp [exportT] at h
  | succ k ih =>
    intro s V lt V' h po hpo
    simp only [exportT] at h
    rcases foldStmtsT_pos B _ ih _ _ _ _ h po hpo with h' | h'
    · exact ⟨s, h'⟩
    · exact h'

theorem foldRootsT_pos (B : Builder β) (fuel : Nat) (pick : Term β → List β → Bool) :
    ∀ (ord : List (Term β)) (V : List β) (rs : List (Term β × List (TStmt β))) (V' : List β),
      foldRootsT B fuel pick ord V = some (rs, V') →
      ∀ r ∈ rs, r.1 ∈ ord ∧ ∀ po ∈ tposL r.2, ∃ s', po ∈ B.stmts s' := by
  intro ord
  induction ord with
  | nil =>
    intro V rs V' h
    simp only [foldRootsT, Option.some.injEq, Prod.mk.injEq] at h
    obtain ⟨rfl, rfl⟩ := h
    intro r hr; cases hr
  | cons s ord ih =>
    intro V rs V' h
    simp only [foldRootsT] at h
    by_cases hp : pick s V = true
    · simp only [hp, if_true] at h
      cases he : exportT B fuel s V with
      | none => simp [he] at h
      | some r =>
        obtain ⟨st, V1⟩ := r
        simp only [he] at h
        cases hf : foldRootsT B fuel pick ord V1 with
        | none => simp [hf] at h
        | some r2 =>
          obtain ⟨rs2, V2⟩ := r2
          simp only [hf, Option.some.injEq, Prod.mk.injEq] at h
          obtain ⟨rfl, rfl⟩ := h
          intro r hr
          rcases List.mem_cons.1 hr with rfl | hr
          · exact ⟨by simp, exportT_pos B fuel s V st V1 he⟩
          · obtain ⟨h1, h2⟩ := ih _ _ _ hf r hr
            exact ⟨List.mem_cons_of_mem _ h1, h2⟩
    · simp only [hp, if_false, Bool.false_eq_true] at h
      intro r hr
      obtain ⟨h1, h2⟩ := ih _ _ _ h r hr
      exact ⟨List.mem_cons_of_mem _ h1, h2⟩


/-! ### one exported resource -/

/-- the node object `j` of the top level / of `@graph` is read as the tree `t` -/
def RootRel (label : β → Str) (c : Ctx) (j : Json) (t : Tree β) : Prop :=
  ∃ ms id G, j = .obj ms ∧ t = .node id G ∧ (ms.map (·.1)).Nodup ∧ wfMembers ms = true ∧
    kContext ∉ ms.map (·.1) ∧ kGraph ∉ ms.map (·.1) ∧
    (∀ n, evalId c (getKey kId ms) n = some (denId label id n)) ∧
    (∀ g s dflt rest n, evalMembers c g s dflt (ms ++ rest) n =
        andThen (some (denGroups label g s G n)) (fun n1 => evalMembers c g s dflt rest n1))

structure RootFacts (E : Enc) (U names : List Str) (bs : Option Str) (r : Term β × List (TStmt β)) : Prop where
  node : wfNode r.1 = true
  subj : ∀ v, r.1 = .iri v → IriG E U names v ∧ ∀ b, bs = some b → relOK E names b v = true
  pos : ∀ po ∈ tposL r.2, POk E U names bs po

section Roots
variable {E : Enc} {label : β → Str} {c : Ctx} {U names : List Str} {bs : Option Str}

theorem evalMembers_id_cons (c : Ctx) (g : Option T) (s : T) (dflt : Bool) (x : Str) (ms : List (Str × Json)) (n : Nat) :
    evalMembers c g s dflt ((kId, .str x) :: ms) n = evalMembers c g s dflt ms n := by
  rw [evalMembers.eq_4 _ _ _ _ _ _ _ _ (by intro xs e; cases e) (by intro ms e; cases e), classifyKey_id]
  simp only [andThen_some, List.nil_append]
  cases evalMembers c g s dflt ms n with
  | none => rfl
  | some r => rfl

theorem root_rel (hc : GoodCtx E bs U names c) (hbase : bs.isSome = E.base.isSome) (hne : ∀ b, label b ≠ [])
    (B : Builder β) (r : Term β × List (TStmt β)) (t : Tree β) (hf : RootFacts E U names bs r)
    (ht1 : ∀ v, r.1 = .iri v → t = .node (.iri v) ((groupsOf E r.2).map (·.2)))
    (ht2 : ∀ b, r.1 = .bnode b →
      t = .node (if B.refCount b == 0 then .anon b else .named b) ((groupsOf E r.2).map (·.2)))
    (used0 : List Str) (hU : ∀ q ∈ (buildRoot E label B (toRes B r) used0).2, q ∈ U) :
    RootRel label c (buildRoot E label B (toRes B r) used0).1 t := by
  obtain ⟨s, lt⟩ := r
  obtain ⟨hb1, hb2, hb3⟩ := build_rel (c := c) (U := U) (names := names) (bs := bs) (E := E) (label := label) hc hbase hne lt
  have hnd := hb2 [] used0 (by simp)
  cases s with
  | lit a b d => exact absurd hf.node (by simp [wfNode])
  | iri v =>
    simp only [toRes, Builder.resourceOf, buildRoot] at hU ⊢
    obtain ⟨hvG, hvrel⟩ := hf.subj v rfl
    have hgr := hb3 [] [] used0 (fun q hq => hU q (by simp [hq])) hf.pos F2.nil
    have hv : IriOK E U names v := iriOK_of hvG (fun q hq => hU q (by simp [doc_pfx, hq]))
    have hkeys := propMembers_keys hgr
    have hnot : ∀ k', (k' = kContext ∨ k' = kId ∨ k' = kGraph) → k' ∉ (propMembers (buildStmts E label (untags lt) [] used0).1).map (·.1) := by
      intro k' hk' hm
      rw [hkeys.1] at hm
      obtain ⟨_, _, _, h4, h5, h6⟩ := hkeys.2 k' hm
      rcases hk' with e | e | e <;> contradiction
    refine ⟨_, .iri v, _, rfl, ht1 v rfl, ?_, ?_, ?_, ?_, ?_, ?_⟩
    · simp only [List.map_cons, List.nodup_cons]
      exact ⟨hnot kId (by simp), by rw [hkeys.1]; exact hnd⟩
    · simp [wfMembers, Json.wf, wfMembers_props hgr]
    · simp only [List.map_cons, List.mem_cons, not_or]
      exact ⟨by decide, hnot kContext (by simp)⟩
    · simp only [List.map_cons, List.mem_cons, not_or]
      exact ⟨by decide, hnot kGraph (by simp)⟩
    · intro n
      simp [getKey, evalId, docForm hc hbase hv hvrel, nodeRef, hvG.abs, denId]
    · intro g s dflt rest n
      rw [List.cons_append, evalMembers_id_cons]
      exact evalMembers_props label c hgr g s dflt rest n
  | bnode b =>
    simp only [toRes, Builder.resourceOf, Opts.default, Bool.true_and] at hU ⊢
    by_cases h0 : (B.refCount b == 0) = true
    · simp only [h0, if_true, buildRoot] at hU ⊢
      have hgr := hb3 [] [] used0 (fun q hq => hU q hq) hf.pos F2.nil
      have hkeys := propMembers_keys hgr
      have hnot : ∀ k', (k' = kContext ∨ k' = kId ∨ k' = kGraph) → k' ∉ (propMembers (buildStmts E label (untags lt) [] used0).1).map (·.1) := by
        intro k' hk' hm
        rw [hkeys.1] at hm
        obtain ⟨_, _, _, h4, h5, h6⟩ := hkeys.2 k' hm
        rcases hk' with e | e | e <;> contradiction
      have ht := ht2 b rfl
      simp only [h0, if_true] at ht
      refine ⟨_, .anon b, _, rfl, ht, by rw [hkeys.1]; exact hnd, wfMembers_props hgr,
        hnot kContext (by simp), hnot kGraph (by simp), ?_, ?_⟩
      · intro n
        simp [getKey_none_of_not_mem (hnot kId (by simp)), evalId, denId]
      · intro g s dflt rest n
        exact evalMembers_props label c hgr g s dflt rest n
    · have h0' : B.refCount b > 0 := by
        have : B.refCount b ≠ 0 := by simpa using h0
        omega
      simp only [h0, Bool.false_eq_true, if_false, buildRoot, h0', if_true] at hU ⊢
      have hgr := hb3 [] [] used0 (fun q hq => hU q hq) hf.pos F2.nil
      have hkeys := propMembers_keys hgr
      have hnot : ∀ k', (k' = kContext ∨ k' = kId ∨ k' = kGraph) → k' ∉ (propMembers (buildStmts E label (untags lt) [] used0).1).map (·.1) := by
        intro k' hk' hm
        rw [hkeys.1] at hm
        obtain ⟨_, _, _, h4, h5, h6⟩ := hkeys.2 k' hm
        rcases hk' with e | e | e <;> contradiction
      have ht := ht2 b rfl
      simp only [h0, Bool.false_eq_true, if_false] at ht
      refine ⟨_, .named b, _, rfl, ht, ?_, ?_, ?_, ?_, ?_, ?_⟩
      · simp only [List.map_cons, List.nodup_cons]
        exact ⟨hnot kId (by simp), by rw [hkeys.1]; exact hnd⟩
      · simp [wfMembers, Json.wf, wfMembers_props hgr]
      · simp only [List.map_cons, List.mem_cons, not_or]
        exact ⟨by decide, hnot kContext (by simp)⟩
      · simp only [List.map_cons, List.mem_cons, not_or]
        exact ⟨by decide, hnot kGraph (by simp)⟩
      · intro n
        have : expandIri c false true (cUnderscore :: cColon :: label b) = .bnode (label b) := expandIri_bnode_doc c true _
        simp [getKey, evalId, this, nodeRef, hne b, denId]
      · intro g s dflt rest n
        rw [List.cons_append, evalMembers_id_cons]
        exact evalMembers_props label c hgr g s dflt rest n

theorem buildRoot_mono (hc : GoodCtx E bs U names c) (hbase : bs.isSome = E.base.isSome) (hne : ∀ b, label b ≠ [])
    (B : Builder β) (r : Term β × List (TStmt β)) (used0 : List Str) :
    ∀ q ∈ used0, q ∈ (buildRoot E label B (toRes B r) used0).2 := by
  obtain ⟨s, lt⟩ := r
  obtain ⟨hb1, _, _⟩ := build_rel (c := c) (U := U) (names := names) (bs := bs) (E := E) (label := label) hc hbase hne lt
  intro q hq
  have := hb1 [] used0 q hq
  cases s with
  | lit a b d => simpa [toRes, Builder.resourceOf, buildRoot] using this
  | iri v => simp [toRes, Builder.resourceOf, buildRoot, this]
  | bnode b =>
    simp only [toRes, Builder.resourceOf]
    split
    · simpa [buildRoot] using this
    · simp only [buildRoot]; split <;> simpa using this

end Roots

/-! ### all exported resources, the document -/

section Doc
variable {E : Enc} {label : β → Str} {c : Ctx} {U names : List Str} {bs : Option Str}

theorem buildRoots_mono (hc : GoodCtx E bs U names c) (hbase : bs.isSome = E.base.isSome) (hne : ∀ b, label b ≠ [])
    (B : Builder β) : ∀ (rs : List (Term β × List (TStmt β))) (used0 : List Str),
    ∀ q ∈ used0, q ∈ (buildRoots E label B (rs.map (toRes B)) used0).2 := by
  intro rs
  induction rs with
  | nil => intro used0 q hq; simpa [buildRoots] using hq
  | cons r rs ih =>
    intro used0 q hq
    simp only [List.map_cons, buildRoots]
    exact ih _ q (buildRoot_mono hc hbase hne B r used0 q hq)

theorem roots_rel (hc : GoodCtx E bs U names c) (hbase : bs.isSome = E.base.isSome) (hne : ∀ b, label b ≠ [])
    (B : Builder β) (tr : Term β × List (TStmt β) → Tree β)
    (ht1 : ∀ r v, r.1 = .iri v → tr r = .node (.iri v) ((groupsOf E r.2).map (·.2)))
    (ht2 : ∀ r b, r.1 = .bnode b →
      tr r = .node (if B.refCount b == 0 then .anon b else .named b) ((groupsOf E r.2).map (·.2))) :
    ∀ (rs : List (Term β × List (TStmt β))) (used0 : List Str),
      (∀ q ∈ (buildRoots E label B (rs.map (toRes B)) used0).2, q ∈ U) →
      (∀ r ∈ rs, RootFacts E U names bs r) →
      F2 (RootRel label c) (buildRoots E label B (rs.map (toRes B)) used0).1 (rs.map tr) := by
  intro rs
  induction rs with
  | nil => intro used0 _ _; simp only [List.map_nil, buildRoots]; exact F2.nil
  | cons r rs ih =>
    intro used0 hU hf
    simp only [List.map_cons, buildRoots] at hU ⊢
    refine F2.cons ?_ (ih _ hU (fun r' hr' => hf r' (List.mem_cons_of_mem _ hr')))
    exact root_rel hc hbase hne B r (tr r) (hf r List.mem_cons_self) (ht1 r) (ht2 r) used0
      (fun q hq => hU q (buildRoots_mono hc hbase hne B rs _ q hq))

omit [DecidableEq β] in
theorem nodes_eval {js : List Json} {ts : List (Tree β)} (h : F2 (RootRel label c) js ts) (g : Option T) (n : Nat) :
    evalNodes c g js n = some (denNodes label g ts n) ∧ wfList js = true := by
  induction h generalizing n with
  | nil => exact ⟨by simp [evalNodes, denNodes], rfl⟩
  | @cons j t js' ts' hjt _ ih =>
    obtain ⟨ms, id, G, rfl, rfl, hnd, hwf, hctx, hgraph, hid, hev⟩ := hjt
    constructor
    · rw [evalNodes.eq_2]
      have hh : nodeHead c false ms n = some (c, (denId label id n).1, (denId label id n).2, false) := by
        simp [nodeHead, getKey_none_of_not_mem hctx, hid n]
      have hm := hev g (denId label id n).1 false [] (denId label id n).2
      rw [List.append_nil] at hm
      simp only [hh, hm, andThen_some, evalMembers, (ih _).1, denNodes, denNode, Option.map_some, List.append_nil]
    · simp only [wfList, Json.wf, hwf, (ih n).2, Bool.and_true, decide_eq_true_eq]
      exact hnd

end Doc

/-! ### the whole document -/

/-- the `@context` member the encoder appends -/
def ctxTail (ctxms : List (Str × Json)) : List (Str × Json) :=
  if ctxms = [] then [] else [(kContext, Json.obj ctxms)]

theorem wfMembers_append (a b : List (Str × Json)) : wfMembers (a ++ b) = (wfMembers a && wfMembers b) := by
  induction a with
  | nil => simp [wfMembers]
  | cons m a ih => obtain ⟨k, v⟩ := m; simp [wfMembers, ih, Bool.and_assoc]

theorem getKey_append (k : Str) (a b : List (Str × Json)) : getKey k (a ++ b) = (getKey k a).or (getKey k b) := by
  induction a with
  | nil => simp [getKey]
  | cons m a ih =>
    obtain ⟨x, y⟩ := m
    simp only [List.cons_append, getKey]
    split
    · simp
    · exact ih

theorem ctxMs_wf (bs : Option Str) (decl : List (Str × Str)) (h : DeclOK bs decl) : (Json.obj (ctxMs bs decl)).wf = true := by
  have hw : ∀ l : List (Str × Str), wfMembers (l.map (fun e => (e.1, Json.str e.2))) = true := by
    intro l; induction l with
    | nil => rfl
    | cons e l ih => simp [wfMembers, Json.wf, ih]
  have hk : (decl.map (fun e => (e.1, Json.str e.2))).map (·.1) = decl.map (·.1) := by simp
  have hb : kBase ∉ decl.map (·.1) := by
    intro hm
    obtain ⟨e, he, hk⟩ := List.mem_map.1 hm
    exact (pfxNameOK_spec (h.name _ he)).2.2.2.2.2 (by rw [hk]; decide)
  unfold ctxMs
  cases bs with
  | none => simp only [List.nil_append, Json.wf, hk, hw, Bool.and_true, decide_eq_true_eq]; exact h.nodup
  | some b =>
    simp only [List.cons_append, List.nil_append, Json.wf, wfMembers, List.map_cons, hk, hw, Bool.and_true,
      decide_eq_true_eq, List.nodup_cons]
    exact ⟨hb, h.nodup⟩

section Whole
variable {label : β → Str} {c : Ctx}

omit [DecidableEq β] in
theorem tail_eval (c : Ctx) (g : Option T) (s : T) (dflt : Bool) (ctxms : List (Str × Json)) (n : Nat) :
    evalMembers c g s dflt (ctxTail ctxms) n = some ([], n) := by
  unfold ctxTail
  split
  · simp [evalMembers]
  · rw [evalMembers.eq_3]
    have : classifyKey c kContext = .context := by unfold classifyKey; rw [if_pos rfl]
    simp [this, andThen_some, evalMembers]

/-- what is known about the context: it is processed to `c`; without declarations `c` is the initial context -/
structure CtxRead (c0 c : Ctx) (ctxms : List (Str × Json)) : Prop where
  proc : processCtxObj c0 ctxms = some c
  empty : ctxms = [] → c = c0
  wf : (Json.obj ctxms).wf = true

omit [DecidableEq β] in
theorem doc_single (mode11 : Bool) (base : Option Str) (ctxms : List (Str × Json))
    (hcr : CtxRead (Ctx.initial mode11 base) c ctxms) {ms : List (Str × Json)} {t : Tree β}
    (h : RootRel label c (.obj ms) t) :
    toRdf mode11 base (.obj (ms ++ ctxTail ctxms)) = some (denNodes label none [t] 0).1 := by
  obtain ⟨ms', id, G, e, rfl, hnd, hwf, hctx, hgraph, hid, hev⟩ := h
  cases e
  have hkeys_tail : ∀ k, k ≠ kContext → getKey k (ctxTail ctxms) = none := by
    intro k hk; unfold ctxTail; split
    · rfl
    · simp [getKey, Ne.symm hk]
  have hwfdoc : (Json.obj (ms ++ ctxTail ctxms)).wf = true := by
    simp only [Json.wf, wfMembers_append, hwf, Bool.true_and, List.map_append, Bool.and_eq_true, decide_eq_true_eq]
    unfold ctxTail
    split
    · simpa [wfMembers] using hnd
    · refine ⟨?_, by simpa [wfMembers] using hcr.wf⟩
      rw [List.nodup_append]
      exact ⟨hnd, by simp, by intro a ha b hb; simp at hb; subst hb; intro e; subst e; exact hctx ha⟩
  have hidk : getKey kId (ms ++ ctxTail ctxms) = getKey kId ms := by
    rw [getKey_append, hkeys_tail kId (by decide)]; simp
  have hhead : ∃ dflt, nodeHead (Ctx.initial mode11 base) true (ms ++ ctxTail ctxms) 0 =
      some (c, (denId label id 0).1, (denId label id 0).2, dflt) := by
    have hck : getKey kContext (ms ++ ctxTail ctxms) = getKey kContext (ctxTail ctxms) := by
      rw [getKey_append, getKey_none_of_not_mem hctx]; simp
    unfold nodeHead
    rw [hck, hidk]
    unfold ctxTail
    by_cases he : ctxms = []
    · rw [hcr.empty he]
      simp only [he, if_true, getKey]
      rw [← hcr.empty he, hid 0]
      exact ⟨_, rfl⟩
    · simp only [he, if_false, getKey, if_true, processLocal, hcr.proc, hid 0]
      exact ⟨_, rfl⟩
  obtain ⟨dflt, hhead⟩ := hhead
  unfold toRdf
  rw [hwfdoc]
  simp only [Bool.not_true, Bool.false_eq_true, if_false, evalNode, hhead, hev, tail_eval, andThen_some,
    Option.map_some, denNodes, denNode, List.append_nil]

omit [DecidableEq β] in
theorem doc_multi (mode11 : Bool) (base : Option Str) (ctxms : List (Str × Json))
    (hcr : CtxRead (Ctx.initial mode11 base) c ctxms) {js : List Json} {ts : List (Tree β)}
    (h : F2 (RootRel label c) js ts) :
    toRdf mode11 base (.obj ((kGraph, .arr js) :: ctxTail ctxms)) = some (denNodes label none ts 1).1 := by
  obtain ⟨hev, hwl⟩ := nodes_eval h none 1
  have hwfdoc : (Json.obj ((kGraph, .arr js) :: ctxTail ctxms)).wf = true := by
    unfold ctxTail
    split
    · simp [Json.wf, wfMembers, hwl]
    · have := hcr.wf
      simp +decide [Json.wf, wfMembers, hwl] at this ⊢
      exact this
  have hhead : nodeHead (Ctx.initial mode11 base) true ((kGraph, .arr js) :: ctxTail ctxms) 0 =
      some (c, .bnode (.fresh 0), 1, true) := by
    unfold nodeHead ctxTail
    by_cases he : ctxms = []
    · rw [hcr.empty he]
      simp +decide [he, getKey, evalId]
    · simp +decide [he, getKey, processLocal, hcr.proc, evalId]
  have hg : classifyKey c kGraph = .graph := classifyKey_graph c
  unfold toRdf
  rw [hwfdoc]
  simp only [Bool.not_true, Bool.false_eq_true, if_false, evalNode, hhead, evalMembers.eq_2, hg, if_true, hev,
    tail_eval, andThen_some, Option.map_some, List.append_nil]

end Whole

end RdfModel.Proofs.C10
