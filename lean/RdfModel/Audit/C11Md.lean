/-
  Audit for part C11MD (Microdata decoder model): axioms used by every property theorem of Props/C11Md.lean
  (expected: a subset of {propext, Classical.choice, Quot.sound}).
-/
import RdfModel.Props.C11Md

#print axioms RdfModel.C11Md.mdd_terminates_no_panic
#print axioms RdfModel.C11Md.mdd_walk_never_fails
#print axioms RdfModel.C11Md.mdd_fuel_explicit
#print axioms RdfModel.C11Md.mdd_step_bound
#print axioms RdfModel.C11Md.mdd_expansion_bound
#print axioms RdfModel.C11Md.mdd_identities_distinct
#print axioms RdfModel.C11Md.mdd_emits_wf
#print axioms RdfModel.C11Md.mdd_refines_denote_partial
#print axioms RdfModel.C11Md.mdd_refines_denote_renaming
#print axioms RdfModel.C11Md.mdd_reads_canonical_partial
#print axioms RdfModel.C11Md.mdd_goTok_of_plain
#print axioms RdfModel.C11Md.mdd_refines_denote_nested_partial
#print axioms RdfModel.C11Md.mdd_reads_written_partial
#print axioms RdfModel.C11Md.mdd_copy_cost_bound
#print axioms RdfModel.C11Md.mdd_refines_denote_itemref_partial
#print axioms RdfModel.C11Md.mdd_reads_written_itemref_partial
