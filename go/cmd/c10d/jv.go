// COPY of ../c10/jv.go (package main cannot be imported); kept verbatim below this line so that c10d draws
// the same datasets, contexts, choices and JSON trees as the C10 harness.
package main

// Abstract JSON values shared with the Lean model (RdfModel.JL.Json): ordered objects, numbers split
// into "integer" (no fractional part, |v| <= 2^53) and "other number" (given by the canonical
// xsd:double lexical form of its value). The JSON text layer is outside the model: this file is
// the boundary (encoding/json tokens <-> value tree <-> wire token <-> JSON text).

import (
	"bytes"
	"encoding/hex"
	"encoding/json"
	"fmt"
	"io"
	"math"
	"sort"
	"strconv"
	"strings"
)

type jkind int

const (
	jNull jkind = iota
	jBool
	jInt
	jDbl
	jStr
	jArr
	jObj
)

type jmember struct {
	k string
	v *JV
}

type JV struct {
	kind jkind
	b    bool
	i    int64
	s    string // string value, or lexical form for jDbl
	xs   []*JV
	ms   []jmember
}

func jnull() *JV                 { return &JV{kind: jNull} }
func jbool(b bool) *JV           { return &JV{kind: jBool, b: b} }
func jint(i int64) *JV           { return &JV{kind: jInt, i: i} }
func jdbl(lex string) *JV        { return &JV{kind: jDbl, s: lex} }
func jstr(s string) *JV          { return &JV{kind: jStr, s: s} }
func jarr(xs ...*JV) *JV         { return &JV{kind: jArr, xs: xs} }
func jobj(ms ...jmember) *JV     { return &JV{kind: jObj, ms: ms} }
func jm(k string, v *JV) jmember { return jmember{k, v} }

func (v *JV) get(k string) *JV {
	if v == nil || v.kind != jObj {
		return nil
	}
	for _, m := range v.ms {
		if m.k == k {
			return m.v
		}
	}
	return nil
}

func (v *JV) clone() *JV {
	c := *v
	if v.xs != nil {
		c.xs = make([]*JV, len(v.xs))
		for i, x := range v.xs {
			c.xs[i] = x.clone()
		}
	}
	if v.ms != nil {
		c.ms = make([]jmember, len(v.ms))
		for i, m := range v.ms {
			c.ms[i] = jmember{m.k, m.v.clone()}
		}
	}
	return &c
}

const maxSafe = 9007199254740992 // 2^53

// canonicalDouble is the canonical xsd:double lexical form (XSD 1.1 / JSON-LD 1.1 §8.6: mantissa with
// one digit before the point and at least one after, "E", exponent without "+" or leading zeros).
func canonicalDouble(f float64) string {
	if f == 0 {
		if math.Signbit(f) {
			return "-0.0E0"
		}
		return "0.0E0"
	}
	s := strconv.FormatFloat(f, 'E', -1, 64)
	parts := strings.SplitN(s, "E", 2)
	m, e := parts[0], parts[1]
	if !strings.Contains(m, ".") {
		m += ".0"
	}
	ev, _ := strconv.Atoi(e)
	return m + "E" + strconv.Itoa(ev)
}

// classifyNumber maps a JSON number literal to the model's two classes.
func classifyNumber(lit string) (*JV, error) {
	f, err := strconv.ParseFloat(lit, 64)
	if err != nil {
		return nil, err
	}
	if f == math.Trunc(f) && math.Abs(f) <= maxSafe {
		return jint(int64(f)), nil
	}
	if f == math.Trunc(f) && math.Abs(f) < 1e21 {
		// an integer too large to be exact: outside the fragment (the model answers "outside" for |i| > 2^53)
		i, _ := strconv.ParseInt(strconv.FormatFloat(f, 'f', -1, 64), 10, 64)
		if i == 0 {
			i = math.MaxInt64
		}
		return jint(i), nil
	}
	return jdbl(canonicalDouble(f)), nil
}

// parseJSONText reads JSON text into a value tree, keeping member order.
func parseJSONText(b []byte) (*JV, error) {
	dec := json.NewDecoder(bytes.NewReader(b))
	dec.UseNumber()
	v, err := parseJSONValue(dec)
	if err != nil {
		return nil, err
	}
	if _, err := dec.Token(); err != io.EOF {
		return nil, fmt.Errorf("trailing data")
	}
	return v, nil
}

func parseJSONValue(dec *json.Decoder) (*JV, error) {
	t, err := dec.Token()
	if err != nil {
		return nil, err
	}
	return parseJSONAfter(dec, t)
}

func parseJSONAfter(dec *json.Decoder, t json.Token) (*JV, error) {
	switch x := t.(type) {
	case nil:
		return jnull(), nil
	case bool:
		return jbool(x), nil
	case json.Number:
		return classifyNumber(string(x))
	case string:
		return jstr(x), nil
	case json.Delim:
		switch x {
		case '[':
			out := &JV{kind: jArr, xs: []*JV{}}
			for dec.More() {
				v, err := parseJSONValue(dec)
				if err != nil {
					return nil, err
				}
				out.xs = append(out.xs, v)
			}
			if _, err := dec.Token(); err != nil {
				return nil, err
			}
			return out, nil
		case '{':
			out := &JV{kind: jObj, ms: []jmember{}}
			for dec.More() {
				kt, err := dec.Token()
				if err != nil {
					return nil, err
				}
				k, ok := kt.(string)
				if !ok {
					return nil, fmt.Errorf("member name")
				}
				v, err := parseJSONValue(dec)
				if err != nil {
					return nil, err
				}
				out.ms = append(out.ms, jmember{k, v})
			}
			if _, err := dec.Token(); err != nil {
				return nil, err
			}
			return out, nil
		}
	}
	return nil, fmt.Errorf("unexpected token %v", t)
}

// text renders the value as JSON text. Numbers of class "other" are written by their lexical form,
// which is itself a JSON number literal denoting the same value.
func (v *JV) text() []byte {
	var sb bytes.Buffer
	v.writeText(&sb)
	return sb.Bytes()
}

func (v *JV) writeText(sb *bytes.Buffer) {
	switch v.kind {
	case jNull:
		sb.WriteString("null")
	case jBool:
		if v.b {
			sb.WriteString("true")
		} else {
			sb.WriteString("false")
		}
	case jInt:
		sb.WriteString(strconv.FormatInt(v.i, 10))
	case jDbl:
		sb.WriteString(v.s)
	case jStr:
		writeJSONString(sb, v.s)
	case jArr:
		sb.WriteByte('[')
		for i, x := range v.xs {
			if i > 0 {
				sb.WriteByte(',')
			}
			x.writeText(sb)
		}
		sb.WriteByte(']')
	case jObj:
		sb.WriteByte('{')
		for i, m := range v.ms {
			if i > 0 {
				sb.WriteByte(',')
			}
			writeJSONString(sb, m.k)
			sb.WriteByte(':')
			m.v.writeText(sb)
		}
		sb.WriteByte('}')
	}
}

func writeJSONString(sb *bytes.Buffer, s string) {
	sb.WriteByte('"')
	for _, r := range s {
		switch {
		case r == '"':
			sb.WriteString(`\"`)
		case r == '\\':
			sb.WriteString(`\\`)
		case r < 0x20 || (r >= 0x7f && r <= 0x9f):
			// /repo's JSON tokenizer (inspectjson, strict mode) refuses raw U+0080..U+009F although
			// RFC 8259 allows them; the JSON text layer is outside the model, so they travel escaped
			fmt.Fprintf(sb, `\u%04x`, r)
		default:
			sb.WriteRune(r)
		}
	}
	sb.WriteByte('"')
}

// wire renders the value as one driver token.
func (v *JV) wire() string {
	var sb strings.Builder
	v.writeWire(&sb)
	return sb.String()
}

func (v *JV) writeWire(sb *strings.Builder) {
	switch v.kind {
	case jNull:
		sb.WriteByte('n')
	case jBool:
		if v.b {
			sb.WriteByte('t')
		} else {
			sb.WriteByte('f')
		}
	case jInt:
		sb.WriteString("i" + strconv.FormatInt(v.i, 10) + ";")
	case jDbl:
		sb.WriteString("d" + hex.EncodeToString([]byte(v.s)) + ";")
	case jStr:
		sb.WriteString("s" + hex.EncodeToString([]byte(v.s)) + ";")
	case jArr:
		sb.WriteByte('[')
		for _, x := range v.xs {
			x.writeWire(sb)
		}
		sb.WriteByte(']')
	case jObj:
		sb.WriteByte('{')
		for _, m := range v.ms {
			sb.WriteString(hex.EncodeToString([]byte(m.k)) + ";")
			m.v.writeWire(sb)
		}
		sb.WriteByte('}')
	}
}

// parseWire reads a driver token back.
func parseWire(s string) (*JV, error) {
	v, rest, err := parseWireVal(s)
	if err != nil {
		return nil, err
	}
	if rest != "" {
		return nil, fmt.Errorf("trailing %q", rest)
	}
	return v, nil
}

func cutSemi(s string) (string, string, error) {
	i := strings.IndexByte(s, ';')
	if i < 0 {
		return "", "", fmt.Errorf("missing ';'")
	}
	return s[:i], s[i+1:], nil
}

func parseWireVal(s string) (*JV, string, error) {
	if s == "" {
		return nil, "", fmt.Errorf("empty")
	}
	switch s[0] {
	case 'n':
		return jnull(), s[1:], nil
	case 't':
		return jbool(true), s[1:], nil
	case 'f':
		return jbool(false), s[1:], nil
	case 'i':
		a, r, err := cutSemi(s[1:])
		if err != nil {
			return nil, "", err
		}
		i, err := strconv.ParseInt(a, 10, 64)
		return jint(i), r, err
	case 'd', 's':
		a, r, err := cutSemi(s[1:])
		if err != nil {
			return nil, "", err
		}
		b, err := hex.DecodeString(a)
		if s[0] == 'd' {
			return jdbl(string(b)), r, err
		}
		return jstr(string(b)), r, err
	case '[':
		out := &JV{kind: jArr, xs: []*JV{}}
		s = s[1:]
		for {
			if s == "" {
				return nil, "", fmt.Errorf("unterminated array")
			}
			if s[0] == ']' {
				return out, s[1:], nil
			}
			v, r, err := parseWireVal(s)
			if err != nil {
				return nil, "", err
			}
			out.xs = append(out.xs, v)
			s = r
		}
	case '{':
		out := &JV{kind: jObj, ms: []jmember{}}
		s = s[1:]
		for {
			if s == "" {
				return nil, "", fmt.Errorf("unterminated object")
			}
			if s[0] == '}' {
				return out, s[1:], nil
			}
			a, r, err := cutSemi(s)
			if err != nil {
				return nil, "", err
			}
			k, err := hex.DecodeString(a)
			if err != nil {
				return nil, "", err
			}
			v, r, err := parseWireVal(r)
			if err != nil {
				return nil, "", err
			}
			out.ms = append(out.ms, jmember{string(k), v})
			s = r
		}
	}
	return nil, "", fmt.Errorf("bad value %q", s)
}

// canon is a member-order-insensitive rendering used to compare JSON trees.
func (v *JV) canon() string {
	switch v.kind {
	case jArr:
		parts := make([]string, len(v.xs))
		for i, x := range v.xs {
			parts[i] = x.canon()
		}
		return "[" + strings.Join(parts, ",") + "]"
	case jObj:
		parts := make([]string, len(v.ms))
		for i, m := range v.ms {
			parts[i] = strconv.Quote(m.k) + ":" + m.v.canon()
		}
		sort.Strings(parts)
		return "{" + strings.Join(parts, ",") + "}"
	default:
		return v.wire()
	}
}

// wfJSON: member names pairwise distinct everywhere (the model's Json.wf).
func (v *JV) wf() bool {
	switch v.kind {
	case jArr:
		for _, x := range v.xs {
			if !x.wf() {
				return false
			}
		}
	case jObj:
		seen := map[string]bool{}
		for _, m := range v.ms {
			if seen[m.k] || !m.v.wf() {
				return false
			}
			seen[m.k] = true
		}
	}
	return true
}
