// Command c01: correspondence (T3) between Model.NQuads and encoding/{nquads,ntriples}, plus the
// direct round-trip oracle of property C01 on the implementation.
package main

import (
	"bytes"
	"context"
	"flag"
	"fmt"
	"net/url"
	"os"
	"strings"
	"unicode/utf8"

	"verifharness/vh"

	"github.com/dpb587/rdfkit-go/encoding/nquads"
	"github.com/dpb587/rdfkit-go/encoding/ntriples"
	"github.com/dpb587/rdfkit-go/rdf"
	"github.com/dpb587/rdfkit-go/rdf/blanknodes"
)

var (
	tier     = flag.String("tier", "quick", "quick|thorough")
	driver   = flag.String("driver", "/verif/lean/.lake/build/bin/driver", "lean driver binary")
	out      = flag.String("out", "/verif/evidence/.c01.report.json", "report path")
	findings = flag.String("findings", "/verif/known-findings.json", "known findings")
	replay   = flag.String("replay", "", "replay file (one protocol line per line)")
	scale    = flag.Int("scale", 1, "multiply generated case counts (search mode uses 10)")
	nomodel  = flag.Bool("nomodel", false, "property oracle on the implementation only (search mode / driver unavailable)")
	hints    = flag.String("hints", "", "file of protocol lines that disagreed; their inputs are pushed through the oracle first")
)

type item struct {
	line string // protocol line for the model
	goR  string // implementation result, same canonical form
	kind string
}

// ---------------------------------------------------------------- encoder option lists

// optSpec is one EncoderOption value: which fields it sets (-1 = not set).
type optSpec struct{ ascii, prov int }

// splitOpts spreads an intended configuration over 1..3 option values, with overridden earlier
// settings and options that set nothing, so that the merge logic of NewEncoder is exercised.
func splitOpts(r *vh.Rng, ascii bool, prov int) []optSpec {
	a := 0
	if ascii {
		a = 1
	}
	n := 1 + r.Intn(3)
	os := make([]optSpec, n)
	for i := range os {
		os[i] = optSpec{-1, -1}
	}
	ai, pi := r.Intn(n), r.Intn(n)
	if ascii || r.Bool() {
		os[ai].ascii = a
		for i := 0; i < ai; i++ { // earlier, overridden values
			if r.Bool() {
				os[i].ascii = 1 - a
			}
		}
	}
	if prov >= 0 {
		os[pi].prov = prov
		for i := 0; i < pi; i++ {
			if r.Bool() {
				os[i].prov = 1 - prov
			}
		}
	}
	return os
}

func wireOpts(os []optSpec) string {
	var sb strings.Builder
	for _, o := range os {
		a, p := "-", "-"
		if o.ascii >= 0 {
			a = fmt.Sprint(o.ascii)
		}
		if o.prov >= 0 {
			p = fmt.Sprint(o.prov)
		}
		sb.WriteString("a" + a + "p" + p + ";")
	}
	return sb.String()
}

func nqOptions(os []optSpec, provs []blanknodes.StringProvider) []nquads.EncoderOption {
	var out []nquads.EncoderOption
	for _, o := range os {
		c := nquads.EncoderConfig{}
		if o.ascii >= 0 {
			c = c.SetASCII(o.ascii == 1)
		}
		if o.prov >= 0 {
			c = c.SetBlankNodeStringProvider(provs[o.prov])
		}
		out = append(out, c)
	}
	return out
}

func ntOptions(os []optSpec, provs []blanknodes.StringProvider) []ntriples.EncoderOption {
	var out []ntriples.EncoderOption
	for _, o := range os {
		c := ntriples.EncoderConfig{}
		if o.ascii >= 0 {
			c = c.SetASCII(o.ascii == 1)
		}
		if o.prov >= 0 {
			c = c.SetBlankNodeStringProvider(provs[o.prov])
		}
		out = append(out, c)
	}
	return out
}

type fixedProv string

func (f fixedProv) GetBlankNodeString(rdf.BlankNode) string { return string(f) }

// goEffectiveOpts observes what NewEncoder compiled from an option list: is a non-ASCII rune escaped,
// which provider labels the node. Result in the driver's form "<ascii> <prov|->".
func goEffectiveOpts(pkg string, os []optSpec) string {
	provs := []blanknodes.StringProvider{fixedProv("p0"), fixedProv("p1"), fixedProv("p2")}
	var buf bytes.Buffer
	t := rdf.Triple{Subject: rdf.NewBlankNode(), Predicate: rdf.IRI("a:p"), Object: rdf.Literal{Datatype: vh.XSDString, LexicalForm: "\u00e9"}}
	if pkg == "nq" {
		e, _ := nquads.NewEncoder(&buf, nqOptions(os, provs)...)
		e.AddQuad(context.Background(), rdf.Quad{Triple: t})
	} else {
		e, _ := ntriples.NewEncoder(&buf, ntOptions(os, provs)...)
		e.AddTriple(context.Background(), t)
	}
	out := buf.String()
	a := "0"
	if strings.Contains(out, "\\u00E9") {
		a = "1"
	}
	p := "-"
	if strings.HasPrefix(out, "_:p") && len(out) > 3 {
		p = out[3:4]
	}
	return a + " " + p
}

// ---------------------------------------------------------------- implementation side

func goEncode(pkg string, ascii bool, tbl *vh.BNTable, q vh.GQuad) string {
	var buf bytes.Buffer
	rq := tbl.Quad(q)
	var err error
	if pkg == "nq" {
		e, _ := nquads.NewEncoder(&buf, nquads.EncoderConfig{}.SetASCII(ascii).SetBlankNodeStringProvider(tbl))
		err = e.AddQuad(context.Background(), rq)
		e.Close()
	} else {
		e, _ := ntriples.NewEncoder(&buf, ntriples.EncoderConfig{}.SetASCII(ascii).SetBlankNodeStringProvider(tbl))
		err = e.AddTriple(context.Background(), rq.Triple)
		e.Close()
	}
	if err != nil {
		return "none"
	}
	return vh.X(buf.Bytes())
}

func goEncodeDoc(pkg string, os []optSpec, provs []blanknodes.StringProvider, tbl *vh.BNTable, qs []vh.GQuad) ([]byte, error) {
	var buf bytes.Buffer
	if pkg == "nq" {
		e, err := nquads.NewEncoder(&buf, nqOptions(os, provs)...)
		if err != nil {
			return nil, err
		}
		for _, q := range qs {
			if err := e.AddQuad(context.Background(), tbl.Quad(q)); err != nil {
				return nil, err
			}
		}
		if err := e.Close(); err != nil {
			return nil, err
		}
	} else {
		e, err := ntriples.NewEncoder(&buf, ntOptions(os, provs)...)
		if err != nil {
			return nil, err
		}
		for _, q := range qs {
			if err := e.AddTriple(context.Background(), tbl.Quad(q).Triple); err != nil {
				return nil, err
			}
		}
		if err := e.Close(); err != nil {
			return nil, err
		}
	}
	return buf.Bytes(), nil
}

// goDecode runs the real decoder; result in the driver's canonical form.
func goDecode(pkg string, fail bool, b []byte) (res string, quads []rdf.Quad, label func(rdf.BlankNode) string) {
	defer func() {
		if p := recover(); p != nil {
			res = fmt.Sprintf("panic:%v", p)
		}
	}()
	f := blanknodes.NewStringFactory()
	prov := f.(blanknodes.StringProviderProvider).GetStringProvider(blanknodes.NewInt64StringProvider("?anon%d"))
	label = prov.GetBlankNodeString
	var parts []string
	var err error
	rd := &vh.EndReader{B: b, Fail: fail}
	if pkg == "nq" {
		d, _ := nquads.NewDecoder(rd, nquads.DecoderConfig{}.SetBlankNodeStringFactory(f))
		for d.Next() {
			quads = append(quads, d.Quad())
			parts = append(parts, vh.QuadWire(d.Quad(), label))
		}
		err = d.Err()
		if d.Next() || fmt.Sprint(d.Err()) != fmt.Sprint(err) {
			return "unstable-after-end", quads, label
		}
	} else {
		d, _ := ntriples.NewDecoder(rd, ntriples.DecoderConfig{}.SetBlankNodeStringFactory(f))
		for d.Next() {
			q := rdf.Quad{Triple: d.Triple()}
			quads = append(quads, q)
			parts = append(parts, vh.QuadWire(q, label))
		}
		err = d.Err()
		if d.Next() || fmt.Sprint(d.Err()) != fmt.Sprint(err) {
			return "unstable-after-end", quads, label
		}
	}
	return strings.Join(parts, ";") + "|" + vh.ErrClass(err), quads, label
}

func goURL(s string) string {
	u, err := url.Parse(s)
	if err != nil {
		return "bad"
	}
	if u.IsAbs() {
		return "abs"
	}
	return "rel"
}

// ---------------------------------------------------------------- generators

var hotBytes = []byte("<>\"\\ \t\r\n._:@^#-uU0aF{}|`\x00\x7f\xc3\xa9\xf0\x9f")

func labelPlain(i int) string { return fmt.Sprintf("b%d", i) }

// arbitrary (possibly invalid) labels for encoder correspondence
func hotLabel(r *vh.Rng) func(int) string {
	pool := []string{"b0", "a.b", "x-", "_", "0", ":a", "a..b", "é", "a b", "", "a.", "·"}
	off := r.Intn(len(pool))
	return func(i int) string { return pool[(i+off)%len(pool)] }
}

func valid(s string) bool { return utf8.ValidString(s) }

type gen struct {
	r     *vh.Rng
	rep   *vh.Report
	items []item
}

func (g *gen) add(kind, line, goR string, nontrivial bool) {
	g.items = append(g.items, item{line: line, goR: goR, kind: kind})
	g.rep.Eval(line, nontrivial)
	g.rep.Count("op:" + kind)
}

func (g *gen) optCases(n int) {
	for i := 0; i < n; i++ {
		pkg := vh.Pick(g.r, []string{"nq", "nt"})
		os := splitOpts(g.r, g.r.Bool(), g.r.Intn(3)-1)
		if g.r.Chance(30) { // fully random option values
			for k := range os {
				os[k] = optSpec{g.r.Intn(3) - 1, g.r.Intn(4) - 1}
			}
		}
		g.add("opts", "nq.opts "+wireOpts(os), goEffectiveOpts(pkg, os), len(os) > 1)
	}
}

func (g *gen) encCases(n int) {
	for i := 0; i < n; i++ {
		pkg := vh.Pick(g.r, []string{"nq", "nt"})
		ascii := g.r.Bool()
		lab := labelPlain
		if g.r.Chance(30) {
			lab = hotLabel(g.r)
		}
		tbl := vh.NewBNTable(lab)
		qs := g.r.Dataset(vh.DatasetOpts{MaxQuads: 2, NBNodes: 3, NIRIs: 3, Graphs: true, IRI: vh.IRIOpts{Exotic: true}})
		for _, q := range qs {
			if g.r.Chance(10) { // stress: IRI with forbidden characters (not RFC 3987; correspondence only)
				q.S = vh.GTerm{Kind: vh.KIRI, IRI: "http://e/" + g.r.LexicalForm()}
			}
			line := fmt.Sprintf("nq.enc %s %s %s", pkg, vh.B01(ascii), q.Wire(lab))
			g.add("enc", line, goEncode(pkg, ascii, tbl, q), q.O.Kind == vh.KLit || q.G != nil)
		}
	}
}

func (g *gen) decDoc(kind, pkg string, fail bool, b []byte, nontrivial bool) {
	e := "eof"
	if fail {
		e = "io"
	}
	res, _, _ := goDecode(pkg, fail, b)
	g.add(kind, fmt.Sprintf("nq.dec %s %s %s", pkg, e, vh.X(b)), res, nontrivial)
	if strings.HasPrefix(res, "panic") {
		g.rep.Add(vh.Case{Kind: "violation", Op: "nq.dec " + pkg, Go: res, Detail: "decoder panicked on " + vh.X(b)})
	}
	g.rep.Count("dec-verdict:" + res[strings.LastIndex(res, "|")+1:])
}

// cornerDocs: hand-picked documents around past findings (D2, D16, D29, langString datatype, …); run first.
var cornerDocs = []string{
	"<a:a> <a:b> \"x\"^^<http://www.w3.org/1999/02/22-rdf-syntax-ns#langString> .\n",
	"<a:a> <a:b> \"x\"@en-Latn-US .\n", "<a:a> <a:b> \"x\"@ .\n", "<a:a> <a:b> \"x\"@en--US .\n", "<a:a> <a:b> \"x\"@en- .\n",
	"<http://a", "_", "_:a", "<a:a> <a:b> <a:c> .\n<a:d", "# c", "  \n", "<a:a> <a:b> <a:c> .", "<a:a> <a:b> <a:c> . # c",
	"<a:a> <a:b> <a:c> <a:g> .\n<a:a> <a:b> <a:c> <a:g> .\n", "<a:a> <a:b> _:a.b.\n", "<a:a> <a:b> _:a. .\n", "_:a.. <a:b> <a:c> .\n",
	"<a:a> <a:b> \"\\uD800\" .\n", "<a:a> <a:b> \"\\U00110000\" .\n", "<a:a> <a:b> \"\\U0010FFFF\" .\n", "<a:\\u0020> <a:b> <a:c> .\n",
	"<a:a> <a:b> <a:c> . <a:a> <a:b> <a:c> .\n", "<a:a> <a:b> <a:c> .\r<a:a> <a:b> <a:d> .\r\n", "<a:a>\u00a0<a:b>\u2028<a:c>\u3000.\n",
	"<a:a> <a:b> \"a\nb\" .\n", "<a:a> <a:b> \"x\"^^<a:t>.\n", "<a:a> <a:b> \"x\"^<a:t> .\n", "<a:a> <a:b> \"x\"^^ <a:t> .\n", "<http://a%20b/> <a:b> <a:c> .\n",
	"<rel> <a:b> <a:c> .\n", "<a:a> <a:b> \"x\"^^<rel> .\n", "<a:a> <a:b> <a:c> _:g .\n", "<a:a> <a:b> <a:c> \"g\" .\n", "<a:a> _:p <a:c> .\n", "\"s\" <a:b> <a:c> .\n",
}

func (g *gen) decCases(n int) {
	for _, d := range cornerDocs {
		for _, pkg := range []string{"nq", "nt"} {
			g.decDoc("dec-corner", pkg, false, []byte(d), true)
			g.decDoc("dec-corner", pkg, true, []byte(d), true)
		}
	}
	for i := 0; i < n; i++ {
		pkg := vh.Pick(g.r, []string{"nq", "nt"})
		tbl := vh.NewBNTable(labelPlain)
		qs := g.r.Dataset(vh.DatasetOpts{MaxQuads: 3, NBNodes: 3, NIRIs: 3, Graphs: pkg == "nq", IRI: vh.IRIOpts{Exotic: g.r.Chance(30)}})
		doc, err := goEncodeDoc(pkg, splitOpts(g.r, g.r.Bool(), 0), []blanknodes.StringProvider{tbl, tbl}, tbl, qs)
		if err != nil {
			continue
		}
		// cosmetic variation: comments, extra blanks, CRLF
		if g.r.Chance(30) {
			doc = bytes.ReplaceAll(doc, []byte(" .\n"), []byte(vh.Pick(g.r, []string{" . # c\n", ".\r\n", "\t.  \n", " .\n\n#x\n"})))
		}
		g.decDoc("dec-valid", pkg, false, doc, len(qs) > 0)
		for k := 0; k < 3; k++ {
			m := g.r.Mutate(doc, hotBytes)
			g.decDoc("dec-mutated", pkg, g.r.Chance(15), m, true)
		}
		if len(doc) > 0 {
			cut := g.r.Intn(len(doc))
			g.decDoc("dec-truncated", pkg, g.r.Chance(30), doc[:cut], true)
		}
	}
}

// probeRunes: single-rune probes of every scanner position (ties the decoder's inline switches).
func (g *gen) probeRunes(runes []rune) {
	tmpl := []string{
		"<a:%s> <a:b> <a:c> .\n",                       // IRI body
		"<a:\\%s0041> <a:b> <a:c> .\n",                 // IRI escape introducer
		"<a:a> <a:b> \"%s\" .\n",                       // literal body
		"<a:a> <a:b> \"\\%s\" .\n",                     // literal escape
		"<a:a> <a:b> \"\\u004%s\" .\n",                 // hex digit
		"_:%s <a:b> <a:c> .\n",                         // label first
		"_:a%sa <a:b> <a:c> .\n",                       // label middle
		"_:aa%s <a:b> <a:c> .\n",                       // label last
		"%s<a:a> <a:b> <a:c> .\n",                      // leading / white space
		"<a:a> <a:b> \"x\"@%s .\n",                     // langtag first
		"<a:a> <a:b> \"x\"@a-%s .\n",                   // langtag subtag
		"<a:a> <a:b> <a:c> .%s\n<a:d> <a:b> <a:c> .\n", // after the dot
		"<a:a> <a:b> <a:c> %s.\n",                      // before the dot
	}
	for _, r := range runes {
		s := string(r)
		for ti, t := range tmpl {
			pkg := "nq"
			if (int(r)+ti)%2 == 0 {
				pkg = "nt"
			}
			g.decDoc("dec-probe", pkg, false, []byte(fmt.Sprintf(t, s)), false)
		}
	}
}

func (g *gen) urlCases(n int) {
	for i := 0; i < n; i++ {
		s := g.r.AbsIRI(vh.IRIOpts{Exotic: true})
		if g.r.Chance(30) {
			s = string(g.r.Mutate([]byte(s), []byte(":/?#[]@%25 \x7f")))
		}
		if !valid(s) {
			continue
		}
		g.add("url", "nq.url "+vh.XS(s), goURL(s), false)
	}
}

// ---------------------------------------------------------------- property oracle on the implementation

type bij struct {
	fwd map[int]string
	bwd map[string]int
}

func (b *bij) bind(i int, l string) bool {
	if x, ok := b.fwd[i]; ok {
		return x == l
	}
	if y, ok := b.bwd[l]; ok {
		return y == i
	}
	b.fwd[i], b.bwd[l] = l, i
	return true
}

func sameTerm(g vh.GTerm, t rdf.Term, label func(rdf.BlankNode) string, b *bij) bool {
	switch v := t.(type) {
	case rdf.IRI:
		return g.Kind == vh.KIRI && g.IRI == string(v)
	case rdf.BlankNode:
		return g.Kind == vh.KBNode && b.bind(g.BNode, label(v))
	case rdf.Literal:
		if g.Kind != vh.KLit || g.Lex != v.LexicalForm || g.DT != string(v.Datatype) {
			return false
		}
		if g.DT == vh.RDFLangString {
			tag, ok := v.Tag.(rdf.LanguageLiteralTag)
			return ok && tag.Language == g.Lang
		}
		return v.Tag == nil
	}
	return false
}

func (g *gen) oracle(n int, known map[string]vh.Finding, lines *[]item) {
	for i := 0; i < n; i++ {
		pkg := vh.Pick(g.r, []string{"nq", "nt"})
		qs := g.r.Dataset(vh.DatasetOpts{MaxQuads: 6, NBNodes: 4, NIRIs: 4, Graphs: pkg == "nq", IRI: vh.IRIOpts{Exotic: g.r.Chance(25)}})
		g.oracleOne(pkg, g.r.Bool(), g.r.Chance(40), qs, known, lines)
	}
}

func (g *gen) oracleOne(pkg string, ascii, custom bool, qs []vh.GQuad, known map[string]vh.Finding, lines *[]item) {
	{
		tbl := vh.NewBNTable(func(i int) string {
			return vh.Pick(vh.NewRng(uint64(i)), []string{"x", "a.b", "n-1", "_q", "9"}) + fmt.Sprint(i)
		})
		prov := -1
		if custom {
			prov = g.r.Intn(2)
		}
		os := splitOpts(g.r, ascii, prov)
		doc, err := goEncodeDoc(pkg, os, []blanknodes.StringProvider{tbl, tbl}, tbl, qs)
		desc := fmt.Sprintf("pkg=%s ascii=%v custom-labels=%v options=%s quads=%d doc=%s", pkg, ascii, custom, wireOpts(os), len(qs), vh.X(doc))
		g.rep.Eval("oracle "+desc, len(qs) > 0)
		g.rep.Count("op:oracle")
		fail := func(what string) {
			// known finding: an IRI that RFC 3987 allows but net/url rejects
			if f, ok := known["net-url-rejects-iri"]; ok && strings.Contains(what, "err:url") && hasRejectedIRI(qs) {
				g.rep.Add(vh.Case{Kind: "known", Key: f.Key, Detail: f.What + " — " + desc})
				g.rep.Count("known:" + f.Key)
				return
			}
			g.rep.Add(vh.Case{Kind: "violation", Op: "oracle", Detail: what + " — " + desc})
		}
		if err != nil {
			fail("encoder error: " + err.Error())
			return
		}
		if ascii {
			for _, c := range doc {
				if c >= 0x80 {
					fail("byte >= 0x80 in ASCII mode")
					break
				}
			}
		}
		// grammaticality: the Lean recogniser judges the implementation's bytes
		*lines = append(*lines, item{line: fmt.Sprintf("nq.accepts %s %s", pkg, vh.X(doc)), goR: "true", kind: "grammar:" + desc})
		res, quads, label := goDecode(pkg, false, doc)
		if !strings.HasSuffix(res, "|clean") {
			fail("decoder verdict " + res[strings.LastIndex(res, "|")+1:])
			return
		}
		if len(quads) != len(qs) {
			fail(fmt.Sprintf("decoded %d statements, wrote %d", len(quads), len(qs)))
			return
		}
		b := &bij{map[int]string{}, map[string]int{}}
		for k, q := range qs {
			d := quads[k]
			ok := sameTerm(q.S, d.Triple.Subject, label, b) && sameTerm(q.P, d.Triple.Predicate, label, b) && sameTerm(q.O, d.Triple.Object, label, b)
			if pkg == "nq" {
				if q.G == nil {
					ok = ok && d.GraphName == nil
				} else {
					ok = ok && d.GraphName != nil && sameTerm(*q.G, d.GraphName, label, b)
				}
			}
			if !ok {
				fail(fmt.Sprintf("statement %d differs after round trip: %s", k, vh.QuadWire(d, label)))
				break
			}
		}
	}
}

// parseWireTerm reads back a term token (for hints).
func parseWireTerm(tok string) (vh.GTerm, bool) {
	un := func(h string) (string, bool) {
		b, err := vh.UnX("x" + h)
		return string(b), err == nil
	}
	if len(tok) == 0 {
		return vh.GTerm{}, false
	}
	switch tok[0] {
	case 'I':
		v, ok := un(tok[1:])
		return vh.GTerm{Kind: vh.KIRI, IRI: v}, ok
	case 'B':
		return vh.GTerm{Kind: vh.KBNode, BNode: len(tok) % 5}, true
	case 'L':
		f := strings.Split(tok[1:], ".")
		if len(f) != 3 {
			return vh.GTerm{}, false
		}
		lex, ok1 := un(f[0])
		dt, ok2 := un(f[1])
		t := vh.GTerm{Kind: vh.KLit, Lex: lex, DT: dt}
		if f[2] != "-" {
			t.Lang, _ = un(f[2])
		}
		return t, ok1 && ok2
	}
	return vh.GTerm{}, false
}

// hasRejectedIRI: the predicate of known finding D3 — some IRI of the dataset is refused by net/url.
func hasRejectedIRI(qs []vh.GQuad) bool {
	bad := func(t vh.GTerm) bool {
		return (t.Kind == vh.KIRI && goURL(t.IRI) != "abs") || (t.Kind == vh.KLit && goURL(t.DT) != "abs")
	}
	for _, q := range qs {
		if bad(q.S) || bad(q.P) || bad(q.O) || (q.G != nil && bad(*q.G)) {
			return true
		}
	}
	return false
}

// ---------------------------------------------------------------- main

func main() {
	flag.Parse()
	seed := vh.SeedFromEnv()
	rep := vh.NewReport("C01", *tier, seed, "grammar-directed datasets (RFC 3987 IRIs incl. exotic authorities, literals over a hot alphabet of controls/quotes/backslash/Latin-1/BMP/astral, 1-5 subtag language tags, shared blank nodes, graph names), their encodings, byte-level mutations and truncations of those, single-rune probes of every scanner position; non-trivial = has a literal or graph name (enc), non-empty document (dec)")
	g := &gen{r: vh.NewRng(seed), rep: rep}
	fs, err := vh.LoadFindings(*findings)
	if err != nil {
		fmt.Fprintln(os.Stderr, "findings:", err)
		os.Exit(2)
	}
	known := vh.KnownKeys(fs, "C01")
	var extra []item

	if *replay != "" {
		b, err := os.ReadFile(*replay)
		if err != nil {
			fmt.Fprintln(os.Stderr, err)
			os.Exit(2)
		}
		for _, l := range strings.Split(strings.TrimSpace(string(b)), "\n") {
			f := strings.Fields(l)
			if len(f) == 4 && f[0] == "nq.dec" {
				raw, _ := vh.UnX(f[3])
				g.decDoc("replay", f[1], f[2] == "io", raw, true)
			}
		}
	} else {
		n := 1500 * *scale
		probes := []rune{}
		if *tier == "thorough" {
			n = 60000 * *scale
			for r := rune(0); r <= 0x10FFFF; r++ {
				if r < 0xD800 || r > 0xDFFF {
					probes = append(probes, r)
				}
			}
			rep.Exhaustive = append(rep.Exhaustive, "single-rune probes: every Unicode scalar value x 13 scanner positions")
		} else {
			for r := rune(0); r < 0x400; r++ {
				probes = append(probes, r)
			}
			probes = append(probes, vh.HotRunes...)
			for i := 0; i < 1500; i++ {
				probes = append(probes, g.r.Scalar())
			}
		}
		if *hints != "" {
			if b, err := os.ReadFile(*hints); err == nil {
				for _, l := range strings.Split(string(b), "\n") {
					f := strings.Fields(l)
					if len(f) == 7 && f[0] == "nq.enc" {
						s, ok1 := parseWireTerm(f[3])
						p, ok2 := parseWireTerm(f[4])
						o, ok3 := parseWireTerm(f[5])
						if !(ok1 && ok2 && ok3) || !valid(s.IRI+p.IRI+o.IRI+o.Lex+o.DT) {
							continue
						}
						q := vh.GQuad{S: s, P: p, O: o}
						if gt, ok := parseWireTerm(f[6]); ok && f[1] == "nq" {
							q.G = &gt
						}
						if q.O.Kind == vh.KLit && q.O.DT == vh.RDFLangString && q.O.Lang == "" {
							continue
						}
						g.oracleOne(f[1], f[2] == "1", false, []vh.GQuad{q}, known, &extra)
					}
				}
			}
		}
		if !*nomodel {
			g.encCases(n)
			g.optCases(n / 2)
			g.decCases(n)
			g.urlCases(n)
			g.probeRunes(probes)
		}
		g.oracle(n, known, &extra)
	}

	if *nomodel {
		if err := rep.Write(*out); err != nil {
			fmt.Fprintln(os.Stderr, err)
			os.Exit(2)
		}
		fmt.Printf("c01 (oracle only): %d evaluations, %d failures\n", rep.Evaluations, rep.Failures())
		if rep.Failures() > 0 {
			os.Exit(1)
		}
		return
	}
	// run the model on everything
	all := append(g.items, extra...)
	lines := make([]string, len(all))
	for i, it := range all {
		lines[i] = it.line
	}
	res, err := vh.Driver{Path: *driver}.RunParallel(lines)
	if err != nil {
		fmt.Fprintln(os.Stderr, err)
		os.Exit(2)
	}
	for i, it := range all {
		rep.Compared++
		if res[i] == it.goR {
			continue
		}
		if strings.HasPrefix(it.kind, "grammar:") {
			rep.Add(vh.Case{Kind: "violation", Op: it.line, Model: res[i], Detail: "encoder output rejected by Spec.NQG.accepts — " + it.kind})
			continue
		}
		rep.Add(vh.Case{Kind: "disagreement", Op: it.line, Go: it.goR, Model: res[i], Detail: it.kind})
	}
	if err := rep.Write(*out); err != nil {
		fmt.Fprintln(os.Stderr, err)
		os.Exit(2)
	}
	fmt.Printf("c01: %d evaluations, %d compared with the model, %d failures, %d known\n", rep.Evaluations, rep.Compared, rep.Failures(), len(rep.Cases)-rep.Failures())
	if rep.Failures() > 0 {
		os.Exit(1)
	}
}
