/-
  Helper lemmas for C12: on an absolute path, `removeDotSegments` is a stack machine over the
  segments (`absRun`). Used to relate the RFC algorithm to the Go function `resolvePath`.
-/
import RdfModel.Proofs.C12Rds
namespace RdfModel.Proofs.C12
open RdfModel.Spec.RFC3986

/-- "/s1/s2/…" -/
def joinSlash (l : List Str) : Str := (l.map (cSlash :: ·)).flatten

theorem joinSlash_nil : joinSlash [] = [] := rfl
theorem joinSlash_cons (s : Str) (l : List Str) : joinSlash (s :: l) = cSlash :: (s ++ joinSlash l) := by
  simp [joinSlash]
theorem joinSlash_append (a b : List Str) : joinSlash (a ++ b) = joinSlash a ++ joinSlash b := by
  simp [joinSlash]
theorem joinSlash_snoc (a : List Str) (s : Str) : joinSlash (a ++ [s]) = joinSlash a ++ cSlash :: s := by
  rw [joinSlash_append, joinSlash_cons, joinSlash_nil]; simp

theorem joinSlash_shape (l : List Str) : joinSlash l = [] ∨ ∃ t, joinSlash l = cSlash :: t := by
  cases l with
  | nil => left; rfl
  | cons s l => right; exact ⟨_, joinSlash_cons s l⟩

theorem joinSlash_segments (r : Str) : joinSlash (segments r) = cSlash :: r := by
  induction r with
  | nil => rfl
  | cons c r ih =>
    by_cases hc : c = cSlash
    · subst hc; rw [segments_cons_slash, joinSlash_cons, ih]; rfl
    · obtain ⟨s, ss, h1, h2⟩ := segments_cons_ne hc r
      rw [h2, joinSlash_cons]
      rw [h1, joinSlash_cons] at ih
      injection ih with _ ih
      rw [List.cons_append, ih]

/-- one segment that is not the last one -/
def absStep (st : List Str) (s : Str) : List Str :=
  if s = [cDot] then st else if s = [cDot, cDot] then st.tail else s :: st

/-- the last segment: a trailing dot segment leaves a trailing "/" -/
def absLast (st : List Str) (s : Str) : List Str :=
  if s = [cDot] ∨ s = [cDot, cDot] then [] :: absStep st s else absStep st s

/-- the output stack (top first) after all segments -/
def absRun : List Str → List Str → List Str
  | st, [] => st
  | st, [s] => absLast st s
  | st, s :: s2 :: rest => absRun (absStep st s) (s2 :: rest)

abbrev AllNoSlash (l : List Str) : Prop := ∀ s ∈ l, NoSlash s

theorem popSegment_joinSlash {st : List Str} (h : AllNoSlash st) :
    popSegment (joinSlash st.reverse) = joinSlash st.tail.reverse := by
  cases st with
  | nil => rfl
  | cons top st' =>
    rw [List.reverse_cons, joinSlash_snoc, popSegment_append (h top (by simp))]; rfl

theorem noDot_slash_seg {s : Str} (hs : NoSlash s) (hd : isDotSegment s = false) :
    NoDotSegments (cSlash :: s) := by
  intro x hx
  rw [segments_cons_slash, segments_noSlash hs] at hx
  rcases List.mem_cons.mp hx with h | h
  · subst h; rfl
  · simp only [List.mem_singleton] at h; subst h; exact hd

theorem not_isDot {s : Str} (h1 : s ≠ [cDot]) (h2 : s ≠ [cDot, cDot]) : isDotSegment s = false := by
  simp [isDotSegment, h1, h2]

/-- a regular segment followed by more input does not trigger steps A–D -/
theorem not_stepAD_regular {s : Str} (hs : NoSlash s) (h1 : s ≠ [cDot]) (h2 : s ≠ [cDot, cDot]) (tail : Str) :
    ¬ stepAD (cSlash :: (s ++ cSlash :: tail)) := by
  have tw := takeWhile_ns_append hs tail
  intro h
  rcases h with ⟨t, h⟩ | ⟨t, h⟩ | ⟨t, h⟩ | h | ⟨t, h⟩ | h | h | h
  · injection h with h _; exact absurd h (by decide)
  · injection h with h _; exact absurd h (by decide)
  · injection h with _ h
    rw [h] at tw
    have e : List.takeWhile (· != cSlash) ([cDot] ++ cSlash :: t) = [cDot] := takeWhile_ns_append (by decide) t
    exact h1 (by rw [← tw]; exact e)
  · injection h with _ h
    have : cSlash ∈ s ++ cSlash :: tail := by simp
    rw [h] at this; simp at this
  · injection h with _ h
    rw [h] at tw
    have e : List.takeWhile (· != cSlash) ([cDot, cDot] ++ cSlash :: t) = [cDot, cDot] := takeWhile_ns_append (by decide) t
    exact h2 (by rw [← tw]; exact e)
  · injection h with _ h
    have : cSlash ∈ s ++ cSlash :: tail := by simp
    rw [h] at this; simp at this
  · injection h with h _; exact absurd h (by decide)
  · injection h with h _; exact absurd h (by decide)

theorem rdsLoop_abs : ∀ (n : Nat) (segs st : List Str), AllNoSlash segs → AllNoSlash st → segs ≠ [] →
    (joinSlash segs).length < n →
    rdsLoop n (joinSlash segs) (joinSlash st.reverse) = joinSlash (absRun st segs).reverse := by
  intro n
  induction n with
  | zero => intro segs st _ _ _ h; omega
  | succ n ih =>
    intro segs st hsegs hst hne hlen
    match segs, hne with
    | [s], _ =>
      have hs : NoSlash s := hsegs s (by simp)
      rw [joinSlash_cons, joinSlash_nil, List.append_nil] at hlen ⊢
      unfold absRun absLast absStep
      by_cases h1 : s = [cDot]
      · subst h1
        unfold rdsLoop
        simp only [rdsStep, beginsWith]
        have hn : 1 < n := by simp at hlen; omega
        simp only [show ([cSlash, cDot] : Str) ≠ [] from by decide, if_false]
        rw [show (List.isPrefixOf [cDot, cDot, cSlash] [cSlash, cDot]) = false from by decide,
            show (List.isPrefixOf [cDot, cSlash] [cSlash, cDot]) = false from by decide,
            show (List.isPrefixOf [cSlash, cDot, cSlash] [cSlash, cDot]) = false from by decide]
        simp only [Bool.false_eq_true, if_false, if_true]
        rw [rdsLoop_noDot n [cSlash] _ (by simp; omega) (by decide)]
        simp [joinSlash_snoc]
      · by_cases h2 : s = [cDot, cDot]
        · subst h2
          unfold rdsLoop
          simp only [rdsStep, beginsWith]
          have hn : 1 < n := by simp at hlen; omega
          simp only [show ([cSlash, cDot, cDot] : Str) ≠ [] from by decide, if_false]
          rw [show (List.isPrefixOf [cDot, cDot, cSlash] [cSlash, cDot, cDot]) = false from by decide,
              show (List.isPrefixOf [cDot, cSlash] [cSlash, cDot, cDot]) = false from by decide,
              show (List.isPrefixOf [cSlash, cDot, cSlash] [cSlash, cDot, cDot]) = false from by decide,
              show (List.isPrefixOf [cSlash, cDot, cDot, cSlash] [cSlash, cDot, cDot]) = false from by decide]
          simp only [Bool.false_eq_true, if_false, if_true,
            show ([cSlash, cDot, cDot] : Str) ≠ [cSlash, cDot] from by decide]
          rw [rdsLoop_noDot n [cSlash] _ (by simp; omega) (by decide), popSegment_joinSlash hst]
          simp [joinSlash_snoc, h1]
        · rw [rdsLoop_noDot (n + 1) _ _ (by omega) (noDot_slash_seg hs (not_isDot h1 h2))]
          simp [h1, h2, joinSlash_snoc]
    | s :: s2 :: rest, _ =>
      have hs : NoSlash s := hsegs s (by simp)
      have hrest : AllNoSlash (s2 :: rest) := fun x hx => hsegs x (List.mem_cons_of_mem _ hx)
      have hj : joinSlash (s :: s2 :: rest) = cSlash :: (s ++ cSlash :: (s2 ++ joinSlash rest)) := by
        rw [joinSlash_cons, joinSlash_cons]
      have hj2 : joinSlash (s2 :: rest) = cSlash :: (s2 ++ joinSlash rest) := joinSlash_cons _ _
      have hlen2 : (joinSlash (s2 :: rest)).length < n := by
        rw [hj] at hlen; rw [hj2]; simp at hlen ⊢; omega
      unfold absRun
      unfold rdsLoop
      rw [if_neg (by rw [hj]; simp)]
      by_cases h1 : s = [cDot]
      · subst h1
        have e : rdsStep (joinSlash ([cDot] :: s2 :: rest)) (joinSlash st.reverse)
            = (joinSlash (s2 :: rest), joinSlash st.reverse) := by
          rw [hj, hj2]; simp [rdsStep, beginsWith, show cDot ≠ cSlash from by decide]
        rw [e]; simp only
        rw [ih _ _ hrest hst (by simp) hlen2]
        simp [absStep]
      · by_cases h2 : s = [cDot, cDot]
        · subst h2
          have e : rdsStep (joinSlash ([cDot, cDot] :: s2 :: rest)) (joinSlash st.reverse)
              = (joinSlash (s2 :: rest), popSegment (joinSlash st.reverse)) := by
            rw [hj, hj2]; simp [rdsStep, beginsWith, show cDot ≠ cSlash from by decide]
          rw [e]; simp only
          rw [popSegment_joinSlash hst]
          have hst' : AllNoSlash st.tail := fun x hx => hst x (List.mem_of_mem_tail hx)
          rw [ih _ _ hrest hst' (by simp) hlen2]
          simp [absStep]
        · rw [hj, rdsStep_E (not_stepAD_regular hs h1 h2 _)]
          simp only
          have e1 : afterFirstSegment (cSlash :: (s ++ cSlash :: (s2 ++ joinSlash rest))) = joinSlash (s2 :: rest) := by
            rw [hj2]; simp only [afterFirstSegment, if_true]; exact dropWhile_ns_append hs _
          have e2 : joinSlash st.reverse ++ firstSegment (cSlash :: (s ++ cSlash :: (s2 ++ joinSlash rest)))
              = joinSlash (s :: st).reverse := by
            rw [firstSegment_slash, takeWhile_ns_append hs, List.reverse_cons, joinSlash_snoc]
          rw [e1, e2]
          have hst' : AllNoSlash (s :: st) := by
            intro x hx
            rcases List.mem_cons.mp hx with h | h
            · subst h; exact hs
            · exact hst x h
          rw [ih _ _ hrest hst' (by simp) hlen2]
          simp [absStep, h1, h2]

/-- `removeDotSegments` of an absolute path is the stack machine run on its segments -/
theorem rds_abs (r : Str) : removeDotSegments (cSlash :: r) = joinSlash (absRun [] (segments r)).reverse := by
  unfold removeDotSegments
  have h := rdsLoop_abs ((cSlash :: r).length + 1) (segments r) [] (segments_mem_noSlash r)
    (by intro s hs; simp at hs) (segments_ne_nil r)
  rw [joinSlash_segments] at h
  exact h (by omega)

end RdfModel.Proofs.C12
