/-
  Audit for C04: axioms used by every property theorem of Props/C04.lean, Props/C04Tables.lean and
  Props/C04Facts.lean (expected: a subset of {propext, Classical.choice, Quot.sound}), and the main
  theorem instantiated at the regenerated tables on the non-vacuity witness.
-/
import RdfModel.Props.C04
import RdfModel.Props.C04Facts
import RdfModel.Props.C04Heap
open RdfModel RdfModel.C04

#print axioms RdfModel.C04.canon_refines_spec
#print axioms RdfModel.C04.spec_fuel_mono
#print axioms RdfModel.C04.spec_result_unique
#print axioms RdfModel.C04.canon_refines_Canon
#print axioms RdfModel.C04.canonical_literal_escaping
#print axioms RdfModel.C04.canonical_iri
#print axioms RdfModel.C04.permsAgree_heapPerms
#print axioms RdfModel.C04.gen_nquads_canon
#print axioms RdfModel.C04.gen_iriRaw_iff
#print axioms RdfModel.C04.facts_first_degree_labels
#print axioms RdfModel.C04.facts_related_input
#print axioms RdfModel.C04.facts_limits
#print axioms RdfModel.C04.facts_path_conditions
#print axioms RdfModel.C04.facts_issuer
#print axioms RdfModel.C04.facts_sorts
#print axioms RdfModel.C04.facts_loop_control
#print axioms RdfModel.C04.opts_hash_last_set_wins
#print axioms RdfModel.C04.opts_hash_unset_keeps
#print axioms RdfModel.C04.opts_prov_last_set_wins
#print axioms RdfModel.C04.opts_prov_unset_keeps
#print axioms RdfModel.C04.opts_build_last_set_wins
#print axioms RdfModel.C04.opts_build_unset_keeps
#print axioms RdfModel.C04.opts_default
#print axioms RdfModel.C04.Witness.wf
#print axioms RdfModel.C04.heap_complete_0
#print axioms RdfModel.C04.heap_complete_1
#print axioms RdfModel.C04.heap_complete_2
#print axioms RdfModel.C04.heap_complete_3
#print axioms RdfModel.C04.heap_complete_4
#print axioms RdfModel.C04.heap_complete_5
#print axioms RdfModel.C04.heap_complete_6

/-- The refinement theorem on the witness dataset, the regenerated tables, Go's default limits, the
    identity order and the untruncated-to-5000 Heap enumeration: all hypotheses are discharged. -/
theorem RdfModel.C04.Witness.refines (H : Str → Str) (out : Rdfcanon.Out Nat)
    (h : Rdfcanon.canon Gen.nquads H Rdfcanon.defaultLimits id Witness.quads = .ok out) :
    Spec.RDFC10.canonFuel H id (Rdfcanon.heapPerms 5000) true 513 Witness.quads = some (specView out) :=
  canon_refines_spec Gen.nquads gen_nquads_canon H Rdfcanon.defaultLimits id Witness.ordOK_id _
    (permsAgree_heapPerms 4096 5000 (by decide)) Witness.quads Witness.wf out h

#print axioms RdfModel.C04.Witness.refines
