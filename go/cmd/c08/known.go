package main

// Known-finding predicates: functions of the generated document and its choices (never of what the
// decoder did).  A C08/C07 failure inside one of these classes is reported as `known`; anything
// else is a violation.

import (
	"regexp"
	"strings"
)

var predicateNames = []string{"bnpl-subject-semicolon", "comment-cr", "keyword-glue", "pname-bool-prefix", "pname-prefix-space"}

// bnpl-subject-semicolon (D42): a document-level triples whose subject is `[ pol ]` (with content)
// and whose own predicate-object list contains a `;` (two or more pairs, or a written semicolon).
func predBnplSubjectSemicolon(si []slotInfo, ch choices) bool {
	for i, s := range si {
		if s.kind == skSemi && s.inBnplS && semis(s, ch.at(i)) > 0 {
			return true
		}
	}
	return false
}

func itemHasLF(it litem) bool {
	if it.ws >= 0 {
		return it.ws == 2
	}
	// eol 3 renders LF unless the comment is the very end of the document (then no token follows anyway)
	return it.eol != 2
}

// crCommentSwallows: the layout contains a comment ended by a lone CR with no line feed behind it in
// the same layout, so that whatever follows the layout stands on the comment's line for a reader
// that ends comments at LF only.
func crCommentSwallows(l []litem) bool {
	for k, it := range l {
		if it.ws < 0 && it.eol == 2 {
			lf := false
			for _, jt := range l[k+1:] {
				if itemHasLF(jt) {
					lf = true
					break
				}
			}
			if !lf {
				return true
			}
		}
	}
	return false
}

// comment-cr: some used layout contains a comment ended by a lone CR that is followed by more tokens.
func predCommentCR(si []slotInfo, ch choices) bool {
	for i, s := range si {
		c := ch.at(i)
		if s.kind == skSemi && semis(s, c) >= 2 && crCommentSwallows(c.lay2) {
			return true // the next `;` follows
		}
		if layUsed(s, c) && crCommentSwallows(c.lay) && nextWritten(si, ch, i) >= 0 {
			return true
		}
	}
	return false
}

// PN_CHARS of the Turtle grammar.
func isPNCharsBase(c rune) bool {
	switch {
	case 'A' <= c && c <= 'Z', 'a' <= c && c <= 'z',
		0xC0 <= c && c <= 0xD6, 0xD8 <= c && c <= 0xF6, 0xF8 <= c && c <= 0x2FF, 0x370 <= c && c <= 0x37D,
		0x37F <= c && c <= 0x1FFF, 0x200C <= c && c <= 0x200D, 0x2070 <= c && c <= 0x218F, 0x2C00 <= c && c <= 0x2FEF,
		0x3001 <= c && c <= 0xD7FF, 0xF900 <= c && c <= 0xFDCF, 0xFDF0 <= c && c <= 0xFFFD, 0x10000 <= c && c <= 0xEFFFF:
		return true
	}
	return false
}

func isPNChars(c rune) bool {
	return isPNCharsBase(c) || c == '_' || c == '-' || ('0' <= c && c <= '9') || c == 0xB7 || (0x300 <= c && c <= 0x36F) || (0x203F <= c && c <= 0x2040)
}

// nameCont mirrors `TA.nameCont`: runes that would continue a keyword as a prefixed name.
func nameCont(c rune) bool {
	return isPNChars(c) || c == '.' || c == ':' || c == '%' || c == '\\'
}

// keyword-glue: a written keyword (`a`, PREFIX, BASE, GRAPH) whose slot sets `glue` and which is not
// followed by a white-space character in the text: the layout after it starts with a comment, or
// is empty and the next token does not start with a name character (then the printer puts a
// space).  `BASE<` is read by every reader and is not in the class.
func predKeywordGlue(si []slotInfo, ch choices) bool {
	for i, s := range si {
		c := ch.at(i)
		if !c.glue || !tokenWritten(s, c) {
			continue
		}
		switch s.kind {
		case skA, skKwPrefix, skKwBase, skKwGraph:
		default:
			continue
		}
		if len(c.lay) > 0 {
			if c.lay[0].ws < 0 {
				return true
			}
			continue
		}
		j := nextWritten(si, ch, i)
		if j < 0 {
			continue
		}
		f := firstRuneOfToken(si[j], ch.at(j))
		if nameCont(f) {
			continue // `clash`: the printer inserts a space
		}
		if s.kind == skKwBase && f == '<' {
			continue
		}
		return true
	}
	return false
}

func boolPrefixed(p string) bool {
	return strings.HasPrefix(p, "true") || strings.HasPrefix(p, "false")
}

func objBoolPfx(o obj) bool {
	switch o.kind {
	case oIRI:
		return o.iri.pn && boolPrefixed(o.iri.p)
	case oBnpl:
		return posBoolPfx(o.pos)
	case oColl:
		for _, x := range o.items {
			if objBoolPfx(x) {
				return true
			}
		}
	}
	return false
}

func posBoolPfx(pos []po) bool {
	for _, p := range pos {
		for _, o := range p.objs {
			if objBoolPfx(o) {
				return true
			}
		}
	}
	return false
}

func triplesBoolPfx(t triples) bool {
	s := false
	switch t.s.kind {
	case oBnpl, oColl:
		s = objBoolPfx(t.s)
	}
	return s || posBoolPfx(t.pos)
}

// pname-bool-prefix: an object (also inside collections and property lists) written as a prefixed
// name whose prefix label starts with `true` or `false`.  Mirrors `C08.docNoBoolPfx` (negated).
func predPnameBoolPrefix(d doc) bool {
	for _, b := range d {
		switch b.kind {
		case bTriples:
			if triplesBoolPfx(b.t) {
				return true
			}
		case bGraph:
			for _, t := range b.body {
				if triplesBoolPfx(t) {
					return true
				}
			}
		}
	}
	return false
}

// pname-prefix-space: some prefix label (of a prefixed name or of a @prefix / PREFIX directive)
// contains U+1680 OGHAM SPACE MARK: it is in PN_CHARS_BASE, but unicode.IsSpace is true for it and the
// decoder skips it at the start of a token (such documents have docWf = 0).
func predPnamePrefixSpace(si []slotInfo) bool {
	for _, s := range si {
		switch s.kind {
		case skNs:
			if strings.ContainsRune(s.text, 0x1680) {
				return true
			}
		case skPName:
			if i := strings.IndexByte(s.text, ':'); i >= 0 && strings.ContainsRune(s.text[:i], 0x1680) {
				return true
			}
		}
	}
	return false
}

var (
	textCommentCR = regexp.MustCompile(`#[^\n]*\r([^\n]|$)`)
	textBnplSemi  = regexp.MustCompile(`(?s)(^|[.}])[ \t\r\n]*\[.*\].*;`)
)

// textClasses: over-approximations of comment-cr and bnpl-subject-semicolon on a text that is not the
// print of a known document (mutated texts): a `#` followed on the same line by a CR that is not part
// of CR LF; a `]` with a `;` somewhere behind it.
func textClasses(text []byte) []string {
	var out []string
	if textBnplSemi.Match(text) {
		out = append(out, "bnpl-subject-semicolon")
	}
	if textCommentCR.Match(text) {
		out = append(out, "comment-cr")
	}
	if strings.ContainsRune(string(text), 0x1680) {
		out = append(out, "pname-prefix-space")
	}
	return out
}

// classesOf lists the known-finding predicates the case falls into.
func classesOf(d doc, si []slotInfo, ch choices) []string {
	// deviations that are still open first: a failing case is attributed to the first active class
	var out []string
	if predKeywordGlue(si, ch) {
		out = append(out, "keyword-glue")
	}
	if predPnameBoolPrefix(d) {
		out = append(out, "pname-bool-prefix")
	}
	if predPnamePrefixSpace(si) {
		out = append(out, "pname-prefix-space")
	}
	if predBnplSubjectSemicolon(si, ch) {
		out = append(out, "bnpl-subject-semicolon")
	}
	if predCommentCR(si, ch) {
		out = append(out, "comment-cr")
	}
	return out
}
