/-
  RdfModel.Model.RdfXmlTokens — the token stream of an abstract XML tree of Spec.RdfXmlFragment, i.e. what
  `encoding/xml`'s `Decoder.Token()` yields for a serialisation of the tree that uses no comments,
  processing instructions or directives and does not split character data (the serialiser of go/cmd/c09
  does all of that; the decoder model ignores those tokens or concatenates the pieces, which the T3
  correspondence exercises).  An opaque `raw s` node (content under rdf:parseType="Literal") is
  represented by the single token `chars s`; `rawTable` is the graph of the `render` parameter on these
  contents (render [chars s] = s).

  Core-only imports: linked into the driver.
-/
import RdfModel.Model.RdfXmlDecoder
namespace RdfModel.RXD
open RdfModel RdfModel.Desc RdfModel.RX

mutual
def tokens : Node → List Tok
  | .elem ns name attrs kids => .start ns name attrs :: (tokensList kids ++ [.end_ ns name])
  | .text s => [.chars s]
  | .raw s => [.chars s]
def tokensList : List Node → List Tok
  | [] => []
  | k :: ks => tokens k ++ tokensList ks
end

def tokensDoc (t : Node) : List Tok := tokens t

mutual
def rawTable : Node → List (List Tok × Option Str)
  | .elem _ _ _ kids => rawTableList kids
  | .text _ => []
  | .raw s => [([.chars s], some s)]
def rawTableList : List Node → List (List Tok × Option Str)
  | [] => []
  | k :: ks => rawTable k ++ rawTableList ks
end

end RdfModel.RXD
