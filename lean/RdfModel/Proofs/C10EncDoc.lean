/-
  C10 helper lemmas, part 6 (encoder direction): statement level of the document induction (c).

  Under the active context of the encoder's `@context` (`GoodCtx`), the JSON value `buildResource`
  writes for one ObjectStatement — `{"@id": …}` for an IRI or a blank node, a string, a typed or
  language-tagged value object for a literal — evaluates under `evalItem` to exactly the one quad of
  the statement, and the member name it is filed under classifies as that property.

  What is still missing for `encCert_of_natural`: the induction over nested AnonResources and the
  grouping by member name (`propMembers` vs `groupsOf`), the root level (`@graph`, single item), and
  `structOK` (C17).
-/
import RdfModel.Proofs.C10EncIri
namespace RdfModel.Proofs.C10
open RdfModel RdfModel.Desc RdfModel.JL RdfModel.JLEnc RdfModel.C10

variable {β : Type} {E : Enc} {bs : Option Str} {used names : List Str} {c : Ctx}

/-- a blank node identifier in `@id` position is read as that blank node, whatever the terms -/
theorem expandIri_bnode_doc (c : Ctx) (docRel : Bool) (l : Str) :
    expandIri c false docRel (cUnderscore :: cColon :: l) = .bnode l := by
  have hk : isKeyword (cUnderscore :: cColon :: l) = false :=
    isKeyword_of_head (by simp [cUnderscore, cAt])
  have hf : isKeywordForm (cUnderscore :: cColon :: l) = false := by
    simp [isKeywordForm, cUnderscore, cAt]
  have hcol : colonAfterFirst (cUnderscore :: cColon :: l) = true := by simp [colonAfterFirst]
  have hsp : splitColon (cUnderscore :: cColon :: l) = some ([cUnderscore], l) := by
    simp [splitColon, cUnderscore, cColon]
  unfold expandIri
  simp [hk, hf, hcol, hsp]

/-- `{"@id": t}` as a value of `p`, when `t` is read as the node `o` -/
theorem evalItem_idObj (c : Ctx) (g : Option T) (s : T) (p t : Str) (o : T) (n : Nat)
    (h : nodeRef (expandIri c false true t) = some o) :
    evalItem c TermDef.plain g s p (.obj [(kId, .str t)]) n = some ([quad s p o g], n) := by
  have h1 : getKey kContext [(kId, Json.str t)] = none := by simp +decide [getKey]
  have h2 : getKey kId [(kId, Json.str t)] = some (.str t) := by simp [getKey]
  have hh : nodeHead c false [(kId, .str t)] n = some (c, o, n, false) := by
    simp [nodeHead, h1, h2, evalId, h]
  rw [evalItem.eq_4 _ _ _ _ _ _ _ _ (by intro xs e; cases e)]
  rw [if_neg (by decide), if_neg (by decide), if_neg (by decide), hh]
  simp [evalMembers, classifyKey_id, andThen]

/-- an IRI object (not a value of `@type`) -/
theorem evalItem_iriObj (hc : GoodCtx E bs used names c) (hbase : bs.isSome = E.base.isSome) {v : Str}
    (h : IriOK E used names v) (hrel : ∀ b, bs = some b → relOK E names b v = true)
    (g : Option T) (s : T) (p : Str) (n : Nat) :
    evalItem c TermDef.plain g s p (.obj [(kId, .str (compactDocumentIRI E v).1)]) n =
      some ([quad s p (.iri v) g], n) :=
  evalItem_idObj c g s p _ _ n (by rw [docForm hc hbase h hrel]; simp [nodeRef, h.abs])

/-- a blank node object written with its identifier -/
theorem evalItem_bnodeObj (label : β → Str) (hne : ∀ b, label b ≠ []) (c : Ctx) (g : Option T) (s : T) (p : Str)
    (b : β) (n : Nat) :
    evalItem c TermDef.plain g s p (.obj [(kId, .str ([cUnderscore, cColon] ++ label b))]) n =
      some ([quad s p (.bnode (.orig (label b))) g], n) :=
  evalItem_idObj c g s p _ _ n (by
    show nodeRef (expandIri c false true (cUnderscore :: cColon :: label b)) = _
    rw [expandIri_bnode_doc]; simp [nodeRef, hne b])

/-- a literal object: `literalValue` is read back as the literal, for every literal that is not written
    as a native JSON number or boolean -/
theorem evalItem_litObj (hc : GoodCtx E bs used names c) (lex dt : Str) (lang : Option Str)
    (hwf : wfObj (Term.lit lex dt lang : Term β) = true)
    (hnn : (dt == xsdInteger || dt == xsdDouble || dt == xsdBoolean) = false)
    (hdt : dt ≠ xsdString → IriOK E used names dt)
    (g : Option T) (s : T) (p : Str) (n : Nat) :
    evalItem c TermDef.plain g s p (literalValue E lex dt lang).1 n =
      some ([quad s p (.lit lex dt lang) g], n) := by
  simp only [Bool.or_eq_false_iff, beq_eq_false_iff_ne] at hnn
  obtain ⟨⟨h1, h2⟩, h3⟩ := hnn
  unfold literalValue
  by_cases hs : dt = xsdString
  · subst hs
    cases lang with
    | some l => simp +decide [wfObj] at hwf
    | none =>
      simp only [if_true]
      rw [evalItem.eq_6] <;> first
        | simp [evalScalar, TermDef.plain, hc.lang]
        | (intros; rename_i e; cases e)
        | (intro e; cases e)
  · simp only [hs, if_false, h1, h2, h3, false_and, Bool.false_and, Bool.or_self, Bool.false_eq_true,
      decide_false]
    have hform := (vocabForm hc (hdt hs)).2.2 true true
    cases lang with
    | none =>
      simp only [wfObj] at hwf
      have : (if dt = rdfLangString then (none : Option Str) else none) = none := by split <;> rfl
      simp only [this]
      rw [evalItem.eq_5 _ _ _ _ _ _ _ (by intro k xs e; cases e) (by intro k x e; cases e)]
      simp +decide [hasKey, valueObjQuads, evalValueObj, getKey, hform, hwf]
    | some l =>
      simp only [wfObj, Bool.and_eq_true, beq_iff_eq] at hwf
      obtain ⟨rfl, hl⟩ := hwf
      simp only [if_true]
      rw [evalItem.eq_5 _ _ _ _ _ _ _ (by intro k xs e; cases e) (by intro k x e; cases e)]
      simp +decide [hasKey, valueObjQuads, evalValueObj, getKey, hl]

/-- the member name `compactVocabIRI` files a property under classifies as that property, with the plain
    term definition (the name is no term: it contains a colon) -/
theorem classifyKey_vocab (hc : GoodCtx E bs used names c) {p : Str} (h : IriOK E used names p) :
    classifyKey c (compactVocabIRI E p).1 = .prop p TermDef.plain := by
  obtain ⟨hhead, hcol, hexp⟩ := vocabForm hc h
  have hne : ∀ k : Str, k.head? = some cAt → (compactVocabIRI E p).1 ≠ k := fun k hk => ne_of_head hk hhead
  have hkw : isKeyword (compactVocabIRI E p).1 = false := isKeyword_of_head hhead
  have hkf : isKeywordForm (compactVocabIRI E p).1 = false := by
    cases hh : (compactVocabIRI E p).1 with
    | nil => rfl
    | cons a r =>
      cases r with
      | nil => rfl
      | cons d r' =>
        rw [hh] at hhead
        have : (a == cAt) = false := by simpa using hhead
        simp [isKeywordForm, this]
  have hpc : cColon ∈ p := by simpa using contains_colon_of_abs h.abs
  unfold classifyKey
  rw [if_neg (hne _ (by decide)), if_neg (hne _ (by decide)), if_neg (hne _ (by decide)),
    if_neg (hne _ (by decide)), hkw, hkf]
  simp [hexp true false, h.abs, term?_none_of_colon hc hcol, hpc]

end RdfModel.Proofs.C10
