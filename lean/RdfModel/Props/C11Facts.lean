/-
  Property C11, the part that consumes generated data (Gen/HtmlFacts.lean, T2: go/ast facts about
  encoding/html/htmldefaults and the sub-decoders' constructors, regenerated on every run).
-/
import RdfModel.Props.C11
import RdfModel.Gen.HtmlFacts
namespace RdfModel.C11
open RdfModel RdfModel.Desc

/-- T2: `(*Decoder).init` of htmldefaults hands none of the three sub-decoder constructors anything that mentions a
    blank-node factory; each sub-decoder, left alone, makes a factory of its own (htmljsonld: one per script
    element); the extractor met no code shape it does not understand. -/
theorem factories_not_shared :
    Gen.HtmlFacts.subFacts.map (·.sub) = [.jsonld, .microdata, .rdfa] ∧
    Gen.HtmlFacts.subFacts.all (fun f => !f.passesFactory && f.defaultFresh) = true ∧
    Gen.HtmlFacts.jsonldDecoderPerScript = true ∧
    Gen.HtmlFacts.unknowns = [] := by decide

/-- T2: the iterator slice is `[jsonld, microdata, rdfa]`, and Microdata is configured with the item-type resolver
    (the vocabulary rule Spec.MicrodataFragment describes). -/
theorem chain_order :
    Gen.HtmlFacts.chainOrder = [.jsonld, .microdata, .rdfa] ∧ Gen.HtmlFacts.microdataResolverIsItemtype = true := by decide

/-- Non-vacuity of `rdfa_roundtrip`'s hypothesis in the initial context the library uses. -/
example : Spec.Rdfa.expressible
    (Spec.Rdfa.bodyCtx (asc "http://ex.org/dir/page.html#x") Gen.HtmlFacts.initialPrefixes Gen.HtmlFacts.terms11 {}).env
    ([⟨.iri (asc "http://ex.org/a"), asc "http://schema.org/name", .lit (asc "A b") xsdString none⟩,
      ⟨.bnode 3, asc "urn:p:x", .iri (asc "mailto:a@b.example")⟩,
      ⟨.iri (asc "http://ex.org/a"), asc "http://p.example/q", .lit (asc "x") rdfLangString (some (asc "en"))⟩] :
        List (Triple Nat)) = true := by decide

end RdfModel.C11
