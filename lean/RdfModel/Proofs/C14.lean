/-
  C14: proofs of the property theorems (statements are repeated in Props/C14.lean).
-/
import RdfModel.Proofs.C14Trace
namespace RdfModel.Proofs.C14
open RdfModel.BN RdfModel.C14

theorem fresh_unique (U : Nat → Bytes) (d : Nat) (ops : List Op) (i j : Nat) (hij : i < j)
    (opi opj : Op) (ni : Node) (idj : Ident)
    (hi : (trace U (init d) ops)[i]? = some (opi, .node ni))
    (hj : (trace U (init d) ops)[j]? = some (opj, .node (some idj)))
    (hf : FreshOp opj) :
    termEquals ni (some idj) = false ∧ termEquals (some idj) ni = false := by
  obtain ⟨_, ho⟩ := trace_getElem? U (init d) ops j opj _ hj
  have hn := step_fresh_not_issued U (s := exec U (init d) (ops.take j)) opj hf idj ho.symm
  exact unique_of_not_issued U (inv_init d) ops hij opi ni hi idj hn

/-- a fresh operation's result is never the nil node -/
theorem fresh_out_some (U : Nat → Bytes) (s : State) (op : Op) (hf : FreshOp op) (n : Node)
    (h : (step U s op).2 = .node n) : ∃ id, n = some id := by
  rcases hf with ⟨f, rfl⟩ | ⟨j, rfl⟩
  · simp only [step] at h
    split at h
    · simp at h; exact ⟨_, h.symm⟩
    · cases h
  · simp only [step] at h
    split at h
    · simp at h
      split at h
      · simp at h; exact ⟨_, h.symm⟩
      · cases h
    · cases h

theorem fresh_pairwise (U : Nat → Bytes) (d : Nat) (ops : List Op) (i j : Nat) (hij : i ≠ j)
    (opi opj : Op) (ni nj : Node)
    (hi : (trace U (init d) ops)[i]? = some (opi, .node ni))
    (hj : (trace U (init d) ops)[j]? = some (opj, .node nj))
    (hfi : FreshOp opi) (hfj : FreshOp opj) :
    termEquals ni nj = false := by
  rcases Nat.lt_or_gt_of_ne hij with h | h
  · obtain ⟨_, ho⟩ := trace_getElem? U (init d) ops j opj _ hj
    obtain ⟨idj, rfl⟩ := fresh_out_some U _ opj hfj nj ho.symm
    exact (fresh_unique U d ops i j h opi opj ni idj hi hj hfj).1
  · obtain ⟨_, ho⟩ := trace_getElem? U (init d) ops i opi _ hi
    obtain ⟨idi, rfl⟩ := fresh_out_some U _ opi hfi ni ho.symm
    exact (fresh_unique U d ops j i h opj opi nj idi hj hi hfi).2

/-- what `NewStringBlankNode` returns -/
theorem newString_out (U : Nat → Bytes) (s : State) (f : Nat) (a : Bytes) (x : Node)
    (h : (step U s (.newStringBlankNode f a)).2 = .node x) :
    (a ≠ [] ∧ x = some (.bnString f a)) ∨ (a = [] ∧ ∃ g v, x = some (.bn g v)) := by
  simp only [step] at h
  split at h
  · split at h
    · rename_i ha
      right
      refine ⟨ha, ?_⟩
      split at h
      · rename_i s' id hf
        simp at h; subst h
        simp only [fresh] at hf
        split at hf
        · split at hf
          · simp at hf; exact ⟨_, _, by rw [← hf.2]⟩
          · cases hf
        · cases hf
      · cases h
    · rename_i ha
      left
      simp at h
      exact ⟨ha, h.symm⟩
  · cases h

theorem string_factory_eq (U : Nat → Bytes) (d : Nat) (ops : List Op) (i j : Nat) (hij : i ≠ j)
    (f g : Nat) (a b : Bytes) (x y : Node)
    (hi : (trace U (init d) ops)[i]? = some (.newStringBlankNode f a, .node x))
    (hj : (trace U (init d) ops)[j]? = some (.newStringBlankNode g b, .node y)) :
    termEquals x y = true ↔ (f = g ∧ a = b ∧ a ≠ []) := by
  obtain ⟨_, hoi⟩ := trace_getElem? U (init d) ops i _ _ hi
  obtain ⟨_, hoj⟩ := trace_getElem? U (init d) ops j _ _ hj
  rcases newString_out U _ f a x hoi.symm with ⟨ha, rfl⟩ | ⟨ha, gx, vx, rfl⟩
  · rcases newString_out U _ g b y hoj.symm with ⟨hb, rfl⟩ | ⟨hb, gy, vy, rfl⟩
    · rw [termEquals_some]
      constructor
      · intro h; simp at h; exact ⟨h.1, h.2, ha⟩
      · rintro ⟨h1, h2, _⟩; rw [h1, h2]
    · constructor
      · intro h; rw [termEquals_some] at h; cases h
      · rintro ⟨_, h2, _⟩; rw [hb] at h2; exact absurd h2 ha
  · subst ha
    have hfi : FreshOp (.newStringBlankNode f []) := Or.inr ⟨f, rfl⟩
    constructor
    · intro h
      exfalso
      rcases newString_out U _ g b y hoj.symm with ⟨hb, rfl⟩ | ⟨hb, gy, vy, rfl⟩
      · rw [termEquals_some] at h; cases h
      · subst hb
        have := fresh_pairwise U d ops i j hij _ _ _ _ hi hj hfi (Or.inr ⟨g, rfl⟩)
        rw [this] at h; cases h
    · rintro ⟨_, _, h3⟩; exact absurd rfl h3

/-- what a factory operation returns, by shape -/
theorem opFactory_out (U : Nat → Bytes) (s : State) (op : Op) (f : FactoryRef) (hf : opFactory op = some f)
    (x : Node) (h : (step U s op).2 = .node x) :
    FreshOp op ∨ (∃ j a, f = .strf j ∧ x = some (.bnString j a)) := by
  cases op with
  | newBlankNode f' => exact Or.inl (Or.inl ⟨f', rfl⟩)
  | newStringBlankNode j a =>
    simp [opFactory] at hf
    rcases newString_out U s j a x h with ⟨_, rfl⟩ | ⟨ha, _⟩
    · exact Or.inr ⟨j, a, hf.symm, rfl⟩
    · subst ha; exact Or.inl (Or.inr ⟨j, rfl⟩)
  | _ => simp [opFactory] at hf

theorem fresh_ne_string {s s' : State} {f : FactoryRef} {id : Ident} (h : fresh s f = some (s', id))
    (j : Nat) (a : Bytes) : id ≠ .bnString j a := by
  intro hid; subst hid
  cases f with
  | dflt => simp [fresh] at h
  | bnf i => simp only [fresh] at h; split at h <;> simp at h
  | strf k =>
    simp only [fresh] at h
    split at h
    · split at h <;> simp at h
    · cases h

theorem freshOp_ne_string (U : Nat → Bytes) (s : State) (op : Op) (hf : FreshOp op) (id : Ident)
    (h : (step U s op).2 = .node (some id)) (j : Nat) (a : Bytes) : id ≠ .bnString j a := by
  rcases hf with ⟨f, rfl⟩ | ⟨k, rfl⟩
  · simp only [step] at h
    split at h
    · rename_i s' id' hf; simp at h; subst h; exact fresh_ne_string hf j a
    · cases h
  · simp only [step] at h
    split at h
    · simp at h
      split at h
      · rename_i s' id' hf; simp at h; subst h; exact fresh_ne_string hf j a
      · cases h
    · cases h

theorem factories_disjoint (U : Nat → Bytes) (d : Nat) (ops : List Op) (i j : Nat)
    (opi opj : Op) (f g : FactoryRef) (x y : Node)
    (hi : (trace U (init d) ops)[i]? = some (opi, .node x))
    (hj : (trace U (init d) ops)[j]? = some (opj, .node y))
    (hf : opFactory opi = some f) (hg : opFactory opj = some g) (hfg : f ≠ g) :
    termEquals x y = false := by
  have hij : i ≠ j := by
    intro h; subst h
    rw [hi] at hj; simp at hj
    rw [hj.1] at hf; rw [hf] at hg; simp at hg; exact hfg hg
  obtain ⟨_, hoi⟩ := trace_getElem? U (init d) ops i _ _ hi
  obtain ⟨_, hoj⟩ := trace_getElem? U (init d) ops j _ _ hj
  rcases opFactory_out U _ opi f hf x hoi.symm with hfi | ⟨ji, ai, rfl, rfl⟩
  · rcases opFactory_out U _ opj g hg y hoj.symm with hfj | ⟨jj, aj, rfl, rfl⟩
    · exact fresh_pairwise U d ops i j hij opi opj x y hi hj hfi hfj
    · obtain ⟨idi, rfl⟩ := fresh_out_some U _ opi hfi x hoi.symm
      rw [termEquals_comm]
      apply termEquals_false_of_ne
      intro h; simp at h
      exact freshOp_ne_string U _ opi hfi idi hoi.symm jj aj h.symm
  · rcases opFactory_out U _ opj g hg y hoj.symm with hfj | ⟨jj, aj, rfl, rfl⟩
    · obtain ⟨idj, rfl⟩ := fresh_out_some U _ opj hfj y hoj.symm
      apply termEquals_false_of_ne
      intro h; simp at h
      exact freshOp_ne_string U _ opj hfj idj hoj.symm ji ai h.symm
    · apply termEquals_false_of_ne
      intro h; simp at h
      exact hfg (by rw [h.1])

/-! ### providers -/

theorem provider_function (U : Nat → Bytes) (d : Nat) (ops : List Op) (i j : Nat) (hij : i < j)
    (p : ProvRef) (n : Node) (oi oj : Out)
    (hi : (trace U (init d) ops)[i]? = some (.getLabel p n, oi))
    (hj : (trace U (init d) ops)[j]? = some (.getLabel p n, oj))
    (hb : oi ≠ .bad) : oj = oi := by
  have hp := peek_after U (init d) ops i p n oi hi hb hij
  obtain ⟨_, ho⟩ := trace_getElem? U (init d) ops j _ _ hj
  rw [ho]
  simp only [step]
  exact peek_getLabel U _ p n oi hp

theorem provider_injective (U : Nat → Bytes) (hU : Function.Injective U) (d : Nat) (ops : List Op) (i j : Nat)
    (p : ProvRef) (hp : isLeaf p = true) (n m : Node) (a b : Bytes)
    (hi : (trace U (init d) ops)[i]? = some (.getLabel p n, .label a))
    (hj : (trace U (init d) ops)[j]? = some (.getLabel p m, .label b))
    (hnm : n ≠ m) : a ≠ b := by
  intro hab; subst hab
  have h1 := peek_final U (init d) ops i p n _ hi (by simp)
  have h2 := peek_final U (init d) ops j p m _ hj (by simp)
  exact hnm (peek_inj_leaf U hU (inv_exec U (inv_init d) ops) p hp n m a h1 h2)

theorem passthrough_own_label (U : Nat → Bytes) (s : State) (sc : Nat) (fb : ProvRef) (v : Bytes) :
    step U s (.getLabel (.pass sc fb) (some (.bnString sc v))) = (s, .label v) := by
  simp only [step]; exact getLabel_pass_own U s sc fb v

theorem passthrough_injective_partial (U : Nat → Bytes) (hU : Function.Injective U) (d : Nat) (ops : List Op)
    (i j : Nat) (sc : Nat) (fb : ProvRef) (hfb : isLeaf fb = true) (n m : Node) (a b : Bytes)
    (hi : (trace U (init d) ops)[i]? = some (.getLabel (.pass sc fb) n, .label a))
    (hj : (trace U (init d) ops)[j]? = some (.getLabel (.pass sc fb) m, .label b))
    (hnm : n ≠ m)
    (hdis : ∀ v x, (n = some (.bnString sc v) ∨ m = some (.bnString sc v)) →
      peek U (exec U (init d) ops) fb x ≠ some (.label v)) :
    a ≠ b := by
  intro hab; subst hab
  have h1 := peek_final U (init d) ops i _ n _ hi (by simp)
  have h2 := peek_final U (init d) ops j _ m _ hj (by simp)
  rcases pass_cases sc n with ⟨v, rfl⟩ | hn
  · rw [peek_pass_own] at h1; simp at h1; subst h1
    rcases pass_cases sc m with ⟨w, rfl⟩ | hm
    · rw [peek_pass_own] at h2; simp at h2; subst h2; exact hnm rfl
    · rw [peek_pass_other U _ sc fb m hm] at h2
      exact hdis v m (Or.inl rfl) h2
  · rw [peek_pass_other U _ sc fb n hn] at h1
    rcases pass_cases sc m with ⟨w, rfl⟩ | hm
    · rw [peek_pass_own] at h2; simp at h2; subst h2
      exact hdis w n (Or.inr rfl) h1
    · rw [peek_pass_other U _ sc fb m hm] at h2
      exact hnm (peek_inj_leaf U hU (inv_exec U (inv_init d) ops) fb hfb n m a h1 h2)

/-- the provider installed by `PropagateDecoderPipeBlankNodeStringProvider` labels every node that is not a
    string node of the decoding factory with the bare text of a UUID -/
theorem propagate_labels_uuid (U : Nat → Bytes) (d : Nat) (ops : List Op) (i j : Nat) (hij : i < j)
    (sc : Nat) (p : ProvRef) (n : Node) (a : Bytes)
    (hi : (trace U (init d) ops)[i]? = some (.propagate (some (.strf sc)), .prov p))
    (hj : (trace U (init d) ops)[j]? = some (.getLabel p n, .label a))
    (hn : ∀ v, n ≠ some (.bnString sc v)) : ∃ k, a = U k := by
  obtain ⟨hopi, hoi⟩ := trace_getElem? U (init d) ops i _ _ hi
  obtain ⟨_, hoj⟩ := trace_getElem? U (init d) ops j _ _ hj
  -- what `propagate` returned and allocated
  have key : ∃ k, p = .pass sc (.uuid k) ∧
      ∃ q, (exec U (init d) (ops.take (i + 1))).uuids[k]? = some q ∧ q.format = asc "%s" := by
    rw [exec_take_succ U (init d) ops i _ hopi]
    generalize exec U (init d) (ops.take i) = s at hoi ⊢
    simp only [step] at hoi ⊢
    split at hoi
    · rename_i hsc
      simp only [Out.prov.injEq] at hoi
      refine ⟨s.uuids.length, hoi, ⟨{ format := asc "%s", known := [] }, ?_, rfl⟩⟩
      simp [hsc]
    · cases hoi
  obtain ⟨k, rfl, q, hq, hfmt⟩ := key
  obtain ⟨q', hq', hfmt', _⟩ := (ext_take_le U (init d) ops (Nat.succ_le_of_lt hij)).uuids k q hq
  simp only [step] at hoj
  rw [getLabel_pass_other U _ sc (.uuid k) n hn] at hoj
  simp only [getLabel, hq'] at hoj
  have hs : ∀ x, sprintf1 q'.format uuidVerbs x = .label x := by
    intro x
    rw [hfmt', hfmt]
    have : splitVerb uuidVerbs (asc "%s") = some ([], []) := by decide
    simp [sprintf1, this]
  split at hoj
  · rw [hs] at hoj; simp at hoj; exact ⟨_, hoj⟩
  · rw [hs] at hoj; simp at hoj; exact ⟨_, hoj⟩

/-! ### mapper -/

theorem mapNode_out (s : State) (m : Nat) (n : Node) (x : Node) (h : (mapNode s m n).2 = .node x) :
    ∃ id, x = some id := by
  simp only [mapNode] at h
  split at h
  · cases h
  · split at h
    · simp at h; exact ⟨_, h.symm⟩
    · split at h
      · cases h
      · simp at h; exact ⟨_, h.symm⟩

theorem mapper_function (U : Nat → Bytes) (d : Nat) (ops : List Op) (i j : Nat) (hij : i < j)
    (m : Nat) (n : Node) (x : Node) (oj : Out)
    (hi : (trace U (init d) ops)[i]? = some (.mapNode m n, .node x))
    (hj : (trace U (init d) ops)[j]? = some (.mapNode m n, oj)) : oj = .node x := by
  obtain ⟨_, hoi⟩ := trace_getElem? U (init d) ops i _ _ hi
  simp only [step] at hoi
  obtain ⟨id, rfl⟩ := mapNode_out _ m n x hoi.symm
  have hp := peekMap_after U (init d) ops i m n id hi hij
  obtain ⟨_, ho⟩ := trace_getElem? U (init d) ops j _ _ hj
  rw [ho]
  simp only [step]
  exact peekMap_mapNode _ m n id hp

theorem mapper_injective (U : Nat → Bytes) (d : Nat) (ops : List Op) (i j : Nat)
    (m : Nat) (n n' : Node) (x y : Node)
    (hi : (trace U (init d) ops)[i]? = some (.mapNode m n, .node x))
    (hj : (trace U (init d) ops)[j]? = some (.mapNode m n', .node y))
    (hnn : n ≠ n') : termEquals x y = false := by
  obtain ⟨_, hoi⟩ := trace_getElem? U (init d) ops i _ _ hi
  obtain ⟨_, hoj⟩ := trace_getElem? U (init d) ops j _ _ hj
  simp only [step] at hoi hoj
  obtain ⟨idx, rfl⟩ := mapNode_out _ m n x hoi.symm
  obtain ⟨idy, rfl⟩ := mapNode_out _ m n' y hoj.symm
  apply termEquals_false_of_ne
  intro h; simp at h; subst h
  have h1 := peekMap_final U (init d) ops i m n idx hi
  have h2 := peekMap_final U (init d) ops j m n' idx hj
  exact hnn (peekMap_inj (inv_exec U (inv_init d) ops) m n n' idx h1 h2)

theorem mapper_fresh (U : Nat → Bytes) (d : Nat) (ops : List Op) (i j : Nat) (hij : i < j)
    (m : Nat) (n : Node) (opi : Op) (x y : Node)
    (hi : (trace U (init d) ops)[i]? = some (opi, .node x))
    (hj : (trace U (init d) ops)[j]? = some (.mapNode m n, .node y))
    (hfirst : ∀ k, k < j → ops[k]? ≠ some (.mapNode m n)) :
    termEquals x y = false := by
  obtain ⟨_, hoj⟩ := trace_getElem? U (init d) ops j _ _ hj
  simp only [step] at hoj
  obtain ⟨idy, rfl⟩ := mapNode_out _ m n y hoj.symm
  have hnone : peekMap (exec U (init d) (ops.take j)) m n = none := by
    cases hpm : peekMap (exec U (init d) (ops.take j)) m n with
    | none => rfl
    | some v =>
      exfalso
      rcases exec_mapper_key U (init d) (ops.take j) m n (by rw [hpm]; simp) with h | h
      · simp [peekMap, init] at h
      · obtain ⟨k, hk, hkv⟩ := List.getElem_of_mem h
        have hkj : k < j := by
          have := hk; simp at this; omega
        apply hfirst k hkj
        rw [List.getElem_take] at hkv
        rw [List.getElem?_eq_getElem (by simp at hk; omega)]
        rw [hkv]
  have hn := mapNode_fresh_not_issued m n hnone idy hoj.symm
  exact (unique_of_not_issued U (inv_init d) ops hij opi x hi idy hn).1

/-! ### referential histories are histories -/

theorem runRefs_sound (U : Nat → Bytes) (s : State) (acc : List (Op × Out)) (rops : List ROp) (tr : List (Op × Out))
    (h : runRefs U s acc rops = some tr) : ∃ ops, tr = acc ++ trace U s ops := by
  induction rops generalizing s acc with
  | nil => simp [runRefs] at h; exact ⟨[], by simp [trace, h]⟩
  | cons r rs ih =>
    simp only [runRefs] at h
    split at h
    · cases h
    · rename_i op hop
      obtain ⟨ops, hops⟩ := ih _ _ h
      exact ⟨op :: ops, by simp [trace, hops]⟩

end RdfModel.Proofs.C14
