package main

import (
	"bytes"
	"context"
	"fmt"
	"strings"

	"github.com/dpb587/rdfkit-go/encoding/turtle"
	"github.com/dpb587/rdfkit-go/iri"
	"github.com/dpb587/rdfkit-go/rdf"
)

func dec(doc string) {
	defer func() {
		if p := recover(); p != nil {
			fmt.Printf("  PANIC: %v\n", p)
		}
	}()
	d, err := turtle.NewDecoder(strings.NewReader(doc))
	if err != nil {
		fmt.Println("  newdecoder", err)
		return
	}
	for d.Next() {
		t := d.Triple()
		fmt.Printf("  %v %v %#v\n", t.Subject, t.Predicate, t.Object)
	}
	fmt.Println("  err:", d.Err())
}

func enc(ts []rdf.Triple) string {
	var buf bytes.Buffer
	pm := iri.PrefixMappingList{{Prefix: "ex", Expanded: "http://e/"}, {Prefix: "xsd", Expanded: "http://www.w3.org/2001/XMLSchema#"}}
	e, err := turtle.NewEncoder(&buf, turtle.EncoderConfig{}.SetPrefixes(pm))
	if err != nil {
		panic(err)
	}
	for _, t := range ts {
		if err := e.AddTriple(context.Background(), t); err != nil {
			fmt.Println("  add:", err)
		}
	}
	e.Close()
	return buf.String()
}

func main() {
	for _, doc := range []string{
		"@prefix : <http://e/> .\n:a :b :\\. .\n",
		"@prefix : <http://e/> .\n:a :b :c\\. .\n",
		"@prefix : <http://e/> .\n:a :b :c\\.d .\n",
	} {
		fmt.Printf("D6 decode %q\n", doc)
		dec(doc)
	}
	x := func(s string) rdf.IRI { return rdf.IRI("http://www.w3.org/2001/XMLSchema#" + s) }
	s, p := rdf.IRI("http://e/s"), rdf.IRI("http://e/p")
	for _, ts := range [][]rdf.Triple{
		{{Subject: s, Predicate: p, Object: rdf.Literal{Datatype: x("long"), LexicalForm: "5"}}},
		{{Subject: s, Predicate: p, Object: rdf.Literal{Datatype: x("decimal"), LexicalForm: "5"}}},
		{{Subject: s, Predicate: p, Object: rdf.Literal{Datatype: x("boolean"), LexicalForm: "1"}}},
		{{Subject: s, Predicate: p, Object: rdf.Literal{Datatype: x("integer"), LexicalForm: "abc"}}},
		{{Subject: s, Predicate: p, Object: rdf.Literal{Datatype: x("double"), LexicalForm: "INF"}}},
		{{Subject: s, Predicate: p, Object: rdf.IRI("http://e/-a")}},
		{{Subject: s, Predicate: p, Object: rdf.IRI("http://e/a b×")}},
		{{Subject: s, Predicate: p, Object: rdf.IRI("http://e/·a")}},
		{{Subject: s, Predicate: p, Object: rdf.IRI("http://e/a.")}},
	} {
		doc := enc(ts)
		fmt.Printf("encode %#v\n -> %q\n", ts[0].Object, doc)
		dec(doc)
	}
}
