import RdfModel.Props.C13
import RdfModel.Props.C13Facts
#print axioms RdfModel.C13.pm_inv
#print axioms RdfModel.C13.pm_refines_lastwrite
#print axioms RdfModel.C13.pm_table_exact
#print axioms RdfModel.C13.expand_spec
#print axioms RdfModel.C13.compact_expand
#print axioms RdfModel.C13.compact_longest
#print axioms RdfModel.C13.compact_none
#print axioms RdfModel.C13.clone_independent
#print axioms RdfModel.C13.clone_step_frame
#print axioms RdfModel.C13.usage_transparent
#print axioms RdfModel.C13.curie_roundtrip
#print axioms RdfModel.C13.curie_nomatch_witness
#print axioms RdfModel.C13.curie_nomatch_partial
#print axioms RdfModel.C13.curie_string_witness
#print axioms RdfModel.C13.curie_string_roundtrip_partial
#print axioms RdfModel.C13.relativize_checked
#print axioms RdfModel.C13.relativize_sound_witness
#print axioms RdfModel.C13.relativize_sound_partial
#print axioms RdfModel.C13.relativize_no_panic
#print axioms RdfModel.C13.relativize_useful
#print axioms RdfModel.C13.mutators_modelled
#print axioms RdfModel.C13.observers_modelled
#print axioms RdfModel.C13.sort_descending
#print axioms RdfModel.C13.copies
