/-
  Proofs for part C10C: IRI expansion of the model (without a local context) computes what the fragment
  semantics Spec/JsonLdFragment.lean computes, on corresponding contexts.
-/
import RdfModel.Proofs.C10CtxPanic
namespace RdfModel.JLC
open RdfModel RdfModel.JL

variable {P : Type}

/-- the fragment's expanded IRIs: a blank node identifier is represented by its label -/
def toSpec : SIri → Exp
  | .nil => .null
  | .kw k => .kw k
  | .iri v => .iri v
  | .bnode v => .bnode (v.drop 2)

/-- term tables correspond: same terms; IRI mappings are IRIs, equal, with equal prefix flags -/
def TermsCorr (m : TermMap) (sc : Ctx) : Prop :=
  ∀ k, match mget k m, sc.term? k with
    | some d, some td => d.iri = .iri td.iri ∧ d.pfx = td.pfx
    | none, none => True
    | _, _ => False

/-- contexts correspond as far as IRI expansion looks at them; the resolution of `v` against the base is a
    hypothesis about the parsed-IRI operations (RFC 3986 §5.2 on both sides; tied separately by C12/C12W) -/
structure Corr (ops : IriOps P) (c : Core P) (sc : Ctx) (v : Str) : Prop where
  terms : TermsCorr c.terms sc
  vocab : c.vocab = sc.vocab.map SIri.iri
  baseNone : c.base = none → sc.base = none
  baseSome : ∀ b, c.base = some b → ∃ sb r p, sc.base = some sb ∧ ops.parse v = .ok r ∧ ops.resolve b r = some p ∧
    ops.str p = Spec.RFC3986Lite.resolve sb v

theorem splitColon_eq : ∀ (v p s : Str), splitColon v = some (p, s) → v = p ++ cColon :: s
  | [], p, s, h => by simp [splitColon] at h
  | c :: cs, p, s, h => by
    simp only [splitColon] at h
    split at h
    · rename_i hc
      simp only [Option.some.injEq, Prod.mk.injEq] at h
      simp [← h.1, ← h.2, hc]
    · split at h
      · rename_i p' s' heq
        simp only [Option.some.injEq, Prod.mk.injEq] at h
        have := splitColon_eq cs p' s' heq
        simp [← h.1, ← h.2, this]
      · simp at h

theorem splitColon_underscore (v suf : Str) (h : splitColon v = some ([cUnderscore], suf)) : v.drop 2 = suf := by
  rw [splitColon_eq v _ _ h]; simp

theorem expandTail_refines (ops : IriOps P) (c : Core P) (sc : Ctx) (st : St P) (v : Str) (docRel vocab : Bool)
    (hc : Corr ops c sc v) :
    ∃ e, expandTail ops c st v docRel vocab = .ok e st ∧ toSpec e = expandRel sc vocab docRel v := by
  unfold expandTail expandRel
  rw [hc.vocab]
  cases vocab <;> cases hv : sc.vocab <;> simp [toSpec]
  all_goals
    cases docRel
    · simp [toSpec]
    · cases hb : c.base with
      | none => simp [hc.baseNone hb, toSpec]
      | some b =>
        obtain ⟨sb, r, p, h1, h2, h3, h4⟩ := hc.baseSome b hb
        simp [h1, h2, h3, h4, toSpec]

theorem termsCorr_some {m : TermMap} {sc : Ctx} (h : TermsCorr m sc) {k : Str} {d : TermDef} (hm : mget k m = some d) :
    ∃ td, sc.term? k = some td ∧ d.iri = .iri td.iri ∧ d.pfx = td.pfx := by
  have := h k
  rw [hm] at this
  cases hs : sc.term? k with
  | none => simp [hs] at this
  | some td => simp only [hs] at this; exact ⟨td, rfl, this⟩

theorem termsCorr_none {m : TermMap} {sc : Ctx} (h : TermsCorr m sc) {k : Str} (hm : mget k m = none) :
    sc.term? k = none := by
  have := h k
  rw [hm] at this
  cases hs : sc.term? k with
  | none => rfl
  | some td => simp [hs] at this

/-- steps 6–9 of the fragment's `expandIri` -/
def specRest (sc : Ctx) (vocab docRel : Bool) (v : Str) : Exp :=
  match (if colonAfterFirst v then splitColon v else none) with
  | some (p, s) =>
    if p = [cUnderscore] then .bnode s
    else if s.take 2 = [cSlash, cSlash] then .iri v
    else
      match sc.term? p with
      | some td => if td.pfx then .iri (td.iri ++ s) else
          if isScheme p then .iri v else expandRel sc vocab docRel v
      | none => if isScheme p then .iri v else expandRel sc vocab docRel v
  | none => expandRel sc vocab docRel v

theorem expandIri_eq (sc : Ctx) (vocab docRel : Bool) (v : Str) :
    expandIri sc vocab docRel v =
      if isKeyword v then .kw v else if isKeywordForm v then .null else
        match (if vocab then sc.term? v else none) with
        | some td => .iri td.iri
        | none => specRest sc vocab docRel v := rfl

theorem iriExpandRest_refines (ops : IriOps P) (cb : St P → Str → Res P Unit) (st : St P) (sc : Ctx) (v : Str)
    (docRel vocab : Bool) (hc : Corr ops st.ctx.core sc v) :
    ∃ e, iriExpandRest ops cb none st v docRel vocab = .ok e st ∧ toSpec e = specRest sc vocab docRel v := by
  unfold iriExpandRest specRest
  cases hsp : (if colonAfterFirst v = true then splitColon v else none) with
  | none => exact expandTail_refines ops _ sc st v docRel vocab hc
  | some ps =>
    obtain ⟨p, suf⟩ := ps
    dsimp only
    by_cases hu : p = [cUnderscore]
    · subst hu
      have : splitColon v = some ([cUnderscore], suf) := by
        split at hsp
        · exact hsp
        · simp at hsp
      simp [toSpec, splitColon_underscore v suf this]
    · have hu' : (p == [cUnderscore]) = false := by simpa using hu
      simp only [hu', hu, Bool.false_eq_true, if_false]
      by_cases hss : suf.take 2 = [cSlash, cSlash]
      · simp [hss, toSpec]
      · have hss' : (suf.take 2 == [cSlash, cSlash]) = false := by simpa using hss
        simp only [hss', hss, Bool.false_eq_true, if_false, Res.bind, hasIRIScheme]
        cases hm : mget p st.ctx.core.terms with
        | some d =>
          obtain ⟨td, h1, h2, h3⟩ := termsCorr_some hc.terms hm
          simp only [h1, h2, h3]
          cases td.pfx
          · simp only [Bool.false_eq_true, if_false]
            by_cases hsch : isScheme p = true
            · simp [hsch, toSpec]
            · simp only [hsch, if_false, Bool.false_eq_true]
              exact expandTail_refines ops _ sc st v docRel vocab hc
          · simp [toSpec]
        | none =>
          simp only [termsCorr_none hc.terms hm]
          by_cases hsch : isScheme p = true
          · simp [hsch, toSpec]
          · simp only [hsch, if_false, Bool.false_eq_true]
            exact expandTail_refines ops _ sc st v docRel vocab hc

/-- IRI expansion without a local context: the model computes the fragment's `expandIri` -/
theorem iriExpandBody_refines (ops : IriOps P) (cb : St P → Str → Res P Unit) (st : St P) (sc : Ctx) (v : Str)
    (docRel vocab : Bool) (hc : Corr ops st.ctx.core sc v) :
    ∃ e, iriExpandBody ops cb none st v docRel vocab = .ok e st ∧ toSpec e = expandIri sc vocab docRel v := by
  rw [expandIri_eq]
  unfold iriExpandBody
  by_cases h1 : isKeyword v = true
  · simp [h1, toSpec]
  by_cases h2 : isKeywordForm v = true
  · simp [h1, h2, toSpec]
  simp only [h1, h2, Bool.false_eq_true, if_false, Res.bind]
  cases hm : mget v st.ctx.core.terms with
  | some d =>
    obtain ⟨td, h1, h2, h3⟩ := termsCorr_some hc.terms hm
    simp only [h1, h2]
    cases vocab
    · simp only [Bool.false_eq_true, if_false]
      exact iriExpandRest_refines ops cb st sc v docRel false hc
    · simp [toSpec]
  | none =>
    have hs := termsCorr_none hc.terms hm
    have : (if vocab = true then sc.term? v else none) = none := by cases vocab <;> simp [hs]
    simp only [this]
    exact iriExpandRest_refines ops cb st sc v docRel vocab hc

end RdfModel.JLC

namespace RdfModel.JLC
open RdfModel RdfModel.JL

variable {P : Type}

def Res.NoFuel {α : Type} : Res P α → Prop
  | .fuel => False
  | _ => True

theorem expandTail_noFuel (ops : IriOps P) (c : Core P) (st : St P) (s : Str) (d v : Bool) :
    (expandTail ops c st s d v).NoFuel := by
  unfold expandTail
  repeat' split
  all_goals simp [Res.NoFuel]

/-- without a local context IRI expansion makes no nested call: it cannot run out of fuel -/
theorem iriExpandBody_noFuel (ops : IriOps P) (cb : St P → Str → Res P Unit) (st : St P) (s : Str) (d v : Bool) :
    (iriExpandBody ops cb none st s d v).NoFuel := by
  unfold iriExpandBody iriExpandRest
  simp only [Res.bind]
  repeat' split
  all_goals (first | (simp [Res.NoFuel]; done) | exact expandTail_noFuel ops _ _ _ _ _)

end RdfModel.JLC
