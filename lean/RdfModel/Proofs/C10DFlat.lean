/-
  Proofs for C10D (3): the model reads the expansion of a flattened expanded document (`JL.writeFlat`)
  back as the dataset itself, by symbolic evaluation of the model on the shapes `expandFlat` produces.
-/
import RdfModel.Props.C10DDefs
import RdfModel.Props.C10Defs
import RdfModel.Proofs.C10Flat
namespace RdfModel.Proofs.C10D
open RdfModel RdfModel.Desc RdfModel.JLD RdfModel.C10D

/-! ### strings: what `JL.absIri` / `JL.langOK` give the decoder's filters -/

theorem wfIriGo_spec : ∀ (v : Str) (colon frag : Bool), v.all JL.iriCharOK = true →
    (v.filter (· == 0x23)).length + (if frag then 1 else 0) ≤ 1 →
    wfIriGo colon frag v = (colon || v.contains 0x3a)
  | [], colon, frag, _, _ => by simp [wfIriGo]
  | c :: cs, colon, frag, hall, hcnt => by
    simp only [List.all_cons, Bool.and_eq_true] at hall
    have hc := hall.1
    simp only [JL.iriCharOK, Bool.and_eq_true, decide_eq_true_eq, Bool.not_eq_true', List.contains_eq_mem,
      List.mem_cons, List.not_mem_nil, or_false, not_or, decide_eq_false_iff_not] at hc
    have h1 : ¬ c < 0x20 := by omega
    have h2 : [0x20, 0x3c, 0x3e, 0x22, 0x7b, 0x7d, 0x7c, 0x5c, 0x5e, 0x60].contains c = false := by
      simp only [List.contains_eq_mem, List.mem_cons, List.not_mem_nil, or_false, decide_eq_false_iff_not, not_or]
      refine ⟨by omega, ?_⟩
      exact ⟨hc.2.1, hc.2.2.1, hc.2.2.2.1, hc.2.2.2.2.1, hc.2.2.2.2.2.1, hc.2.2.2.2.2.2.1, hc.2.2.2.2.2.2.2.1, hc.2.2.2.2.2.2.2.2.1, hc.2.2.2.2.2.2.2.2.2⟩
    rw [wfIriGo, if_neg h1, h2]
    simp only [Bool.false_eq_true, if_false]
    by_cases e1 : c = 0x3a
    · subst e1
      have hf : ((0x3a : Nat) == 0x23) = false := by decide
      simp only [List.filter_cons, hf, Bool.false_eq_true, if_false] at hcnt
      rw [if_pos rfl, wfIriGo_spec cs true frag hall.2 hcnt]
      simp
    · rw [if_neg e1]
      by_cases e2 : c = 0x23
      · subst e2
        simp only [List.filter_cons, beq_self_eq_true, if_true, List.length_cons] at hcnt
        have hfr : frag = false := by
          cases frag with
          | false => rfl
          | true => simp at hcnt
        subst hfr
        simp only [if_true, Bool.false_eq_true, if_false]
        rw [wfIriGo_spec cs colon true hall.2 (by simp at hcnt ⊢; omega)]
        simp
      · rw [if_neg e2]
        have hf : (c == 0x23) = false := by simpa using e2
        simp only [List.filter_cons, hf, Bool.false_eq_true, if_false] at hcnt
        rw [wfIriGo_spec cs colon frag hall.2 hcnt]
        have : ¬ (0x3a = c) := fun h => e1 h.symm
        simp [this]

theorem abs_wf {v : Str} (h : JL.absIri v = true) : isWellFormedIRI v = true := by
  unfold JL.absIri at h
  cases hs : JL.splitColon v with
  | none => simp [hs] at h
  | some r =>
    obtain ⟨p, s⟩ := r
    simp only [hs, Bool.and_eq_true, decide_eq_true_eq] at h
    have hv := Proofs.C10.splitColon_eq hs
    unfold isWellFormedIRI
    rw [wfIriGo_spec v false false h.1.2 (by simpa using h.2)]
    rw [hv]
    simp [JL.cColon]

/-- an absolute IRI starts with a letter -/
theorem abs_head {v : Str} (h : JL.absIri v = true) : ∃ a r, v = a :: r ∧ JL.isAlpha a = true := by
  obtain ⟨a, rest, s, hv, ha, _, _⟩ := Proofs.C10.absIri_shape h
  exact ⟨a, _, hv, ha⟩

theorem alpha_ne {a : Nat} (h : JL.isAlpha a = true) : a ≠ 0x40 ∧ a ≠ 0x5f := by
  simp only [JL.isAlpha, Bool.or_eq_true, Bool.and_eq_true, decide_eq_true_eq] at h
  omega

theorem abs_not_at {v : Str} (h : JL.absIri v = true) : isAtKey v = false := by
  obtain ⟨a, r, rfl, ha⟩ := abs_head h
  have := (alpha_ne ha).1
  cases r <;> simp [isAtKey, this]

theorem abs_not_bnode {v : Str} (h : JL.absIri v = true) : hasBnodePrefix v = false ∧ isBnodeLong v = false := by
  obtain ⟨a, r, rfl, ha⟩ := abs_head h
  have := (alpha_ne ha).2
  constructor
  · cases r with
    | nil => simp [hasBnodePrefix]
    | cons b r' => simp [hasBnodePrefix, this]
  · cases r with
    | nil => simp [isBnodeLong]
    | cons b r' => cases r' <;> simp [isBnodeLong, this]

/-- an absolute IRI is none of the decoder's keywords -/
theorem abs_ne_kw {v k : Str} (h : JL.absIri v = true) (hk : k.head? = some 0x40) : v ≠ k := by
  obtain ⟨a, r, rfl, ha⟩ := abs_head h
  intro e
  subst e
  simp only [List.head?_cons, Option.some.injEq] at hk
  exact (alpha_ne ha).1 hk

theorem abs_keyProp {v : Str} (h : JL.absIri v = true) : keyProp v = some (some v) := by
  simp [keyProp, abs_not_at h, (abs_not_bnode h).2, abs_wf h]

theorem subtags_wf : ∀ (l : Str) (first : Bool) (k : Nat), JL.subtagsOK first k l = true →
    (l ≠ [] ∨ 0 < k) ∧ l.contains 0x20 = false
  | [], first, k, h => by
    simp only [JL.subtagsOK, decide_eq_true_eq] at h
    exact ⟨Or.inr h, by simp⟩
  | c :: cs, first, k, h => by
    rw [JL.subtagsOK] at h
    refine ⟨Or.inl (by simp), ?_⟩
    split at h
    · rename_i hc
      simp only [Bool.and_eq_true, decide_eq_true_eq] at h
      have := (subtags_wf cs false 0 h.2).2
      subst hc
      simpa using this
    · simp only [Bool.and_eq_true, Bool.or_eq_true, decide_eq_true_eq] at h
      have := (subtags_wf cs first (k + 1) h.2).2
      have hc : c ≠ 0x20 := by
        rcases h.1.1 with ha | ha
        · simp only [JL.isAlpha, Bool.or_eq_true, Bool.and_eq_true, decide_eq_true_eq] at ha; omega
        · simp only [JL.isDigit, Bool.and_eq_true, Bool.not_eq_true', decide_eq_true_eq] at ha; omega
      have hc' : ¬ (0x20 = c) := fun e => hc e.symm
      simpa [hc'] using this

theorem langOK_wf {l : Str} (h : JL.langOK l = true) : isWellFormedLang l = true := by
  have := subtags_wf l true 0 h
  have hne : l ≠ [] := by
    rcases this.1 with h1 | h1
    · exact h1
    · omega
  have h2 := this.2
  simp only [List.contains_eq_mem, decide_eq_false_iff_not] at h2
  simp [isWellFormedLang, hne, h2]

/-! ### stages that find nothing -/

def noKey (k : Str) (ms : List (Str × Exp)) : Prop := ∀ m ∈ ms, m.1 ≠ k

theorem noKey_nil (k : Str) : noKey k [] := by intro m hm; simp at hm
theorem noKey_cons {k k' : Str} {v : Exp} {ms : List (Str × Exp)} (h : k' ≠ k) (hr : noKey k ms) : noKey k ((k', v) :: ms) := by
  intro m hm
  rcases List.mem_cons.1 hm with rfl | hm
  · exact h
  · exact hr m hm
theorem noKey_tail {k k' : Str} {v : Exp} {ms : List (Str × Exp)} (h : noKey k ((k', v) :: ms)) : k' ≠ k ∧ noKey k ms :=
  ⟨h (k', v) (by simp), fun m hm => h m (by simp [hm])⟩

theorem lookup_noKey {k : Str} : ∀ {ms : List (Str × Exp)}, noKey k ms → JLD.lookup k ms = none
  | [], _ => rfl
  | (k', v) :: ms, h => by
    have := noKey_tail h
    rw [JLD.lookup, if_neg this.1]
    exact lookup_noKey this.2

theorem hasKey_noKey {k : Str} {ms : List (Str × Exp)} (h : noKey k ms) : hasKey k ms = false := by
  unfold hasKey
  rw [Bool.eq_false_iff]
  intro hc
  simp only [List.any_eq_true, beq_iff_eq] at hc
  obtain ⟨m, hm, e⟩ := hc
  exact h m hm e

theorem findReverse_noKey (cfg : Cfg) (c : ECtx) : ∀ (ms : List (Str × Exp)) (n : Nat), noKey kReverse ms →
    findReverse cfg c ms n = .ok [] n
  | [], n, _ => by rw [findReverse]
  | (k, v) :: rest, n, h => by
    have hk := (noKey_tail h).1
    have ih := findReverse_noKey cfg c rest n (noKey_tail h).2
    cases v <;> (rw [findReverse, if_neg hk] <;> first | exact ih | simp)

theorem findKeyArr_noKey (cfg : Cfg) (c : ECtx) (key : Str) : ∀ (ms : List (Str × Exp)) (n : Nat), noKey key ms →
    findKeyArr cfg c key ms n = .ok [] n
  | [], n, _ => by rw [findKeyArr]
  | (k, v) :: rest, n, h => by
    have hk := (noKey_tail h).1
    have ih := findKeyArr_noKey cfg c key rest n (noKey_tail h).2
    cases v <;> (rw [findKeyArr, if_neg hk] <;> first | exact ih | simp)

theorem typeStage_noKey (g : Option T) (s : T) (ms : List (Str × Exp)) (n : Nat) (h : noKey kType ms) :
    typeStage g s ms n = .ok [] n := by
  unfold typeStage
  rw [lookup_noKey h]

theorem andThen_ok_nil (n : Nat) (f : Nat → R) : (R.ok [] n).andThen f = f n := by
  simp only [R.andThen]
  cases f n <;> simp

theorem andThen_ok_right (qs : List RQ) (n : Nat) : (R.ok qs n).andThen (fun n1 => R.ok [] n1) = R.ok qs n := by
  simp [R.andThen]

/-! ### values of the flat sub-language -/

variable {β : Type}

/-- the term of the result -/
def outT (name : β → Str) (t : Term β) : T := t.map (fun b => BN.orig (name b))

/-- `{"@id": id}` as a value: a node reference, nothing else -/
theorem decode_ref (cfg : Cfg) (g s : Option T) (p id : Str) (self : T) (n : Nat)
    (hself : ∀ m, selfSubject [(kId, primStr id)] m = .ok (some (self, m))) :
    decodeElement cfg { graph := g, subj := s, prop := some p, rev := false } (.obj [(kId, primStr id)]) n =
      .ok [⟨s, p, some self, g⟩] n := by
  have nk : ∀ k, kId ≠ k → noKey k [(kId, primStr id)] := fun k hk => noKey_cons hk (noKey_nil k)
  rw [decodeElement]
  have h1 : hasKey kValue [(kId, primStr id)] = false := hasKey_noKey (nk _ (by decide))
  have h2 : hasKey kList [(kId, primStr id)] = false := hasKey_noKey (nk _ (by decide))
  simp only [h1, h2, Bool.false_eq_true, if_false, hself n]
  rw [findReverse_noKey cfg _ _ _ (nk _ (by decide)), andThen_ok_nil,
    typeStage_noKey _ _ _ _ (nk _ (by decide)), andThen_ok_nil]
  have h3 : ∀ c m, findKeyArr cfg c kGraph [(kId, primStr id)] m = .ok [] m := fun c m => findKeyArr_noKey cfg c _ _ m (nk _ (by decide))
  have h4 : ∀ c m, findKeyArr cfg c kIncluded [(kId, primStr id)] m = .ok [] m := fun c m => findKeyArr_noKey cfg c _ _ m (nk _ (by decide))
  have h5 : ∀ c m, members cfg c [(kId, primStr id)] m = .ok [] m := by
    intro c m
    have hk : keyProp kId = none := by decide
    rw [primStr, members] <;> simp [hk, members]
  simp only [h3, h4, h5, ite_self, andThen_ok_nil, R.pre, List.append_nil, Option.isNone_some, Bool.and_false]

theorem decodeValuePrim_str (cfg : Cfg) (g s : Option T) (p dt0 lex : Str) (aL aD : Option Exp) (jt : JText) (n : Nat)
    (h : dt0 ≠ kJson) :
    decodeValuePrim cfg g s p dt0 aL aD (.str lex) jt n = decodeStringValue cfg g s p dt0 lex aL aD n := by
  unfold decodeValuePrim
  simp only []
  rw [if_neg h]

theorem decode_typed (cfg : Cfg) (g s : Option T) (p dt lex : Str) (n : Nat) (hdt : JL.absIri dt = true)
    (h1 : dt ≠ rdfLangString) (h2 : dt ≠ rdfDirLangString) :
    decodeElement cfg { graph := g, subj := s, prop := some p, rev := false }
        (.obj [(kType, primStr dt), (kValue, primStr lex)]) n =
      .ok [⟨s, p, some (.lit lex dt none), g⟩] n := by
  have hv : hasKey kValue [(kType, primStr dt), (kValue, primStr lex)] = true := by simp [hasKey]
  have hne : dt ≠ [] := by
    obtain ⟨a, r, rfl, _⟩ := abs_head hdt; simp
  have hj : dt ≠ kJson := abs_ne_kw hdt (by decide)
  have c1 : kType ≠ kValue := by decide
  have c2 : kType ≠ kLanguage := by decide
  have c3 : kValue ≠ kLanguage := by decide
  have c4 : kType ≠ kDirection := by decide
  have c5 : kValue ≠ kDirection := by decide
  rw [decodeElement]
  simp only [hv, if_true]
  simp [decodeValueNode, JLD.lookup, expandedString, primStr, h1, h2, c1, c2, c3, c4, c5, decodeValuePrim_str, hj,
    decodeStringValue, hne, lit]

theorem decode_lang (cfg : Cfg) (g s : Option T) (p l lex : Str) (n : Nat) (hl : isWellFormedLang l = true) :
    decodeElement cfg { graph := g, subj := s, prop := some p, rev := false }
        (.obj [(kLanguage, primStr l), (kValue, primStr lex)]) n =
      .ok [⟨s, p, some (.lit lex rdfLangString (some l)), g⟩] n := by
  have hv : hasKey kValue [(kLanguage, primStr l), (kValue, primStr lex)] = true := by simp [hasKey]
  have c1 : kLanguage ≠ kType := by decide
  have c2 : kValue ≠ kType := by decide
  have c3 : kLanguage ≠ kValue := by decide
  have c4 : kLanguage ≠ kDirection := by decide
  have c5 : kValue ≠ kDirection := by decide
  have d1 : ([] : Str) ≠ rdfLangString := by decide
  have d2 : ([] : Str) ≠ rdfDirLangString := by decide
  have d3 : ([] : Str) ≠ kJson := by decide
  have d4 : rdfLangString ≠ [] := by decide
  rw [decodeElement]
  simp only [hv, if_true]
  simp [decodeValueNode, JLD.lookup, expandedString, primStr, c1, c2, c3, c4, c5, d1, d2, d3, d4, decodeValuePrim_str,
    decodeStringValue, tagOf, langBad, dirBad, hl, taggedString, lit, Except.map]

/-! ### node objects of the flat sub-language -/

theorem selfSubject_of_lookup {ms : List (Str × Exp)} {id : Str} (n : Nat) (h : JLD.lookup kId ms = some (primStr id)) :
    selfSubject ms n =
      (if hasBnodePrefix id then .ok (some (stringBlankNode (id.drop 2) n))
       else if !isWellFormedIRI id then .ok none else .ok (some (.iri id, n))) := by
  unfold selfSubject
  rw [h]
  simp [primStr]

theorem selfSubject_flat (name : β → Str) (hne : ∀ b, name b ≠ []) {t : Term β} (ht : C10.wfNode t = true)
    {ms : List (Str × Exp)} (n : Nat) (h : JLD.lookup kId ms = some (primStr (JL.flatId name t))) :
    selfSubject ms n = .ok (some (outT name t, n)) := by
  rw [selfSubject_of_lookup n h]
  cases t with
  | iri v =>
    have hv : JL.absIri v = true := by simpa [C10.wfNode] using ht
    simp [JL.flatId, (abs_not_bnode hv).1, abs_wf hv, outT, Term.map]
  | bnode b =>
    simp [JL.flatId, JL.bnodeId, JL.cUnderscore, JL.cColon, hasBnodePrefix, stringBlankNode, hne b, outT, Term.map]
  | lit _ _ _ => simp [C10.wfNode] at ht

/-- the value of a flat property -/
theorem decode_value (cfg : Cfg) (name : β → Str) (hne : ∀ b, name b ≠ []) (g s : Option T) (p : Str) {o : Term β}
    (ho : C10.wfObj o = true) (hpl : plainOK o = true) (n : Nat) :
    decodeElement cfg { graph := g, subj := s, prop := some p, rev := false } (expandFlatValue (JL.flatObj name o)) n =
      .ok [⟨s, p, some (outT name o), g⟩] n := by
  cases o with
  | iri v =>
    have e : expandFlatValue (JL.flatObj name (Term.iri v)) = .obj [(kId, primStr v)] := by
      simp [JL.flatObj, expandFlatValue]
    rw [e]
    exact decode_ref cfg g s p v _ n (fun m => selfSubject_flat name hne (t := Term.iri v) (by simpa [C10.wfObj, C10.wfNode] using ho) m
      (by simp [JLD.lookup, JL.flatId]))
  | bnode b =>
    have e : expandFlatValue (JL.flatObj name (Term.bnode b)) = .obj [(kId, primStr (JL.bnodeId name b))] := by
      simp [JL.flatObj, expandFlatValue]
    rw [e]
    exact decode_ref cfg g s p _ _ n (fun m => selfSubject_flat name hne (t := Term.bnode b) rfl m
      (by simp [JLD.lookup, JL.flatId]))
  | lit lex dt lang =>
    cases lang with
    | none =>
      have hdt : JL.absIri dt = true := by simpa [C10.wfObj] using ho
      simp only [plainOK, Bool.and_eq_true, bne_iff_ne, ne_eq] at hpl
      have e : expandFlatValue (JL.flatObj name (Term.lit lex dt none)) = .obj [(kType, primStr dt), (kValue, primStr lex)] := by
        have c : ¬ (JL.kType = JL.kLanguage) := by decide
        simp [JL.flatObj, expandFlatValue, c]
      rw [e, decode_typed cfg g s p dt lex n hdt hpl.1 hpl.2]
      rfl
    | some l =>
      simp only [C10.wfObj, Bool.and_eq_true, beq_iff_eq] at ho
      have e : expandFlatValue (JL.flatObj name (Term.lit lex dt (some l))) = .obj [(kLanguage, primStr l), (kValue, primStr lex)] := by
        simp [JL.flatObj, expandFlatValue]
      rw [e, decode_lang cfg g s p l lex n (langOK_wf ho.2), ho.1]
      rfl

theorem members_flat (cfg : Cfg) (c : ECtx) (id p : Str) (v : Exp) (n : Nat) (hp : JL.absIri p = true) :
    members cfg c [(kId, primStr id), (p, .arr [v])] n =
      (decodeElement cfg { c with prop := some p } v n).andThen fun n1 => .ok [] n1 := by
  have hk : keyProp kId = none := by decide
  have h1 : members cfg c [(kId, primStr id), (p, .arr [v])] n = members cfg c [(p, .arr [v])] n := by
    rw [primStr, members] <;> simp [hk]
  rw [h1, members]
  simp only [abs_keyProp hp, decodeItems, members]
  cases decodeElement cfg { c with prop := some p } v n <;> simp [R.andThen]

/-- a flat node object `{"@id": s, p: [o]}` among the items of the top level or of `@graph` -/
theorem decode_node (cfg : Cfg) (name : β → Str) (hne : ∀ b, name b ≠ []) (g : Option T) {t : Triple β}
    (hs : C10.wfNode t.s = true) (hp : JL.absIri t.p = true) (ho : C10.wfObj t.o = true) (hpl : plainOK t.o = true) (n : Nat) :
    decodeElement cfg { graph := g, subj := none, prop := none, rev := false } (expandFlatNode (JL.flatNode name t)) n =
      .ok [⟨some (outT name t.s), t.p, some (outT name t.o), g⟩] n := by
  have e : expandFlatNode (JL.flatNode name t) =
      .obj [(kId, primStr (JL.flatId name t.s)), (t.p, .arr [expandFlatValue (JL.flatObj name t.o)])] := by
    simp [JL.flatNode, expandFlatNode]
  rw [e]
  have nk : ∀ k, k.head? = some 0x40 → kId ≠ k → noKey k [(kId, primStr (JL.flatId name t.s)), (t.p, .arr [expandFlatValue (JL.flatObj name t.o)])] :=
    fun k hk hid => noKey_cons hid (noKey_cons (abs_ne_kw hp hk) (noKey_nil k))
  rw [decodeElement]
  have h2 := hasKey_noKey (nk kList (by decide) (by decide))
  have hself := fun m => selfSubject_flat name hne hs (ms := [(kId, primStr (JL.flatId name t.s)), (t.p, .arr [expandFlatValue (JL.flatObj name t.o)])]) m
    (by simp [JLD.lookup])
  simp only [h2, Bool.false_eq_true, if_false, hself n]
  rw [findReverse_noKey cfg _ _ _ (nk _ (by decide) (by decide)), andThen_ok_nil,
    typeStage_noKey _ _ _ _ (nk _ (by decide) (by decide)), andThen_ok_nil]
  have h3 : ∀ c m, findKeyArr cfg c kGraph [(kId, primStr (JL.flatId name t.s)), (t.p, .arr [expandFlatValue (JL.flatObj name t.o)])] m = .ok [] m :=
    fun c m => findKeyArr_noKey cfg c _ _ m (nk _ (by decide) (by decide))
  have h4 : ∀ c m, findKeyArr cfg c kIncluded [(kId, primStr (JL.flatId name t.s)), (t.p, .arr [expandFlatValue (JL.flatObj name t.o)])] m = .ok [] m :=
    fun c m => findKeyArr_noKey cfg c _ _ m (nk _ (by decide) (by decide))
  simp only [h3, h4, ite_self, andThen_ok_nil, members_flat cfg _ _ _ _ _ hp, Option.isNone_none, Bool.and_true]
  rw [decode_value cfg name hne g (some (outT name t.s)) t.p ho hpl n]
  simp [R.andThen, R.pre]

/-- a top-level entry of `writeFlat`: exactly the quad it was written from -/
theorem decode_entry (cfg : Cfg) (name : β → Str) (hne : ∀ b, name b ≠ []) {q : DQuad β} (h : C10.wfQuad q = true)
    (hpl : plainOK q.t.o = true) (n : Nat) :
    decodeElement cfg ECtx.root (expandFlatEntry (JL.flatEntry name q)) n = .ok [toRQ name q] n := by
  obtain ⟨t, g⟩ := q
  simp only [C10.wfQuad, Bool.and_eq_true] at h
  obtain ⟨⟨⟨hs, hp⟩, ho⟩, hg⟩ := h
  cases g with
  | none =>
    have e : expandFlatEntry (JL.flatEntry name ⟨t, none⟩) = expandFlatNode (JL.flatNode name t) := by
      have c : ¬ (t.p = JL.kGraph) := abs_ne_kw hp (by decide)
      simp [JL.flatEntry, JL.flatNode, expandFlatEntry, c]
    rw [e]
    exact decode_node cfg name hne none hs hp ho hpl n
  | some gt =>
    have e : expandFlatEntry (JL.flatEntry name ⟨t, some gt⟩) =
        .obj [(kGraph, .arr [expandFlatNode (JL.flatNode name t)]), (kId, primStr (JL.flatId name gt))] := by
      simp [JL.flatEntry, expandFlatEntry]
    rw [e]
    generalize hN : expandFlatNode (JL.flatNode name t) = N
    have nk : ∀ k, kGraph ≠ k → kId ≠ k → noKey k [(kGraph, .arr [N]), (kId, primStr (JL.flatId name gt))] :=
      fun k h1 h2 => noKey_cons h1 (noKey_cons h2 (noKey_nil k))
    rw [decodeElement]
    have h2 := hasKey_noKey (nk kList (by decide) (by decide))
    have hself := fun m => selfSubject_flat name hne hg (ms := [(kGraph, .arr [N]), (kId, primStr (JL.flatId name gt))]) m
      (by have c : kGraph ≠ kId := by decide
          simp [JLD.lookup, c])
    simp only [ECtx.root, h2, Bool.false_eq_true, if_false, hself n]
    rw [findReverse_noKey cfg _ _ _ (nk _ (by decide) (by decide)), andThen_ok_nil,
      typeStage_noKey _ _ _ _ (nk _ (by decide) (by decide)), andThen_ok_nil]
    have hgw : (match outT name gt with
                | .iri v => isWellFormedIRI v
                | _ => true) = true := by
      cases gt with
      | iri v => simpa [outT, Term.map] using abs_wf (by simpa [C10.wfNode] using hg)
      | bnode b => simp [outT, Term.map]
      | lit _ _ _ => simp [C10.wfNode] at hg
    have h4 : ∀ c m, findKeyArr cfg c kIncluded [(kGraph, .arr [N]), (kId, primStr (JL.flatId name gt))] m = .ok [] m :=
      fun c m => findKeyArr_noKey cfg c _ _ m (nk _ (by decide) (by decide))
    have h5 : ∀ c m, members cfg c [(kGraph, .arr [N]), (kId, primStr (JL.flatId name gt))] m = .ok [] m := by
      intro c m
      have k1 : keyProp kGraph = none := by decide
      have k2 : keyProp kId = none := by decide
      rw [members]
      simp only [k1]
      rw [primStr, members] <;> simp [k2, members]
    rw [if_pos ?hc]
    case hc =>
      cases gt with
      | iri v => simpa [outT, Term.map] using abs_wf (by simpa [C10.wfNode] using hg)
      | bnode b => simp [outT, Term.map]
      | lit _ _ _ => simp [C10.wfNode] at hg
    rw [findKeyArr, if_pos rfl]
    simp only [decodeItems]
    simp only [Option.isNone_none, Bool.and_true]
    subst hN
    rw [decode_node cfg name hne (some (outT name gt)) hs hp ho hpl n]
    simp [R.andThen, R.pre, h4, h5, toRQ, outT]

theorem decodeItems_flat (cfg : Cfg) (name : β → Str) (hne : ∀ b, name b ≠ []) :
    ∀ (d : List (DQuad β)) (n : Nat), C10.WFDataset d → NoUntaggedLangString d →
      decodeItems cfg ECtx.root (d.map (fun q => expandFlatEntry (JL.flatEntry name q))) n = .ok (d.map (toRQ name)) n
  | [], n, _, _ => by simp [decodeItems]
  | q :: d, n, hw, hp => by
    have ih := decodeItems_flat cfg name hne d n (fun q' hq' => hw q' (by simp [hq'])) (fun q' hq' => hp q' (by simp [hq']))
    simp only [List.map_cons]
    rw [decodeItems, decode_entry cfg name hne (hw q (by simp)) (hp q (by simp)) n]
    simp only [R.andThen, ih, List.singleton_append]

theorem run_flat (cfg : Cfg) (name : β → Str) (hne : ∀ b, name b ≠ []) (d : List (DQuad β))
    (hw : C10.WFDataset d) (hp : NoUntaggedLangString d) :
    run cfg (expandFlat (JL.writeFlat name d)) = .done (d.map (toRQ name)) none := by
  have e : expandFlat (JL.writeFlat name d) = .arr (d.map (fun q => expandFlatEntry (JL.flatEntry name q))) := by
    simp [JL.writeFlat, expandFlat, List.map_map, Function.comp_def]
  unfold run decodeRoot
  rw [e, decodeElement, decodeItems_flat cfg name hne d 0 hw hp]

end RdfModel.Proofs.C10D
