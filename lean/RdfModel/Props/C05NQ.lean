/-
  Properties C05 / C06 / C15 for the N-Triples and N-Quads decoders (model `RdfModel.NQ`, one model
  for both packages; `quads` selects N-Quads). Theorems only; proofs in RdfModel/Proofs/C05NQ*.lean.
  The model has no `panic` outcome: every slice index / type assertion of the Go decoders was checked
  to be in range when the model was written, and the correspondence harness maps a recovered Go panic
  to a disagreement.
-/
import RdfModel.Model.NQuads
import RdfModel.Props.C05NQDefs
import RdfModel.Proofs.C05NQ
namespace RdfModel.C05NQ
open RdfModel RdfModel.NQ

/-- C05 (termination, step bound): the fuel `|input| + 1` given to the `Next` loop always suffices:
    every successful `Next` consumes at least one rune. Holds for every input, both packages, both
    stream endings, any tables. -/
theorem run_fuel_suffices (T : Tables) (urlOk : List Nat → Bool) (e : End) (quads : Bool) (inp : List Nat) :
    (run T urlOk e quads inp).2 ≠ .outOfFuel :=
  Proofs.C05NQ.run_fuel_suffices T urlOk e quads inp

/-- C05 (`Next` consumes input): a successful `Next` leaves strictly less input. -/
theorem next_shrinks (T : Tables) (urlOk : List Nat → Bool) (e : End) (quads started : Bool)
    (inp rest : List Nat) (q : Quad (List Nat)) (h : next T urlOk e quads started inp = .quad q rest) :
    rest.length < inp.length :=
  Proofs.C05NQ.next_shrinks T urlOk e quads started inp rest q h

/-- C05 (latch): once `Next()` has returned false, every later call returns false and `Err()` is
    unchanged — for a clean end as well as for an error. -/
theorem latch (T : Tables) (urlOk : List Nat → Bool) (e : End) (quads : Bool) (d : Dec)
    (h : (Dec.next T urlOk e quads d).2 = false) (n : Nat) :
    (Dec.nextN T urlOk e quads n (Dec.next T urlOk e quads d).1).2 = false ∧
    (Dec.nextN T urlOk e quads n (Dec.next T urlOk e quads d).1).1.err = (Dec.next T urlOk e quads d).1.err :=
  Proofs.C05NQ.latch T urlOk e quads d h n

/-- C05 (accessors usable): whenever `Next()` returns true there is a current statement. -/
theorem next_true_has_current (T : Tables) (urlOk : List Nat → Bool) (e : End) (quads : Bool) (d : Dec)
    (h : (Dec.next T urlOk e quads d).2 = true) : (Dec.next T urlOk e quads d).1.cur.isSome = true :=
  Proofs.C05NQ.next_true_has_current T urlOk e quads d h

/-- C06: every statement the decoder yields — also the ones before an error — is well-formed, and
    every IRI in it passed the decoder's absolute-IRI check. All inputs, both endings. -/
theorem run_emits_wf (T : Tables) (urlOk : List Nat → Bool) (e : End) (quads : Bool) (inp : List Nat) :
    ∀ q ∈ (run T urlOk e quads inp).1, WFShape urlOk quads q :=
  Proofs.C05NQ.run_emits_wf T urlOk e quads inp

/-- C15 (reader errors): when the stream ends with a reader error the verdict is never a clean end. -/
theorem ioerr_reported (T : Tables) (urlOk : List Nat → Bool) (quads : Bool) (inp : List Nat) :
    ∃ x, (run T urlOk .ioerr quads inp).2 = .error x :=
  Proofs.C05NQ.ioerr_reported T urlOk quads inp

/-- C15 (truncation): `Next()` ends cleanly only at a clean end of the stream and, at the start of
    a statement, only when nothing but white space and comments remains — an input that stops inside
    a statement is therefore never a clean end. -/
theorem done_only_on_blank (T : Tables) (urlOk : List Nat → Bool) (e : End) (quads : Bool)
    (inp : List Nat) (h : statement T urlOk e quads inp = .done) :
    e = .eof ∧ allBlank T inp = true :=
  Proofs.C05NQ.done_only_on_blank T urlOk e quads inp h

/-- C15 (streaming): a statement, once produced, does not depend on what follows it nor on how the
    stream ends: extending the input leaves the statement and shifts the remainder. -/
theorem next_extend (T : Tables) (urlOk : List Nat → Bool) (e e' : End) (quads started : Bool)
    (inp rest more : List Nat) (q : Quad (List Nat))
    (h : next T urlOk e quads started inp = .quad q rest) :
    next T urlOk e' quads started (inp ++ more) = .quad q (rest ++ more) :=
  Proofs.C05NQ.next_extend T urlOk e e' quads started inp rest more q h

/-- C15 (prefix monotonicity): the statements decoded from a prefix of a document are, in order, a
    prefix of the statements decoded from the document. -/
theorem prefix_monotone (T : Tables) (urlOk : List Nat → Bool) (e e' : End) (quads : Bool)
    (p more : List Nat) :
    (run T urlOk e quads p).1 <+: (run T urlOk e' quads (p ++ more)).1 :=
  Proofs.C05NQ.prefix_monotone T urlOk e e' quads p more

end RdfModel.C05NQ
