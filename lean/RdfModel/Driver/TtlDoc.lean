/-
  Driver handler for the Turtle/TriG statement layer (component `ttld`).

    ttld.dec <pkg:turtle|trig> <end:eof|io> <base:x<hex>|-> <bytes>
        →  <stmt>;<stmt>;…|<verdict>      stmt = s,p,o,g  (terms in wire form, `-` = nil / no graph)
           verdict = clean | err:<eof|io|syntax|pfx|resolve> | panic | out-of-fuel
    ttld.resolve <base:x<hex>|-> <ref:x<hex>>  →  some <bytes> | unsure

  Blank nodes are renumbered by first occurrence (`b0`, `b1`, …) in the order s, p, o, g of the
  statement stream; the Go side does the same.

  IRI resolution (round 3d, builder-iriunify): `Cfg.resolve` is instantiated with the EXACT model of the code's
  resolver, `PIRI.parseIRI` / `ParsedIRI.parseRef` / `str` (Model/ParsedIRI.lean on Model/GoUrlFull.lean, tied
  by the `piri.*` ops), on the UTF-8 bytes of the rune lists — no longer with `Spec.RFC3986.resolve` on a
  'safe fragment' (lower-case scheme, `[a-z0-9.-]` authority, unreserved paths, base with authority, non-empty
  path, no fragment, no dot segments). The model's environment keeps the base as a STRING and re-parses it on
  every resolution, whereas Go keeps the `*ParsedIRI` that the previous resolution returned; the two differ
  exactly when `ParseIRI(p.String()) ≠ p` (e.g. the sticky `forceFragment` flag, C12W.deviates_chain_sticky),
  so the resolver answers `unsure` when the ParsedIRI it produces does not re-parse to itself, when the full
  net/url model declines (`unmodelled`: '%' inside an IP literal) or when the printed IRI is not well-formed
  UTF-8 (the model's terms are rune lists). `unsure` and a genuine error (`url.Parse` fails) both reach the
  statement machine as `none`: the run ends with `err:resolve`, and the harness counts a resolver-caused skip
  when the implementation went on. `ttld.resolve` distinguishes them (`error` / `unsure`).
  Measured (quick tier, seed 1, same inputs before/after, 0 failures both times): resolver-caused skips
  go/cmd/c08 12552 -> 266 of 250906 compared documents; go/cmd/c05ttl -prop C05 2717 -> 396 of 84051 (and
  `ttld.resolve` answers `unsure` on 255 instead of 1015 of 2500 pairs); go/cmd/c16d 1012 -> 56 of 11490.
  What is left: results whose ParsedIRI does not re-parse to itself (opaque reclassification `urn:/x`, empty
  base path + relative reference, sticky '#'), ill-formed UTF-8 inside an IRI.
-/
import RdfModel.Driver.Wire
import RdfModel.Model.TurtleDoc
import RdfModel.Gen.TtlTables
import RdfModel.Gen.NQTables
import RdfModel.Spec.RFC3986
import RdfModel.Model.ParsedIRI
namespace RdfModel.Driver.TtlDoc
open RdfModel RdfModel.Wire RdfModel.TtlDoc

inductive RC where
  | ok (s : List Nat)      -- resolved IRI, as runes
  | err                    -- `url.Parse` of the reference (or of the base) fails: Go reports an error
  | unsure                 -- outside what the string-based environment can reproduce (see the header)
deriving DecidableEq, Repr

/-- the printed form of a resolution result, when the environment may keep it as the next base -/
def finish (p : PIRI.ParsedIRI) : RC :=
  let s := p.str
  let stable := match PIRI.parseIRI s with
    | .ok q => q == p
    | .error _ => false
  if stable && utf8Encode (utf8Decode s) == s then .ok (utf8Decode s) else .unsure

/-- `ResolveURL` / `ResolveIRI` with a base: `base = none` is `iri.ParseIRI(ref)`, otherwise
    `ParseIRI(base).Parse(ref)`; then `String()` -/
def resolveCode (base : Option (List Nat)) (ref : List Nat) : RC :=
  let r := utf8Encode ref
  match base with
  | none =>
    match PIRI.parseIRI r with
    | .ok p => finish p
    | .error .unmodelled => .unsure
    | .error _ => .err
  | some b =>
    match PIRI.parseIRI (utf8Encode b) with
    | .error .unmodelled => .unsure
    | .error _ => .err
    | .ok bp =>
      match bp.parseRef r with
      | .ok t => finish t
      | .err .unmodelled => .unsure
      | .err _ => .err
      | .panic => .unsure

/-- `Cfg.resolve` of the driver. -/
def resolveSafe (base : Option (List Nat)) (ref : List Nat) : Option (List Nat) :=
  match resolveCode base ref with
  | .ok s => some s
  | _ => none

def cfgOf (pkg : String) : Option Cfg :=
  let mk (trig : Bool) (T : Ttl.Tables) : Cfg :=
    { trig := trig, P := Producers.real T, resolve := resolveSafe,
      isSpace := inRanges Gen.unicodeSpace, pnBase := inRanges T.pnCharsBase }
  if pkg = "turtle" then some (mk false Gen.turtle)
  else if pkg = "trig" then some (mk true Gen.trig)
  else none

def showClass : EClass → String
  | .eof => "eof" | .io => "io" | .syntax => "syntax" | .pfx => "pfx" | .resolve => "resolve"

def showVerdict : Verdict → String
  | .clean => "clean"
  | .error e => "err:" ++ showClass e
  | .panic => "panic"
  | .outOfFuel => "out-of-fuel"

/-- first-occurrence numbering of blank nodes -/
def numberOf (b : BN) : List BN → Nat → Option Nat
  | [], _ => none
  | x :: rest, i => if x = b then some i else numberOf b rest (i + 1)

def labelOf (n : Nat) : List Nat := asc ("b" ++ toString n)

def canonTerm (seen : List BN) : T → Term (List Nat) × List BN
  | .iri v => (.iri v, seen)
  | .lit l d t => (.lit l d t, seen)
  | .bnode b =>
    match numberOf b seen 0 with
    | some i => (.bnode (labelOf i), seen)
    | none => (.bnode (labelOf seen.length), seen ++ [b])

def canonOpt (seen : List BN) : Option T → Option (Term (List Nat)) × List BN
  | none => (none, seen)
  | some t => let (t', s) := canonTerm seen t; (some t', s)

def showStmts : List BN → List Stmt → List String
  | _, [] => []
  | seen, st :: rest =>
    let (s, seen) := canonOpt seen st.s
    let (p, seen) := canonOpt seen st.p
    let (o, seen) := canonTerm seen st.o
    let (g, seen) := canonOpt seen st.g
    (showOptTerm s ++ "," ++ showOptTerm p ++ "," ++ showTerm o ++ "," ++ showOptTerm g) :: showStmts seen rest

def optRunes (s : String) : Option (Option (List Nat)) :=
  if s = "-" then some none else (runesTok s).map some

def handle (op : String) (args : List String) : Option String :=
  match op, args with
  | "dec", [pkg, e, base, inp] => do
    let C ← cfgOf pkg
    let e ← (if e = "eof" then some NQ.End.eof else if e = "io" then some NQ.End.ioerr else none)
    let base ← optRunes base
    let rs ← runesTok inp
    let (ss, v) := run C e base [] rs
    pure (String.intercalate ";" (showStmts [] ss) ++ "|" ++ showVerdict v)
  | "resolve", [base, ref] => do
    let base ← optRunes base
    let ref ← runesTok ref
    match resolveCode base ref with
    | .ok r => pure ("some " ++ tokOfRunes r)
    | .err => pure "error"
    | .unsure => pure "unsure"
  | _, _ => none

end RdfModel.Driver.TtlDoc
