/-
  C10 helper lemmas, part 11 (encoder direction, SCRATCH — imported by nothing until complete):
  the tagged export terminates whenever the export does (C17: always, for fuel |d|+1), so the forest
  `encForest` exists for every dataset and every pair of iteration orders.
-/
import RdfModel.Proofs.C10EncMain
import RdfModel.Proofs.C17VMain
namespace RdfModel.Proofs.C10
open RdfModel RdfModel.Desc RdfModel.JL RdfModel.JLEnc RdfModel.C10

variable {β : Type} [DecidableEq β]

theorem foldStmtsT_isSome (B : Builder β)
    (recT : Term β → List β → Option (List (TStmt β) × List β))
    (recV : Term β → List β → Option (List (Stmt β) × List β))
    (hTV : ∀ s V lt V', recT s V = some (lt, V') → recV s V = some (untags lt, V'))
    (hVT : ∀ s V, (recV s V).isSome → (recT s V).isSome) :
    ∀ (l : List (PO β)) (V : List β), (B.foldStmtsV Opts.default recV l V).isSome → (foldStmtsT B recT l V).isSome := by
  intro l
  induction l with
  | nil => intro V _; simp [foldStmtsT]
  | cons po rest ih =>
    intro V h
    obtain ⟨p, o⟩ := po
    have plain : B.isInlV Opts.default V o = false → (B.foldStmtsV Opts.default recV rest V).isSome := by
      intro hi
      simp only [Builder.foldStmtsV, hi, Bool.false_eq_true, if_false] at h
      cases hf : B.foldStmtsV Opts.default recV rest V with
      | none => simp [hf] at h
      | some r => rfl
    cases o with
    | bnode b =>
      simp only [foldStmtsT]
      by_cases hc : (B.refCount b == 1 && !decide (b ∈ V)) = true
      · have hV : B.isInlV Opts.default V (Term.bnode b) = true := by
          simpa [Builder.isInlV, Opts.default] using hc
        simp only [Builder.foldStmtsV, hV, if_true] at h
        simp only [hc, if_true]
        cases hr : recV (Term.bnode b) V with
        | none => simp [hr] at h
        | some r =>
          obtain ⟨Lb, V1⟩ := r
          simp only [hr] at h
          have hs := hVT (Term.bnode b) V (by rw [hr]; rfl)
          obtain ⟨⟨lb, V1'⟩, hrt⟩ := Option.isSome_iff_exists.1 hs
          have := hTV _ _ _ _ hrt
          rw [hr] at this
          simp only [Option.some.injEq, Prod.mk.injEq] at this
          obtain ⟨_, rfl⟩ := this
          simp only [hrt]
          have hrest : (B.foldStmtsV Opts.default recV rest V1).isSome := by
            cases hf : B.foldStmtsV Opts.default recV rest V1 with
            | none => simp [hf] at h
            | some r => rfl
          obtain ⟨⟨l2, V2⟩, hf2⟩ := Option.isSome_iff_exists.1 (ih V1 hrest)
          simp [hf2]
      · have hV : B.isInlV Opts.default V (Term.bnode b) = false := by
          simpa [Builder.isInlV, Opts.default] using hc
        simp only [hc, Bool.false_eq_true, if_false]
        obtain ⟨⟨l2, V2⟩, hf2⟩ := Option.isSome_iff_exists.1 (ih V (plain hV))
        simp [hf2]
    | iri v =>
      simp only [foldStmtsT]
      obtain ⟨⟨l2, V2⟩, hf2⟩ := Option.isSome_iff_exists.1 (ih V (plain (by simp [Builder.isInlV])))
      simp [hf2]
    | lit a b c =>
      simp only [foldStmtsT]
      obtain ⟨⟨l2, V2⟩, hf2⟩ := Option.isSome_iff_exists.1 (ih V (plain (by simp [Builder.isInlV])))
      simp [hf2]

theorem exportT_isSome (B : Builder β) : ∀ (fuel : Nat) (s : Term β) (V : List β),
    (B.exportStatementsV Opts.default fuel s V).isSome → (exportT B fuel s V).isSome := by
  intro fuel
  induction fuel with
  | zero => intro s V h; simp [Builder.exportStatementsV] at h
  | succ k ih =>
    intro s V h
    simp only [Builder.exportStatementsV] at h
    simp only [exportT]
    exact foldStmtsT_isSome B _ _ (exportT_untag B k) ih _ _ h

theorem foldRootsT_isSome (B : Builder β) (fuel : Nat) (pick : Term β → List β → Bool)
    (hterm : ∀ y V, (B.exportStatementsV Opts.default fuel y V).isSome) :
    ∀ (ord : List (Term β)) (V : List β), (foldRootsT B fuel pick ord V).isSome := by
  intro ord
  induction ord with
  | nil => intro V; simp [foldRootsT]
  | cons s ord ih =>
    intro V
    simp only [foldRootsT]
    by_cases hp : pick s V = true
    · simp only [hp, if_true]
      obtain ⟨⟨st, V1⟩, he⟩ := Option.isSome_iff_exists.1 (exportT_isSome B fuel s V (hterm s V))
      obtain ⟨⟨rs, V2⟩, hf⟩ := Option.isSome_iff_exists.1 (ih V1)
      simp [he, hf]
    · simp only [hp, Bool.false_eq_true, if_false]
      exact ih V

/-- the forest exists: for every dataset and all iteration orders -/
theorem encForest_isSome (cfg : Cfg β) (d : List (DQuad β)) (ord ord2 : List (Term β)) :
    (encForest cfg d ord ord2).isSome := by
  unfold encForest
  simp only []
  split
  · rfl
  · have hterm : ∀ y V, (((dbuild d).builder none).exportStatementsV Opts.default (d.length + 1) y V).isSome := by
      intro y V
      rw [C17.builder_dbuild]
      exact C17.exportV_isSome _ Opts.default (d.length + 1)
        (by have := C17.graphTriples_length_le d none; omega) y V
    obtain ⟨⟨rs1, V1⟩, h1⟩ := Option.isSome_iff_exists.1 (foldRootsT_isSome _ (d.length + 1)
      (((dbuild d).builder none).pick1 Opts.default) hterm ord [])
    obtain ⟨⟨rs2, V2⟩, h2⟩ := Option.isSome_iff_exists.1 (foldRootsT_isSome _ (d.length + 1)
      (((dbuild d).builder none).pick2 Opts.default) hterm ord2 V1)
    simp [h1, h2]

/-- the document is read as the forest — without `structOK` -/
theorem doc_reads_forest (mode11 : Bool) (base : Option Str) (cfg : Cfg β) (d : List (DQuad β)) (ord ord2 : List (Term β))
    (hne : ∀ b, cfg.label b ≠ []) (hord : ∀ s ∈ ord, s ∈ defaultOrd d) (hord2 : ∀ s ∈ ord2, s ∈ defaultOrd d)
    (hwf : WFDataset d) (hnn : noNativeTyped d = true) (hctx : ctxOK cfg d ord ord2 = true)
    (hloc : locOK cfg d ord ord2 = true) :
    ∃ doc F, encode cfg d ord ord2 = some doc ∧ encForest cfg d ord ord2 = some F ∧
      toRdf mode11 base doc = some (denForest cfg.label F (encStart F)).1 := by
  -- the forest
  cases hF : encForest cfg d ord ord2 with
  | none => have := encForest_isSome cfg d ord ord2; rw [hF] at this; cases this
  | some F =>
    -- the context
    have hctx' := hctx
    simp only [ctxOK, Bool.and_eq_true, List.all_eq_true] at hctx'
    obtain ⟨⟨hb, hdl⟩, _⟩ := hctx'
    have hnodup : (usedPrefixes cfg d ord ord2).Nodup := by
      unfold usedPrefixes; simp only []; split
      · exact List.nodup_nil
      · exact dedupStr_nodup _
    have hdecl : DeclOK cfg.base (declared cfg d ord ord2) :=
      { base := by intro b hbs; rw [hbs] at hb; exact hb
        name := fun e he => (hdl e he).1.1.1
        abs := fun e he => (hdl e he).1.1.2
        gd := fun e he => (hdl e he).1.2
        sch := fun e he => (hdl e he).2
        nodup := declOf_names_nodup _ _ hnodup }
    obtain ⟨c, hproc, _, hc⟩ := goodCtx_of_decl (mkEnc cfg) cfg.base (usedPrefixes cfg d ord ord2) hnodup
      (Ctx.initial mode11 base) rfl rfl rfl hdecl
    have hproc' : processCtxObj (Ctx.initial mode11 base) (ctxMs cfg.base (declared cfg d ord ord2)) = some c := hproc
    have hcr : CtxRead (Ctx.initial mode11 base) c (ctxMs cfg.base (declared cfg d ord ord2)) :=
      ⟨hproc', fun he => by rw [he] at hproc'; exact initial_ctx_empty mode11 base c hproc', ctxMs_wf _ _ hdecl⟩
    have hbase : cfg.base.isSome = (mkEnc cfg).base.isSome := by simp [mkEnc]
    -- the two cases of `encForest`
    have hF0 := hF
    have hfin : ∀ doc, encode cfg d ord ord2 = some doc →
        toRdf mode11 base doc = some (denForest cfg.label F (encStart F)).1 →
        ∃ doc F', encode cfg d ord ord2 = some doc ∧ some F = some F' ∧
          toRdf mode11 base doc = some (denForest cfg.label F' (encStart F')).1 := by
      intro doc he ht
      exact ⟨doc, F, he, rfl, ht⟩
    unfold encForest at hF
    simp only [] at hF
    by_cases hdg : (dbuild d).graphNames.contains none = true
    · simp only [hdg, Bool.not_true, Bool.false_eq_true, if_false] at hF
      cases h1 : foldRootsT ((dbuild d).builder none) (d.length + 1) (((dbuild d).builder none).pick1 Opts.default) ord [] with
      | none => simp [h1] at hF
      | some r1 =>
        obtain ⟨rs1, V1⟩ := r1
        simp only [h1] at hF
        cases h2 : foldRootsT ((dbuild d).builder none) (d.length + 1) (((dbuild d).builder none).pick2 Opts.default) ord2 V1 with
        | none => simp [h2] at hF
        | some r2 =>
          obtain ⟨rs2, V2⟩ := r2
          simp only [h2, Option.some.injEq] at hF
          -- the export
          have hexp : (if (dbuild d).graphNames.contains none then
              ((dbuild d).builder none).exportResourcesV Opts.default ord ord2 (d.length + 1) else some []) =
              some ((rs1 ++ rs2).map (toRes ((dbuild d).builder none))) := by
            simp only [hdg, if_true, Builder.exportResourcesV,
              foldRootsT_untag _ _ _ _ _ _ _ h1, foldRootsT_untag _ _ _ _ _ _ _ h2, List.map_append]
          obtain ⟨hu, hsingle, hmulti⟩ := encode_form cfg d ord ord2 _ hexp
          -- facts about the roots
          have hfacts : ∀ r ∈ rs1 ++ rs2, RootFacts (mkEnc cfg) (usedPrefixes cfg d ord ord2)
              ((declared cfg d ord ord2).map (·.1)) cfg.base r := by
            intro r hr
            have hpos : r.1 ∈ defaultOrd d ∧ ∀ po ∈ tposL r.2, ∃ s', po ∈ ((dbuild d).builder none).stmts s' := by
              rcases List.mem_append.1 hr with hr | hr
              · obtain ⟨a, b⟩ := foldRootsT_pos _ _ _ _ _ _ _ h1 r hr; exact ⟨hord _ a, b⟩
              · obtain ⟨a, b⟩ := foldRootsT_pos _ _ _ _ _ _ _ h2 r hr; exact ⟨hord2 _ a, b⟩
            obtain ⟨q, hq, _, hqs⟩ := subject_mem d r.1 hpos.1
            obtain ⟨_, hnode, hsubj⟩ := pok_of cfg d ord ord2 hwf hnn hctx hloc hq
            rw [hqs] at hnode hsubj
            refine ⟨hnode, hsubj, ?_⟩
            intro po hpo
            obtain ⟨s', hs'⟩ := hpos.2 po hpo
            exact (pok_of cfg d ord ord2 hwf hnn hctx hloc (stmt_mem d s' po hs')).1
          have hU : ∀ q ∈ (buildRoots (mkEnc cfg) cfg.label ((dbuild d).builder none)
              ((rs1 ++ rs2).map (toRes ((dbuild d).builder none))) []).2, q ∈ usedPrefixes cfg d ord ord2 := by
            intro q hq; rw [hu]; exact dedupStr_mem.2 hq
          have hrel := roots_rel hc hbase hne ((dbuild d).builder none)
            (rootTree (mkEnc cfg) ((dbuild d).builder none))
            (fun r v hv => by simp only [rootTree, hv]) (fun r b hb => by simp only [rootTree, hb])
            (rs1 ++ rs2) [] hU hfacts
          subst hF
          -- by the number of exported resources
          generalize hrs : rs1 ++ rs2 = rs at hexp hsingle hmulti hU hrel hfacts hfin
          cases rs with
          | nil =>
            simp only [List.map_nil, buildRoots] at hrel hmulti
            refine hfin _ (hmulti (by intro ms e; cases e)) ?_
            rw [doc_multi mode11 base _ hcr hrel]
            simp [denForest, denNodes, encStart]
          | cons r rest =>
            cases rest with
            | nil =>
              simp only [List.map_cons, List.map_nil, buildRoots] at hrel hsingle
              cases hrel with
              | cons h1' _ =>
                obtain ⟨ms, id, G, e, rest'⟩ := h1'
                have h1'' : RootRel cfg.label c (.obj ms) (rootTree (mkEnc cfg) ((dbuild d).builder none) r) := by
                  rw [← e]; exact ⟨ms, id, G, e, rest'⟩
                refine hfin _ (hsingle ms (by rw [e])) ?_
                rw [doc_single mode11 base _ hcr h1'']
                simp [denForest, denNodes, encStart]
            | cons r2 rest2 =>
              have hne2 : ∀ ms, (buildRoots (mkEnc cfg) cfg.label ((dbuild d).builder none)
                  ((r :: r2 :: rest2).map (toRes ((dbuild d).builder none))) []).1 ≠ [.obj ms] := by
                intro ms e
                have := congrArg List.length e
                simp [buildRoots] at this
              refine hfin _ (hmulti hne2) ?_
              rw [doc_multi mode11 base _ hcr hrel]
              simp [denForest, denNodes, encStart]
    · simp only [hdg, Bool.not_false, if_true, Option.some.injEq] at hF
      subst hF
      have hexp : (if (dbuild d).graphNames.contains none then
          ((dbuild d).builder none).exportResourcesV Opts.default ord ord2 (d.length + 1) else some []) =
          some ([] : List (Resource β)) := by rw [if_neg hdg]
      obtain ⟨hu, hsingle, hmulti⟩ := encode_form cfg d ord ord2 _ hexp
      simp only [buildRoots] at hmulti
      refine hfin _ (hmulti (by intro ms e; cases e)) ?_
      rw [doc_multi mode11 base _ hcr (F2.nil : F2 (RootRel cfg.label c) [] ([] : List (Tree β)))]
      simp [denForest, denNodes, encStart]



end RdfModel.Proofs.C10
