/-
  C10 helper lemmas, part 4 (encoder direction): context processing of the `@context` the encoder writes.

  A context object whose members are an optional absolute `@base` and simple term definitions
  `p ↦ ns` (p a usable prefix name, ns an absolute IRI ending in a gen-delim whose own scheme is not a
  member name) is processed by `processCtxObj` into the active context that has exactly these terms,
  each with the prefix flag set — in both processing modes.
-/
import RdfModel.Proofs.C10Flat
namespace RdfModel.Proofs.C10
open RdfModel RdfModel.Desc RdfModel.JL RdfModel.C10

/-- the term definition of a prefix declared as `"p": "ns"` -/
def tdPfx (ns : Str) : TermDef := { iri := ns, pfx := true, typ := .none, cont := .none, lang := none }

/-! ### association-list lookups -/

theorem lookup_filter_ne {α : Type} (l : List (Str × α)) (p k : Str) (h : k ≠ p) :
    (l.filter (fun e => e.1 != p)).lookup k = l.lookup k := by
  induction l with
  | nil => rfl
  | cons e l ih =>
    obtain ⟨a, b⟩ := e
    by_cases hap : a = p
    · subst hap
      have : (k == a) = false := by simpa using h
      simp [List.filter, List.lookup, this, ih]
    · have hne : (a != p) = true := by simpa using hap
      simp only [List.filter, hne, List.lookup]
      cases hk : (k == a) <;> simp [ih]

theorem lookup_filter_self {α : Type} (l : List (Str × α)) (p : Str) :
    (l.filter (fun e => e.1 != p)).lookup p = none := by
  induction l with
  | nil => rfl
  | cons e l ih =>
    obtain ⟨a, b⟩ := e
    by_cases hap : a = p
    · subst hap; simp [List.filter, ih]
    · have hne : (a != p) = true := by simpa using hap
      have : (p == a) = false := by simpa using (fun e : p = a => hap e.symm)
      simp [List.filter, hne, List.lookup, this, ih]

theorem getKey_none_of_hasKey {k : Str} {ms : List (Str × Json)} (h : hasKey k ms = false) : getKey k ms = none := by
  induction ms with
  | nil => rfl
  | cons m ms ih =>
    obtain ⟨a, b⟩ := m
    simp only [hasKey, List.any_cons, Bool.or_eq_false_iff, beq_eq_false_iff_ne] at h
    simp only [getKey, if_neg h.1]
    exact ih (by simpa [hasKey] using h.2)

/-! ### strings -/

theorem pfxNameOK_spec {p : Str} (h : pfxNameOK p = true) :
    p ≠ [] ∧ p ≠ [cUnderscore] ∧ p.contains cColon = false ∧ p.contains cSlash = false ∧
      isKeywordForm p = false ∧ p.head? ≠ some cAt := by
  simp only [pfxNameOK, Bool.not_eq_true', Bool.or_eq_false_iff, beq_eq_false_iff_ne] at h
  obtain ⟨⟨⟨⟨⟨h1, h2⟩, h3⟩, h4⟩, h5⟩, h6⟩ := h
  exact ⟨h1, h2, h3, h4, h5, by simpa using h6⟩

theorem isKeyword_of_head {p : Str} (h : p.head? ≠ some cAt) : isKeyword p = false := by
  unfold isKeyword
  rw [Bool.eq_false_iff]
  intro hc
  exact h (keywords_head _ (List.contains_iff_mem.1 hc))

theorem contains_colon_of_abs {v : Str} (h : absIri v = true) : v.contains cColon = true := by
  obtain ⟨a, rest, s, rfl, _, _, _⟩ := absIri_shape h
  simp

theorem no_colon_inner {p : Str} (h : p.contains cColon = false) : ((p.drop 1).dropLast).contains cColon = false := by
  rw [Bool.eq_false_iff] at h ⊢
  intro hc
  apply h
  have h1 : cColon ∈ (p.drop 1).dropLast := by simpa using hc
  have h2 : cColon ∈ p.drop 1 := List.dropLast_subset _ h1
  have h3 : cColon ∈ p := List.drop_subset _ _ h2
  simpa using h3

theorem no_colon_after_first {p : Str} (h : p.contains cColon = false) : colonAfterFirst p = false := by
  unfold colonAfterFirst
  rw [Bool.eq_false_iff] at h ⊢
  intro hc
  apply h
  have h2 : cColon ∈ p.drop 1 := by simpa using hc
  have h3 : cColon ∈ p := List.drop_subset _ _ h2
  simpa using h3

/-! ### IRI expansion of an absolute IRI under a context whose terms avoid it -/

/-- an absolute IRI that is no term and whose scheme is no term (unless `//` follows) expands to itself -/
theorem expandIri_abs_of (c : Ctx) (vocab docRel : Bool) {v : Str} (h : absIri v = true)
    (hv : c.term? v = none)
    (hs : ∀ s rest, splitColon v = some (s, rest) → rest.take 2 = [cSlash, cSlash] ∨ c.term? s = none) :
    expandIri c vocab docRel v = .iri v := by
  obtain ⟨a, rest, s, rfl, ha, hsp, hsch⟩ := absIri_shape h
  have hcol : colonAfterFirst (a :: (rest ++ cColon :: s)) = true := by simp [colonAfterFirst]
  have hne : (a :: rest) ≠ [cUnderscore] := by
    intro e; simp only [List.cons.injEq] at e; exact alpha_ne_underscore ha e.1
  have hvt : (if vocab = true then c.term? (a :: (rest ++ cColon :: s)) else none) = none := by
    split
    · exact hv
    · rfl
  unfold expandIri
  rw [isKeyword_alpha ha, isKeywordForm_alpha ha]
  simp only [Bool.false_eq_true, if_false, hvt, hcol, if_true, hsp, hne]
  rcases hs _ _ hsp with h2 | h2
  · simp [h2]
  · by_cases h3 : s.take 2 = [cSlash, cSlash]
    · simp [h3]
    · simp [h3, h2, hsch]

/-! ### Create Term Definition for a simple prefix definition -/

/-- what a simple definition `"p": "ns"` of the local context `loc` must satisfy -/
structure EntryOK (loc : List (Str × Json)) (p ns : Str) : Prop where
  name : pfxNameOK p = true
  key : getKey p loc = some (.str ns)
  abs : absIri ns = true
  gd : endsGenDelim ns = true
  nskey : hasKey ns loc = false
  sch : ∀ s rest, splitColon ns = some (s, rest) → rest.take 2 = [cSlash, cSlash] ∨ hasKey s loc = false

theorem expandIri_ns (loc : List (Str × Json)) (c : Ctx) {ns : Str} (habs : absIri ns = true)
    (hnskey : hasKey ns loc = false)
    (hsch : ∀ s rest, splitColon ns = some (s, rest) → rest.take 2 = [cSlash, cSlash] ∨ hasKey s loc = false)
    (hterm : ∀ k, hasKey k loc = false → c.term? k = none) (vocab docRel : Bool) :
    expandIri c vocab docRel ns = .iri ns := by
  apply expandIri_abs_of _ _ _ habs (hterm ns hnskey)
  intro s' rest' hs'
  rcases hsch s' rest' hs' with h | h
  · exact Or.inl h
  · exact Or.inr (hterm s' h)

theorem defineTerm_pfx (fuel : Nat) (loc : List (Str × Json)) (st : DSt) (p ns : Str)
    (hE : EntryOK loc p ns) (hdef : st.defined.lookup p = none)
    (hinv : ∀ k, hasKey k loc = false → st.ctx.terms.lookup k = none) :
    defineTerm (fuel + 1) loc st p =
      some { ctx := { st.ctx with terms := (p, tdPfx ns) :: st.ctx.terms.filter (fun e => e.1 != p) },
             defined := (p, true) :: (p, false) :: st.defined } := by
  obtain ⟨hp1, hp2, hp3, hp4, hp5, hp6⟩ := pfxNameOK_spec hE.name
  obtain ⟨a, rest, s, hns, ha, hsp, hsch⟩ := absIri_shape hE.abs
  have hkw : isKeyword p = false := isKeyword_of_head hp6
  have hnsne : ns ≠ p := by
    intro e
    have := contains_colon_of_abs hE.abs
    rw [e, hp3] at this; cases this
  have hkfns : isKeywordForm ns = false := by rw [hns]; exact isKeywordForm_alpha ha
  have hterm0 : ∀ k, hasKey k loc = false → (st.ctx.terms.filter (fun e => e.1 != p)).lookup k = none := by
    intro k hk
    by_cases hkp : k = p
    · subst hkp; exact lookup_filter_self _ _
    · rw [lookup_filter_ne _ _ _ hkp]; exact hinv k hk
  unfold defineTerm
  simp only [hdef, hp1, hkw, hp5, hp4, Bool.or_self, Bool.false_eq_true, if_false, hE.key, Option.bind_some,
    parseDef]
  simp only [Option.some.injEq, hnsne, if_false, hkfns, Bool.false_eq_true, hE.nskey,
    Option.bind_some]
  have hcolns : colonAfterFirst ns = true := by rw [hns]; simp [colonAfterFirst]
  have hcond : (decide (a :: rest ≠ [cUnderscore]) && decide (List.take 2 s ≠ [cSlash, cSlash]) && hasKey (a :: rest) loc) = false := by
    rcases hE.sch _ _ hsp with h | h
    · simp [h]
    · simp [h]
  simp only [hcolns, if_true, hsp, hcond, Bool.false_eq_true, if_false, Option.bind_some]
  rw [expandIri_ns loc _ hE.abs hE.nskey hE.sch (fun k hk => by simpa [Ctx.term?] using hterm0 k hk)]
  simp only [hE.abs, Bool.not_true, Bool.false_eq_true, if_false,
    no_colon_inner hp3, hE.gd, Bool.and_self, Bool.or_true, parseContainer, Option.bind_some]
  simp [tdPfx, List.filter_filter]


/-! ### all the prefix definitions of a context object -/

theorem lookup_none_of_not_mem {α : Type} (l : List (Str × α)) (k : Str) (h : k ∉ l.map (·.1)) : l.lookup k = none := by
  induction l with
  | nil => rfl
  | cons e l ih =>
    obtain ⟨a, b⟩ := e
    simp only [List.map_cons, List.mem_cons, not_or] at h
    have : (k == a) = false := by simpa using h.1
    simp [List.lookup, this, ih h.2]

theorem mem_of_lookup {α : Type} (l : List (Str × α)) (k : Str) (v : α) (h : l.lookup k = some v) : (k, v) ∈ l := by
  induction l with
  | nil => simp at h
  | cons e l ih =>
    obtain ⟨a, b⟩ := e
    simp only [List.lookup] at h
    cases hk : (k == a) with
    | true =>
      simp only [hk, Option.some.injEq] at h
      have : k = a := by simpa using hk
      subst this; subst h; simp
    | false =>
      simp only [hk] at h
      exact List.mem_cons_of_mem _ (ih h)

theorem lookup_of_mem_nodup {α : Type} (l : List (Str × α)) (k : Str) (v : α) (hm : (k, v) ∈ l)
    (hn : (l.map (·.1)).Nodup) : l.lookup k = some v := by
  induction l with
  | nil => cases hm
  | cons e l ih =>
    obtain ⟨a, b⟩ := e
    simp only [List.map_cons, List.nodup_cons] at hn
    rcases List.mem_cons.1 hm with h | h
    · cases h; simp [List.lookup]
    · have hne : k ≠ a := by
        intro e; subst e
        exact hn.1 (List.mem_map.2 ⟨(k, v), h, rfl⟩)
      have : (k == a) = false := by simpa using hne
      simp [List.lookup, this, ih h hn.2]

/-- the fields of an active context other than its term definitions -/
def sameEnv (c c' : Ctx) : Prop :=
  c'.mode11 = c.mode11 ∧ c'.docBase = c.docBase ∧ c'.base = c.base ∧ c'.vocab = c.vocab ∧ c'.lang = c.lang

theorem defineAll (F : Nat) (loc : List (Str × Json)) :
    ∀ (todo : List (Str × Str)) (st : DSt) (doneRev : List (Str × Str)),
      (∀ e ∈ todo, EntryOK loc e.1 e.2) →
      (todo.map (·.1)).Nodup → (∀ e ∈ todo, e.1 ∉ doneRev.map (·.1)) →
      (∀ k, st.ctx.terms.lookup k = (doneRev.lookup k).map tdPfx) →
      (∀ k, k ∉ doneRev.map (·.1) → st.defined.lookup k = none) →
      (∀ k, k ∈ doneRev.map (·.1) → hasKey k loc = true) →
      ∃ st', (todo.map (·.1)).foldl (fun st t => st.bind fun st => defineTerm (F + 1) loc st t) (some st) = some st' ∧
        (∀ k, st'.ctx.terms.lookup k = ((todo.reverse ++ doneRev).lookup k).map tdPfx) ∧
        sameEnv st.ctx st'.ctx := by
  intro todo
  induction todo with
  | nil =>
    intro st doneRev _ _ _ h1 _ _
    exact ⟨st, rfl, by simpa using h1, rfl, rfl, rfl, rfl, rfl⟩
  | cons e todo ih =>
    intro st doneRev hE hnd hfresh h1 h2 h3
    obtain ⟨p, ns⟩ := e
    have hEp : EntryOK loc p ns := hE (p, ns) List.mem_cons_self
    have hpfresh : p ∉ doneRev.map (·.1) := hfresh (p, ns) List.mem_cons_self
    have hinv : ∀ k, hasKey k loc = false → st.ctx.terms.lookup k = none := by
      intro k hk
      rw [h1 k, lookup_none_of_not_mem doneRev k (fun hm => by rw [h3 k hm] at hk; cases hk)]
      rfl
    have hstep := defineTerm_pfx F loc st p ns hEp (h2 p hpfresh) hinv
    simp only [List.map_cons, List.nodup_cons] at hnd
    have hkey : hasKey p loc = true := by
      cases hh : hasKey p loc with
      | true => rfl
      | false => have := hEp.key; rw [getKey_none_of_hasKey hh] at this; cases this
    obtain ⟨st', hf, ht, henv⟩ := ih
      { ctx := { st.ctx with terms := (p, tdPfx ns) :: st.ctx.terms.filter (fun e => e.1 != p) },
        defined := (p, true) :: (p, false) :: st.defined } ((p, ns) :: doneRev)
      (fun e he => hE e (List.mem_cons_of_mem _ he)) hnd.2
      (by
        intro e he hm
        simp only [List.map_cons, List.mem_cons] at hm
        rcases hm with hm | hm
        · exact hnd.1 (hm ▸ List.mem_map.2 ⟨e, he, rfl⟩)
        · exact hfresh e (List.mem_cons_of_mem _ he) hm)
      (by
        intro k
        by_cases hkp : k = p
        · subst hkp; simp [List.lookup]
        · have : (k == p) = false := by simpa using hkp
          simp only [List.lookup, this]
          rw [lookup_filter_ne _ _ _ hkp]; exact h1 k)
      (by
        intro k hk
        simp only [List.map_cons, List.mem_cons, not_or] at hk
        have : (k == p) = false := by simpa using hk.1
        simp only [List.lookup, this]
        exact h2 k hk.2)
      (by
        intro k hk
        simp only [List.map_cons, List.mem_cons] at hk
        rcases hk with rfl | hk
        · exact hkey
        · exact h3 k hk)
    refine ⟨st', ?_, ?_, ?_⟩
    · simp only [List.map_cons, List.foldl_cons, Option.bind_some, hstep]
      exact hf
    · intro k; rw [ht k]; simp [List.append_assoc]
    · obtain ⟨e1, e2, e3, e4, e5⟩ := henv
      exact ⟨e1, e2, e3, e4, e5⟩


/-! ### the context object the encoder writes -/

/-- members of the `@context` object: an optional `@base`, then the prefix declarations -/
def ctxMs (bs : Option Str) (decl : List (Str × Str)) : List (Str × Json) :=
  (match bs with | some b => [(kBase, Json.str b)] | none => []) ++ decl.map (fun e => (e.1, Json.str e.2))

/-- the conditions of `C10.ctxOK` on the declarations -/
structure DeclOK (bs : Option Str) (decl : List (Str × Str)) : Prop where
  base : ∀ b, bs = some b → absIri b = true
  name : ∀ e ∈ decl, pfxNameOK e.1 = true
  abs : ∀ e ∈ decl, absIri e.2 = true
  gd : ∀ e ∈ decl, endsGenDelim e.2 = true
  sch : ∀ e ∈ decl, schemeFree (decl.map (·.1)) e.2 = true
  nodup : (decl.map (·.1)).Nodup

theorem hasKey_map (decl : List (Str × Str)) (k : Str) :
    hasKey k (decl.map (fun e => (e.1, Json.str e.2))) = decide (k ∈ decl.map (·.1)) := by
  induction decl with
  | nil => simp [hasKey]
  | cons e l ih =>
    simp only [hasKey] at ih
    simp only [hasKey, List.map_cons, List.any_cons, ih, List.mem_cons]
    by_cases h : e.1 = k
    · simp [h]
    · have : (e.1 == k) = false := by simpa using h
      have h' : ¬ k = e.1 := fun e' => h e'.symm
      simp [this, h']

theorem hasKey_append (k : Str) (a b : List (Str × Json)) : hasKey k (a ++ b) = (hasKey k a || hasKey k b) := by
  simp [hasKey]

theorem hasKey_ctxMs_false (bs : Option Str) (decl : List (Str × Str)) (k : Str) (h1 : k ≠ kBase)
    (h2 : k ∉ decl.map (·.1)) : hasKey k (ctxMs bs decl) = false := by
  unfold ctxMs
  rw [hasKey_append, hasKey_map]
  cases bs with
  | none => simp [hasKey, h2]
  | some b =>
    have : (kBase == k) = false := by simpa using (fun e : kBase = k => h1 e.symm)
    simp [hasKey, h2, this]

theorem getKey_map_mem (decl : List (Str × Str)) (p ns : Str) (hm : (p, ns) ∈ decl) (hn : (decl.map (·.1)).Nodup) :
    getKey p (decl.map (fun e => (e.1, Json.str e.2))) = some (.str ns) := by
  induction decl with
  | nil => cases hm
  | cons e l ih =>
    obtain ⟨a, b⟩ := e
    simp only [List.map_cons, List.nodup_cons] at hn
    rcases List.mem_cons.1 hm with h | h
    · cases h; simp [getKey]
    · have hne : a ≠ p := by
        intro e; subst e
        exact hn.1 (List.mem_map.2 ⟨(a, ns), h, rfl⟩)
      simp [getKey, hne, ih h hn.2]

theorem getKey_append_left_none (k : Str) (a b : List (Str × Json)) (h : hasKey k a = false) :
    getKey k (a ++ b) = getKey k b := by
  induction a with
  | nil => rfl
  | cons m a ih =>
    obtain ⟨x, y⟩ := m
    simp only [hasKey, List.any_cons, Bool.or_eq_false_iff, beq_eq_false_iff_ne] at h
    simp only [List.cons_append, getKey, if_neg h.1]
    exact ih (by simpa [hasKey] using h.2)

theorem head_of_abs {v : Str} (h : absIri v = true) : v.head? ≠ some cAt := by
  obtain ⟨a, rest, s, rfl, ha, _, _⟩ := absIri_shape h
  simp only [List.head?_cons, ne_eq, Option.some.injEq]
  exact alpha_ne_at ha

theorem ne_of_head {k v : Str} (hk : k.head? = some cAt) (hv : v.head? ≠ some cAt) : v ≠ k := by
  intro e; subst e; exact hv hk

theorem entryOK_of_decl (bs : Option Str) (decl : List (Str × Str)) (h : DeclOK bs decl) :
    ∀ e ∈ decl, EntryOK (ctxMs bs decl) e.1 e.2 := by
  intro e he
  obtain ⟨p, ns⟩ := e
  obtain ⟨hp1, hp2, hp3, hp4, hp5, hp6⟩ := pfxNameOK_spec (h.name _ he)
  have hnocolon : ∀ k ∈ decl.map (·.1), k.contains cColon = false := by
    intro k hk
    obtain ⟨e', he', rfl⟩ := List.mem_map.1 hk
    exact (pfxNameOK_spec (h.name _ he')).2.2.1
  refine ⟨h.name _ he, ?_, h.abs _ he, h.gd _ he, ?_, ?_⟩
  · unfold ctxMs
    rw [getKey_append_left_none]
    · exact getKey_map_mem decl p ns he h.nodup
    · cases bs with
      | none => rfl
      | some b =>
        have : (kBase == p) = false := by
          simpa using (fun e : kBase = p => ne_of_head (k := kBase) (by decide) hp6 e.symm)
        simp [hasKey, this]
  · apply hasKey_ctxMs_false
    · exact ne_of_head (by decide) (head_of_abs (h.abs _ he))
    · intro hm
      have := hnocolon _ hm
      rw [contains_colon_of_abs (h.abs _ he)] at this; cases this
  · intro s rest hs
    have hsf := h.sch _ he
    simp only [schemeFree, hs, Bool.or_eq_true, beq_iff_eq, Bool.not_eq_true'] at hsf
    rcases hsf with h1 | h1
    · exact Or.inl h1
    · right
      apply hasKey_ctxMs_false
      · obtain ⟨a, r, s', _, ha, hsp, _⟩ := absIri_shape (h.abs _ he)
        rw [hsp] at hs
        simp only [Option.some.injEq, Prod.mk.injEq] at hs
        rw [← hs.1]
        intro e; simp only [kBase, asc] at e
        have : a = cAt := by
          have := congrArg List.head? e
          simpa [cAt] using this
        exact alpha_ne_at ha this
      · intro hm
        have : s ∈ decl.map (·.1) := hm
        rw [Bool.eq_false_iff] at h1
        exact h1 (by simpa using this)


theorem getKey_ctxMs_at (bs : Option Str) (decl : List (Str × Str)) (h : DeclOK bs decl) (k : Str)
    (hk : k.head? = some cAt) (hkb : k ≠ kBase) : getKey k (ctxMs bs decl) = none := by
  apply getKey_none_of_hasKey
  apply hasKey_ctxMs_false _ _ _ hkb
  intro hm
  obtain ⟨e, he, rfl⟩ := List.mem_map.1 hm
  exact (pfxNameOK_spec (h.name _ he)).2.2.2.2.2 hk

theorem filter_names_ctxMs (bs : Option Str) (decl : List (Str × Str)) (h : DeclOK bs decl) :
    ((ctxMs bs decl).filter fun m => m.1.head? ≠ some cAt).map (·.1) = decl.map (·.1) := by
  have hd : ∀ (l : List (Str × Str)), (∀ e ∈ l, e.1.head? ≠ some cAt) →
      ((l.map (fun e => (e.1, Json.str e.2))).filter fun m => m.1.head? ≠ some cAt).map (·.1) = l.map (·.1) := by
    intro l
    induction l with
    | nil => intro _; rfl
    | cons e l ih =>
      intro hl
      have h1 := hl e List.mem_cons_self
      simp only [List.map_cons, List.filter, h1, ne_eq, not_false_eq_true, decide_true]
      rw [ih (fun e' he' => hl e' (List.mem_cons_of_mem _ he'))]
  have hall : ∀ e ∈ decl, e.1.head? ≠ some cAt := fun e he => (pfxNameOK_spec (h.name _ he)).2.2.2.2.2
  unfold ctxMs
  cases bs with
  | none => simpa using hd decl hall
  | some b =>
    have : (List.head? kBase ≠ some cAt) = False := by simp +decide
    simp only [List.cons_append, List.nil_append, List.filter, this, decide_false]
    exact hd decl hall

theorem processCtxObj_enc (c0 : Ctx) (hc0 : c0.terms = []) (hv : c0.vocab = none) (hl : c0.lang = none)
    (bs : Option Str) (decl : List (Str × Str)) (h : DeclOK bs decl) :
    ∃ c, processCtxObj c0 (ctxMs bs decl) = some c ∧ c.vocab = none ∧ c.lang = none ∧
      c.base = bs.or c0.base ∧ c.mode11 = c0.mode11 ∧
      ∀ k, c.terms.lookup k = (decl.reverse.lookup k).map tdPfx := by
  have hall : ((ctxMs bs decl).all fun m => m.1.head? ≠ some cAt || [kBase, kVocab, kLanguage, kVersion].contains m.1) = true := by
    rw [List.all_eq_true]
    intro m hm
    unfold ctxMs at hm
    rcases List.mem_append.1 hm with hm | hm
    · cases bs with
      | none => cases hm
      | some b => simp only [List.mem_singleton] at hm; subst hm; simp +decide
    · obtain ⟨e, he, rfl⟩ := List.mem_map.1 hm
      have := (pfxNameOK_spec (h.name _ he)).2.2.2.2.2
      simp [this]
  have hver : getKey kVersion (ctxMs bs decl) = none := getKey_ctxMs_at bs decl h _ (by decide) (by decide)
  have hvoc : getKey kVocab (ctxMs bs decl) = none := getKey_ctxMs_at bs decl h _ (by decide) (by decide)
  have hlan : getKey kLanguage (ctxMs bs decl) = none := getKey_ctxMs_at bs decl h _ (by decide) (by decide)
  have hgk : getKey kBase (ctxMs bs decl) = bs.map Json.str := by
    cases bs with
    | none =>
      apply getKey_none_of_hasKey
      unfold ctxMs
      simp only [List.nil_append, hasKey_map, decide_eq_false_iff_not]
      intro hm
      obtain ⟨e, he, hk⟩ := List.mem_map.1 hm
      exact (pfxNameOK_spec (h.name _ he)).2.2.2.2.2 (by rw [hk]; decide)
    | some b => simp [ctxMs, getKey]
  obtain ⟨st', hf, ht, henv⟩ := defineAll (ctxMs bs decl).length (ctxMs bs decl) decl
    { ctx := { c0 with base := bs.or c0.base, vocab := c0.vocab, lang := c0.lang },
      defined := [] } []
    (entryOK_of_decl bs decl h) h.nodup (by intro e _ hm; cases hm)
    (by intro k; simp [hc0]) (by intro k _; rfl) (by intro k hk; cases hk)
  refine ⟨st'.ctx, ?_, ?_, ?_, ?_, ?_, ?_⟩
  · unfold processCtxObj
    simp only [hall, Bool.not_true, Bool.false_eq_true, if_false, hver, hvoc, hlan, Option.bind_some, hgk]
    cases bs with
    | none =>
      simp only [Option.map_none, Option.bind_some, filter_names_ctxMs none decl h]
      simp only [Option.or_none, Option.none_or] at hf
      rw [hf]; rfl
    | some b =>
      simp only [Option.map_some, h.base b rfl, if_true, Option.bind_some, filter_names_ctxMs (some b) decl h]
      simp only [Option.some_or] at hf
      rw [hf]; rfl
  · rw [henv.2.2.2.1]; exact hv
  · rw [henv.2.2.2.2]; exact hl
  · rw [henv.2.2.1]
  · rw [henv.1]
  · intro k; rw [ht k]; simp

end RdfModel.Proofs.C10
