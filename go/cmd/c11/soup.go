package main

// Microdata / JSON-LD graph generators and choices, the attribute-soup tree generators, the predicates of the
// known-finding classes, and replay.

import (
	"encoding/hex"
	"encoding/json"
	"fmt"
	"os"
	"strings"

	"verifharness/vh"

	xhtml "golang.org/x/net/html"
)

// ---------------------------------------------------------------- Microdata graphs and choices

// mdGraph: what Microdata (as this library reads it) can express: IRI or blank-node subjects, absolute one-token
// predicates, xsd:string literals, IRI objects, blank-node objects with one referrer (rarely: two).
func (g *gen) mdGraph() []Triple {
	var out []Triple
	nb := 0
	newB := func() Term { nb++; return B(fmt.Sprintf("m%d", nb)) }
	var describe func(s Term, depth int)
	describe = func(s Term, depth int) {
		n := 1 + g.r.Intn(3)
		if s.Kind == 'I' && g.r.Chance(25) || s.Kind == 'B' && g.r.Chance(30) {
			out = append(out, Triple{s, I(rdfType), I(vh.Pick(g.r, []string{"http://schema.org/Person", "http://schema.org/Thing", "http://vocab.example/ns#Other", "http://p.example/deep/er/Type"}))})
		}
		for i := 0; i < n; i++ {
			p := I(vh.Pick(g.r, predIRIs))
			switch {
			case g.r.Chance(50):
				out = append(out, Triple{s, p, Lit(vh.Pick(g.r, lexes), xsdString, "")})
			case g.r.Chance(55) || depth >= 2:
				o := g.resource(false)
				out = append(out, Triple{s, p, o})
			default:
				b := newB()
				out = append(out, Triple{s, p, b})
				describe(b, depth+1)
			}
		}
	}
	tops := 1 + g.r.Intn(2)
	var firstB *Term
	for i := 0; i < tops; i++ {
		var s Term
		if g.r.Chance(50) {
			s = g.resource(false)
		} else {
			s = newB()
		}
		describe(s, 0)
		if firstB == nil {
			for _, t := range out {
				if t.O.Kind == 'B' {
					o := t.O
					firstB = &o
					break
				}
			}
		} else if g.r.Chance(25) {
			// a second referrer of an item, under the same property name as the first
			for _, t := range out {
				if t.O == *firstB {
					out = append(out, Triple{s, t.P, *firstB})
					break
				}
			}
		}
	}
	if len(out) > 8 {
		// keep documents small; drop whole tails only (a dangling blank-node object is still an item)
		out = out[:8]
	}
	return out
}

func optHexList(l []*string) string {
	parts := make([]string, len(l))
	for i, s := range l {
		parts[i] = optHex(s)
	}
	return strings.Join(parts, ".")
}

func dirOf(s string) string {
	if i := strings.LastIndexByte(s, '/'); i >= 0 {
		return s[:i+1]
	}
	return ""
}

func (g *gen) mdChoices(gr []Triple) string {
	n := len(gr)
	useType := g.r.Intn(2)
	// first type of each subject, in graph order
	firstType := map[Term]string{}
	for _, t := range gr {
		if t.P.V == rdfType && t.O.Kind == 'I' {
			if _, ok := firstType[t.S]; !ok {
				firstType[t.S] = t.O.V
			}
		}
	}
	names := make([]*string, n)
	objs := make([]*string, n)
	ids := make([]*string, n)
	for i, t := range gr {
		if ty, ok := firstType[t.S]; ok && useType == 1 && g.r.Chance(70) && !strings.Contains(ty, "#") {
			d := dirOf(ty)
			if strings.HasPrefix(t.P.V, d) && len(t.P.V) > len(d) && isTermLike(t.P.V[len(d):]) && !strings.Contains(t.P.V[len(d):], "/") {
				names[i] = sp(t.P.V[len(d):])
			}
		}
		if t.O.Kind == 'I' {
			if r, ok := g.rel[t.O.V]; ok && g.r.Chance(60) {
				objs[i] = sp(r)
			}
		}
		if t.S.Kind == 'I' {
			if r, ok := g.rel[t.S.V]; ok && r != "" && g.r.Chance(50) {
				ids[i] = sp(vh.Pick(g.r, []string{"", " ", "\n"}) + r + vh.Pick(g.r, []string{"", " "}))
			}
		}
	}
	// 4th header field: wrapId knob of MdPat.build (ids on html / body / wrappers of items and of detached elements)
	return fmt.Sprintf("M%d.%d.%d.%d/%s/%s/%s/%s/%s/%s", g.r.Intn(2), useType, g.r.Intn(8), g.r.Intn(16)*g.r.Intn(2), natList(g.ints(n, 66)), natList(g.ints(n, 8)),
		natList(g.ints(n, 6)), optHexList(names), optHexList(objs), optHexList(ids))
}

// jsonldGraph: anything JSON-LD node and value objects express directly.
func (g *gen) jsonldGraph() []Triple {
	n := 1 + g.r.Intn(5)
	var out []Triple
	cur := g.resource(true)
	for len(out) < n {
		p := I(vh.Pick(g.r, predIRIs))
		if g.r.Chance(50) {
			l := g.literal("sslt")
			l.Lang = strings.ToLower(l.Lang)
			out = append(out, Triple{cur, p, l})
		} else {
			out = append(out, Triple{cur, p, g.resource(true)})
		}
		if g.r.Chance(40) {
			cur = g.resource(true)
		}
	}
	return out
}

// ---------------------------------------------------------------- attribute soup

type soup struct {
	r    *vh.Rng
	base string
}

var soupContainers = []string{"div", "span", "section", "b", "i", "em", "other"}
var soupLeaves = []string{"span", "div", "a", "link", "img", "meta", "area", "embed", "em"}

func (s *soup) resVal(curie bool) string {
	opts := []string{vh.Pick(s.r, absIRIs), vh.Pick(s.r, absIRIs), "_:b" + fmt.Sprint(s.r.Intn(3)), ""}
	if s.base != "" {
		opts = append(opts, vh.Pick(s.r, relRefs), vh.Pick(s.r, relRefs))
	}
	if curie {
		opts = append(opts, "schema:Person", "foaf:me", "[foaf:me]", "[_:b1]", "ex:thing", "[ex:thing]", "dc:title")
		// `p` and `o` are declared by some elements only (rdfaElem): a CURIE in their scope, an absolute IRI elsewhere
		opts = append(opts, "o:thing", "p:deep/er/x")
	}
	return vh.Pick(s.r, opts)
}

func (s *soup) hrefVal() string {
	opts := []string{vh.Pick(s.r, absIRIs), vh.Pick(s.r, absIRIs), ""}
	if s.base != "" {
		opts = append(opts, vh.Pick(s.r, relRefs), vh.Pick(s.r, relRefs))
	}
	return vh.Pick(s.r, opts)
}

func (s *soup) predVal(vocab bool) string {
	one := func() string {
		opts := []string{vh.Pick(s.r, predIRIs), vh.Pick(s.r, predIRIs), "schema:name", "foaf:knows", "dc:title", "ex:p1", "rdfs:label", "p:rel", "o:x"}
		if vocab {
			opts = append(opts, "name", "knows", "p1")
		}
		if s.r.Chance(15) {
			opts = append(opts, "license", "role", "License")
		}
		return vh.Pick(s.r, opts)
	}
	v := one()
	if s.r.Chance(15) {
		v += vh.Pick(s.r, []string{" ", "  ", "\n"}) + one()
	}
	if s.r.Chance(5) {
		v = " " + v + " "
	}
	return v
}

func (s *soup) rdfaElem(depth int, vocab bool) *Node {
	leaf := depth >= 3 || s.r.Chance(35)
	var attrs []Attr
	add := func(n, v string) { attrs = append(attrs, Attr{n, v}) }
	if s.r.Chance(12) {
		v := ""
		if !s.r.Chance(15) {
			v = pickVocab(s.r) // the host default vocabulary, written by the author, with extra weight
		}
		add("vocab", v)
		vocab = v != ""
	}
	if s.r.Chance(10) {
		add("prefix", prefixAttr(s.r, [][2]string{vh.Pick(s.r, declPrefixes[:3])}))
	}
	if s.r.Chance(12) {
		add("lang", vh.Pick(s.r, append([]string{""}, langs...)))
	}
	if s.r.Chance(35) {
		add("about", s.resVal(true))
	}
	if s.r.Chance(25) {
		add("typeof", strings.TrimSpace(s.predVal(vocab)))
	}
	// every combination of @property / @rel / @rev (steps 5, 6 and 11 depend on which of them are present)
	switch s.r.Intn(11) {
	case 0, 1:
		add("property", s.predVal(vocab))
	case 2:
		add("rel", s.predVal(vocab))
	case 3:
		add("rev", s.predVal(vocab))
	case 4:
		add("property", s.predVal(vocab))
		add("rel", s.predVal(vocab))
	case 5, 6:
		add("property", s.predVal(vocab))
		add("rev", s.predVal(vocab))
	case 7:
		add("rel", s.predVal(vocab))
		add("rev", s.predVal(vocab))
	case 8:
		add("property", s.predVal(vocab))
		add("rel", s.predVal(vocab))
		add("rev", s.predVal(vocab))
	}
	if s.r.Chance(25) {
		add("resource", s.resVal(true))
	}
	if s.r.Chance(15) {
		add("href", s.hrefVal())
	}
	if s.r.Chance(10) {
		add("src", s.hrefVal())
	}
	if s.r.Chance(20) {
		add("content", vh.Pick(s.r, lexes))
	}
	if s.r.Chance(12) {
		add("datatype", vh.Pick(s.r, []string{"", "xsd:integer", "http://dt.example/t", "ex:dt", vh.Pick(s.r, datatypes)}))
	}
	if s.r.Chance(12) {
		add("inlist", "")
	}
	if leaf {
		tag := vh.Pick(s.r, soupLeaves)
		if voidTags[tag] {
			return E(tag, attrs)
		}
		if s.r.Chance(60) {
			return E(tag, attrs, T(vh.Pick(s.r, lexes)))
		}
		return E(tag, attrs)
	}
	n := &Node{Tag: vh.Pick(s.r, soupContainers), Attrs: attrs}
	k := 1 + s.r.Intn(3)
	for i := 0; i < k; i++ {
		if s.r.Chance(20) {
			n.Kids = append(n.Kids, T(vh.Pick(s.r, lexes)))
		}
		n.Kids = append(n.Kids, s.rdfaElem(depth+1, vocab))
	}
	return n
}

func (s *soup) rdfaDoc() *Node {
	var body []*Node
	k := 1 + s.r.Intn(3)
	for i := 0; i < k; i++ {
		body = append(body, s.rdfaElem(0, false))
	}
	// `ex` is always declared: the soup spells safe CURIEs with it, and a safe CURIE that does not resolve is
	// outside the fragment (RDFa Core: ignored; the library: taken as an IRI)
	battrs := []Attr{{"prefix", prefixAttr(s.r, [][2]string{declPrefixes[0]})}}
	return E("html", nil, E("head", nil), E("body", battrs, body...))
}

var mdTypes = []string{"http://schema.org/Person", "http://schema.org/Thing", "http://vocab.example/ns#Other", "http://p.example/deep/er/Type"}
var mdNames = []string{"name", "knows", "url", "http://p.example/rel", "http://vocab.example/ns#p1", "urn:p:x", "title"}
var mdWords = []string{"high", "low", "soon", "later", "x1", ""}

func (s *soup) mdLeaf(ids *[]string) *Node {
	name := vh.Pick(s.r, mdNames)
	if s.r.Chance(15) {
		name += " " + vh.Pick(s.r, mdNames)
	}
	if s.r.Chance(6) {
		name = name + " " + strings.Fields(name)[0] // a repeated name counts once
	}
	attrs := []Attr{{"itemprop", name}}
	u := s.hrefVal()
	if s.base == "" {
		u = vh.Pick(s.r, absIRIs)
	}
	lex := vh.Pick(s.r, lexes)
	switch s.r.Intn(16) {
	case 0:
		return E("meta", append(attrs, Attr{"content", lex}))
	case 1:
		return E("meta", attrs)
	case 2:
		return E("a", append(attrs, Attr{"href", u}), T("anchor"))
	case 3:
		return E("link", append(attrs, Attr{"href", u}))
	case 4:
		return E("img", append(attrs, Attr{"src", u}))
	case 5:
		return E("object", append(attrs, Attr{"data", u}))
	case 6:
		return E(vh.Pick(s.r, []string{"audio", "video", "embed", "iframe", "source", "track"}), append(attrs, Attr{"src", u}))
	case 7:
		return E("data", append(attrs, Attr{"value", lex}), T("shown"))
	case 8:
		return E("meter", append(attrs, Attr{"value", vh.Pick(s.r, mdWords)}), T("m"))
	case 9:
		if s.r.Bool() {
			return E("time", append(attrs, Attr{"datetime", vh.Pick(s.r, mdWords)}), T("t"))
		}
		return E("time", attrs, T(lex))
	case 10:
		return E("area", append(attrs, Attr{"href", u}))
	case 11:
		return E("a", attrs, T("no href"))
	case 12:
		rs := []rune(lex)
		return E("div", attrs, T(string(rs[:len(rs)/2])), E("b", nil, T(string(rs[len(rs)/2:]))))
	default:
		return E("span", attrs, T(lex))
	}
}

func (s *soup) mdItem(depth int, ids *[]string, asProp bool) *Node {
	attrs := []Attr{{"itemscope", ""}}
	if asProp {
		attrs = append(attrs, Attr{"itemprop", vh.Pick(s.r, mdNames)})
	}
	if s.r.Chance(35) {
		if s.base == "" {
			attrs = append(attrs, Attr{"itemid", vh.Pick(s.r, absIRIs)})
		} else {
			attrs = append(attrs, Attr{"itemid", strings.TrimSpace(s.hrefVal())})
		}
	}
	if s.r.Chance(45) {
		ty := vh.Pick(s.r, mdTypes)
		if s.r.Chance(25) {
			ty += " " + vh.Pick(s.r, mdTypes)
		}
		attrs = append(attrs, Attr{"itemtype", ty})
	}
	n := &Node{Tag: vh.Pick(s.r, []string{"div", "span", "section"}), Attrs: attrs}
	k := 1 + s.r.Intn(3)
	for i := 0; i < k; i++ {
		switch {
		case depth < 2 && s.r.Chance(25):
			n.Kids = append(n.Kids, s.mdItem(depth+1, ids, s.r.Chance(85)))
		case s.r.Chance(20):
			n.Kids = append(n.Kids, E("div", nil, T("wrap "), s.mdLeaf(ids)))
		default:
			n.Kids = append(n.Kids, s.mdLeaf(ids))
		}
	}
	return n
}

// mdDoc: items (possibly nested) and, at body level, reference targets: property elements and property items with
// an id, which the items outside them may name in itemref (several items may share a target; a target may come
// before or after its referrers). Targets carry no itemref themselves, so the item graph has no cycles and no
// element is reached twice by one crawl: the documents are valid Microdata.
func setAttr(n *Node, name, val string) {
	for i := range n.Attrs {
		if n.Attrs[i].Name == name {
			n.Attrs[i].Val = val
			return
		}
	}
	n.Attrs = append(n.Attrs, Attr{name, val})
}

// firstID: the id of the node or of the first descendant that has one
func firstID(n *Node) string {
	if n.Text != nil {
		return ""
	}
	if id, ok := n.Attr("id"); ok {
		return id
	}
	for _, c := range n.Kids {
		if id := firstID(c); id != "" {
			return id
		}
	}
	return ""
}

func hasItem(n *Node) bool {
	if n.Text != nil {
		return false
	}
	if _, ok := n.Attr("itemscope"); ok {
		return true
	}
	for _, c := range n.Kids {
		if hasItem(c) {
			return true
		}
	}
	return false
}

func (s *soup) mdDoc() *Node {
	var ids []string
	var body []*Node
	var referrers []*Node
	var targets []*Node
	// ids all of whose carriers contain no item ("plain" targets: property elements, possibly wrapped)
	notPlain := map[string]bool{}
	k := 1 + s.r.Intn(4)
	for i := 0; i < k; i++ {
		if s.r.Chance(40) {
			var t *Node
			if s.r.Chance(50) {
				t = s.mdLeaf(&ids)
				if s.r.Chance(30) {
					t = E("div", nil, T("block "), t, s.mdLeaf(&ids))
				}
			} else {
				t = s.mdItem(1, &ids, s.r.Chance(90))
			}
			id := fmt.Sprintf("t%d", len(ids))
			if s.r.Chance(10) && len(ids) > 0 {
				id = ids[0] // a duplicate id: the first element in tree order wins
			}
			ids = append(ids, id)
			if s.r.Chance(35) {
				// the id on a wrapper around the target (an item inside it is then reached by descending)
				t = E("div", []Attr{{"id", id}}, T("around "), t)
			} else {
				t.Attrs = append(t.Attrs, Attr{"id", id})
				if s.r.Chance(30) {
					t = E("div", nil, T("around "), t)
				}
			}
			if hasItem(t) {
				notPlain[id] = true
			}
			targets = append(targets, t)
			body = append(body, t)
			continue
		}
		it := s.mdItem(0, &ids, false)
		referrers = append(referrers, it)
		body = append(body, it)
	}
	for i := len(body) - 1; i > 0; i-- {
		j := s.r.Intn(i + 1)
		body[i], body[j] = body[j], body[i]
	}
	var plain []string
	for _, id := range ids {
		if !notPlain[id] {
			plain = append(plain, id)
		}
	}
	var items []*Node
	var walk func(n *Node)
	walk = func(n *Node) {
		if n.Text != nil {
			return
		}
		if _, ok := n.Attr("itemscope"); ok {
			items = append(items, n)
		}
		for _, c := range n.Kids {
			walk(c)
		}
	}
	refList := func(pool []string, withMissing bool) string {
		n := 1
		if s.r.Chance(45) {
			n = 2 + s.r.Intn(2)
		}
		var toks []string
		for i := 0; i < n; i++ {
			p := pool
			if withMissing && s.r.Chance(10) {
				p = append(append([]string{}, pool...), "missing")
			}
			toks = append(toks, vh.Pick(s.r, p))
		}
		out := toks[0]
		for _, t := range toks[1:] {
			out += vh.Pick(s.r, []string{" ", "  ", "\n", "\t"}) + t
		}
		return out
	}
	// items outside the targets may reference any target, in any order
	for _, b := range referrers {
		walk(b)
	}
	for _, it := range items {
		if len(ids) > 0 && s.r.Chance(50) {
			it.Attrs = append(it.Attrs, Attr{"itemref", refList(ids, true)})
		}
	}
	// items inside a target may reference plain targets only: no cycles, and the same plain block can be shared by an
	// item and by an item nested in another block that the first one references too
	items = nil
	for _, t := range targets {
		walk(t)
	}
	for _, it := range items {
		if len(plain) > 0 && s.r.Chance(50) {
			it.Attrs = append(it.Attrs, Attr{"itemref", refList(plain, false)})
		}
	}
	// the shared block: an outer item names a plain block and a block with a nested item (either order), and that
	// nested item names the same plain block
	if len(plain) > 0 && len(items) > 0 && len(referrers) > 0 && s.r.Chance(40) {
		nested := vh.Pick(s.r, items)
		var holder string
		for _, t := range targets {
			var in func(n *Node) bool
			in = func(n *Node) bool {
				if n == nested {
					return true
				}
				for _, c := range n.Kids {
					if c.Text == nil && in(c) {
						return true
					}
				}
				return false
			}
			if in(t) {
				holder = firstID(t)
			}
		}
		if holder != "" && notPlain[holder] {
			shared := vh.Pick(s.r, plain)
			setAttr(nested, "itemref", shared)
			outer := referrers[s.r.Intn(len(referrers))]
			if s.r.Bool() {
				setAttr(outer, "itemref", shared+" "+holder)
			} else {
				setAttr(outer, "itemref", holder+" "+shared)
			}
		}
	}
	// an isolated simple cycle of two or three body-level items, each the value of a property of the previous one
	// through itemref (its own id is on the item; nothing outside refers into the cycle). Every item's crawl is
	// error-free — the referenced item is not descended into — so the document is valid Microdata although the item
	// graph is cyclic; each item must stay one node.
	if s.r.Chance(25) {
		n := 2 + s.r.Intn(2)
		var cyc []*Node
		for i := 0; i < n; i++ {
			it := s.mdItem(2, &ids, true)
			setAttr(it, "id", fmt.Sprintf("c%d", i))
			ref := fmt.Sprintf("c%d", (i+1)%n)
			if len(plain) > 0 && s.r.Chance(30) {
				if s.r.Bool() {
					ref = vh.Pick(s.r, plain) + " " + ref
				} else {
					ref += " " + vh.Pick(s.r, plain)
				}
			}
			setAttr(it, "itemref", ref)
			cyc = append(cyc, it)
		}
		for _, it := range cyc {
			k := s.r.Intn(len(body) + 1)
			body = append(body[:k:k], append([]*Node{it}, body[k:]...)...)
		}
	}
	return E("html", nil, E("head", nil), E("body", nil, body...))
}

// ---------------------------------------------------------------- known-finding classes

// rdfaPreds: classes of listed findings the document falls into.
func rdfaPreds(doc *Node, base string) []string {
	var out []string
	seen := map[string]bool{}
	add := func(p string) {
		if !seen[p] {
			seen[p] = true
			out = append(out, p)
		}
	}
	var walk func(n *Node)
	walk = func(n *Node) {
		if n.Text != nil {
			return
		}
		for _, a := range n.Attrs {
			switch a.Name {
			case "about", "resource", "href", "src":
				v := a.Val
				if strings.HasPrefix(v, "[") && strings.HasSuffix(v, "]") {
					continue
				}
				if i := strings.IndexByte(v, ':'); i >= 0 && strings.ContainsAny(v[:i], "/?#") {
					add("rdfa-relative-reference-with-colon")
				}
			}
		}
		_, hasProp := n.Attr("property")
		_, hasRel := n.Attr("rel")
		_, hasIn := n.Attr("inlist")
		if hasProp && hasRel && hasIn {
			add("rdfa-inlist-rel-and-property")
		}
		for _, c := range n.Kids {
			walk(c)
		}
	}
	walk(doc)
	return out
}

// mdPreds: an item element that the decoder reaches a second time (referenced by two items, or referenced by an
// item that comes later in document order, or referenced from inside itself).
func mdPreds(doc *Node) []string {
	type item struct {
		n    *Node
		ord  int
		refs []string
	}
	var items []item
	byID := map[string]int{} // id -> document order of the first element carrying it
	isItem := map[int]bool{}
	ord := 0
	var walk func(n *Node)
	walk = func(n *Node) {
		if n.Text != nil {
			return
		}
		ord++
		me := ord
		if id, ok := n.Attr("id"); ok {
			if _, dup := byID[id]; !dup {
				byID[id] = me
			}
		}
		if _, ok := n.Attr("itemscope"); ok {
			isItem[me] = true
			it := item{n: n, ord: me}
			if r, ok := n.Attr("itemref"); ok {
				it.refs = strings.Fields(r)
			}
			items = append(items, it)
		}
		for _, c := range n.Kids {
			walk(c)
		}
	}
	walk(doc)
	count := map[int]int{}
	hit := false
	for _, it := range items {
		for _, r := range it.refs {
			if o, ok := byID[r]; ok {
				// the referenced element, or an item below it, is walked with the referrer as subject
				count[o]++
				if o < it.ord || count[o] > 1 {
					hit = true
				}
			}
		}
	}
	// conservative: any itemref into a subtree that contains an item counts when reached twice; nested reach
	// is covered by the same defect
	if hit {
		return []string{"microdata-item-reached-twice"}
	}
	return nil
}

// ---------------------------------------------------------------- replay

func (h *harness) replayOne(family, base, text string) {
	root, err := xhtml.Parse(strings.NewReader(text))
	if err != nil {
		fmt.Println("replay: html parse:", err)
		return
	}
	doc := fromDOM(findElem(root, "html"))
	var res decoded
	var line string
	switch {
	case strings.HasPrefix(family, "rdfa"):
		res = decodeRdfa(text, base, 0)
		line = "html.rdfa " + vh.XS(base) + " " + doc.Wire()
	case strings.HasPrefix(family, "md"):
		res = decodeMd(text, base, 0)
		line = "html.md " + vh.XS(base) + " " + doc.Wire()
	case family == "jsonld":
		res = decodeJsonld(text, base, 0)
	default:
		res = decodeAll(text, base, false)
	}
	if !h.quiet {
		fmt.Printf("replay %s base=%q\n  html: %s\n  go: %s err=%q panic=%q\n", family, base, text, showQuads(res.quads), res.err, res.panic)
	}
	h.rep.Eval(family+text, true)
	if line != "" && !*nomodel {
		ans, err := h.drv.Run([]string{line})
		if err == nil {
			if model, ok, err := parseDenoteAnswer(ans[0]); err == nil && ok {
				if !h.quiet {
					fmt.Printf("  model: %s\n", showQuads(newBnSpace().quads(model, "")))
				}
				var preds []string
				if strings.HasPrefix(family, "rdfa") {
					preds = rdfaPreds(doc, base)
				} else {
					preds = mdPreds(doc)
				}
				h.compare(family, base, text, res, nil, false, model, true, preds)
			} else {
				fmt.Println("  model:", ans[0], err)
			}
		}
	}
}

func (h *harness) replayFile(path string) {
	b, err := os.ReadFile(path)
	if err != nil {
		if h.quiet {
			return // no corpus file
		}
		fmt.Fprintln(os.Stderr, err)
		os.Exit(2)
	}
	var ops []string
	var rj struct {
		Violations    []vh.Case `json:"violations"`
		Disagreements []vh.Case `json:"disagreements"`
	}
	if json.Unmarshal(b, &rj) == nil && (len(rj.Violations) > 0 || len(rj.Disagreements) > 0) {
		for _, c := range append(rj.Violations, rj.Disagreements...) {
			ops = append(ops, c.Op)
		}
	} else {
		ops = strings.Split(strings.TrimSpace(string(b)), "\n")
	}
	for _, op := range ops {
		f := strings.Fields(op)
		if len(f) != 3 {
			continue
		}
		base, e1 := hex.DecodeString(f[1])
		text, e2 := hex.DecodeString(f[2])
		if e1 != nil || e2 != nil {
			continue
		}
		h.replayOne(f[0], string(base), string(text))
	}
}
