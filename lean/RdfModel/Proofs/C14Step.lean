/-
  C14 helper lemmas, part 2: every step extends the state (`Ext`) and preserves the invariant (`Inv`).
-/
import RdfModel.Proofs.C14Basic
namespace RdfModel.Proofs.C14
open RdfModel.BN RdfModel.C14

/-! ### `Ext` is a preorder -/

theorem Ext.refl (s : State) : Ext s s where
  dflt := Nat.le_refl _
  bnfs := fun _ c h => ⟨c, h, Nat.le_refl _⟩
  strfs := fun _ _ h => h
  int64s := fun _ p h => ⟨p, h, rfl, fun _ _ h => h⟩
  uuids := fun _ p h => ⟨p, h, rfl, fun _ _ h => h⟩
  mappers := fun _ p h => ⟨p, h, rfl, fun _ _ h => h⟩
  uuidPos := Nat.le_refl _

theorem Ext.trans {a b c : State} (h1 : Ext a b) (h2 : Ext b c) : Ext a c where
  dflt := Nat.le_trans h1.dflt h2.dflt
  bnfs := fun f x hx => by
    obtain ⟨y, hy, hxy⟩ := h1.bnfs f x hx
    obtain ⟨z, hz, hyz⟩ := h2.bnfs f y hy
    exact ⟨z, hz, Nat.le_trans hxy hyz⟩
  strfs := fun j x hx => h2.strfs j x (h1.strfs j x hx)
  int64s := fun i p hp => by
    obtain ⟨q, hq, hf, hk⟩ := h1.int64s i p hp
    obtain ⟨r, hr, hf', hk'⟩ := h2.int64s i q hq
    exact ⟨r, hr, hf'.trans hf, fun k v h => hk' k v (hk k v h)⟩
  uuids := fun i p hp => by
    obtain ⟨q, hq, hf, hk⟩ := h1.uuids i p hp
    obtain ⟨r, hr, hf', hk'⟩ := h2.uuids i q hq
    exact ⟨r, hr, hf'.trans hf, fun k v h => hk' k v (hk k v h)⟩
  mappers := fun i p hp => by
    obtain ⟨q, hq, hf, hk⟩ := h1.mappers i p hp
    obtain ⟨r, hr, hf', hk'⟩ := h2.mappers i q hq
    exact ⟨r, hr, hf'.trans hf, fun k v h => hk' k v (hk k v h)⟩
  uuidPos := Nat.le_trans h1.uuidPos h2.uuidPos

theorem issued_mono {s s' : State} (h : Ext s s') {id : Ident} (hi : Issued s id) : Issued s' id := by
  cases id with
  | bn f v =>
    obtain ⟨c, hc, hv⟩ := hi
    obtain ⟨c', hc', hcc⟩ := h.bnfs f c hc
    exact ⟨c', hc', Nat.le_trans hv hcc⟩
  | bnDefault v => exact Nat.le_trans hi h.dflt
  | bnString f v => trivial

theorem lt_length_of_getElem? {α : Type} {l : List α} {i : Nat} {x : α} (h : l[i]? = some x) : i < l.length :=
  (List.getElem?_eq_some_iff.mp h).1

theorem validFactory_mono {s s' : State} (h : Ext s s') {f : FactoryRef} (hv : validFactory s f = true) :
    validFactory s' f = true := by
  cases f with
  | dflt => rfl
  | bnf i =>
    simp [validFactory] at hv ⊢
    obtain ⟨c', hc', _⟩ := h.bnfs i s.bnfs[i] (by simp [hv])
    exact lt_length_of_getElem? hc'
  | strf j =>
    simp [validFactory] at hv ⊢
    have := h.strfs j s.strfs[j] (by simp [hv])
    exact lt_length_of_getElem? this

/-- appending to a list keeps the existing entries -/
theorem getElem?_append_some {α : Type} {l : List α} {i : Nat} {x : α} (y : List α) (h : l[i]? = some x) :
    (l ++ y)[i]? = some x := by
  rw [List.getElem?_append_left (lt_length_of_getElem? h)]; exact h

/-! ### `fresh` -/

theorem ext_of_fresh {s s' : State} {f : FactoryRef} {id : Ident} (h : fresh s f = some (s', id)) : Ext s s' := by
  obtain ⟨h1, h2, h3, h4, h5, _, h7, h8, _, _⟩ := fresh_spec h
  exact {
    dflt := h7
    bnfs := h8
    strfs := fun j a ha => by rw [h1]; exact ha
    int64s := fun i p hp => ⟨p, by rw [h2]; exact hp, rfl, fun _ _ h => h⟩
    uuids := fun i p hp => ⟨p, by rw [h3]; exact hp, rfl, fun _ _ h => h⟩
    mappers := fun i p hp => ⟨p, by rw [h4]; exact hp, rfl, fun _ _ h => h⟩
    uuidPos := by rw [h5]; exact Nat.le_refl _ }

theorem inv_of_fresh {s s' : State} {f : FactoryRef} {id : Ident} (hI : Inv s) (h : fresh s f = some (s', id)) :
    Inv s' := by
  have hE := ext_of_fresh h
  obtain ⟨h1, h2, h3, h4, h5, h6, _, _, _, _⟩ := fresh_spec h
  exact {
    strfs_valid := fun j a ha => by rw [h1] at ha; rw [h6]; exact hI.strfs_valid j a ha
    mapper_factory := fun m mp hm => by rw [h4] at hm; exact validFactory_mono hE (hI.mapper_factory m mp hm)
    mapper_issued := fun m mp hm k v hk => by rw [h4] at hm; exact issued_mono hE (hI.mapper_issued m mp hm k v hk)
    mapper_inj := fun m mp hm => by rw [h4] at hm; exact hI.mapper_inj m mp hm
    int64_bound := fun i p hp => by rw [h2] at hp; exact hI.int64_bound i p hp
    int64_inj := fun i p hp => by rw [h2] at hp; exact hI.int64_inj i p hp
    uuid_bound := fun i p hp => by rw [h3] at hp; rw [h5]; exact hI.uuid_bound i p hp
    uuid_inj := fun i p hp => by rw [h3] at hp; exact hI.uuid_inj i p hp }

/-- under the invariant, a valid factory always delivers -/
theorem fresh_isSome {s : State} (hI : Inv s) {f : FactoryRef} (hv : validFactory s f = true) :
    ∃ s' id, fresh s f = some (s', id) := by
  cases f with
  | dflt => exact ⟨_, _, rfl⟩
  | bnf i =>
    simp [validFactory] at hv
    simp [fresh, List.getElem?_eq_getElem hv]
  | strf j =>
    simp [validFactory] at hv
    have ha := hI.strfs_valid j s.strfs[j] (by simp [hv])
    simp [fresh, List.getElem?_eq_getElem hv, List.getElem?_eq_getElem ha]

/-! ### `getLabel` -/

theorem getLabel_ext (U : Nat → Bytes) (s : State) (p : ProvRef) (n : Node) : Ext s (getLabel U s p n).1 := by
  induction p with
  | int64 i =>
    simp only [getLabel]
    split
    · exact Ext.refl s
    · rename_i pr hp
      split
      · exact Ext.refl s
      · rename_i hn
        refine { Ext.refl s with int64s := ?_ }
        intro i' p' hp'
        simp only [List.getElem?_set]
        by_cases hii : i = i'
        · subst hii
          rw [hp] at hp'; cases hp'
          simp [lt_length_of_getElem? hp]
          intro k v hk
          exact assoc_cons_of_none hn hk
        · simp [hii]; exact ⟨p', hp', rfl, fun _ _ h => h⟩
  | uuid i =>
    simp only [getLabel]
    split
    · exact Ext.refl s
    · rename_i pr hp
      split
      · exact Ext.refl s
      · rename_i hn
        refine { Ext.refl s with uuids := ?_, uuidPos := by simp }
        intro i' p' hp'
        simp only [List.getElem?_set]
        by_cases hii : i = i'
        · subst hii
          rw [hp] at hp'; cases hp'
          simp [lt_length_of_getElem? hp]
          intro k v hk
          exact assoc_cons_of_none hn hk
        · simp [hii]; exact ⟨p', hp', rfl, fun _ _ h => h⟩
  | pass scope fb ih =>
    simp only [getLabel]
    split
    · split
      · exact Ext.refl s
      · exact ih
    · exact ih

theorem getLabel_inv (U : Nat → Bytes) {s : State} (hI : Inv s) (p : ProvRef) (n : Node) :
    Inv (getLabel U s p n).1 := by
  induction p with
  | int64 i =>
    simp only [getLabel]
    split
    · exact hI
    · rename_i pr hp
      split
      · exact hI
      · rename_i hn
        have hlt := lt_length_of_getElem? hp
        refine { hI with int64_bound := ?_, int64_inj := ?_ }
        · intro i' p' hp' k v hk
          simp only [List.getElem?_set] at hp'
          by_cases hii : i = i'
          · subst hii
            simp [hlt] at hp'; subst hp'
            simp at hk ⊢
            rcases hk with ⟨_, rfl⟩ | hk
            · omega
            · have := hI.int64_bound i pr hp k v hk; omega
          · simp [hii] at hp'; exact hI.int64_bound i' p' hp' k v hk
        · intro i' p' hp' k k' v hk hk'
          simp only [List.getElem?_set] at hp'
          by_cases hii : i = i'
          · subst hii
            simp [hlt] at hp'; subst hp'
            simp at hk hk'
            rcases hk with ⟨rfl, rfl⟩ | hk <;> rcases hk' with ⟨rfl, hv⟩ | hk'
            · rfl
            · have := hI.int64_bound i pr hp k' _ hk'; omega
            · have := hI.int64_bound i pr hp k _ hk; omega
            · exact hI.int64_inj i pr hp k k' v hk hk'
          · simp [hii] at hp'; exact hI.int64_inj i' p' hp' k k' v hk hk'
  | uuid i =>
    simp only [getLabel]
    split
    · exact hI
    · rename_i pr hp
      split
      · exact hI
      · rename_i hn
        have hlt := lt_length_of_getElem? hp
        refine { hI with uuid_bound := ?_, uuid_inj := ?_ }
        · intro i' p' hp' k v hk
          simp only [List.getElem?_set] at hp'
          by_cases hii : i = i'
          · subst hii
            simp [hlt] at hp'; subst hp'
            simp at hk ⊢
            rcases hk with ⟨_, rfl⟩ | hk
            · omega
            · have := hI.uuid_bound i pr hp k v hk; omega
          · simp [hii] at hp'
            have := hI.uuid_bound i' p' hp' k v hk
            simp; omega
        · intro i' p' hp' k k' v hk hk'
          simp only [List.getElem?_set] at hp'
          by_cases hii : i = i'
          · subst hii
            simp [hlt] at hp'; subst hp'
            simp at hk hk'
            rcases hk with ⟨rfl, rfl⟩ | hk <;> rcases hk' with ⟨rfl, hv⟩ | hk'
            · rfl
            · have := hI.uuid_bound i pr hp k' _ hk'; omega
            · have := hI.uuid_bound i pr hp k _ hk; omega
            · exact hI.uuid_inj i pr hp k k' v hk hk'
          · simp [hii] at hp'; exact hI.uuid_inj i' p' hp' k k' v hk hk'
  | pass scope fb ih =>
    simp only [getLabel]
    split
    · split
      · exact hI
      · exact ih
    · exact ih

/-! ### `mapNode` -/

theorem mapNode_ext (s : State) (m : Nat) (n : Node) : Ext s (mapNode s m n).1 := by
  simp only [mapNode]
  split
  · exact Ext.refl s
  · rename_i mp hm
    split
    · exact Ext.refl s
    · rename_i hn
      split
      · exact Ext.refl s
      · rename_i s' id hf
        have hE := ext_of_fresh hf
        have h4 : s'.mappers = s.mappers := (fresh_spec hf).2.2.2.1
        refine { hE with mappers := ?_ }
        intro i' p' hp'
        simp only [List.getElem?_set, h4]
        by_cases hii : m = i'
        · subst hii
          rw [hm] at hp'; cases hp'
          simp [lt_length_of_getElem? hm]
          intro k v hk
          exact assoc_cons_of_none hn hk
        · simp [hii]; exact ⟨p', hp', rfl, fun _ _ h => h⟩

theorem mapNode_inv {s : State} (hI : Inv s) (m : Nat) (n : Node) : Inv (mapNode s m n).1 := by
  simp only [mapNode]
  split
  · exact hI
  · rename_i mp hm
    split
    · exact hI
    · rename_i hn
      split
      · exact hI
      · rename_i s' id hf
        have hE := ext_of_fresh hf
        have hI' := inv_of_fresh hI hf
        obtain ⟨h1, h2, h3, h4, h5, h6, _, _, hni, hi'⟩ := fresh_spec hf
        have hlt : m < s.mappers.length := lt_length_of_getElem? hm
        have hE2 : Ext s' { s' with mappers := s'.mappers.set m { mp with known := (n, id) :: mp.known } } := by
          refine { Ext.refl s' with mappers := ?_ }
          intro i' p' hp'
          simp only [List.getElem?_set, h4]
          rw [h4] at hp'
          by_cases hii : m = i'
          · subst hii
            rw [hm] at hp'; cases hp'
            simp [hlt]
            intro k v hk
            exact assoc_cons_of_none hn hk
          · simp [hii]; exact ⟨p', hp', rfl, fun _ _ h => h⟩
        refine { hI' with mapper_factory := ?_, mapper_issued := ?_, mapper_inj := ?_ }
        · intro i' p' hp'
          simp only [List.getElem?_set, h4] at hp'
          by_cases hii : m = i'
          · subst hii
            simp [hlt] at hp'; subst hp'
            have := validFactory_mono hE (hI.mapper_factory m mp hm)
            simpa [validFactory] using this
          · simp [hii] at hp'
            have := validFactory_mono hE (hI.mapper_factory i' p' hp')
            simpa [validFactory] using this
        · intro i' p' hp' k v hk
          simp only [List.getElem?_set, h4] at hp'
          by_cases hii : m = i'
          · subst hii
            simp [hlt] at hp'; subst hp'
            simp at hk
            rcases hk with ⟨_, rfl⟩ | hk
            · exact issued_mono hE2 hi'
            · exact issued_mono hE2 (issued_mono hE (hI.mapper_issued m mp hm k v hk))
          · simp [hii] at hp'
            exact issued_mono hE2 (issued_mono hE (hI.mapper_issued i' p' hp' k v hk))
        · intro i' p' hp' k k' v hk hk'
          simp only [List.getElem?_set, h4] at hp'
          by_cases hii : m = i'
          · subst hii
            simp [hlt] at hp'; subst hp'
            simp at hk hk'
            rcases hk with ⟨rfl, rfl⟩ | hk <;> rcases hk' with ⟨rfl, hv⟩ | hk'
            · rfl
            · exact absurd (hI.mapper_issued m mp hm k' _ hk') hni
            · subst hv; exact absurd (hI.mapper_issued m mp hm k _ hk) hni
            · exact hI.mapper_inj m mp hm k k' v hk hk'
          · simp [hii] at hp'; exact hI.mapper_inj i' p' hp' k k' v hk hk'

/-! ### `step` -/

theorem step_ext (U : Nat → Bytes) (s : State) (op : Op) : Ext s (step U s op).1 := by
  cases op with
  | newFactory =>
    exact { Ext.refl s with bnfs := fun f c h => ⟨c, getElem?_append_some _ h, Nat.le_refl _⟩ }
  | newStringFactory =>
    exact { Ext.refl s with
      bnfs := fun f c h => ⟨c, getElem?_append_some _ h, Nat.le_refl _⟩
      strfs := fun j a h => getElem?_append_some _ h }
  | newBlankNode f =>
    simp only [step]
    split
    · rename_i s' id hf; exact ext_of_fresh hf
    · exact Ext.refl s
  | newStringBlankNode j l =>
    simp only [step]
    split
    · split
      · split
        · rename_i s' id hf; exact ext_of_fresh hf
        · exact Ext.refl s
      · exact Ext.refl s
    · exact Ext.refl s
  | newInt64Provider fmt =>
    exact { Ext.refl s with int64s := fun i p h => ⟨p, getElem?_append_some _ h, rfl, fun _ _ h => h⟩ }
  | newUUIDProvider fmt =>
    exact { Ext.refl s with uuids := fun i p h => ⟨p, getElem?_append_some _ h, rfl, fun _ _ h => h⟩ }
  | getStringProvider j fb =>
    simp only [step]; split <;> exact Ext.refl s
  | getLabel p n => exact getLabel_ext U s p n
  | newMapper f =>
    simp only [step]
    split
    · exact { Ext.refl s with mappers := fun i p h => ⟨p, getElem?_append_some _ h, rfl, fun _ _ h => h⟩ }
    · exact Ext.refl s
  | mapNode m n => exact mapNode_ext s m n
  | propagate h =>
    simp only [step]
    split
    · split
      · exact { Ext.refl s with uuids := fun i p h => ⟨p, getElem?_append_some _ h, rfl, fun _ _ h => h⟩ }
      · exact Ext.refl s
    · split <;> exact Ext.refl s
    · exact Ext.refl s
  | termEquals a b => exact Ext.refl s

/-- appending an element: an entry of the longer list is an old one or the new one -/
theorem getElem?_append_singleton_cases {α : Type} {l : List α} {y x : α} {i : Nat}
    (h : (l ++ [y])[i]? = some x) : l[i]? = some x ∨ (i = l.length ∧ x = y) := by
  rw [List.getElem?_append] at h
  split at h
  · exact Or.inl h
  · rename_i hlt
    right
    cases hi : i - l.length with
    | zero => rw [hi] at h; simp at h; exact ⟨by omega, h.symm⟩
    | succ k => rw [hi] at h; simp at h

theorem step_inv (U : Nat → Bytes) {s : State} (hI : Inv s) (op : Op) : Inv (step U s op).1 := by
  have hE := step_ext U s op
  cases op with
  | newFactory =>
    simp only [step] at hE ⊢
    exact { hI with
      strfs_valid := fun j a h => by
        have := hI.strfs_valid j a h; simp; omega
      mapper_factory := fun m mp h => validFactory_mono hE (hI.mapper_factory m mp h)
      mapper_issued := fun m mp h k v hk => issued_mono hE (hI.mapper_issued m mp h k v hk) }
  | newStringFactory =>
    simp only [step] at hE ⊢
    exact { hI with
      strfs_valid := fun j a h => by
        simp at h ⊢
        rcases getElem?_append_singleton_cases h with h | ⟨_, rfl⟩
        · have := hI.strfs_valid j a h; omega
        · omega
      mapper_factory := fun m mp h => validFactory_mono hE (hI.mapper_factory m mp h)
      mapper_issued := fun m mp h k v hk => issued_mono hE (hI.mapper_issued m mp h k v hk) }
  | newBlankNode f =>
    simp only [step]
    split
    · rename_i s' id hf; exact inv_of_fresh hI hf
    · exact hI
  | newStringBlankNode j l =>
    simp only [step]
    split
    · split
      · split
        · rename_i s' id hf; exact inv_of_fresh hI hf
        · exact hI
      · exact hI
    · exact hI
  | newInt64Provider fmt =>
    simp only [step] at hE ⊢
    exact { hI with
      mapper_factory := fun m mp h => hI.mapper_factory m mp h
      mapper_issued := fun m mp h k v hk => hI.mapper_issued m mp h k v hk
      int64_bound := fun i p h k v hk => by
        rcases getElem?_append_singleton_cases h with h | ⟨_, rfl⟩
        · exact hI.int64_bound i p h k v hk
        · simp at hk
      int64_inj := fun i p h k k' v hk hk' => by
        rcases getElem?_append_singleton_cases h with h | ⟨_, rfl⟩
        · exact hI.int64_inj i p h k k' v hk hk'
        · simp at hk }
  | newUUIDProvider fmt =>
    simp only [step] at hE ⊢
    exact { hI with
      mapper_factory := fun m mp h => hI.mapper_factory m mp h
      mapper_issued := fun m mp h k v hk => hI.mapper_issued m mp h k v hk
      uuid_bound := fun i p h k v hk => by
        rcases getElem?_append_singleton_cases h with h | ⟨_, rfl⟩
        · exact hI.uuid_bound i p h k v hk
        · simp at hk
      uuid_inj := fun i p h k k' v hk hk' => by
        rcases getElem?_append_singleton_cases h with h | ⟨_, rfl⟩
        · exact hI.uuid_inj i p h k k' v hk hk'
        · simp at hk }
  | getStringProvider j fb =>
    simp only [step]; split <;> exact hI
  | getLabel p n => exact getLabel_inv U hI p n
  | newMapper f =>
    simp only [step] at hE ⊢
    split
    · rename_i hv
      exact { hI with
        mapper_factory := fun m mp h => by
          rcases getElem?_append_singleton_cases h with h | ⟨_, rfl⟩
          · exact hI.mapper_factory m mp h
          · exact hv
        mapper_issued := fun m mp h k v hk => by
          rcases getElem?_append_singleton_cases h with h | ⟨_, rfl⟩
          · exact hI.mapper_issued m mp h k v hk
          · simp at hk
        mapper_inj := fun m mp h k k' v hk hk' => by
          rcases getElem?_append_singleton_cases h with h | ⟨_, rfl⟩
          · exact hI.mapper_inj m mp h k k' v hk hk'
          · simp at hk }
    · exact hI
  | mapNode m n => exact mapNode_inv hI m n
  | propagate h =>
    simp only [step]
    split
    · split
      · exact { hI with
          mapper_factory := fun m mp h => hI.mapper_factory m mp h
          mapper_issued := fun m mp h k v hk => hI.mapper_issued m mp h k v hk
          uuid_bound := fun i p h k v hk => by
            rcases getElem?_append_singleton_cases h with h | ⟨_, rfl⟩
            · exact hI.uuid_bound i p h k v hk
            · simp at hk
          uuid_inj := fun i p h k k' v hk hk' => by
            rcases getElem?_append_singleton_cases h with h | ⟨_, rfl⟩
            · exact hI.uuid_inj i p h k k' v hk hk'
            · simp at hk }
      · exact hI
    · split <;> exact hI
    · exact hI
  | termEquals a b => exact hI

theorem inv_init (d : Nat) : Inv (init d) := by
  constructor <;> intros <;> simp_all [init]

end RdfModel.Proofs.C14
