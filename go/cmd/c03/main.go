// Command c03: harness of property C03 (canonical form depends only on the dataset). See cmd/canonlib.
package main

import "verifharness/cmd/canonlib"

func main() { canonlib.Main("C03") }
