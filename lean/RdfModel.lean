-- Root of the `RdfModel` library: imports every module so `lake build` checks everything.
import RdfModel.Model.Rune
