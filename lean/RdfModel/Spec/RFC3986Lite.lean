/-
  RdfModel.Spec.RFC3986Lite — RFC 3986 reference resolution on byte strings, written from the
  standard (Appendix B split, §5.2.2 transform, §5.2.3 merge, §5.2.4 remove_dot_segments, §5.3
  recomposition). Used by property C13 as the definition of "expanding a relative reference in the
  context of a base". Core-only, executable, total. (Property C12 owns the full `Spec.RFC3986`; this
  file is the self-contained subset C13 needs and lives in its own namespace.)

  Strings are lists of bytes (`Nat` < 256); all delimiters are ASCII, so the functions are equally
  valid on code points.
-/
namespace RdfModel.Spec.RFC3986Lite

abbrev Str := List Nat

/-- `:` `/` `?` `#` -/
def cColon : Nat := 0x3a
def cSlash : Nat := 0x2f
def cQuest : Nat := 0x3f
def cHash : Nat := 0x23
def cDot : Nat := 0x2e

/-- The five components of Appendix B; `none` = undefined, `some []` = defined and empty. -/
structure Parts where
  scheme : Option Str
  authority : Option Str
  path : Str
  query : Option Str
  fragment : Option Str
deriving DecidableEq, Repr

/-- characters that end a scheme candidate: `[^:/?#]+` -/
def schemeStop (c : Nat) : Bool := c == cColon || c == cSlash || c == cQuest || c == cHash
/-- characters that end an authority: `[^/?#]*` -/
def authStop (c : Nat) : Bool := c == cSlash || c == cQuest || c == cHash
/-- characters that end a path: `[^?#]*` -/
def pathStop (c : Nat) : Bool := c == cQuest || c == cHash
/-- characters that end a query: `[^#]*` -/
def queryStop (c : Nat) : Bool := c == cHash

/-- longest prefix free of stop characters -/
def upTo (stop : Nat → Bool) (s : Str) : Str := s.takeWhile (fun c => !stop c)
/-- what follows it -/
def from_ (stop : Nat → Bool) (s : Str) : Str := s.dropWhile (fun c => !stop c)

/-- `^(([^:/?#]+):)?` -/
def splitScheme (s : Str) : Option Str × Str :=
  match upTo schemeStop s, from_ schemeStop s with
  | [], _ => (none, s)
  | c :: cs, d :: rest => if d = cColon then (some (c :: cs), rest) else (none, s)
  | _ :: _, [] => (none, s)

/-- `(//([^/?#]*))?` -/
def splitAuthority (s : Str) : Option Str × Str :=
  match s with
  | a :: b :: rest => if a = cSlash ∧ b = cSlash then (some (upTo authStop rest), from_ authStop rest) else (none, s)
  | _ => (none, s)

/-- `(\?([^#]*))?` -/
def splitQuery (s : Str) : Option Str × Str :=
  match s with
  | a :: rest => if a = cQuest then (some (upTo queryStop rest), from_ queryStop rest) else (none, s)
  | [] => (none, s)

/-- `(#(.*))?` -/
def splitFragment (s : Str) : Option Str :=
  match s with
  | a :: rest => if a = cHash then some rest else none
  | [] => none

/-- Appendix B: `^(([^:/?#]+):)?(//([^/?#]*))?([^?#]*)(\?([^#]*))?(#(.*))?` -/
def split (s : Str) : Parts :=
  let (scheme, s1) := splitScheme s
  let (authority, s2) := splitAuthority s1
  let path := upTo pathStop s2
  let (query, s4) := splitQuery (from_ pathStop s2)
  { scheme, authority, path, query, fragment := splitFragment s4 }

/-- `scheme ":"` if defined -/
def schemePart : Option Str → Str
  | some s => s ++ [cColon]
  | none => []
/-- `"//" authority` if defined -/
def authorityPart : Option Str → Str
  | some a => [cSlash, cSlash] ++ a
  | none => []
/-- `"?" query` if defined -/
def queryPart : Option Str → Str
  | some q => cQuest :: q
  | none => []
/-- `"#" fragment` if defined -/
def fragmentPart : Option Str → Str
  | some f => cHash :: f
  | none => []

/-- §5.3 component recomposition -/
def recompose (p : Parts) : Str :=
  schemePart p.scheme ++ authorityPart p.authority ++ p.path ++ queryPart p.query ++ fragmentPart p.fragment

/-- the text of `s` up to and including its last `/` (empty when there is none) -/
def dirOf (s : Str) : Str := (s.reverse.dropWhile (fun c => c != cSlash)).reverse

/-- §5.2.3 merge -/
def merge (baseHasAuthority : Bool) (basePath ref : Str) : Str :=
  if baseHasAuthority ∧ basePath = [] then cSlash :: ref else dirOf basePath ++ ref

/-- remove the last segment and its preceding `/` (if any) from the output buffer -/
def popSegment (out : Str) : Str :=
  (out.reverse.dropWhile (fun c => c != cSlash)).drop 1 |>.reverse

/-- first path segment of the input including its initial `/` (if any), and the remainder -/
def firstSegment : Str → Str × Str
  | [] => ([], [])
  | c :: cs => (c :: upTo (fun x => x == cSlash) cs, from_ (fun x => x == cSlash) cs)

/-- §5.2.4 steps 2A–2E on a non-empty input buffer: new input buffer and output buffer -/
def rdsStep (inp out : Str) : Str × Str :=
  -- A: "../" or "./" prefix: remove it
  if [cDot, cDot, cSlash].isPrefixOf inp then (inp.drop 3, out)
  else if [cDot, cSlash].isPrefixOf inp then (inp.drop 2, out)
  -- B: "/./" prefix, or "/." complete: replace by "/"
  else if [cSlash, cDot, cSlash].isPrefixOf inp then (inp.drop 2, out)
  else if inp = [cSlash, cDot] then ([cSlash], out)
  -- C: "/../" prefix, or "/.." complete: replace by "/" and remove the last output segment
  else if [cSlash, cDot, cDot, cSlash].isPrefixOf inp then (inp.drop 3, popSegment out)
  else if inp = [cSlash, cDot, cDot] then ([cSlash], popSegment out)
  -- D: "." or ".." complete: remove it
  else if inp = [cDot] ∨ inp = [cDot, cDot] then ([], out)
  -- E: move the first path segment to the output
  else ((firstSegment inp).2, out ++ (firstSegment inp).1)

/-- the loop of §5.2.4 ("while the input buffer is not empty"), one iteration per unit of fuel -/
def rdsLoop : Nat → Str → Str → Str
  | 0, _, out => out
  | n + 1, inp, out =>
    if inp = [] then out else rdsLoop n (rdsStep inp out).1 (rdsStep inp out).2

/-- §5.2.4 remove_dot_segments -/
def removeDotSegments (p : Str) : Str := rdsLoop p.length p []

/-- §5.2.2 transform references (strict) -/
def transform (b r : Parts) : Parts :=
  match r.scheme with
  | some _ => { r with path := removeDotSegments r.path }
  | none =>
    match r.authority with
    | some _ => { r with scheme := b.scheme, path := removeDotSegments r.path }
    | none =>
      if r.path = [] then
        { scheme := b.scheme, authority := b.authority, path := b.path,
          query := (match r.query with | some q => some q | none => b.query), fragment := r.fragment }
      else if r.path.head? = some cSlash then
        { scheme := b.scheme, authority := b.authority, path := removeDotSegments r.path,
          query := r.query, fragment := r.fragment }
      else
        { scheme := b.scheme, authority := b.authority,
          path := removeDotSegments (merge b.authority.isSome b.path r.path),
          query := r.query, fragment := r.fragment }

/-- resolve the reference `r` against the base `b` (§5.2), strings in, string out -/
def resolve (b r : Str) : Str := recompose (transform (split b) (split r))

end RdfModel.Spec.RFC3986Lite
