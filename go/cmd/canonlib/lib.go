// Package canonlib is the harness of properties C03 and C04 (RDFC-1.0 canonicalization,
// /repo/rdfcanon). cmd/c03 and cmd/c04 are thin mains around Main.
//
// Ties and oracles
//
//	T3   rdfcanon.Canonicalize  vs  Model.Rdfcanon.canon (driver op canon.runs): canonical bytes, issued map,
//	     original indices, limit errors. Go's map iteration order cannot be dictated: byte equality is required
//	     when the model's output is the same under 8 sampled order parameters; otherwise Go must equal the model
//	     under one of the sampled orders (72 after escalation).
//	C04  Go output = Spec.RDFC10 output (driver op canon.specs) wherever the spec is order-insensitive over the
//	     sampled orders; both readings of "a quad naming the same blank node twice" are accepted; the 64
//	     published W3C vectors (+21 map tests, +1 negative test) always; Go literal writer = Spec.literal.
//	     TESTS (labelled, not proofs): Spec.RDFC10 reproduces the 64 vectors; Model.Sha2 = crypto/sha256|sha512.
//	C03  16 relabel x permute variants through Go are byte-identical unless the spec reports order
//	     sensitivity (a non-automorphic tie); one-edge-flipped non-isomorphic variants differ; the output parses
//	     back to an isomorphic dataset; lines sorted and unique; issued map and original indices describe the
//	     renaming applied.
//
// Generator families aimed at step 5 of the canonicalization algorithm (tie groups processed in hash order):
// `components` (chains, stars, cycles, separate edges over ONE predicate of predPool) and `tiedUnion` (rings,
// prisms, bidirectional cliques with a leaf on every node + separate edges/chains, predicates per component)
// build datasets WITHOUT uniquely hashed nodes in which a tie group contains nodes already labelled through an
// earlier group's hash paths next to unlabelled ones; each of them is also run 6 times unchanged (only Go's
// map order differs) and as a deterministic corpus over all 20 pool predicates (the group order is a function
// of the IRIs). Failures carry the generator shape in their detail and in the histogram (`violation-shape:`).
//
// tied.go adds the families aimed at the inner loops of Hash N-Degree Quads step 5.4 (`tied-children`,
// `shared-groups`, `sparse-big`), the `long-lines` family, their deterministic corpus (with two pinned RDFC-1.0
// documents) and the WriteTo oracle (serialized bytes = iterator lines, count, failing writers); they draw from
// their own random stream after everything else, so the streams of the older families are unchanged.
package canonlib

import (
	"archive/tar"
	"bytes"
	"compress/gzip"
	"context"
	"crypto/sha256"
	"crypto/sha512"
	"encoding/hex"
	"encoding/json"
	"errors"
	"flag"
	"fmt"
	"hash"
	"io"
	"os"
	"path/filepath"
	"sort"
	"strings"

	"verifharness/vh"

	"github.com/dpb587/rdfkit-go/encoding/nquads"
	"github.com/dpb587/rdfkit-go/rdf"
	"github.com/dpb587/rdfkit-go/rdf/blanknodes"
	"github.com/dpb587/rdfkit-go/rdf/quads"
	"github.com/dpb587/rdfkit-go/rdfcanon"
)

var (
	tier     = flag.String("tier", "quick", "quick|thorough")
	driver   = flag.String("driver", "/verif/lean/.lake/build/bin/driver", "lean driver binary")
	out      = flag.String("out", "", "report path")
	findings = flag.String("findings", "/verif/known-findings.json", "known findings")
	replay   = flag.String("replay", "", "replay file (protocol lines `canon.runs <hash> <n> <quads…>`)")
	scale    = flag.Int("scale", 1, "multiply generated case counts (search mode uses 10)")
	nomodel  = flag.Bool("nomodel", false, "property oracle on the implementation only")
	hints    = flag.String("hints", "", "file of protocol lines that disagreed; pushed through the oracle first")
	repoFlag = flag.String("repo", "", "repository root (default $VERIF_REPO or /repo): location of the W3C test archive")
	families = flag.String("families", "", "development aid: comma-separated subset of the inner-loop families (corpus,tied-children,shared-groups,sparse-big,long-lines) and `base` for everything else; empty = all")
)

// ---------------------------------------------------------------- hashes

type truncHash struct {
	hash.Hash
	n int
}

func (t truncHash) Sum(b []byte) []byte { return append(b, t.Hash.Sum(nil)[:t.n]...) }
func (t truncHash) Size() int           { return t.n }

func hashFunc(name string) func() hash.Hash {
	switch name {
	case "sha256":
		return sha256.New
	case "sha384":
		return sha512.New384
	case "test8":
		return func() hash.Hash { return truncHash{sha256.New(), 4} }
	case "test2":
		return func() hash.Hash { return truncHash{sha256.New(), 1} }
	}
	panic("unknown hash " + name)
}

// ---------------------------------------------------------------- option lists

// optSpec is one CanonicalizeOption value: which setters were called on it (-1 = not called).
// hash: index into a list of hash functions; prov: index into a list of providers; build: 0/1.
type optSpec struct{ hash, prov, build int }

// splitOpts spreads an intended configuration (hash >= 0 always set; prov/build may be -1 = leave the
// default) over 1..3 option values, with overridden earlier settings and option values that set nothing
// or only other fields AFTER the one that matters, so that the merge logic of Canonicalize
// (CanonicalizeConfig.apply: last set wins per field) is exercised.
func splitOpts(r *vh.Rng, hash, prov, build, nHash, nProv int) []optSpec {
	n := 1 + r.Intn(3)
	os := make([]optSpec, n)
	for i := range os {
		os[i] = optSpec{-1, -1, -1}
	}
	place := func(val, alts int, set func(o *optSpec, v int)) {
		if val < 0 {
			return
		}
		k := r.Intn(n)
		set(&os[k], val)
		for i := 0; i < k; i++ { // earlier, overridden values
			if r.Bool() && alts > 1 {
				set(&os[i], (val+1+r.Intn(alts-1))%alts)
			}
		}
	}
	place(hash, nHash, func(o *optSpec, v int) { o.hash = v })
	place(prov, nProv, func(o *optSpec, v int) { o.prov = v })
	place(build, 2, func(o *optSpec, v int) { o.build = v })
	return os
}

func wireOpts(os []optSpec) string {
	d := func(v int) string {
		if v < 0 {
			return "-"
		}
		return fmt.Sprint(v)
	}
	var sb strings.Builder
	for _, o := range os {
		sb.WriteString("h" + d(o.hash) + "p" + d(o.prov) + "b" + d(o.build) + ";")
	}
	return sb.String()
}

// canonOptions builds the real option values.
func canonOptions(os []optSpec, hashes []func() hash.Hash, provs []blanknodes.StringProvider) []rdfcanon.CanonicalizeOption {
	var res []rdfcanon.CanonicalizeOption
	for _, o := range os {
		c := rdfcanon.CanonicalizeConfig{}
		// setters in random-looking but fixed order; each returns a copy
		if o.build >= 0 {
			c = c.SetBuildCanonicalQuad(o.build == 1)
		}
		if o.hash >= 0 {
			c = c.SetHashFunc(hashes[o.hash])
		}
		if o.prov >= 0 {
			c = c.SetBlankNodeStringProvider(provs[o.prov])
		}
		res = append(res, c)
	}
	return res
}

type prefixProv struct {
	pfx  string
	base blanknodes.StringProvider
}

func (p prefixProv) GetBlankNodeString(bn rdf.BlankNode) string {
	return p.pfx + p.base.GetBlankNodeString(bn)
}

// goEffectiveOpts observes the configuration Canonicalize actually runs with: which hash function is
// called (marker), which provider names the blank node (prefix), whether canonical quads were built.
func goEffectiveOpts(os []optSpec) (res string) {
	defer func() {
		if p := recover(); p != nil {
			res = fmt.Sprintf("panic:%v", p)
		}
	}()
	used := make([]bool, 10)
	hashes := make([]func() hash.Hash, 10)
	for i := range hashes {
		i := i
		hashes[i] = func() hash.Hash { used[i] = true; return sha256.New() }
	}
	provs := make([]blanknodes.StringProvider, 10)
	for i := range provs {
		provs[i] = prefixProv{fmt.Sprintf("p%d-", i), blanknodes.NewInt64StringProvider("n%d")}
	}
	b := rdf.NewBlankNode()
	qs := rdf.QuadList{{Triple: rdf.Triple{Subject: b, Predicate: rdf.IRI("a:p"), Object: rdf.IRI("a:o")}}}
	c, err := rdfcanon.Canonicalize(context.Background(), quads.NewIterator(qs), canonOptions(os, hashes, provs)...)
	if err != nil {
		return "error:" + err.Error()
	}
	h := "-"
	for i, u := range used {
		if u {
			if h != "-" {
				return "two hash functions used"
			}
			h = fmt.Sprint(i)
		}
	}
	p := "-"
	if id := c.GetBlankNodeIdentifier(b); strings.HasPrefix(id, "p") && len(id) > 2 {
		p = id[1:2]
	} else if id != "c14n0" {
		return "unexpected identifier " + id
	}
	built := "1"
	func() {
		defer func() {
			if recover() != nil {
				built = "0"
			}
		}()
		c.AsQuads()
	}()
	return "h" + h + " p" + p + " b" + built
}

func (h *harness) optsCases(n int) {
	for i := 0; i < n; i++ {
		os := splitOpts(h.r, h.r.Intn(4)-1, h.r.Intn(4)-1, h.r.Intn(3)-1, 3, 3)
		if h.r.Chance(30) { // fully random option values
			for k := range os {
				os[k] = optSpec{h.r.Intn(4) - 1, h.r.Intn(4) - 1, h.r.Intn(3) - 1}
			}
		}
		line := "canon.opts " + wireOpts(os)
		goR := goEffectiveOpts(os)
		h.rep.Eval(line, len(os) > 1)
		h.rep.Count("op:opts")
		h.ask(line, func(res string) {
			if res != goR {
				h.disagreement(line, goR, res, "T3: effective configuration of Canonicalize(options...) differs from Model.Rdfcanon.compileOpts (last set wins per field)")
				if strings.HasPrefix(goR, "h") && strings.HasPrefix(res, "h") && strings.Fields(goR)[0] != strings.Fields(res)[0] {
					h.violation(line, "C04: the substituted hash function is not the one Canonicalize runs with: go="+goR+" expected="+res)
				}
			}
		})
	}
	// the shape of the seeded regression, always: hash first, then option values that do not mention it
	for _, os := range [][]optSpec{
		{{1, -1, -1}, {-1, -1, 1}}, {{1, -1, -1}, {-1, 0, -1}}, {{2, -1, -1}, {-1, -1, -1}}, {{-1, -1, 1}, {1, -1, -1}},
		{{0, 1, 0}, {1, -1, -1}, {-1, 2, 1}}, {{-1, -1, -1}}, {},
	} {
		line := "canon.opts " + wireOpts(os)
		if len(os) == 0 {
			line = "canon.opts ;"
		}
		goR := goEffectiveOpts(os)
		h.rep.Eval(line, true)
		h.rep.Count("op:opts")
		h.ask(line, func(res string) {
			if res != goR {
				h.disagreement(line, goR, res, "T3: effective configuration of Canonicalize(options...) differs from Model.Rdfcanon.compileOpts (last set wins per field)")
				h.violation(line, "C04: Canonicalize does not run with the configuration its options describe: go="+goR+" expected="+res)
			}
		})
	}
}

// ---------------------------------------------------------------- datasets

// dataset is a list of quads whose blank nodes carry labels (wire form and reporting).
type dataset struct {
	quads  []rdf.Quad
	labels map[rdf.BlankNodeIdentifier]string
}

func (d dataset) label(bn rdf.BlankNode) string { return d.labels[bn.Identifier] }

func (d dataset) wire() string {
	parts := make([]string, len(d.quads))
	for i, q := range d.quads {
		parts[i] = vh.QuadWire(q, d.label)
	}
	return strings.Join(parts, " ")
}

func fromG(qs []vh.GQuad, label func(int) string) dataset {
	tbl := vh.NewBNTable(label)
	d := dataset{labels: map[rdf.BlankNodeIdentifier]string{}}
	seen := map[string]bool{}
	for _, q := range qs {
		rq := tbl.Quad(q)
		for _, t := range []rdf.Term{rq.Triple.Subject, rq.Triple.Object, rq.GraphName} {
			if bn, ok := t.(rdf.BlankNode); ok {
				d.labels[bn.Identifier] = tbl.GetBlankNodeString(bn)
			}
		}
		k := vh.QuadWire(rq, d.label)
		if seen[k] {
			continue // the property is about duplicate-free sequences
		}
		seen[k] = true
		d.quads = append(d.quads, rq)
	}
	return d
}

func (d dataset) bnodes() []rdf.BlankNode {
	var res []rdf.BlankNode
	seen := map[rdf.BlankNodeIdentifier]bool{}
	for _, q := range d.quads {
		for _, t := range []rdf.Term{q.Triple.Subject, q.Triple.Object, q.GraphName} {
			if bn, ok := t.(rdf.BlankNode); ok && !seen[bn.Identifier] {
				seen[bn.Identifier] = true
				res = append(res, bn)
			}
		}
	}
	return res
}

// selfRef: some quad names the same blank node in two positions (the specification leaves the
// number of references open, see Spec.RDFC10 `twice`).
func (d dataset) selfRef() bool {
	for _, q := range d.quads {
		var ids []rdf.BlankNodeIdentifier
		for _, t := range []rdf.Term{q.Triple.Subject, q.Triple.Object, q.GraphName} {
			if bn, ok := t.(rdf.BlankNode); ok {
				for _, x := range ids {
					if x == bn.Identifier {
						return true
					}
				}
				ids = append(ids, bn.Identifier)
			}
		}
	}
	return false
}

// variant: fresh blank node identities, permuted labels, permuted quad order.
func (d dataset) variant(r *vh.Rng) dataset {
	f := rdf.NewBlankNodeFactory()
	bns := d.bnodes()
	perm := make([]int, len(bns))
	for i := range perm {
		perm[i] = i
	}
	for i := len(perm) - 1; i > 0; i-- {
		j := r.Intn(i + 1)
		perm[i], perm[j] = perm[j], perm[i]
	}
	m := map[rdf.BlankNodeIdentifier]rdf.BlankNode{}
	v := dataset{labels: map[rdf.BlankNodeIdentifier]string{}}
	for i, bn := range bns {
		nb := f.NewBlankNode()
		m[bn.Identifier] = nb
		v.labels[nb.Identifier] = d.label(bns[perm[i]])
	}
	mapT := func(t rdf.Term) rdf.Term {
		if bn, ok := t.(rdf.BlankNode); ok {
			return m[bn.Identifier]
		}
		return t
	}
	for _, q := range d.quads {
		nq := rdf.Quad{Triple: rdf.Triple{
			Subject:   mapT(q.Triple.Subject).(rdf.SubjectValue),
			Predicate: q.Triple.Predicate,
			Object:    mapT(q.Triple.Object).(rdf.ObjectValue),
		}}
		if q.GraphName != nil {
			nq.GraphName = mapT(q.GraphName).(rdf.GraphNameValue)
		}
		v.quads = append(v.quads, nq)
	}
	for i := len(v.quads) - 1; i > 0; i-- {
		j := r.Intn(i + 1)
		v.quads[i], v.quads[j] = v.quads[j], v.quads[i]
	}
	return v
}

// ---------------------------------------------------------------- implementation side

type goRes struct {
	line  string // same form as the driver's canon.runs entry
	bytes []byte
	c     *rdfcanon.Canonicalization
}

// optRng drives how goCanon spreads its configuration over option values (seeded in Main).
var optRng *vh.Rng

// canonOpts: the intended configuration (hash hashName, default provider, canonical quads on or off) spread
// over 1..3 option values; the other hash functions serve as overridden earlier settings.
func canonOpts(hashName string) []rdfcanon.CanonicalizeOption {
	names := []string{"sha256", "sha384", "test8", "test2"}
	hashes := make([]func() hash.Hash, len(names))
	want := 0
	for i, n := range names {
		hashes[i] = hashFunc(n)
		if n == hashName {
			want = i
		}
	}
	if optRng == nil {
		return []rdfcanon.CanonicalizeOption{rdfcanon.CanonicalizeConfig{}.SetHashFunc(hashes[want])}
	}
	if hashName == "sha256" && optRng.Chance(30) {
		want = -1 // leave the default
	}
	os := splitOpts(optRng, want, -1, optRng.Intn(3)-1, len(names), 1)
	if want < 0 && optRng.Chance(50) {
		os = nil
	}
	return canonOptions(os, hashes, nil)
}

func goCanon(hashName string, d dataset) (res goRes) {
	defer func() {
		if p := recover(); p != nil {
			res = goRes{line: "panic"}
		}
	}()
	c, err := rdfcanon.Canonicalize(context.Background(), quads.NewIterator(rdf.QuadList(d.quads)), canonOpts(hashName)...)
	if err != nil {
		switch {
		case errors.Is(err, rdfcanon.ErrMaxIterationsReached):
			return goRes{line: "limit:iterations"}
		case errors.Is(err, rdfcanon.ErrMaxRecursionDepthReached):
			return goRes{line: "limit:depth"}
		}
		return goRes{line: "error:" + err.Error()}
	}
	var buf bytes.Buffer
	if _, err := c.WriteTo(&buf); err != nil {
		return goRes{line: "error:" + err.Error()}
	}
	var issued []string
	for _, bn := range d.bnodes() {
		issued = append(issued, hex.EncodeToString([]byte(d.label(bn)))+":"+hex.EncodeToString([]byte(c.GetBlankNodeIdentifier(bn))))
	}
	sortIssued(issued)
	is := "-"
	if len(issued) > 0 {
		is = strings.Join(issued, ",")
	}
	var idx []string
	it := c.NewIterator()
	for it.Next() {
		idx = append(idx, fmt.Sprint(it.OriginalQuadIndex()))
	}
	ix := "-"
	if len(idx) > 0 {
		ix = strings.Join(idx, ",")
	}
	return goRes{line: "ok " + vh.X(buf.Bytes()) + " " + is + " " + ix, bytes: buf.Bytes(), c: c}
}

// sortIssued orders "hexlabel:hexid" entries by the label alone, as the driver does (comparing the
// whole entry would order "b10:" before "b1:" because ':' sorts after the digits).
func sortIssued(ents []string) {
	key := func(e string) string { return e[:strings.IndexByte(e, ':')] }
	sort.Slice(ents, func(i, j int) bool { return key(ents[i]) < key(ents[j]) })
}

// ---------------------------------------------------------------- harness state

type harness struct {
	prop  string
	r     *vh.Rng
	rep   *vh.Report
	drv   vh.Driver
	lines []string       // pending driver lines
	conts []func(string) // continuation per line
	known map[string]vh.Finding
}

func (h *harness) ask(line string, k func(res string)) {
	h.lines = append(h.lines, line)
	h.conts = append(h.conts, k)
}

// flush runs the pending driver lines (continuations may enqueue follow-ups: escalation).
func (h *harness) flush() error {
	for len(h.lines) > 0 {
		lines, conts := h.lines, h.conts
		h.lines, h.conts = nil, nil
		res, err := runParallel(h.drv, lines)
		if err != nil {
			return err
		}
		for i, r := range res {
			h.rep.Compared++
			conts[i](r)
		}
	}
	return nil
}

func (h *harness) violation(op, detail string) {
	h.rep.Add(vh.Case{Kind: "violation", Op: op, Detail: detail})
}
func (h *harness) disagreement(op, goR, model, detail string) {
	h.rep.Add(vh.Case{Kind: "disagreement", Op: op, Go: clip(goR), Model: clip(model), Detail: detail})
}

func clip(s string) string {
	if len(s) > 1500 {
		return s[:1500] + "…"
	}
	return s
}

func distinct(xs []string) []string {
	seen := map[string]bool{}
	var res []string
	for _, x := range xs {
		if !seen[x] {
			seen[x] = true
			res = append(res, x)
		}
	}
	return res
}

func in(x string, xs []string) bool {
	for _, y := range xs {
		if x == y {
			return true
		}
	}
	return false
}

const baseSeeds = 8
const moreSeeds = 72

// specField: "ok x<bytes> <issued>" -> bytes token; other answers unchanged.
func bytesOf(entry string) string {
	f := strings.Fields(entry)
	if len(f) >= 2 && f[0] == "ok" {
		return f[1]
	}
	return entry
}

// ---------------------------------------------------------------- one dataset through every check

func (h *harness) checkDataset(kind, hashName string, d dataset, variants int) {
	wire := d.wire()
	nb := len(d.bnodes())
	h.rep.Eval(kind+" "+hashName+" "+wire, nb >= 2 || strings.Contains(kind, "long-lines"))
	h.rep.Count("shape:" + kind)
	h.rep.Count("hash:" + hashName)
	h.rep.Count(fmt.Sprintf("bnodes:%02d", nb))
	g := goCanon(hashName, d)
	h.rep.Count("go:" + strings.Fields(g.line + " x")[0])
	if strings.HasPrefix(g.line, "panic") || strings.HasPrefix(g.line, "error:") {
		h.violation("canon.runs "+hashName+" 1 "+wire, "Canonicalize failed on a well-formed dataset: "+g.line)
		return
	}

	// ---- direct checks on the implementation's result (C03: shape of the output)
	if g.c != nil {
		h.shapeChecks(hashName, d, g)
	}

	// ---- C03: relabel x permute variants, flipped variant
	var varOuts []string
	if g.c != nil {
		nv := variants
		if h.prop != "C03" {
			nv = (variants + 2) / 3 // C04: fewer isomorphic copies; the full relabel x permute oracle is C03's
		}
		for i := 0; i < nv; i++ {
			v := d.variant(h.r)
			vg := goCanon(hashName, v)
			varOuts = append(varOuts, vh.X(vg.bytes)+"#"+strings.Fields(vg.line + " x")[0])
		}
		// the identical input again: only Go's map iteration order can differ between these runs
		reps := 2
		if strings.Contains(kind, "components") {
			reps = 6
		}
		for i := 0; i < reps; i++ {
			rg := goCanon(hashName, d)
			varOuts = append(varOuts, vh.X(rg.bytes)+"#"+strings.Fields(rg.line + " x")[0])
		}
		if h.prop == "C03" {
			h.flipCheck(hashName, d, g)
		}
	}

	if *nomodel {
		// oracle only: without the spec's tie report, variants are required to agree for the full-width hashes only
		// (and not on the corpus dataset on which RDFC-1.0 itself is order-dependent)
		if len(varOuts) > 0 && (hashName == "sha256" || hashName == "sha384") && kind != "corpus:rdfc10-non-automorphic-tie" {
			for _, vo := range varOuts {
				if vo != vh.X(g.bytes)+"#ok" {
					h.violation("canon.runs "+hashName+" 1 "+wire, "C03: a relabelled/permuted variant canonicalizes differently (oracle-only mode, no tie report)")
					break
				}
			}
		}
		return
	}

	// ---- T3: model under sampled orders
	runLine := func(n int) string { return fmt.Sprintf("canon.runs %s %d %s", hashName, n, wire) }
	var t3 func(n int) func(string)
	t3 = func(n int) func(string) {
		return func(res string) {
			outs := distinct(strings.Split(res, "|"))
			if len(outs) == 1 {
				h.rep.Count("model:order-insensitive")
			} else {
				h.rep.Count("model:order-sensitive")
			}
			if in(g.line, outs) {
				return
			}
			// The issued map and the original indices legitimately depend on the iteration order when the
			// dataset has automorphisms (which of two symmetric nodes becomes c14n0); 72 samples cannot cover
			// n! labellings. When the model's lines differ, the bytes must still agree with some sampled order
			// (and shapeChecks validates Go's issued map and indices against Go's own bytes).
			if len(outs) > 1 {
				var bs []string
				for _, o := range outs {
					bs = append(bs, bytesOf(o))
				}
				if in(bytesOf(g.line), bs) {
					h.rep.Count("t3:bytes-only (order-dependent labelling of symmetric nodes)")
					return
				}
			}
			// Escalate before reporting, also when the first samples all agree: the sampled orders are a fixed set
			// per key-list length, and on a dataset made of isomorphic copies all 8 of them can happen to visit the
			// same copy first although the labelling does depend on the order.
			if n < moreSeeds {
				h.ask(runLine(moreSeeds), t3(moreSeeds))
				return
			}
			h.rep.Count("disagreement-shape:" + kind)
			h.disagreement(runLine(n), g.line, strings.Join(outs, " | "), "T3: rdfcanon.Canonicalize differs from Model.Rdfcanon.canon under every sampled order [generator shape: "+kind+"]")
		}
	}
	h.ask(runLine(baseSeeds), t3(baseSeeds))

	// ---- spec: C04 (Go = spec) and C03 (variants agree unless the spec is order-sensitive)
	if strings.HasPrefix(g.line, "limit") {
		return // work limit: an error, never an answer; nothing to compare (limit_never_wrong)
	}
	specLine := func(tw string, n int) string { return fmt.Sprintf("canon.specs %s %s %d %s", hashName, tw, n, wire) }
	self := d.selfRef()
	var spec func(n int, prev []string) func(string)
	spec = func(n int, prev []string) func(string) {
		return func(res string) {
			if res == "limit" || res == "panic" {
				h.rep.Count("spec:" + res)
				return
			}
			entries := strings.Split(res, "|")
			var bs []string
			for _, e := range entries {
				if e == "fuel" {
					h.disagreement(specLine("1", n), g.line, res, "Spec.RDFC10 ran out of fuel with defaultFuel (fuel bound claim refuted)")
					return
				}
				bs = append(bs, bytesOf(e))
			}
			sensitive := len(distinct(bs)) > 1 || len(distinct(prev)) > 1
			bs = distinct(append(bs, prev...))
			goB := vh.X(g.bytes)
			if sensitive {
				h.rep.Count("spec:order-sensitive(non-automorphic tie)")
				h.rep.Count("spec:order-sensitive:" + hashName)
				if hashName == "sha256" && os.Getenv("CANON_DEBUG") != "" {
					fmt.Println("SENS", specLine("1", n))
				}
			} else {
				h.rep.Count("spec:order-insensitive")
			}
			bad := ""
			if h.prop == "C04" && !in(goB, bs) {
				bad = "C04: canonical bytes differ from Spec.RDFC10"
			}
			if bad == "" && !sensitive {
				for _, vo := range varOuts {
					if vo != goB+"#ok" {
						if h.prop == "C03" {
							bad = "C03: a relabelled/permuted variant of the dataset (or the same input run again) canonicalizes differently although RDFC-1.0 is order-insensitive on it (variant: " + clip(vo) + ")"
						} else {
							bad = "C04: an isomorphic copy of the dataset (or the same input run again) does not yield the canonical document Spec.RDFC10 defines for it (got: " + clip(vo) + ")"
						}
						break
					}
				}
			}
			if bad == "" {
				return
			}
			if n < moreSeeds { // maybe a tie the first samples did not expose
				h.ask(specLine("1", moreSeeds), spec(moreSeeds, bs))
				return
			}
			h.rep.Count("violation-shape:" + kind)
			h.violation(runLine(1), bad+" [generator shape: "+kind+"] — go="+clip(goB)+" spec="+clip(strings.Join(bs, " | ")))
		}
	}
	if self {
		// both readings of step 2.1 are acceptable: gather the outputs of twice=0 first
		h.ask(specLine("0", baseSeeds), func(res0 string) {
			var prev []string
			if res0 != "limit" && res0 != "panic" {
				for _, e := range strings.Split(res0, "|") {
					prev = append(prev, bytesOf(e))
				}
			}
			h.rep.Count("spec:self-referencing quad (two readings accepted)")
			h.ask(specLine("1", baseSeeds), spec(baseSeeds, prev))
		})
	} else {
		h.ask(specLine("1", baseSeeds), spec(baseSeeds, nil))
	}
}

// shapeChecks: output parses back to an isomorphic dataset; lines sorted and unique; issued map and
// original indices describe the renaming.
func (h *harness) shapeChecks(hashName string, d dataset, g goRes) {
	op := "canon.runs " + hashName + " 1 " + d.wire()
	dec, err := nquads.NewDecoder(bytes.NewReader(g.bytes), nquads.DecoderConfig{})
	if err != nil {
		h.violation(op, "decoder: "+err.Error())
		return
	}
	back, err := quads.CollectErr(dec, nil)
	if err != nil {
		h.violation(op, "C03: canonical output does not parse: "+err.Error())
		return
	}
	if !vh.Isomorphic(back, d.quads) {
		h.violation(op, "C03: canonical output parses to a dataset that is not isomorphic to the input")
	}
	h.writeToChecks(op, g)
	// sorted, unique
	it := g.c.NewIterator()
	var prev []byte
	first := true
	issuedSeen := map[string]string{}
	for _, bn := range d.bnodes() {
		id := g.c.GetBlankNodeIdentifier(bn)
		if other, dup := issuedSeen[id]; dup {
			h.violation(op, "C03: issued identifier "+id+" given to two blank nodes ("+other+", "+d.label(bn)+")")
		}
		issuedSeen[id] = d.label(bn)
	}
	prov := provFunc(func(bn rdf.BlankNode) string { return g.c.GetBlankNodeIdentifier(bn) })
	for it.Next() {
		line := it.EncodedQuad()
		if !first && bytes.Compare(prev, line) >= 0 {
			h.violation(op, "C03: canonical lines not strictly increasing")
		}
		prev, first = append([]byte(nil), line...), false
		oi := it.OriginalQuadIndex()
		if oi < 0 || int(oi) >= len(d.quads) {
			h.violation(op, "C03: original index out of range")
			continue
		}
		var buf bytes.Buffer
		enc, _ := nquads.NewEncoder(&buf, nquads.EncoderConfig{}.SetBlankNodeStringProvider(prov))
		enc.AddQuad(context.Background(), d.quads[oi])
		enc.Close()
		if !bytes.Equal(buf.Bytes(), line) {
			h.violation(op, fmt.Sprintf("C03: line %q is not input quad %d relabelled by the issued map (%q)", line, oi, buf.Bytes()))
		}
	}
}

type provFunc func(rdf.BlankNode) string

func (f provFunc) GetBlankNodeString(bn rdf.BlankNode) string { return f(bn) }

var _ blanknodes.StringProvider = provFunc(nil)

// flipCheck: reverse one blank-to-blank edge (or retarget one); if the result is not isomorphic to the
// original, the canonical forms must differ.
func (h *harness) flipCheck(hashName string, d dataset, g goRes) {
	var cand []int
	for i, q := range d.quads {
		_, sb := q.Triple.Subject.(rdf.BlankNode)
		_, ob := q.Triple.Object.(rdf.BlankNode)
		if sb || ob {
			cand = append(cand, i)
		}
	}
	if len(cand) == 0 {
		return
	}
	i := vh.Pick(h.r, cand)
	v := dataset{labels: d.labels, quads: append([]rdf.Quad(nil), d.quads...)}
	q := v.quads[i]
	bns := d.bnodes()
	s, sb := q.Triple.Subject.(rdf.BlankNode)
	o, ob := q.Triple.Object.(rdf.BlankNode)
	switch {
	case sb && ob && s.Identifier != o.Identifier && h.r.Bool():
		q.Triple.Subject, q.Triple.Object = o, s
	case ob:
		q.Triple.Object = vh.Pick(h.r, bns)
	default:
		q.Triple.Subject = vh.Pick(h.r, bns)
	}
	v.quads[i] = q
	// keep the variant duplicate-free
	seen := map[string]bool{}
	for _, x := range v.quads {
		k := vh.QuadWire(x, v.label)
		if seen[k] {
			return
		}
		seen[k] = true
	}
	if vh.Isomorphic(v.quads, d.quads) {
		h.rep.Count("flip:isomorphic (skipped)")
		return
	}
	vg := goCanon(hashName, v)
	if vg.c == nil {
		return
	}
	h.rep.Count("flip:non-isomorphic")
	if bytes.Equal(vg.bytes, g.bytes) {
		if hashName == "sha256" || hashName == "sha384" {
			h.violation("canon.runs "+hashName+" 1 "+d.wire(), "C03: non-isomorphic dataset (one edge changed) has the same canonical form: "+v.wire())
		} else {
			h.rep.Count("flip:same output under a colliding test hash (expected, not a violation)")
		}
	}
}

// ---------------------------------------------------------------- generators

const exP = "http://example.org/p"

func iri(s string) vh.GTerm { return vh.GTerm{Kind: vh.KIRI, IRI: s} }
func bn(i int) vh.GTerm     { return vh.GTerm{Kind: vh.KBNode, BNode: i} }

func edge(a, b int, p string) vh.GQuad { return vh.GQuad{S: bn(a), P: iri(p), O: bn(b)} }

type shape struct {
	name string
	qs   []vh.GQuad
	n    int // blank nodes used
}

func (s shape) shift(k int) shape {
	out := shape{name: s.name, n: s.n}
	sh := func(t vh.GTerm) vh.GTerm {
		if t.Kind == vh.KBNode {
			t.BNode += k
		}
		return t
	}
	for _, q := range s.qs {
		nq := vh.GQuad{S: sh(q.S), P: q.P, O: sh(q.O)}
		if q.G != nil {
			g := sh(*q.G)
			nq.G = &g
		}
		out.qs = append(out.qs, nq)
	}
	return out
}

func cycle(n int, p string) shape {
	s := shape{name: "cycle", n: n}
	for i := 0; i < n; i++ {
		s.qs = append(s.qs, edge(i, (i+1)%n, p))
	}
	return s
}
func pathShape(n int, p string) shape {
	s := shape{name: "path", n: n}
	for i := 0; i+1 < n; i++ {
		s.qs = append(s.qs, edge(i, i+1, p))
	}
	if n == 1 {
		s.qs = append(s.qs, vh.GQuad{S: bn(0), P: iri(p), O: iri("http://example.org/o")})
	}
	return s
}
func clique(n int, p string, both bool) shape {
	s := shape{name: "clique", n: n}
	for i := 0; i < n; i++ {
		for j := 0; j < n; j++ {
			if i < j || (both && i != j) {
				s.qs = append(s.qs, edge(i, j, p))
			}
		}
	}
	return s
}
func star(n int, p string, outward bool) shape {
	s := shape{name: "star", n: n}
	for i := 1; i < n; i++ {
		if outward {
			s.qs = append(s.qs, edge(0, i, p))
		} else {
			s.qs = append(s.qs, edge(i, 0, p))
		}
	}
	return s
}

const exQ = "http://example.org/q"

// doubledRing: a ring whose every edge exists once per predicate (parallel <p>/<q> edges): all nodes share
// one first-degree hash and every node is related to the same unissued neighbour, in the same position,
// through two predicates.
func doubledRing(n int, preds ...string) shape {
	s := shape{name: "multipred-ring", n: n}
	for i := 0; i < n; i++ {
		for _, p := range preds {
			s.qs = append(s.qs, edge(i, (i+1)%n, p))
		}
	}
	return s
}

// ringOfFive: five nodes without automorphisms in which two nodes are each the object of a <p> and of a <q>
// quad while several nodes share a first-degree hash.
func ringOfFive() shape {
	return shape{name: "multipred-mixed", n: 5, qs: []vh.GQuad{edge(0, 1, exP), edge(0, 4, exQ), edge(2, 1, exQ), edge(2, 3, exP), edge(3, 4, exP)}}
}

// mixedRing: 3..6 nodes on a ring with a random predicate per edge, some edges doubled with the other
// predicate, and a few chords: many nodes with equal first-degree hashes that are related to the same
// neighbour (or share a neighbour) through different predicates.
func (h *harness) mixedRing(n int) shape {
	r := h.r
	s := shape{name: "multipred-mixed", n: n}
	other := map[string]string{exP: exQ, exQ: exP}
	for i := 0; i < n; i++ {
		p := vh.Pick(r, []string{exP, exQ})
		a, b := i, (i+1)%n
		if r.Chance(25) {
			a, b = b, a
		}
		s.qs = append(s.qs, edge(a, b, p))
		if r.Chance(45) {
			s.qs = append(s.qs, edge(a, b, other[p]))
		}
	}
	for i, m := 0, r.Intn(3); i < m; i++ {
		s.qs = append(s.qs, edge(r.Intn(n), r.Intn(n), vh.Pick(r, []string{exP, exQ})))
	}
	return s
}

// predPool: predicate IRIs whose first-degree hashes order differently relative to each other, so that the
// order in which step 5 processes the tie groups varies between datasets.
var predPool = []string{exP, exQ, "http://example.org/knows", "http://example.org/next", "http://example.org/vocab#p",
	"http://xmlns.com/foaf/0.1/knows", "urn:ex:p", "http://example.org/a", "http://example.org/zz", "http://www.w3.org/2000/01/rdf-schema#seeAlso",
	"http://example.org/vocab#next", "http://example.org/vocab#prev", "http://schema.org/knows", "urn:x", "http://e/p", "http://e/q",
	"http://purl.org/dc/terms/relation", "http://example.org/b", "http://example.org/c", "http://example.org/d"}

// components: several disconnected components over ONE predicate whose nodes tie on first-degree hashes
// across components (chain ends/middles, star leaves, cycle nodes, separate edges): a tie group then mixes
// nodes labelled through another node's hash path with nodes still unlabelled.
func (h *harness) components(maxNodes int) shape {
	r := h.r
	p := vh.Pick(r, predPool)
	s := shape{name: "components"}
	kinds := 3 + r.Intn(3)
	for k := 0; k < kinds; k++ {
		var c shape
		switch r.Intn(5) {
		case 0, 1:
			c = pathShape(2+r.Intn(4), p) // chains of 1..4 edges (a separate edge is the 2-node chain)
		case 2:
			c = star(3+r.Intn(3), p, r.Bool())
		case 3:
			c = cycle(2+r.Intn(4), p)
		default:
			c = pathShape(2, p)
		}
		if s.n+c.n > maxNodes && s.n > 0 {
			break
		}
		s.qs = append(s.qs, c.shift(s.n).qs...)
		s.n += c.n
	}
	if s.n == 0 {
		s = pathShape(2, p)
		s.name = "components"
	}
	return s
}

// prism: two directed k-rings joined by k rungs (vertex-transitive: every node has the same first-degree hash).
func prism(k int, p string) shape {
	s := shape{name: "prism", n: 2 * k}
	for i := 0; i < k; i++ {
		s.qs = append(s.qs, edge(i, (i+1)%k, p), edge(k+i, k+(i+1)%k, p), edge(i, k+i, p))
	}
	return s
}

// fringe: the shape plus one leaf hanging off EVERY node (all outward or all inward). A vertex-transitive body
// (ring, prism, bidirectional clique) stays vertex-transitive: no node gets a unique first-degree hash, the body
// nodes form one tie group and the leaves another, and the leaves tie with the end nodes of separate edges and
// chains in other components.
func fringe(s shape, p string, out bool) shape {
	r := shape{name: s.name, n: 2 * s.n, qs: append([]vh.GQuad{}, s.qs...)}
	for i := 0; i < s.n; i++ {
		if out {
			r.qs = append(r.qs, edge(i, s.n+i, p))
		} else {
			r.qs = append(r.qs, edge(s.n+i, i, p))
		}
	}
	return r
}

func union(name string, parts ...shape) shape {
	c := shape{name: name}
	for _, x := range parts {
		c.qs = append(c.qs, x.shift(c.n).qs...)
		c.n += x.n
	}
	return c
}

// tiedUnion: a disjoint union of one or two fringed symmetric bodies (rings, prisms, bidirectional cliques with a
// leaf on every node) and 2..3 separate edges or short chains, each component over its own predicate drawn from
// a pair of the pool (mostly the first, so that components share one). No node has a unique first-degree hash;
// nodes of different, non-isomorphic components share first-degree hashes (leaves and chain ends); when step 5
// reaches the leaves' tie group, the leaves of a body whose group came earlier are already labelled through
// that group's hash paths while the chain ends are not; and the order of the groups (a function of the
// predicate IRIs) varies between datasets.
func (h *harness) tiedUnion(maxNodes int) shape {
	r := h.r
	p1, p2 := vh.Pick(r, predPool), vh.Pick(r, predPool)
	pick := func() string {
		if r.Chance(20) {
			return p2
		}
		return p1
	}
	body := func() shape {
		p := pick()
		var c shape
		switch r.Intn(4) {
		case 0, 1:
			c = cycle(2+r.Intn(3), p)
		case 2:
			c = prism(2, p)
		default:
			c = clique(3, p, true)
		}
		return fringe(c, p, r.Bool())
	}
	parts := []shape{body()}
	if r.Chance(30) {
		parts = append(parts, body())
	}
	small := 2 + r.Intn(2)
	ln := 2 + r.Intn(2)
	for i := 0; i < small; i++ {
		parts = append(parts, pathShape(ln, pick()))
	}
	s := shape{name: "components:union"}
	for i, c := range parts {
		if s.n+c.n > maxNodes && i > 0 {
			continue
		}
		s.qs = append(s.qs, c.shift(s.n).qs...)
		s.n += c.n
	}
	return s
}

const exG1, exG2 = "http://example.org/g1", "http://example.org/g2"

// inGraphs: the edge asserted in every graph of the set (bit 0: default graph, bit 1: <g1>, bit 2: <g2>).
func inGraphs(a, b int, p string, set int) []vh.GQuad {
	var qs []vh.GQuad
	if set&1 != 0 {
		qs = append(qs, edge(a, b, p))
	}
	for i, g := range []string{exG1, exG2} {
		if set&(2<<i) != 0 {
			q := edge(a, b, p)
			t := iri(g)
			q.G = &t
			qs = append(qs, q)
		}
	}
	return qs
}

// multigraph: a small tree or sparse digraph whose edges are each asserted in a random non-empty set of graphs
// (default, <g1>, <g2>): a node then reaches the same neighbour through several quads with one related hash
// (same predicate and position, the graph name is not part of it), so that blank node lists of Hash N-Degree
// Quads contain a node more than once, among nodes that tie at first degree without being automorphic.
func (h *harness) multigraph(maxNodes int) shape {
	r := h.r
	n := 3 + r.Intn(min(maxNodes, 6)-2)
	p := vh.Pick(r, []string{exP, exP, exQ, "urn:p"})
	s := shape{name: "multigraph", n: n}
	for i := 1; i < n; i++ { // random tree, random edge direction
		a, b := r.Intn(i), i
		if r.Chance(30) {
			a, b = b, a
		}
		s.qs = append(s.qs, inGraphs(a, b, p, 1+r.Intn(7))...)
	}
	for i, m := 0, r.Intn(2); i < m; i++ { // sometimes an extra edge
		s.qs = append(s.qs, inGraphs(r.Intn(n), r.Intn(n), p, 1+r.Intn(7))...)
	}
	return s
}

// multigraphTrees: every assignment of a non-empty subset of {<g1>, <g2>} to the three edges of four 4-node
// trees (chain, vee, out-star, fork).
func multigraphTrees(f func(qs []vh.GQuad)) int {
	trees := [][][2]int{
		{{0, 1}, {1, 2}, {2, 3}},
		{{2, 3}, {2, 1}, {1, 0}},
		{{0, 1}, {0, 2}, {0, 3}},
		{{0, 1}, {1, 2}, {1, 3}},
	}
	cnt := 0
	for _, t := range trees {
		for code := 0; code < 27; code++ {
			var qs []vh.GQuad
			c := code
			for _, e := range t {
				qs = append(qs, inGraphs(e[0], e[1], "urn:p", 2*(1+c%3))...)
				c /= 3
			}
			cnt++
			f(qs)
		}
	}
	return cnt
}

func (h *harness) randomShape(maxNodes int) shape {
	r := h.r
	p := vh.Pick(r, []string{exP, exP, "http://example.org/q"})
	var s shape
	switch r.Intn(11) {
	case 9, 10:
		mn := maxNodes
		if mn < 12 {
			mn = 12
		}
		if r.Chance(35) {
			s = h.tiedUnion(mn)
		} else {
			s = h.components(mn)
		}
		if r.Chance(70) {
			return s // mostly undecorated: decorations break the ties across components
		}
	case 7:
		ps := []string{exP, exQ}
		if r.Chance(25) {
			ps = append(ps, "http://example.org/r")
		}
		s = doubledRing(3+r.Intn(min(maxNodes, 6)-2), ps...)
		if r.Chance(50) { // break the rotational symmetry a little, keep the first-degree classes large
			k := r.Intn(s.n)
			s.qs = append(s.qs, edge(k, (k+2)%s.n, vh.Pick(r, ps)))
		}
	case 8:
		s = h.mixedRing(3 + r.Intn(min(maxNodes, 6)-2))
	case 0:
		s = cycle(2+r.Intn(min(maxNodes, 7)-1), p)
	case 1:
		s = clique(2+r.Intn(min(maxNodes, 5)-1), p, r.Bool())
	case 2:
		s = star(2+r.Intn(min(maxNodes, 6)-1), p, r.Bool())
	case 3:
		s = pathShape(1+r.Intn(min(maxNodes, 6)), p)
	case 4: // disjoint copies of a small shape
		base := []shape{cycle(3, p), cycle(4, p), pathShape(2, p), pathShape(3, p), star(3, p, true), clique(3, p, false)}[r.Intn(6)]
		k := 2 + r.Intn(2)
		if r.Chance(40) {
			// two copies of a random tree of depth up to 5 with branching: no node has a unique first-degree hash,
			// and Hash N-Degree Quads recurses several levels deep with more than one permutation at the deeper
			// levels (issuer copies of copies)
			n := 4 + r.Intn(3)
			base = shape{name: "tree", n: n}
			for i := 1; i < n; i++ {
				a := r.Intn(i)
				if r.Chance(50) {
					a = i - 1 // favour depth
				}
				if r.Chance(20) {
					base.qs = append(base.qs, edge(i, a, p))
				} else {
					base.qs = append(base.qs, edge(a, i, p))
				}
			}
			k = 2
			if maxNodes < 2*n {
				maxNodes = 2 * n
			}
		}
		for k*base.n > maxNodes && k > 1 {
			k--
		}
		s = shape{name: "copies"}
		for i := 0; i < k; i++ {
			c := base.shift(i * base.n)
			s.qs = append(s.qs, c.qs...)
		}
		s.n = k * base.n
	case 5: // random sparse digraph, or a tree with edges asserted in several graphs
		if r.Chance(50) {
			s = h.multigraph(maxNodes)
			if r.Chance(60) {
				return s
			}
			break
		}
		n := 2 + r.Intn(min(maxNodes, 8)-1)
		s = shape{name: "random", n: n}
		for i, m := 0, n+r.Intn(n+1); i < m; i++ {
			s.qs = append(s.qs, edge(r.Intn(n), r.Intn(n), vh.Pick(r, []string{exP, "http://example.org/q"})))
		}
	default: // two shapes joined by one edge
		a := cycle(2+r.Intn(3), p)
		b := star(2+r.Intn(3), p, r.Bool()).shift(a.n)
		s = shape{name: "joined", n: a.n + b.n, qs: append(append([]vh.GQuad{}, a.qs...), b.qs...)}
		s.qs = append(s.qs, edge(r.Intn(a.n), a.n+r.Intn(b.n), p))
	}
	// decorations
	if r.Chance(30) { // self loops
		s.qs = append(s.qs, edge(r.Intn(s.n), r.Intn(s.n), p))
		k := r.Intn(s.n)
		s.qs = append(s.qs, edge(k, k, p))
		s.name += "+loop"
	}
	if r.Chance(35) { // blank graph names
		for i := range s.qs {
			if r.Chance(40) {
				g := bn(r.Intn(s.n))
				if r.Chance(30) {
					g = iri("http://example.org/g")
				}
				s.qs[i].G = &g
			}
		}
		s.name += "+graphs"
	}
	if r.Chance(40) { // symmetry-breaking / ground tails
		for i, m := 0, 1+r.Intn(3); i < m; i++ {
			q := vh.GQuad{S: bn(r.Intn(s.n)), P: iri(vh.Pick(r, []string{exP, "http://example.org/name"}))}
			if r.Bool() {
				q.O = r.Literal(vh.IRIOpts{})
			} else {
				q.O = iri("http://example.org/o" + fmt.Sprint(r.Intn(3)))
			}
			s.qs = append(s.qs, q)
		}
		s.name += "+tails"
	}
	if r.Chance(10) { // ground quads with exotic terms
		s.qs = append(s.qs, r.Dataset(vh.DatasetOpts{MaxQuads: 3, NBNodes: 0, NIRIs: 3, Graphs: true})...)
		s.name += "+ground"
	}
	return s
}

func labelFor(r *vh.Rng) func(int) string {
	pfx := vh.Pick(r, []string{"e", "b", "c14n", "x", "n-", "_z"})
	off := r.Intn(5)
	return func(i int) string { return fmt.Sprintf("%s%d", pfx, i+off) }
}

func (h *harness) pickHash() string {
	switch x := h.r.Intn(20); {
	case x < 11:
		return "sha256"
	case x < 13:
		return "sha384"
	case x < 16:
		return "test8"
	default:
		return "test2"
	}
}

// exhaustiveSmall: every blank-node-only graph with <= 4 nodes and <= maxEdges edges over one predicate
// (self loops included), as an edge subset of the 16 ordered pairs.
func exhaustiveSmall(maxEdges int, f func(qs []vh.GQuad)) int {
	count := 0
	var pairs [][2]int
	for i := 0; i < 4; i++ {
		for j := 0; j < 4; j++ {
			pairs = append(pairs, [2]int{i, j})
		}
	}
	var rec func(start int, cur []vh.GQuad)
	rec = func(start int, cur []vh.GQuad) {
		if len(cur) > 0 {
			count++
			f(append([]vh.GQuad(nil), cur...))
		}
		if len(cur) == maxEdges {
			return
		}
		for k := start; k < len(pairs); k++ {
			rec(k+1, append(cur, edge(pairs[k][0], pairs[k][1], exP)))
		}
	}
	rec(0, nil)
	return count
}

// ---------------------------------------------------------------- W3C vectors

type manifestEntry struct {
	ID     string `json:"id"`
	Type   string `json:"type"`
	Action string `json:"action"`
	Result string `json:"result"`
	Hash   string `json:"hashAlgorithm"`
}

func repoRoot() string {
	if *repoFlag != "" {
		return *repoFlag
	}
	if v := os.Getenv("VERIF_REPO"); v != "" {
		return v
	}
	return "/repo"
}

func unpackVectors() (dir string, entries []manifestEntry, err error) {
	f, err := os.Open(filepath.Join(repoRoot(), "rdfcanon/testsuites/w3c-rdf-canon-tests/testdata.tar.gz"))
	if err != nil {
		return "", nil, err
	}
	defer f.Close()
	gz, err := gzip.NewReader(f)
	if err != nil {
		return "", nil, err
	}
	dir, err = os.MkdirTemp("", "verif-canon-vectors-")
	if err != nil {
		return "", nil, err
	}
	tr := tar.NewReader(gz)
	for {
		hd, err := tr.Next()
		if err == io.EOF {
			break
		}
		if err != nil {
			return dir, nil, err
		}
		if hd.Typeflag != tar.TypeReg || strings.Contains(hd.Name, "..") {
			continue
		}
		p := filepath.Join(dir, hd.Name)
		os.MkdirAll(filepath.Dir(p), 0o755)
		b, err := io.ReadAll(tr)
		if err != nil {
			return dir, nil, err
		}
		if err := os.WriteFile(p, b, 0o644); err != nil {
			return dir, nil, err
		}
	}
	b, err := os.ReadFile(filepath.Join(dir, "tests/manifest.jsonld"))
	if err != nil {
		return dir, nil, err
	}
	var m struct {
		Entries []manifestEntry `json:"entries"`
	}
	if err := json.Unmarshal(b, &m); err != nil {
		return dir, nil, err
	}
	return dir, m.Entries, nil
}

func readNQ(path string) (dataset, error) {
	b, err := os.ReadFile(path)
	if err != nil {
		return dataset{}, err
	}
	return parseNQ(b)
}

func (h *harness) vectors() {
	dir, entries, err := unpackVectors()
	if dir != "" {
		defer os.RemoveAll(dir)
	}
	if err != nil {
		h.rep.Add(vh.Case{Kind: "disagreement", Op: "vectors", Detail: "cannot unpack the W3C archive: " + err.Error()})
		return
	}
	nEval, nMap := 0, 0
	for _, e := range entries {
		hashName := "sha256"
		if e.Hash == "SHA384" {
			hashName = "sha384"
		} else if e.Hash != "" {
			h.rep.Add(vh.Case{Kind: "disagreement", Op: "vectors " + e.ID, Detail: "unsupported hash " + e.Hash})
			continue
		}
		d, err := readNQ(filepath.Join(dir, "tests", e.Action))
		if err != nil {
			h.rep.Add(vh.Case{Kind: "disagreement", Op: "vectors " + e.ID, Detail: "cannot read action: " + err.Error()})
			continue
		}
		g := goCanon(hashName, d)
		id := e.ID
		wire := d.wire()
		switch {
		case strings.HasSuffix(e.Type, "RDFC10NegativeEvalTest"):
			h.rep.Count("vectors:negative")
			h.rep.Eval("vector "+id, true)
			if !strings.HasPrefix(g.line, "limit") {
				h.violation("vectors "+id, "C04: poison dataset not refused: "+clip(g.line))
			}
			if !*nomodel {
				h.ask(fmt.Sprintf("canon.runs %s 1 %s", hashName, wire), func(res string) {
					if res != g.line {
						h.disagreement("vectors "+id, g.line, res, "T3 on the negative vector")
					}
				})
			}
		case strings.HasSuffix(e.Type, "RDFC10EvalTest"):
			nEval++
			h.rep.Count("vectors:eval")
			h.rep.Eval("vector "+id, true)
			want, err := os.ReadFile(filepath.Join(dir, "tests", e.Result))
			if err != nil {
				h.rep.Add(vh.Case{Kind: "disagreement", Op: "vectors " + id, Detail: err.Error()})
				continue
			}
			if !bytes.Equal(g.bytes, want) {
				h.violation("vectors "+id, fmt.Sprintf("C04: output differs from the published %s: got %q", e.Result, clip(string(g.bytes))))
			}
			if !*nomodel {
				h.ask(fmt.Sprintf("canon.specs %s 1 1 %s", hashName, wire), func(res string) {
					if bytesOf(res) != vh.X(want) {
						h.rep.Count("TEST Spec.RDFC10 reproduces the published W3C result: FAIL")
						h.disagreement("vectors "+id, vh.X(want), res, "TEST: Spec.RDFC10 does not reproduce the published W3C result "+e.Result)
					} else {
						h.rep.Count("TEST Spec.RDFC10 reproduces the published W3C result: pass")
					}
				})
				h.ask(fmt.Sprintf("canon.runs %s 1 %s", hashName, wire), func(res string) {
					if bytesOf(res) != vh.X(want) {
						h.disagreement("vectors "+id, vh.X(want), res, "Model.Rdfcanon does not reproduce the published W3C result "+e.Result)
					}
				})
			}
		case strings.HasSuffix(e.Type, "RDFC10MapTest"):
			nMap++
			h.rep.Count("vectors:map")
			h.rep.Eval("vector "+id, true)
			b, err := os.ReadFile(filepath.Join(dir, "tests", e.Result))
			if err != nil {
				h.rep.Add(vh.Case{Kind: "disagreement", Op: "vectors " + id, Detail: err.Error()})
				continue
			}
			var want map[string]string
			if err := json.Unmarshal(b, &want); err != nil {
				h.rep.Add(vh.Case{Kind: "disagreement", Op: "vectors " + id, Detail: err.Error()})
				continue
			}
			var ents []string
			for k, v := range want {
				ents = append(ents, hex.EncodeToString([]byte(k))+":"+hex.EncodeToString([]byte(v)))
			}
			sortIssued(ents)
			wantS := "-"
			if len(ents) > 0 {
				wantS = strings.Join(ents, ",")
			}
			f := strings.Fields(g.line)
			if len(f) != 4 || f[2] != wantS {
				h.violation("vectors "+id, "C04: issued identifier map differs from the published "+e.Result+": "+clip(g.line))
			}
			if !*nomodel {
				h.ask(fmt.Sprintf("canon.specs %s 1 1 %s", hashName, wire), func(res string) {
					f := strings.Fields(res)
					if len(f) != 3 || f[2] != wantS {
						h.disagreement("vectors "+id, wantS, res, "TEST: Spec.RDFC10 issued map differs from the published "+e.Result)
					}
				})
			}
		}
	}
	h.rep.Exhaustive = append(h.rep.Exhaustive, fmt.Sprintf("W3C rdf-canon vectors: %d eval, %d map, negative test (from testdata.tar.gz)", nEval, nMap))
	if nEval != 64 {
		h.rep.Add(vh.Case{Kind: "disagreement", Op: "vectors", Detail: fmt.Sprintf("expected 64 eval vectors, archive has %d", nEval)})
	}
}

// ---------------------------------------------------------------- SHA-2 test, literal escaping

func (h *harness) shaTest(n int) {
	for i := 0; i < n; i++ {
		ln := h.r.Intn(200)
		if h.r.Chance(10) {
			ln = 50 + h.r.Intn(300)
		}
		if i < 260 {
			ln = i // every length around the padding boundaries
		}
		b := make([]byte, ln)
		for k := range b {
			b[k] = byte(h.r.Intn(256))
		}
		s256 := sha256.Sum256(b)
		s384 := sha512.Sum384(b)
		w256, w384 := hex.EncodeToString(s256[:]), hex.EncodeToString(s384[:])
		h.ask("canon.sha sha256 "+vh.X(b), func(res string) {
			h.rep.Count("TEST Model.Sha2 = crypto/sha256|sha512 (random byte strings)")
			if res != w256 {
				h.disagreement("canon.sha sha256 "+vh.X(b), w256, res, "TEST: Model.Sha2.sha256 differs from crypto/sha256")
			}
		})
		h.ask("canon.sha sha384 "+vh.X(b), func(res string) {
			h.rep.Count("TEST Model.Sha2 = crypto/sha256|sha512 (random byte strings)")
			if res != w384 {
				h.disagreement("canon.sha sha384 "+vh.X(b), w384, res, "TEST: Model.Sha2.sha384 differs from crypto/sha512.New384")
			}
		})
	}
}

func (h *harness) litCheck(t vh.GTerm) {
	l := rdf.Literal{Datatype: rdf.IRI(t.DT), LexicalForm: t.Lex}
	if t.DT == vh.RDFLangString {
		l.Tag = rdf.LanguageLiteralTag{Language: t.Lang}
	}
	var buf bytes.Buffer
	nquads.WriteLiteral(&buf, l, false)
	goB := vh.X(buf.Bytes())
	line := "canon.lit " + t.Wire(nil)
	h.rep.Count("lit-check")
	h.ask(line, func(res string) {
		f := strings.Fields(res)
		if len(f) != 2 {
			h.disagreement(line, goB, res, "bad driver answer")
			return
		}
		if f[1] != goB {
			h.disagreement(line, goB, f[1], "T3: nquads.WriteLiteral differs from Model.NQuads.writeLiteral")
		}
		if f[0] != goB {
			h.violation(line, "C04: literal is not written in canonical N-Quads form: go="+goB+" spec="+f[0])
		}
	})
}

func (h *harness) litCases(n int, allScalars bool) {
	for _, r := range vh.HotRunes {
		h.litCheck(vh.GTerm{Kind: vh.KLit, Lex: "a" + string(r) + "b", DT: vh.XSDString})
	}
	for c := rune(0); c < 0x100; c++ {
		h.litCheck(vh.GTerm{Kind: vh.KLit, Lex: string(c), DT: vh.XSDString})
	}
	for i := 0; i < n; i++ {
		h.litCheck(h.r.Literal(vh.IRIOpts{}))
	}
	if allScalars {
		for c := rune(0); c <= 0x10FFFF; c++ {
			if c >= 0xD800 && c <= 0xDFFF {
				continue
			}
			h.litCheck(vh.GTerm{Kind: vh.KLit, Lex: string(c), DT: vh.XSDString})
		}
		h.rep.Exhaustive = append(h.rep.Exhaustive, "literal escaping: every Unicode scalar value as a one-rune lexical form (Go writer = Spec.literal = model)")
	}
}

// ---------------------------------------------------------------- replay / hints

func parseWireTerm(tok string, bns map[string]rdf.BlankNode, f rdf.BlankNodeFactory) (rdf.Term, bool) {
	un := func(hx string) (string, bool) {
		b, err := hex.DecodeString(hx)
		return string(b), err == nil
	}
	if tok == "-" {
		return nil, true
	}
	if len(tok) == 0 {
		return nil, false
	}
	switch tok[0] {
	case 'I':
		v, ok := un(tok[1:])
		return rdf.IRI(v), ok
	case 'B':
		l, ok := un(tok[1:])
		if _, have := bns[l]; !have {
			bns[l] = f.NewBlankNode()
		}
		return bns[l], ok
	case 'L':
		p := strings.Split(tok[1:], ".")
		if len(p) != 3 {
			return nil, false
		}
		lex, ok1 := un(p[0])
		dt, ok2 := un(p[1])
		l := rdf.Literal{LexicalForm: lex, Datatype: rdf.IRI(dt)}
		if p[2] != "-" {
			tag, _ := un(p[2])
			l.Tag = rdf.LanguageLiteralTag{Language: tag}
		}
		return l, ok1 && ok2
	}
	return nil, false
}

// parseRunsLine reads `canon.runs <hash> <n> <quad>…` (or canon.specs <hash> <twice> <n> <quad>…) back into a dataset.
func parseRunsLine(line string) (string, dataset, bool) {
	f := strings.Fields(line)
	skip := 3
	if len(f) > 0 && f[0] == "canon.specs" {
		skip = 4
	}
	if len(f) < skip || (f[0] != "canon.runs" && f[0] != "canon.specs") {
		return "", dataset{}, false
	}
	fac := rdf.NewBlankNodeFactory()
	bns := map[string]rdf.BlankNode{}
	d := dataset{labels: map[rdf.BlankNodeIdentifier]string{}}
	for _, tok := range f[skip:] {
		p := strings.Split(tok, ",")
		if len(p) != 4 {
			return "", dataset{}, false
		}
		var ts [4]rdf.Term
		for i := range p {
			t, ok := parseWireTerm(p[i], bns, fac)
			if !ok {
				return "", dataset{}, false
			}
			ts[i] = t
		}
		s, ok1 := ts[0].(rdf.SubjectValue)
		pr, ok2 := ts[1].(rdf.PredicateValue)
		o, ok3 := ts[2].(rdf.ObjectValue)
		if !(ok1 && ok2 && ok3) {
			return "", dataset{}, false
		}
		q := rdf.Quad{Triple: rdf.Triple{Subject: s, Predicate: pr, Object: o}}
		if ts[3] != nil {
			g, ok := ts[3].(rdf.GraphNameValue)
			if !ok {
				return "", dataset{}, false
			}
			q.GraphName = g
		}
		d.quads = append(d.quads, q)
	}
	for l, b := range bns {
		d.labels[b.Identifier] = l
	}
	switch f[1] {
	case "sha256", "sha384", "test8", "test2":
	default:
		return "", dataset{}, false
	}
	return f[1], d, true
}

// ---------------------------------------------------------------- driver fan-out

func runParallel(d vh.Driver, lines []string) ([]string, error) {
	// canon lines are few and expensive: split over the CPUs whenever there are more than a handful
	const workers = 12
	if len(lines) < 2*workers {
		return d.Run(lines)
	}
	type job struct{ idx []int }
	outs := make([]string, len(lines))
	buckets := make([][]int, workers)
	for i := range lines {
		buckets[i%workers] = append(buckets[i%workers], i)
	}
	errc := make(chan error, workers)
	for _, b := range buckets {
		go func(b []int) {
			ls := make([]string, len(b))
			for k, i := range b {
				ls[k] = lines[i]
			}
			res, err := d.Run(ls)
			if err == nil {
				for k, i := range b {
					outs[i] = res[k]
				}
			}
			errc <- err
		}(b)
	}
	var first error
	for range buckets {
		if err := <-errc; err != nil && first == nil {
			first = err
		}
	}
	return outs, first
}

// ---------------------------------------------------------------- main

func Main(prop string) {
	flag.Parse()
	if *out == "" {
		*out = "/verif/evidence/." + prop + ".report.json"
	}
	seed := vh.SeedFromEnv()
	rule := "structured blank-node graphs (cycles, cliques, stars, paths, disjoint copies, random sparse digraphs, joined shapes, multi-predicate rings, trees with edges asserted in several graphs, disconnected unions of chains/stars/cycles over one pool predicate, unions of fringed rings/prisms/cliques with separate edges/chains whose nodes tie on first-degree hashes across non-isomorphic components; decorated with self loops, blank/IRI graph names, literal/IRI tails, exotic ground quads; <= 12 blank nodes; inner-loop families of Hash N-Degree Quads: tied-children (owner in 2..3 copies with 3..4 children tied at first degree and told apart at distance >= 2), shared-groups (owner with two related-hash groups whose members are linked pairwise, 14..18 blank nodes), sparse-big (connected single-predicate graphs of 11..26 blank nodes with degrees <= 3: more than ten temporary identifiers per issuer); long-lines (canonical lines around 4096/8192/65536 bytes among short ones, WriteTo bytes compared with the iterator and under failing writers)) x hash (sha256, sha384, 32-bit and 8-bit truncations to provoke collisions) x 8..72 iteration orders; W3C vectors; non-trivial = at least two blank nodes or (long-lines) a canonical line longer than 4096 bytes (datasets), every vector"
	rep := vh.NewReport(prop, *tier, seed, rule)
	rep.Cases = []vh.Case{} // never null in the JSON report
	h := &harness{prop: prop, r: vh.NewRng(seed), rep: rep, drv: vh.Driver{Path: *driver}}
	fs, err := vh.LoadFindings(*findings)
	if err != nil {
		fmt.Fprintln(os.Stderr, "findings:", err)
		os.Exit(2)
	}
	h.known = vh.KnownKeys(fs, prop)
	optRng = vh.NewRng(seed ^ 0x6f707473)
	wtRng = vh.NewRng(seed ^ 0x77726974)

	finish := func() {
		if !*nomodel {
			if err := h.flush(); err != nil {
				fmt.Fprintln(os.Stderr, err)
				os.Exit(2)
			}
		}
		if err := rep.Write(*out); err != nil {
			fmt.Fprintln(os.Stderr, err)
			os.Exit(2)
		}
		fmt.Printf("%s harness: %d evaluations (%d distinct non-trivial), %d driver lines compared, %d failures\n",
			strings.ToLower(prop), rep.Evaluations, rep.Distinct, rep.Compared, rep.Failures())
		if rep.Failures() > 0 {
			os.Exit(1)
		}
	}

	variants := 16
	if *replay != "" {
		b, err := os.ReadFile(*replay)
		if err != nil {
			fmt.Fprintln(os.Stderr, err)
			os.Exit(2)
		}
		for _, l := range replayLines(b) {
			if hn, d, ok := parseRunsLine(l); ok {
				h.checkDataset("replay", hn, d, variants)
			}
		}
		finish()
		return
	}
	if *hints != "" {
		if b, err := os.ReadFile(*hints); err == nil {
			for _, l := range strings.Split(string(b), "\n") {
				if hn, d, ok := parseRunsLine(l); ok {
					h.checkDataset("hint", hn, d, variants)
				}
			}
		}
	}

	n := 260 * *scale
	maxNodes := 8
	if *tier == "thorough" {
		n = 6000 * *scale
		maxNodes = 12
	}

	base := famOn("base")
	if !base { // development aid (-families): only the selected inner-loop families
		h.innerLoopFamilies(seed, *tier == "thorough", *scale)
		finish()
		return
	}

	// option lists: effective configuration of Canonicalize(options...)
	if !*nomodel {
		nOpts := 300
		if *tier == "thorough" {
			nOpts = 5000
		}
		h.optsCases(nOpts * *scale)
	}
	// corpus: the W3C vectors first
	h.vectors()
	if err := h.flushIfModel(); err != nil {
		fmt.Fprintln(os.Stderr, err)
		os.Exit(2)
	}
	if prop == "C04" && !*nomodel {
		shaN := 1200
		if *tier == "thorough" {
			shaN = 10000
		}
		h.shaTest(shaN * *scale)
		h.litCases(400**scale, *tier == "thorough")
	}
	// corpus: datasets that reach the two work limits (an error, never an answer), and near misses
	{
		twoStars := func(k int) shape {
			a := star(k, exP, true)
			return shape{name: "corpus:2xstar", n: 2 * k, qs: append(append([]vh.GQuad{}, a.qs...), a.shift(k).qs...)}
		}
		// RDFC-1.0 itself is order-dependent on this 4-quad dataset under SHA-256 (found by the thorough tier):
		// related hashes record position, predicate and identifier of each related node separately and so
		// cannot tell which blank nodes share a quad; e0 and e1 tie in the N-degree phase without being
		// automorphic. Both outcomes are the specification's; the oracles must exempt it, not fail.
		gq := func(s, o, g int) vh.GQuad {
			q := edge(s, o, exP)
			if g >= 0 {
				t := bn(g)
				q.G = &t
			}
			return q
		}
		tie := shape{name: "corpus:rdfc10-non-automorphic-tie", n: 4, qs: []vh.GQuad{gq(0, 1, 3), gq(1, 2, 0), gq(2, 3, -1), gq(3, 0, 1)}}
		for _, s := range []shape{doubledRing(3, exP, exQ), doubledRing(4, exP, exQ), doubledRing(5, exP, exQ), ringOfFive()} {
			s.name = "corpus:" + s.name
			for _, hn := range []string{"sha256", "test8"} {
				h.checkDataset(s.name, hn, fromG(s.qs, func(i int) string { return fmt.Sprintf("e%d", i) }), 16)
			}
		}
		// disconnected components with tied nodes (step 5.2.1: a tie group mixing labelled and unlabelled nodes),
		// one dataset per predicate of the pool so that the group processing order varies
		for i, p := range predPool {
			a := pathShape(4, p) // 3-edge chain
			b := pathShape(2, p).shift(4)
			c := shape{name: "corpus:components", n: 6, qs: append(append([]vh.GQuad{}, a.qs...), b.qs...)}
			if i%2 == 1 { // a second variety: chains of 2 and 3 edges, a 3-cycle and a star
				x := pathShape(3, p)
				y := pathShape(4, p).shift(3)
				z := star(3, p, true).shift(7)
				c = shape{name: "corpus:components", n: 10, qs: append(append(append([]vh.GQuad{}, x.qs...), y.qs...), z.qs...)}
			}
			h.checkDataset(c.name, "sha256", fromG(c.qs, func(i int) string { return fmt.Sprintf("e%d", i) }), 16)
		}
		// unions of a fringed symmetric body (ring / prism / clique with a leaf on every node) and separate edges or
		// chains whose ends tie with the leaves, per predicate of the pool (group order varies with the IRI)
		for i, p := range predPool {
			var c shape
			switch (i + 2) % 3 {
			case 0:
				c = union("corpus:components:union", fringe(cycle(3, p), p, true), pathShape(2, p), pathShape(2, p))
			case 1:
				c = union("corpus:components:union", fringe(prism(2, p), p, false), pathShape(2, p), pathShape(2, p))
			default:
				c = union("corpus:components:union", fringe(cycle(2, p), p, false), fringe(clique(3, p, true), p, true), pathShape(3, p))
			}
			h.checkDataset(c.name, "sha256", fromG(c.qs, func(i int) string { return fmt.Sprintf("e%d", i) }), 16)
		}
		for _, s := range []shape{tie, twoStars(9), twoStars(8), twoStars(7), cycle(520, exP), cycle(505, exP), clique(7, exP, false)} {
			if strings.HasPrefix(s.name, "corpus") == false {
				s.name = "corpus:" + s.name
			}
			if *tier != "thorough" && (s.name == "corpus:clique" || (s.name == "corpus:cycle" && s.n == 505)) {
				continue // the near misses are expensive for the model; thorough tier only
			}
			nv := 4
			if s.name == tie.name {
				nv = 16
			}
			h.checkDataset(s.name, "sha256", fromG(s.qs, func(i int) string { return fmt.Sprintf("e%d", i) }), nv)
		}
	}
	for i := 0; i < n; i++ {
		mn := maxNodes
		if i%10 != 0 && mn > 6 {
			mn = 6 // most cases small; every tenth up to the tier's maximum
		}
		s := h.randomShape(mn)
		d := fromG(s.qs, labelFor(h.r))
		h.checkDataset(s.name, h.pickHash(), d, variants)
		if i%200 == 199 {
			if err := h.flushIfModel(); err != nil {
				fmt.Fprintln(os.Stderr, err)
				os.Exit(2)
			}
		}
	}
	{
		cnt := multigraphTrees(func(qs []vh.GQuad) {
			d := fromG(qs, func(i int) string { return fmt.Sprintf("e%d", i) })
			h.checkDataset("exhaustive-multigraph-trees", "sha256", d, 4)
		})
		rep.Exhaustive = append(rep.Exhaustive, fmt.Sprintf("all %d assignments of a non-empty subset of two named graphs to each edge of four 4-node trees (chain, vee, out-star, fork) over one predicate, sha256, 4 variants each", cnt))
	}
	if *tier == "thorough" {
		cnt := exhaustiveSmall(5, func(qs []vh.GQuad) {
			d := fromG(qs, func(i int) string { return fmt.Sprintf("e%d", i) })
			h.checkDataset("exhaustive4", "sha256", d, 4)
		})
		rep.Exhaustive = append(rep.Exhaustive, fmt.Sprintf("all %d blank-node-only graphs with <= 4 nodes and 1..5 edges over one predicate (self loops included), sha256, 4 variants each", cnt))
	} else {
		cnt := exhaustiveSmall(2, func(qs []vh.GQuad) {
			d := fromG(qs, func(i int) string { return fmt.Sprintf("e%d", i) })
			h.checkDataset("exhaustive4", "sha256", d, 4)
		})
		rep.Exhaustive = append(rep.Exhaustive, fmt.Sprintf("all %d blank-node-only graphs with <= 4 nodes and 1..2 edges over one predicate (self loops included), sha256, 4 variants each", cnt))
	}
	h.innerLoopFamilies(seed, *tier == "thorough", *scale)
	finish()
}

func (h *harness) flushIfModel() error {
	if *nomodel {
		return nil
	}
	return h.flush()
}

// replayLines: a replay is either raw protocol lines or the JSON written by ./check (ops of the recorded cases).
func replayLines(b []byte) []string {
	var j struct {
		Violations    []vh.Case `json:"violations"`
		Disagreements []vh.Case `json:"disagreements"`
	}
	if json.Unmarshal(b, &j) == nil && (len(j.Violations) > 0 || len(j.Disagreements) > 0) {
		var res []string
		for _, c := range append(j.Violations, j.Disagreements...) {
			res = append(res, c.Op)
		}
		return res
	}
	return strings.Split(strings.TrimSpace(string(b)), "\n")
}
