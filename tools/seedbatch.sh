#!/bin/sh
# tools/seedbatch.sh <out.tsv> <seedId:Prop[:tier]>...  — runs seedtest sequentially from the committed snapshot, one line per seed
OUT=$1; shift
for spec in "$@"; do
  ID=${spec%%:*}; REST=${spec#*:}; P=${REST%%:*}; T=quick; case "$REST" in *:*) T=${REST#*:};; esac
  L=/tmp/seedtest-$ID-$P.log
  VERIF_SNAPSHOT=1 nice -n 5 /verif/tools/seedtest.sh /verif/seeded/$ID/patch.diff $P $T > $L 2>&1
  RC=$?
  V=$(grep -m1 '^VIOLATION' $L | cut -c1-160)
  K=$(grep -E -m3 '^(VIOLATION|DISAGREEMENT|BROKEN)' $L | sed -n 2p | cut -c1-200)
  printf "%s\t%s\t%s\trc=%s\t%s\t%s\n" "$ID" "$P" "$T" "$RC" "$V" "$K" >> $OUT
done
