/-
  RdfModel.Spec.NQuadsGrammar — the N-Quads / N-Triples grammar (RDF 1.1 N-Quads §4, N-Triples §8),
  written as a Boolean recogniser straight from the productions; independent of the decoder model.

    nquadsDoc  ::= statement? (EOL statement)* EOL?
    statement  ::= subject predicate object graphLabel? '.'        (white space between tokens)
    IRIREF     ::= '<' ([^#x00-#x20<>"{}|^`\] | UCHAR)* '>'
    STRING_LITERAL_QUOTE ::= '"' ([^#x22#x5C#xA#xD] | ECHAR | UCHAR)* '"'
    BLANK_NODE_LABEL ::= '_:' (PN_CHARS_U | [0-9]) ((PN_CHARS | '.')* PN_CHARS)?
    LANGTAG    ::= '@' [a-zA-Z]+ ('-' [a-zA-Z0-9]+)*
    UCHAR      ::= '\u' HEX HEX HEX HEX | '\U' HEX×8 ;  ECHAR ::= '\' [tbnrf"'\]

  The recogniser is line-oriented: a document is a sequence of lines separated by LF (the only EOL
  the encoders emit; CR is accepted as part of EOL too), each line empty/blank or one statement.
  Character classes PN_CHARS_U / PN_CHARS are parameters (the T1 tables), since the repository has
  its own copies.
-/
import RdfModel.Model.Rune
namespace RdfModel.Spec.NQG
open RdfModel

def isHex (c : Nat) : Bool :=
  (0x30 ≤ c && c ≤ 0x39) || (0x41 ≤ c && c ≤ 0x46) || (0x61 ≤ c && c ≤ 0x66)
def isAlpha (c : Nat) : Bool := (0x61 ≤ c && c ≤ 0x7a) || (0x41 ≤ c && c ≤ 0x5a)
def isDigit (c : Nat) : Bool := 0x30 ≤ c && c ≤ 0x39
def isWs (c : Nat) : Bool := c = 0x20 || c = 0x09

/-- after `<`: returns the rest after the closing `>` -/
def iriref : List Nat → Option (List Nat)
  | [] => none
  | 0x3e :: rest => some rest
  | 0x5c :: 0x75 :: a :: b :: c :: d :: rest =>
    if isHex a && isHex b && isHex c && isHex d then iriref rest else none
  | 0x5c :: 0x55 :: a :: b :: c :: d :: e :: f :: g :: h :: rest =>
    if isHex a && isHex b && isHex c && isHex d && isHex e && isHex f && isHex g && isHex h
    then iriref rest else none
  | 0x5c :: _ => none
  | c :: rest =>
    if c ≤ 0x20 || c = 0x3c || c = 0x22 || c = 0x7b || c = 0x7d || c = 0x7c || c = 0x5e || c = 0x60
    then none else iriref rest

def isEcharLetter (c : Nat) : Bool :=
  c = 0x74 || c = 0x62 || c = 0x6e || c = 0x72 || c = 0x66 || c = 0x22 || c = 0x27 || c = 0x5c

/-- after `"`: returns the rest after the closing `"` -/
def stringLit : List Nat → Option (List Nat)
  | [] => none
  | 0x22 :: rest => some rest
  | 0x5c :: 0x75 :: a :: b :: c :: d :: rest =>
    if isHex a && isHex b && isHex c && isHex d then stringLit rest else none
  | 0x5c :: 0x55 :: a :: b :: c :: d :: e :: f :: g :: h :: rest =>
    if isHex a && isHex b && isHex c && isHex d && isHex e && isHex f && isHex g && isHex h
    then stringLit rest else none
  | 0x5c :: x :: rest => if isEcharLetter x then stringLit rest else none
  | 0x5c :: [] => none
  | c :: rest => if c = 0x0a || c = 0x0d then none else stringLit rest

/-- LANGTAG after `@`: longest match; returns the rest. -/
def langSub : List Nat → Bool → Option (List Nat)
  | [], fresh => if fresh then none else some []
  | c :: rest, fresh =>
    if isAlpha c || isDigit c then langSub rest false
    else if c = 0x2d then (if fresh then none else langSub rest true)
    else if fresh then none else some (c :: rest)

def langtag : List Nat → Bool → Option (List Nat)
  | [], seen => if seen then some [] else none
  | c :: rest, seen =>
    if isAlpha c then langtag rest true
    else if c = 0x2d then (if seen then langSub rest true else none)
    else if seen then some (c :: rest) else none

/-- BLANK_NODE_LABEL after `_:`; `pnU`, `pn` are the PN_CHARS_U / PN_CHARS classes. Longest match of
    `(PN_CHARS|'.')*` followed by giving back one trailing `.`-run is what the grammar means; since
    in a statement the label is followed by white space we require: body chars, last one PN_CHARS. -/
def bnLabelBody (pn : Nat → Bool) : List Nat → Option Nat → Option (List Nat)
  | [], last => (match last with | some l => if pn l then some [] else none | none => some [])
  | c :: rest, last =>
    if pn c || c = 0x2e then bnLabelBody pn rest (some c)
    else match last with
      | some l => if pn l then some (c :: rest) else none
      | none => some (c :: rest)

def bnLabel (pnU pn : Nat → Bool) : List Nat → Option (List Nat)
  | [] => none
  | c :: rest => if pnU c || isDigit c then bnLabelBody pn rest none else none

def skipWs : List Nat → List Nat
  | [] => []
  | c :: rest => if isWs c then skipWs rest else c :: rest

/-- subject / graphLabel -/
def node (pnU pn : Nat → Bool) : List Nat → Option (List Nat)
  | 0x3c :: rest => iriref rest
  | 0x5f :: 0x3a :: rest => bnLabel pnU pn rest
  | _ => none

def literal : List Nat → Option (List Nat)
  | 0x22 :: rest =>
    match stringLit rest with
    | none => none
    | some (0x40 :: r) => langtag r false
    | some (0x5e :: 0x5e :: 0x3c :: r) => iriref r
    | some r => some r
  | _ => none

def object (pnU pn : Nat → Bool) (inp : List Nat) : Option (List Nat) :=
  match inp with
  | 0x22 :: _ => literal inp
  | _ => node pnU pn inp

/-- One line (without its EOL): blank, or a statement. `quads` allows the optional graph label. -/
def line (pnU pn : Nat → Bool) (quads : Bool) (l : List Nat) : Bool :=
  match skipWs l with
  | [] => true
  | l1 =>
    match node pnU pn l1 with
    | none => false
    | some r1 =>
      match skipWs r1 with
      | 0x3c :: r2 =>
        (match iriref r2 with
          | none => false
          | some r3 =>
            match object pnU pn (skipWs r3) with
            | none => false
            | some r4 =>
              match skipWs r4 with
              | 0x2e :: r5 => (skipWs r5).isEmpty
              | r5 =>
                if quads then
                  match node pnU pn r5 with
                  | none => false
                  | some r6 =>
                    (match skipWs r6 with
                      | 0x2e :: r7 => (skipWs r7).isEmpty
                      | _ => false)
                else false)
      | _ => false

/-- Split at LF. -/
def splitLines (s : List Nat) : List (List Nat) := s.splitOn 0x0a

/-- A document: every LF-separated line (minus an optional trailing CR) is blank or a statement. -/
def accepts (pnU pn : Nat → Bool) (quads : Bool) (doc : List Nat) : Bool :=
  (splitLines doc).all (fun l =>
    let l' := if l.getLast? = some 0x0d then l.dropLast else l
    line pnU pn quads l')

end RdfModel.Spec.NQG
