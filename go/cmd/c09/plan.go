package main

// Plans (the Go mirror of RX.PDoc …): wire form, rendering to a tree, and the grammar-directed
// generator that builds a plan together with the graph it is meant to denote.

import (
	"fmt"
	"strings"

	"verifharness/vh"
)

type Scope struct{ Base, Lang *string }

type Subj struct {
	Kind string // about | id | nodeID | anon
	IRI  string
	Ref  string // about: reference; id: name; nodeID: label
	N    int
}

type PAttr struct {
	IsType        bool
	NS, Name, Val string
	Lang          *string
	IRI, Ref      string
}

type PName struct {
	Li       bool
	NS, Name string
	P        string
}

type PId struct{ IRI, Name string }

type PNode struct {
	Sc     Scope
	Subj   Subj
	Typ    *[2]string
	PAttrs []PAttr
	Props  []*PProp
}

type PProp struct {
	Kind    string // lit typed empty res bref banon pnode ptRes ptColl ptLit
	Sc      Scope
	Nm      PName
	ID      *PId
	Lex     string
	Lang    *string
	DT, Ref string
	IRI     string
	Label   string
	N       int
	DTAttr  *string
	PAttrs  []PAttr
	Node    *PNode
	Props   []*PProp
	Cells   []int
	Items   []*PNode
	PT      string
	Content string
}

type PDoc struct {
	Sc    Scope
	Nodes []*PNode
}

// ---------------------------------------------------------------- wire form

func optS(p *string) string {
	if p == nil {
		return "-"
	}
	return vh.XS(*p)
}

func (s Scope) wire() string { return "( " + optS(s.Base) + " " + optS(s.Lang) + " )" }

func (s Subj) wire() string {
	switch s.Kind {
	case "about":
		return "( about " + vh.XS(s.IRI) + " " + vh.XS(s.Ref) + " )"
	case "id":
		return "( id " + vh.XS(s.IRI) + " " + vh.XS(s.Ref) + " )"
	case "nodeID":
		return "( nodeID " + vh.XS(s.Ref) + " )"
	}
	return fmt.Sprintf("( anon n%d )", s.N)
}

func (a PAttr) wire() string {
	if a.IsType {
		return "( type " + vh.XS(a.IRI) + " " + vh.XS(a.Ref) + " )"
	}
	return "( lit " + vh.XS(a.NS) + " " + vh.XS(a.Name) + " " + vh.XS(a.Val) + " " + optS(a.Lang) + " )"
}

func wirePAttrs(as []PAttr) string {
	var sb strings.Builder
	sb.WriteString("(")
	for _, a := range as {
		sb.WriteString(" " + a.wire())
	}
	sb.WriteString(" )")
	return sb.String()
}

func (n PName) wire() string {
	if n.Li {
		return "( li " + vh.XS(n.P) + " )"
	}
	return "( el " + vh.XS(n.NS) + " " + vh.XS(n.Name) + " )"
}

func wireID(id *PId) string {
	if id == nil {
		return "-"
	}
	return "( " + vh.XS(id.IRI) + " " + vh.XS(id.Name) + " )"
}

func (n *PNode) wire(sb *strings.Builder) {
	sb.WriteString("( node " + n.Sc.wire() + " " + n.Subj.wire() + " ")
	if n.Typ == nil {
		sb.WriteString("-")
	} else {
		sb.WriteString("( " + vh.XS(n.Typ[0]) + " " + vh.XS(n.Typ[1]) + " )")
	}
	sb.WriteString(" " + wirePAttrs(n.PAttrs) + " (")
	for _, p := range n.Props {
		sb.WriteByte(' ')
		p.wire(sb)
	}
	sb.WriteString(" ) )")
}

func (p *PProp) wire(sb *strings.Builder) {
	sb.WriteString("( " + p.Kind + " " + p.Sc.wire() + " " + p.Nm.wire() + " " + wireID(p.ID) + " ")
	switch p.Kind {
	case "lit":
		sb.WriteString(vh.XS(p.Lex) + " " + optS(p.Lang))
	case "typed":
		sb.WriteString(vh.XS(p.Lex) + " " + vh.XS(p.DT) + " " + vh.XS(p.Ref))
	case "empty":
		sb.WriteString(optS(p.Lang))
	case "res":
		sb.WriteString(vh.XS(p.IRI) + " " + vh.XS(p.Ref) + " " + wirePAttrs(p.PAttrs))
	case "bref":
		sb.WriteString(vh.XS(p.Label) + " " + wirePAttrs(p.PAttrs))
	case "banon":
		sb.WriteString(fmt.Sprintf("n%d ", p.N) + optS(p.DTAttr) + " " + wirePAttrs(p.PAttrs))
	case "pnode":
		p.Node.wire(sb)
	case "ptRes":
		sb.WriteString(fmt.Sprintf("n%d (", p.N))
		for _, q := range p.Props {
			sb.WriteByte(' ')
			q.wire(sb)
		}
		sb.WriteString(" )")
	case "ptColl":
		sb.WriteString("(")
		for _, c := range p.Cells {
			sb.WriteString(fmt.Sprintf(" n%d", c))
		}
		sb.WriteString(" ) (")
		for _, it := range p.Items {
			sb.WriteByte(' ')
			it.wire(sb)
		}
		sb.WriteString(" )")
	case "ptLit":
		sb.WriteString(vh.XS(p.PT) + " " + vh.XS(p.Content))
	}
	sb.WriteString(" )")
}

func (d *PDoc) Wire() string {
	var sb strings.Builder
	sb.WriteString("( doc " + d.Sc.wire() + " (")
	for _, n := range d.Nodes {
		sb.WriteByte(' ')
		n.wire(&sb)
	}
	sb.WriteString(" ) )")
	return sb.String()
}

// ---------------------------------------------------------------- rendering (mirror of RX.renderDoc)

type attrInfo struct {
	base, lang, id, about, nodeID, resource, datatype, parseType *string
	props                                                        []Attr
}

func stdAttrs(i attrInfo) []Attr {
	var out []Attr
	add := func(ns, name string, v *string) {
		if v != nil {
			out = append(out, Attr{ns, name, *v})
		}
	}
	add(xmlNS, "base", i.base)
	add(xmlNS, "lang", i.lang)
	add(rdfNS, "ID", i.id)
	add(rdfNS, "about", i.about)
	add(rdfNS, "nodeID", i.nodeID)
	add(rdfNS, "resource", i.resource)
	add(rdfNS, "datatype", i.datatype)
	add(rdfNS, "parseType", i.parseType)
	return append(out, i.props...)
}

func renderPAttrs(as []PAttr) []Attr {
	var out []Attr
	for _, a := range as {
		if a.IsType {
			out = append(out, Attr{rdfNS, "type", a.Ref})
		} else {
			out = append(out, Attr{a.NS, a.Name, a.Val})
		}
	}
	return out
}

func sp(s string) *string { return &s }

func (n *PNode) render() *Node {
	i := attrInfo{base: n.Sc.Base, lang: n.Sc.Lang, props: renderPAttrs(n.PAttrs)}
	switch n.Subj.Kind {
	case "about":
		i.about = sp(n.Subj.Ref)
	case "id":
		i.id = sp(n.Subj.Ref)
	case "nodeID":
		i.nodeID = sp(n.Subj.Ref)
	}
	e := &Node{Kind: 'e', NS: rdfNS, Name: "Description", Attrs: stdAttrs(i)}
	if n.Typ != nil {
		e.NS, e.Name = n.Typ[0], n.Typ[1]
	}
	for _, p := range n.Props {
		e.Kids = append(e.Kids, p.render())
	}
	return e
}

func (p *PProp) render() *Node {
	i := attrInfo{base: p.Sc.Base, lang: p.Sc.Lang}
	if p.ID != nil {
		i.id = sp(p.ID.Name)
	}
	e := &Node{Kind: 'e', NS: p.Nm.NS, Name: p.Nm.Name}
	if p.Nm.Li {
		e.NS, e.Name = rdfNS, "li"
	}
	switch p.Kind {
	case "lit":
		e.Kids = []*Node{{Kind: 't', Text: p.Lex}}
	case "typed":
		i.datatype = sp(p.Ref)
		e.Kids = []*Node{{Kind: 't', Text: p.Lex}}
	case "empty":
	case "res":
		i.resource = sp(p.Ref)
		i.props = renderPAttrs(p.PAttrs)
	case "bref":
		i.nodeID = sp(p.Label)
		i.props = renderPAttrs(p.PAttrs)
	case "banon":
		i.datatype = p.DTAttr
		i.props = renderPAttrs(p.PAttrs)
	case "pnode":
		e.Kids = []*Node{p.Node.render()}
	case "ptRes":
		i.parseType = sp("Resource")
		for _, q := range p.Props {
			e.Kids = append(e.Kids, q.render())
		}
	case "ptColl":
		i.parseType = sp("Collection")
		for _, it := range p.Items {
			e.Kids = append(e.Kids, it.render())
		}
	case "ptLit":
		i.parseType = sp(p.PT)
		e.Kids = []*Node{{Kind: 'r', Text: p.Content}}
	}
	e.Attrs = stdAttrs(i)
	return e
}

func (d *PDoc) Render() *Node {
	e := &Node{Kind: 'e', NS: rdfNS, Name: "RDF", Attrs: stdAttrs(attrInfo{base: d.Sc.Base, lang: d.Sc.Lang})}
	for _, n := range d.Nodes {
		e.Kids = append(e.Kids, n.render())
	}
	return e
}

// ---------------------------------------------------------------- terms in wire form

const (
	xsdString     = "http://www.w3.org/2001/XMLSchema#string"
	rdfLangString = rdfNS + "langString"
	rdfXMLLiteral = rdfNS + "XMLLiteral"
)

func hx(s string) string { return vh.XS(s)[1:] }

func wIRI(i string) string   { return "I" + hx(i) }
func wGen(n int) string      { return fmt.Sprintf("G%d", n) }
func wNamed(l string) string { return "N" + hx(l) }
func wLit(lex, dt string, lang *string) string {
	if lang != nil {
		return "L" + hx(lex) + "." + hx(dt) + "." + hx(*lang)
	}
	return "L" + hx(lex) + "." + hx(dt) + ".-"
}
func wPlain(lex string, lang *string) string {
	if lang != nil {
		return wLit(lex, rdfLangString, lang)
	}
	return wLit(lex, xsdString, nil)
}
func wTriple(s, p, o string) string { return s + "," + wIRI(p) + "," + o }

// ---------------------------------------------------------------- generator

type genEnv struct {
	base string
	lang *string
}

type planGen struct {
	r       *vh.Rng
	next    int                // next generated blank node
	used    map[[2]string]bool // (base, rdf:ID value)
	triples []string           // intended triples in the order of RX.flatDoc
	iris    []string           // IRIs used so far (for sharing)
	budget  int                // remaining property elements
	feat    map[string]int
	breakWF bool // one deliberate inconsistency has been planted
	liProb  int  // > 0: probability (percent) of rdf:li as the name of a property element (wide family)
	simple  bool // property elements without nested content only (wide family)
}

var (
	basePool = []string{"http://b.example/d/doc", "http://b.example/d/e/f.rdf", "http://other.example/", "http://b.example/d/doc?q=1", "http://b.example/a/b/c/d", "http://b.example/d/doc#top",
		// boundary shapes of a base (default base and absolute xml:base): authority with EMPTY path (RFC 3986 5.2.3 merge), with
		// query, empty query, empty fragment ('#' at the end: the private forceFragment flag of iri.ParsedIRI), both
		"http://c.example", "http://c.example", "http://c.example?v=0", "http://c.example?", "http://c.example#", "http://b.example/d/doc?",
		"http://b.example/d/doc#", "http://b.example/d/doc?q=1#", "http://b.example/d/doc?#"}
	relBases = []string{"sub/", "../up/doc", "x", "./", "/rooted/base", "//auth.example/p/q", "e/f/g?x=y", "../../",
		"//auth.example", "//auth.example?k", "?", "?x#", "#", "doc#", "", "//c.example#"}
	absIRIs = []string{"http://a.example/x", "http://b.example/d/e/f", "http://b.example/d/doc", "urn:x:y", "http://b.example/d/doc#frag", "mailto:a@b.example", "http://a.example/é/ü?k=v#f", "http://a.example/a%20b", "http://b.example/", "http://b.example/d/"}
	relRefs = []string{"name", "sub/name", "../up", "./here", "#frag", "", "?q=1", "/rooted", "//other.example/p", "../../x", "a/./b/../c", "#a", "x#y", "é", ".", "..", "a//b", "doc",
		// a colon that belongs to the query or fragment, not to a scheme (RFC 3986 4.2 only restricts the first path segment)
		"#sec:1", "?t=12:30", "item?ref=urn:x", "p/q:r", "./a:b", "#a:b/c",
		// empty-path references: same-document, empty fragment, empty query
		"", "#", "?", "?#", "?v=1", "#f"}
	nsPool     = []string{"http://e/", "http://example.org/ns#", "http://e/", "urn:p:", "http://e/sub/", "http://www.w3.org/2000/01/rdf-schema#", "http://é.example/ns/"}
	localPool  = []string{"p", "q", "name", "é", "p-1", "_u", "a.b", "value", "P2", "li", "type", "Description", "x_y", "nodeID"}
	rdfProps   = []string{"value", "first", "rest", "subject", "predicate", "object", "_1", "_2", "_3", "_10", "type", "Seq", "Bag", "Alt", "Statement", "Property", "List", "nil", "XMLLiteral", "foo"}
	rdfClasses = []string{"Seq", "Bag", "Alt", "Statement", "Property", "List", "foo", "value"}
	idPool     = []string{"a", "b", "frag", "x1", "é", "_id", "i-d", "a.b"}
	labelPool  = []string{"b0", "b1", "n-1", "_x", "é1", "B", "x.y"}
	langPool   = []string{"en", "fr-CA", "de", "EN-us", "x-private", "zh-Hant-TW"}
	dtPool     = []string{"http://www.w3.org/2001/XMLSchema#integer", "http://www.w3.org/2001/XMLSchema#string", "http://e/dt", rdfNS + "XMLLiteral", rdfNS + "langString", "urn:dt:x"}
	textAlpha  = []string{"a", "b", "c", " ", " ", "x", "1", "<", ">", "&", "'", "\"", "\t", "\n", "\r", "é", "ü", "́", "😀", "]]>", "&amp;", "--", "  ", " ", " ", "{", "%"}
	rawPool    = []string{"", "plain", "a<b>c</b>", "x &amp; y", "<em>e</em> t", "a &lt; b", "<b><i>n</i></b>", "  sp  ", "<br></br>"}
	ptPool     = []string{"Literal", "Literal", "Literal", "Other", "literal", "resource", ""}
)

func (g *planGen) f(k string) { g.feat[k]++ }

func (g *planGen) text(min int) string {
	n := min + g.r.Intn(6)
	if g.r.Chance(5) {
		n += 20
	}
	var sb strings.Builder
	for i := 0; i < n; i++ {
		sb.WriteString(vh.Pick(g.r, textAlpha))
	}
	s := sb.String()
	if g.r.Chance(10) {
		s = " " + s
	}
	if g.r.Chance(10) {
		s += "\n"
	}
	return s
}

func (g *planGen) lang() string { return vh.Pick(g.r, langPool) }

// scope draws xml:base / xml:lang attributes for an element and returns the environment inside it.
func (g *planGen) scope(env genEnv, pBase, pLang int) (Scope, genEnv) {
	var sc Scope
	if g.r.Chance(pBase) {
		var b string
		if g.r.Chance(40) {
			b = vh.Pick(g.r, basePool)
		} else {
			b = vh.Pick(g.r, relBases)
		}
		for tries := 0; ; tries++ {
			nb := rfcResolve(env.base, b)
			c := c12Avoid(env.base, b)
			if c == "" {
				c = c12AvoidBase(nb)
			}
			if c == "" {
				break
			}
			g.f("c12-class-avoided:xml:base:" + c)
			b = vh.Pick(g.r, basePool[:6])
			if tries > 4 {
				b = "http://b.example/d/doc" // absolute, no fragment: only avoided under a base ending in '#'
				if c12Avoid(env.base, b) != "" {
					b = "http://b.example/d/doc#top"
				}
			}
		}
		sc.Base = &b
		env.base = rfcResolve(env.base, b)
		g.f("xml:base")
		g.baseShape(env.base)
	}
	if g.r.Chance(pLang) {
		var l string
		if g.r.Chance(25) {
			l = ""
			g.f("xml:lang-empty")
		} else {
			l = g.lang()
		}
		sc.Lang = &l
		if l == "" {
			env.lang = nil
		} else {
			env.lang = &l
		}
		g.f("xml:lang")
	}
	return sc, env
}

// baseShape counts the boundary shapes of a base in scope
func (g *planGen) baseShape(b string) {
	p := rfcSplit(b)
	if p.hasAuthority && p.path == "" {
		g.f("base:authority-empty-path")
	}
	if p.hasQuery && p.query == "" {
		g.f("base:empty-query")
	}
	if p.hasFragment && p.fragment == "" {
		g.f("base:empty-fragment")
	}
}

// ref draws a written reference and the IRI it denotes under env. A pair (base in scope, reference) inside a known
// deviation class of property C12 is redrawn (c12classes.go); the last resort is a fragment-only reference, which
// no class covers for the bases generated here (no dot segments in a base path).
func (g *planGen) ref(env genEnv) (iri, ref string) {
	for tries := 0; ; tries++ {
		iri, ref = g.ref0(env)
		c := c12Avoid(env.base, ref)
		if c == "" {
			break
		}
		g.f("c12-class-avoided:ref:" + c)
		if tries > 6 {
			ref = "#" + vh.Pick(g.r, idPool)
			iri = rfcResolve(env.base, ref)
			if c := c12Avoid(env.base, ref); c != "" {
				g.f("c12-class-NOT-avoided:" + c)
			}
			break
		}
	}
	if rp := rfcSplit(ref); !rp.hasScheme && !rp.hasAuthority && rp.path == "" {
		g.f("ref:empty-path")
		if bp := rfcSplit(env.base); bp.hasAuthority && bp.path == "" {
			g.f("ref:empty-path-under-base-with-empty-path")
		}
		if ref == "" && strings.HasSuffix(env.base, "#") {
			g.f("ref:same-document-under-base-with-empty-fragment")
		}
	}
	g.iris = append(g.iris, iri)
	if g.planted(1) {
		iri += "X" // intended value disagrees with the written form: wf must reject
	}
	return
}

func (g *planGen) ref0(env genEnv) (iri, ref string) {
	switch {
	case len(g.iris) > 0 && g.r.Chance(35):
		// an IRI already used, written absolutely or relatively when that works
		iri = vh.Pick(g.r, g.iris)
		ref = iri
		if g.r.Chance(60) {
			for _, cand := range relativeCandidates(env.base, iri) {
				if rfcResolve(env.base, cand) == iri && g.r.Chance(60) {
					ref = cand
					g.f("ref:relativised")
					break
				}
			}
		}
		if rfcResolve(env.base, ref) != iri { // an IRI with dot segments etc.: take what it resolves to
			iri = rfcResolve(env.base, ref)
		}
	case g.r.Chance(50):
		ref = vh.Pick(g.r, absIRIs)
		iri = rfcResolve(env.base, ref)
		g.f("ref:absolute")
	default:
		ref = vh.Pick(g.r, relRefs)
		iri = rfcResolve(env.base, ref)
		g.f("ref:relative")
	}
	return
}

func relativeCandidates(base, iri string) []string {
	var out []string
	b := rfcSplit(base)
	noFrag := base
	if b.hasFragment {
		noFrag = base[:len(base)-len(b.fragment)-1]
	}
	if iri == noFrag {
		out = append(out, "")
	}
	if strings.HasPrefix(iri, noFrag+"#") {
		out = append(out, iri[len(noFrag):])
	}
	if i := strings.LastIndexByte(noFrag, '/'); i >= 0 && strings.HasPrefix(iri, noFrag[:i+1]) && len(iri) > i+1 {
		out = append(out, iri[i+1:], "./"+iri[i+1:])
	}
	if b.hasScheme && strings.HasPrefix(iri, b.scheme+":") {
		out = append(out, iri[len(b.scheme)+1:])
	}
	return out
}

// planted: with small probability (once per plan) ask the caller to plant an inconsistency
func (g *planGen) planted(p int) bool {
	if !g.breakWF && g.r.Intn(1000) < p {
		g.breakWF = true
		g.f("planted-inconsistency")
		return true
	}
	return false
}

func (g *planGen) id(env genEnv) *PId {
	for tries := 0; tries < 3; tries++ {
		name := vh.Pick(g.r, idPool)
		if g.r.Chance(20) {
			name = fmt.Sprintf("%s%d", name, g.r.Intn(100))
		}
		if c := c12Avoid(env.base, "#"+name); c != "" {
			g.f("c12-class-avoided:rdf:ID:" + c)
			return nil
		}
		if !g.used[[2]string{env.base, name}] {
			g.used[[2]string{env.base, name}] = true
			return &PId{IRI: rfcResolve(env.base, "#"+name), Name: name}
		}
	}
	return nil
}

func (g *planGen) pname(li *int) PName {
	liP := 12
	if g.liProb > 0 {
		liP = g.liProb
	}
	switch {
	case g.r.Chance(liP):
		*li++
		g.f("rdf:li")
		return PName{Li: true, P: fmt.Sprintf("%s_%d", rdfNS, *li)}
	case g.liProb > 0 && g.r.Chance(50):
		// explicit rdf:_n between rdf:li elements: does not advance the counter, may collide with it
		g.f("name:rdf-_n-among-li")
		n := "_" + fmt.Sprint(vh.Pick(g.r, []int{1, 2, 9, 10, 11, 12, 99, 100, 101, 1000, *li, *li + 1, *li + 2}))
		if n == "_0" {
			n = "_1"
		}
		return PName{NS: rdfNS, Name: n, P: rdfNS + n}
	case g.r.Chance(12):
		g.f("name:rdf-ns")
		n := vh.Pick(g.r, rdfProps)
		return PName{NS: rdfNS, Name: n, P: rdfNS + n}
	}
	ns, n := vh.Pick(g.r, nsPool), vh.Pick(g.r, localPool)
	return PName{NS: ns, Name: n, P: ns + n}
}

func (g *planGen) pattrs(env genEnv, subj string, max int, allowRDF bool) []PAttr {
	var out []PAttr
	seen := map[[2]string]bool{}
	n := 0
	if g.r.Chance(35) {
		n = 1 + g.r.Intn(max)
	}
	for i := 0; i < n; i++ {
		if g.r.Chance(20) && !seen[[2]string{rdfNS, "type"}] {
			seen[[2]string{rdfNS, "type"}] = true
			iri, ref := g.ref(env)
			out = append(out, PAttr{IsType: true, IRI: iri, Ref: ref})
			g.triples = append(g.triples, wTriple(subj, rdfNS+"type", wIRI(iri)))
			g.f("pattr:type")
			continue
		}
		ns, name := vh.Pick(g.r, nsPool), vh.Pick(g.r, localPool)
		if allowRDF && g.r.Chance(15) {
			ns, name = rdfNS, vh.Pick(g.r, []string{"value", "_1", "_7", "first", "Seq", "foo", "subject"})
			g.f("pattr:rdf-ns")
		}
		if seen[[2]string{ns, name}] {
			continue
		}
		seen[[2]string{ns, name}] = true
		val := g.text(0)
		out = append(out, PAttr{NS: ns, Name: name, Val: val, Lang: env.lang})
		g.triples = append(g.triples, wTriple(subj, ns+name, wPlain(val, env.lang)))
		g.f("pattr:lit")
	}
	return out
}

func (g *planGen) reify(id *PId, s, p, o string) {
	if id == nil {
		return
	}
	r := wIRI(id.IRI)
	g.triples = append(g.triples,
		wTriple(r, rdfNS+"type", wIRI(rdfNS+"Statement")),
		wTriple(r, rdfNS+"subject", s),
		wTriple(r, rdfNS+"predicate", wIRI(p)),
		wTriple(r, rdfNS+"object", o))
	g.f("reify")
}

func (g *planGen) subj(env genEnv) (Subj, string) {
	switch g.r.Intn(10) {
	case 0, 1, 2, 3:
		iri, ref := g.ref(env)
		g.f("subj:about")
		return Subj{Kind: "about", IRI: iri, Ref: ref}, wIRI(iri)
	case 4, 5:
		if id := g.id(env); id != nil {
			g.f("subj:id")
			g.iris = append(g.iris, id.IRI)
			return Subj{Kind: "id", IRI: id.IRI, Ref: id.Name}, wIRI(id.IRI)
		}
		fallthrough
	case 6, 7:
		l := vh.Pick(g.r, labelPool)
		g.f("subj:nodeID")
		return Subj{Kind: "nodeID", Ref: l}, wNamed(l)
	}
	n := g.next
	g.next++
	g.f("subj:anon")
	return Subj{Kind: "anon", N: n}, wGen(n)
}

func (g *planGen) node(env genEnv, depth int) (*PNode, string) {
	n := &PNode{}
	n.Sc, env = g.scope(env, 8, 15)
	var s string
	n.Subj, s = g.subj(env)
	if g.r.Chance(35) {
		var t [2]string
		if g.r.Chance(20) {
			t = [2]string{rdfNS, vh.Pick(g.r, rdfClasses)}
		} else {
			t = [2]string{vh.Pick(g.r, nsPool), vh.Pick(g.r, localPool)}
		}
		n.Typ = &t
		g.triples = append(g.triples, wTriple(s, rdfNS+"type", wIRI(t[0]+t[1])))
		g.f("node:typed")
	}
	n.PAttrs = g.pattrs(env, s, 3, true)
	n.Props = g.props(env, s, depth)
	return n, s
}

func (g *planGen) props(env genEnv, s string, depth int) []*PProp {
	var out []*PProp
	li := 0
	k := g.r.Intn(4)
	if depth == 0 {
		k = 1 + g.r.Intn(4)
	}
	for i := 0; i < k && g.budget > 0; i++ {
		g.budget--
		out = append(out, g.prop(env, s, &li, depth))
	}
	return out
}

func (g *planGen) prop(env genEnv, s string, li *int, depth int) *PProp {
	p := &PProp{}
	p.Sc, env = g.scope(env, 6, 15)
	p.Nm = g.pname(li)
	pred := p.Nm.P
	if g.r.Chance(12) {
		p.ID = g.id(env)
	}
	kind := g.r.Intn(100)
	if (depth >= 4 || g.simple) && kind >= 55 {
		kind = g.r.Intn(55)
	}
	emit := func(o string) {
		g.triples = append(g.triples, wTriple(s, pred, o))
		g.reify(p.ID, s, pred, o)
	}
	switch {
	case kind < 22: // literal
		p.Kind, p.Lex, p.Lang = "lit", g.text(1), env.lang
		if g.planted(1) {
			p.Lang = sp("xx")
		}
		emit(wPlain(p.Lex, p.Lang))
	case kind < 32:
		p.Kind, p.Lex = "typed", g.text(1)
		if g.r.Chance(60) {
			p.Ref = vh.Pick(g.r, dtPool)
			p.DT = rfcResolve(env.base, p.Ref)
			if c := c12Avoid(env.base, p.Ref); c != "" {
				g.f("c12-class-avoided:rdf:datatype:" + c)
				p.DT, p.Ref = g.ref(env)
			}
		} else {
			p.DT, p.Ref = g.ref(env)
		}
		emit(wLit(p.Lex, p.DT, nil))
	case kind < 38:
		p.Kind, p.Lang = "empty", env.lang
		emit(wPlain("", p.Lang))
	case kind < 48:
		p.Kind = "res"
		p.IRI, p.Ref = g.ref(env)
		emit(wIRI(p.IRI))
		p.PAttrs = g.pattrs(env, wIRI(p.IRI), 2, true)
	case kind < 55:
		p.Kind, p.Label = "bref", vh.Pick(g.r, labelPool)
		emit(wNamed(p.Label))
		p.PAttrs = g.pattrs(env, wNamed(p.Label), 2, true)
	case kind < 60:
		p.Kind = "banon"
		p.N = g.next
		g.next++
		emit(wGen(p.N))
		for len(p.PAttrs) == 0 {
			p.PAttrs = g.pattrs(env, wGen(p.N), 2, true)
			if len(p.PAttrs) == 0 && g.r.Chance(20) {
				p.DTAttr = sp(vh.Pick(g.r, dtPool))
				break
			}
		}
	case kind < 75:
		p.Kind = "pnode"
		// RX.flatProp puts the statement (and its reification) before the node's triples, but the
		// node's subject is known only after generating it
		at := len(g.triples)
		var o string
		p.Node, o = g.node(env, depth+1)
		rest := append([]string{}, g.triples[at:]...)
		g.triples = g.triples[:at]
		emit(o)
		g.triples = append(g.triples, rest...)
	case kind < 83:
		p.Kind = "ptRes"
		p.N = g.next
		g.next++
		emit(wGen(p.N))
		p.Props = g.props(env, wGen(p.N), depth+1)
		g.f("parseType:Resource")
	case kind < 93:
		p.Kind = "ptColl"
		k := g.r.Intn(4)
		prevS, prevP := s, pred
		first := true
		for i := 0; i < k; i++ {
			c := g.next
			g.next++
			p.Cells = append(p.Cells, c)
			g.triples = append(g.triples, wTriple(prevS, prevP, wGen(c)))
			if first {
				g.reify(p.ID, prevS, prevP, wGen(c))
				first = false
			}
			at := len(g.triples)
			g.triples = append(g.triples, "")
			it, o := g.node(env, depth+1)
			g.triples[at] = wTriple(wGen(c), rdfNS+"first", o)
			p.Items = append(p.Items, it)
			prevS, prevP = wGen(c), rdfNS+"rest"
		}
		g.triples = append(g.triples, wTriple(prevS, prevP, wIRI(rdfNS+"nil")))
		if first {
			g.reify(p.ID, prevS, prevP, wIRI(rdfNS+"nil"))
		}
		g.f("parseType:Collection")
	default:
		p.Kind, p.PT, p.Content = "ptLit", vh.Pick(g.r, ptPool), vh.Pick(g.r, rawPool)
		emit(wLit(p.Content, rdfXMLLiteral, nil))
		g.f("parseType:Literal")
	}
	g.f("prop:" + p.Kind)
	return p
}

// ---------------------------------------------------------------- the "wide" family
//
// Size boundaries at low frequency: node elements with 9, 10, 11, 99, 100, 101 (and other counts of)
// rdf:li children, mixed with explicit rdf:_n and with a nested parseType="Resource" that has its own
// counter; many property elements; many property attributes; long character data and attribute values
// (around the 4096 / 65536 byte marks of buffered readers); nesting to depth 50.

var (
	liCounts   = []int{9, 10, 11, 99, 100, 101}
	textMarks  = []int{255, 256, 4095, 4096, 4097, 8192, 65535, 65536, 65537}
	wideModes  = []string{"li", "li", "props", "attrs", "text", "deep"}
	deepLevels = []int{12, 25, 50}
)

func (g *planGen) count(marks []int, max int) int {
	if g.r.Chance(70) {
		return vh.Pick(g.r, marks)
	}
	return 1 + g.r.Intn(max)
}

// longText: n units of the text alphabet (n counts units, the byte length lands near the mark)
func (g *planGen) longText(n int) string {
	var sb strings.Builder
	for sb.Len() < n {
		if g.r.Chance(80) {
			sb.WriteString(vh.Pick(g.r, []string{"a", "b", " ", "x", "1"}))
		} else {
			sb.WriteString(vh.Pick(g.r, textAlpha))
		}
	}
	return sb.String()
}

// liRun appends count simple property elements, mostly rdf:li, to props (subject s, counter li).
func (g *planGen) liRun(env genEnv, s string, li *int, count, depth int, props *[]*PProp) {
	saveP, saveS := g.liProb, g.simple
	g.liProb, g.simple = 85, true
	for i := 0; i < count; i++ {
		*props = append(*props, g.prop(env, s, li, depth))
	}
	g.liProb, g.simple = saveP, saveS
}

func (g *planGen) wideNode(env genEnv, mode string) *PNode {
	g.f("wide:" + mode)
	n := &PNode{}
	n.Sc, env = g.scope(env, 8, 15)
	var s string
	n.Subj, s = g.subj(env)
	li := 0
	switch mode {
	case "li":
		count := g.count(liCounts, 40)
		nestedAt := -1
		if g.r.Chance(50) {
			nestedAt = g.r.Intn(count + 1)
		}
		before := count
		if nestedAt >= 0 {
			before = nestedAt
		}
		g.liRun(env, s, &li, before, 1, &n.Props)
		if nestedAt >= 0 {
			// parseType="Resource" in the middle: its children count from 1 again, and the outer
			// counter goes on afterwards
			p := &PProp{Kind: "ptRes"}
			var e2 genEnv
			p.Sc, e2 = g.scope(env, 6, 15)
			g.liProb = 85
			p.Nm = g.pname(&li)
			g.liProb = 0
			p.N = g.next
			g.next++
			g.triples = append(g.triples, wTriple(s, p.Nm.P, wGen(p.N)))
			li2 := 0
			g.liRun(e2, wGen(p.N), &li2, g.count(liCounts, 15), 2, &p.Props)
			n.Props = append(n.Props, p)
			g.f("wide:li-nested-parseType-Resource")
			g.liRun(env, s, &li, count-before, 1, &n.Props)
		}
	case "props":
		count := g.count([]int{50, 64, 100, 128, 256, 300}, 80)
		saveB := g.budget
		g.budget = 10
		for i := 0; i < count; i++ {
			n.Props = append(n.Props, g.prop(env, s, &li, 3))
		}
		g.budget = saveB
	case "attrs":
		count := g.count([]int{16, 32, 64, 100, 128}, 60)
		for i := 0; i < count; i++ {
			ns, name := vh.Pick(g.r, nsPool), fmt.Sprintf("%s%d", vh.Pick(g.r, []string{"a", "p-", "é", "_"}), i)
			val := g.text(0)
			n.PAttrs = append(n.PAttrs, PAttr{NS: ns, Name: name, Val: val, Lang: env.lang})
			g.triples = append(g.triples, wTriple(s, ns+name, wPlain(val, env.lang)))
		}
		// the same on an empty property element with rdf:resource
		p := &PProp{Kind: "res"}
		var e2 genEnv
		p.Sc, e2 = g.scope(env, 6, 15)
		p.Nm = g.pname(&li)
		p.IRI, p.Ref = g.ref(e2)
		g.triples = append(g.triples, wTriple(s, p.Nm.P, wIRI(p.IRI)))
		for i := 0; i < count/2; i++ {
			ns, name := vh.Pick(g.r, nsPool), fmt.Sprintf("q%d", i)
			val := g.text(0)
			p.PAttrs = append(p.PAttrs, PAttr{NS: ns, Name: name, Val: val, Lang: e2.lang})
			g.triples = append(g.triples, wTriple(wIRI(p.IRI), ns+name, wPlain(val, e2.lang)))
		}
		n.Props = append(n.Props, p)
	case "text":
		// long character data, long attribute value, long rdf:about reference
		val := g.longText(g.count(textMarks, 3000))
		n.PAttrs = append(n.PAttrs, PAttr{NS: "http://e/", Name: "long", Val: val, Lang: env.lang})
		g.triples = append(g.triples, wTriple(s, "http://e/long", wPlain(val, env.lang)))
		for i := 1 + g.r.Intn(2); i > 0; i-- {
			p := &PProp{Kind: "lit"}
			var e2 genEnv
			p.Sc, e2 = g.scope(env, 6, 15)
			p.Nm = g.pname(&li)
			p.Lex, p.Lang = g.longText(g.count(textMarks, 3000)), e2.lang
			g.triples = append(g.triples, wTriple(s, p.Nm.P, wPlain(p.Lex, p.Lang)))
			n.Props = append(n.Props, p)
		}
		long := "http://a.example/" + strings.Repeat("seg/", g.count([]int{64, 1024, 1100}, 200)) + "x"
		if c := c12Avoid(env.base, long); c != "" {
			g.f("c12-class-avoided:long-ref:" + c)
			long += "#f" // a reference with a fragment of its own is outside base-fragment-inherited
		}
		p := &PProp{Kind: "res", IRI: long, Ref: long}
		p.Nm = g.pname(&li)
		g.triples = append(g.triples, wTriple(s, p.Nm.P, wIRI(long)))
		n.Props = append(n.Props, p)
	case "deep":
		n.Props = append(n.Props, g.deepProp(env, s, vh.Pick(g.r, deepLevels)))
	}
	return n
}

// deepProp: a chain of d nested elements below the property (node elements, parseType Resource and
// parseType Collection alternate at random)
func (g *planGen) deepProp(env genEnv, s string, d int) *PProp {
	p := &PProp{}
	p.Sc, env = g.scope(env, 4, 10)
	li := 0
	p.Nm = g.pname(&li)
	pred := p.Nm.P
	if d <= 0 {
		p.Kind, p.Lex, p.Lang = "lit", g.text(1), env.lang
		g.triples = append(g.triples, wTriple(s, pred, wPlain(p.Lex, p.Lang)))
		return p
	}
	deepNode := func(e genEnv, d int) (*PNode, string) {
		n := &PNode{}
		n.Sc, e = g.scope(e, 4, 10)
		var o string
		n.Subj, o = g.subj(e)
		n.Props = []*PProp{g.deepProp(e, o, d-1)}
		return n, o
	}
	switch g.r.Intn(3) {
	case 0:
		p.Kind = "pnode"
		at := len(g.triples)
		var o string
		p.Node, o = deepNode(env, d)
		rest := append([]string{}, g.triples[at:]...)
		g.triples = g.triples[:at]
		g.triples = append(g.triples, wTriple(s, pred, o))
		g.triples = append(g.triples, rest...)
	case 1:
		p.Kind = "ptRes"
		p.N = g.next
		g.next++
		g.triples = append(g.triples, wTriple(s, pred, wGen(p.N)))
		p.Props = []*PProp{g.deepProp(env, wGen(p.N), d-1)}
	default:
		p.Kind = "ptColl"
		c := g.next
		g.next++
		p.Cells = []int{c}
		g.triples = append(g.triples, wTriple(s, pred, wGen(c)))
		at := len(g.triples)
		g.triples = append(g.triples, "")
		it, o := deepNode(env, d)
		g.triples[at] = wTriple(wGen(c), rdfNS+"first", o)
		p.Items = []*PNode{it}
		g.triples = append(g.triples, wTriple(wGen(c), rdfNS+"rest", wIRI(rdfNS+"nil")))
	}
	return p
}

// Plan generates a document plan and the triples it is meant to denote (order of RX.flatDoc).
func genPlan(r *vh.Rng, feat map[string]int) (*PDoc, string, []string, bool) {
	g := &planGen{r: r, used: map[[2]string]bool{}, feat: feat, budget: 3 + r.Intn(12)}
	base := vh.Pick(r, basePool)
	env := genEnv{base: base}
	g.baseShape(base)
	d := &PDoc{}
	d.Sc, env = g.scope(env, 15, 25)
	k := 1 + r.Intn(3)
	if r.Chance(3) {
		k = 0
	}
	wideAt := -1
	if r.Chance(3) {
		if k == 0 {
			k = 1
		}
		wideAt = r.Intn(k)
	}
	for i := 0; i < k; i++ {
		if i == wideAt {
			d.Nodes = append(d.Nodes, g.wideNode(env, vh.Pick(r, wideModes)))
			continue
		}
		n, _ := g.node(env, 0)
		d.Nodes = append(d.Nodes, n)
	}
	return d, base, g.triples, g.breakWF
}
