package main

// T2 for C05/C06 (decoders without a parsing model):
//   Gen/EmitSites.lean  — every composite literal of type rdf.Triple / rdf.Quad, and every assignment
//                         to a field of such a value, in each decoder package, with the static class of
//                         each position (concrete value type: cannot be nil; interface: may be nil).
//   Gen/LatchFacts.lean — shape of every decoder's Next()/Err(): where the `if d.err != nil { return
//                         false }` guard sits, what runs before it, and whether each `return false`
//                         is the guard, directly follows a store to the error field, or neither.
// go/parser + go/types over the repository's sources (VERIF_REPO, default /repo); imports are
// resolved from compiler export data (`go list -export`). Anything outside the shapes understood
// here is emitted as `unknown` and makes the consuming theorem fail.

import (
	"bytes"
	"encoding/json"
	"fmt"
	"go/ast"
	"go/importer"
	"go/parser"
	"go/token"
	"go/types"
	"io"
	"os"
	"os/exec"
	"path/filepath"
	"sort"
	"strings"
)

func init() { generators["c05x"] = genC05X }

const rdfkitMod = "github.com/dpb587/rdfkit-go"

var c05xPackages = []string{
	"encoding/ntriples", "encoding/nquads", "encoding/turtle", "encoding/trig", "encoding/rdfjson",
	"encoding/rdfxml", "encoding/jsonld", "encoding/htmlrdfa", "encoding/htmlmicrodata", "encoding/htmljsonld",
	"encoding/html/htmldefaults", "encoding/encodingutil",
}

type listedPkg struct {
	ImportPath string
	Dir        string
	Export     string
	GoFiles    []string
}

func c05xRepo() string {
	if v := os.Getenv("VERIF_REPO"); v != "" {
		return v
	}
	return "/repo"
}

func goList(repo string, pkgs []string) (map[string]*listedPkg, error) {
	args := []string{"list", "-export", "-deps", "-json=ImportPath,Dir,Export,GoFiles"}
	for _, p := range pkgs {
		args = append(args, rdfkitMod+"/"+p)
	}
	cmd := exec.Command("go", args...)
	cmd.Dir = repo
	cmd.Env = append(os.Environ(), "GOFLAGS=-mod=mod", "GOPROXY=off")
	var stderr bytes.Buffer
	cmd.Stderr = &stderr
	out, err := cmd.Output()
	if err != nil {
		return nil, fmt.Errorf("go list: %v: %s", err, stderr.String())
	}
	res := map[string]*listedPkg{}
	dec := json.NewDecoder(bytes.NewReader(out))
	for {
		var p listedPkg
		if err := dec.Decode(&p); err == io.EOF {
			break
		} else if err != nil {
			return nil, err
		}
		res[p.ImportPath] = &p
	}
	return res, nil
}

// ---------------------------------------------------------------- emit sites

type emitSite struct {
	Pkg, Func string
	Ord       int
	Kind      string // Triple | Quad | assign
	S, P, O, G string // value | iface | absent | nil | copy | untouched | unknown
	Expr      [4]string
}

func isRdfNamed(t types.Type, name string) bool {
	n, ok := t.(*types.Named)
	if !ok {
		if a, ok2 := t.(*types.Alias); ok2 {
			return isRdfNamed(types.Unalias(a), name)
		}
		return false
	}
	return n.Obj().Pkg() != nil && n.Obj().Pkg().Path() == rdfkitMod+"/rdf" && n.Obj().Name() == name
}

func classOfExpr(info *types.Info, e ast.Expr) string {
	if id, ok := e.(*ast.Ident); ok && id.Name == "nil" {
		if _, isNil := info.Uses[id].(*types.Nil); isNil {
			return "nil"
		}
	}
	tv, ok := info.Types[e]
	if !ok || tv.Type == nil {
		return "unknown"
	}
	t := tv.Type
	if isRdfNamed(t, "IRI") || isRdfNamed(t, "BlankNode") || isRdfNamed(t, "Literal") {
		return "value"
	}
	if _, isIface := t.Underlying().(*types.Interface); isIface {
		return "iface"
	}
	if b, isBasic := t.(*types.Basic); isBasic && b.Kind() == types.UntypedNil {
		return "nil"
	}
	return "unknown"
}

func exprString(fset *token.FileSet, e ast.Expr) string {
	if e == nil {
		return ""
	}
	var sb strings.Builder
	var w func(e ast.Expr)
	w = func(e ast.Expr) {
		switch v := e.(type) {
		case *ast.Ident:
			sb.WriteString(v.Name)
		case *ast.SelectorExpr:
			w(v.X)
			sb.WriteString("." + v.Sel.Name)
		case *ast.CallExpr:
			w(v.Fun)
			sb.WriteString("(…)")
		case *ast.TypeAssertExpr:
			w(v.X)
			sb.WriteString(".(…)")
		case *ast.IndexExpr:
			w(v.X)
			sb.WriteString("[…]")
		case *ast.CompositeLit:
			if v.Type != nil {
				w(v.Type)
			}
			sb.WriteString("{…}")
		case *ast.StarExpr:
			sb.WriteString("*")
			w(v.X)
		case *ast.ParenExpr:
			w(v.X)
		default:
			sb.WriteString(fmt.Sprintf("%T", e))
		}
	}
	w(e)
	return sb.String()
}

func (s *emitSite) setTripleFields(fset *token.FileSet, info *types.Info, lit *ast.CompositeLit) {
	s.S, s.P, s.O = "absent", "absent", "absent"
	for i, el := range lit.Elts {
		kv, ok := el.(*ast.KeyValueExpr)
		if !ok { // positional
			if len(lit.Elts) != 3 {
				s.S, s.P, s.O = "unknown", "unknown", "unknown"
				return
			}
			c := classOfExpr(info, el)
			switch i {
			case 0:
				s.S, s.Expr[0] = c, exprString(fset, el)
			case 1:
				s.P, s.Expr[1] = c, exprString(fset, el)
			case 2:
				s.O, s.Expr[2] = c, exprString(fset, el)
			}
			continue
		}
		k, _ := kv.Key.(*ast.Ident)
		if k == nil {
			s.S = "unknown"
			continue
		}
		c := classOfExpr(info, kv.Value)
		switch k.Name {
		case "Subject":
			s.S, s.Expr[0] = c, exprString(fset, kv.Value)
		case "Predicate":
			s.P, s.Expr[1] = c, exprString(fset, kv.Value)
		case "Object":
			s.O, s.Expr[2] = c, exprString(fset, kv.Value)
		default:
			s.S = "unknown"
		}
	}
}

func collectEmitSites(fset *token.FileSet, info *types.Info, pkgRel string, files []*ast.File) []emitSite {
	var sites []emitSite
	for _, f := range files {
		for _, decl := range f.Decls {
			fd, ok := decl.(*ast.FuncDecl)
			if !ok || fd.Body == nil {
				continue
			}
			fname := fd.Name.Name
			if fd.Recv != nil && len(fd.Recv.List) == 1 {
				fname = "(" + exprString(fset, fd.Recv.List[0].Type) + ")." + fname
			}
			ord := 0
			consumed := map[*ast.CompositeLit]bool{}
			ast.Inspect(fd.Body, func(n ast.Node) bool {
				switch v := n.(type) {
				case *ast.CompositeLit:
					if consumed[v] {
						return true
					}
					t := info.TypeOf(v)
					if t == nil {
						return true
					}
					switch {
					case isRdfNamed(t, "Triple"):
						s := emitSite{Pkg: pkgRel, Func: fname, Ord: ord, Kind: "Triple", G: "absent"}
						ord++
						s.setTripleFields(fset, info, v)
						sites = append(sites, s)
					case isRdfNamed(t, "Quad"):
						s := emitSite{Pkg: pkgRel, Func: fname, Ord: ord, Kind: "Quad", S: "absent", P: "absent", O: "absent", G: "absent"}
						ord++
						for _, el := range v.Elts {
							kv, ok := el.(*ast.KeyValueExpr)
							if !ok {
								s.S, s.P, s.O, s.G = "unknown", "unknown", "unknown", "unknown"
								break
							}
							k, _ := kv.Key.(*ast.Ident)
							switch {
							case k != nil && k.Name == "Triple":
								if inner, ok := kv.Value.(*ast.CompositeLit); ok && isRdfNamed(info.TypeOf(inner), "Triple") {
									consumed[inner] = true
									s.setTripleFields(fset, info, inner)
								} else {
									s.S, s.P, s.O = "copy", "copy", "copy"
									s.Expr[0] = exprString(fset, kv.Value)
								}
							case k != nil && k.Name == "GraphName":
								s.G, s.Expr[3] = classOfExpr(info, kv.Value), exprString(fset, kv.Value)
							default:
								s.G = "unknown"
							}
						}
						sites = append(sites, s)
					}
				case *ast.AssignStmt:
					for i, lhs := range v.Lhs {
						sel, ok := lhs.(*ast.SelectorExpr)
						if !ok {
							continue
						}
						xt := info.TypeOf(sel.X)
						if xt == nil || !(isRdfNamed(xt, "Triple") || isRdfNamed(xt, "Quad")) {
							continue
						}
						s := emitSite{Pkg: pkgRel, Func: fname, Ord: ord, Kind: "assign", S: "untouched", P: "untouched", O: "untouched", G: "untouched"}
						ord++
						c := "unknown"
						var rhs ast.Expr
						if len(v.Rhs) == len(v.Lhs) {
							rhs = v.Rhs[i]
							c = classOfExpr(info, rhs)
						}
						switch sel.Sel.Name {
						case "Subject":
							s.S, s.Expr[0] = c, exprString(fset, rhs)
						case "Predicate":
							s.P, s.Expr[1] = c, exprString(fset, rhs)
						case "Object":
							s.O, s.Expr[2] = c, exprString(fset, rhs)
						case "GraphName":
							s.G, s.Expr[3] = c, exprString(fset, rhs)
						case "Triple":
							s.S, s.P, s.O = "copy", "copy", "copy"
							s.Expr[0] = exprString(fset, rhs)
						default:
							s.S = "unknown"
						}
						sites = append(sites, s)
					}
				}
				return true
			})
		}
	}
	return sites
}

// ---------------------------------------------------------------- latch facts

type latchFact struct {
	Decoder      string // <pkg>.<Type>
	Guard        string // first | loopFirst | afterPrelude | delegate | none
	PreludeCalls int    // method calls on the receiver that run before the guard
	Returns      []string // for each `return false` of Next in source order: guard | stored | bare
	OtherReturns int      // `return true` / `return <expr>`
	ErrIsField   string   // field | delegate | unknown
}

func isErrNotNil(e ast.Expr, recv string) bool {
	b, ok := e.(*ast.BinaryExpr)
	if !ok || b.Op != token.NEQ {
		return false
	}
	id, ok := b.Y.(*ast.Ident)
	if !ok || id.Name != "nil" {
		return false
	}
	return isRecvErr(b.X, recv)
}

func isRecvErr(e ast.Expr, recv string) bool {
	sel, ok := e.(*ast.SelectorExpr)
	if !ok || sel.Sel.Name != "err" {
		return false
	}
	x, ok := sel.X.(*ast.Ident)
	return ok && x.Name == recv
}

func isReturnFalse(s ast.Stmt) bool {
	r, ok := s.(*ast.ReturnStmt)
	if !ok || len(r.Results) != 1 {
		return false
	}
	id, ok := r.Results[0].(*ast.Ident)
	return ok && id.Name == "false"
}

func isGuardIf(s ast.Stmt, recv string) (*ast.IfStmt, bool) {
	is, ok := s.(*ast.IfStmt)
	if !ok || is.Init != nil || !isErrNotNil(is.Cond, recv) || len(is.Body.List) != 1 || !isReturnFalse(is.Body.List[0]) {
		return nil, false
	}
	return is, true
}

func countRecvCalls(n ast.Node, recv string) int {
	c := 0
	ast.Inspect(n, func(x ast.Node) bool {
		if call, ok := x.(*ast.CallExpr); ok {
			if sel, ok := call.Fun.(*ast.SelectorExpr); ok {
				if id, ok := sel.X.(*ast.Ident); ok && id.Name == recv {
					c++
				}
			}
		}
		return true
	})
	return c
}

func assignsRecvErr(s ast.Stmt, recv string) bool {
	a, ok := s.(*ast.AssignStmt)
	if !ok {
		return false
	}
	for _, l := range a.Lhs {
		if isRecvErr(l, recv) {
			return true
		}
	}
	return false
}

func extractLatch(pkgRel string, files []*ast.File) []latchFact {
	type methods struct{ next, err *ast.FuncDecl }
	byType := map[string]*methods{}
	for _, f := range files {
		for _, decl := range f.Decls {
			fd, ok := decl.(*ast.FuncDecl)
			if !ok || fd.Recv == nil || len(fd.Recv.List) != 1 || fd.Body == nil {
				continue
			}
			tn := ""
			switch t := fd.Recv.List[0].Type.(type) {
			case *ast.StarExpr:
				if id, ok := t.X.(*ast.Ident); ok {
					tn = id.Name
				}
			case *ast.Ident:
				tn = t.Name
			}
			if tn == "" {
				continue
			}
			if byType[tn] == nil {
				byType[tn] = &methods{}
			}
			if fd.Name.Name == "Next" && fd.Type.Params.NumFields() == 0 {
				byType[tn].next = fd
			}
			if fd.Name.Name == "Err" && fd.Type.Params.NumFields() == 0 {
				byType[tn].err = fd
			}
		}
	}
	var out []latchFact
	for tn, m := range byType {
		if m.next == nil || m.err == nil {
			continue
		}
		recv := ""
		if len(m.next.Recv.List[0].Names) == 1 {
			recv = m.next.Recv.List[0].Names[0].Name
		}
		lf := latchFact{Decoder: pkgRel + "." + tn, Guard: "none", ErrIsField: "unknown"}
		// Err(): `return recv.err` or `return recv.<inner>.Err()`
		if len(m.err.Body.List) == 1 {
			if r, ok := m.err.Body.List[0].(*ast.ReturnStmt); ok && len(r.Results) == 1 {
				erecv := ""
				if len(m.err.Recv.List[0].Names) == 1 {
					erecv = m.err.Recv.List[0].Names[0].Name
				}
				if isRecvErr(r.Results[0], erecv) {
					lf.ErrIsField = "field"
				} else if call, ok := r.Results[0].(*ast.CallExpr); ok {
					if sel, ok := call.Fun.(*ast.SelectorExpr); ok && sel.Sel.Name == "Err" {
						lf.ErrIsField = "delegate"
					}
				}
			}
		}
		body := m.next.Body.List
		// delegate: `return recv.<inner>.Next()`
		if len(body) == 1 {
			if r, ok := body[0].(*ast.ReturnStmt); ok && len(r.Results) == 1 {
				if call, ok := r.Results[0].(*ast.CallExpr); ok {
					if sel, ok := call.Fun.(*ast.SelectorExpr); ok && sel.Sel.Name == "Next" {
						lf.Guard = "delegate"
					}
				}
			}
		}
		var guardIf *ast.IfStmt
		if lf.Guard != "delegate" {
			for i, s := range body {
				if g, ok := isGuardIf(s, recv); ok {
					guardIf = g
					if i == 0 {
						lf.Guard = "first"
					} else {
						lf.Guard = "afterPrelude"
					}
				} else if fs, ok := s.(*ast.ForStmt); ok && fs.Cond == nil && fs.Init == nil && fs.Post == nil && len(fs.Body.List) > 0 {
					if g, ok := isGuardIf(fs.Body.List[0], recv); ok {
						guardIf = g
						lf.Guard = "loopFirst"
					}
				}
				if guardIf != nil {
					break
				}
				lf.PreludeCalls += countRecvCalls(s, recv)
			}
		}
		// classify returns (not inside function literals)
		// a `return false` directly inside any `if recv.err != nil { … }` is of class guard as well:
		// the error it reports is already stored
		var walk func(list []ast.Stmt, underErrCheck bool)
		var visit func(s ast.Stmt)
		walk = func(list []ast.Stmt, underErrCheck bool) {
			for i, s := range list {
				if r, ok := s.(*ast.ReturnStmt); ok {
					switch {
					case isReturnFalse(r) && (underErrCheck || (guardIf != nil && len(guardIf.Body.List) == 1 && guardIf.Body.List[0] == s)):
						lf.Returns = append(lf.Returns, "guard")
					case isReturnFalse(r) && i > 0 && assignsRecvErr(list[i-1], recv):
						lf.Returns = append(lf.Returns, "stored")
					case isReturnFalse(r):
						lf.Returns = append(lf.Returns, "bare")
					default:
						lf.OtherReturns++
					}
					continue
				}
				visit(s)
			}
		}
		visit = func(s ast.Stmt) {
			switch v := s.(type) {
			case *ast.BlockStmt:
				walk(v.List, false)
			case *ast.IfStmt:
				walk(v.Body.List, v.Init == nil && isErrNotNil(v.Cond, recv))
				if v.Else != nil {
					visit(v.Else)
				}
			case *ast.ForStmt:
				walk(v.Body.List, false)
			case *ast.RangeStmt:
				walk(v.Body.List, false)
			case *ast.SwitchStmt:
				for _, c := range v.Body.List {
					walk(c.(*ast.CaseClause).Body, false)
				}
			case *ast.TypeSwitchStmt:
				for _, c := range v.Body.List {
					walk(c.(*ast.CaseClause).Body, false)
				}
			case *ast.LabeledStmt:
				visit(v.Stmt)
			}
		}
		walk(body, false)
		out = append(out, lf)
	}
	sort.Slice(out, func(i, j int) bool { return out[i].Decoder < out[j].Decoder })
	return out
}

// ---------------------------------------------------------------- driver

func leanStr(s string) string {
	return "\"" + strings.NewReplacer("\\", "\\\\", "\"", "\\\"", "\n", "\\n").Replace(s) + "\""
}

func genC05X(leanRoot string) {
	repo := c05xRepo()
	listed, err := goList(repo, c05xPackages)
	if err != nil {
		fmt.Fprintln(os.Stderr, "c05x:", err)
		os.Exit(2)
	}
	fset := token.NewFileSet()
	imp := importer.ForCompiler(fset, "gc", func(path string) (io.ReadCloser, error) {
		p, ok := listed[path]
		if !ok || p.Export == "" {
			return nil, fmt.Errorf("no export data for %s", path)
		}
		return os.Open(p.Export)
	})
	var sites []emitSite
	var latches []latchFact
	var problems []string
	for _, rel := range c05xPackages {
		lp := listed[rdfkitMod+"/"+rel]
		if lp == nil {
			problems = append(problems, "package not listed: "+rel)
			continue
		}
		var files []*ast.File
		for _, gf := range lp.GoFiles {
			f, err := parser.ParseFile(fset, filepath.Join(lp.Dir, gf), nil, parser.SkipObjectResolution)
			if err != nil {
				problems = append(problems, err.Error())
				continue
			}
			files = append(files, f)
		}
		info := &types.Info{Types: map[ast.Expr]types.TypeAndValue{}, Uses: map[*ast.Ident]types.Object{}, Defs: map[*ast.Ident]types.Object{}}
		conf := types.Config{Importer: imp, Error: func(err error) { problems = append(problems, rel+": "+err.Error()) }}
		conf.Check(rdfkitMod+"/"+rel, fset, files, info)
		sites = append(sites, collectEmitSites(fset, info, rel, files)...)
		latches = append(latches, extractLatch(rel, files)...)
	}
	sort.SliceStable(sites, func(i, j int) bool {
		if sites[i].Pkg != sites[j].Pkg {
			return sites[i].Pkg < sites[j].Pkg
		}
		if sites[i].Func != sites[j].Func {
			return sites[i].Func < sites[j].Func
		}
		return sites[i].Ord < sites[j].Ord
	})
	dir := filepath.Join(leanRoot, "RdfModel", "Gen")

	var sb strings.Builder
	sb.WriteString("-- GENERATED by /verif/go/cmd/extract (gen_c05x.go) from the repository's sources (T2: go/ast + go/types). Do not edit.\n")
	sb.WriteString("import RdfModel.Model.EmitSite\nnamespace RdfModel.Gen.EmitSites\nopen RdfModel.EmitSite\n\n")
	fmt.Fprintf(&sb, "/-- type-check problems met by the extractor (must be empty) -/\ndef problems : List String := [%s]\n\n", joinMap(problems, leanStr))
	sb.WriteString("/-- key = package, function, ordinal within the function; kind; classes of subject, predicate, object, graph name; expressions (documentation only) -/\ndef sites : List Site := [\n")
	for i, s := range sites {
		sep := ","
		if i == len(sites)-1 {
			sep = ""
		}
		fmt.Fprintf(&sb, "  ⟨%s, %s, %d, .%s, .%s, .%s, .%s, .%s, %s⟩%s\n", leanStr(s.Pkg), leanStr(s.Func), s.Ord, strings.ToLower(s.Kind[:1])+s.Kind[1:], leanClass(s.S), leanClass(s.P), leanClass(s.O), leanClass(s.G),
			leanStr(strings.Join(s.Expr[:], " | ")), sep)
	}
	sb.WriteString("]\n\nend RdfModel.Gen.EmitSites\n")
	writeIfChanged(filepath.Join(dir, "EmitSites.lean"), sb.String())

	sb.Reset()
	sb.WriteString("-- GENERATED by /verif/go/cmd/extract (gen_c05x.go) from the repository's sources (T2: go/ast). Do not edit.\n")
	sb.WriteString("import RdfModel.Model.Latch\nnamespace RdfModel.Gen.LatchFacts\nopen RdfModel.Latch\n\n")
	sb.WriteString("/-- one entry per type with methods Next() and Err() in the decoder packages -/\ndef decoders : List DecoderFacts := [\n")
	for i, l := range latches {
		sep := ","
		if i == len(latches)-1 {
			sep = ""
		}
		fmt.Fprintf(&sb, "  ⟨%s, .%s, %d, [%s], %d, .%s⟩%s\n", leanStr(l.Decoder), l.Guard, l.PreludeCalls, joinMap(l.Returns, func(s string) string { return "." + s }), l.OtherReturns, "err"+strings.ToUpper(l.ErrIsField[:1])+l.ErrIsField[1:], sep)
	}
	sb.WriteString("]\n\nend RdfModel.Gen.LatchFacts\n")
	writeIfChanged(filepath.Join(dir, "LatchFacts.lean"), sb.String())
}

func leanClass(c string) string {
	switch c {
	case "value", "iface", "absent", "copy", "untouched", "unknown":
		return c
	case "nil":
		return "nilLit"
	}
	return "unknown"
}

func joinMap(xs []string, f func(string) string) string {
	out := make([]string, len(xs))
	for i, x := range xs {
		out[i] = f(x)
	}
	return strings.Join(out, ", ")
}
