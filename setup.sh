#!/bin/sh
# One-time offline build of the framework (MANIFEST.setup_cmd): Go tools, T1/T2 generated Lean files,
# Lean proofs of every claimed property, the driver, the harnesses of every claimed property.
set -e
cd "$(dirname "$0")"
export GOFLAGS=-mod=mod GOPROXY=off
unset GOSUMDB GOTOOLCHAIN || true
mkdir -p go/bin evidence replays
cp /repo/go.sum go/go.sum
(cd go && go build -tags verif -o bin/extract ./cmd/extract && ./bin/extract -lean ../lean)
TARGETS=$(python3 - <<'PY'
import json,glob
t=set()
for f in glob.glob('props/C[0-9][0-9].json'):
    c=json.load(open(f))
    if isinstance(c,dict) and c.get('claimed') and 'lean_targets' in c:
        t.update(c['lean_targets'])
        for a in c.get('audit',[]): t.add(a[:-5].replace('/','.'))
print(' '.join(sorted(t)))
PY
)
HARNESSES=$(python3 - <<'PY'
import json,glob
t=set()
for f in glob.glob('props/C[0-9][0-9].json'):
    c=json.load(open(f))
    if isinstance(c,dict) and c.get('claimed') and 'harness' in c:
        hs=c['harness']
        if isinstance(hs,str): hs=[{'cmd':hs}]
        for h in hs: t.add(h['cmd'])
print(' '.join(sorted(t)))
PY
)
(cd lean && lake build driver $TARGETS)
(cd go && for h in $HARNESSES; do go build -tags verif -o bin/$h ./cmd/$h; done)
echo "setup ok: lean targets [$TARGETS] harnesses [$HARNESSES]"
