/-
  RdfModel.Model.Dataset — executable model of /repo/x/storage/inmemory (dataset.go, graph.go,
  statement.go, quad_iterator.go, triple_iterator.go) and of the matchers the iterators use
  (rdf/terms/matchers.go, rdf/terms/matcher.go, rdf/quads/matcher.go, rdf/triples/matcher.go),
  together with term equality (rdf/iri.go, rdf/blank_node.go, rdf/literal.go, rdf/literal_tags.go,
  rdf/blank_node_factory*.go, rdf/blanknodes/string_factory.go).

  Conventions
  * Go strings are byte strings: `Bytes = List Nat`.
  * A Go pointer `*Node` is modelled by the pair (intern key, stored term). `bindNode` is the only
    place that allocates nodes and it allocates at most one node per key and never frees one, so
    pointer equality of nodes is equality of keys; the model compares `.key` wherever Go compares
    `*Node` pointers and looks up `map[*Node]…` by `.key`.
  * A Go pointer `*Statement` is modelled by a fresh number (`Stmt.id`, allocated from
    `State.nextId` when the statement is stored); `statementList.Exclude` compares those.
    A statement's `g` and `s` fields are not stored: Go sets them from the very values under which
    the statement is filed (`graph.assertedBySubject[statement.s]`), so they are its location.
  * A Go map is an association list in insertion order. Go's iteration order is unspecified; every
    theorem about iteration results is about membership and multiplicity only (or is an equation
    between two lists produced by the *same* traversal), and the harness sorts.
  * `nodesByLiteral` is keyed by the first 12 bytes of the SHA-256 of a byte string. The model
    keys by that byte string itself (`litKeyBytes`): this is the recorded assumption that the
    truncated hash is injective on the keys a dataset ever sees. `fmt`'s `%q` (strconv.Quote) is
    modelled by `quote`, a simpler quoting with the two properties of `strconv.Quote` that matter
    (prefix-free, never emits a raw line feed); since keys are only ever compared for equality,
    any such quoting yields the same behaviour.
  * Where Go panics (a nil subject/predicate/object reaches `bindNode`) the operation's outcome is
    `Out.panic` and the state keeps the writes made before the panic.
-/
namespace RdfModel.DS

abbrev Bytes := List Nat

/-- `rdf.BlankNodeIdentifier` implementations of the repository:
    `rdf.bnDefault{v}` (DefaultBlankNodeFactory), `rdf.bn{v, s}` (NewBlankNodeFactory; `f` stands for
    the factory pointer `s`), `blanknodes.bnString{v, s}` (StringFactory). -/
inductive BId where
  | dflt (v : Nat)
  | scoped (f : Nat) (v : Nat)
  | str (f : Nat) (v : Bytes)
  deriving DecidableEq, Repr, Inhabited

/-- `rdf.LiteralTag`: `LanguageLiteralTag{Language}` / `DirectionalLanguageLiteralTag{Language, BaseDirection}`. -/
inductive Tag where
  | lang (l : Bytes)
  | dirLang (l : Bytes) (d : Bytes)
  deriving DecidableEq, Repr, Inhabited

/-- `rdf.Literal{Datatype, LexicalForm, Tag}` (`tag = none` is a nil `Tag`). -/
structure Literal where
  dt : Bytes
  lex : Bytes
  tag : Option Tag
  deriving DecidableEq, Repr, Inhabited

/-- `rdf.Term` (closed interface): `IRI`, `BlankNode{Identifier}` (`none` = nil identifier), `Literal`. -/
inductive Term where
  | iri (v : Bytes)
  | bnode (id : Option BId)
  | lit (l : Literal)
  deriving DecidableEq, Repr, Inhabited

structure Triple where
  s : Term
  p : Term
  o : Term
  deriving DecidableEq, Repr, Inhabited

/-- `rdf.Quad` as reported by iterators (`g = none` is the default graph, a nil `GraphName`). -/
structure Quad where
  s : Term
  p : Term
  o : Term
  g : Option Term
  deriving DecidableEq, Repr, Inhabited

def Quad.triple (q : Quad) : Triple := ⟨q.s, q.p, q.o⟩
def Triple.asQuad (t : Triple) (g : Option Term) : Quad := ⟨t.s, t.p, t.o, g⟩

/-- A quad as passed *into* the dataset: any of the interface-typed fields may be nil. -/
structure QuadIn where
  s : Option Term
  p : Option Term
  o : Option Term
  g : Option Term
  deriving DecidableEq, Repr, Inhabited

structure TripleIn where
  s : Option Term
  p : Option Term
  o : Option Term
  deriving DecidableEq, Repr, Inhabited

def TripleIn.asQuad (t : TripleIn) (g : Option Term) : QuadIn := ⟨t.s, t.p, t.o, g⟩
def Quad.toIn (q : Quad) : QuadIn := ⟨some q.s, some q.p, some q.o, q.g⟩

/-! ## Term equality (`TermEquals`) -/

/-- `EqualsBlankNodeIdentifier`: type assertion on the other identifier, then field comparison. -/
def BId.equals : BId → BId → Bool
  | .dflt v, .dflt w => w == v
  | .scoped f v, .scoped g w => g == f && w == v
  | .str f v, .str g w => g == f && w == v
  | _, _ => false

/-- `LiteralTag.Equals`. -/
def Tag.equals : Tag → Tag → Bool
  | .lang l, .lang m => l == m
  | .dirLang l d, .dirLang m e => l == m && d == e
  | _, _ => false

/-- `Literal.TermEquals` on two literals. -/
def Literal.equals (t a : Literal) : Bool :=
  if t.dt != a.dt then false
  else
    let tagOk :=
      match t.tag, a.tag with
      | none, none => true
      | none, some _ => false
      | some _, none => false
      | some x, some y => x.equals y
    if !tagOk then false else t.lex == a.lex

/-- `Term.TermEquals(a)`; `a = none` is a nil interface value (e.g. the default graph's name). -/
def Term.termEquals : Term → Option Term → Bool
  | .iri v, some (.iri w) => v == w
  | .iri _, _ => false
  | .bnode none, _ => false
  | .bnode (some i), some (.bnode (some j)) => i.equals j
  | .bnode (some _), _ => false
  | .lit l, some (.lit m) => l.equals m
  | .lit _, _ => false

/-! ## Association lists standing for Go maps -/

def alookup {κ α : Type} [DecidableEq κ] (k : κ) : List (κ × α) → Option α
  | [] => none
  | (k', v) :: rest => if k' = k then some v else alookup k rest

/-- `m[k] = v`: replace the entry, or add one. -/
def aset {κ α : Type} [DecidableEq κ] (k : κ) (v : α) : List (κ × α) → List (κ × α)
  | [] => [(k, v)]
  | (k', v') :: rest => if k' = k then (k, v) :: rest else (k', v') :: aset k v rest

/-! ## Node interning (`bindNode`) -/

/-- Stand-in for `%q`: `"` … `"` with `"`, `\` and LF escaped. -/
def quoteBody : Bytes → Bytes
  | [] => []
  | c :: rest =>
    if c = 0x22 then 0x5c :: 0x22 :: quoteBody rest
    else if c = 0x5c then 0x5c :: 0x5c :: quoteBody rest
    else if c = 0x0a then 0x5c :: 0x6e :: quoteBody rest
    else c :: quoteBody rest

def quote (s : Bytes) : Bytes := 0x22 :: (quoteBody s ++ [0x22])

def bLang : Bytes := [0x6c, 0x61, 0x6e, 0x67, 0x3d]          -- `lang=`
def bDir : Bytes := [0x3b, 0x20, 0x64, 0x69, 0x72, 0x3d]     -- `; dir=`

/-- What `bindNode` writes to the hash between the datatype line and the lexical form. -/
def tagLine : Option Tag → Bytes
  | none => []
  | some (.lang l) => bLang ++ quote l ++ [0x0a]
  | some (.dirLang l d) => bLang ++ quote l ++ bDir ++ quote d ++ [0x0a]

/-- The byte string `bindNode` hashes for a literal:
    `Datatype + "\n"`, then the tag line if a tag is present, then the lexical form. -/
def litKeyBytes (l : Literal) : Bytes := l.dt ++ [0x0a] ++ tagLine l.tag ++ l.lex

/-- Key under which a term is interned: one Go map per kind. -/
inductive NodeKey where
  | iri (v : Bytes)             -- nodesByIRI
  | bnode (id : Option BId)     -- nodesByBlankNodeRef (key: the BlankNode struct, compared with ==)
  | lit (k : Bytes)             -- nodesByLiteral (key: hash of these bytes, assumed injective)
  deriving DecidableEq, Repr, Inhabited

def keyOf : Term → NodeKey
  | .iri v => .iri v
  | .bnode i => .bnode i
  | .lit l => .lit (litKeyBytes l)

/-- `*Node`: `key` is the pointer identity, `t` the term stored when the node was created. -/
structure Node where
  key : NodeKey
  t : Term
  deriving DecidableEq, Repr, Inhabited

/-- `*Statement` (fields `p`, `o`; `id` is the pointer identity). -/
structure Stmt where
  id : Nat
  p : Node
  o : Node
  deriving DecidableEq, Repr, Inhabited

/-- `Graph.assertedBySubject : map[*Node]statementList` (key: the subject node's `key`). -/
abbrev SubjMap := List (NodeKey × (Node × List Stmt))

structure State where
  /-- nodesByIRI ∪ nodesByBlankNodeRef ∪ nodesByLiteral -/
  nodes : List (NodeKey × Node)
  /-- `graphs : map[rdf.GraphNameValue]*Graph`; the key is also the graph's `t` -/
  graphs : List (Option Term × SubjMap)
  nextId : Nat
  deriving Repr, Inhabited

/-- `bindNode(t, true)` for a non-nil term (every call site in the package passes `write = true`). -/
def bindNode (s : State) (t : Term) : State × Node :=
  match alookup (keyOf t) s.nodes with
  | some n => (s, n)
  | none =>
    let n : Node := ⟨keyOf t, t⟩
    ({ s with nodes := s.nodes ++ [(keyOf t, n)] }, n)

/-- `createGraph`: interns the graph name (if any) and registers an empty graph under it. -/
def createGraph (s : State) (g : Option Term) : State :=
  let s1 := match g with
    | none => s
    | some t => (bindNode s t).1
  { s1 with graphs := aset g [] s1.graphs }

/-- `NewDataset`: the default graph exists from the start. -/
def init : State := createGraph ⟨[], [], 0⟩ none

/-- The `graph, ok := d.graphs[name]; if !ok { graph = d.createGraph(name) }` prelude
    (`GetGraph`, `addQuad`, `DeleteQuad`). -/
def ensureGraph (s : State) (g : Option Term) : State :=
  match alookup g s.graphs with
  | some _ => s
  | none => createGraph s g

/-- `boundGraph.assertedBySubject[node]` (a missing key reads as the nil slice). -/
def stmtsAt (s : State) (g : Option Term) (k : NodeKey) : List Stmt :=
  match alookup g s.graphs with
  | none => []
  | some G =>
    match alookup k G with
    | none => []
    | some (_, l) => l

/-- `graph.assertedBySubject[n] = l` -/
def setStmts (s : State) (g : Option Term) (n : Node) (l : List Stmt) : State :=
  match alookup g s.graphs with
  | none => s
  | some G => { s with graphs := aset g (aset n.key (n, l) G) s.graphs }

/-- Result of `bindStatement`: the three bound nodes and the statement found, if any. -/
structure Bound where
  s : Node
  p : Node
  o : Node
  found : Option Stmt
  deriving Repr

/-- `bindStatement`: binds subject, predicate, object in this order (writing nodes), then scans the
    subject's list for the first statement with the same predicate and object *nodes*.
    `none` = panic in `bindNode` on a nil term (`unsupported node type: <nil>`). -/
def bindStatement (s : State) (q : QuadIn) : State × Option Bound :=
  match q.s with
  | none => (s, none)
  | some ts =>
    let (s1, ns) := bindNode s ts
    match q.p with
    | none => (s1, none)
    | some tp =>
      let (s2, np) := bindNode s1 tp
      match q.o with
      | none => (s2, none)
      | some to =>
        let (s3, no) := bindNode s2 to
        let found := (stmtsAt s3 q.g ns.key).find? (fun known => known.p.key == np.key && known.o.key == no.key)
        (s3, some ⟨ns, np, no, found⟩)

/-- `statementList.Exclude` -/
def exclude (l : List Stmt) (st : Stmt) : List Stmt := l.filter (fun x => x.id != st.id)

/-! ## Matchers -/

/-- `EqualsOneOfCompiled`: two Go sets and a map datatype ↦ literals. -/
structure Compiled where
  iris : List Bytes
  bnodes : List BId
  lits : List (Bytes × List Literal)
  deriving Repr, Inhabited

/-- `rdf.TermMatcher` values of package `terms`. -/
inductive TM where
  | isBlankNode
  | isIRI
  | isLiteral
  | isLiteralDatatype (m : TM)
  | equals (expected : Term)
  | compiled (c : Compiled)
  | or (ms : List TM)
  | and (ms : List TM)
  | not (m : TM)
  deriving Inhabited

def Compiled.matches (c : Compiled) : Option Term → Bool
  | some (.iri v) => c.iris.contains v
  | some (.bnode none) => false
  | some (.bnode (some i)) => c.bnodes.contains i
  | some (.lit l) => ((alookup l.dt c.lits).getD []).any (fun x => x.equals l)
  | none => false

mutual
/-- `MatchTerm`; the argument may be nil (the graph name of the default graph). -/
def TM.matches : TM → Option Term → Bool
  | .isBlankNode, t => match t with | some (.bnode _) => true | _ => false
  | .isIRI, t => match t with | some (.iri _) => true | _ => false
  | .isLiteral, t => match t with | some (.lit _) => true | _ => false
  | .isLiteralDatatype m, t =>
    match t with
    | some (.lit l) => m.matches (some (.iri l.dt))
    | _ => false
  | .equals e, t => e.termEquals t
  | .compiled c, t => c.matches t
  | .or ms, t => TM.anyMatches ms t
  | .and ms, t => TM.allMatch ms t
  | .not m, t => !(m.matches t)
def TM.anyMatches : List TM → Option Term → Bool
  | [], _ => false
  | m :: ms, t => m.matches t || TM.anyMatches ms t
def TM.allMatch : List TM → Option Term → Bool
  | [], _ => true
  | m :: ms, t => m.matches t && TM.allMatch ms t
end

/-- One iteration of the loop in `terms.EqualsOneOf` (nil terms and blank nodes without identifier are skipped). -/
def compileStep (c : Compiled) : Option Term → Compiled
  | some (.iri v) => { c with iris := if c.iris.contains v then c.iris else c.iris ++ [v] }
  | some (.bnode (some i)) => { c with bnodes := if c.bnodes.contains i then c.bnodes else c.bnodes ++ [i] }
  | some (.bnode none) => c
  | some (.lit l) => { c with lits := aset l.dt ((alookup l.dt c.lits).getD [] ++ [l]) c.lits }
  | none => c

/-- `terms.EqualsOneOf(expected...)` including the "simplification shortcut". -/
def equalsOneOf (ts : List (Option Term)) : TM :=
  let c := ts.foldl compileStep ⟨[], [], []⟩
  if c.iris.length = 1 ∧ c.bnodes.length = 0 ∧ c.lits.length = 0 then
    match c.iris with
    | iri :: _ => .equals (.iri iri)
    | [] => .compiled c
  else .compiled c

/-- `rdf.TripleMatcher` values: package `triples`, or any other implementation (`custom`). -/
inductive TrM where
  | subject (m : TM)
  | predicate (m : TM)
  | object (m : TM)
  | custom (f : Triple → Bool)

def TrM.matches : TrM → Triple → Bool
  | .subject m, t => m.matches (some t.s)
  | .predicate m, t => m.matches (some t.p)
  | .object m, t => m.matches (some t.o)
  | .custom f, t => f t

/-- `rdf.QuadMatcher` values: package `quads`, or any other implementation (`custom`). -/
inductive QM where
  | graphName (m : TM)
  | subject (m : TM)
  | predicate (m : TM)
  | object (m : TM)
  | triple (m : TrM)
  | custom (f : Quad → Bool)

def QM.matches : QM → Quad → Bool
  | .graphName m, q => m.matches q.g
  | .subject m, q => m.matches (some q.s)
  | .predicate m, q => m.matches (some q.p)
  | .object m, q => m.matches (some q.o)
  | .triple m, q => m.matches q.triple
  | .custom f, q => f q

/-! ## Iterators -/

/-- `Statement.GetQuad` for a statement filed under subject node `sn` of graph `g`. -/
def getQuad (g : Option Term) (sn : Node) (st : Stmt) : Quad := ⟨sn.t, st.p.t, st.o.t, g⟩

/-- The matcher classification loop of `newQuadIterator`: a `quads.TripleMatcher` wrapping a
    `triples.SubjectMatcher` goes to `subjectMatchers`, everything else to `otherMatchers`. -/
def classifyQ : List QM → List TM × List QM
  | [] => ([], [])
  | m :: rest =>
    let (subs, others) := classifyQ rest
    match m with
    | .triple (.subject sm) => (sm :: subs, others)
    | _ => (subs, m :: others)

/-- `Graph.newQuadIterator` followed by `GetQuad` on every edge. -/
def graphQuads (g : Option Term) (G : SubjMap) (ms : List QM) : List Quad :=
  if ms.isEmpty then
    G.flatMap (fun e => e.2.2.map (getQuad g e.2.1))
  else
    match classifyQ ms with
    | ([sm], others) =>
      G.flatMap (fun e =>
        if !(sm.matches (some e.2.1.t)) then []
        else (e.2.2.filter (fun st => others.all (fun m => m.matches (getQuad g e.2.1 st)))).map (getQuad g e.2.1))
    | _ =>
      G.flatMap (fun e =>
        (e.2.2.filter (fun st => ms.all (fun m => m.matches (getQuad g e.2.1 st)))).map (getQuad g e.2.1))

/-- The classification loop of `Graph.NewTripleIterator`. -/
def classifyT : List TrM → List TM × List TrM
  | [] => ([], [])
  | m :: rest =>
    let (subs, others) := classifyT rest
    match m with
    | .subject sm => (sm :: subs, others)
    | _ => (subs, m :: others)

/-- `Graph.NewTripleIterator` followed by `GetQuad().Triple` on every edge. -/
def graphTriples (g : Option Term) (G : SubjMap) (ms : List TrM) : List Triple :=
  if ms.isEmpty then
    G.flatMap (fun e => e.2.2.map (fun st => (getQuad g e.2.1 st).triple))
  else
    match classifyT ms with
    | ([sm], others) =>
      G.flatMap (fun e =>
        if !(sm.matches (some e.2.1.t)) then []
        else (e.2.2.filter (fun st => others.all (fun m => m.matches (getQuad g e.2.1 st).triple))).map
          (fun st => (getQuad g e.2.1 st).triple))
    | _ =>
      G.flatMap (fun e =>
        (e.2.2.filter (fun st => ms.all (fun m => m.matches (getQuad g e.2.1 st).triple))).map
          (fun st => (getQuad g e.2.1 st).triple))

/-- `Graph.NewSubjectIterator` drained (a method of the concrete `*Graph` only; not one of the
    operations property C19 quantifies over — modelled for correspondence and for the residue
    example: the keys of `assertedBySubject` survive the deletion of their last statement). -/
def graphSubjects (G : SubjMap) (ms : List TM) : List Term :=
  (G.filter (fun e => ms.all (fun m => m.matches (some e.2.1.t)))).map (fun e => e.2.1.t)

/-! ## Operations -/

inductive Out where
  | unit
  | bool (b : Bool)
  | quads (l : List Quad)
  | triples (l : List Triple)
  | terms (l : List Term)
  | panic
  deriving DecidableEq, Repr, Inhabited

/-- `Dataset.addQuad` -/
def addQuad (s : State) (q : QuadIn) : State × Out :=
  let s0 := ensureGraph s q.g
  match bindStatement s0 q with
  | (s1, none) => (s1, .panic)
  | (s1, some b) =>
    match b.found with
    | some _ => (s1, .unit)
    | none =>
      let st : Stmt := ⟨s1.nextId, b.p, b.o⟩
      let s2 := setStmts s1 q.g b.s (stmtsAt s1 q.g b.s.key ++ [st])
      ({ s2 with nextId := s1.nextId + 1 }, .unit)

/-- `Dataset.DeleteQuad` (note: creates the graph when it is missing) -/
def deleteQuad (s : State) (q : QuadIn) : State × Out :=
  let s0 := ensureGraph s q.g
  match bindStatement s0 q with
  | (s1, none) => (s1, .panic)
  | (s1, some b) =>
    match b.found with
    | none => (s1, .unit)
    | some st => (setStmts s1 q.g b.s (exclude (stmtsAt s1 q.g b.s.key) st), .unit)

/-- `Dataset.HasQuad` / `GetQuadStatement` (no panic and no write when the graph is missing;
    otherwise the three terms are interned: "presumptive write"). -/
def hasQuad (s : State) (q : QuadIn) : State × Out :=
  match alookup q.g s.graphs with
  | none => (s, .bool false)
  | some _ =>
    match bindStatement s q with
    | (s1, none) => (s1, .panic)
    | (s1, some b) => (s1, .bool b.found.isSome)

/-- `Dataset.NewQuadIterator` drained. -/
def iterQuads (s : State) (ms : List QM) : List Quad :=
  s.graphs.flatMap (fun e => graphQuads e.1 e.2 ms)

/-- `GetGraph(g).NewTripleIterator(ms...)` drained, on the state after `GetGraph`. -/
def viewTriples (s : State) (g : Option Term) (ms : List TrM) : List Triple :=
  match alookup g s.graphs with
  | none => []
  | some G => graphTriples g G ms

inductive Op where
  | addQuad (q : QuadIn)
  | deleteQuad (q : QuadIn)
  | hasQuad (q : QuadIn)
  | iterQuads (ms : List QM)
  /-- `GetGraph(g)` on its own -/
  | getGraph (g : Option Term)
  /-- `GetGraph(g).AddTriple(t)` etc.: the handle returned by `GetGraph` is the registered graph
      object (graphs are never unregistered), so an old handle and a fresh one are the same thing. -/
  | viewAdd (g : Option Term) (t : TripleIn)
  | viewDelete (g : Option Term) (t : TripleIn)
  | viewHas (g : Option Term) (t : TripleIn)
  | viewIter (g : Option Term) (ms : List TrM)
  /-- `GetGraph(g).(*inmemory.Graph).NewSubjectIterator(ms...)` -/
  | viewSubjects (g : Option Term) (ms : List TM)

def step (s : State) : Op → State × Out
  | .addQuad q => addQuad s q
  | .deleteQuad q => deleteQuad s q
  | .hasQuad q => hasQuad s q
  | .iterQuads ms => (s, .quads (iterQuads s ms))
  | .getGraph g => (ensureGraph s g, .unit)
  | .viewAdd g t => addQuad (ensureGraph s g) (t.asQuad g)
  | .viewDelete g t => deleteQuad (ensureGraph s g) (t.asQuad g)
  | .viewHas g t => hasQuad (ensureGraph s g) (t.asQuad g)
  | .viewIter g ms => let s1 := ensureGraph s g; (s1, .triples (viewTriples s1 g ms))
  | .viewSubjects g ms =>
    let s1 := ensureGraph s g
    (s1, .terms (graphSubjects ((alookup g s1.graphs).getD []) ms))

/-- Run a history from a state, collecting the outputs. -/
def run (s : State) : List Op → State × List Out
  | [] => (s, [])
  | op :: rest =>
    let (s1, o) := step s op
    let (s2, os) := run s1 rest
    (s2, o :: os)

/-- Abstraction: the quads stored, in traversal order. -/
def abs (s : State) : List Quad :=
  s.graphs.flatMap (fun e => e.2.flatMap (fun f => f.2.2.map (getQuad e.1 f.2.1)))

end RdfModel.DS
