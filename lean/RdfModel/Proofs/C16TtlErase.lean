/-
  Proofs.C16TtlErase — the instrumented Turtle/TriG token producers (`TtlO`) refine the base
  producers (`Ttl`): forgetting the bookkeeping (sizes, buffer offset, writer history, range, error
  offset) of any `TtlO` function gives exactly the result of the corresponding `Ttl` function on the
  code points. Holds for every state `s` (capture on or off, any history) and all flag values.
-/
import RdfModel.Proofs.C16TW
import RdfModel.Model.TurtleOffsets
namespace RdfModel.Proofs.C16Ttl
open RdfModel RdfModel.TW RdfModel.NQO RdfModel.TtlO RdfModel.Proofs.C16

@[simp] theorem erase_ok {α : Type} (v : α) (rg : Option SRange) (s : S) (rest : List RP) :
    (TtlO.RO.ok v rg s rest).erase = Ttl.Res.ok v (runes rest) := rfl
@[simp] theorem erase_err {α : Type} (e : EClass) (o : EOff) :
    (TtlO.RO.err e o : TtlO.RO α).erase = Ttl.Res.err e := rfl
@[simp] theorem erase_panic {α : Type} : (TtlO.RO.panic : TtlO.RO α).erase = Ttl.Res.panic := rfl
@[simp] theorem erase_done {α : Type} (v : α) (s : S) (tok : Chunk) (rest : List RP) :
    (done v s tok rest).erase = Ttl.Res.ok v (runes rest) := rfl

theorem scanIRIREF_erase (T : Tables) (e : End) (st : SState) (s : S) (inp : List RP) (acc : List Nat)
    (unc : Chunk) :
    (TtlO.scanIRIREF T e st s inp acc unc).erase = Ttl.scanIRIREF T e st (runes inp) acc := by
  fun_induction TtlO.scanIRIREF T e st s inp acc unc <;> simp_all [Ttl.scanIRIREF] <;> try (intros; omega)

theorem produceIRIREF_erase (T : Tables) (e : End) (s : S) (inp : List RP) :
    (TtlO.produceIRIREF T e s inp).erase = Ttl.produceIRIREF T e (runes inp) := by
  cases inp with
  | nil => simp [TtlO.produceIRIREF, Ttl.produceIRIREF]
  | cons c rest =>
    simp only [TtlO.produceIRIREF, Ttl.produceIRIREF, runes_cons]
    split
    · exact scanIRIREF_erase ..
    · simp

theorem scanString_erase (T : Tables) (e : End) (delim : Nat) (triple : Bool) (st : SState) (s : S)
    (inp : List RP) (acc : List Nat) (unc : Chunk) :
    (TtlO.scanString T e delim triple st s inp acc unc).erase
      = Ttl.scanString T e delim triple st (runes inp) acc := by
  fun_induction TtlO.scanString T e delim triple st s inp acc unc <;>
    simp_all [Ttl.scanString] <;> try (intros; omega)

theorem produceString_erase (T : Tables) (e : End) (legacy : Bool) (s : S) (inp : List RP) :
    (TtlO.produceString T e legacy s inp).erase = Ttl.produceString T e (runes inp) := by
  cases inp with
  | nil => simp [TtlO.produceString, Ttl.produceString]
  | cons q rest =>
    simp only [TtlO.produceString, Ttl.produceString, runes_cons]
    split
    · cases rest with
      | nil => simp
      | cons c1 r1 =>
        simp only [runes_cons]
        split
        · cases r1 with
          | nil => cases e <;> simp
          | cons c2 r2 =>
            simp only [runes_cons]
            split
            · exact scanString_erase ..
            · simp
        · simpa using scanString_erase T e q.1 false .body (s.read q) (c1 :: r1) [] [q]
    · simp

theorem langDone_erase (s : S) (a0 : RP) (tagRev : Chunk) (rest : List RP) :
    (TtlO.langDone s a0 tagRev rest).erase = Ttl.langDone (runes tagRev) (runes rest) := by
  cases tagRev with
  | nil => simp [TtlO.langDone, Ttl.langDone]
  | cons l more =>
    simp only [TtlO.langDone, Ttl.langDone, runes_cons, List.head?_cons, Option.some.injEq]
    split <;> simp

theorem langSecondary_erase (e : End) (a0 : RP) (s : S) (inp : List RP) (tagRev : Chunk) :
    (TtlO.langSecondary e a0 s inp tagRev).erase = Ttl.langSecondary e (runes inp) (runes tagRev) := by
  fun_induction TtlO.langSecondary e a0 s inp tagRev <;>
    simp_all [Ttl.langSecondary, langDone_erase]

theorem langPrimary_erase (e : End) (a0 : RP) (s : S) (inp : List RP) (tagRev : Chunk) :
    (TtlO.langPrimary e a0 s inp tagRev).erase = Ttl.langPrimary e (runes inp) (runes tagRev) := by
  fun_induction TtlO.langPrimary e a0 s inp tagRev <;>
    simp_all [Ttl.langPrimary, langDone_erase, langSecondary_erase]

theorem produceLANGTAG_erase (e : End) (s : S) (inp : List RP) :
    (TtlO.produceLANGTAG e s inp).erase = Ttl.produceLANGTAG e (runes inp) := by
  cases inp with
  | nil => simp [TtlO.produceLANGTAG, Ttl.produceLANGTAG]
  | cons c rest =>
    simp only [TtlO.produceLANGTAG, Ttl.produceLANGTAG, runes_cons]
    split
    · simpa using langPrimary_erase e c (s.read c) rest []
    · simp

theorem bnDone_erase (T : Tables) (labelOnly : Bool) (h0 : Option Hist) (s : S) (labRev : Chunk)
    (rest : List RP) :
    (TtlO.bnDone T labelOnly h0 s labRev rest).erase = Ttl.bnDone T (runes labRev) (runes rest) := by
  cases labRev with
  | nil => simp [TtlO.bnDone, Ttl.bnDone]
  | cons l more =>
    simp only [TtlO.bnDone, Ttl.bnDone, runes_cons]
    by_cases hl : l.1 = 0x2e
    · simp only [hl, if_true]
      cases more with
      | nil => simp [hl]
      | cons z more' =>
        simp only [runes_cons]
        split <;> simp_all [runes]
    · simp only [hl, if_false]
      split <;> simp_all [runes]

theorem bnLoop_erase (T : Tables) (e : End) (labelOnly : Bool) (h0 : Option Hist) (s : S)
    (inp : List RP) (labRev : Chunk) :
    (TtlO.bnLoop T e labelOnly h0 s inp labRev).erase = Ttl.bnLoop T e (runes inp) (runes labRev) := by
  fun_induction TtlO.bnLoop T e labelOnly h0 s inp labRev <;> simp_all [Ttl.bnLoop, bnDone_erase]

theorem produceBlankNode_erase (T : Tables) (e : End) (labelOnly : Bool) (s : S) (inp : List RP) :
    (TtlO.produceBlankNode T e labelOnly s inp).erase = Ttl.produceBlankNode T e (runes inp) := by
  cases inp with
  | nil => simp [TtlO.produceBlankNode, Ttl.produceBlankNode]
  | cons c0 r0 =>
    simp only [TtlO.produceBlankNode, Ttl.produceBlankNode, runes_cons]
    split
    · simp
    · cases r0 with
      | nil => simp
      | cons c1 r1 =>
        simp only [runes_cons]
        split
        · simp
        · cases r1 with
          | nil => simp
          | cons c2 r2 =>
            simp only [runes_cons]
            split
            · simpa using bnLoop_erase T e labelOnly s.doc _ r2 [c2]
            · simp

theorem numDone_erase (s : S) (acc : Chunk) (k : Option Ttl.NumKind) (rest : List RP) :
    (TtlO.numDone s acc k rest).erase = Ttl.numDone (runes acc) k (runes rest) := by
  cases acc with
  | nil => simp [TtlO.numDone, Ttl.numDone]
  | cons l more =>
    simp only [TtlO.numDone, Ttl.numDone, runes_cons]
    split
    · simp [*]
    · split <;> simp [runes]

theorem scanNum_erase (e : End) (st : Ttl.NState) (k : Option Ttl.NumKind) (s : S) (inp : List RP)
    (acc : Chunk) :
    (TtlO.scanNum e st k s inp acc).erase = Ttl.scanNum e st k (runes inp) (runes acc) := by
  fun_induction TtlO.scanNum e st k s inp acc <;> simp_all [Ttl.scanNum, numDone_erase]

theorem produceNumericLiteral_erase (e : End) (s : S) (inp : List RP) :
    (TtlO.produceNumericLiteral e s inp).erase = Ttl.produceNumericLiteral e (runes inp) := by
  cases inp with
  | nil => simp [TtlO.produceNumericLiteral, Ttl.produceNumericLiteral]
  | cons c rest =>
    simp only [TtlO.produceNumericLiteral, Ttl.produceNumericLiteral, runes_cons]
    split
    · simpa using scanNum_erase e .sign none (s.read c) rest [c]
    · split
      · simpa using scanNum_erase e .int (some .decimal) (s.read c) rest [c]
      · simp

theorem pnameNsLoop_erase (T : Tables) (e : End) (trig : Bool) (s : S) (inp : List RP) (acc : List Nat)
    (unc : Chunk) :
    (TtlO.pnameNsLoop T e trig s inp acc unc).erase = Ttl.pnameNsLoop T e (runes inp) acc := by
  fun_induction TtlO.pnameNsLoop T e trig s inp acc unc <;> simp_all [Ttl.pnameNsLoop]

theorem producePNAME_NS_erase (T : Tables) (e : End) (trig : Bool) (s : S) (inp : List RP) :
    (TtlO.producePNAME_NS T e trig s inp).erase = Ttl.producePNAME_NS T e (runes inp) := by
  cases inp with
  | nil => simp [TtlO.producePNAME_NS, Ttl.producePNAME_NS]
  | cons c rest =>
    simp only [TtlO.producePNAME_NS, Ttl.producePNAME_NS, runes_cons]
    split
    · simp
    · split
      · exact pnameNsLoop_erase ..
      · simp

theorem localDone_erase (s : S) (acc : List Nat) (le : Bool) (unc : Chunk) (rest : List RP) :
    (TtlO.localDone s acc le unc rest).erase = Ttl.localDone acc le (runes rest) := by
  cases acc with
  | nil => simp [TtlO.localDone, Ttl.localDone]
  | cons l more =>
    simp only [TtlO.localDone, Ttl.localDone]
    split <;> simp

theorem scanLocal_erase (T : Tables) (e : End) (st : Ttl.LState) (s : S) (inp : List RP)
    (acc : List Nat) (le : Bool) (unc : Chunk) :
    (TtlO.scanLocal T e st s inp acc le unc).erase = Ttl.scanLocal T e st (runes inp) acc le := by
  fun_induction TtlO.scanLocal T e st s inp acc le unc <;> simp_all [Ttl.scanLocal, localDone_erase]

theorem producePrefixedName_erase (T : Tables) (e : End) (trig : Bool) (s : S) (inp : List RP) :
    (TtlO.producePrefixedName T e trig s inp).erase = Ttl.producePrefixedName T e (runes inp) := by
  have h := producePNAME_NS_erase T e trig s inp
  unfold TtlO.producePrefixedName Ttl.producePrefixedName
  cases hn : TtlO.producePNAME_NS T e trig s inp with
  | err c o => simp [hn] at h; simp [← h]
  | panic => simp [hn] at h; simp [← h]
  | ok ns rgNs s1 rest =>
    simp [hn] at h
    simp only [← h]
    have hl := scanLocal_erase T e .first s1 rest [] false []
    cases hs : TtlO.scanLocal T e .first s1 rest [] false [] <;> simp [hs] at hl <;> simp [← hl]

end RdfModel.Proofs.C16Ttl
