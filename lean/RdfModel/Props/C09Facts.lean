/-
  Property C09 — facts about the regenerated data of Gen/RdfXmlFacts.lean (T1/T2 tie to
  encoding/rdfxml).  Every statement is closed and decided by evaluation; when the Go source changes
  so that a fact no longer holds, this file stops building and `./check C09` reports the tie as broken.

    * the namespace and reserved local names of `encoding/rdfxml/internal` are the constants of the
      specification;
    * the element names each production of the decoder rejects are exactly `nodeForbidden` /
      `propForbidden` of the specification (nodeElementURIs / propertyElementURIs);
    * the attribute names the decoder rejects on node elements and on empty property elements are
      names the grammar rejects there (the decoder never refuses a propertyAttributeURI by name) —
      except the catch-all `default` rejection on empty property elements, which is finding C09-rdf-ns-property-attr (repaired by patch rx-4)
      and is reported by `emptyEltRejectsOtherRdfAttrs`;
    * T1: a code point is accepted by `validateID` as first / later character of an rdf:ID or rdf:nodeID
      value iff it is an NCName start / NCName character of the specification (all 1,114,112 code points);
    * `parseAll` selects inspectxml with text-offset capture and encoding/xml without.
-/
import RdfModel.Spec.RdfXmlFragment
import RdfModel.Gen.RdfXmlFacts
namespace RdfModel.C09
open RdfModel RdfModel.RX

theorem gen_space : Gen.RX.space = rdfNS := by decide

/-- the reserved names of the specification are the constants the decoder compares with -/
theorem gen_locals :
    [("Local_RDF_Syntax", n_RDF), ("Local_Description_Syntax", n_Description), ("Local_ID_Syntax", n_ID),
     ("Local_About_Syntax", n_about), ("Local_ParseType_Syntax", n_parseType),
     ("Local_Resource_Syntax", n_resource), ("Local_Li_Syntax", n_li), ("Local_NodeID_Syntax", n_nodeID),
     ("Local_Datatype_Syntax", n_datatype), ("Local_Type_Property", n_type),
     ("Local_AboutEach_Old", n_aboutEach), ("Local_AboutEachPrefix_Old", n_aboutEachPrefix),
     ("Local_BagID_Old", n_bagID)].all (fun e => Gen.RX.locals.contains e) = true := by decide

/-- the productions that expect a node element, and the one that expects a property element -/
def nodeEltSites : List String := ["decodeRDF", "processPropertyElt", "processParseTypeCollectionPropertyElt"]
def propEltSites : List String := ["processChildren_PropertyEltList"]

/-- every name check on an element is one of the four known sites, each site is present, and the
    rejected names are (as sets) the forbidden names of the specification -/
theorem gen_forbidden_elements :
    Gen.RX.forbiddenElements.all (fun e =>
      (nodeEltSites.contains e.1 && e.2.isPerm nodeForbidden) ||
      (propEltSites.contains e.1 && e.2.isPerm propForbidden)) = true ∧
    (nodeEltSites ++ propEltSites).all (fun f => Gen.RX.forbiddenElements.any (fun e => e.1 == f)) = true := by
  decide

/-- the decoder's catch-all rejection of RDF-namespace attributes on empty property elements (finding C09-rdf-ns-property-attr) -/
def emptyEltRejectsOtherRdfAttrs : Bool :=
  Gen.RX.forbiddenAttributes.any (fun e => e.2 == [[0x64, 0x65, 0x66, 0x61, 0x75, 0x6c, 0x74]])

/-- names the grammar does not allow as attributes of a node element / of an empty property element -/
def nodeAttrForbidden : List Str := [n_RDF, n_Description, n_li] ++ oldTerms ++ [n_resource, n_datatype, n_parseType]
def propAttrForbidden : List Str := [n_RDF, n_Description, n_li] ++ oldTerms ++ [n_about, n_parseType]

/-- apart from the catch-all, the decoder rejects an attribute by name only where the grammar does -/
theorem gen_forbidden_attributes :
    Gen.RX.forbiddenAttributes.all (fun e =>
      e.2 == [[0x64, 0x65, 0x66, 0x61, 0x75, 0x6c, 0x74]] ||
      (e.1 == "processNodeElt" && e.2.all (fun n => nodeAttrForbidden.contains n)) ||
      (e.1 == "processPropertyElt" && e.2.all (fun n => propAttrForbidden.contains n))) = true := by
  decide

/-- T1: rdf:ID / rdf:nodeID validity is NCName-ness, code point by code point -/
theorem gen_id_start : Gen.RX.idStart = ncNameStart := by decide
theorem gen_id_char : Gen.RX.idChar = ncNameChar := by decide

theorem gen_validateID : Gen.RX.validateIDRejects = "!reXmlNamespaceName.MatchString(v) || strings.Contains(v, \":\")" := by
  decide

theorem gen_tokenizer : Gen.RX.tokenizer = "on:inspectxml.NewDecoder off:xml.NewDecoder" := by decide

/-- what `badNodeName` / `badPropName` mean, for reading `gen_forbidden_elements` -/
theorem badNodeName_iff (n : Str) : badNodeName n = true ↔ n ∈ nodeForbidden := by
  simp [badNodeName]
theorem badPropName_iff (n : Str) : badPropName n = true ↔ n ∈ propForbidden := by
  simp [badPropName]

end RdfModel.C09
