/-
  C17 helper lemmas, part 3: the name-reusing closures of the exported (root) subjects are, together,
  a permutation of the input — provided every closure is defined (the export terminates).

  Route: for a list `W` of subjects let `F W` be the concatenated closures. One unfolding step gives
  `F W ~ own W ++ F (children W)`. Applied to *all* subjects `ord`: `own ord ~ T` and
  `children ord ~ inlined subjects ++ (inlined nodes without statements)`, while
  `F ord ~ F roots ++ F (inlined subjects)`; cancelling the finite list `F (inlined subjects)` on both
  sides leaves `F roots ~ T`. No forest structure is needed — only that the closures exist.
-/
import RdfModel.Proofs.C17Walk
namespace RdfModel.Proofs.C17
open RdfModel RdfModel.Desc RdfModel.C17

variable {β : Type} [DecidableEq β]

def own (B : Builder β) (y : Term β) : List (Triple β) := (B.stmts y).map (tr y)

def children (B : Builder β) (opts : Opts) (y : Term β) : List (Term β) :=
  ((B.stmts y).map (·.2)).filter (B.isInl opts)

theorem cw_mono (B : Builder β) (opts : Opts) :
    ∀ k y W, cw B opts k y = some W → cw B opts (k + 1) y = some W := by
  intro k
  induction k with
  | zero => intro y W h; simp [cw] at h
  | succ k ih =>
    intro y W h
    rw [cw_succ] at h ⊢
    obtain ⟨Ws, hWs, rfl⟩ := Option.map_eq_some_iff.1 h
    refine Option.map_eq_some_iff.2 ⟨Ws, ?_, rfl⟩
    refine mapOpt_congr_some ?_ hWs
    intro po _ w hw
    unfold cwStmt at hw ⊢
    by_cases hin : B.isInl opts po.2 = true
    · simp only [hin, if_true] at hw ⊢
      obtain ⟨w', hw', rfl⟩ := Option.map_eq_some_iff.1 hw
      exact Option.map_eq_some_iff.2 ⟨w', ih _ _ hw', rfl⟩
    · simpa [hin] using hw

theorem cw_mono_le (B : Builder β) (opts : Opts) {k k' : Nat} (hk : k ≤ k') {y : Term β}
    {W : List (Triple β)} (h : cw B opts k y = some W) : cw B opts k' y = some W := by
  induction hk with
  | refl => exact h
  | step _ ih => exact cw_mono B opts _ _ _ ih

theorem cw_step_inner (B : Builder β) (opts : Opts) (k : Nat) (y : Term β) :
    ∀ (l : List (PO β)) (Ws : List (List (Triple β))), mapOpt (cwStmt B opts k y) l = some Ws →
      ∃ Ls, mapOpt (cw B opts k) ((l.map (·.2)).filter (B.isInl opts)) = some Ls ∧
        Ws.flatten.Perm (l.map (tr y) ++ Ls.flatten) := by
  intro l
  induction l with
  | nil =>
    intro Ws h
    simp only [mapOpt_nil, Option.some.injEq] at h; subst h
    exact ⟨[], rfl, by simp⟩
  | cons po rest ih =>
    intro Ws h
    obtain ⟨w, Ws', hw, hWs', rfl⟩ := mapOpt_cons_some.1 h
    obtain ⟨Ls', hLs', hp⟩ := ih Ws' hWs'
    by_cases hin : B.isInl opts po.2 = true
    · simp only [cwStmt, hin, if_true] at hw
      obtain ⟨c, hc, rfl⟩ := Option.map_eq_some_iff.1 hw
      refine ⟨c :: Ls', ?_, ?_⟩
      · simp only [List.map_cons, List.filter_cons, hin, if_true]
        exact mapOpt_cons_some.2 ⟨c, Ls', hc, hLs', rfl⟩
      · simp only [List.flatten_cons, List.map_cons, List.append_assoc, List.cons_append, List.nil_append]
        -- c ++ tr :: Ws'.flatten ~ tr :: (rest.map tr ++ (c ++ Ls'.flatten))
        refine List.perm_middle.trans (List.Perm.cons _ ?_)
        refine (List.Perm.append_left c hp).trans ?_
        -- c ++ (rest' ++ Ls') ~ rest' ++ (c ++ Ls')
        rw [← List.append_assoc, ← List.append_assoc]
        exact List.Perm.append_right _ List.perm_append_comm
    · have hin' : B.isInl opts po.2 = false := by simpa using hin
      simp only [cwStmt, hin', Bool.false_eq_true, if_false, Option.some.injEq] at hw
      subst hw
      refine ⟨Ls', ?_, ?_⟩
      · simpa [List.filter_cons, hin'] using hLs'
      · simpa using hp

theorem cw_step (B : Builder β) (opts : Opts) (k : Nat) (y : Term β) (W : List (Triple β))
    (h : cw B opts (k + 1) y = some W) :
    ∃ Ls, mapOpt (cw B opts k) (children B opts y) = some Ls ∧ W.Perm (own B y ++ Ls.flatten) := by
  rw [cw_succ] at h
  obtain ⟨Ws, hWs, rfl⟩ := Option.map_eq_some_iff.1 h
  exact cw_step_inner B opts k y _ _ hWs

theorem F_step (B : Builder β) (opts : Opts) (k : Nat) :
    ∀ (W : List (Term β)) (Ws : List (List (Triple β))), mapOpt (cw B opts (k + 1)) W = some Ws →
      ∃ Ls, mapOpt (cw B opts k) (W.flatMap (children B opts)) = some Ls ∧
        Ws.flatten.Perm (W.flatMap (own B) ++ Ls.flatten) := by
  intro W
  induction W with
  | nil =>
    intro Ws h
    simp only [mapOpt_nil, Option.some.injEq] at h; subst h
    exact ⟨[], rfl, by simp⟩
  | cons y rest ih =>
    intro Ws h
    obtain ⟨w, Ws', hw, hWs', rfl⟩ := mapOpt_cons_some.1 h
    obtain ⟨Ls', hLs', hp'⟩ := ih Ws' hWs'
    obtain ⟨Lsy, hLsy, hpy⟩ := cw_step B opts k y w hw
    refine ⟨Lsy ++ Ls', ?_, ?_⟩
    · simp only [List.flatMap_cons]
      exact mapOpt_append.2 ⟨Lsy, Ls', hLsy, hLs', rfl⟩
    · simp only [List.flatten_cons, List.flatMap_cons, List.flatten_append]
      refine (List.Perm.append hpy hp').trans ?_
      -- (own ++ Lsy) ++ (rest ++ Ls') ~ (own ++ rest) ++ (Lsy ++ Ls')
      simp only [List.append_assoc]
      refine List.Perm.append_left _ ?_
      rw [← List.append_assoc, ← List.append_assoc]
      exact List.Perm.append_right _ List.perm_append_comm

/-! ### grouping the input by subject -/

theorem filter_or_perm {α : Type} (p q : α → Bool) (l : List α) (hd : ∀ a ∈ l, ¬ (p a = true ∧ q a = true)) :
    (l.filter p ++ l.filter q).Perm (l.filter (fun a => p a || q a)) := by
  induction l with
  | nil => simp
  | cons a l ih =>
    have ih' := ih (fun a' ha' => hd a' (by simp [ha']))
    have ha := hd a (by simp)
    cases hp : p a <;> cases hq : q a
    · simpa [List.filter_cons, hp, hq] using ih'
    · simp only [List.filter_cons, hp, hq, Bool.false_eq_true, if_false, if_true, Bool.or_true]
      exact List.perm_middle.trans (List.Perm.cons _ ih')
    · simp only [List.filter_cons, hp, hq, Bool.false_eq_true, if_false, if_true, Bool.or_false,
        List.cons_append]
      exact List.Perm.cons _ ih'
    · exact absurd ⟨hp, hq⟩ ha

theorem group_perm (T : List (Triple β)) :
    ∀ ks : List (Term β), ks.Nodup →
      (ks.flatMap (fun y => T.filter (fun t => t.s = y))).Perm (T.filter (fun t => decide (t.s ∈ ks))) := by
  intro ks
  induction ks with
  | nil => intro _; simp
  | cons k ks ih =>
    intro hn
    rw [List.nodup_cons] at hn
    simp only [List.flatMap_cons]
    refine (List.Perm.append_left _ (ih hn.2)).trans ?_
    refine (filter_or_perm _ _ T ?_).trans ?_
    · intro t _ h
      simp only [decide_eq_true_eq] at h
      exact hn.1 (h.1 ▸ h.2)
    · apply List.Perm.of_eq
      apply List.filter_congr
      intro t _
      simp only [List.mem_cons]
      by_cases h1 : t.s = k <;> by_cases h2 : t.s ∈ ks <;> simp [h1, h2]

theorem group_perm_all (T : List (Triple β)) (ks : List (Term β)) (hn : ks.Nodup)
    (hall : ∀ t ∈ T, t.s ∈ ks) : (ks.flatMap (fun y => T.filter (fun t => t.s = y))).Perm T := by
  have h := group_perm T ks hn
  have : T.filter (fun t => decide (t.s ∈ ks)) = T := List.filter_eq_self.2 (fun t ht => by simp [hall t ht])
  rwa [this] at h

theorem own_build (T : List (Triple β)) (y : Term β) :
    own (build T) y = T.filter (fun t => t.s = y) := by
  unfold own
  rw [stmts_build, List.map_map]
  have : ∀ t ∈ T.filter (fun t => t.s = y), (tr y ∘ poOf) t = id t := by
    intro t ht
    simp only [List.mem_filter, decide_eq_true_eq] at ht
    obtain ⟨_, rfl⟩ := ht
    rfl
  rw [List.map_congr_left this, List.map_id]

theorem children_build (T : List (Triple β)) (opts : Opts) (y : Term β) :
    children (build T) opts y =
      ((T.filter (fun t => t.s = y)).map (·.o)).filter ((build T).isInl opts) := by
  unfold children
  rw [stmts_build, List.map_map]
  rfl

/-- the once-referenced (inlined) objects of `T` -/
def inlObjs (T : List (Triple β)) (opts : Opts) : List (Term β) :=
  (T.map (·.o)).filter ((build T).isInl opts)

theorem count_inlObjs (T : List (Triple β)) (opts : Opts) (x : Term β) : (inlObjs T opts).count x ≤ 1 := by
  unfold inlObjs
  by_cases hx : (build T).isInl opts x = true
  · rw [List.count_filter hx]
    obtain ⟨b, rfl⟩ := isInl_bnode hx
    simp only [Builder.isInl, refCount_build, Bool.and_eq_true, beq_iff_eq] at hx
    rw [List.count_eq_countP, List.countP_map]
    have h2 : List.countP ((fun x => x == Term.bnode b) ∘ fun t : Triple β => t.o) T = refs T b := by
      unfold refs
      apply List.countP_congr
      intro t _
      simp
    rw [h2, hx.2]
    exact Nat.le_refl 1
  · have : x ∉ List.filter ((build T).isInl opts) (T.map (·.o)) := by
      intro h; exact hx (List.mem_filter.1 h).2
    rw [List.count_eq_zero.2 this]; omega

theorem inlObjs_nodup (T : List (Triple β)) (opts : Opts) : (inlObjs T opts).Nodup :=
  List.nodup_iff_count.2 (count_inlObjs T opts)

theorem mem_inlObjs_of_isInl (T : List (Triple β)) (opts : Opts) (x : Term β)
    (hx : (build T).isInl opts x = true) : x ∈ inlObjs T opts := by
  obtain ⟨b, rfl⟩ := isInl_bnode hx
  have hx' := hx
  simp only [Builder.isInl, refCount_build, Bool.and_eq_true, beq_iff_eq] at hx'
  have hpos : 0 < refs T b := by omega
  obtain ⟨t, ht, hto⟩ := List.countP_pos_iff.1 hpos
  simp only [decide_eq_true_eq] at hto
  exact List.mem_filter.2 ⟨List.mem_map.2 ⟨t, ht, hto⟩, hx⟩

theorem children_perm (T : List (Triple β)) (opts : Opts) (ord : List (Term β))
    (hord : ord.Perm (build T).subjects) :
    (ord.flatMap (children (build T) opts)).Perm (inlObjs T opts) := by
  have hn : ord.Nodup := (hord.nodup_iff).2 (subjects_build_nodup T)
  have hall : ∀ t ∈ T, t.s ∈ ord := fun t ht =>
    hord.mem_iff.2 ((mem_subjects_build T t.s).2 ⟨t, ht, rfl⟩)
  have hg := group_perm_all T ord hn hall
  have : ord.flatMap (children (build T) opts) =
      ((ord.flatMap (fun y => T.filter (fun t => t.s = y))).map (·.o)).filter ((build T).isInl opts) := by
    rw [List.map_flatMap, List.filter_flatMap]
    congr 1
    funext y
    exact children_build T opts y
  rw [this]
  exact (hg.map _).filter _

theorem own_perm (T : List (Triple β)) (ord : List (Term β)) (hord : ord.Perm (build T).subjects) :
    (ord.flatMap (own (build T))).Perm T := by
  have hn : ord.Nodup := (hord.nodup_iff).2 (subjects_build_nodup T)
  have hall : ∀ t ∈ T, t.s ∈ ord := fun t ht =>
    hord.mem_iff.2 ((mem_subjects_build T t.s).2 ⟨t, ht, rfl⟩)
  have : ord.flatMap (own (build T)) = ord.flatMap (fun y => T.filter (fun t => t.s = y)) := by
    congr 1; funext y; exact own_build T y
  rw [this]
  exact group_perm_all T ord hn hall

theorem cw_of_not_subject (T : List (Triple β)) (opts : Opts) (k : Nat) (x : Term β)
    (hx : x ∉ (build T).subjects) : cw (build T) opts (k + 1) x = some [] := by
  have : (build T).stmts x = [] := by
    rw [stmts_build]
    rw [mem_subjects_build] at hx
    simp only [List.map_eq_nil_iff, List.filter_eq_nil_iff, decide_eq_true_eq]
    intro t ht hts; exact hx ⟨t, ht, hts⟩
  simp [cw_succ, this, mapOpt_nil]

/-- The cancellation argument. -/
theorem closure_perm (T : List (Triple β)) (opts : Opts) (ord : List (Term β))
    (hord : ord.Perm (build T).subjects) (K : Nat)
    (hterm : ∀ y, (cw (build T) opts (K + 1) y).isSome) :
    ∃ Ws, mapOpt (cw (build T) opts (K + 1)) ((build T).roots opts ord) = some Ws ∧ Ws.flatten.Perm T := by
  let B := build T
  let inl := B.isInl opts
  -- closures of all subjects, at fuel K+1 and K+2
  obtain ⟨Wo, hWo⟩ := Option.isSome_iff_exists.1 (mapOpt_isSome (f := cw B opts (K + 1)) (l := ord) (fun y _ => hterm y))
  have hWo2 : mapOpt (cw B opts (K + 1 + 1)) ord = some Wo :=
    mapOpt_congr_some (fun y _ w hw => cw_mono B opts _ _ _ hw) hWo
  obtain ⟨Ls, hLs, hp1⟩ := F_step B opts (K + 1) ord Wo hWo2
  -- children ord ~ inlined subjects ++ X
  let X := (inlObjs T opts).filter (fun x => !decide (x ∈ ord))
  have hsplit : (inlObjs T opts).Perm (ord.filter inl ++ X) := by
    have h1 := (List.filter_append_perm (fun x => decide (x ∈ ord)) (inlObjs T opts)).symm
    refine h1.trans (List.Perm.append_right _ ?_)
    have hn : ord.Nodup := (hord.nodup_iff).2 (subjects_build_nodup T)
    refine (List.perm_ext_iff_of_nodup ((inlObjs_nodup T opts).sublist List.filter_sublist)
      (hn.sublist List.filter_sublist)).2 ?_
    intro x
    simp only [List.mem_filter, decide_eq_true_eq]
    constructor
    · rintro ⟨hx, hxo⟩
      exact ⟨hxo, (List.mem_filter.1 hx).2⟩
    · rintro ⟨hxo, hx⟩
      exact ⟨mem_inlObjs_of_isInl T opts x hx, hxo⟩
  have hch := (children_perm T opts ord hord).trans hsplit
  obtain ⟨Ls', hLs', hpL⟩ := mapOpt_perm hch hLs
  obtain ⟨Li, LX, hLi, hLX, rfl⟩ := mapOpt_append.1 hLs'
  -- closures of X are empty
  have hLXe : LX.flatten = [] := by
    have : ∀ (l : List (Term β)) (r : List (List (Triple β))), (∀ x ∈ l, x ∉ B.subjects) →
        mapOpt (cw B opts (K + 1)) l = some r → r.flatten = [] := by
      intro l
      induction l with
      | nil => intro r _ h; simp only [mapOpt_nil, Option.some.injEq] at h; subst h; rfl
      | cons x l ih =>
        intro r hx h
        obtain ⟨w, ws, hw, hws, rfl⟩ := mapOpt_cons_some.1 h
        rw [cw_of_not_subject T opts K x (hx x (by simp))] at hw
        cases hw
        simpa using ih ws (fun x' hx' => hx x' (by simp [hx'])) hws
    refine this X LX ?_ hLX
    intro x hx
    have := (List.mem_filter.1 hx).2
    simp only [Bool.not_eq_true', decide_eq_false_iff_not] at this
    exact fun h => this (hord.mem_iff.2 h)
  -- ord ~ inlined subjects ++ roots
  have hord2 : ord.Perm (ord.filter inl ++ B.roots opts ord) :=
    (List.filter_append_perm inl ord).symm
  obtain ⟨Wo', hWo', hpW⟩ := mapOpt_perm hord2 hWo
  obtain ⟨Wi, Wr, hWi, hWr, rfl⟩ := mapOpt_append.1 hWo'
  have hWiLi : Wi = Li := by rw [hLi] at hWi; exact (Option.some.inj hWi).symm
  subst hWiLi
  refine ⟨Wr, hWr, ?_⟩
  -- Wi.flatten ++ Wr.flatten ~ T ++ Wi.flatten
  have e1 : (Wi.flatten ++ Wr.flatten).Perm (T ++ Wi.flatten) := by
    have a := hpW.flatten
    rw [List.flatten_append] at a
    refine a.symm.trans (hp1.trans ?_)
    refine List.Perm.append (own_perm T ord hord) ?_
    have b := hpL.flatten
    rw [List.flatten_append, hLXe, List.append_nil] at b
    exact b
  have e2 : (Wr.flatten ++ Wi.flatten).Perm (T ++ Wi.flatten) := List.perm_append_comm.trans e1
  exact (List.perm_append_right_iff _).1 e2

end RdfModel.Proofs.C17
