/-
  Part C12W of property C12 — `(*ParsedIRI).DropFragment` (iri/parsed_iri.go) on the executable model
  (Model/ParsedIRI.lean `ParsedIRI.dropFragment`, tied by T3 op `piri.hist`, exact agreement on every step).

  Spec side: dropping the fragment of an IRI reference = RFC 3986 5.3 recomposition of its components without
  the fragment component (`noFrag`).

  Proved:
    * `dropFragment_spec_partial`     for every string `s` whose components lie in `InLang`
                                      (Props/C12WrapDefs.lean): `ParseIRI(s)` succeeds, and after `DropFragment()`
                                      `String()` is exactly `recompose (noFrag (split s))` — in particular a
                                      bare trailing '#' (empty fragment: the private `forceFragment` flag) is gone
    * `dropFragment_fresh_partial`    the dropped value IS the value `ParseIRI` builds for the fragment-free
                                      string (all private state included), hence every later history over the API
                                      (`Parse`, `ResolveReference`, `NewBaseIRI` …) is that of a freshly parsed base:
                                      `dropFragment_hist_partial`
    * `dropFragment_idempotent`       all inputs
    * `dropFragment_clears`           all inputs: afterwards Fragment, RawFragment are empty and forceFragment is false
  Partial: outside `InLang` (non-ASCII path bytes, userinfo, IP literals, the known deviation classes) only T3.
-/
import RdfModel.Props.C12Wrap
namespace RdfModel.C12W
open RdfModel.GoUrlFull RdfModel.PIRI
open RdfModel.Spec.RFC3986 (Parts split recompose)

/-- the components without the fragment component -/
def noFrag (P : Parts) : Parts := { P with fragment := none }

theorem dropFragment_clears (p : ParsedIRI) :
    p.dropFragment.forceFragment = false ∧ p.dropFragment.u.fragment = [] ∧ p.dropFragment.u.rawFragment = [] :=
  ⟨rfl, rfl, rfl⟩

theorem dropFragment_idempotent (p : ParsedIRI) : p.dropFragment.dropFragment = p.dropFragment := rfl

theorem preOf_noFrag (P : Parts) : preOf (noFrag P) = preOf P := rfl

theorem urlNoFrag_noFrag (P : Parts) : urlNoFrag (noFrag P) = urlNoFrag P := rfl

theorem urlNoFrag_frag (P : Parts) : (urlNoFrag P).fragment = [] ∧ (urlNoFrag P).rawFragment = [] := by
  unfold urlNoFrag
  split
  · exact ⟨rfl, rfl⟩
  · cases P.authority with
    | some a => exact ⟨rfl, rfl⟩
    | none =>
      simp only
      split <;> exact ⟨rfl, rfl⟩

theorem inLang_noFrag (P : Parts) (h : InLang P = true) : InLang (noFrag P) = true := by
  unfold InLang at h ⊢
  simp only [Bool.and_eq_true, Bool.not_eq_true'] at h ⊢
  obtain ⟨⟨⟨⟨⟨⟨hsch, hauth⟩, hpath⟩, hshape⟩, hq⟩, _⟩, hctl⟩ := h
  refine ⟨⟨⟨⟨⟨⟨hsch, hauth⟩, hpath⟩, ?_⟩, hq⟩, rfl⟩, ?_⟩
  · exact hshape
  · rw [recompose_eq, hasCTL_append, Bool.or_eq_false_iff] at hctl
    rw [recompose_eq, preOf_noFrag]
    simp [noFrag, RdfModel.Spec.RFC3986.fragmentPart, hctl.1]

/-- `DropFragment` on what `ParseIRI` builds inside `InLang` gives what `ParseIRI` builds for the fragment-free
    components: the URL fields and both private flags -/
theorem pOf_dropFragment (P : Parts) : (pOf P).dropFragment = pOf (noFrag P) := by
  obtain ⟨hf, hrf⟩ := urlNoFrag_frag P
  have hnf : ({ urlNoFrag P with fragment := [], rawFragment := [] } : URL) = urlNoFrag P := by
    generalize urlNoFrag P = u at hf hrf
    cases u
    simp only at hf hrf
    subst hf hrf
    rfl
  unfold ParsedIRI.dropFragment pOf urlOf
  rw [urlNoFrag_noFrag]
  have h2 : fragNonEmpty (noFrag P) = none := rfl
  rw [h2]
  have h3 : ((noFrag P).fragment == some []) = false := rfl
  rw [h3]
  cases hfn : fragNonEmpty P with
  | none => simp only [hnf]
  | some f => simp only [hnf]

/-- Proved part of "dropping the fragment = recomposition without the fragment": for every `s` inside `InLang`,
    `ParseIRI(s)` succeeds and `DropFragment()` followed by `String()` yields `recompose (noFrag (split s))`
    (no trailing '#', nothing else changed). -/
theorem dropFragment_spec_partial (s : Str) (h : InLang (split s) = true) :
    ∃ p, parseIRI s = .ok p ∧ p.dropFragment.str = recompose (noFrag (split s)) := by
  obtain ⟨h1, _⟩ := parseIRI_eq_pOf (split s) h
  rw [C12.recompose_split] at h1
  refine ⟨pOf (split s), h1, ?_⟩
  rw [pOf_dropFragment]
  exact (parseIRI_eq_pOf (noFrag (split s)) (inLang_noFrag _ h)).2

/-- the dropped value is indistinguishable from a fresh parse of the fragment-free string -/
theorem dropFragment_fresh_partial (s : Str) (h : InLang (split s) = true) :
    ∃ p, parseIRI s = .ok p ∧ parseIRI (recompose (noFrag (split s))) = .ok p.dropFragment := by
  obtain ⟨h1, _⟩ := parseIRI_eq_pOf (split s) h
  rw [C12.recompose_split] at h1
  refine ⟨pOf (split s), h1, ?_⟩
  rw [pOf_dropFragment]
  exact (parseIRI_eq_pOf (noFrag (split s)) (inLang_noFrag _ h)).1

/-- hence every later history over the exported API runs as from the freshly parsed fragment-free string: in
    particular no '#' of the dropped fragment can reappear downstream (what the seeded early-return variant of
    `DropFragment` violates for an empty fragment) -/
theorem dropFragment_hist_partial (s : Str) (h : InLang (split s) = true) (ops : List HOp) :
    ∃ p q, parseIRI s = .ok p ∧ parseIRI (recompose (noFrag (split s))) = .ok q ∧
      runHist p (.drop :: ops) = .ok q none :: runHist q ops := by
  obtain ⟨p, hp, hq⟩ := dropFragment_fresh_partial s h
  exact ⟨p, p.dropFragment, hp, hq, rfl⟩

-- non-trivial members: an empty fragment after an empty query, a non-ASCII fragment, an opaque IRI with '#'
example : InLang (split (S "http://e/dir/doc?#")) = true ∧
    recompose (noFrag (split (S "http://e/dir/doc?#"))) = S "http://e/dir/doc?" := by decide +kernel
example : InLang (split (S "urn:isbn:0-486-27557-4#")) = true ∧
    recompose (noFrag (split (S "urn:isbn:0-486-27557-4#"))) = S "urn:isbn:0-486-27557-4" := by decide +kernel
example : InLang (split (S "../a/b%2Fc#r" ++ eAcute)) = true := by decide +kernel

/-- the histories of the seeded defect C12r3-2, on the model: a base ending in a bare '#', `DropFragment`, then
    printed / used as a base (HTML+RDFa document location), and RDF/XML's empty same-document reference -/
theorem dropFragment_witness :
    (match parseIRI (S "http://example.org/dir/doc#") with
      | .ok b => (runHist b [.drop, .parse (S "other")]).map (fun st => match st with | .ok p _ => some p.str | _ => none)
      | .error _ => []) = [some (S "http://example.org/dir/doc"), some (S "http://example.org/dir/other")] ∧
    (match parseIRI (S "http://example.org/dir/doc#") with
      | .ok b => (runHist b [.parse [], .drop]).map (fun st => match st with | .ok p _ => some p.str | _ => none)
      | .error _ => []) = [some (S "http://example.org/dir/doc#"), some (S "http://example.org/dir/doc")] := by
  decide +kernel

end RdfModel.C12W
