/-
  C18 helper lemmas, part 2: the labels the pipe writes (one node ↦ one label, two nodes ↦ two labels).
  Uses the C14 lemmas about `getLabel` / `peek` (RdfModel/Proofs/C14*.lean).
-/
import RdfModel.Props.C18Defs
import RdfModel.Proofs.C14Trace
namespace RdfModel.Proofs.C18
open RdfModel RdfModel.Pipe RdfModel.C18 RdfModel.BN RdfModel.C14 RdfModel.Proofs.C14

/-- the label provider `p` has fixed for `n` in state `s` (`[]` if none) -/
def sigmaOf (U : Nat → Bytes) (s : State) (p : ProvRef) (n : Node) : Bytes :=
  match peek U s p n with
  | some (.label l) => l
  | _ => []

theorem sigmaOf_of_peek {U : Nat → Bytes} {s : State} {p : ProvRef} {n : Node} {l : Bytes}
    (h : peek U s p n = some (.label l)) : sigmaOf U s p n = l := by simp [sigmaOf, h]

/-- every blank node of `ns` has a label fixed in `s` -/
def Fixed (U : Nat → Bytes) (s : State) (p : ProvRef) (ns : List Node) : Prop :=
  ∀ n ∈ ns, peek U s p n = some (.label (sigmaOf U s p n))

theorem fixed_ext {U : Nat → Bytes} {s s' : State} {p : ProvRef} {ns : List Node} (hE : Ext s s')
    (h : Fixed U s p ns) : Fixed U s' p ns := by
  intro n hn
  have h1 := peek_ext U hE p n _ (h n hn)
  rw [sigmaOf_of_peek h1]; exact h1

theorem sigmaOf_ext {U : Nat → Bytes} {s s' : State} {p : ProvRef} {ns : List Node} (hE : Ext s s')
    (h : Fixed U s p ns) : ∀ n ∈ ns, sigmaOf U s' p n = sigmaOf U s p n := by
  intro n hn
  exact sigmaOf_of_peek (peek_ext U hE p n _ (h n hn))

/-! ### one term -/

theorem labelTerm_ext (U : Nat → Bytes) (p : ProvRef) (s : State) (t : Term Node) :
    Ext s (labelTerm U p s t).1 := by
  cases t with
  | iri v => exact Ext.refl s
  | lit l d g => exact Ext.refl s
  | bnode n =>
    have h := getLabel_ext U s p n
    simp only [labelTerm]
    generalize getLabel U s p n = r at h
    obtain ⟨s', o⟩ := r
    cases o <;> exact h

theorem labelTerm_inv (U : Nat → Bytes) (p : ProvRef) {s : State} (hI : Inv s) (t : Term Node) :
    Inv (labelTerm U p s t).1 := by
  cases t with
  | iri v => exact hI
  | lit l d g => exact hI
  | bnode n =>
    have h := getLabel_inv U hI p n
    simp only [labelTerm]
    generalize getLabel U s p n = r at h
    obtain ⟨s', o⟩ := r
    cases o <;> exact h

theorem labelTerm_spec (U : Nat → Bytes) (p : ProvRef) (s : State) (t : Term Node) (t' : Term Bytes)
    (h : (labelTerm U p s t).2 = some t') :
    Fixed U (labelTerm U p s t).1 p (termNodes t) ∧ t' = t.map (sigmaOf U (labelTerm U p s t).1 p) := by
  cases t with
  | iri v =>
    simp only [labelTerm] at h ⊢
    refine ⟨by intro n hn; simp [termNodes] at hn, ?_⟩
    cases h; rfl
  | lit l d g =>
    simp only [labelTerm] at h ⊢
    refine ⟨by intro n hn; simp [termNodes] at hn, ?_⟩
    cases h; rfl
  | bnode n =>
    have hp := getLabel_peek U s p n
    simp only [labelTerm] at h ⊢
    generalize getLabel U s p n = r at h hp
    obtain ⟨s', o⟩ := r
    cases o with
    | label l =>
      simp only at h hp ⊢
      have hpk := hp (by simp)
      have hs := sigmaOf_of_peek hpk
      refine ⟨?_, ?_⟩
      · intro m hm
        simp only [termNodes, List.mem_singleton] at hm
        subst hm
        rw [hs]; exact hpk
      · cases h
        simp [Term.map, hs]
    | _ => simp at h

/-- the label function of a later state agrees on a term labelled earlier -/
theorem labelTerm_later (U : Nat → Bytes) (p : ProvRef) (s : State) (t : Term Node) (t' : Term Bytes)
    (h : (labelTerm U p s t).2 = some t') (sF : State) (hE : Ext (labelTerm U p s t).1 sF) :
    Fixed U sF p (termNodes t) ∧ t' = t.map (sigmaOf U sF p) := by
  obtain ⟨hf, ht⟩ := labelTerm_spec U p s t t' h
  refine ⟨fixed_ext hE hf, ?_⟩
  rw [ht]
  have hs := sigmaOf_ext hE hf
  cases t with
  | iri v => rfl
  | lit l d g => rfl
  | bnode n => simp [Term.map, hs n (by simp [termNodes])]

/-! ### one statement -/

theorem labelQuad_ext (U : Nat → Bytes) (p : ProvRef) (s : State) (q : Quad Node) :
    Ext s (labelQuad U p s q).1 := by
  obtain ⟨qs, qp, qo, qg⟩ := q
  have e1 := labelTerm_ext U p s qs
  have e2 := labelTerm_ext U p (labelTerm U p s qs).1 qp
  have e3 := labelTerm_ext U p (labelTerm U p (labelTerm U p s qs).1 qp).1 qo
  cases qg with
  | none => exact Ext.trans (Ext.trans e1 e2) e3
  | some g => exact Ext.trans (Ext.trans (Ext.trans e1 e2) e3) (labelTerm_ext U p _ g)

theorem labelQuad_inv (U : Nat → Bytes) (p : ProvRef) {s : State} (hI : Inv s) (q : Quad Node) :
    Inv (labelQuad U p s q).1 := by
  obtain ⟨qs, qp, qo, qg⟩ := q
  have i1 := labelTerm_inv U p hI qs
  have i2 := labelTerm_inv U p i1 qp
  have i3 := labelTerm_inv U p i2 qo
  cases qg with
  | none => exact i3
  | some g => exact labelTerm_inv U p i3 g

theorem mkQuad_some {a b c : Option (Term Bytes)} {d : Option (Option (Term Bytes))} {q : Quad Bytes}
    (h : mkQuad a b c d = some q) : a = some q.s ∧ b = some q.p ∧ c = some q.o ∧ d = some q.g := by
  cases a <;> cases b <;> cases c <;> cases d <;> simp [mkQuad] at h
  subst h; exact ⟨rfl, rfl, rfl, rfl⟩

theorem labelQuad_later (U : Nat → Bytes) (p : ProvRef) (s : State) (q : Quad Node) (q' : Quad Bytes)
    (h : (labelQuad U p s q).2 = some q') (sF : State) (hE : Ext (labelQuad U p s q).1 sF) :
    Fixed U sF p (quadNodes q) ∧ q' = q.map (sigmaOf U sF p) := by
  obtain ⟨qs, qp, qo, qg⟩ := q
  have e2 := labelTerm_ext U p (labelTerm U p s qs).1 qp
  have e3 := labelTerm_ext U p (labelTerm U p (labelTerm U p s qs).1 qp).1 qo
  cases qg with
  | none =>
    simp only [labelQuad] at h hE
    obtain ⟨h1, h2, h3, h4⟩ := mkQuad_some h
    obtain ⟨f1, t1⟩ := labelTerm_later U p s qs _ h1 sF (Ext.trans (Ext.trans e2 e3) hE)
    obtain ⟨f2, t2⟩ := labelTerm_later U p _ qp _ h2 sF (Ext.trans e3 hE)
    obtain ⟨f3, t3⟩ := labelTerm_later U p _ qo _ h3 sF hE
    refine ⟨?_, ?_⟩
    · intro n hn
      simp only [quadNodes, List.mem_append, List.not_mem_nil, or_false] at hn
      rcases hn with (hn | hn) | hn
      · exact f1 n hn
      · exact f2 n hn
      · exact f3 n hn
    · obtain ⟨a, b, c, d⟩ := q'
      simp only at t1 t2 t3 h4
      simp only [Quad.map, Quad.mk.injEq, Option.map_none]
      exact ⟨t1, t2, t3, by simpa using h4.symm⟩
  | some g =>
    simp only [labelQuad] at h hE
    obtain ⟨h1, h2, h3, h4⟩ := mkQuad_some h
    have e4 := labelTerm_ext U p (labelTerm U p (labelTerm U p (labelTerm U p s qs).1 qp).1 qo).1 g
    obtain ⟨f1, t1⟩ := labelTerm_later U p s qs _ h1 sF (Ext.trans (Ext.trans (Ext.trans e2 e3) e4) hE)
    obtain ⟨f2, t2⟩ := labelTerm_later U p _ qp _ h2 sF (Ext.trans (Ext.trans e3 e4) hE)
    obtain ⟨f3, t3⟩ := labelTerm_later U p _ qo _ h3 sF (Ext.trans e4 hE)
    obtain ⟨a, b, c, d⟩ := q'
    simp only at t1 t2 t3 h4
    cases hg : (labelTerm U p (labelTerm U p (labelTerm U p (labelTerm U p s qs).1 qp).1 qo).1 g).2 with
    | none => rw [hg] at h4; simp at h4
    | some g' =>
      rw [hg] at h4
      obtain ⟨f4, t4⟩ := labelTerm_later U p _ g _ hg sF hE
      refine ⟨?_, ?_⟩
      · intro n hn
        simp only [quadNodes, List.mem_append] at hn
        rcases hn with ((hn | hn) | hn) | hn
        · exact f1 n hn
        · exact f2 n hn
        · exact f3 n hn
        · exact f4 n hn
      · simp only [Quad.map, Quad.mk.injEq, Option.map_some]
        refine ⟨t1, t2, t3, ?_⟩
        simp only [Option.map_some, Option.some.injEq] at h4
        rw [← h4, t4]

/-! ### a list of statements -/

theorem labelQuads_ext (U : Nat → Bytes) (p : ProvRef) (s : State) (qs : List (Quad Node)) :
    Ext s (labelQuads U p s qs).1 := by
  induction qs generalizing s with
  | nil => exact Ext.refl s
  | cons q rest ih =>
    simp only [labelQuads]
    exact Ext.trans (labelQuad_ext U p s q) (ih _)

theorem labelQuads_inv (U : Nat → Bytes) (p : ProvRef) {s : State} (hI : Inv s) (qs : List (Quad Node)) :
    Inv (labelQuads U p s qs).1 := by
  induction qs generalizing s with
  | nil => exact hI
  | cons q rest ih =>
    simp only [labelQuads]
    exact ih (labelQuad_inv U p hI q)

theorem consOpt_some {α : Type} {a : Option α} {l : Option (List α)} {r : List α} (h : consOpt a l = some r) :
    ∃ x xs, a = some x ∧ l = some xs ∧ r = x :: xs := by
  cases a <;> cases l <;> simp [consOpt] at h
  exact ⟨_, _, rfl, rfl, h.symm⟩

theorem labelQuads_later (U : Nat → Bytes) (p : ProvRef) (s : State) (qs : List (Quad Node)) (out : List (Quad Bytes))
    (h : (labelQuads U p s qs).2 = some out) (sF : State) (hE : Ext (labelQuads U p s qs).1 sF) :
    Fixed U sF p (nodesOf qs) ∧ out = qs.map (Quad.map (sigmaOf U sF p)) := by
  induction qs generalizing s out with
  | nil =>
    simp only [labelQuads] at h
    cases h
    exact ⟨by intro n hn; simp [nodesOf] at hn, rfl⟩
  | cons q rest ih =>
    simp only [labelQuads] at h hE
    obtain ⟨x, xs, hx, hxs, rfl⟩ := consOpt_some h
    obtain ⟨fr, tr⟩ := ih _ xs hxs hE
    obtain ⟨fq, tq⟩ := labelQuad_later U p s q x hx sF (Ext.trans (labelQuads_ext U p _ rest) hE)
    refine ⟨?_, ?_⟩
    · intro n hn
      simp only [nodesOf, List.flatMap_cons, List.mem_append] at hn
      rcases hn with hn | hn
      · exact fq n hn
      · exact fr n hn
    · simp [tq, tr]

/-! ### the provider installed by `PropagateDecoderPipeBlankNodeStringProvider` always answers -/

def fmtS : Bytes := [37, 115]

theorem asc_fmtS : BN.asc "%s" = fmtS := by decide

theorem sprintf1_s (x : Bytes) : sprintf1 fmtS uuidVerbs x = .label x := by
  simp [sprintf1, fmtS, splitVerb, uuidVerbs]

/-- UUID provider `i` exists and formats with `%s` -/
def Good (s : State) (i : Nat) : Prop := ∃ pr, s.uuids[i]? = some pr ∧ pr.format = fmtS

theorem good_ext {s s' : State} {i : Nat} (hE : Ext s s') (h : Good s i) : Good s' i := by
  obtain ⟨pr, hp, hf⟩ := h
  obtain ⟨pr', hp', hf', _⟩ := hE.uuids i pr hp
  exact ⟨pr', hp', by rw [hf', hf]⟩

theorem getLabel_good (U : Nat → Bytes) {s : State} {i : Nat} (hg : Good s i) (j : Nat) (n : Node) :
    ∃ l, (getLabel U s (.pass j (.uuid i)) n).2 = .label l := by
  obtain ⟨pr, hp, hf⟩ := hg
  rcases pass_cases j n with ⟨v, rfl⟩ | hno
  · exact ⟨v, by rw [getLabel_pass_own]⟩
  · rw [getLabel_pass_other U s j _ n hno]
    simp only [getLabel, hp]
    cases BN.assoc n pr.known with
    | some pos => exact ⟨U pos, by simp [hf, sprintf1_s]⟩
    | none => exact ⟨U s.uuidPos, by simp [hf, sprintf1_s]⟩

theorem labelTerm_good (U : Nat → Bytes) {s : State} {i : Nat} (hg : Good s i) (j : Nat) (t : Term Node) :
    ∃ t', (labelTerm U (.pass j (.uuid i)) s t).2 = some t' := by
  cases t with
  | iri v => exact ⟨_, rfl⟩
  | lit l d g => exact ⟨_, rfl⟩
  | bnode n =>
    obtain ⟨l, hl⟩ := getLabel_good U hg j n
    simp only [labelTerm]
    generalize getLabel U s (.pass j (.uuid i)) n = r at hl
    obtain ⟨s', o⟩ := r
    simp only at hl
    subst hl
    exact ⟨_, rfl⟩

theorem labelQuad_good (U : Nat → Bytes) {s : State} {i : Nat} (hg : Good s i) (j : Nat) (q : Quad Node) :
    ∃ q', (labelQuad U (.pass j (.uuid i)) s q).2 = some q' := by
  obtain ⟨qs, qp, qo, qg⟩ := q
  have g1 := good_ext (labelTerm_ext U (.pass j (.uuid i)) s qs) hg
  have g2 := good_ext (labelTerm_ext U (.pass j (.uuid i)) _ qp) g1
  have g3 := good_ext (labelTerm_ext U (.pass j (.uuid i)) _ qo) g2
  obtain ⟨a, ha⟩ := labelTerm_good U hg j qs
  obtain ⟨b, hb⟩ := labelTerm_good U g1 j qp
  obtain ⟨c, hc⟩ := labelTerm_good U g2 j qo
  cases qg with
  | none => exact ⟨⟨a, b, c, none⟩, by simp [labelQuad, ha, hb, hc, mkQuad]⟩
  | some g =>
    obtain ⟨d, hd⟩ := labelTerm_good U g3 j g
    exact ⟨⟨a, b, c, some d⟩, by simp [labelQuad, ha, hb, hc, hd, mkQuad]⟩

theorem labelQuads_good (U : Nat → Bytes) {s : State} {i : Nat} (hg : Good s i) (j : Nat) (qs : List (Quad Node)) :
    ∃ out, (labelQuads U (.pass j (.uuid i)) s qs).2 = some out := by
  induction qs generalizing s with
  | nil => exact ⟨[], rfl⟩
  | cons q rest ih =>
    obtain ⟨q', hq⟩ := labelQuad_good U hg j q
    obtain ⟨out, ho⟩ := ih (good_ext (labelQuad_ext U (.pass j (.uuid i)) s q) hg)
    exact ⟨q' :: out, by simp [labelQuads, hq, ho, consOpt]⟩

/-! ### injectivity of the fixed labels -/

theorem peek_uuid_label (U : Nat → Bytes) {s : State} {i : Nat} (hg : Good s i) (n : Node) (l : Bytes)
    (h : peek U s (.uuid i) n = some (.label l)) : ∃ k, l = U k := by
  obtain ⟨pr, hp, hf⟩ := hg
  simp only [peek, hp] at h
  cases ha : BN.assoc n pr.known with
  | none => rw [ha] at h; simp at h
  | some pos =>
    rw [ha] at h
    simp only [Option.map_some, hf, sprintf1_s, Option.some.injEq, Out.label.injEq] at h
    exact ⟨pos, h.symm⟩

theorem sigma_injective (U : Nat → Bytes) (hU : Function.Injective U) {s : State} (hI : Inv s) {i : Nat}
    (hg : Good s i) (j : Nat) (ns : List Node) (hf : Fixed U s (.pass j (.uuid i)) ns)
    (hcol : ∀ v, some (.bnString j v) ∈ ns → ∀ k, v ≠ U k) :
    ∀ n ∈ ns, ∀ m ∈ ns, sigmaOf U s (.pass j (.uuid i)) n = sigmaOf U s (.pass j (.uuid i)) m → n = m := by
  intro n hn m hm heq
  have pn := hf n hn
  have pm := hf m hm
  rw [heq] at pn
  generalize sigmaOf U s (.pass j (.uuid i)) m = l at pn pm
  rcases pass_cases j n with ⟨v, rfl⟩ | hno
  · rw [peek_pass_own] at pn
    simp only [Option.some.injEq, Out.label.injEq] at pn
    subst pn
    rcases pass_cases j m with ⟨w, rfl⟩ | hmo
    · rw [peek_pass_own] at pm
      simp only [Option.some.injEq, Out.label.injEq] at pm
      rw [pm]
    · rw [peek_pass_other U s j _ m hmo] at pm
      obtain ⟨k, hk⟩ := peek_uuid_label U hg m _ pm
      exact absurd hk (hcol v hn k)
  · rw [peek_pass_other U s j _ n hno] at pn
    rcases pass_cases j m with ⟨w, rfl⟩ | hmo
    · rw [peek_pass_own] at pm
      simp only [Option.some.injEq, Out.label.injEq] at pm
      subst pm
      obtain ⟨k, hk⟩ := peek_uuid_label U hg n _ pn
      exact absurd hk (hcol w hm k)
    · rw [peek_pass_other U s j _ m hmo] at pm
      exact peek_inj_leaf U hU hI (.uuid i) rfl n m l pn pm

/-! ### `pipeProvider` on a string factory -/

theorem pipeProvider_strf (U : Nat → Bytes) (s : State) (j : Nat) (hj : j < s.strfs.length) :
    pipeProvider U s (some (.strf j)) =
      ({ s with uuids := s.uuids ++ [{ format := BN.asc "%s", known := [] }] }, some (.pass j (.uuid s.uuids.length))) := by
  simp [pipeProvider, step, hj]

theorem good_after_propagate (s : State) :
    Good { s with uuids := s.uuids ++ [{ format := BN.asc "%s", known := [] }] } s.uuids.length := by
  refine ⟨{ format := BN.asc "%s", known := [] }, ?_, asc_fmtS⟩
  simp

theorem inv_after_propagate (U : Nat → Bytes) {s : State} (hI : Inv s) (j : Nat) :
    Inv (pipeProvider U s (some (.strf j))).1 := by
  have h := step_inv U hI (.propagate (some (.strf j)))
  simp only [pipeProvider]
  generalize step U s (.propagate (some (.strf j))) = r at h
  obtain ⟨s', o⟩ := r
  cases o with
  | noProv =>
    simp only at h ⊢
    have h2 := step_inv U h (.newInt64Provider (BN.asc "b%d"))
    generalize step U s' (.newInt64Provider (BN.asc "b%d")) = r2 at h2
    obtain ⟨s'', o2⟩ := r2
    cases o2 <;> exact h2
  | _ => exact h

/-- The labels theorem in the form used by `Props/C18.lean`. -/
theorem pipe_labels (U : Nat → Bytes) (hU : Function.Injective U) (s : State) (hI : Inv s) (j : Nat)
    (hj : j < s.strfs.length) (qs : List (Quad Node))
    (hcol : ∀ v, some (.bnString j v) ∈ nodesOf qs → ∀ k, v ≠ U k) :
    ∃ (p : ProvRef) (s1 : State) (σ : Node → Bytes),
      pipeProvider U s (some (.strf j)) = (s1, some p) ∧
      (labelQuads U p s1 qs).2 = some (qs.map (Quad.map σ)) ∧
      (∀ n ∈ nodesOf qs, ∀ m ∈ nodesOf qs, σ n = σ m → n = m) ∧
      (∀ v, σ (some (.bnString j v)) = v) ∧
      (∀ n ∈ nodesOf qs, (∃ v, n = some (.bnString j v)) ∨ ∃ k, σ n = U k) := by
  have hpp := pipeProvider_strf U s j hj
  have hI1 : Inv (pipeProvider U s (some (.strf j))).1 := inv_after_propagate U hI j
  rw [hpp] at hI1
  simp only at hI1
  have hg := good_after_propagate s
  generalize hs1 : ({ s with uuids := s.uuids ++ [{ format := BN.asc "%s", known := [] }] } : State) = s1 at hpp hI1 hg
  obtain ⟨out, hout⟩ := labelQuads_good U hg j qs
  have hE := labelQuads_ext U (.pass j (.uuid s.uuids.length)) s1 qs
  obtain ⟨hfix, hmap⟩ := labelQuads_later U _ s1 qs out hout _ (Ext.refl _)
  refine ⟨_, s1, sigmaOf U (labelQuads U (.pass j (.uuid s.uuids.length)) s1 qs).1 (.pass j (.uuid s.uuids.length)),
    hpp, by rw [hout, hmap], ?_, ?_, ?_⟩
  · exact sigma_injective U hU (labelQuads_inv U _ hI1 qs) (good_ext hE hg) j _ hfix hcol
  · intro v
    exact sigmaOf_of_peek (peek_pass_own U _ j _ v)
  · intro n hn
    rcases pass_cases j n with hv | hno
    · exact Or.inl hv
    · right
      have h := hfix n hn
      rw [peek_pass_other U _ j _ n hno] at h
      exact peek_uuid_label U (good_ext hE hg) n _ h

end RdfModel.Proofs.C18
