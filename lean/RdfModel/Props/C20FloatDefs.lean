/-
  Definitions used by the C20F theorems (decimal / double / float, value side). Core-only: the driver
  imports this file for `decWF`.
-/
import RdfModel.Model.XsdFloat
import RdfModel.Spec.XsdDecimal
import RdfModel.Props.C20Defs
namespace RdfModel.C20F
open RdfModel RdfModel.Xsd RdfModel.XsdF

/-- post-conditions of strconv's shortest conversion (`ryuFtoaShortest`, `%e`-style digit buffer):
    ASCII digits only; zero is the EMPTY expansion with `dp = 0`; otherwise the first digit is not `0`
    and there is no trailing `0`. (= `Dec.wf`, the check `GF.outChecked` performs.) -/
def decWF (d : Dec) : Bool :=
  d.ds.all Spec.Xsd.isDigit &&
  (match d.ds with
   | [] => d.dp == 0
   | c :: _ => c != 0x30 && d.ds.getLast? != some 0x30)

theorem decWF_eq_wf (d : Dec) : decWF d = d.wf := rfl

/-- the number an expansion denotes, as (unscaled value, scale): `natValue ds · 10^(dp − nd)` -/
def decValue (d : Dec) : Nat × Nat :=
  (Spec.Xsd.natValue d.ds * 10 ^ (d.dp - d.ds.length).toNat, ((d.ds.length : Int) - d.dp).toNat)

/-- the exact number `FVal` denotes equals `± n / 10^k` (decimal `FVal`s only) -/
def FValIs (v : FVal) (neg : Bool) (n k : Nat) : Prop :=
  ∃ m e nd, v = .fin neg m 10 e nd ∧
    (if e ≥ 0 then m * 10 ^ e.toNat * 10 ^ k = n else m * 10 ^ k = n * 10 ^ (-e).toNat)

end RdfModel.C20F
