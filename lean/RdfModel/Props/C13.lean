/-
  Property C13 — shortened IRIs always expand back to the original IRI (theorems only; helper lemmas
  live in RdfModel/Proofs/C13*.lean).

  The objects are the executable models of Model/Prefix.lean, which the driver runs against the Go code:
  `run`/`storeRun` (PrefixManager histories), `compact`/`expand`, `compactCURIE`/`expandCURIE`,
  `relativize` (BaseIRI.RelativizeIRI as repaired by patches/c13-fix-relativize.patch).
  Every PrefixManager theorem holds for every `Sorter` (any permutation sorted by descending namespace
  length: `slices.SortFunc` is not stable).
-/
import RdfModel.Props.C13Defs
import RdfModel.Proofs.C13PM
import RdfModel.Proofs.C13Useful
import RdfModel.Proofs.C13Quirk
import RdfModel.Proofs.C13Curie
namespace RdfModel.C13
open RdfModel.Prefix
open RdfModel.Spec.RFC3986Lite (Str cColon cSlash cQuest cHash cDot resolve split)

/-! ## PrefixManager: all histories -/

/-- No sequence of `AddPrefixMappings`/`DeletePrefixes` calls after `NewPrefixManager` panics, and the
    representation invariant holds afterwards: `ordered` has no duplicate prefix, is sorted by descending
    namespace length, and lists exactly the entries of `mappingByPrefix`. -/
theorem pm_inv (S : Sorter) (init : List Mapping) (ops : List Op) :
    ∃ p, run S init ops = some p ∧ Inv p := by
  obtain ⟨p, h1, h2, _⟩ := Proofs.C13.run_ok S init ops
  exact ⟨p, h1, h2⟩

/-- Refinement: after any history the map holds, for every prefix, exactly the most recent mapping
    (`lastWrite` searches the calls backwards; a deletion ends the search). -/
theorem pm_refines_lastwrite (S : Sorter) (init : List Mapping) (ops : List Op) (p : PM)
    (h : run S init ops = some p) : ∀ k, p.byPrefix.get k = lastWrite init ops k := by
  obtain ⟨p', h1, _, h3⟩ := Proofs.C13.run_ok S init ops
  rw [h] at h1; cases h1; exact h3

/-- The prefix table (`GetPrefixMappings`) reflects exactly the most recent mapping per prefix: it
    contains `(k, ns)` iff that is the most recent mapping of `k`, each prefix once, longest namespace first. -/
theorem pm_table_exact (S : Sorter) (init : List Mapping) (ops : List Op) (p : PM)
    (h : run S init ops = some p) :
    (∀ m : Mapping, m ∈ getMappings p ↔ lastWrite init ops m.pfx = some m.expanded) ∧
    ((getMappings p).map (·.pfx)).Nodup ∧
    (getMappings p).Pairwise (fun a b => b.expanded.length ≤ a.expanded.length) := by
  have hinv := Proofs.C13.run_inv S init ops p h
  have htab := pm_refines_lastwrite S init ops p h
  exact ⟨fun m => by rw [← htab]; exact hinv.agree m, hinv.nodup, hinv.sorted⟩

example : (run mergeSorter [⟨[0x61], [0x68]⟩] [.add [⟨[0x62], [0x68, 0x69]⟩], .del [[0x61]]]).map getMappings
    = some [⟨[0x62], [0x68, 0x69]⟩] := by decide

/-- `ExpandPrefix` is the specification's lookup. -/
theorem expand_spec (S : Sorter) (init : List Mapping) (ops : List Op) (p : PM)
    (h : run S init ops = some p) (k r : Str) :
    expand p ⟨k, r⟩ = (lastWrite init ops k).map (· ++ r) := by
  unfold expand
  rw [pm_refines_lastwrite S init ops p h k]
  cases lastWrite init ops k <;> rfl

/-- Round trip: whatever `CompactPrefix` offers, `ExpandPrefix` turns back into exactly the IRI. -/
theorem compact_expand (S : Sorter) (init : List Mapping) (ops : List Op) (p : PM)
    (h : run S init ops = some p) (v : Str) (pr : PrefixRef) (hc : compact p v = some pr) :
    expand p pr = some v := by
  obtain ⟨ns, h1, h2, _⟩ := Proofs.C13.compact_spec p (Proofs.C13.run_inv S init ops p h) v pr hc
  unfold expand
  simp only [h1]
  exact congrArg some h2

/-- Longest match: the prefix offered is mapped (most recently) to a namespace `ns` with
    `ns ++ reference = v`, and no currently mapped namespace that is a prefix of `v` is longer. -/
theorem compact_longest (S : Sorter) (init : List Mapping) (ops : List Op) (p : PM)
    (h : run S init ops = some p) (v : Str) (pr : PrefixRef) (hc : compact p v = some pr) :
    ∃ ns, lastWrite init ops pr.pfx = some ns ∧ ns ++ pr.reference = v ∧
      ∀ k e, lastWrite init ops k = some e → e <+: v → e.length ≤ ns.length := by
  have hinv := Proofs.C13.run_inv S init ops p h
  have htab := pm_refines_lastwrite S init ops p h
  obtain ⟨ns, h1, h2, h3⟩ := Proofs.C13.compact_spec p hinv v pr hc
  refine ⟨ns, by rw [← htab]; exact h1, h2, ?_⟩
  intro k e hk hp
  exact h3 ⟨k, e⟩ ((hinv.agree ⟨k, e⟩).mpr (by rw [htab]; exact hk)) hp

/-- `CompactPrefix` declines exactly when no currently mapped namespace is a prefix of the IRI. -/
theorem compact_none (S : Sorter) (init : List Mapping) (ops : List Op) (p : PM)
    (h : run S init ops = some p) (v : Str) :
    compact p v = none ↔ ∀ k e, lastWrite init ops k = some e → ¬ e <+: v := by
  have hinv := Proofs.C13.run_inv S init ops p h
  have htab := pm_refines_lastwrite S init ops p h
  unfold compact
  rw [Proofs.C13.compactIn_none]
  constructor
  · intro hx k e hk
    exact hx ⟨k, e⟩ ((hinv.agree ⟨k, e⟩).mpr (by rw [htab]; exact hk))
  · intro hx m hm
    exact hx m.pfx m.expanded (by rw [← htab]; exact (hinv.agree m).mp hm)

example : (run mergeSorter [⟨[0x61], [0x68]⟩, ⟨[0x62], [0x68, 0x69]⟩] []).map (fun p => compact p [0x68, 0x69, 0x6a])
    = some (some ⟨[0x62], [0x6a]⟩) := by decide

/-! ## Clone -/

/-- Managers related by `Clone` are independent: after any history of calls on a store of managers
    nothing panics and the manager behind every handle is exactly what its own call history produces —
    its construction (or the history of its source up to the moment of cloning) followed by the calls
    addressed to it, and nothing else. -/
theorem clone_independent (S : Sorter) (ops : List StoreOp) :
    ∃ st, storeRun S ops = some st ∧ st.length = (histories ops).length ∧
      ∀ (i : Nat) (p : PM), st[i]? = some p →
        ∃ init o, (histories ops)[i]? = some (init, o) ∧ run S init o = some p := by
  obtain ⟨st, h1, h2, h3⟩ := Proofs.C13.store_ok S ops
  exact ⟨st, h1, h2, h3⟩

/-- One call leaves every manager other than its target untouched. -/
theorem clone_step_frame (S : Sorter) (st st' : List PM) (op : StoreOp) (h : storeStep S st op = some st')
    (i : Nat) (hi : i < st.length) (hne : op.target ≠ some i) : st'[i]? = st[i]? :=
  Proofs.C13.store_step_other S st st' op h i hi hne

example : (storeRun mergeSorter [.new [⟨[0x61], [0x68]⟩], .clone 0, .del 0 [[0x61]]]).map (·.map getMappings)
    = some [[], [⟨[0x61], [0x68]⟩]] := by decide

/-- `UsagePrefixMapper` answers exactly like the wrapped mapper and records only prefixes it returned or expanded. -/
theorem usage_transparent (u : Usage) (p : PM) (v : Str) (pr : PrefixRef) :
    (u.compact p v).1 = compact p v ∧ (u.expand p pr).1 = expand p pr ∧
    (∀ k ∈ (u.compact p v).2.used, k ∈ u.used ∨ ∃ r, compact p v = some ⟨k, r⟩) := by
  refine ⟨?_, ?_, ?_⟩
  · unfold Usage.compact; cases compact p v <;> rfl
  · unfold Usage.expand; cases expand p pr <;> rfl
  · intro k hk
    unfold Usage.compact at hk
    cases hc : compact p v with
    | none => rw [hc] at hk; exact Or.inl hk
    | some x =>
      rw [hc] at hk
      rcases List.mem_cons.mp hk with rfl | hk
      · exact Or.inr ⟨x.reference, rfl⟩
      · exact Or.inl hk

/-! ## CURIE scope -/

/-- Whenever the table can compact the IRI, the CURIE that `CompactCURIE` builds (explicit prefix or
    default-prefix form, safe or not) is expanded by `ExpandCURIE` in the same scope to exactly the IRI. -/
theorem curie_roundtrip (S : Sorter) (init : List Mapping) (ops : List Op) (p : PM)
    (h : run S init ops = some p) (sc : Scope) (v : Str) (pr : PrefixRef) (hc : compact p v = some pr) :
    expandCURIE sc p (compactCURIE sc p v) = some v :=
  Proofs.C13.curie_roundtrip sc p (Proofs.C13.run_inv S init ops p h) v pr hc

/-- Full statement for the no-match case: when nothing matches, what `CompactCURIE` returns must not
    expand to anything. FALSE for the code as it is (known finding C13-K1): `CompactCURIE` has no way to
    decline and returns `CURIE{Prefix: "", Reference: v}`, which a scope that maps the empty prefix expands. -/
def CurieNoMatchDeclines : Prop :=
  ∀ (sc : Scope) (p : PM) (v : Str), Inv p → compact p v = none → expandCURIE sc p (compactCURIE sc p v) = none

/-- the witness of C13-K1 in the model: table {"" ↦ "a"}, IRI "b" -/
theorem curie_nomatch_witness : ¬ CurieNoMatchDeclines := by
  intro h
  have := h ⟨false, [], false⟩ (new mergeSorter [⟨[], [0x61]⟩]) [0x62] (Proofs.C13.new_inv _ _) (by decide)
  revert this
  decide

/-- The part that holds: if the empty prefix is unmapped, the no-match result fails to expand (so the
    caller is told); in general it expands to `ns("") ++ v`. -/
theorem curie_nomatch_partial (sc : Scope) (p : PM) (v : Str) (hc : compact p v = none) :
    compactCURIE sc p v = ⟨sc.safe, false, [], v⟩ ∧
    expandCURIE sc p (compactCURIE sc p v) = (p.byPrefix.get []).map (· ++ v) :=
  Proofs.C13.curie_nomatch sc p v hc

/-- Full statement for the written form: the string `CURIE.String()` of what `CompactCURIE` builds, read
    back with `ParseCURIE` and expanded in the same scope, is the IRI. FALSE for the code as it is (known
    finding C13-K2): the prefix-less default form is chosen even when the reference contains ':'. -/
def CurieStringRoundtrip : Prop :=
  ∀ (sc : Scope) (p : PM) (v : Str) (pr : PrefixRef), Inv p → compact p v = some pr →
    (∀ x ∈ pr.pfx, x ≠ cColon) → pr.pfx.head? ≠ some cLBr →
    (parseCURIE (compactCURIE sc p v).string).bind (expandCURIE sc p) = some v

/-- the witness of C13-K2 in the model: default prefix "e" ↦ "h", also "a" ↦ "x"; IRI "ha:b" is written
    "a:b", which reads back as prefix "a" and expands to "xb" -/
theorem curie_string_witness : ¬ CurieStringRoundtrip := by
  intro h
  have := h ⟨false, [0x65], false⟩ (new mergeSorter [⟨[0x65], [0x68]⟩, ⟨[0x61], [0x78]⟩]) [0x68, 0x61, 0x3a, 0x62]
    ⟨[0x65], [0x61, 0x3a, 0x62]⟩ (Proofs.C13.new_inv _ _) (by decide) (by decide) (by decide)
  revert this
  decide

/-- The written form reads back (partial): for NCName-like prefixes (no ':', not starting with '[') the
    round trip through `CURIE.String()` and `ParseCURIE` holds whenever the explicit-prefix form is used,
    and for the default-prefix form when the reference contains no ':' and — outside brackets — is
    neither empty nor itself bracketed. Exactly the complement is known finding C13-K2. -/
theorem curie_string_roundtrip_partial (S : Sorter) (init : List Mapping) (ops : List Op) (p : PM)
    (h : run S init ops = some p) (sc : Scope) (v : Str) (pr : PrefixRef) (hc : compact p v = some pr)
    (hp : ∀ x ∈ pr.pfx, x ≠ cColon) (hb : pr.pfx.head? ≠ some cLBr)
    (hd : (compactCURIE sc p v).defaultPrefix = true →
      (∀ x ∈ pr.reference, x ≠ cColon) ∧
      (sc.safe = false → pr.reference ≠ [] ∧ ¬ (pr.reference.head? = some cLBr ∧ pr.reference.getLast? = some cRBr))) :
    (parseCURIE (compactCURIE sc p v).string).bind (expandCURIE sc p) = some v :=
  Proofs.C13.curie_string_roundtrip sc p (Proofs.C13.run_inv S init ops p h) v pr hc hp hb hd

example : (parseCURIE (compactCURIE ⟨true, [0x65], false⟩ (new mergeSorter [⟨[0x65], [0x68]⟩]) [0x68, 0x61]).string).bind
    (expandCURIE ⟨true, [0x65], false⟩ (new mergeSorter [⟨[0x65], [0x68]⟩])) = some [0x68, 0x61] := by decide

/-! ## BaseIRI.RelativizeIRI -/

/-- Soundness with respect to the repository's own resolver (the `observe_at` of the property), by the
    verification step: whatever is offered for an absolute base parses and resolves back to exactly the
    IRI under `goResolve` — the model of `BaseIRI.Parse(·).String()` that the harness ties to the code —
    and never starts with "//". -/
theorem relativize_checked (b v r : Str) (h : relativize b v = .some r) :
    [cSlash, cSlash].isPrefixOf r = false ∧
    ((newBaseIRI b).root.isSome → goParseOK r = true ∧ goResolve b r = v) :=
  ⟨(Proofs.C13.relativize_checked b v r h).1, (Proofs.C13.relativize_checked b v r h).2.1⟩

/-- Full statement: every offered reference resolves back under RFC 3986 §5.2. FALSE for the code as it
    is (known finding C13-K3): for a base carrying a fragment the IRI equal to the base is offered as the
    empty reference, which RFC 3986 resolves to the base without its fragment. -/
def RelativizeSound : Prop := ∀ b v r : Str, relativize b v = .some r → resolve b r = v

/-- the witness of C13-K3 in the model: base = IRI = "s://h/p#f" -/
theorem relativize_sound_witness : ¬ RelativizeSound := by
  intro h
  have := h [0x73, 0x3a, 0x2f, 0x2f, 0x68, 0x2f, 0x70, 0x23, 0x66] [0x73, 0x3a, 0x2f, 0x2f, 0x68, 0x2f, 0x70, 0x23, 0x66] [] (by decide)
  revert this
  decide

/-- RFC 3986 soundness (partial only in that the class of known finding C13-K3 is excluded): for every
    base — absolute or relative, with or without path — and every IRI, whatever `RelativizeIRI` offers
    ("#f"/"?q" suffixes, "", "./", "./?q", sibling and child paths, root-relative paths) resolves under
    `Spec.RFC3986Lite.resolve` to exactly the IRI, unless it is the empty reference offered for a base
    that carries a fragment (there the full statement is false, `relativize_sound_witness`). For bases
    "scheme://authority" the proof shows that the branch of `goResolve` deviating from §5.2 is never the
    one that lets a candidate through. -/
theorem relativize_sound_partial (b v r : Str) (h : relativize b v = .some r)
    (hk3 : (split b).fragment = none ∨ r ≠ []) : resolve b r = v :=
  Proofs.C13.relativize_sound_all b v r h hk3

example : relativize [0x73, 0x3a, 0x2f, 0x2f, 0x68, 0x2f, 0x61, 0x2f, 0x62] [0x73, 0x3a, 0x2f, 0x2f, 0x68, 0x2f, 0x61, 0x2f] = .some [cDot, cSlash] ∧
    (split [0x73, 0x3a, 0x2f, 0x2f, 0x68, 0x2f, 0x61, 0x2f, 0x62]).fragment = none := by decide

-- authority-only base: "s://h" with "s://h/x" gives "/x" (the unrepaired code panicked here)
example : relativize [0x73, 0x3a, 0x2f, 0x2f, 0x68] [0x73, 0x3a, 0x2f, 0x2f, 0x68, 0x2f, 0x78] = .some [cSlash, 0x78] := by decide

/-- `RelativizeIRI` does not panic when the index bookkeeping is sane (`IndicesOK`, decidable; holds for
    every base the harness generates, checked there, and for every base of `BaseShape`). The unrepaired
    code panicked for every base without a path. -/
theorem relativize_no_panic (b v : Str) (h : IndicesOK (newBaseIRI b)) : relativize b v ≠ .panic :=
  Proofs.C13.relativize_no_panic_core b v h

example : IndicesOK (newBaseIRI [0x73, 0x3a, 0x2f, 0x2f, 0x68]) := by decide

/-- Usefulness: the verification step does not kill the main case. For a hierarchical base
    `scheme://authority/dir…/last?query#fragment` without dot segments and an IRI in the same directory
    whose remainder `seg₁/seg₂…` is a plain path (non-empty first segment without ':', no dot segments,
    no query/fragment), `RelativizeIRI` still offers exactly that remainder (or "" when the IRI is the base). -/
theorem relativize_useful (sch auth : Str) (dirs : List Str) (last : Str) (q f : Option Str)
    (seg1 : Str) (more : List Str) (hb : BaseShape sch auth dirs last q) (hr : RelShape seg1 more) :
    relativize (mkBase sch auth dirs last q f) (mkTarget sch auth dirs (seg1 ++ joinSegs more))
        = .some (seg1 ++ joinSegs more) ∨
    (mkTarget sch auth dirs (seg1 ++ joinSegs more) = mkBase sch auth dirs last q f ∧
      relativize (mkBase sch auth dirs last q f) (mkTarget sch auth dirs (seg1 ++ joinSegs more)) = .some []) :=
  Proofs.C13.useful_core hb hr

example : BaseShape [0x73] [0x68] [[0x61]] [0x62] none ∧ RelShape [0x63] [[0x64]] := by
  refine ⟨⟨?_, ?_, ?_, ?_, ?_⟩, ⟨?_, ?_, ?_, ?_⟩⟩ <;>
    simp [SchemeLike, AuthLike, PlainSeg, cColon, cSlash, cQuest, cHash, cDot]

end RdfModel.C13
