module verifharness

go 1.25.5

require github.com/dpb587/rdfkit-go v0.0.0

require (
	github.com/apparentlymart/go-textseg/v16 v16.0.0 // indirect
	github.com/dpb587/cursorio-go v0.0.0-20250717044249-e1d8c928b30d // indirect
	github.com/google/uuid v1.6.0 // indirect
)

replace github.com/dpb587/rdfkit-go => /repo
