/-
  C19 helper lemmas: `terms.EqualsOneOf` (compiled form and shortcut) matches exactly the terms
  `TermEquals`-equal to one of the expected terms.
-/
import RdfModel.Proofs.C19Key
import RdfModel.Proofs.C19Assoc
namespace RdfModel.Proofs.C19
open RdfModel.DS RdfModel.C19

/-- the term has an identifier (only a blank node can lack one) -/
def HasId (u : Term) : Prop := ∀ id, u = .bnode id → id.isSome = true

theorem termEquals_true_iff (u : Term) (t : Option Term) :
    u.termEquals t = true ↔ t = some u ∧ HasId u := by
  by_cases h : HasId u
  · rw [termEquals_iff u t h]; simp [h]
  · have : u = .bnode none := by
      cases u with
      | bnode id => cases id with
        | none => rfl
        | some i => exact absurd (by intro id h'; cases h'; rfl) h
      | iri v => exact absurd (by intro id h'; cases h') h
      | lit l => exact absurd (by intro id h'; cases h') h
    subst this
    simp [Term.termEquals, h]

def bucket (c : Compiled) (dt : Bytes) : List Literal := (alookup dt c.lits).getD []

theorem compile_fold (ts : List (Option Term)) : ∀ (c0 : Compiled),
    let c := ts.foldl compileStep c0
    (∀ v, v ∈ c.iris ↔ v ∈ c0.iris ∨ some (Term.iri v) ∈ ts) ∧
    (∀ i, i ∈ c.bnodes ↔ i ∈ c0.bnodes ∨ some (Term.bnode (some i)) ∈ ts) ∧
    (∀ dt l, l ∈ bucket c dt ↔ l ∈ bucket c0 dt ∨ (some (Term.lit l) ∈ ts ∧ l.dt = dt)) := by
  induction ts with
  | nil => intro c0; simp
  | cons t ts ih =>
    intro c0
    simp only [List.foldl_cons]
    have := ih (compileStep c0 t)
    obtain ⟨h1, h2, h3⟩ := this
    refine ⟨?_, ?_, ?_⟩
    · intro v; rw [h1]
      cases t with
      | none => simp [compileStep]
      | some u =>
        cases u with
        | iri w =>
          simp only [compileStep]
          split <;> simp_all <;> grind
        | bnode id => cases id <;> simp [compileStep]
        | lit l => simp [compileStep]
    · intro i; rw [h2]
      cases t with
      | none => simp [compileStep]
      | some u =>
        cases u with
        | iri w => simp [compileStep]
        | bnode id =>
          cases id with
          | none => simp [compileStep]
          | some j =>
            simp only [compileStep]
            split <;> simp_all <;> grind
        | lit l => simp [compileStep]
    · intro dt l; rw [h3]
      cases t with
      | none => simp [compileStep]
      | some u =>
        cases u with
        | iri w => simp [compileStep, bucket]
        | bnode id => cases id <;> simp [compileStep, bucket]
        | lit m =>
          simp only [compileStep, bucket, alookup_aset]
          by_cases hd : dt = m.dt
          · subst hd; simp; grind
          · simp [hd]; grind

theorem compiled_matches_iff (ts : List (Option Term)) (t : Option Term) :
    (ts.foldl compileStep ⟨[], [], []⟩).matches t = true ↔ ∃ u, t = some u ∧ HasId u ∧ some u ∈ ts := by
  obtain ⟨h1, h2, h3⟩ := compile_fold ts ⟨[], [], []⟩
  cases t with
  | none => simp [Compiled.matches]
  | some u =>
    cases u with
    | iri v =>
      simp only [Compiled.matches, List.contains_iff_mem, h1]
      simp [HasId]
    | bnode id =>
      cases id with
      | none => simp [Compiled.matches, HasId]
      | some j =>
        simp only [Compiled.matches, List.contains_iff_mem, h2]
        simp [HasId]
    | lit l =>
      have hb := h3 l.dt l
      simp only [bucket] at hb
      simp only [Compiled.matches, List.any_eq_true, Literal.equals_iff]
      constructor
      · rintro ⟨x, hx, rfl⟩
        refine ⟨_, rfl, ?_, ?_⟩
        · intro id h; cases h
        · have := hb.1 hx; simpa [alookup] using this
      · rintro ⟨u, hu, _, hm⟩
        cases hu
        exact ⟨l, hb.2 (Or.inr ⟨hm, trivial⟩), rfl⟩

theorem equalsOneOf_matches (ts : List (Option Term)) (t : Option Term) :
    (equalsOneOf ts).matches t = (ts.foldl compileStep ⟨[], [], []⟩).matches t := by
  unfold equalsOneOf
  simp only
  split
  · rename_i h
    generalize ts.foldl compileStep ⟨[], [], []⟩ = c at h ⊢
    obtain ⟨iris, bnodes, lits⟩ := c
    simp only at h
    match iris, h with
    | [iri], h =>
      have hb : bnodes = [] := List.eq_nil_of_length_eq_zero h.2.1
      have hl : lits = [] := List.eq_nil_of_length_eq_zero h.2.2
      subst hb hl
      simp only [TM.matches]
      cases t with
      | none => simp [Term.termEquals, Compiled.matches]
      | some u =>
        cases u with
        | iri v => by_cases hv : iri = v <;> simp [Term.termEquals, Compiled.matches, hv] <;> grind
        | bnode id => cases id <;> simp [Term.termEquals, Compiled.matches]
        | lit l => simp [Term.termEquals, Compiled.matches, alookup]
  · simp [TM.matches]

/-- `EqualsOneOf(ts...)` matches `t` iff some expected term is `TermEquals` to `t`. -/
theorem equalsOneOf_spec (ts : List (Option Term)) (t : Option Term) :
    (equalsOneOf ts).matches t =
      ts.any (fun u => match u with | some u => u.termEquals t | none => false) := by
  rw [equalsOneOf_matches, Bool.eq_iff_iff, compiled_matches_iff, List.any_eq_true]
  constructor
  · rintro ⟨u, rfl, hid, hm⟩
    exact ⟨some u, hm, by simp [termEquals_true_iff, hid]⟩
  · rintro ⟨ou, hm, he⟩
    cases ou with
    | none => simp at he
    | some u =>
      simp only [termEquals_true_iff] at he
      exact ⟨u, he.1, he.2, hm⟩

end RdfModel.Proofs.C19
