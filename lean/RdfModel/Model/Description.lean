/-
  RdfModel.Model.Description — executable model of /repo/rdfdescription:
    resource_list_builder.go          ResourceListBuilder  (Add, ExportResources, ExportResource,
                                                             ExportResourceStatements)
    dataset_resource_list_builder.go  DatasetResourceListBuilder (Add, ToDatasetResourceWriter)
    resource.go / statement.go        Resource, Statement trees and NewTriples (flattening)
    dataset_resource.go               DatasetResource.NewQuads
    rdfdescriptionutil/list.go        NewObjectValueListStatement

  Conventions
  * Go maps become association lists in insertion order; everything that iterates a Go map takes the
    iteration order as an explicit parameter (`ord`, `gord`, `sord`).
  * The Go recursion `ExportResourceStatements → ExportResourceStatements` becomes recursion on a fuel
    argument that bounds the *depth* of the call stack; `none` = "deeper than `fuel` frames"
    (Go: unbounded recursion ends in a fatal stack overflow).
  * `rdf.NewBlankNode()` (the process-wide atomic counter of `rdf.DefaultBlankNodeFactory`) becomes a
    counter threaded through `newTriples`; the node made from counter value `n` is `BN.fresh n`, every
    node of the input is `BN.orig b`.  (A blank node of the default factory that is already present in
    the input was made earlier, so it carries a smaller counter value than any later one: fresh nodes
    never collide with input nodes. That is what the two constructors express.)
  * `rdf.PredicateValue` is a closed interface whose only implementation is `rdf.IRI`, so predicates
    are IRI strings (`List Nat`); subjects/objects/graph names are `Term`s (the model allows a literal
    in subject position, which Go's types exclude; nothing below depends on that).
  Core-only imports: this module is linked into the driver.
-/
import RdfModel.Model.Term
namespace RdfModel.Desc
open RdfModel

/-- rdf.Triple -/
structure Triple (β : Type) where
  s : Term β
  p : List Nat
  o : Term β
  deriving Repr, DecidableEq, Inhabited

/-- rdf.Quad: `g = none` is the default graph (Go: nil GraphName). -/
structure DQuad (β : Type) where
  t : Triple β
  g : Option (Term β)
  deriving Repr, DecidableEq, Inhabited

def Triple.map {β γ : Type} (f : β → γ) (t : Triple β) : Triple γ :=
  { s := t.s.map f, p := t.p, o := t.o.map f }

def DQuad.map {β γ : Type} (f : β → γ) (q : DQuad β) : DQuad γ :=
  { t := q.t.map f, g := q.g.map (Term.map f) }

/-- ExportResourceOptions -/
structure Opts where
  useAnon : Bool
  inline : Bool
  deriving Repr, DecidableEq

/-- DefaultExportResourceOptions -/
def Opts.default : Opts := { useAnon := true, inline := true }

/-! ## Association lists (Go maps with remembered insertion order) -/

/-- `m[k]` with the zero value `d` for a missing key. -/
def alGet {κ α : Type} [DecidableEq κ] (d : α) : List (κ × α) → κ → α
  | [], _ => d
  | (k, v) :: rest, x => if k = x then v else alGet d rest x

/-- `m[k] = f(m[k])` (a missing key starts from the zero value `d` and is appended). -/
def alUpd {κ α : Type} [DecidableEq κ] (d : α) (f : α → α) : List (κ × α) → κ → List (κ × α)
  | [], x => [(x, f d)]
  | (k, v) :: rest, x => if k = x then (k, f v) :: rest else (k, v) :: alUpd d f rest x

/-- `Option`-valued map over a list: `none` as soon as one element fails. -/
def mapOpt {α γ : Type} (f : α → Option γ) : List α → Option (List γ)
  | [] => some []
  | a :: l =>
    match f a with
    | none => none
    | some b =>
      match mapOpt f l with
      | none => none
      | some bs => some (b :: bs)

/-! ## ResourceListBuilder -/

/-- ObjectStatement{Predicate, Object} -/
abbrev PO (β : Type) := List Nat × Term β

/-- ResourceListBuilder{resourceBySubject, blankNodeReferences} -/
structure Builder (β : Type) where
  bySubject : List (Term β × List (PO β))
  refs : List (β × Nat)
  deriving Repr

variable {β : Type} [DecidableEq β]

/-- NewResourceListBuilder -/
def Builder.empty : Builder β := { bySubject := [], refs := [] }

/-- `rb.resourceBySubject[s]` (nil slice for a missing subject) -/
def Builder.stmts (B : Builder β) (s : Term β) : List (PO β) := alGet [] B.bySubject s

/-- `rb.blankNodeReferences[b]` = GetBlankNodeReferences -/
def Builder.refCount (B : Builder β) (b : β) : Nat := alGet 0 B.refs b

/-- Subjects(): the keys of resourceBySubject (here: in insertion order) -/
def Builder.subjects (B : Builder β) : List (Term β) := B.bySubject.map (·.1)

/-- One iteration of the loop in `Add`. -/
def Builder.add1 (B : Builder β) (t : Triple β) : Builder β :=
  { bySubject := alUpd [] (fun l => l ++ [(t.p, t.o)]) B.bySubject t.s
    refs := match t.o with
      | .bnode b => alUpd 0 (· + 1) B.refs b
      | _ => B.refs }

/-- Add(triples...) -/
def Builder.add (B : Builder β) (ts : List (Triple β)) : Builder β := ts.foldl Builder.add1 B

def build (ts : List (Triple β)) : Builder β := Builder.empty.add ts

/-! ## Resource / Statement trees (resource.go, statement.go) -/

/-- Statement: ObjectStatement | AnonResourceStatement{Predicate, AnonResource{Statements}} -/
inductive Stmt (β : Type) where
  | obj (p : List Nat) (o : Term β)
  | anon (p : List Nat) (stmts : List (Stmt β))
  deriving Repr, Inhabited

/-- Resource: SubjectResource{Subject, Statements} (Subject may be nil) | AnonResource{Statements} -/
inductive Resource (β : Type) where
  | subject (s : Option (Term β)) (stmts : List (Stmt β))
  | anon (stmts : List (Stmt β))
  deriving Repr, Inhabited

/-! ## Export -/

/-- the test `opts.Inline && object is a blank node && blankNodeReferences[b] == 1` -/
def Builder.isInl (B : Builder β) (opts : Opts) : Term β → Bool
  | .bnode b => opts.inline && B.refCount b == 1
  | _ => false

/-- ExportResourceStatements(subject, opts); `fuel` bounds the recursion depth. -/
def Builder.exportStatements (B : Builder β) (opts : Opts) : Nat → Term β → Option (List (Stmt β))
  | 0, _ => none
  | fuel + 1, s =>
    mapOpt (fun (po : PO β) =>
      if B.isInl opts po.2 then
        (Builder.exportStatements B opts fuel po.2).map (Stmt.anon po.1)
      else some (Stmt.obj po.1 po.2)) (B.stmts s)

/-- ExportResource(s, opts) -/
def Builder.exportResource (B : Builder β) (opts : Opts) (fuel : Nat) (s : Term β) : Option (Resource β) :=
  (B.exportStatements opts fuel s).map fun st =>
    match s with
    | .bnode b => if opts.useAnon && B.refCount b == 0 then Resource.anon st else Resource.subject (some s) st
    | _ => Resource.subject (some s) st

/-- the subjects ExportResources does not `continue` over -/
def Builder.roots (B : Builder β) (opts : Opts) (ord : List (Term β)) : List (Term β) :=
  ord.filter (fun s => !B.isInl opts s)

/-- ExportResources(opts), collected; `ord` is the iteration order of `range rb.resourceBySubject`. -/
def Builder.exportResources (B : Builder β) (opts : Opts) (ord : List (Term β)) (fuel : Nat) :
    Option (List (Resource β)) :=
  mapOpt (B.exportResource opts fuel) (B.roots opts ord)

/-! ## Export after patch `fix-c17-export-cycles` (suffix `V`: with the `inlined` set)

  The repaired Go code threads a set `inlined map[rdf.BlankNodeIdentifier]bool` through the export:
  `exportResourceStatements` marks its subject, inlines a once-referenced blank node only if it is not
  marked yet, and `ExportResources` makes a second pass over the subject map for the once-referenced
  blank nodes that were not reached. The set is modelled as a list (newest first); the two passes get
  separate iteration orders `ord₁`, `ord₂` (Go may iterate the same map in two different orders). -/

/-- `inlined[b] = true` -/
def mark (V : List β) (b : β) : List β := if b ∈ V then V else b :: V

/-- the marking at the top of exportResourceStatements -/
def markSubject (V : List β) : Term β → List β
  | .bnode b => mark V b
  | _ => V

/-- `opts.Inline && blankNodeReferences[b] == 1 && !inlined[b]` for an object -/
def Builder.isInlV (B : Builder β) (opts : Opts) (V : List β) : Term β → Bool
  | .bnode b => opts.inline && B.refCount b == 1 && !decide (b ∈ V)
  | _ => false

/-- the loop of exportResourceStatements; `rec` is the recursive call -/
def Builder.foldStmtsV (B : Builder β) (opts : Opts)
    (rec : Term β → List β → Option (List (Stmt β) × List β)) :
    List (PO β) → List β → Option (List (Stmt β) × List β)
  | [], V => some ([], V)
  | po :: rest, V =>
    if B.isInlV opts V po.2 then
      match rec po.2 V with
      | none => none
      | some (lb, V1) =>
        match Builder.foldStmtsV B opts rec rest V1 with
        | none => none
        | some (l, V2) => some (Stmt.anon po.1 lb :: l, V2)
    else
      match Builder.foldStmtsV B opts rec rest V with
      | none => none
      | some (l, V2) => some (Stmt.obj po.1 po.2 :: l, V2)

/-- exportResourceStatements(subject, opts, inlined); `fuel` bounds the recursion depth -/
def Builder.exportStatementsV (B : Builder β) (opts : Opts) :
    Nat → Term β → List β → Option (List (Stmt β) × List β)
  | 0, _, _ => none
  | fuel + 1, s, V =>
    Builder.foldStmtsV B opts (Builder.exportStatementsV B opts fuel) (B.stmts s) (markSubject V s)

/-- SubjectResource / AnonResource decision of exportResource -/
def Builder.resourceOf (B : Builder β) (opts : Opts) (s : Term β) (st : List (Stmt β)) : Resource β :=
  match s with
  | .bnode b => if opts.useAnon && B.refCount b == 0 then Resource.anon st else Resource.subject (some s) st
  | _ => Resource.subject (some s) st

/-- exportResource(s, opts, inlined) -/
def Builder.exportResourceV (B : Builder β) (opts : Opts) (fuel : Nat) (s : Term β) (V : List β) :
    Option (Resource β × List β) :=
  (B.exportStatementsV opts fuel s V).map fun r => (B.resourceOf opts s r.1, r.2)

/-- one `for subject := range rb.resourceBySubject` loop of ExportResources; `pick` is the loop's filter -/
def Builder.foldRootsV (B : Builder β) (opts : Opts) (fuel : Nat) (pick : Term β → List β → Bool) :
    List (Term β) → List β → Option (List (Resource β) × List β)
  | [], V => some ([], V)
  | s :: rest, V =>
    if pick s V then
      match B.exportResourceV opts fuel s V with
      | none => none
      | some (r, V1) =>
        match Builder.foldRootsV B opts fuel pick rest V1 with
        | none => none
        | some (rs, V2) => some (r :: rs, V2)
    else Builder.foldRootsV B opts fuel pick rest V

/-- first loop: every subject that is not a once-referenced blank node (with Inline) -/
def Builder.pick1 (B : Builder β) (opts : Opts) (s : Term β) (_ : List β) : Bool := !B.isInl opts s

/-- second loop: the once-referenced blank nodes not reached so far -/
def Builder.pick2 (B : Builder β) (opts : Opts) (s : Term β) (V : List β) : Bool := B.isInlV opts V s

/-- ExportResources(opts), collected -/
def Builder.exportResourcesV (B : Builder β) (opts : Opts) (ord1 ord2 : List (Term β)) (fuel : Nat) :
    Option (List (Resource β)) :=
  match B.foldRootsV opts fuel (B.pick1 opts) ord1 [] with
  | none => none
  | some (rs1, V1) =>
    match B.foldRootsV opts fuel (B.pick2 opts) ord2 V1 with
    | none => none
    | some (rs2, _) => some (rs1 ++ rs2)

/-- the public ExportResource(s, opts): a fresh `inlined` set -/
def Builder.exportResourceV1 (B : Builder β) (opts : Opts) (fuel : Nat) (s : Term β) : Option (Resource β) :=
  (B.exportResourceV opts fuel s []).map (·.1)

/-! ## Histories on one builder (several exports, some abandoned early)

  `ExportResources` returns an `iter.Seq`; a consumer may stop it early (`break`, or
  `ToResourceWriter` returning on a writer error). In the repaired code the `inlined` set is a local of
  the iterator function, so nothing an export does — complete or abandoned — is kept on the builder:
  the builder's state is `resourceBySubject` and `blankNodeReferences` only, and only `Add` writes it. -/

/-- ExportResources(opts) consumed by a loop that stops after `take` resources (`none`: to the end). -/
def Builder.exportResourcesVTake (B : Builder β) (opts : Opts) (ord1 ord2 : List (Term β)) (fuel : Nat)
    (take : Option Nat) : Option (List (Resource β)) :=
  (B.exportResourcesV opts ord1 ord2 fuel).map fun rs =>
    match take with
    | none => rs
    | some k => rs.take k

/-- one call on a ResourceListBuilder -/
inductive HStep (β : Type) where
  | add (ts : List (Triple β))
  | exportRs (opts : Opts) (ord1 ord2 : List (Term β)) (take : Option Nat)
  | exportOne (opts : Opts) (s : Term β)

/-- the builder after the call: only `Add` changes it -/
def Builder.hstep (B : Builder β) : HStep β → Builder β
  | .add ts => B.add ts
  | .exportRs _ _ _ _ => B
  | .exportOne _ _ => B

/-- what the call hands to its consumer -/
def Builder.hout (B : Builder β) (fuel : Nat) : HStep β → Option (List (Resource β))
  | .add _ => some []
  | .exportRs opts ord1 ord2 take => B.exportResourcesVTake opts ord1 ord2 fuel take
  | .exportOne opts s => (B.exportResourceV1 opts fuel s).map fun r => [r]

def Builder.run (B : Builder β) (h : List (HStep β)) : Builder β := h.foldl Builder.hstep B

def HStep.added : HStep β → List (Triple β)
  | .add ts => ts
  | _ => []

/-- all triples added in the course of a history, in order -/
def addedBy (h : List (HStep β)) : List (Triple β) := h.flatMap HStep.added

/-! ## Flattening: NewTriples -/

/-- Blank nodes of flattened output: a node of the input, or the `n`-th node made by `rdf.NewBlankNode()`. -/
inductive BN (β : Type) where
  | orig (b : β)
  | fresh (n : Nat)
  deriving Repr, DecidableEq, Inhabited

mutual
/-- ObjectStatement.NewTriples(s) / AnonResourceStatement.NewTriples(s); the counter is the state of
    the default blank node factory. -/
def Stmt.newTriples {β : Type} (s : Term (BN β)) : Stmt β → Nat → List (Triple (BN β)) × Nat
  | .obj p o, n => ([⟨s, p, o.map BN.orig⟩], n)
  | .anon p l, n =>
    -- descriptionSubject, descriptionStatements := l.AnonResource.statementList()
    let r := stmtsNewTriples (Term.bnode (BN.fresh n)) l (n + 1)
    -- append(descriptionStatements, Triple{s, l.Predicate, descriptionSubject})
    (r.1 ++ [⟨s, p, Term.bnode (BN.fresh n)⟩], r.2)
/-- StatementList.NewTriples(s) -/
def stmtsNewTriples {β : Type} (s : Term (BN β)) : List (Stmt β) → Nat → List (Triple (BN β)) × Nat
  | [], n => ([], n)
  | x :: xs, n =>
    let a := Stmt.newTriples s x n
    let b := stmtsNewTriples s xs a.2
    (a.1 ++ b.1, b.2)
end

/-- Resource.NewTriples (SubjectResource.statementList / AnonResource.statementList) -/
def Resource.newTriples {β : Type} : Resource β → Nat → List (Triple (BN β)) × Nat
  | .subject (some s) st, n => stmtsNewTriples (s.map BN.orig) st n
  | .subject none st, n => stmtsNewTriples (Term.bnode (BN.fresh n)) st (n + 1)
  | .anon st, n => stmtsNewTriples (Term.bnode (BN.fresh n)) st (n + 1)

/-- ResourceList.NewTriples -/
def newTriplesList {β : Type} : List (Resource β) → Nat → List (Triple (BN β)) × Nat
  | [], n => ([], n)
  | r :: rs, n =>
    let a := r.newTriples n
    let b := newTriplesList rs a.2
    (a.1 ++ b.1, b.2)

/-! ## DatasetResourceListBuilder -/

/-- DatasetResourceListBuilder{builderByGraphName} -/
structure DBuilder (β : Type) where
  graphs : List (Option (Term β) × Builder β)
  deriving Repr

def DBuilder.empty : DBuilder β := { graphs := [] }

/-- one iteration of DatasetResourceListBuilder.Add -/
def DBuilder.add1 (D : DBuilder β) (q : DQuad β) : DBuilder β :=
  { graphs := alUpd Builder.empty (fun B => B.add1 q.t) D.graphs q.g }

def DBuilder.add (D : DBuilder β) (qs : List (DQuad β)) : DBuilder β := qs.foldl DBuilder.add1 D

def dbuild (qs : List (DQuad β)) : DBuilder β := DBuilder.empty.add qs

/-- GetGraphNames (insertion order) -/
def DBuilder.graphNames (D : DBuilder β) : List (Option (Term β)) := D.graphs.map (·.1)

/-- GetResourceListBuilder(g) (nil builder = empty builder for every observation made here) -/
def DBuilder.builder (D : DBuilder β) (g : Option (Term β)) : Builder β := alGet Builder.empty D.graphs g

/-- DatasetResourceListBuilder.GetBlankNodeReferences: summed over the graphs -/
def DBuilder.refCount (D : DBuilder β) (b : β) : Nat := (D.graphs.map (fun e => e.2.refCount b)).sum

/-- DatasetResource{GraphName, Resource} -/
abbrev DResource (β : Type) := Option (Term β) × Resource β

/-- ToDatasetResourceWriter into a collecting writer: `gord` is the iteration order of the graph map,
    `sord g` the iteration order of graph `g`'s subject map. -/
def DBuilder.exportResources (D : DBuilder β) (opts : Opts) (gord : List (Option (Term β)))
    (sord : Option (Term β) → List (Term β)) (fuel : Nat) : Option (List (DResource β)) :=
  (mapOpt (fun g => ((D.builder g).exportResources opts (sord g) fuel).map (fun rs => rs.map (fun r => (g, r)))) gord).map
    List.flatten

/-- ToDatasetResourceWriter after the patch (each graph's builder runs the repaired ExportResources) -/
def DBuilder.exportResourcesV (D : DBuilder β) (opts : Opts) (gord : List (Option (Term β)))
    (sord1 sord2 : Option (Term β) → List (Term β)) (fuel : Nat) : Option (List (DResource β)) :=
  (mapOpt (fun g => ((D.builder g).exportResourcesV opts (sord1 g) (sord2 g) fuel).map
    (fun rs => rs.map (fun r => (g, r)))) gord).map List.flatten

/-- DatasetResource.NewQuads for each element, in order -/
def newQuadsList {β : Type} : List (DResource β) → Nat → List (DQuad (BN β)) × Nat
  | [], n => ([], n)
  | (g, r) :: rs, n =>
    let a := r.newTriples n
    let b := newQuadsList rs a.2
    (a.1.map (fun t => (⟨t, g.map (Term.map BN.orig)⟩ : DQuad (BN β))) ++ b.1, b.2)

/-! ## rdfdescriptionutil.NewObjectValueListStatement -/

def rdfFirst : List Nat := asc "http://www.w3.org/1999/02/22-rdf-syntax-ns#first"
def rdfRest : List Nat := asc "http://www.w3.org/1999/02/22-rdf-syntax-ns#rest"
def rdfNil : List Nat := asc "http://www.w3.org/1999/02/22-rdf-syntax-ns#nil"

/-- the statements of the list cell holding `v` whose tail is described by `rest` -/
def listCell {β : Type} (v : Term β) : Option (List (Stmt β)) → List (Stmt β)
  | none => [Stmt.obj rdfFirst v, Stmt.obj rdfRest (Term.iri rdfNil)]
  | some tail => [Stmt.obj rdfFirst v, Stmt.anon rdfRest tail]

/-- the AnonResource statements for the non-empty list `v :: vs` (Go builds it from the last value
    backwards; the result is the same nesting) -/
def listCells {β : Type} : Term β → List (Term β) → List (Stmt β)
  | v, [] => listCell v none
  | v, w :: ws => listCell v (some (listCells w ws))

/-- NewObjectValueListStatement(predicate, values...) -/
def listStatement {β : Type} (p : List Nat) : List (Term β) → Stmt β
  | [] => Stmt.obj p (Term.iri rdfNil)
  | v :: vs => Stmt.anon p (listCells v vs)

end RdfModel.Desc
