/-
  Proofs/C11MdNested — model side of the nested-items refinement (part C11MD): on every embedded fragment tree
  WITHOUT itemref the decoder model emits exactly the streaming semantics `Stream.swP` (Proofs/C11MdStream), with
  the blank node of the item at path `p` renamed to `rank doc p` = the number of blank-node items before `p` in
  document order (= the decoder's counter when it reaches that item).  Items nested to any depth, every
  element-specific value rule, multi-token itemprop with duplicates, arbitrary non-item wrapper elements and text.
-/
import RdfModel.Proofs.C11MdStream
set_option linter.unusedSimpArgs false
set_option linter.unusedSectionVars false
namespace RdfModel.Mdd.Nested
open RdfModel RdfModel.Desc RdfModel.Spec.Html RdfModel.Spec.Microdata RdfModel.Mdd RdfModel.Mdd.Typed RdfModel.Mdd.Stream

/-! ## the renaming: rank of an item in document order among the blank-node items -/

def selfBn (a : Attrs) : Nat := if a.itemscope && isBnItem a then 1 else 0

mutual
def bnCount : Tree → Nat
  | .text _ => 0
  | .elem _ a ks => selfBn a + bnCountL ks
def bnCountL : List Tree → Nat
  | [] => 0
  | k :: ks => bnCount k + bnCountL ks
end

mutual
/-- number of blank-node items of `t` that come before the (relative) position `p` in document order -/
def rank : Tree → Path → Nat
  | .text _, _ => 0
  | .elem _ a ks, p =>
    match p with
    | [] => 0
    | i :: rest => selfBn a + rankKids ks i rest
def rankKids : List Tree → Nat → Path → Nat
  | [], _, _ => 0
  | k :: ks, j, rest =>
    match j with
    | 0 => rank k rest
    | j + 1 => bnCount k + rankKids ks j rest
end

theorem rank_nil (t : Tree) : rank t [] = 0 := by cases t <;> simp [rank]

/-- `σ` agrees with `rank` (shifted by `cnt`) on the subtree `t` at `here` -/
def SOk (σ : Path → Nat) (here : Path) (cnt : Nat) (t : Tree) : Prop := ∀ p, σ (here ++ p) = cnt + rank t p
def SOkK (σ : Path → Nat) (here : Path) (i cnt : Nat) (ks : List Tree) : Prop :=
  ∀ j p, σ (here ++ (i + j) :: p) = cnt + rankKids ks j p

theorem sok_here {σ : Path → Nat} {here : Path} {cnt : Nat} {t : Tree} (h : SOk σ here cnt t) : σ here = cnt := by
  have := h []; simpa [rank_nil] using this

theorem sok_kids {σ : Path → Nat} {here : Path} {cnt : Nat} {tag : Tag} {a : Attrs} {ks : List Tree}
    (h : SOk σ here cnt (.elem tag a ks)) : SOkK σ here 0 (cnt + selfBn a) ks := by
  intro j p
  have := h (j :: p)
  simp only [rank] at this
  rw [Nat.zero_add, this]; omega

theorem sokK_head {σ : Path → Nat} {here : Path} {i cnt : Nat} {k : Tree} {ks : List Tree}
    (h : SOkK σ here i cnt (k :: ks)) : SOk σ (here ++ [i]) cnt k := by
  intro p
  have := h 0 p
  simp only [rankKids, Nat.add_zero] at this
  rw [List.append_assoc]; simpa using this

theorem sokK_tail {σ : Path → Nat} {here : Path} {i cnt : Nat} {k : Tree} {ks : List Tree}
    (h : SOkK σ here i cnt (k :: ks)) : SOkK σ here (i + 1) (cnt + bnCount k) ks := by
  intro j p
  have := h (j + 1) p
  simp only [rankKids] at this
  rw [show i + 1 + j = i + (j + 1) by omega, this]; omega

mutual
/-- the positions of the items whose subject is a blank node, in document order -/
def bnItems (here : Path) : Tree → List Path
  | .text _ => []
  | .elem _ a ks => (if a.itemscope && isBnItem a then [here] else []) ++ bnItemsK here 0 ks
def bnItemsK (here : Path) (i : Nat) : List Tree → List Path
  | [] => []
  | k :: ks => bnItems (here ++ [i]) k ++ bnItemsK here (i + 1) ks
end

mutual
theorem bnItems_map (σ : Path → Nat) : ∀ (t : Tree) (here : Path) (cnt : Nat), SOk σ here cnt t →
    (bnItems here t).map σ = List.range' cnt (bnCount t)
  | .text _, _, _, _ => by simp [bnItems, bnCount]
  | .elem tag a ks, here, cnt, h => by
    have hk := bnItemsK_map σ ks here 0 (cnt + selfBn a) (sok_kids h)
    simp only [bnItems, bnCount, List.map_append, hk]
    rw [← List.range'_append_1]
    congr 1
    unfold selfBn
    split <;> simp [sok_here h]
theorem bnItemsK_map (σ : Path → Nat) : ∀ (ks : List Tree) (here : Path) (i cnt : Nat), SOkK σ here i cnt ks →
    (bnItemsK here i ks).map σ = List.range' cnt (bnCountL ks)
  | [], _, _, _, _ => by simp [bnItemsK, bnCountL]
  | k :: ks, here, i, cnt, h => by
    simp only [bnItemsK, bnCountL, List.map_append,
      bnItems_map σ k (here ++ [i]) cnt (sokK_head h), bnItemsK_map σ ks here (i + 1) (cnt + bnCount k) (sokK_tail h)]
    rw [List.range'_append_1]
end

theorem rank_inj (doc : Tree) (p q : Path) (hp : p ∈ bnItems [] doc) (hq : q ∈ bnItems [] doc)
    (h : rank doc p = rank doc q) : p = q := by
  have hm := bnItems_map (rank doc) doc [] 0 (by intro p; simp)
  have hnd : ((bnItems [] doc).map (rank doc)).Nodup := by rw [hm]; exact List.nodup_range'
  exact nodup_map_inj (rank doc) (bnItems [] doc) hnd hp hq h

/-! ## attribute look-ups, text content, element kinds on embedded elements -/

theorem findAttr_append (k : Bytes) (l1 l2 : List Attr) :
    findAttr k (l1 ++ l2) = (match findAttr k l1 with | some v => some v | none => findAttr k l2) := by
  induction l1 with
  | nil => rfl
  | cons a l1 ih =>
    simp only [List.cons_append, findAttr]
    split
    · exact ih
    · split
      · rfl
      · exact ih

theorem findAttr_opt (k : Bytes) (key : String) (v : Option Str) :
    findAttr k (optAttr key v) = if asc key = k then v else none := by
  cases v <;> simp [optAttr, findAttr]

theorem findAttr_scope (k : Bytes) (b : Bool) (h : asc "itemscope" ≠ k) :
    findAttr k (if b then [(⟨[], asc "itemscope", []⟩ : Attr)] else []) = none := by
  cases b <;> simp [findAttr, h]

macro "find_attr" : tactic => `(tactic|
  (unfold attrsOf
   simp only [findAttr_append, findAttr_opt]
   rw [findAttr_scope _ _ (by decide)]
   simp (config := { decide := true }) only [↓reduceIte]
   first | rfl | (split <;> rfl)))

theorem find_content (a : Attrs) : findAttr (asc "content") (attrsOf a) = a.content := by find_attr
theorem find_href (a : Attrs) : findAttr (asc "href") (attrsOf a) = a.href := by find_attr
theorem find_src (a : Attrs) : findAttr (asc "src") (attrsOf a) = a.src := by find_attr
theorem find_data (a : Attrs) : findAttr (asc "data") (attrsOf a) = a.data := by find_attr
theorem find_value (a : Attrs) : findAttr (asc "value") (attrsOf a) = a.value := by find_attr
theorem find_datetime (a : Attrs) : findAttr (asc "datetime") (attrsOf a) = a.datetime := by find_attr

def kindOfTag : Tag → ValueKind
  | .metaEl => .content
  | .audio | .embed | .iframe | .img | .source | .track | .video => .src
  | .a | .area | .link => .href
  | .object => .data
  | .data => .value
  | .meter => .meter
  | .time => .time
  | _ => .other

theorem kind_atomOf (tag : Tag) : kindOfAtom (atomOf tag) = kindOfTag tag := by cases tag <;> decide

mutual
theorem text_relabel : ∀ (m : Nat) (n : Node), textContent (relabelFrom m n).1 = textContent n
  | m, .mk i t ns a d as ks => by
    simp only [relabelFrom, textContent]
    rw [textL_relabel (m + 1) ks]
theorem textL_relabel : ∀ (m : Nat) (ks : List Node), textContentL (relabelL m ks).1 = textContentL ks
  | _, [] => by simp [relabelL, textContentL]
  | m, k :: ks => by
    simp only [relabelL, textContentL]
    rw [text_relabel m k, textL_relabel _ ks]
end

mutual
theorem text_ofSpec : ∀ t : Tree, textContent (ofSpec t) = textOf t
  | .text s => by simp [ofSpec, textContent, textContentL, textOf]
  | .elem tag a ks => by
    simp only [ofSpec, textContent, textOf]
    rw [textL_ofSpec ks]; simp
theorem textL_ofSpec : ∀ ks : List Tree, textContentL (ofSpecL ks) = textOfList ks
  | [] => by simp [ofSpecL, textContentL, textOfList]
  | k :: ks => by
    simp only [ofSpecL, textContentL, textOfList]
    rw [text_ofSpec k, textL_ofSpec ks]
end

end RdfModel.Mdd.Nested
