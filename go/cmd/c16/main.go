// Command c16: property C16 (captured text offsets) for the N-Triples and N-Quads decoders.
//
//	T3     Model.NQOffsets (Lean driver, op nqo.dec) vs encoding/{nquads,ntriples} with
//	       SetCaptureTextOffsets / SetInitialTextOffset: statements, the four ranges per statement,
//	       verdict, offset carried by the error (cursorio.OffsetError / OffsetRangeError via errors.As).
//	       Bytes and lines are always compared; columns only for documents satisfying `simple`
//	       (the model counts one grapheme cluster per rune; textseg is outside the model).
//	oracle independent of the model, on the implementation alone: capture on == capture off;
//	       every range inside the document, from <= until, byte/line (and column for simple
//	       documents) recomputed from the text; the slice is the token of the term (shape by term kind)
//	       and re-decoding it in a one-statement wrapper yields the same term; a run with an initial
//	       offset is the shifted run with offset zero; error offsets lie inside the document.
package main

import (
	"encoding/json"
	"errors"
	"flag"
	"fmt"
	"os"
	"runtime"
	"strconv"
	"strings"
	"sync"
	"time"
	"unicode/utf8"

	"verifharness/vh"

	"github.com/dpb587/cursorio-go/cursorio"
	"github.com/dpb587/rdfkit-go/encoding"
	"github.com/dpb587/rdfkit-go/encoding/nquads"
	"github.com/dpb587/rdfkit-go/encoding/ntriples"
	"github.com/dpb587/rdfkit-go/rdf"
	"github.com/dpb587/rdfkit-go/rdf/blanknodes"
)

var (
	tier     = flag.String("tier", "quick", "quick|thorough")
	driver   = flag.String("driver", "/verif/lean/.lake/build/bin/driver", "lean driver binary")
	out      = flag.String("out", "/verif/evidence/.C16.c16.report.json", "report path")
	findings = flag.String("findings", "/verif/known-findings.json", "known findings")
	replay   = flag.String("replay", "", "replay file (one protocol line per line)")
	scale    = flag.Int("scale", 1, "multiply generated case counts (search mode uses 10)")
	nomodel  = flag.Bool("nomodel", false, "property oracle on the implementation only")
	hints    = flag.String("hints", "", "file of protocol lines that disagreed; their inputs go through the oracle first")
)

// ---------------------------------------------------------------- running the implementation

type off struct{ b, l, c int64 }

func (o off) String() string { return fmt.Sprintf("%d.%d.%d", o.b, o.l, o.c) }
func (o off) masked() string { return fmt.Sprintf("%d.%d.*", o.b, o.l) }

type rng struct {
	ok          bool
	from, until off
}

type stmt struct {
	quad rdf.Quad
	wire string
	r    [4]rng // subject, predicate, object, graph
}

type result struct {
	stmts   []stmt
	verdict string
	errKind string // "-", "b", "t", "r"
	e1, e2  off
	panicV  string
	label   func(rdf.BlankNode) string
}

func toOff(o cursorio.TextOffset) off {
	return off{int64(o.Byte), o.LineColumn[0], o.LineColumn[1]}
}

var slots = []encoding.StatementOffsetsType{encoding.SubjectStatementOffsets, encoding.PredicateStatementOffsets, encoding.ObjectStatementOffsets, encoding.GraphNameStatementOffsets}
var slotName = []string{"subject", "predicate", "object", "graph"}

type cfg struct {
	pkg     string // nq | nt
	fail    bool   // reader ends with an injected error instead of io.EOF
	capture bool
	hasInit bool // SetInitialTextOffset(init) (implies capture)
	init    off
}

func (c cfg) effInit() off {
	if c.hasInit {
		return c.init
	}
	return off{}
}

func goDecode(c cfg, b []byte) (res result) {
	defer func() {
		if p := recover(); p != nil {
			res.panicV = fmt.Sprint(p)
		}
	}()
	f := blanknodes.NewStringFactory()
	prov := f.(blanknodes.StringProviderProvider).GetStringProvider(blanknodes.NewInt64StringProvider("?anon%d"))
	res.label = prov.GetBlankNodeString
	rd := &vh.EndReader{B: b, Fail: c.fail}
	var err error
	collect := func(q rdf.Quad, o encoding.StatementTextOffsets) {
		s := stmt{quad: q, wire: vh.QuadWire(q, res.label)}
		for i, k := range slots {
			if r, ok := o[k]; ok {
				s.r[i] = rng{true, toOff(r.From), toOff(r.Until)}
			}
		}
		res.stmts = append(res.stmts, s)
	}
	if c.pkg == "nq" {
		dc := nquads.DecoderConfig{}.SetBlankNodeStringFactory(f)
		if c.capture {
			dc = dc.SetCaptureTextOffsets(true)
		}
		if c.hasInit {
			dc = dc.SetInitialTextOffset(cursorio.TextOffset{Byte: cursorio.ByteOffset(c.init.b), LineColumn: cursorio.TextLineColumn{c.init.l, c.init.c}})
		}
		d, _ := nquads.NewDecoder(rd, dc)
		for d.Next() {
			collect(d.Quad(), d.StatementTextOffsets())
		}
		err = d.Err()
	} else {
		dc := ntriples.DecoderConfig{}.SetBlankNodeStringFactory(f)
		if c.capture {
			dc = dc.SetCaptureTextOffsets(true)
		}
		if c.hasInit {
			dc = dc.SetInitialTextOffset(cursorio.TextOffset{Byte: cursorio.ByteOffset(c.init.b), LineColumn: cursorio.TextLineColumn{c.init.l, c.init.c}})
		}
		d, _ := ntriples.NewDecoder(rd, dc)
		for d.Next() {
			collect(rdf.Quad{Triple: d.Triple()}, d.StatementTextOffsets())
		}
		err = d.Err()
	}
	res.verdict = vh.ErrClass(err)
	res.errKind = "-"
	var oe cursorio.OffsetError
	var ore cursorio.OffsetRangeError
	if errors.As(err, &oe) {
		switch v := oe.Offset.(type) {
		case cursorio.TextOffset:
			res.errKind, res.e1 = "t", toOff(v)
		case cursorio.ByteOffset:
			res.errKind, res.e1 = "b", off{b: int64(v)}
		default:
			res.errKind = fmt.Sprintf("?%T", oe.Offset)
		}
	} else if errors.As(err, &ore) {
		if v, ok := ore.OffsetRange.(cursorio.TextOffsetRange); ok {
			res.errKind, res.e1, res.e2 = "r", toOff(v.From), toOff(v.Until)
		} else if v, ok := ore.OffsetRange.(*cursorio.TextOffsetRange); ok && v != nil {
			res.errKind, res.e1, res.e2 = "r", toOff(v.From), toOff(v.Until)
		} else {
			res.errKind = fmt.Sprintf("?%T", ore.OffsetRange)
		}
	}
	return res
}

// canonical form, identical to Driver/NQO.lean
func (r result) canon(cols bool) string {
	if r.panicV != "" {
		return "panic:" + r.panicV
	}
	so := func(o off) string {
		if cols {
			return o.String()
		}
		return o.masked()
	}
	parts := make([]string, len(r.stmts))
	for i, s := range r.stmts {
		rs := make([]string, 4)
		for k := range rs {
			if s.r[k].ok {
				rs[k] = so(s.r[k].from) + "-" + so(s.r[k].until)
			} else {
				rs[k] = "-"
			}
		}
		parts[i] = s.wire + "@" + strings.Join(rs, "/")
	}
	e := "E-"
	switch r.errKind {
	case "-":
	case "b":
		e = "Eb" + strconv.FormatInt(r.e1.b, 10)
	case "t":
		e = "Et" + so(r.e1)
	case "r":
		e = "Er" + so(r.e1) + "-" + so(r.e2)
	default:
		e = "E" + r.errKind
	}
	return strings.Join(parts, ";") + "|" + r.verdict + "|" + e
}

// ---------------------------------------------------------------- Simple (copy of TW.simpleRune; tied by op nqo.simple)

func simpleRune(c rune) bool {
	return c == 0x09 || c == 0x0a || c == 0x0d || (0x20 <= c && c <= 0x7e) || (0xa0 <= c && c <= 0x2ff) ||
		(0x4e00 <= c && c <= 0x9fff) || c == 0xfffd || (0x10000 <= c && c <= 0x100ff) || (0x1f600 <= c && c <= 0x1f64f)
}

func simpleDoc(b []byte) bool {
	for len(b) > 0 {
		r, n := utf8.DecodeRune(b)
		if !simpleRune(r) {
			return false
		}
		b = b[n:]
	}
	return true
}

// ---------------------------------------------------------------- position recomputed from the text (oracle)

// posOf: offset of the point after doc[:n] for a writer that started at init. Lines: one per LF.
// Column (simple documents): decoded runes since the last LF that are neither CR nor LF, on top of
// init.c while still on the first line. An ill-formed byte counts as one rune.
func posOf(doc []byte, n int64, init off) off {
	o := off{b: init.b + n, l: init.l, c: init.c}
	p := doc[:n]
	for len(p) > 0 {
		r, k := utf8.DecodeRune(p)
		switch r {
		case '\n':
			o.l++
			o.c = 0
		case '\r':
		default:
			o.c++
		}
		p = p[k:]
	}
	return o
}

// ---------------------------------------------------------------- token oracle

func wrapDoc(slot int, slice string) string {
	switch slot {
	case 0:
		return slice + " <a:p> <a:o> .\n"
	case 1:
		return "<a:s> " + slice + " <a:o> .\n"
	case 2:
		return "<a:s> <a:p> " + slice + " .\n"
	default:
		return "<a:s> <a:p> <a:o> " + slice + " .\n"
	}
}

func termOf(q rdf.Quad, slot int) rdf.Term {
	switch slot {
	case 0:
		return q.Triple.Subject
	case 1:
		return q.Triple.Predicate
	case 2:
		return q.Triple.Object
	default:
		if q.GraphName == nil {
			return nil
		}
		return q.GraphName
	}
}

// tokenShape: is `s` the written form of term t as far as its delimiters go?
func tokenShape(t rdf.Term, s string, label func(rdf.BlankNode) string) string {
	switch v := t.(type) {
	case rdf.IRI:
		if len(s) < 2 || s[0] != '<' || s[len(s)-1] != '>' {
			return "IRI slice is not <…>"
		}
	case rdf.BlankNode:
		// an ill-formed byte is read as U+FFFD (a PN_CHARS rune): compare after the same decoding
		if string([]rune(s)) != "_:"+label(v) {
			return "blank node slice is not _:" + label(v)
		}
	case rdf.Literal:
		if len(s) < 2 || s[0] != '"' {
			return "literal slice does not start with a quote"
		}
		switch tag := v.Tag.(type) {
		case rdf.LanguageLiteralTag:
			if !strings.HasSuffix(s, "\"@"+tag.Language) {
				return "language-tagged literal slice does not end with \"@" + tag.Language
			}
		default:
			if s[len(s)-1] == '"' {
				if string(v.Datatype) != vh.XSDString {
					return "typed literal slice has no datatype suffix"
				}
			} else if s[len(s)-1] != '>' || !strings.Contains(s, "\"^^<") {
				return "literal slice is neither \"…\" nor \"…\"^^<…>"
			}
		}
	default:
		return fmt.Sprintf("unexpected term type %T", t)
	}
	return ""
}

// checkDoc runs the property oracle on one document/configuration. Returns violations (empty = fine).
func checkDoc(c cfg, doc []byte, on result) (viol []string) {
	add := func(f string, a ...any) { viol = append(viol, fmt.Sprintf(f, a...)) }
	if on.panicV != "" {
		add("decoder panicked with capture on: %s", on.panicV)
		return
	}
	simple := simpleDoc(doc)
	n := int64(len(doc))
	init := c.effInit()
	// (1) capture on == capture off
	offC := c
	offC.capture, offC.hasInit = false, false
	offR := goDecode(offC, doc)
	if offR.panicV != "" {
		add("decoder panicked with capture off: %s", offR.panicV)
		return
	}
	if len(offR.stmts) != len(on.stmts) || offR.verdict != on.verdict {
		add("capture changes the outcome: %d statements/%s with, %d/%s without", len(on.stmts), on.verdict, len(offR.stmts), offR.verdict)
	} else {
		for i := range on.stmts {
			if on.stmts[i].wire != offR.stmts[i].wire {
				add("capture changes statement %d: %s vs %s", i, on.stmts[i].wire, offR.stmts[i].wire)
			}
			for k := range offR.stmts[i].r {
				if offR.stmts[i].r[k].ok {
					add("range reported although capture is off (statement %d %s)", i, slotName[k])
				}
			}
		}
	}
	if offR.errKind == "b" && (offR.e1.b < 0 || offR.e1.b > n) {
		add("capture off: error byte offset %d outside the document (length %d)", offR.e1.b, n)
	}
	if offR.errKind == "t" || offR.errKind == "r" {
		add("capture off: error carries a text offset")
	}
	// (2) ranges
	for i, s := range on.stmts {
		for k, r := range s.r {
			t := termOf(s.quad, k)
			if !r.ok {
				if t != nil {
					add("statement %d: no %s range although capture is on", i, slotName[k])
				}
				continue
			}
			if t == nil {
				add("statement %d: %s range without a term", i, slotName[k])
				continue
			}
			fb, ub := r.from.b-init.b, r.until.b-init.b
			if fb < 0 || ub > n || fb > ub {
				add("statement %d %s: range %s-%s not inside the document (initial %s, length %d)", i, slotName[k], r.from, r.until, init, n)
				continue
			}
			for _, pt := range []struct {
				name string
				o    off
				rel  int64
			}{{"from", r.from, fb}, {"until", r.until, ub}} {
				want := posOf(doc, pt.rel, init)
				if pt.o.l != want.l || (simple && pt.o.c != want.c) {
					add("statement %d %s %s: reported %s, text says %s (simple=%v)", i, slotName[k], pt.name, pt.o, want, simple)
				}
			}
			slice := string(doc[fb:ub])
			if msg := tokenShape(t, slice, on.label); msg != "" {
				add("statement %d %s: %s (slice %q)", i, slotName[k], msg, slice)
				continue
			}
			// re-decode the slice in a one-statement wrapper
			wc := cfg{pkg: c.pkg}
			if k == 3 {
				wc.pkg = "nq"
			}
			w := goDecode(wc, []byte(wrapDoc(k, slice)))
			if w.panicV != "" || w.verdict != "clean" || len(w.stmts) != 1 {
				add("statement %d %s: slice %q does not re-decode (%s, %d statements)", i, slotName[k], slice, w.verdict+w.panicV, len(w.stmts))
				continue
			}
			got := vh.TermWire(termOf(w.stmts[0].quad, k), w.label)
			want := vh.TermWire(t, on.label)
			if got != want {
				add("statement %d %s: slice %q re-decodes to %s, statement has %s", i, slotName[k], slice, got, want)
			}
		}
	}
	// (3) error offsets inside the document
	switch on.errKind {
	case "-":
	case "t":
		if on.e1.b < init.b || on.e1.b > init.b+n {
			add("error offset %s outside the document (initial %s, length %d)", on.e1, init, n)
		}
	case "r":
		if on.e1.b < init.b || on.e2.b > init.b+n || on.e1.b > on.e2.b {
			add("error offset range %s-%s outside the document (initial %s, length %d)", on.e1, on.e2, init, n)
		}
	case "b":
		if c.capture || c.hasInit {
			add("capture on: error carries a bare byte offset")
		}
	default:
		add("error offset of unexpected type %s", on.errKind)
	}
	// (4) shift: the run with an initial offset is the shifted run with offset zero
	if c.hasInit && c.init != (off{}) {
		zc := c
		zc.init = off{}
		z := goDecode(zc, doc)
		sh := func(p off) off {
			q := off{p.b + c.init.b, p.l + c.init.l, p.c}
			if p.l == 0 {
				q.c += c.init.c
			}
			return q
		}
		if z.panicV != "" || len(z.stmts) != len(on.stmts) || z.verdict != on.verdict || z.errKind != on.errKind {
			add("initial offset changes the outcome")
		} else {
			for i := range z.stmts {
				for k := range z.stmts[i].r {
					a, b := z.stmts[i].r[k], on.stmts[i].r[k]
					if a.ok != b.ok || (a.ok && (sh(a.from) != b.from || sh(a.until) != b.until)) {
						add("statement %d %s: with initial %s got %s-%s, shifted zero run gives %s-%s", i, slotName[k], c.init, b.from, b.until, sh(a.from), sh(a.until))
					}
				}
			}
			if (z.errKind == "t" && sh(z.e1) != on.e1) || (z.errKind == "r" && (sh(z.e1) != on.e1 || sh(z.e2) != on.e2)) {
				add("error offset with initial %s is %s, shifted zero run gives %s", c.init, on.e1, sh(z.e1))
			}
		}
	}
	return
}

// ---------------------------------------------------------------- generators

var simplePool = []string{"é", "ÿ", "ǆ", "中", "文", "\U00010000", "\U00010080", "\U0001F600", "¡", "ʰ", "\u00a0", "~", "%41"}
var nonSimplePool = []string{"e\u0301", "\u200d", "\U0001F1E6\U0001F1FA", "\u1100\u1161", "\u0600a", "\u2028", "α", "\u3000", "\ufeff", "\U000E0001", "\u0903"}
var badBytes = []string{"\xff", "\xc3", "\xe4\xb8", "\x80", "\xf0\x9f\x98", "\xed\xa0\x80", "\xc0\xaf"}

type dgen struct {
	r *vh.Rng
}

func (g *dgen) word() string {
	s := g.r.LangTag()
	if len(s) > 6 {
		s = s[:6]
	}
	return strings.Trim(s, "-")
}

// body: text for the inside of an IRI or a literal
func (g *dgen) spice(lit bool) string {
	switch g.r.Intn(14) {
	case 0, 1, 2:
		return vh.Pick(g.r, simplePool)
	case 3:
		return vh.Pick(g.r, []string{"\\u00e9", "\\U0001F600", "\\u4E2D", "\\u0041"})
	case 4:
		if lit {
			return vh.Pick(g.r, []string{"\\n", "\\\"", "\\\\", "\\t", "\\r", "\\'", " ", "\t", "<", ">", "#", ". ", "^^", "@en"})
		}
		return "/"
	case 5:
		if lit && g.r.Chance(40) {
			return vh.Pick(g.r, []string{"\n", "\r\n", "\r"})
		}
		return "x"
	case 6:
		if g.r.Chance(25) {
			return vh.Pick(g.r, nonSimplePool)
		}
		return "y"
	case 7:
		if g.r.Chance(15) {
			return vh.Pick(g.r, badBytes)
		}
		return "z"
	default:
		return g.word()
	}
}

func (g *dgen) iri() string {
	s := "<" + vh.Pick(g.r, []string{"http://e/", "a:", "urn:x:", "https://example.org/p#"})
	for i, n := 0, g.r.Intn(3); i < n; i++ {
		s += g.spice(false)
	}
	return s + ">"
}

func (g *dgen) bnode() string {
	s := "_:" + vh.Pick(g.r, []string{"a", "b0", "_x", "9", "n-1", "a.b", "é", "x·y", "a..b", "中"})
	if g.r.Chance(10) {
		s += g.word()
	}
	return s
}

func (g *dgen) literal() string {
	s := "\""
	for i, n := 0, g.r.Intn(4); i < n; i++ {
		s += g.spice(true)
	}
	s += "\""
	switch g.r.Intn(6) {
	case 0, 1:
		s += "@" + g.r.LangTag()
	case 2, 3:
		if g.r.Chance(6) { // datatypes that require a tag: rejected, the error carries the IRI's range
			s += "^^<http://www.w3.org/1999/02/22-rdf-syntax-ns#" + vh.Pick(g.r, []string{"langString", "dirLangString"}) + ">"
		} else {
			s += "^^" + g.iri()
		}
	}
	return s
}

func (g *dgen) sep() string {
	switch g.r.Intn(12) {
	case 0:
		return ""
	case 1:
		return "\t"
	case 2:
		return "  "
	case 3:
		return vh.Pick(g.r, []string{" # c\n", "#\n", " #" + vh.Pick(g.r, simplePool) + "\n ", "\n", "\r\n", " \r ", "\u00a0", "\u2028", " #" + vh.Pick(g.r, badBytes) + "\n"})
	default:
		return " "
	}
}

func (g *dgen) eol() string {
	switch g.r.Intn(12) {
	case 0:
		return "\r\n"
	case 1:
		return "\r"
	case 2:
		return " # " + g.word() + vh.Pick(g.r, simplePool) + "\n"
	case 3:
		return "\n\n"
	case 4:
		return "\r\n\r\n# c\r\n"
	case 5:
		return " \t\n  "
	case 6:
		return "\n#" + g.word() + "\n\n"
	default:
		return "\n"
	}
}

func (g *dgen) node() string {
	if g.r.Chance(35) {
		return g.bnode()
	}
	return g.iri()
}

func (g *dgen) statement(pkg string) string {
	s := g.node() + g.sep() + g.iri() + g.sep()
	switch g.r.Intn(3) {
	case 0:
		s += g.node()
	default:
		s += g.literal()
	}
	if pkg == "nq" && g.r.Chance(50) {
		s += g.sep() + g.node()
	}
	// a blank node label directly followed by '.' exercises the trailing-dot back-off
	return s + g.sep() + "."
}

func (g *dgen) doc(pkg string) string {
	var sb strings.Builder
	if g.r.Chance(15) {
		sb.WriteString(vh.Pick(g.r, []string{"\n", "# head\n", "  ", "\r\n", "\ufeff"}))
	}
	n := 1 + g.r.Intn(4)
	for i := 0; i < n; i++ {
		sb.WriteString(g.statement(pkg))
		if i < n-1 || g.r.Chance(70) {
			sb.WriteString(g.eol())
		}
	}
	if g.r.Chance(10) {
		sb.WriteString("# trailing comment without newline")
	}
	return sb.String()
}

var hotBytes = []byte("<>\"\\ \t\r\n._:@^#-uU0aF{}|`\x00\x7f\xc3\xa9\xf0\x9f")

var cornerDocs = []string{
	"<a:s> <a:p> \"abcdefgh\"^", "<a:s> <a:p> \"abcdefgh\"^x", "<a:s> <a:p> \"abcdefgh\"^^", "<a:s> <a:p> \"abcdefgh\"^^x", "<a:s> <a:p> \"abc\"",
	"<a:a> <a:b> <a:c> <a:g> .\n<a:a> <a:b> <a:c> <a:g> .\n", "<a:a> <a:b> \"x\"@en-Latn-US .\r\n<a:a> <a:b> \"\"^^<a:t>.\r\n", "<a:a> <a:b> _:a.b.\n_:a.b. <a:b> _:c. .",
	"<a:a> <a:b> \"x\"@en- .\n", "<a:a> <a:b> \"x\"@ .\n", "<a:a> <a:b> \"x\"@en--a .\n", "_:a.. <a:b> <a:c> .\n", "_", "_x", "_:", "_:a", "<http://a", "# c", "  \n",
	"<a:a> <a:b> <a:c> . # c", "<a:a> <a:b> <a:c> .\r<a:a> <a:b> <a:d> .\r\n", "<a:a>\u00a0<a:b>\u2028<a:c>\u3000.\n", "<a:a> <a:b> \"a\nb\r\nc\" .\n<a:a> <a:b> <a:c> .\n",
	"<rel> <a:b> <a:c> .\n", "<a:a> <a:b> \"x\"^^<rel> .\n", "<a:a> <a:b> \"x\"^^<http://www.w3.org/1999/02/22-rdf-syntax-ns#langString> .\n", "<a:a> <a:b> \"x\"^^<http://www.w3.org/1999/02/22-rdf-syntax-ns#dirLangString> .\n<a:a> <a:b> <a:c> .\n",
	"<a:\\u00e9\\U0001F600> <a:b> \"\\u00e9\\n\" .\n<a:é😀> <a:b> \"é\n\" .\n", "<a:a> <a:b> \"\\uD800\" .\n", "<a:a> <a:b> \"\\U00110000\" .\n", "<a:a> <a:b> \"\\u00g0\" .\n", "<a:a\\x> <a:b> <a:c> .\n",
	"<a:a> <a:b> \"\xff\xfe\" .\n<a:a> <a:b> <a:c\xc3> .\n", "<a:a> # c\n <a:b> #d\r\n <a:c> # e\n . # f\n<a:a> <a:b> <a:c> .", "<a:a> <a:b> <a:c> . x\n", "<a:a> <a:b> <a:c> <a:g> x\n", "<a:a> <a:b> <a:c> #c",
	"<a:a> <a:b> e\u0301 .\n", "<a:a> <a:b> \"e\u0301\" .\n<a:a> <a:b> \"\U0001F1E6\U0001F1FA\" <a:g> .\n",
}

type job struct {
	kind string
	c    cfg
	doc  []byte
	// filled by the workers
	on     result
	offLn  string // protocol line, capture off
	offGo  string
	onLn   string
	onGo   string
	viol   []string
	simple bool
}

func (g *dgen) cfgFor(pkg string, fail bool) cfg {
	c := cfg{pkg: pkg, fail: fail, capture: true}
	switch g.r.Intn(5) {
	case 0: // SetCaptureTextOffsets(true) only
	case 1:
		c.hasInit = true // explicit zero
	default:
		c.hasInit = true
		c.init = off{int64(g.r.Intn(2000)), int64(g.r.Intn(60)), int64(g.r.Intn(90))}
		if g.r.Chance(20) {
			c.init.l = 0
		}
	}
	return c
}

func protoLine(c cfg, legacy bool, cols bool, doc []byte) string {
	e := "eof"
	if c.fail {
		e = "io"
	}
	in := c.effInit()
	return fmt.Sprintf("nqo.dec %s %s %s %s %s %d,%d,%d %s", c.pkg, e, vh.B01(c.capture || c.hasInit), vh.B01(legacy), vh.B01(cols), in.b, in.l, in.c, vh.X(doc))
}

func parseProto(l string) (cfg, []byte, bool) {
	f := strings.Fields(l)
	if len(f) != 8 || f[0] != "nqo.dec" {
		return cfg{}, nil, false
	}
	c := cfg{pkg: f[1], fail: f[2] == "io", capture: f[3] == "1"}
	var b, ln, cl int64
	if _, err := fmt.Sscanf(f[6], "%d,%d,%d", &b, &ln, &cl); err != nil {
		return cfg{}, nil, false
	}
	if c.capture {
		c.hasInit, c.init = true, off{b, ln, cl}
	}
	raw, err := vh.UnX(f[7])
	return c, raw, err == nil
}

func process(j *job) {
	j.simple = simpleDoc(j.doc)
	j.on = goDecode(j.c, j.doc)
	j.onLn = protoLine(j.c, false, j.simple, j.doc)
	j.onGo = j.on.canon(j.simple)
	oc := j.c
	oc.capture, oc.hasInit = false, false
	j.offLn = protoLine(oc, false, j.simple, j.doc)
	j.offGo = goDecode(oc, j.doc).canon(j.simple)
	j.viol = checkDoc(j.c, j.doc, j.on)
}

func runJobs(js []*job) {
	n := runtime.NumCPU()
	if n > 12 {
		n = 12
	}
	var wg sync.WaitGroup
	ch := make(chan *job, 256)
	for w := 0; w < n; w++ {
		wg.Add(1)
		go func() {
			defer wg.Done()
			for j := range ch {
				process(j)
			}
		}()
	}
	for _, j := range js {
		ch <- j
	}
	close(ch)
	wg.Wait()
}

// privateDriver copies the driver binary to a private temporary file: the shared binary under
// lean/.lake/build/bin is replaced whenever any property's driver files are rebuilt, and a long run
// must not lose it half way. Retries while the file is momentarily absent.
func privateDriver(path string) (string, func()) {
	for try := 0; try < 60; try++ {
		b, err := os.ReadFile(path)
		if err == nil && len(b) > 0 {
			f, err := os.CreateTemp("", "c16-driver-*")
			if err != nil {
				break
			}
			_, werr := f.Write(b)
			f.Close()
			if werr == nil && os.Chmod(f.Name(), 0o755) == nil {
				return f.Name(), func() { os.Remove(f.Name()) }
			}
			os.Remove(f.Name())
		}
		time.Sleep(time.Second)
	}
	return path, func() {}
}

func main() {
	os.Exit(realMain())
}

func realMain() int {
	flag.Parse()
	if !*nomodel {
		p, cleanup := privateDriver(*driver)
		*driver = p
		defer cleanup()
	}
	seed := vh.SeedFromEnv()
	rep := vh.NewReport("C16", *tier, seed, "N-Triples/N-Quads documents assembled token by token (IRIs and literals with multi-byte, astral, UCHAR/ECHAR, raw line breaks, ill-formed UTF-8 bytes, occasionally combining marks/ZWJ/regional indicators/Hangul jamo; blank node labels with dots; language tags; datatypes; graph names; separators none/space/tab/comment/CR/LF/CRLF/U+00A0/U+2028; 1-4 statements; trailing comments), byte-level mutations and truncations of those, reader ending in EOF or an injected error, offset capture plain / explicit zero / random initial offset (byte<2000, line<60, column<90). Every document is decoded with capture on and off on the implementation and on the model (bytes and lines always compared, columns only when every rune of the document is in TW.simple: TAB LF CR, printable ASCII, U+00A0-02FF, CJK U+4E00-9FFF, U+FFFD, U+10000-100FF, U+1F600-1F64F). Non-trivial = at least one statement with ranges or an error carrying an offset.")
	if _, err := vh.LoadFindings(*findings); err != nil {
		fmt.Fprintln(os.Stderr, "findings:", err)
		return 2
	}
	g := &dgen{r: vh.NewRng(seed)}
	total := 20000 * *scale
	if *tier == "thorough" {
		total = 1000000 * *scale
	}
	compared, failures := 0, 0
	var simpleLines []string
	var simpleWant []string

	var driverErr error
	finish := func(js []*job) {
		if driverErr != nil {
			return
		}
		runJobs(js)
		var lines []string
		for _, j := range js {
			lines = append(lines, j.onLn, j.offLn)
		}
		var res []string
		if !*nomodel {
			var err error
			res, err = vh.Driver{Path: *driver}.RunParallel(lines)
			if err != nil {
				driverErr = err
				return
			}
		}
		for i, j := range js {
			nontrivial := j.on.errKind != "-"
			for _, s := range j.on.stmts {
				if s.r[0].ok {
					nontrivial = true
				}
			}
			rep.Eval(j.onLn, nontrivial)
			rep.Count("kind:" + j.kind)
			rep.Count("verdict:" + j.on.verdict)
			rep.Count("errpos:" + j.on.errKind)
			rep.Count(fmt.Sprintf("simple:%v", j.simple))
			rep.Count(fmt.Sprintf("stmts:%d", min(len(j.on.stmts), 5)))
			if j.c.hasInit && j.c.init != (off{}) {
				rep.Count("initial:nonzero")
			} else if j.c.hasInit {
				rep.Count("initial:zero")
			} else {
				rep.Count("initial:unset")
			}
			for _, v := range j.viol {
				rep.Add(vh.Case{Kind: "violation", Op: j.onLn, Go: j.onGo, Detail: v + " — doc " + strconv.Quote(string(j.doc))})
				failures++
			}
			if !*nomodel {
				compared += 2
				if res[2*i] != j.onGo {
					rep.Add(vh.Case{Kind: "disagreement", Op: j.onLn, Go: j.onGo, Model: res[2*i], Detail: j.kind + " capture on — doc " + strconv.Quote(string(j.doc))})
					failures++
				}
				if res[2*i+1] != j.offGo {
					rep.Add(vh.Case{Kind: "disagreement", Op: j.offLn, Go: j.offGo, Model: res[2*i+1], Detail: j.kind + " capture off — doc " + strconv.Quote(string(j.doc))})
					failures++
				}
			}
		}
	}

	var batch []*job
	push := func(kind string, c cfg, doc []byte) {
		batch = append(batch, &job{kind: kind, c: c, doc: doc})
		if len(batch) >= 40000 {
			finish(batch)
			batch = nil
		}
	}

	if *replay != "" {
		b, err := os.ReadFile(*replay)
		if err != nil {
			fmt.Fprintln(os.Stderr, err)
			return 2
		}
		lines := strings.Split(strings.TrimSpace(string(b)), "\n")
		if strings.HasPrefix(strings.TrimSpace(string(b)), "{") { // a replay file written by ./check
			var rf struct {
				Violations    []vh.Case `json:"violations"`
				Disagreements []vh.Case `json:"disagreements"`
			}
			if err := json.Unmarshal(b, &rf); err == nil {
				lines = nil
				for _, c := range append(rf.Violations, rf.Disagreements...) {
					lines = append(lines, c.Op)
				}
			}
		}
		for _, l := range lines {
			if c, doc, ok := parseProto(l); ok {
				if !c.capture {
					c.capture = true
				}
				push("replay", c, doc)
			}
		}
	} else {
		if *hints != "" {
			if b, err := os.ReadFile(*hints); err == nil {
				for _, l := range strings.Split(string(b), "\n") {
					if c, doc, ok := parseProto(l); ok {
						c.capture = true
						push("hint", c, doc)
					}
				}
			}
		}
		for _, d := range cornerDocs {
			for _, pkg := range []string{"nq", "nt"} {
				for _, fail := range []bool{false, true} {
					push("corner", cfg{pkg: pkg, fail: fail, capture: true}, []byte(d))
					push("corner", cfg{pkg: pkg, fail: fail, capture: true, hasInit: true, init: off{100, 7, 3}}, []byte(d))
				}
			}
		}
		for made := 0; made < total; {
			pkg := vh.Pick(g.r, []string{"nq", "nt"})
			doc := []byte(g.doc(pkg))
			push("valid", g.cfgFor(pkg, g.r.Chance(10)), doc)
			made++
			for k := 0; k < 2; k++ {
				push("mutated", g.cfgFor(pkg, g.r.Chance(15)), g.r.Mutate(doc, hotBytes))
				made++
			}
			if len(doc) > 0 {
				push("truncated", g.cfgFor(pkg, g.r.Chance(30)), doc[:g.r.Intn(len(doc))])
				made++
			}
			// tie of the Simple predicate (model copy vs harness copy)
			if made%50 < 4 && !*nomodel {
				simpleLines = append(simpleLines, "nqo.simple "+vh.X(doc))
				simpleWant = append(simpleWant, fmt.Sprint(simpleDoc(doc)))
			}
		}
	}
	if len(batch) > 0 {
		finish(batch)
	}
	if driverErr != nil {
		fmt.Fprintln(os.Stderr, driverErr)
		return 2
	}
	if !*nomodel && len(simpleLines) > 0 {
		// every rune class boundary of the predicate
		for _, r := range []rune{0x08, 0x09, 0x0a, 0x0b, 0x0d, 0x1f, 0x20, 0x7e, 0x7f, 0x9f, 0xa0, 0x2ff, 0x300, 0x4dff, 0x4e00, 0x9fff, 0xa000, 0xfffc, 0xfffd, 0xfffe, 0xffff, 0x10000, 0x100ff, 0x10100, 0x1f5ff, 0x1f600, 0x1f64f, 0x1f650} {
			simpleLines = append(simpleLines, "nqo.simple "+vh.XS(string(r)))
			simpleWant = append(simpleWant, fmt.Sprint(simpleRune(r)))
		}
		res, err := vh.Driver{Path: *driver}.RunParallel(simpleLines)
		if err != nil {
			fmt.Fprintln(os.Stderr, err)
			return 2
		}
		for i := range res {
			compared++
			rep.Count("op:simple")
			if res[i] != simpleWant[i] {
				rep.Add(vh.Case{Kind: "disagreement", Op: simpleLines[i], Go: simpleWant[i], Model: res[i], Detail: "Simple predicate: harness copy differs from the model"})
				failures++
			}
		}
	}
	rep.Compared = compared
	if rep.Cases == nil {
		rep.Cases = []vh.Case{} // "cases": [] rather than null for ./check
	}
	if err := rep.Write(*out); err != nil {
		fmt.Fprintln(os.Stderr, err)
		return 2
	}
	mode := ""
	if *nomodel {
		mode = " (oracle only)"
	}
	fmt.Printf("c16%s: %d documents, %d lines compared with the model, %d failures\n", mode, rep.Evaluations, compared, rep.Failures())
	if rep.Failures() > 0 {
		return 1
	}
	return 0
}
