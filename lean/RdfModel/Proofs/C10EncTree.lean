/-
  C10 helper lemmas, part 7 (encoder direction): the member list of a node object.

  `GR props groups` relates the `graphProperties` map of `buildResource` (member name ↦ JSON values) to
  the groups of the expected tree (member name ↦ predicate, value trees): same names in the same order,
  each name classifies as its predicate (`KeyOK`), each JSON value evaluates to the denotation of its
  tree (`ValRel`). `GR` is preserved by filing one more statement (`GR_step`), and a related pair
  evaluates under `evalMembers` to `denGroups` (`evalMembers_props`).
-/
import RdfModel.Proofs.C10EncDoc
namespace RdfModel.Proofs.C10
open RdfModel RdfModel.Desc RdfModel.JL RdfModel.JLEnc RdfModel.C10

variable {β : Type}

/-- two lists related element by element -/
inductive F2 {α γ : Type} (R : α → γ → Prop) : List α → List γ → Prop where
  | nil : F2 R [] []
  | cons {a : α} {b : γ} {l₁ : List α} {l₂ : List γ} : R a b → F2 R l₁ l₂ → F2 R (a :: l₁) (b :: l₂)

def notArr (j : Json) : Prop := ∀ xs, j ≠ .arr xs

/-- the member name `k` stands for the predicate `p` -/
def KeyOK (c : Ctx) (k p : Str) : Prop :=
  if k = kType then p = rdfType else classifyKey c k = .prop p TermDef.plain

/-- the JSON value `j`, filed under `k`, is read as the tree `t` (a value of `p`) -/
def ValRel (label : β → Str) (c : Ctx) (k p : Str) (j : Json) (t : Tree β) : Prop :=
  j.wf = true ∧
  if k = kType then ∃ ts v, j = .str ts ∧ t = .term (.iri v) ∧ nodeRef (expandIri c true true ts) = some (.iri v)
  else notArr j ∧ ∀ g s n, evalItem c TermDef.plain g s p j n = some (denVal label g s p t n)

def GroupRel (label : β → Str) (c : Ctx) (pj : Str × List Json) (gr : Str × Str × List (Tree β)) : Prop :=
  pj.1 = gr.1 ∧ KeyOK c gr.1 gr.2.1 ∧ pj.2 ≠ [] ∧ F2 (ValRel label c gr.1 gr.2.1) pj.2 gr.2.2

def GR (label : β → Str) (c : Ctx) (props : List (Str × List Json)) (groups : List (Str × Str × List (Tree β))) : Prop :=
  F2 (GroupRel label c) props groups

theorem classifyKey_type (c : Ctx) : classifyKey c kType = .type := by
  unfold classifyKey
  rw [if_neg (by decide), if_neg (by decide), if_pos rfl]

theorem keyOK_unique {c : Ctx} {k p p' : Str} (h : KeyOK c k p) (h' : KeyOK c k p') : p = p' := by
  unfold KeyOK at h h'
  by_cases hk : k = kType
  · rw [if_pos hk] at h h'; rw [h, h']
  · rw [if_neg hk] at h h'
    rw [h] at h'
    injection h' with h1 _

theorem forall₂_snoc {α γ : Type} {R : α → γ → Prop} {l₁ : List α} {l₂ : List γ} {a : α} {b : γ}
    (h : F2 R l₁ l₂) (hab : R a b) : F2 R (l₁ ++ [a]) (l₂ ++ [b]) := by
  induction h with
  | nil => exact .cons hab .nil
  | cons h1 _ ih => exact .cons h1 ih

/-- filing one more statement keeps the relation -/
theorem GR_step (label : β → Str) (c : Ctx) {props : List (Str × List Json)} {groups : List (Str × Str × List (Tree β))}
    (h : GR label c props groups) {k p : Str} {j : Json} {t : Tree β} (hk : KeyOK c k p)
    (hv : ValRel label c k p j t) :
    GR label c (addProp props k j) (alUpd (p, []) (fun x => (x.1, x.2 ++ [t])) groups k) := by
  unfold addProp
  induction h with
  | nil =>
    simp only [alUpd]
    exact .cons ⟨rfl, hk, by simp, F2.cons hv .nil⟩ .nil
  | @cons pj gr props' groups' hg _ ih =>
    obtain ⟨pk, pvs⟩ := pj
    obtain ⟨gk, gp, gts⟩ := gr
    obtain ⟨h1, h2, h3, h4⟩ := hg
    simp only at h1 h2 h3 h4
    subst h1
    simp only [alUpd]
    by_cases hkk : pk = k
    · subst hkk
      have hp : p = gp := keyOK_unique hk h2
      subst hp
      simp only [if_true]
      exact .cons ⟨rfl, h2, by simp, forall₂_snoc h4 hv⟩ ‹_›
    · simp only [if_neg hkk]
      exact .cons ⟨rfl, h2, h3, h4⟩ ih

/-! ### evaluation -/

theorem andThen_some (r : List Q × Nat) (f : Nat → Option (List Q × Nat)) :
    andThen (some r) f = (f r.2).map (fun x => (r.1 ++ x.1, x.2)) := by
  obtain ⟨q, m⟩ := r
  simp only [andThen]
  cases f m with
  | none => rfl
  | some x => obtain ⟨a, b⟩ := x; rfl

theorem evalItems_rel (label : β → Str) (c : Ctx) {k p : Str} (hk : k ≠ kType) {js : List Json} {ts : List (Tree β)}
    (h : F2 (ValRel label c k p) js ts) (g : Option T) (s : T) (n : Nat) :
    evalItems c TermDef.plain g s p js n = some (denVals label g s p ts n) := by
  induction h generalizing n with
  | nil => simp [evalItems, denVals]
  | @cons j t js' ts' hjt _ ih =>
    have hv := hjt.2
    unfold ValRel at hjt
    rw [if_neg hk] at hv
    simp only [evalItems, hv.2 g s n, andThen_some, ih, denVals, Option.map_some]

theorem evalTypes_str (c : Ctx) (ts : Str) : evalTypes c (.str ts) = (nodeRef (expandIri c true true ts)).map fun t => [t] := by
  simp [evalTypes]

theorem evalTypes_cons (c : Ctx) (ts : Str) (js : List Json) {b : T} {bs : List T}
    (h1 : nodeRef (expandIri c true true ts) = some b) (h2 : evalTypes c (.arr js) = some bs) :
    evalTypes c (.arr (.str ts :: js)) = some (b :: bs) := by
  simp only [evalTypes] at h2 ⊢
  simp only [mapOpt, h1, h2]

theorem types_rel (label : β → Str) (c : Ctx) {p : Str} {js : List Json} {ts : List (Tree β)}
    (h : F2 (ValRel label c kType p) js ts) (g : Option T) (s : T) (n : Nat) :
    ∃ terms, evalTypes c (.arr js) = some terms ∧
      denVals label g s rdfType ts n = (terms.map fun t => quad s rdfType t g, n) := by
  induction h with
  | nil => exact ⟨[], by simp [evalTypes, mapOpt], by simp [denVals]⟩
  | @cons j t js' ts' hjt _ ih =>
    obtain ⟨terms, h1, h2⟩ := ih
    have hv := hjt.2
    rw [if_pos rfl] at hv
    obtain ⟨tstr, v, rfl, rfl, hn⟩ := hv
    refine ⟨.iri v :: terms, ?_, ?_⟩
    · exact evalTypes_cons c tstr js' hn h1
    · simp [denVals, denVal, h2, outTerm, Term.map]

/-- one related group, as the first member of a member list -/
theorem member_eval (label : β → Str) (c : Ctx) {pj : Str × List Json} {gr : Str × Str × List (Tree β)}
    (h : GroupRel label c pj gr) (props : List (Str × List Json)) (g : Option T) (s : T) (dflt : Bool) (n : Nat)
    (rest : List (Str × Json)) :
    evalMembers c g s dflt (propMembers (pj :: props) ++ rest) n =
      andThen (some (denVals label g s gr.2.1 gr.2.2 n)) (fun n1 => evalMembers c g s dflt (propMembers props ++ rest) n1) := by
  obtain ⟨pk, pvs⟩ := pj
  obtain ⟨gk, gp, gts⟩ := gr
  obtain ⟨h1, h2, h3, h4⟩ := h
  simp only at h1 h2 h3 h4
  subst h1
  unfold KeyOK at h2
  cases h4 with
  | nil => exact absurd rfl h3
  | @cons j t js' ts' hjt hrest =>
    cases hrest with
    | nil =>
      -- a single value
      have hpm : propMembers ((pk, [j]) :: props) = (pk, j) :: propMembers props := by
        simp [propMembers]
      rw [hpm, List.cons_append]
      have hv := hjt.2
      by_cases hk : pk = kType
      · subst hk
        rw [if_pos rfl] at hv h2
        obtain ⟨tstr, v, rfl, rfl, hn⟩ := hv
        subst h2
        rw [evalMembers.eq_4 _ _ _ _ _ _ _ _ (by intro xs e; cases e) (by intro ms e; cases e), classifyKey_type]
        simp [typeQuads, evalTypes_str, hn, denVals, denVal, outTerm, Term.map]
      · rw [if_neg hk] at hv h2
        have hd : denVals label g s gp [t] n = denVal label g s gp t n := by
          simp [denVals]
        rw [hd, ← hv.2 g s n]
        have hplain : (TermDef.plain.cont = Container.list) = False := by simp [TermDef.plain]
        have hplain2 : (TermDef.plain.cont = Container.language) = False := by simp [TermDef.plain]
        cases j with
        | arr xs => exact absurd rfl (hv.1 xs)
        | obj ms' =>
          rw [evalMembers.eq_3, h2]
          simp [hplain, hplain2]
        | null => rw [evalMembers.eq_4 _ _ _ _ _ _ _ _ (by intro xs e; cases e) (by intro ms e; cases e), h2]; simp [hplain]
        | bool b => rw [evalMembers.eq_4 _ _ _ _ _ _ _ _ (by intro xs e; cases e) (by intro ms e; cases e), h2]; simp [hplain]
        | int i => rw [evalMembers.eq_4 _ _ _ _ _ _ _ _ (by intro xs e; cases e) (by intro ms e; cases e), h2]; simp [hplain]
        | dbl l => rw [evalMembers.eq_4 _ _ _ _ _ _ _ _ (by intro xs e; cases e) (by intro ms e; cases e), h2]; simp [hplain]
        | str x => rw [evalMembers.eq_4 _ _ _ _ _ _ _ _ (by intro xs e; cases e) (by intro ms e; cases e), h2]; simp [hplain]
    | @cons j2 t2 js'' ts'' hjt2 hrest2 =>
      have hpm : propMembers ((pk, j :: j2 :: js'') :: props) = (pk, .arr (j :: j2 :: js'')) :: propMembers props := by
        simp [propMembers]
      rw [hpm, List.cons_append, evalMembers.eq_2]
      have hall : F2 (ValRel label c pk gp) (j :: j2 :: js'') (t :: t2 :: ts'') := .cons hjt (.cons hjt2 hrest2)
      by_cases hk : pk = kType
      · subst hk
        rw [if_pos rfl] at h2
        subst h2
        obtain ⟨terms, e1, e2⟩ := types_rel label c hall g s n
        rw [classifyKey_type]
        simp only [typeQuads, e1, Option.map_some, e2]
      · rw [if_neg hk] at h2
        have hplain : (TermDef.plain.cont = Container.list) = False := by simp [TermDef.plain]
        rw [h2]
        simp only [hplain, if_false, evalItems_rel label c hk hall g s n]

/-- related member lists evaluate to the denotation of the groups -/
theorem evalMembers_props (label : β → Str) (c : Ctx) {props : List (Str × List Json)}
    {groups : List (Str × Str × List (Tree β))} (h : GR label c props groups) (g : Option T) (s : T) (dflt : Bool)
    (rest : List (Str × Json)) (n : Nat) :
    evalMembers c g s dflt (propMembers props ++ rest) n =
      andThen (some (denGroups label g s (groups.map (·.2)) n)) (fun n1 => evalMembers c g s dflt rest n1) := by
  induction h generalizing n with
  | nil =>
    simp only [propMembers, List.filterMap_nil, List.nil_append, List.map_nil, denGroups, andThen_some]
    cases evalMembers c g s dflt rest n with
    | none => rfl
    | some x => simp
  | @cons pj gr props' groups' hg _ ih =>
    rw [member_eval label c hg props' g s dflt n rest]
    obtain ⟨gk, gp, gts⟩ := gr
    simp only [List.map_cons, denGroups, andThen_some, ih]
    cases evalMembers c g s dflt rest (denGroups label g s (List.map (fun x => x.2) groups') (denVals label g s gp gts n).2).2 with
    | none => rfl
    | some r => simp [List.append_assoc]

end RdfModel.Proofs.C10
