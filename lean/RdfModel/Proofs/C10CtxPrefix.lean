/-
  Proofs for part C10C: the prefix flag (steps 14.2.5 and 25 of Create Term Definition) and the
  heap-level statement about `Context.clone`.
-/
import RdfModel.Model.JsonLdContext
namespace RdfModel.JLC
open RdfModel RdfModel.JL

theorem prefixFlag145_iff (mode : Mode) (term : Str) (simple : Bool) (e : SIri) :
    prefixFlag145 mode term simple e = true ↔
      (mode = .v10 ∨ (hasColonOrSlash term = false ∧ simple = true ∧
        ((∃ t c, e = .iri t ∧ t.getLast? = some c ∧ c ∈ genDelims) ∨ (∃ t, e = .bnode t)))) := by
  unfold prefixFlag145
  by_cases hm : mode = .v10
  · simp [hm]
  · have hm' : (mode == Mode.v10) = false := by simpa using hm
    simp only [hm', hm, false_or, Bool.false_eq_true, if_false]
    by_cases hcs : hasColonOrSlash term = true
    · simp [hcs]
    · have hcs' : hasColonOrSlash term = false := by simpa using hcs
      cases simple
      · simp [hcs']
      · simp only [hcs', Bool.not_false, Bool.and_self, if_true, true_and]
        cases e with
        | nil => simp
        | kw k => simp
        | bnode t => simp
        | iri t =>
          cases hl : t.getLast? with
          | none => simp [hl]
          | some c => simp [hl]

theorem prefixStep_ok (mode : Mode) (term : Str) (vo : List (Str × Json)) (e : SIri) (p0 p : Bool)
    (h : prefixStep mode term vo e p0 = .ok p) :
    (getKey kPrefix vo = none ∧ p = p0) ∨
    (getKey kPrefix vo = some (.bool p) ∧ mode ≠ .v10 ∧ term.contains cColon = false ∧ term.contains cSlash = false ∧
      (p = true → ∀ k, e ≠ .kw k)) := by
  unfold prefixStep at h
  split at h
  · left
    simp_all
  · right
    rename_i v hv
    split at h
    · simp at h
    · split at h
      · simp at h
      · rename_i hm hcs
        have hm' : mode ≠ .v10 := by simpa using hm
        simp only [Bool.or_eq_true, not_or, Bool.not_eq_true] at hcs
        split at h
        · split at h
          · simp at h
          · rename_i hk
            simp only [Except.ok.injEq] at h
            subst h
            refine ⟨hv, hm', hcs.1, hcs.2, fun _ k hek => ?_⟩
            exact hk k hek
        · simp only [Except.ok.injEq] at h
          subst h
          exact ⟨hv, hm', hcs.1, hcs.2, fun hf => by simp at hf⟩
        · simp at h

/-! ## `Context.clone` at the level of Go's heap

  The executable model has value semantics. What `clone` must guarantee in Go is about aliasing: Create
  Term Definition writes (`m[term] = definition`, `delete(m, term)`) through the `TermDefinitions` map of
  the context it is given. This micro-model has map objects in a heap addressed by number; a context
  refers to its map by address. `cloneH` is `clone` as coded: a fresh map object, entries copied.
  `shallowH` is the clone a seeded defect would produce (`TermDefinitions: c.TermDefinitions`). -/

abbrev Heap := List TermMap

inductive Write where
  | set (k : Str) (d : TermDef)
  | del (k : Str)

def Heap.write (h : Heap) (ref : Nat) : Write → Heap
  | .set k d => h.modify ref (mset k d)
  | .del k => h.modify ref (mdel k)

/-- `cClone.TermDefinitions = map{}; for k, v := range c.TermDefinitions { cClone.TermDefinitions[k] = v }` -/
def cloneH (h : Heap) (ref : Nat) : Heap × Nat := (h ++ [h.getD ref []], h.length)

def shallowH (h : Heap) (ref : Nat) : Heap × Nat := (h, ref)

theorem write_other (h : Heap) (ref ref' : Nat) (w : Write) (hne : ref ≠ ref') :
    (h.write ref w).getD ref' [] = h.getD ref' [] := by
  cases w <;> simp [Heap.write, List.getD, hne]

theorem write_length (h : Heap) (ref : Nat) (w : Write) : (h.write ref w).length = h.length := by
  cases w <;> simp [Heap.write]

theorem writes_other (ref ref' : Nat) (hne : ref ≠ ref') : ∀ (ws : List Write) (h : Heap),
    (ws.foldl (fun h w => h.write ref w) h).getD ref' [] = h.getD ref' []
  | [], _ => rfl
  | w :: ws, h => by
    simp only [List.foldl_cons]
    rw [writes_other ref ref' hne ws, write_other h ref ref' w hne]

/-- any sequence of writes through the clone's map leaves the original's map as it was -/
theorem cloneH_independent (h : Heap) (ref : Nat) (hr : ref < h.length) (ws : List Write) :
    (ws.foldl (fun hp w => hp.write (cloneH h ref).2 w) (cloneH h ref).1).getD ref [] = h.getD ref [] := by
  have hne : (cloneH h ref).2 ≠ ref := by simp [cloneH]; omega
  rw [writes_other _ _ hne]
  simp [cloneH, List.getD, List.getElem?_append_left hr]

/-- a clone which shares the map does not have the property -/
theorem shallowH_not_independent :
    ∃ (h : Heap) (ref : Nat) (ws : List Write), ref < h.length ∧
      (ws.foldl (fun hp w => hp.write (shallowH h ref).2 w) (shallowH h ref).1).getD ref [] ≠ h.getD ref [] :=
  ⟨[[]], 0, [.set [0x61] default], by decide, by simp [shallowH, Heap.write, mset, List.getD]⟩

/-- the clone starts with the entries of the original -/
theorem cloneH_copies (h : Heap) (ref : Nat) : (cloneH h ref).1.getD (cloneH h ref).2 [] = h.getD ref [] := by
  simp [cloneH, List.getD]

end RdfModel.JLC
