// Command c04: harness of property C04 (output is exactly RDFC-1.0 canonical N-Quads). See cmd/canonlib.
package main

import "verifharness/cmd/canonlib"

func main() { canonlib.Main("C04") }
