package main

// RDFa, Microdata, HTML-embedded JSON-LD and the combined HTML decoder: token spans from the HTML
// tokenizer of golang.org/x/net/html run over the original bytes (the same tokenizer inspecthtml runs),
// attribute spans from scanAttrs (a port of that tokenizer's attribute rules), and the range checks
// described in the header of whole.go.

import (
	"bytes"
	"fmt"
	"sort"
	"strings"

	"golang.org/x/net/html"

	"github.com/dpb587/rdfkit-go/rdf"
)

var htmlVoid = map[string]bool{"area": true, "base": true, "br": true, "col": true, "embed": true, "hr": true, "img": true, "input": true, "link": true, "meta": true, "param": true, "source": true, "track": true, "wbr": true}

// htmlScan: tokens of an HTML document with their byte spans.
func htmlScan(doc []byte) []mTok {
	z := html.NewTokenizer(bytes.NewReader(doc))
	z.SetMaxBuf(0)
	var toks []mTok
	pos := 0
	for {
		tt := z.Next()
		raw := z.Raw()
		s, e := pos, pos+len(raw)
		pos = e
		if tt == html.ErrorToken {
			if len(raw) > 0 {
				toks = append(toks, mTok{kind: 'X', s: s, e: e})
			}
			if pos < len(doc) {
				toks = append(toks, mTok{kind: 'X', s: pos, e: len(doc)})
			}
			return toks
		}
		switch tt {
		case html.StartTagToken, html.SelfClosingTagToken:
			t := mTok{kind: 'S', s: s, e: e, selfCl: tt == html.SelfClosingTagToken}
			// name: from s+1 to the first layout / `/` / `>`
			k := s + 1
			for k < e && !strings.ContainsRune(" \n\r\t\f/>", rune(doc[k])) {
				k++
			}
			t.ns, t.ne = s+1, k
			t.name = strings.ToLower(string(doc[t.ns:t.ne]))
			gt := e - 1
			if e-s >= 1 && doc[e-1] != '>' {
				gt = e
			}
			t.attrs = scanAttrs(doc, k, gt, true)
			for i := range t.attrs {
				t.attrs[i].key = strings.ToLower(t.attrs[i].key)
			}
			toks = append(toks, t)
		case html.EndTagToken:
			t := mTok{kind: 'E', s: s, e: e}
			k := s + 2
			for k < e && !strings.ContainsRune(" \n\r\t\f/>", rune(doc[k])) {
				k++
			}
			t.ns, t.ne = s+2, k
			t.name = strings.ToLower(string(doc[min(t.ns, e):k]))
			toks = append(toks, t)
		case html.TextToken:
			toks = append(toks, mTok{kind: 'T', s: s, e: e, text: z.Token().Data})
		case html.CommentToken:
			toks = append(toks, mTok{kind: 'C', s: s, e: e})
		default:
			toks = append(toks, mTok{kind: '!', s: s, e: e})
		}
	}
}

// htmlAttrValue: decoded value of an attribute as the tokenizer gives it (references in attribute
// values follow their own rules: the tokenizer itself is asked).
func htmlAttrValue(a *mAttr) string {
	w := "\"" + a.raw + "\""
	if !a.quoted {
		w = a.raw
	} else if strings.Contains(a.raw, "\"") {
		w = "'" + a.raw + "'"
	}
	z := html.NewTokenizer(strings.NewReader("<a x=" + w + " >"))
	if tt := z.Next(); tt == html.StartTagToken || tt == html.SelfClosingTagToken {
		for {
			k, v, more := z.TagAttr()
			if string(k) == "x" {
				return string(v)
			}
			if !more {
				break
			}
		}
	}
	v := strings.ReplaceAll(strings.ReplaceAll(a.raw, "\r\n", "\n"), "\r", "\n")
	return html.UnescapeString(v)
}

// htmlContentText: text of the tokens toks[from:to]; balanced = every start tag in it (void elements
// and self-closing tags aside) is closed in it by a matching end tag, in order.
func htmlContentText(toks []mTok, from, to int) (text string, balanced bool) {
	var sb strings.Builder
	var stack []string
	balanced = true
	for _, t := range toks[from:to] {
		switch t.kind {
		case 'T':
			sb.WriteString(t.text)
		case 'S':
			if !htmlVoid[t.name] && !t.selfCl {
				stack = append(stack, t.name)
			}
		case 'E':
			if len(stack) > 0 && stack[len(stack)-1] == t.name {
				stack = stack[:len(stack)-1]
			} else {
				balanced = false
			}
		case 'X':
			balanced = false
		}
	}
	return sb.String(), balanced && len(stack) == 0
}

// inScript: [fb,ub) lies inside the text token that follows a <script> start tag.
func inScript(toks []mTok, fb, ub int) bool {
	k := tokAt(toks, fb)
	return k > 0 && toks[k].kind == 'T' && ub <= toks[k].e && toks[k-1].kind == 'S' && toks[k-1].name == "script"
}

// curieRefOK: may the written name `f` (term, CURIE, safe CURIE or IRI) stand for `iri`?
func curieRefOK(iri, f string) bool {
	f = strings.TrimSpace(f)
	if f == "" || iri == f || iriRefOK(iri, f) {
		return true
	}
	if len(f) >= 2 && f[0] == '[' && f[len(f)-1] == ']' {
		f = f[1 : len(f)-1]
	}
	if f == "" || iri == f {
		return true
	}
	if iriRefOK(iri, f) {
		return true
	}
	ref := f
	if k := strings.IndexByte(f, ':'); k >= 0 {
		ref = f[k+1:]
	}
	return strings.HasSuffix(skeleton(iri), skeleton(ref))
}

func anyField(iri, value string) bool {
	if strings.Contains(iri, "[") {
		return true // the decoder's internal `[…]` wrapping of rel/rev values leaked (a namespace with layout in it): not a position matter
	}
	for _, f := range strings.Fields(value) {
		if curieRefOK(iri, f) {
			return true
		}
	}
	return false
}

var (
	rdfaResourceAttrs  = map[string]bool{"about": true, "resource": true, "href": true, "src": true}
	rdfaPredicateAttrs = map[string]bool{"property": true, "rel": true, "rev": true}
	rdfaLiteralAttrs   = map[string]bool{"content": true, "datetime": true}
	mdResourceAttrs    = map[string]bool{"itemid": true, "src": true, "href": true, "data": true}
	mdLiteralAttrs     = map[string]bool{"content": true, "value": true, "datetime": true}
)

// typedCanon: a literal whose lexical form the decoder derives (xsd date/time/duration/number mapping).
func typedCanon(l rdf.Literal) bool {
	dt := string(l.Datatype)
	return strings.HasPrefix(dt, xsdNS) && dt != xsdNS+"string"
}

func htmlSlice(sc sliceCtx) (sub, msg string) {
	toks := scanDoc(sc.doc, true)
	fb, ub := int(sc.fb), int(sc.ub)
	f := sc.c.format
	if f == "htmljsonld" || (f == "html" && inScript(toks, fb, ub)) {
		if !inScript(toks, fb, ub) {
			return "jsonld-outside-script", "range of an embedded JSON-LD statement does not lie in the text of a script element"
		}
		return jsonldSlice(sc, f == "html")
	}
	rdfa, md := f == "rdfa" || f == "html", f == "microdata" || f == "html"
	_, wantC := sc.term.(rdf.Literal)
	loc := locate(toks, fb, ub, true, wantC)
	if loc.kind == "" {
		if loc.tag != nil {
			for _, a := range loc.tag.attrs {
				if fb == a.vs && !a.quoted && a.ve > a.vs && ub != a.ve {
					return "html-unquoted-value-range", fmt.Sprintf("range of the unquoted value of %s is %q, the value is %q", a.key, sc.slice, a.raw)
				}
			}
		}
		return "html-boundary", "range is " + loc.why
	}
	iri, isIRI := termIRI(sc.term)
	lit, isLit := sc.term.(rdf.Literal)
	label, isLabelled := labelOf(sc.res, sc.term)
	anon := isAnon(sc.res, sc.term)
	_, isBlank := sc.term.(rdf.BlankNode)
	unknownB := isBlank && !labelsKnown(f) // labelled or generated: cannot tell
	p := predIRI(sc.res, sc.i)
	key := ""
	val := ""
	if loc.attr != nil {
		key = loc.attr.key
		val = htmlAttrValue(loc.attr)
	}
	// a resource (IRI / blank node) in subject or object position
	resource := func() (string, string) {
		switch loc.kind {
		case "attrvalue":
			switch {
			case (rdfa && rdfaResourceAttrs[key]) || (md && mdResourceAttrs[key]):
				if unknownB {
					if w := strings.Trim(strings.TrimSpace(val), "[]"); strings.HasPrefix(w, "_:") {
						return "", ""
					}
					return "html-bnode-range", fmt.Sprintf("blank node carries the range of %s=%s", key, quoteClip(val))
				}
				if anon {
					// RDFa `_:` (the one special blank node) is generated
					if strings.Trim(strings.TrimSpace(val), "[]") == "_:" {
						return "", ""
					}
					return "html-anon-range", fmt.Sprintf("generated blank node carries the range of %s=%s", key, quoteClip(val))
				}
				if isLabelled {
					w := strings.TrimSpace(val)
					if len(w) >= 2 && w[0] == '[' && w[len(w)-1] == ']' {
						w = w[1 : len(w)-1]
					}
					if strings.TrimSpace(w) != "_:"+strings.TrimSpace(label) {
						return "content-mismatch", fmt.Sprintf("%s=%s, term is blank node %q", key, quoteClip(val), label)
					}
					return "", ""
				}
				if !curieRefOK(iri, val) {
					return "content-mismatch", fmt.Sprintf("%s=%s does not relate to %s", key, quoteClip(val), iri)
				}
				return "", ""
			case rdfa && (key == "rel" || key == "rev") && (anon || unknownB):
				return "", "" // blank node of a hanging rel/rev
			case (rdfa && key == "typeof") || (md && key == "itemtype"):
				if sc.slot == 2 && p == rdfType && isIRI {
					if !anyField(iri, val) {
						return "content-mismatch", fmt.Sprintf("%s=%s names no type relating to %s", key, quoteClip(val), iri)
					}
					return "", ""
				}
			}
			return "html-attr-role", fmt.Sprintf("value of attribute %s as the %s range of %v", key, slotName[sc.slot], sc.term)
		case "element", "starttag":
			if !anon && !unknownB {
				return "html-element-range", fmt.Sprintf("%s range on a term that is not a generated blank node (%v)", loc.kind, sc.term)
			}
			has := false
			for _, a := range loc.tag.attrs {
				if (rdfa && a.key == "typeof") || (md && a.key == "itemscope") {
					has = true
				}
			}
			if !has {
				return "html-element-range", fmt.Sprintf("<%s> element range without typeof / itemscope", loc.tag.name)
			}
			return "", ""
		}
		return "html-resource-kind", fmt.Sprintf("%s range for %v", loc.kind, sc.term)
	}

	switch sc.slot {
	case 0:
		return resource()
	case 1:
		switch loc.kind {
		case "attrname":
			if p == rdfType && ((rdfa && key == "typeof") || (md && key == "itemtype")) {
				return "", ""
			}
			return "html-attr-role", fmt.Sprintf("attribute name %s as the predicate range of %s", key, p)
		case "attrvalue":
			if (rdfa && rdfaPredicateAttrs[key]) || (md && key == "itemprop") {
				if !anyField(p, val) {
					return "content-mismatch", fmt.Sprintf("%s=%s names nothing relating to %s", key, quoteClip(val), p)
				}
				return "", ""
			}
			return "html-attr-role", fmt.Sprintf("value of attribute %s as a predicate range", key)
		}
		return "html-predicate-kind", fmt.Sprintf("predicate range is a %s", loc.kind)
	case 2:
		if !isLit {
			return resource()
		}
		switch loc.kind {
		case "attrvalue":
			if !((rdfa && rdfaLiteralAttrs[key]) || (md && mdLiteralAttrs[key])) {
				return "html-attr-role", fmt.Sprintf("value of attribute %s as a literal range", key)
			}
			// datetime / meter values are mapped to typed literals in canonical form
			if val != lit.LexicalForm && !(typedCanon(lit) && (key == "datetime" || key == "value")) {
				return "content-mismatch", fmt.Sprintf("%s=%s, lexical form is %s", key, quoteClip(val), quoteClip(lit.LexicalForm))
			}
			return "", ""
		case "content":
			dt := string(lit.Datatype)
			if dt == rdfXMLLit || dt == rdfHTMLLit || (typedCanon(lit) && loc.tag.name == "time") {
				return "", ""
			}
			text, bal := htmlContentText(toks, loc.fromTok, loc.endTok)
			// html / head / body start tags may be merged into elements the tree builder already made
			if n := loc.tag.name; n == "html" || n == "head" || n == "body" {
				return "", ""
			}
			if bal && htmlBalanced(toks) && text != lit.LexicalForm {
				return "content-mismatch", fmt.Sprintf("content text is %s, lexical form is %s", quoteClip(text), quoteClip(lit.LexicalForm))
			}
			return "", ""
		}
		return "html-literal-kind", fmt.Sprintf("literal range is a %s", loc.kind)
	}
	return "html-graph", "graph range outside a script element"
}

func htmlMissing(c cfg, res *result, i, slot int) string {
	doc := docOf(res)
	q := res.stmts[i].quad
	p := predIRI(res, i)
	has := func(s string) bool { return doc == nil || bytes.Contains(bytes.ToLower(doc), []byte(s)) }
	// statements of an embedded JSON-LD document carry JSON-LD ranges; a statement with no range at all
	// cannot be attributed, so the JSON-LD rules apply when every present range … is unknown here:
	// attribute by the presence of a script element
	if c.format == "htmljsonld" {
		return jsonldMissing(c, res, i, slot, doc)
	}
	rdfa, md := c.format == "rdfa" || c.format == "html", c.format == "microdata" || c.format == "html"
	if c.format == "html" && slot == 3 {
		return jsonldMissing(c, res, i, slot, doc)
	}
	if c.format == "html" && q.GraphName != nil {
		return jsonldMissing(c, res, i, slot, doc)
	}
	jsonldToo := c.format == "html" && has("ld+json")
	if rdfa && has("copy") {
		return "" // rdfa:copy: copied statements carry no range
	}
	switch slot {
	case 0:
		if isAnon(res, q.Triple.Subject) {
			return ""
		}
		if _, isB := labelOf(res, q.Triple.Subject); isB {
			return "html-subject-bnode: a labelled blank node subject is read from an attribute"
		}
		s, _ := termIRI(q.Triple.Subject)
		if rdfa {
			// the document itself (root element, head/body), possibly through <base href> / xml:base
			if iriRefOK(s, strings.SplitN(c.base, "#", 2)[0]) || has("<base") || has("xml:base") || has("copy") {
				return ""
			}
		}
		if jsonldToo {
			return ""
		}
		return "html-subject-iri: an IRI subject other than the document is read from an attribute"
	case 1:
		if rdfa && (p == rdfFirst || p == rdfRest || p == rdfaNS+"usesVocabulary" || has("inlist") || has("copy")) {
			return ""
		}
		if jsonldToo {
			return ""
		}
		return "html-predicate: a predicate is read from property / rel / rev / typeof / itemprop / itemtype"
	case 2:
		if isAnon(res, q.Triple.Object) {
			return ""
		}
		if o, ok := termIRI(q.Triple.Object); ok {
			if rdfa && (o == rdfNil || p == rdfaNS+"usesVocabulary" || p == rdfFirst || has("copy")) {
				return ""
			}
			if rdfa && (iriRefOK(o, strings.SplitN(c.base, "#", 2)[0]) || has("<base") || has("xml:base")) {
				return ""
			}
			if o == strings.SplitN(c.base, "#", 2)[0] {
				return "" // an empty (or valueless) href/src/data attribute resolves to the document: no value text to point at
			}
			if jsonldToo {
				return ""
			}
			return "html-object-iri: an IRI object is read from an attribute"
		}
		if l, ok := q.Triple.Object.(rdf.Literal); ok {
			if strings.TrimSpace(l.LexicalForm) == "" {
				return "" // empty content, or the layout-only content of an element whose end is not known
			}
			if rdfa && (p == rdfFirst || has("copy")) {
				return ""
			}
			if dt := string(l.Datatype); dt == rdfXMLLit || dt == rdfHTMLLit {
				return ""
			}
			if has("/>") || (doc != nil && !htmlBalanced(scanDoc(doc, true))) {
				return "" // XHTML-style `<span … />` / unclosed elements: no end known to the HTML parser
			}
			if jsonldToo {
				return ""
			}
			_ = md
			return "html-object-literal: a non-empty literal is read from an attribute or element content"
		}
		if rdfa && (p == rdfFirst || has("copy")) {
			return ""
		}
		return "html-object-bnode: a labelled blank node object is read from an attribute"
	}
	return ""
}

// wholeDocTraits: properties of a document of the HTML family (and RDF/XML) that are known root causes
// of position errors in the third-party tokenizer wrappers; comma-separated, "" when none. Offered to
// common.go as a sub-key for the generic classes (range-linecol, range-outside, capture-changes-*).
//
//	unquoted-attr   a start tag has an unquoted attribute value followed by more than `>` (inspecthtml
//	                measures it one byte short or across the next attribute: H4)
//	unquoted-slash-end  the last attribute value of a tag is unquoted and ends in `/` (inspecthtml takes
//	                the `/>` for a self-closing marker and drops the `/` from the value: H8)
//	attr-slash      a start tag has `/` directly before an attribute name or inside one (H3)
//	script-cr       a script element's text contains a carriage return or a NUL (x/net/html rewrites them
//	                — CR LF and CR to LF, NUL to U+FFFD — before the embedded JSON-LD decoder counts
//	                positions: H1)
//	dup-attr        a body / html start tag repeats an attribute name (the tree builder merges such tags
//	                into the existing element and skips attributes already present: attribute indexes
//	                no longer match the recorded ones)
//	attr-soup       an attribute name contains a quote, `<` or `=` (tag soup: the regular expressions of
//	                inspecthtml and the tokenizer disagree on where attributes are)
//	attr-nospace    an attribute name follows a quoted value without layout (inspecthtml looks for
//	                `\s+name` and attributes the next attribute's position instead: H7)
//	json-comment    combined decoder (lax JSON): a script's text has a `//` or `/* */` comment outside
//	                strings (inspectjson skips it without counting its bytes: J2)
//	unclosed-formatting  a formatting element (a, b, i, s, …) is not closed where it was opened: the tree
//	                builder reconstructs it as clones that share the original's `o` marker, so their
//	                statements carry the original's ranges (H9)
//	short-comment   a comment token shorter than `<!---->` (bogus comments `<!x>`, `<?x>`, `</1>`, or an
//	                unterminated `<!--` at the end): inspecthtml slices the raw comment [4:len-3] (H2)
//	xml-attr        RDF/XML: an attribute inspectxml cannot locate (single quotes, empty value, layout
//	                around `=`: X2/X5)
func wholeDocTraits(format string, doc []byte) string {
	var tr []string
	add := func(t string) {
		if !containsStr(tr, t) {
			tr = append(tr, t)
		}
	}
	if format == "rdfxml" {
		for _, t := range scanDoc(doc, false) {
			if t.kind != 'S' {
				continue
			}
			for _, a := range t.attrs {
				if a.ve == a.vs || doc[a.vs] != '"' || a.raw == "" || a.vs != a.ke+1 || (a.ks > 0 && !xmlSpace(doc[a.ks-1])) {
					add("xml-attr")
				}
			}
		}
		return strings.Join(tr, ",")
	}
	if !htmlFamily[format] {
		return ""
	}
	toks := scanDoc(doc, true)
	fmtOpen := map[string]int{}
	seenRoot := map[string]bool{}
	for i, t := range toks {
		if htmlFormatting[t.name] {
			if t.kind == 'S' { // `<i …/>` does not close a formatting element in HTML: the slash is ignored
				fmtOpen[t.name]++
			} else if t.kind == 'E' {
				fmtOpen[t.name]--
			}
		}
		switch t.kind {
		case 'S':
			if t.name == "body" || t.name == "html" {
				// a second <html>/<body> start tag is merged into the existing element by the tree builder
				// (attributes already present are skipped): attribute indexes no longer match
				if seenRoot[t.name] && len(t.attrs) > 0 {
					add("dup-attr")
				}
				seenRoot[t.name] = true
			}
			seenKey := map[string]bool{}
			for ai, a := range t.attrs {
				if seenKey[a.key] && (t.name == "body" || t.name == "html") {
					add("dup-attr")
				}
				seenKey[a.key] = true
				if a.ve > a.vs && !a.quoted && !(ai == len(t.attrs)-1 && (a.ve == t.e-1)) {
					add("unquoted-attr")
				}
				if a.ve > a.vs && !a.quoted && a.ve == t.e-1 && strings.HasSuffix(a.raw, "/") {
					add("unquoted-slash-end")
				}
				if strings.ContainsAny(a.key, "\"'<=") {
					add("attr-soup")
				}
				if a.ks > 0 && doc[a.ks-1] == '/' {
					add("attr-slash")
				} else if a.ks > 0 && !strings.ContainsRune(" \n\r\t\f", rune(doc[a.ks-1])) {
					add("attr-nospace")
				}
			}
			if bytes.Contains(doc[t.ne:t.e], []byte("/")) && !t.selfCl {
				for k := t.ne; k < t.e-1; k++ {
					if doc[k] == '/' {
						in := false
						for _, a := range t.attrs {
							if k >= a.vs && k < a.ve {
								in = true
							}
						}
						if !in {
							add("attr-slash")
						}
					}
				}
			}
		case 'T':
			if i > 0 && toks[i-1].kind == 'S' && toks[i-1].name == "script" {
				if bytes.IndexByte(doc[t.s:t.e], '\r') >= 0 || bytes.IndexByte(doc[t.s:t.e], 0) >= 0 {
					add("script-cr")
				}
				if format == "html" && jsonHasComment(string(doc[t.s:t.e])) {
					add("json-comment")
				}
			}
		case 'C', 'X':
			if t.kind == 'C' && t.e-t.s < 7 {
				add("short-comment")
			}
			if t.e == len(doc) && !bytes.HasSuffix(doc[t.s:t.e], []byte("-->")) && (bytes.HasPrefix(doc[t.s:t.e], []byte("<!")) || bytes.HasPrefix(doc[t.s:t.e], []byte("<?"))) {
				add("short-comment")
			}
		}
	}
	for _, n := range fmtOpen {
		if n != 0 {
			add("unclosed-formatting")
		}
	}
	sort.Strings(tr)
	return strings.Join(tr, ",")
}

var htmlFormatting = map[string]bool{"a": true, "b": true, "big": true, "code": true, "em": true, "font": true, "i": true, "nobr": true, "s": true, "small": true, "strike": true, "strong": true, "tt": true, "u": true}

// htmlBalanced: every start tag of the document (void and self-closing ones aside) is closed by a
// matching end tag, in order: the tree builder then has no reason to move or clone anything.
func htmlBalanced(toks []mTok) bool {
	_, b := htmlContentText(toks, 0, len(toks))
	return b
}

func jsonHasComment(s string) bool {
	for i := 0; i < len(s); i++ {
		switch s[i] {
		case '"':
			e := jsonStringEnd(s, i)
			if e < 0 {
				return false
			}
			i = e - 1
		case '/':
			if i+1 < len(s) && (s[i+1] == '/' || s[i+1] == '*') {
				return true
			}
		}
	}
	return false
}
