package main

// T2 for property C18: the contents of the I/O registry the `rdfkit` command uses (`rdfio.Registry`),
// obtained by calling the real registry at extract time, plus two constants read from the source of
// cmd/rdfkit/pipecmd with go/ast (the fallback types). Output: RdfModel/Gen/RegistryFacts.lean.
//
//   registry        aliases / media types / file extensions (sorted by key) and the key sets of
//                   DecoderManagers / EncoderManagers
//   decoderKinds    per decoder: what DecoderHandle.GetQuadsDecoder() does (wraps in TripleAsQuadDecoder?) and
//                   whether PropagateDecoderPipeBlankNodeStringProvider(handle) yields a provider
//   encoderKinds    per encoder: what EncoderHandle.GetQuadsEncoder() does (wraps in QuadAsTripleEncoder?)
//   encoderParams   per encoder: the parameter names it accepts (--out-param)
//   metadata        per codec: file extension and media type of its own GetContentMetadata()
//   magicProbes     answers of every MagicBytesResolver, in registry order, on a fixed set of probe documents
//   pipeFallbacks   DecoderFallbackType / EncoderFallbackType of pipecmd
//
// Anything the extractor cannot determine is emitted as the string "unknown" in place of a type
// identifier, which makes the consuming `decide` theorems fail.

import (
	"bytes"
	"fmt"
	"go/ast"
	"go/parser"
	"go/token"
	"io"
	"os"
	"path/filepath"
	"sort"
	"strings"

	"github.com/dpb587/rdfkit-go/encoding"
	"github.com/dpb587/rdfkit-go/encoding/encodingutil"
	"github.com/dpb587/rdfkit-go/rdf"
	"github.com/dpb587/rdfkit-go/rdfio"
	"github.com/dpb587/rdfkit-go/rdfio/rdfiotypes"
)

func init() { generators["c18"] = genC18 }

type c18Reader struct{ r io.Reader }

func (c18Reader) GetIRI() rdf.IRI              { return "file:///probe" }
func (c18Reader) GetFileName() (string, bool)  { return "", false }
func (c c18Reader) Read(p []byte) (int, error) { return c.r.Read(p) }
func (c18Reader) Close() error                 { return nil }
func (c18Reader) GetMediaType() (encoding.ContentMediaType, bool) {
	return encoding.ContentMediaType{}, false
}
func (c18Reader) GetMagicBytes() ([]byte, bool) { return nil, false }
func (c18Reader) AddTee(w io.Writer)            {}

type c18Writer struct{ bytes.Buffer }

func (*c18Writer) GetIRI() rdf.IRI             { return "file:///probe" }
func (*c18Writer) GetFileName() (string, bool) { return "", false }
func (*c18Writer) Close() error                { return nil }

func c18Str(s string) string {
	var sb strings.Builder
	sb.WriteString("[")
	for i, b := range []byte(s) {
		if i > 0 {
			sb.WriteString(", ")
		}
		fmt.Fprintf(&sb, "%d", b)
	}
	sb.WriteString("]")
	return sb.String()
}

func c18CommentSafe(s string) string {
	s = strings.ReplaceAll(s, "-/", "- /")
	s = strings.ReplaceAll(s, "/-", "/ -")
	return strings.ReplaceAll(s, "\n", " ")
}

func c18Map(m map[string]encoding.ContentTypeIdentifier) string {
	keys := make([]string, 0, len(m))
	for k := range m {
		keys = append(keys, k)
	}
	sort.Strings(keys)
	var sb strings.Builder
	sb.WriteString("[\n")
	for i, k := range keys {
		sep := ","
		if i == len(keys)-1 {
			sep = ""
		}
		fmt.Fprintf(&sb, "    (%s, %s)%s  -- %s ↦ %s\n", c18Str(k), c18Str(string(m[k])), sep, c18CommentSafe(k), c18CommentSafe(string(m[k])))
	}
	sb.WriteString("  ]")
	return sb.String()
}

// c18Probes: small documents of every format plus near misses, for the magic-byte resolvers.
var c18Probes = []struct{ name, format, doc string }{
	{"nt", "org.w3.n-triples", "<http://e/a> <http://e/p> \"x\" .\n"},
	{"nq", "org.w3.n-quads", "<http://e/a> <http://e/p> \"x\" <http://e/g> .\n"},
	{"ttl", "org.w3.turtle", "@prefix ex: <http://e/> .\nex:a ex:p \"x\" .\n"},
	{"trig", "org.w3.trig", "@prefix ex: <http://e/> .\nex:g { ex:a ex:p \"x\" . }\n"},
	{"rdfjson", "org.w3.rdf-json", "{\"http://e/a\":{\"http://e/p\":[{\"type\":\"literal\",\"value\":\"x\"}]}}\n"},
	{"rdfjson-ws", "org.w3.rdf-json", " {\n \"http://e/a\" : {\n  \"http://e/p\" : [ {\n \"value\" : \"x\", \"type\" : \"literal\" } ] } }\n"},
	{"jsonld-object", "org.json-ld.document", "{\"@id\":\"http://e/a\",\"http://e/p\":\"x\"}\n"},
	{"jsonld-array", "org.json-ld.document", "[{\"@id\":\"http://e/a\",\"http://e/p\":[{\"@value\":\"x\"}]}]\n"},
	{"rdfxml-decl", "org.w3.rdf-xml", "<?xml version=\"1.0\"?>\n<rdf:RDF xmlns:rdf=\"http://www.w3.org/1999/02/22-rdf-syntax-ns#\" xmlns:ex=\"http://e/\"><rdf:Description rdf:about=\"http://e/a\"><ex:p>x</ex:p></rdf:Description></rdf:RDF>\n"},
	{"rdfxml-nodecl", "org.w3.rdf-xml", "<rdf:RDF xmlns:rdf=\"http://www.w3.org/1999/02/22-rdf-syntax-ns#\" xmlns:ex=\"http://e/\"><rdf:Description rdf:about=\"http://e/a\"><ex:p>x</ex:p></rdf:Description></rdf:RDF>\n"},
	{"html-doctype", "public.html", "<!DOCTYPE html>\n<html><head><title>t</title></head><body vocab=\"http://e/\"><p about=\"http://e/a\" property=\"p\">x</p></body></html>\n"},
	{"html-fragment-vocab", "public.html", "<div vocab=\"http://e/\" resource=\"http://e/a\"><span property=\"p\">x</span></div>\n"},
	{"html-fragment-itemscope", "public.html", "<div itemscope itemid=\"http://e/a\"><span itemprop=\"http://e/p\">x</span></div>\n"},
	{"html-fragment-jsonld", "public.html", "<script type=\"application/ld+json\">{\"@id\":\"http://e/a\",\"http://e/p\":\"x\"}</script>\n"},
	{"xhtml-decl", "public.html", "<?xml version=\"1.0\"?>\n<html xmlns=\"http://www.w3.org/1999/xhtml\"><body vocab=\"http://e/\"><p about=\"http://e/a\" property=\"p\">x</p></body></html>\n"},
	{"empty-object", "org.json-ld.document", "{}\n"},
	{"text", "", "hello\n"},
}

func c18Fallbacks(repo string, known map[string]string) (dec, enc string) {
	dec, enc = "unknown", "unknown"
	fset := token.NewFileSet()
	f, err := parser.ParseFile(fset, filepath.Join(repo, "cmd", "rdfkit", "pipecmd", "command.go"), nil, 0)
	if err != nil {
		return
	}
	nDec, nEnc := 0, 0
	ast.Inspect(f, func(n ast.Node) bool {
		kv, ok := n.(*ast.KeyValueExpr)
		if !ok {
			return true
		}
		key, ok := kv.Key.(*ast.Ident)
		if !ok {
			return true
		}
		val := "unknown"
		if sel, ok := kv.Value.(*ast.SelectorExpr); ok {
			if x, ok := sel.X.(*ast.Ident); ok {
				if v, ok := known[x.Name+"."+sel.Sel.Name]; ok {
					val = v
				}
			}
		}
		switch key.Name {
		case "DecoderFallbackType":
			dec = val
			nDec++
		case "EncoderFallbackType":
			enc = val
			nEnc++
		}
		return true
	})
	if nDec != 1 {
		dec = "unknown"
	}
	if nEnc != 1 {
		enc = "unknown"
	}
	return
}

func genC18(leanRoot string) {
	repo := os.Getenv("VERIF_REPO")
	if repo == "" {
		repo = "/repo"
	}
	reg := rdfio.Registry
	var sb strings.Builder
	sb.WriteString("-- GENERATED by /verif/go/cmd/extract (gen_c18.go) from rdfio.Registry of /repo, evaluated at extract time (T2). Do not edit.\n")
	sb.WriteString("import RdfModel.Model.Pipe\nnamespace RdfModel.Gen.RegistryFacts\nopen RdfModel RdfModel.Pipe\n\n")

	ctis := func(keys []string) string {
		sort.Strings(keys)
		parts := make([]string, len(keys))
		for i, k := range keys {
			parts[i] = "\n    " + c18Str(k) + func() string {
				if i < len(keys)-1 {
					return ","
				}
				return ""
			}() + "  -- " + c18CommentSafe(k)
		}
		return "[" + strings.Join(parts, "") + "\n  ]"
	}
	var decKeys, encKeys []string
	for k := range reg.DecoderManagers {
		decKeys = append(decKeys, string(k))
	}
	for k := range reg.EncoderManagers {
		encKeys = append(encKeys, string(k))
	}
	fmt.Fprintf(&sb, "def registry : Registry where\n  aliases := %s\n  mediaTypes := %s\n  fileExts := %s\n  decoders := %s\n  encoders := %s\n\n",
		c18Map(reg.Aliases), c18Map(reg.MediaTypes), c18Map(reg.FileExts), ctis(decKeys), ctis(encKeys))

	// --- decoders: kind, label propagation, own metadata
	type meta struct{ cti, ext, media string }
	var metas []meta
	sb.WriteString("/-- per decoder: (type, kind of `GetQuadsDecoder()`, `PropagateDecoderPipeBlankNodeStringProvider` returns a provider) -/\n")
	sb.WriteString("def decoderKinds : List (Cti × Kind × Bool) := [\n")
	for i, k := range decKeys {
		kind, prop := "none", "false"
		func() {
			defer func() { recover() }()
			h, err := reg.DecoderManagers[encoding.ContentTypeIdentifier(k)].NewDecoder(c18Reader{strings.NewReader("")}, rdfiotypes.DecoderOptions{})
			if err != nil || h == nil {
				return
			}
			if _, wrapped := h.GetQuadsDecoder().(encodingutil.TripleAsQuadDecoder); wrapped {
				kind = "some .triples"
			} else {
				kind = "some .quads"
			}
			if rdfiotypes.PropagateDecoderPipeBlankNodeStringProvider(h) != nil {
				prop = "true"
			}
			if m, ok := h.Decoder.(interface {
				GetContentMetadata() encoding.ContentMetadata
			}); ok {
				cm := m.GetContentMetadata()
				metas = append(metas, meta{k, cm.FileExt, cm.MediaType.Type + "/" + cm.MediaType.Subtype})
			}
		}()
		if kind == "none" {
			continue // listed in `registry.decoders` but absent here: `kinds_complete` fails
		}
		sep := ","
		if i == len(decKeys)-1 {
			sep = ""
		}
		fmt.Fprintf(&sb, "    (%s, %s, %s)%s  -- %s\n", c18Str(k), strings.TrimPrefix(kind, "some "), prop, sep, c18CommentSafe(k))
	}
	sb.WriteString("  ]\n\n")

	// --- encoders: kind, params, own metadata
	sb.WriteString("/-- per encoder: (type, kind of `GetQuadsEncoder()`, accepted parameter names) -/\n")
	sb.WriteString("def encoderKinds : List (Cti × Kind × List Str) := [\n")
	for i, k := range encKeys {
		kind := ""
		var params []string
		func() {
			defer func() { recover() }()
			mgr := reg.EncoderManagers[encoding.ContentTypeIdentifier(k)]
			if p := mgr.NewEncoderParams(); p != nil {
				for name := range p.NewParamsCollection() {
					params = append(params, string(name))
				}
				sort.Strings(params)
			}
			h, err := mgr.NewEncoder(&c18Writer{}, rdfiotypes.EncoderOptions{})
			if err != nil || h == nil {
				return
			}
			if _, wrapped := h.GetQuadsEncoder().(encodingutil.QuadAsTripleEncoder); wrapped {
				kind = ".triples"
			} else {
				kind = ".quads"
			}
			if m, ok := h.Encoder.(interface {
				GetContentMetadata() encoding.ContentMetadata
			}); ok {
				cm := m.GetContentMetadata()
				metas = append(metas, meta{k, cm.FileExt, cm.MediaType.Type + "/" + cm.MediaType.Subtype})
			}
		}()
		if kind == "" {
			continue // listed in `registry.encoders` but absent here: `encoderKinds_complete` fails
		}
		ps := make([]string, len(params))
		for j, p := range params {
			ps[j] = c18Str(p)
		}
		sep := ","
		if i == len(encKeys)-1 {
			sep = ""
		}
		fmt.Fprintf(&sb, "    (%s, %s, [%s])%s  -- %s: %s\n", c18Str(k), kind, strings.Join(ps, ", "), sep, c18CommentSafe(k), c18CommentSafe(strings.Join(params, " ")))
	}
	sb.WriteString("  ]\n\n")

	// --- metadata (deduplicated)
	sort.Slice(metas, func(i, j int) bool {
		return metas[i].cti+metas[i].ext+metas[i].media < metas[j].cti+metas[j].ext+metas[j].media
	})
	sb.WriteString("/-- (type, file extension, media type) each codec reports about itself (`GetContentMetadata()`) -/\n")
	sb.WriteString("def metadata : List (Cti × Str × Str) := [\n")
	var lines []string
	for i, m := range metas {
		if i > 0 && metas[i-1] == m {
			continue
		}
		lines = append(lines, fmt.Sprintf("    (%s, %s, %s)", c18Str(m.cti), c18Str(m.ext), c18Str(m.media))+"§  -- "+c18CommentSafe(m.cti+" "+m.ext+" "+m.media))
	}
	for i, l := range lines {
		sep := ","
		if i == len(lines)-1 {
			sep = ""
		}
		sb.WriteString(strings.Replace(l, "§", sep, 1) + "\n")
	}
	sb.WriteString("  ]\n\n")

	// --- magic probes
	fmt.Fprintf(&sb, "def magicResolverCount : Nat := %d\n\n", len(reg.MagicBytesResolvers))
	sb.WriteString("/-- (format the probe document is written in — `[]` for none, answers of the resolvers in registry order) -/\n")
	sb.WriteString("def magicProbes : List (Cti × List (Option Cti)) := [\n")
	for i, p := range c18Probes {
		var ans []string
		for _, r := range reg.MagicBytesResolvers {
			if cti, ok := r.ResolveMagicBytes([]byte(p.doc)); ok {
				ans = append(ans, "some "+c18Str(string(cti)))
			} else {
				ans = append(ans, "none")
			}
		}
		sep := ","
		if i == len(c18Probes)-1 {
			sep = ""
		}
		fmt.Fprintf(&sb, "    (%s, [%s])%s  -- %s\n", c18Str(p.format), strings.Join(ans, ", "), sep, p.name)
	}
	sb.WriteString("  ]\n\n")

	// --- pipecmd fallbacks (go/ast)
	known := map[string]string{}
	for _, k := range append(append([]string{}, decKeys...), encKeys...) {
		// package names follow the pattern <codec>content; the identifier values are what the registry is keyed by
		switch k {
		case "org.w3.trig":
			known["trigcontent.TypeIdentifier"] = k
		case "org.w3.n-quads":
			known["nquadscontent.TypeIdentifier"] = k
		case "org.w3.n-triples":
			known["ntriplescontent.TypeIdentifier"] = k
		case "org.w3.turtle":
			known["turtlecontent.TypeIdentifier"] = k
		case "org.w3.rdf-json":
			known["rdfjsoncontent.TypeIdentifier"] = k
		case "org.w3.rdf-xml":
			known["rdfxmlcontent.TypeIdentifier"] = k
		case "org.json-ld.document":
			known["jsonldcontent.TypeIdentifier"] = k
		case "public.html":
			known["htmlcontent.TypeIdentifier"] = k
		}
	}
	dec, enc := c18Fallbacks(repo, known)
	fmt.Fprintf(&sb, "/-- `DecoderFallbackType` of cmd/rdfkit/pipecmd (go/ast) -/\ndef pipeDecoderFallback : Cti := %s  -- %s\n\n", c18Str(dec), dec)
	fmt.Fprintf(&sb, "/-- `EncoderFallbackType` of cmd/rdfkit/pipecmd (go/ast) -/\ndef pipeEncoderFallback : Cti := %s  -- %s\n\n", c18Str(enc), enc)
	sb.WriteString("end RdfModel.Gen.RegistryFacts\n")
	writeIfChanged(filepath.Join(leanRoot, "RdfModel", "Gen", "RegistryFacts.lean"), sb.String())
}
