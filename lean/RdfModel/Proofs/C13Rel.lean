/-
  Helper lemmas for property C13 — BaseIRI.RelativizeIRI (soundness, absence of panics, usefulness).
-/
import RdfModel.Proofs.C13Rfc
namespace RdfModel.Proofs.C13
open RdfModel.Spec.RFC3986Lite RdfModel.Prefix RdfModel.C13

/-! ### what the verification step guarantees -/

theorem relativize_checked (b v r : Str) (h : relativize b v = .some r) :
    [cSlash, cSlash].isPrefixOf r = false ∧
    ((newBaseIRI b).root.isSome → goParseOK r = true ∧ goResolve b r = v) ∧
    candidate (newBaseIRI b) v = .some r := by
  unfold relativize relativizeB at h
  cases hc : candidate (newBaseIRI b) v with
  | panic => rw [hc] at h; cases h
  | none => rw [hc] at h; cases h
  | some rel =>
    rw [hc] at h
    simp only at h
    by_cases h1 : [cSlash, cSlash].isPrefixOf rel = true
    · simp [h1] at h
    · simp only [h1, Bool.false_eq_true, if_false] at h
      by_cases h2 : (newBaseIRI b).root.isSome
      · simp only [h2, if_true] at h
        split at h
        · next hg =>
          cases h
          exact ⟨Bool.eq_false_iff.mpr h1, fun _ => hg, rfl⟩
        · cases h
      · simp only [h2, Bool.false_eq_true, if_false] at h
        cases h
        exact ⟨Bool.eq_false_iff.mpr h1, fun h' => absurd h' h2, rfl⟩

/-! ### facts about the candidate -/

/-- for `v = b` the candidate is the empty reference (or nothing) -/
theorem candidate_self (b : Str) : candidate (newBaseIRI b) b = .some [] ∨ candidate (newBaseIRI b) b = .none := by
  unfold candidate
  have hn : ¬ ((newBaseIRI b).original.length < b.length) := by simp [newBaseIRI]
  simp only [hn, false_and, if_false]
  cases (newBaseIRI b).root with
  | none => right; rfl
  | some rd =>
    obtain ⟨ri, di⟩ := rd
    simp only
    split
    · right; rfl
    · left; simp [newBaseIRI]

/-- the "#…" / "?…" suffix form -/
theorem candidate_rel_base (b v r : Str) (hroot : (newBaseIRI b).root = none)
    (h : candidate (newBaseIRI b) v = .some r) :
    v = b ++ r ∧ (newBaseIRI b).fragmentIndex = none ∧
    ((∃ f, r = cHash :: f) ∨ ((newBaseIRI b).queryIndex = none ∧ ∃ q, r = cQuest :: q)) := by
  unfold candidate at h
  rw [hroot] at h
  simp only at h
  have horig : (newBaseIRI b).original = b := rfl
  rw [horig] at h
  by_cases hc : b.length < v.length ∧ (newBaseIRI b).fragmentIndex = none ∧ b.isPrefixOf v = true
  · simp only [hc, and_self, if_true] at h
    obtain ⟨hlen, hfrag, hpre⟩ := hc
    have hpre' : b <+: v := List.isPrefixOf_iff_prefix.mp hpre
    obtain ⟨t, rfl⟩ := hpre'
    have hdrop : (b ++ t).drop b.length = t := by simp
    have hget : (b ++ t)[b.length]? = t.head? := by
      rw [List.getElem?_append_right (Nat.le_refl _)]; simp [List.head?_eq_getElem?]
    rw [hdrop, hget] at h
    by_cases h1 : t.head? = some cHash
    · simp only [h1, if_true] at h
      cases h
      refine ⟨rfl, hfrag, Or.inl ?_⟩
      cases r with
      | nil => simp at h1
      | cons c r' => simp at h1; exact ⟨r', by rw [h1]⟩
    · simp only [h1, if_false] at h
      by_cases h2 : (newBaseIRI b).queryIndex = none ∧ t.head? = some cQuest
      · simp only [h2, and_self, if_true] at h
        cases h
        refine ⟨rfl, hfrag, Or.inr ⟨h2.1, ?_⟩⟩
        cases r with
        | nil => simp at h2
        | cons c r' => simp at h2; exact ⟨r', by rw [h2.2]⟩
      · simp only [h2, if_false] at h
        cases h
  · simp only [hc, if_false] at h
    cases h

/-! ### relative bases: the suffix form is exact under RFC 3986 -/

theorem mem_of_upTo_ne (stop : Nat → Bool) (s : Str) (h : upTo stop s ≠ s) : ∃ c ∈ s, stop c = true := by
  rcases from_head stop s with h' | ⟨c, r, h', hc⟩
  · exfalso; apply h
    have := upTo_append_from stop s
    rw [h'] at this; simpa using this
  · refine ⟨c, ?_, hc⟩
    have := upTo_append_from stop s
    rw [← this, h']; simp

theorem upTo_eq_self_of_clean (stop : Nat → Bool) (s : Str) (h : ∀ c ∈ s, stop c = false) : upTo stop s = s :=
  (upTo_all stop s h).1

theorem no_hash_of_fragmentIndex (b : Str) (h : (newBaseIRI b).fragmentIndex = none) : ∀ c ∈ b, c ≠ cHash := by
  intro c hc he
  subst he
  simp only [newBaseIRI] at h
  split at h
  · cases h
  · next hne =>
    have heq : upTo (fun c => c == cHash) b = b := by simpa using hne
    have := upTo_clean (fun c => c == cHash) b cHash (by rw [heq]; exact hc)
    simp at this

theorem no_quest_of_queryIndex (b : Str) (hf : (newBaseIRI b).fragmentIndex = none)
    (h : (newBaseIRI b).queryIndex = none) : ∀ c ∈ b, c ≠ cQuest := by
  intro c hc he
  subst he
  have hb : upTo (fun c => c == cHash) b = b :=
    upTo_eq_self_of_clean _ b (by intro c hc; simpa using no_hash_of_fragmentIndex b hf c hc)
  simp only [newBaseIRI] at h
  split at h
  · cases h
  · next hne =>
    have heq : upTo (fun c => c == cQuest) (upTo (fun c => c == cHash) b) = upTo (fun c => c == cHash) b := by
      simpa using hne
    rw [hb] at heq
    have := upTo_clean (fun c => c == cQuest) b cQuest (by rw [heq]; exact hc)
    simp at this

theorem fragment_none_of_no_hash (b : Str) (h : ∀ c ∈ b, c ≠ cHash) : (split b).fragment = none := by
  cases hf : (split b).fragment with
  | none => rfl
  | some x =>
    exfalso
    have := recompose_split b
    have hm : cHash ∈ recompose (split b) := by
      unfold recompose; rw [hf]; simp [fragmentPart]
    rw [this] at hm
    exact h cHash hm rfl

theorem query_none_of_no_quest (b : Str) (h : ∀ c ∈ b, c ≠ cQuest) : (split b).query = none := by
  cases hf : (split b).query with
  | none => rfl
  | some x =>
    exfalso
    have := recompose_split b
    have hm : cQuest ∈ recompose (split b) := by
      unfold recompose; rw [hf]; simp [queryPart]
    rw [this] at hm
    exact h cQuest hm rfl

theorem split_fragment_ref (f : Str) : split (cHash :: f) = ⟨none, none, [], none, some f⟩ := by
  have := split_rel [] [] none (some f) (by simp) (Or.inl rfl) (Or.inr (by simp)) (by simp) (by simp)
  simpa [queryPart, fragmentPart] using this

theorem split_query_ref (q : Str) :
    split (cQuest :: q) = ⟨none, none, [], some (upTo queryStop q), splitFragment (from_ queryStop q)⟩ := by
  have hfr : fragmentPart (splitFragment (from_ queryStop q)) = from_ queryStop q := by
    apply splitFragment_glue
    rcases from_head queryStop q with h | ⟨c, r, h, hc⟩
    · left; exact h
    · right; refine ⟨r, ?_⟩; rw [h]; simp [queryStop] at hc; rw [hc]
  have := split_rel [] [] (some (upTo queryStop q)) (splitFragment (from_ queryStop q)) (by simp) (Or.inl rfl)
    (Or.inr (by simp)) (by simp) (by intro x hx; cases hx; exact upTo_clean queryStop q)
  simp only [List.nil_append, queryPart, List.cons_append, hfr, upTo_append_from] at this
  exact this

/-- RFC 3986: a fragment-only reference appended to a base without fragment -/
theorem resolve_hash_suffix (b f : Str) (hb : ∀ c ∈ b, c ≠ cHash) : resolve b (cHash :: f) = b ++ cHash :: f := by
  unfold resolve
  rw [split_fragment_ref]
  have hfn := fragment_none_of_no_hash b hb
  have hrec := recompose_split b
  unfold recompose at hrec
  rw [hfn] at hrec
  simp only [transform, recompose, fragmentPart, List.append_nil, ↓reduceIte] at hrec ⊢
  rw [hrec]

/-- RFC 3986: a query(+fragment) reference appended to a base without query and fragment -/
theorem resolve_quest_suffix (b q : Str) (hb : ∀ c ∈ b, c ≠ cHash) (hq : ∀ c ∈ b, c ≠ cQuest) :
    resolve b (cQuest :: q) = b ++ cQuest :: q := by
  unfold resolve
  rw [split_query_ref]
  have hfn := fragment_none_of_no_hash b hb
  have hqn := query_none_of_no_quest b hq
  have hrec := recompose_split b
  unfold recompose at hrec
  rw [hfn, hqn] at hrec
  have hfr : fragmentPart (splitFragment (from_ queryStop q)) = from_ queryStop q := by
    apply splitFragment_glue
    rcases from_head queryStop q with h | ⟨c, r, h, hc⟩
    · left; exact h
    · right; refine ⟨r, ?_⟩; rw [h]; simp [queryStop] at hc; rw [hc]
  simp only [transform, recompose, ↓reduceIte] at hrec ⊢
  rw [hfr]
  simp only [fragmentPart, queryPart, List.append_nil] at hrec ⊢
  rw [hrec]
  conv => rhs; rw [← upTo_append_from queryStop q]
  simp

/-! ### soundness with respect to RFC 3986 -/

theorem relativize_sound_core (b v r : Str) (h : relativize b v = .some r)
    (h1 : (split b).path ≠ [] ∨ (split b).authority = none)
    (h2 : (split b).fragment = none ∨ r ≠ []) : resolve b r = v := by
  obtain ⟨_, hchk, hcand⟩ := relativize_checked b v r h
  cases hroot : (newBaseIRI b).root with
  | none =>
    obtain ⟨hv, hf, hr⟩ := candidate_rel_base b v r hroot hcand
    have hnh := no_hash_of_fragmentIndex b hf
    rcases hr with ⟨f, rfl⟩ | ⟨hq, q, rfl⟩
    · rw [hv]; exact resolve_hash_suffix b f hnh
    · rw [hv]; exact resolve_quest_suffix b q hnh (no_quest_of_queryIndex b hf hq)
  | some rd =>
    have hg := (hchk (by rw [hroot]; rfl)).2
    unfold goResolve at hg
    simp only at hg
    split at hg
    · next hq1 =>
      exfalso
      rcases h1 with h1 | h1
      · exact h1 hq1.2.2.2.1
      · rw [h1] at hq1; simp at hq1
    · split at hg
      · next hq2 =>
        exfalso
        rw [recompose_split] at hg
        subst hg
        rcases h2 with h2 | h2
        · rw [h2] at hq2; simp at hq2
        · rcases candidate_self b with hc | hc
          · rw [hc] at hcand; cases hcand; exact h2 rfl
          · rw [hc] at hcand; cases hcand
      · exact hg

/-! ### no panic -/

theorem candidateAbs_no_panic (rb : BaseIRI) (ri di : Nat) (v : Str)
    (hres : rb.resourceIndex ≤ rb.original.length) (hri : 1 ≤ ri) (hri2 : ri ≤ rb.original.length + 1)
    (hdi : di ≤ rb.resourceIndex) (hlen : min ri rb.original.length ≤ v.length) :
    candidateAbs rb ri di v ≠ .panic := by
  have hroot : rootRelative ri v ≠ .panic := by
    unfold rootRelative
    have : ¬ (ri = 0 ∨ v.length < ri - 1) := by omega
    simp [this]
  unfold candidateAbs
  simp only
  by_cases c1 : rb.resourceIndex < v.length
  · have c2 : ¬ rb.original.length < rb.resourceIndex := by omega
    simp only [c1, c2, if_true, if_false]
    by_cases c3 : (rb.original.take rb.resourceIndex).isPrefixOf v = true
    · simp only [c3, if_true]
      by_cases c4 : v[rb.resourceIndex]? = some cHash
      · have c5 : ¬ v.length < di := by omega
        simp [c4, c5]
      · simp only [c4, if_false]
        by_cases c6 : v[rb.resourceIndex]? = some cQuest
        · simp [c6]
        · simp only [c6, if_false]
          have c7 : ¬ rb.original.length < di := by omega
          split
          · split
            · split <;> simp
            · exact hroot
          · exact hroot
    · simp only [c3, Bool.false_eq_true, if_false]
      have c7 : ¬ rb.original.length < di := by omega
      split
      · split
        · split <;> simp
        · exact hroot
      · exact hroot
  · simp only [c1, if_false]
    have c7 : ¬ rb.original.length < di := by omega
    split
    · split
      · split <;> simp
      · exact hroot
    · exact hroot

theorem relativize_no_panic_core (b v : Str) (h : IndicesOK (newBaseIRI b)) : relativize b v ≠ .panic := by
  have hc : candidate (newBaseIRI b) v ≠ .panic := by
    unfold candidate
    simp only
    split
    · simp
    · cases hroot : (newBaseIRI b).root with
      | none => simp
      | some rd =>
        obtain ⟨ri, di⟩ := rd
        simp only
        unfold IndicesOK at h
        rw [hroot] at h
        simp only at h
        split
        · simp
        · next hpre =>
          split
          · simp
          · apply candidateAbs_no_panic _ _ _ _ h.1 h.2.1 h.2.2.1 h.2.2.2
            have hp : ((newBaseIRI b).original.take (min ri (newBaseIRI b).original.length)) <+: v := by
              have := hpre
              simp only [Decidable.not_not] at this
              exact List.isPrefixOf_iff_prefix.mp this
            have := hp.length_le
            rw [List.length_take] at this
            omega
  unfold relativize relativizeB
  cases hcd : candidate (newBaseIRI b) v with
  | panic => exact absurd hcd hc
  | none => simp
  | some rel =>
    simp only
    split
    · simp
    · split
      · split <;> simp
      · simp

end RdfModel.Proofs.C13
