package main

// Bounded-exhaustive family: documents with at most two statements over a six-term universe,
// every token-level choice of each token (one token at a time), a small layout set at every slot
// (one slot at a time), both packages, default base present / absent.

import (
	"fmt"
)

const exhBase = "http://e/d/f"

// the universe
var (
	uIri  = obj{kind: oIRI, iri: ref("http://e/a")}
	uPn   = obj{kind: oIRI, iri: pn("ex", "b%41~")}
	uRel  = obj{kind: oIRI, iri: ref("c")}
	uBn   = obj{kind: oBN, label: "d"}
	uNum  = obj{kind: oLit, lit: lit{kind: lNum, lex: "1"}}
	uStrs = []obj{
		{kind: oLit, lit: lit{kind: lPlain, lex: "é\n"}},
		{kind: oLit, lit: lit{kind: lLang, lex: "é\n", tag: "en-GB"}},
		{kind: oLit, lit: lit{kind: lTyped, lex: "é\n", dt: ref("http://e/a")}},
		{kind: oLit, lit: lit{kind: lTyped, lex: "é\n", dt: pn("ex", "b%41~")}},
	}
)

type exhStmt struct {
	s obj
	p po // with one object
}

func exhSubjects() []obj { return []obj{uIri, uPn, uRel, uBn} }
func exhVerbs() []po {
	return []po{{v: uIri.iri}, {v: uPn.iri}, {v: uRel.iri}, {a: true}}
}
func exhObjects() []obj {
	return append([]obj{uIri, uPn, uRel, uBn, uNum}, uStrs...)
}

func exhStatements() []exhStmt {
	var out []exhStmt
	for _, s := range exhSubjects() {
		for _, v := range exhVerbs() {
			for _, o := range exhObjects() {
				p := v
				p.objs = []obj{o}
				out = append(out, exhStmt{s: s, p: p})
			}
		}
	}
	return out
}

func product(alphabet string, n int) []string {
	out := []string{""}
	for i := 0; i < n; i++ {
		var next []string
		for _, p := range out {
			for _, c := range alphabet {
				next = append(next, p+string(c))
			}
		}
		out = next
	}
	return out
}

func oneAtATime(alphabet string, n int) []string {
	var out []string
	for _, c := range alphabet {
		if c == 'r' {
			continue
		}
		for i := 0; i < n; i++ {
			b := make([]byte, n)
			for j := range b {
				b[j] = 'r'
			}
			b[i] = byte(c)
			out = append(out, string(b))
		}
		b := make([]byte, n)
		for j := range b {
			b[j] = byte(c)
		}
		out = append(out, string(b))
	}
	return out
}

// tokenVariants: every non-default token-level setting of the slot (layout excluded).
func tokenVariants(si slotInfo) []slot {
	var out []slot
	switch si.kind {
	case skIRIREF:
		var css []string
		if si.runes <= 2 {
			css = product("rulUL", si.runes)
		} else {
			css = oneAtATime("rulUL", si.runes)
		}
		for _, cs := range css {
			out = append(out, slot{cs: cs})
		}
	case skPName:
		var css []string
		if si.runes <= 6 {
			css = product("re", si.runes)
		} else {
			css = oneAtATime("re", si.runes)
		}
		for _, cs := range css {
			out = append(out, slot{cs: cs})
		}
	case skString:
		var css []string
		if si.runes <= 2 {
			css = product("reulUL", si.runes)
		} else {
			css = oneAtATime("reulUL", si.runes)
		}
		for sty := 0; sty < 4; sty++ {
			for _, cs := range css {
				out = append(out, slot{cs: cs, sty: sty})
			}
		}
	case skKwPrefix:
		for n := 0; n < 64; n++ {
			out = append(out, slot{n: n})
		}
	case skKwBase:
		for n := 0; n < 16; n++ {
			out = append(out, slot{n: n})
		}
	case skKwGraph:
		if si.written {
			for n := 0; n < 32; n++ {
				out = append(out, slot{n: n})
			}
		}
	case skSemi:
		out = append(out, slot{n: 1}, slot{n: 2}, slot{n: 2, lay2: []litem{wsItem(0)}}, slot{n: 2, lay2: []litem{comment("c", 0)}})
	case skDot:
		if si.last {
			out = append(out, slot{n: 1})
		}
	}
	// the all-default setting is the baseline
	keep := out[:0]
	for _, s := range out {
		if s.wire() != ":::::" && s.wire() != slotAllRaw(s) {
			keep = append(keep, s)
		}
	}
	return keep
}

// slotAllRaw: wire form of the slot when its cs is all `r` (same text as the default).
func slotAllRaw(s slot) string {
	for _, c := range s.cs {
		if c != 'r' {
			return ""
		}
	}
	if s.sty != 0 || s.n != 0 || s.glue || len(s.lay2) > 0 || len(s.lay) > 0 {
		return ""
	}
	return s.wire()
}

var exhLayouts = [][]litem{{wsItem(0)}, {wsItem(2)}, {comment("c", 0)}}

// emitVariants: baseline + (tokens: every token-level choice, one token at a time) + (layouts: one slot at a time).
// only: restrict both to these slots (nil = all).
func (h *harness) emitVariants(kind string, d doc, pkgs []string, bases []string, tokens bool, only map[int]bool) int {
	si := slotsOf(d)
	n := 0
	send := func(ch choices) {
		for _, pkg := range pkgs {
			for _, b := range bases {
				h.add(&kase{kind: kind, pkg: pkg, base: b, d: d, ch: ch, si: si})
				n++
			}
		}
	}
	send(nil)
	for i, s := range si {
		if only != nil && !only[i] {
			continue
		}
		if tokens {
			for _, v := range tokenVariants(s) {
				ch := make(choices, i+1)
				ch[i] = v
				send(ch)
			}
		}
		if layUsed(s, slot{}) {
			for _, l := range exhLayouts {
				ch := make(choices, i+1)
				ch[i] = slot{lay: l}
				send(ch)
			}
		}
	}
	return n
}

func exhHeader(kw bool) block {
	if kw {
		return block{kind: bDir, d: dir{kind: dPrefixKw, p: "ex", r: "http://e/"}}
	}
	return block{kind: bDir, d: dir{kind: dPrefixAt, p: "ex", r: "http://e/"}}
}

func (st exhStmt) triples() triples { return triples{s: st.s, pos: []po{st.p}} }

// boundarySlots: the slots from the last token of the first statement's object to the first token of what follows.
func slotsBetween(si []slotInfo, from, to int) map[int]bool {
	m := map[int]bool{}
	for i := from; i <= to && i < len(si); i++ {
		m[i] = true
	}
	return m
}

func (h *harness) exhaustive(full bool) {
	stmts := exhStatements()
	both := []string{"turtle", "trig"}
	trigOnly := []string{"trig"}
	bases := []string{"", exhBase}
	gIri := obj{kind: oIRI, iri: ref("http://e/g")}
	gBn := uBn
	total := 0
	if !full {
		// quick tier: the single-statement documents in their default spelling only
		for _, st := range stmts {
			d := doc{exhHeader(false), {kind: bTriples, t: st.triples()}}
			for _, pkg := range both {
				for _, b := range bases {
					h.add(&kase{kind: "exh1-baseline", pkg: pkg, base: b, d: d, ch: nil})
					total++
				}
			}
		}
		h.rep.Exhaustive = append(h.rep.Exhaustive, fmt.Sprintf("quick tier: the %d single-statement documents over the six-term universe in default spelling, both packages, base present/absent (%d cases); the full family runs in the thorough tier", len(stmts), total))
		return
	}
	// ---- one statement
	for _, st := range stmts {
		for _, kw := range []bool{false, true} {
			d := doc{exhHeader(kw), {kind: bTriples, t: st.triples()}}
			total += h.emitVariants("exh1", d, both, bases, true, nil)
		}
		// with a base directive in front (the relative term is resolved against it, not the default base)
		for _, kw := range []bool{false, true} {
			k := dBaseAt
			if kw {
				k = dBaseKw
			}
			d := doc{{kind: bDir, d: dir{kind: k, r: "http://e/x/y"}}, exhHeader(!kw), {kind: bTriples, t: st.triples()}}
			si := slotsOf(d)
			nd := 3
			if kw {
				nd = 2
			}
			total += h.emitVariants("exh1-base", d, both, bases, true, slotsBetween(si, 1, nd))
		}
		// TriG block forms
		for _, form := range []block{
			{kind: bGraph, body: []triples{st.triples()}},
			{kind: bGraph, label: &gIri, body: []triples{st.triples()}},
			{kind: bGraph, kw: true, label: &gBn, body: []triples{st.triples()}},
			{kind: bGraph, kw: true, label: &obj{kind: oAnon}, body: []triples{st.triples()}},
		} {
			d := doc{exhHeader(false), form}
			total += h.emitVariants("exh1-graph", d, trigOnly, bases, true, nil)
		}
	}
	// ---- two statements: every pair, default spelling + the layout set at the slots around the junction
	for _, a := range stmts {
		// (1) two statements  `s p o . s' p' o' .`
		for _, b := range stmts {
			d := doc{exhHeader(false), {kind: bTriples, t: a.triples()}, {kind: bTriples, t: b.triples()}}
			si := slotsOf(d)
			j := 5 + len(slotsOf(doc{{kind: bTriples, t: a.triples()}})) - 1 // first slot of the second statement
			total += h.emitVariants("exh2", d, both, bases, false, slotsBetween(si, j-4, j))
		}
		// (2) `s p o ; p' o' .`  with every count of semicolons
		for _, v := range exhVerbs() {
			for _, o := range exhObjects() {
				p2 := v
				p2.objs = []obj{o}
				t := triples{s: a.s, pos: []po{a.p, p2}}
				d := doc{exhHeader(false), {kind: bTriples, t: t}}
				si := slotsOf(d)
				semi := -1
				for i, s := range si {
					if s.kind == skSemi && !s.last {
						semi = i
					}
				}
				total += h.emitVariants("exh2-semicolon", d, both, bases, false, slotsBetween(si, semi-2, semi+1))
				for _, sv := range tokenVariants(si[semi]) {
					ch := make(choices, semi+1)
					ch[semi] = sv
					for _, pkg := range both {
						for _, bs := range bases {
							h.add(&kase{kind: "exh2-semicolon", pkg: pkg, base: bs, d: d, ch: ch, si: si})
							total++
						}
					}
				}
				// the same pair inside a graph block, final '.' written or not
				for _, dot := range []int{0, 1} {
					dg := doc{exhHeader(false), {kind: bGraph, label: &gIri, body: []triples{t}}}
					sg := slotsOf(dg)
					ch := make(choices, len(sg))
					for i, s := range sg {
						if s.kind == skDot {
							ch[i].n = dot
						}
					}
					for _, bs := range bases {
						h.add(&kase{kind: "exh2-semicolon-graph", pkg: "trig", base: bs, d: dg, ch: ch, si: sg})
						total++
					}
				}
			}
		}
		// (3) `s p o , o' .`
		for _, o := range exhObjects() {
			p := a.p
			p.objs = []obj{a.p.objs[0], o}
			d := doc{exhHeader(false), {kind: bTriples, t: triples{s: a.s, pos: []po{p}}}}
			si := slotsOf(d)
			comma := -1
			for i, s := range si {
				if s.kind == skComma && !s.last {
					comma = i
				}
			}
			total += h.emitVariants("exh2-comma", d, both, bases, false, slotsBetween(si, comma-2, comma+1))
		}
		// (4) two statements inside `{ }`, final '.' written or not
		for _, b := range stmts {
			for _, dot := range []int{0, 1} {
				d := doc{exhHeader(false), {kind: bGraph, body: []triples{a.triples(), b.triples()}}}
				si := slotsOf(d)
				ch := make(choices, len(si))
				for i, s := range si {
					if s.kind == skDot && s.last {
						ch[i].n = dot
					}
				}
				for _, bs := range bases {
					h.add(&kase{kind: "exh2-graph", pkg: "trig", base: bs, d: d, ch: ch, si: si})
					total++
				}
			}
		}
		h.flush()
	}
	h.rep.Exhaustive = append(h.rep.Exhaustive, fmt.Sprintf(
		"documents with <= 2 statements over the universe {<http://e/a>, ex:b%%41~, <c>, _:d, \"é\\n\" (plain / @en-GB / ^^<http://e/a> / ^^ex:b%%41~), 1} (%d statements s x p x o, verbs incl. 'a'): "+
			"one statement: @prefix / PREFIX header, base directive in front, top level and the TriG forms {} / <g> {} / GRAPH _:d {} / GRAPH [] {}; for every token every token-level choice (IRIREF: per rune raw/\\u/\\U in both hex cases, one rune at a time and all runes; local name: every raw/escaped combination incl. PERCENT kept/escaped; string: 4 styles x every raw/ECHAR/\\u/\\U combination of both runes; every letter-case of PREFIX/BASE/GRAPH; 0-2 trailing ';'; final '.' in {}), one token at a time, and the layouts {SP, LF, comment+LF} at every slot, one slot at a time; "+
			"two statements: every pair as 's p o . s p o .', 's p o ; p o .' (1-3 semicolons, with layout between), 's p o , o .', inside <g> {} and {} with and without the final '.', default spelling + the layout set at the slots around the junction; both packages (TriG forms: trig), default base absent / %s: %d cases", len(stmts), exhBase, total))
}
