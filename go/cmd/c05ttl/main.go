// Command c05ttl: statement layer of the Turtle and TriG decoders.
//
//   - T3 correspondence between Model.TurtleDoc (op `ttld.dec`) and encoding/{turtle,trig}: ordered
//     statement list (blank nodes renumbered by first occurrence) and final verdict class;
//   - property oracles on the implementation:
//     C05 no panic, Next stays false, Err stable, Close succeeds;
//     C06 every yielded statement is well formed (also before an error);
//     C07 Turtle bytes through the TriG decoder / N-Triples bytes through all four decoders;
//     C15 chunking independence, prefix monotonicity, truncation inside a statement is an error,
//     reader failures are reported.
//
// `-prop` selects the property the report is written for; the same cases are generated for every
// property (the evidence differs in what counts as a violation of *that* property only in the
// `violation` cases' Key prefix; all oracles are always evaluated).
package main

import (
	"archive/tar"
	"bytes"
	"compress/gzip"
	"context"
	"encoding/json"
	"errors"
	"flag"
	"fmt"
	"hash/fnv"
	"io"
	"net/url"
	"os"
	"path/filepath"
	"regexp"
	"sort"
	"strings"
	"sync"
	"sync/atomic"
	"syscall"
	"time"

	"verifharness/vh"

	"github.com/dpb587/rdfkit-go/encoding/nquads"
	"github.com/dpb587/rdfkit-go/encoding/ntriples"
	"github.com/dpb587/rdfkit-go/encoding/trig"
	"github.com/dpb587/rdfkit-go/encoding/turtle"
	"github.com/dpb587/rdfkit-go/iri"
	"github.com/dpb587/rdfkit-go/rdf"
)

var (
	tier     = flag.String("tier", "quick", "quick|thorough")
	driver   = flag.String("driver", "/verif/lean/.lake/build/bin/driver", "lean driver binary")
	out      = flag.String("out", "/verif/evidence/.c05ttl.report.json", "report path")
	findings = flag.String("findings", "/verif/known-findings.json", "known findings")
	replay   = flag.String("replay", "", "replay file (one protocol line per line)")
	scale    = flag.Int("scale", 1, "multiply generated case counts (search mode uses 10)")
	nomodel  = flag.Bool("nomodel", false, "property oracles on the implementation only")
	hints    = flag.String("hints", "", "file of protocol lines that disagreed; replayed through the oracles first")
	prop     = flag.String("prop", "C05", "property id the report is written for (C05|C06|C07|C15)")
	shrinkN  = flag.Int("shrink", 3, "minimise (delta debugging on the bytes) and print the first N disagreements")
)

const (
	rdfLangString    = "http://www.w3.org/1999/02/22-rdf-syntax-ns#langString"
	rdfDirLangString = "http://www.w3.org/1999/02/22-rdf-syntax-ns#dirLangString"
)

// ---------------------------------------------------------------- implementation side

type stmt struct {
	s, p, o, g rdf.Term
}

type result struct {
	wire    string // "<stmts>|<verdict>" in the driver's canonical form
	stmts   []string
	verdict string
	raw     []stmt
	bad     []string // oracle violations observed during this run (C05 / C06)
	errText string   // text of the final error (histograms only)
}

type decoder interface {
	Next() bool
	Err() error
	Close() error
}

func errClass(err error) string {
	var up iri.UnknownPrefixError
	var ue *url.Error
	switch {
	case err == nil:
		return "clean"
	case errors.Is(err, vh.ErrInjected):
		return "err:io"
	case errors.Is(err, io.EOF):
		return "err:eof"
	case errors.As(err, &up):
		return "err:pfx"
	case errors.As(err, &ue), strings.Contains(err.Error(), "resolve iri:"), strings.Contains(err.Error(), "parse \""),
		strings.Contains(err.Error(), "invalid URL escape"), strings.Contains(err.Error(), "missing protocol scheme"),
		strings.Contains(err.Error(), "invalid port"), strings.Contains(err.Error(), "invalid character"),
		strings.Contains(err.Error(), "first path segment in URL cannot contain colon"),
		strings.Contains(err.Error(), "invalid control character in URL"), strings.Contains(err.Error(), "invalid userinfo"),
		strings.Contains(err.Error(), "invalid host"):
		return "err:resolve"
	}
	return "err:syntax"
}

// watchdog: a decode that runs for more than 10 s of wall-clock time AND has burnt more than 5 s of process CPU time
// since it started is reported as a hang (C05) and the process exits.  The CPU condition keeps a starved process (a
// dozen checks sharing the machine: a 10 s stall of a 300-byte decode was observed once, not reproducible) from
// being reported as a hang of the decoder; a decode that has been stalled for 120 s is reported in any case.
var busySince atomic.Int64
var busyCPU atomic.Int64
var busyWhat atomic.Value

func cpuNow() int64 {
	var ru syscall.Rusage
	if syscall.Getrusage(syscall.RUSAGE_SELF, &ru) != nil {
		return 0
	}
	return ru.Utime.Nano() + ru.Stime.Nano()
}

func startWatchdog(rep *vh.Report) {
	go func() {
		for {
			time.Sleep(500 * time.Millisecond)
			t := busySince.Load()
			wall := time.Now().UnixNano() - t
			if t != 0 && wall > int64(10*time.Second) && (cpuNow()-busyCPU.Load() > int64(5*time.Second) || wall > int64(120*time.Second)) {
				w, _ := busyWhat.Load().(string)
				rep.Add(vh.Case{Kind: "violation", Key: "C05", Op: w, Detail: "decoder did not terminate within 10 s"})
				rep.Write(*out)
				fmt.Println("c05ttl: HANG on", w)
				os.Exit(1)
			}
		}
	}()
}

// goDecode runs the real decoder over the bytes. chunk > 0 limits every Read.
func goDecode(pkg string, fail bool, base string, b []byte, chunk int) (res result) {
	op := fmt.Sprintf("ttld.dec %s %s %s %s", pkg, endName(fail), baseTok(base), vh.X(b))
	return goDecodeRd(pkg, base, b, &vh.EndReader{B: append([]byte(nil), b...), Fail: fail, Chunk: chunk}, op)
}

// goDecodeRd: the real decoder over any reader (b = the document, for messages only).
func goDecodeRd(pkg string, base string, b []byte, rd io.Reader, op string) (res result) {
	busyWhat.Store(op)
	busyCPU.Store(cpuNow())
	busySince.Store(time.Now().UnixNano())
	defer busySince.Store(0)
	defer func() {
		if p := recover(); p != nil {
			res.verdict = "panic"
			res.wire = strings.Join(res.stmts, ";") + "|panic"
			res.bad = append(res.bad, fmt.Sprintf("C05 panic: %v", p))
		}
	}()
	var seen []rdf.BlankNodeIdentifier
	label := func(bn rdf.BlankNode) string {
		if bn.Identifier == nil {
			return "?nil-identifier"
		}
		for i, x := range seen {
			if x.EqualsBlankNodeIdentifier(bn.Identifier) {
				return fmt.Sprintf("b%d", i)
			}
		}
		seen = append(seen, bn.Identifier)
		return fmt.Sprintf("b%d", len(seen)-1)
	}
	var d decoder
	var cur func() stmt
	switch pkg {
	case "turtle":
		cfg := turtle.DecoderConfig{}
		if base != "" {
			cfg = cfg.SetDefaultBase(base)
		}
		dd, err := turtle.NewDecoder(rd, cfg)
		if err != nil {
			res.verdict = "new:" + errClass(err)
			res.wire = "|" + res.verdict
			return
		}
		d = dd
		cur = func() stmt { t := dd.Triple(); return stmt{t.Subject, t.Predicate, t.Object, nil} }
	case "trig":
		cfg := trig.DecoderConfig{}
		if base != "" {
			cfg = cfg.SetDefaultBase(base)
		}
		dd, err := trig.NewDecoder(rd, cfg)
		if err != nil {
			res.verdict = "new:" + errClass(err)
			res.wire = "|" + res.verdict
			return
		}
		d = dd
		cur = func() stmt {
			q := dd.Quad()
			return stmt{q.Triple.Subject, q.Triple.Predicate, q.Triple.Object, q.GraphName}
		}
	case "nt":
		dd, _ := ntriples.NewDecoder(rd)
		d = dd
		cur = func() stmt { t := dd.Triple(); return stmt{t.Subject, t.Predicate, t.Object, nil} }
	case "nq":
		dd, _ := nquads.NewDecoder(rd)
		d = dd
		cur = func() stmt {
			q := dd.Quad()
			return stmt{q.Triple.Subject, q.Triple.Predicate, q.Triple.Object, q.GraphName}
		}
	}
	absBase := false
	if base != "" {
		if u, err := url.Parse(base); err == nil && u.IsAbs() {
			absBase = true
		}
	}
	for d.Next() {
		st := cur()
		res.raw = append(res.raw, st)
		w := termWire(st.s, label) + "," + termWire(st.p, label) + "," + termWire(st.o, label) + "," + termWire(st.g, label)
		res.stmts = append(res.stmts, w)
		if why := wellFormed(st, absBase || pkg == "nt" || pkg == "nq"); why != "" {
			why = "C06 " + why + ": " + w
			if len(b) <= 400 {
				why += fmt.Sprintf(" -- %s decoder, default base %q, document %q", pkg, base, b)
			}
			res.bad = append(res.bad, why)
		}
	}
	err := d.Err()
	res.verdict = errClass(err)
	if err != nil {
		res.errText = err.Error()
	}
	// C05: terminal state is sticky
	for i := 0; i < 2; i++ {
		if d.Next() {
			res.bad = append(res.bad, "C05 Next returned true after false")
			break
		}
		if fmt.Sprint(d.Err()) != fmt.Sprint(err) {
			res.bad = append(res.bad, "C05 Err changed after the end")
			break
		}
	}
	if cerr := d.Close(); cerr != nil {
		res.bad = append(res.bad, "C05 Close failed: "+cerr.Error())
	}
	res.wire = strings.Join(res.stmts, ";") + "|" + res.verdict
	return
}

func isNilTerm(t rdf.Term) bool { return t == nil }

func termWire(t rdf.Term, label func(rdf.BlankNode) string) string {
	if isNilTerm(t) {
		return "-"
	}
	return vh.TermWire(t, label)
}

// wellFormed is the C06 oracle for one statement; "" = fine.
func wellFormed(st stmt, wantAbs bool) string {
	abs := func(i rdf.IRI) string {
		if !wantAbs {
			return ""
		}
		if !hasScheme(string(i)) {
			return "relative IRI " + string(i)
		}
		return ""
	}
	switch s := st.s.(type) {
	case nil:
		return "nil subject"
	case rdf.IRI:
		if w := abs(s); w != "" {
			return w
		}
	case rdf.BlankNode:
		if s.Identifier == nil {
			return "subject blank node without identity"
		}
	default:
		return fmt.Sprintf("subject of kind %T", s)
	}
	switch p := st.p.(type) {
	case nil:
		return "nil predicate"
	case rdf.IRI:
		if w := abs(p); w != "" {
			return w
		}
	default:
		return fmt.Sprintf("predicate of kind %T", p)
	}
	switch o := st.o.(type) {
	case nil:
		return "nil object"
	case rdf.IRI:
		if w := abs(o); w != "" {
			return w
		}
	case rdf.BlankNode:
		if o.Identifier == nil {
			return "object blank node without identity"
		}
	case rdf.Literal:
		if w := abs(o.Datatype); w != "" {
			return w
		}
		switch tag := o.Tag.(type) {
		case nil:
			if o.Datatype == rdfLangString || o.Datatype == rdfDirLangString {
				return "langString-without-tag"
			}
		case rdf.LanguageLiteralTag:
			if o.Datatype != rdfLangString {
				return "language tag on datatype " + string(o.Datatype)
			}
			if tag.Language == "" {
				return "empty language tag"
			}
		case rdf.DirectionalLanguageLiteralTag:
			if o.Datatype != rdfDirLangString {
				return "directional tag on datatype " + string(o.Datatype)
			}
		default:
			return fmt.Sprintf("tag of kind %T", tag)
		}
	default:
		return fmt.Sprintf("object of kind %T", o)
	}
	switch g := st.g.(type) {
	case nil:
	case rdf.IRI:
		if w := abs(g); w != "" {
			return w
		}
	case rdf.BlankNode:
		if g.Identifier == nil {
			return "graph blank node without identity"
		}
	default:
		return fmt.Sprintf("graph name of kind %T", g)
	}
	return ""
}

// hasScheme: `scheme ":"` of RFC 3986 at the start (net/url rejects some absolute IRIs, so it is not asked).
func hasScheme(s string) bool {
	for i := 0; i < len(s); i++ {
		c := s[i]
		switch {
		case 'a' <= c && c <= 'z' || 'A' <= c && c <= 'Z':
		case i > 0 && ('0' <= c && c <= '9' || c == '+' || c == '-' || c == '.'):
		case i > 0 && c == ':':
			return true
		default:
			return false
		}
	}
	return false
}

func endName(fail bool) string {
	if fail {
		return "io"
	}
	return "eof"
}

func baseTok(base string) string {
	if base == "" {
		return "-"
	}
	return vh.XS(base)
}

func goResolve(base, ref string) string {
	var s string
	if base == "" {
		u, err := iri.ParseIRI(ref)
		if err != nil {
			return "error"
		}
		s = u.String()
	} else {
		b, err := iri.ParseIRI(base)
		if err != nil {
			return "error"
		}
		u, err := b.Parse(ref)
		if err != nil {
			return "error"
		}
		s = u.String()
	}
	return "some " + vh.XS(s)
}

// ---------------------------------------------------------------- harness state

type item struct {
	line string
	goR  string
	kind string
}

type gen struct {
	r      *vh.Rng
	rep    *vh.Report
	items  []item
	known  map[string]vh.Finding
	seenD  map[uint64]struct{}
	flush  func() // compares the queued items with the model and empties the queue
	queued int
	nviol  int
	knownC map[string]int // known-finding cases per key (at most 20 each go into the report)
	viol   []vh.Case      // added to the report after the disagreements (the report keeps the first 200 cases)
}

func (g *gen) violation(key, op, detail string) {
	if g.nviol < 150 {
		g.nviol++
		g.viol = append(g.viol, vh.Case{Kind: "violation", Key: key, Op: op, Detail: detail})
	}
	g.rep.Count("violation:" + key)
}

// addKnown records a violation that matches a listed known finding (a few per key; all are counted).
func (g *gen) addKnown(f vh.Finding, op string) {
	g.rep.Count("known:" + f.Key)
	if g.knownC == nil {
		g.knownC = map[string]int{}
	}
	g.knownC[f.Key]++
	if g.knownC[f.Key] <= 20 {
		g.viol = append(g.viol, vh.Case{Kind: "known", Key: f.Key, Op: op, Detail: f.What})
	}
}

// record the oracle findings of one run; known-finding predicates are matched here.
func (g *gen) judge(op string, res result) {
	for _, b := range res.bad {
		if strings.Contains(b, "langString-without-tag") {
			if f, ok := g.known["explicit-langstring-datatype"]; ok {
				g.addKnown(f, op)
				continue
			}
		}
		g.violation(b[:3], op, b)
	}
}

// dec runs one document through the implementation (and queues it for the model).
func (g *gen) dec(kind, pkg string, fail bool, base string, b []byte, nontrivial bool) result {
	op := fmt.Sprintf("ttld.dec %s %s %s %s", pkg, endName(fail), baseTok(base), vh.X(b))
	res := goDecode(pkg, fail, base, b, 0)
	g.judge(op, res)
	hh := fnv.New64a()
	hh.Write([]byte(op))
	if _, dup := g.seenD[hh.Sum64()]; !dup {
		g.seenD[hh.Sum64()] = struct{}{}
		g.items = append(g.items, item{line: op, goR: res.wire, kind: kind})
		g.queued += len(op)
		if g.flush != nil && (len(g.items) >= 40000 || g.queued > 64<<20) {
			g.flush()
		}
	}
	g.rep.Eval(op, nontrivial && len(res.stmts) > 0)
	g.rep.Count("op:" + kind)
	g.rep.Count("verdict:" + pkg + ":" + res.verdict)
	if strings.Contains(res.errText, "datatype requires a language tag") {
		// the decoder got as far as an explicit rdf:langString / rdf:dirLangString datatype and refused it; for the
		// kinds gen-* the only spelling the generator has for these is a relative IRIREF (see docGen.relDatatype)
		g.rep.Count("refused-explicit-langString-datatype:" + kind + ":" + pkg)
	}
	return res
}

func isPrefixOf(a, b []string) bool {
	if len(a) > len(b) {
		return false
	}
	for i := range a {
		if a[i] != b[i] {
			return false
		}
	}
	return true
}

// c07: the same Turtle bytes through both decoders.
func (g *gen) c07(kind, base string, b []byte, fail bool) {
	t := g.dec(kind, "turtle", fail, base, b, true)
	q := g.dec(kind, "trig", fail, base, b, true)
	g.rep.Count("c07:turtle-vs-trig")
	if t.verdict == "clean" {
		if q.verdict != "clean" || strings.Join(t.stmts, ";") != strings.Join(q.stmts, ";") {
			// known-finding class `graph-keyword-ogham-space` (C07-graph-ogham, Lean: C07.finding_graph_ogham): a statement
			// starts with the letters GRAPH (any case) immediately followed by U+1680, a PN_CHARS_BASE rune that
			// unicode.IsSpace accepts: a prefix label for the Turtle decoder, the keyword GRAPH for the TriG decoder.
			if f, ok := g.known["graph-keyword-ogham-space"]; ok && graphOgham.Match(b) {
				g.addKnown(f, "turtle vs trig on "+vh.X(b))
				return
			}
			g.violation("C07", "turtle vs trig on "+vh.X(b), fmt.Sprintf("Turtle decoder accepts with %d triples, TriG decoder: %s / %d quads; turtle=%s trig=%s", len(t.stmts), q.verdict, len(q.stmts), t.wire, q.wire))
		}
	}
}

// graphOgham: the class predicate of finding C07-graph-ogham.
var graphOgham = regexp.MustCompile(`(?i)(^|[\s.])graph\x{1680}`)

// graphOghamDocs: corner documents of finding C07-graph-ogham. They are run when /verif/known-findings.json lists the
// finding (predicate `graph-keyword-ogham-space`); without the entry they are skipped (counted) — the oracle in c07
// is not loosened: any such document reaching it without the entry is reported as a C07 violation.
func (g *gen) graphOghamDocs() {
	if _, ok := g.known["graph-keyword-ogham-space"]; !ok {
		g.rep.Count("corner:graph-ogham-skipped(no known-findings entry)")
		return
	}
	for _, l := range []string{"GRAPH\u1680x", "graph\u1680y", "GrApH\u1680"} {
		for _, body := range []string{"%[1]s:s <http://k.example/p> %[1]s:o .", "<http://k.example/s> <http://k.example/p> 1 .\n%[1]s:s a %[1]s:C ."} {
			doc := []byte("@prefix " + l + ": <http://k.example/n/> .\n" + fmt.Sprintf(body, l) + "\n")
			g.c07("corner-graph-ogham", "", doc, false)
			g.rep.Count("corner:graph-ogham-docs")
		}
	}
}

var labelWithColon = regexp.MustCompile(`_:[^\s<>"]*:`)

// c07nt: N-Triples bytes through all four decoders.
func (g *gen) c07nt(kind string, b []byte) {
	nt := goDecode("nt", false, "", b, 0)
	g.judge("nt "+vh.X(b), nt)
	g.rep.Count("c07:nt-through-four")
	g.rep.Eval("c07nt "+vh.X(b), len(nt.stmts) > 0)
	if nt.verdict != "clean" {
		g.rep.Count("c07:nt-rejected-by-ntriples")
		return
	}
	for _, pkg := range []string{"nq", "turtle", "trig"} {
		var o result
		if pkg == "nq" {
			o = goDecode(pkg, false, "", b, 0)
			g.judge("nq "+vh.X(b), o)
		} else {
			o = g.dec(kind, pkg, false, "", b, true)
		}
		if o.verdict != "clean" || strings.Join(o.stmts, ";") != strings.Join(nt.stmts, ";") {
			// known-finding class `bnode-label-contains-colon` (token layer, D32): ':' is a PN_CHARS_U rune for the
			// N-Triples / N-Quads decoders only
			if f, ok := g.known["bnode-label-contains-colon"]; ok && pkg != "nq" && labelWithColon.Match(b) {
				g.addKnown(f, "nt through "+pkg+" "+vh.X(b))
				continue
			}
			g.violation("C07", "N-Triples document through "+pkg+": "+vh.X(b), fmt.Sprintf("ntriples: %s, %s: %s", nt.wire, pkg, o.wire))
		}
	}
}

// c15chunk: chunking independence and determinism.
func (g *gen) c15chunk(pkg, base string, b []byte, fail bool) {
	ref := goDecode(pkg, fail, base, b, 0)
	for _, chunk := range []int{1, 2, 3, 7, 1 + g.r.Intn(16)} {
		o := goDecode(pkg, fail, base, b, chunk)
		g.rep.Count("c15:chunked-runs")
		if o.wire != ref.wire {
			g.violation("C15", fmt.Sprintf("ttld.dec %s %s %s %s", pkg, endName(fail), baseTok(base), vh.X(b)), fmt.Sprintf("chunk size %d changes the result: %s vs %s", chunk, o.wire, ref.wire))
		}
	}
	again := goDecode(pkg, fail, base, b, 0)
	if again.wire != ref.wire {
		g.violation("C15", "determinism "+vh.X(b), "decoding the same bytes twice gives different results")
	}
}

// span of one top-level statement: cutting at k with start < k <= last must be reported as an error.
type span struct{ start, last int }

// c15cuts: prefixes of a complete, accepted document.
func (g *gen) c15cuts(pkg, base string, doc []byte, spans []span, cuts []int) {
	full := g.dec("cut-full", pkg, false, base, doc, true)
	if full.verdict != "clean" {
		return
	}
	for _, k := range cuts {
		if k <= 0 || k >= len(doc) {
			continue
		}
		fail := g.r.Chance(25)
		p := g.dec("cut", pkg, fail, base, doc[:k], true)
		g.rep.Count("c15:cuts")
		op := fmt.Sprintf("ttld.dec %s %s %s %s", pkg, endName(fail), baseTok(base), vh.X(doc[:k]))
		if fail && p.verdict == "clean" {
			g.violation("C15", op, "reader failed but the decoder ended cleanly")
		}
		// statements before the cut are statements of the whole document, in order (+ at most one from the cut token)
		// … unless the cut is right after a closing quote: it does not cut the string token (oneshot.go, strictCut)
		n := len(p.stmts)
		strict := strictCut(doc, k)
		if strict {
			g.rep.Count("c15:cuts-after-quote(no allowance)")
		}
		if !(isPrefixOf(p.stmts, full.stmts) || (!strict && n > 0 && isPrefixOf(p.stmts[:n-1], full.stmts))) {
			// known-finding class `cut-after-dot-in-collection`: the prefix ends in a '.' that belongs to a number or
			// name inside a collection; the shortened item and the eagerly emitted rdf:rest link after it both differ
			if f, ok := g.known["cut-after-dot-in-collection"]; ok && doc[k-1] == '.' && n >= 2 && isPrefixOf(p.stmts[:n-2], full.stmts) &&
				strings.Contains(p.stmts[n-1], ","+vh.TermWire(rdf.IRI("http://www.w3.org/1999/02/22-rdf-syntax-ns#rest"), nil)+",") {
				g.addKnown(f, op)
			} else {
				g.violation("C15", op, fmt.Sprintf("statements of the prefix are not a prefix of the document's statements: %s vs %s", p.wire, full.wire))
			}
		}
		// "inside a statement": after the first byte of its first token and before its last byte. A prefix
		// that ends in '.' may itself be a complete statement (`1.5 .` cut after `1.`, `p:a.b .` cut after `p:a.`).
		inside := false
		for _, s := range spans {
			if s.start < k && k <= s.last && doc[k-1] != '.' {
				inside = true
			}
		}
		if inside {
			g.rep.Count("c15:cuts-inside-statement")
			if p.verdict == "clean" {
				g.violation("C15", op, "input stops inside a statement but the decoder ended cleanly")
			}
		}
		// the same offset as a one-shot (non-sticky) reader failure: all cuts after a quote, a third of the others
		if strict || g.r.Chance(33) {
			sticky := p
			if !fail {
				sticky = goDecode(pkg, true, base, doc[:k], 0)
			}
			g.c15oneshot(pkg, base, doc, k, full, sticky)
		}
	}
}

// ---------------------------------------------------------------- W3C archives

type w3file struct {
	suite, name string
	data        []byte
}

func repoRoot() string {
	if v := os.Getenv("VERIF_REPO"); v != "" {
		return v
	}
	return "/repo"
}

func loadArchive(rel, suite string, exts ...string) []w3file {
	f, err := os.Open(filepath.Join(repoRoot(), rel))
	if err != nil {
		fmt.Fprintln(os.Stderr, "archive:", err)
		os.Exit(2)
	}
	defer f.Close()
	gz, err := gzip.NewReader(f)
	if err != nil {
		fmt.Fprintln(os.Stderr, "archive:", err)
		os.Exit(2)
	}
	tr := tar.NewReader(gz)
	var outp []w3file
	for {
		h, err := tr.Next()
		if err != nil {
			break
		}
		ok := false
		for _, e := range exts {
			if strings.HasSuffix(h.Name, e) {
				ok = true
			}
		}
		if !ok || h.Typeflag != tar.TypeReg {
			continue
		}
		b, _ := io.ReadAll(tr)
		outp = append(outp, w3file{suite: suite, name: filepath.Base(h.Name), data: b})
	}
	sort.Slice(outp, func(i, j int) bool { return outp[i].name < outp[j].name })
	return outp
}

func (g *gen) w3c(cutsPerFile int) {
	ttl := loadArchive("encoding/turtle/testsuites/w3-2013-TurtleTests/testdata.tar.gz", "TurtleTests", ".ttl")
	tg := loadArchive("encoding/trig/testsuites/w3-2013-TrigTests/testdata.tar.gz", "TrigTests", ".trig")
	nt := loadArchive("encoding/ntriples/testsuites/w3-2013-N-TriplesTests/testdata.tar.gz", "N-TriplesTests", ".nt")
	nt = append(nt, loadArchive("encoding/turtle/testsuites/w3-2013-TurtleTests/testdata.tar.gz", "TurtleTests", ".nt")...)
	g.rep.Exhaustive = append(g.rep.Exhaustive, fmt.Sprintf("all W3C files shipped in the repository: %d .ttl (Turtle and TriG decoders), %d .trig, %d .nt (all four decoders)", len(ttl), len(tg), len(nt)))
	for _, f := range ttl {
		base := "http://www.w3.org/2013/TurtleTests/" + f.name
		for _, b := range []string{base, ""} {
			g.c07("w3c-ttl", b, f.data, false)
		}
		g.c15chunk("turtle", base, f.data, false)
		g.cutsOf("turtle", base, f.data, nil, cutsPerFile)
	}
	for _, f := range tg {
		base := "http://www.w3.org/2013/TriGTests/" + f.name
		g.dec("w3c-trig", "trig", false, base, f.data, true)
		g.dec("w3c-trig", "trig", false, "", f.data, true)
		g.dec("w3c-trig-as-turtle", "turtle", false, base, f.data, true)
		g.c15chunk("trig", base, f.data, false)
		g.cutsOf("trig", base, f.data, nil, cutsPerFile)
	}
	for _, f := range nt {
		g.c07nt("w3c-nt", f.data)
	}
}

// cutsOf: every proper prefix (n < 0) or n random cut points.
func (g *gen) cutsOf(pkg, base string, doc []byte, spans []span, n int) {
	var cuts []int
	if n < 0 && len(doc) > 700 { // long documents: 150 random prefixes instead of every prefix
		n = 150
	}
	if n < 0 || n >= len(doc) {
		for k := 1; k < len(doc); k++ {
			cuts = append(cuts, k)
		}
	} else {
		for i := 0; i < n; i++ {
			cuts = append(cuts, 1+g.r.Intn(len(doc)))
		}
	}
	g.c15cuts(pkg, base, doc, spans, cuts)
}

// ---------------------------------------------------------------- corner documents (past findings first)

var cornerDocs = []string{
	"() <p> <o> .", "()", "( ) <p> <o> ; <q> <r> .", "(1) <p> <o> ; <q> <r> .", "(1 2) <p> (3 (4)) .", "(1) .", "(", "( ",
	"<a> <b> # c", "<a> <b> <c> . # c", "# c", "@prefix # c", "<a> <b> <c> .\n#", "<a> # x\n <b> <c> .",
	"{ (1) <p> <o> ; <q> <r> }", "{ () <p> <o> }", "{ <a> <b> <c> <d> <e> <f> }", "{ <a> <b> <c> . . }", "{ <a> <b> <c> . }", "{}", "{ }",
	"[ <p> <o> ] <q> <r> ; <s> <t> .", "[] <q> <r> ; <s> <t> .", "[ ]", "[", "[ ", "[] .", "[ <p> <o> ] .", "[ <p> <o> ; ] .", "[ ; <p> <o> ] .",
	"<g> { <a> <b> <c> } <x> <y> <z> .", "graph <g> { <a> <b> <c> . }", "GRAPH [] { <a> <b> <c> }", "GRAPH [ ] { <a> <b> <c> }", "GRAPH [", "GRAPH [ x",
	"GRAPH _:g { _:g <b> _:h }", "[] { <a> <b> <c> }", "[ <p> <o> ] { <a> <b> <c> }", "_:g { _:g <b> _:h }", "<g> ", "<g> {", "<g>{}", "p:g { }",
	"GRAPH: <p> <o> .", "graphx:a <p> <o> .", "GRAPH\t<g>\n{}", "GRAPH<g>{}",
	"<a> <b> true.", "<a> <b> truex:y .", "<a> <b> false , true .", "<a> <b> tru .", "<a> <b> fals:e .", "<a> a<b> .", "<a> a <b> .", "<a> a:b <c> .", "<a> a",
	"<a> <b> \"x\"", "<a> <b> \"x\"@en", "<a> <b> \"x\"@en .", "<a> <b> \"x\"^^<t> .", "<a> <b> \"x\"^<t> .", "<a> <b> \"x\"^^t:x .", "<a> <b> \"x\"^^",
	"<a> <b> \"x\"^^<http://www.w3.org/1999/02/22-rdf-syntax-ns#langString> .",
	"@base <http://www.w3.org/1999/02/22-rdf-syntax-ns> . <a> <b> \"x\"^^<#langString> .", "BASE <http://www.w3.org/1999/02/index.html> <a> <b> ( 'x'^^<22-rdf-syntax-ns#dirLangString> ) .",
	"@base <http://www.w3.org/1999/02/22-rdf-syntax-ns> . <g> { <a> <b> [ <c> \"x\"^^<#langString> ] }", "@base <http://www.w3.org/1999/02/22-rdf-syntax-ns> . <a> <b> \"x\"^^<#HTML> , \"y\"^^<22-rdf-syntax-ns#XMLLiteral> .",
	"<a> <b> 'x' , '''y''' , \"\"\"z\"\"\" , \"\" , '' .", "<a> <b> 1 , 1.0 , 1e0 , .5 , -1 , +1.5E-3 , 1. .", "<a> <b> . .", "<a> <b> .5.", "<a> <b> 1.",
	"prefix : <http://e/> :a :b :c .", "PREFIX : <http://e/>\n:a :b :c .", "@prefix : <http://e/> . :a :b :c ; .", "@prefix p: <http://e/> . p:a p:b p:c , p:d ; p:e p:f .",
	"@PREFIX : <http://e/> .", "@prefix: <http://e/> .", "PREFIX: <http://e/>", "prefixx:a <b> <c> .", "@base <http://e/d/> . <a> <b> <../c> .", "BASE <http://e/d/> <a> <b> <c> .",
	"base<http://e/d/> <a> <b> <c> .", "BASE\n<http://e/d/>\n<a> <b> <#c> .", "@base <http://e/d/>", "@base <http://e/d/> ,", "@bas", "@b", "@", "B", "BA", "BAS", "BASE", "BASE ", "P", "PREFI", "PREFIX", "PREFIX ", "PREFIX p", "PREFIX p:", "G", "GRAP", "GRAPH", "GRAPH ",
	"bass:x <p> <o> .", "b:x <p> <o> .", "@prefix b: <http://e/> . b:x b:y b:z .", "@prefix base: <http://e/> . base:x base:y base:z .",
	"<a> <b> <c> ; ; <d> <e> .", "<a> <b> <c> , , <d> .", "<a> <b> <c> ;", "<a> <b> <c> ,", "<a> <b> [ ] .", "<a> <b> [ <c> <d> ; ] .", "<a> <b> [ <c> [ <d> ( [] ) ] ] .",
	"<a> <b> ( ) .", "<a> <b> ( ( ) ) .", "<a> <b> (", "<a> <b> [", "<a> <b> ( 1", "<a> <b> [ <c>", "<a> <b> ( [ <c> ( 1 ) ] ) , 2 .",
	"_:a <b> _:c .", "_:a.b <b> _:c. .", "_: <b> <c> .", "_", "_:", "_:a", "<a", "<a>", "<a> ", "<a> <b>", "<a> <b> ", "<a> <b> <c>", "<a> <b> <c> ",
	":a :b :c .", "x:a <b> <c> .", "<a> x:b <c> .", "<a> <b> x:c .", "@prefix x: <http://e/> . x:a\\. x:b x:c\\.. .", "@prefix x: <http://e/> . x:a. x:b x:c.",
	"<a> <b> <c> . <d> <e> <f> .", "<a> <b> <c> .<d> <e> <f>.", "\ufeff<a> <b> <c> .", "<a>\u00a0<b>\u2028<c>\u3000.", "<a> <b> <c> \x00 .", "\x00",
	"<a> <b> \"\\uD800\" .", "<a> <b> \"\\U00110000\" .", "<\\u0020> <b> <c> .", "<a> <b> \"a\nb\" .", "<a> <b> '''a\nb''' .",
}

// dtDocs: datatype IRIs of `"x"^^…` written in every indirect way — relative references under @base / BASE / a
// default base, prefixed names whose namespace is absolute, relative, or cut in the middle of the local name, with
// ordinary and keyword-like prefix labels — for datatypes that must be refused (rdf:langString, rdf:dirLangString:
// no tag possible) and for ordinary ones (xsd:string, xsd:integer, rdf:HTML, a plain IRI).
func (g *gen) dtDocs() {
	type target struct{ doc, frag string } // datatype = doc + "#" + frag
	targets := []target{
		{"http://www.w3.org/1999/02/22-rdf-syntax-ns", "langString"}, {"http://www.w3.org/1999/02/22-rdf-syntax-ns", "dirLangString"},
		{"http://www.w3.org/1999/02/22-rdf-syntax-ns", "HTML"}, {"http://www.w3.org/2001/XMLSchema", "string"},
		{"http://www.w3.org/2001/XMLSchema", "integer"}, {"http://e.example/a/dt", "type1"},
	}
	labels := []string{"r", "", "a", "ab", "base", "BASE", "prefix", "graph", "g", "t", "f", "true", "x.y"}
	quotes := []string{"\"x\"", "'x'", "\"\"\"x\"\"\"", ""}
	shapes := []string{"<http://e/s> <http://e/p> %s .", "<http://e/s> <http://e/p> 1 , %s ; <http://e/q> ( %s ) , [ <http://e/r> %s ] ."}
	trigShapes := []string{"{ <http://e/s> <http://e/p> %s }", "GRAPH <http://e/g> { <http://e/s> <http://e/p> ( %s ) . }"}
	n := 0
	for ti, t := range targets {
		full := t.doc + "#" + t.frag
		dir := t.doc[:strings.LastIndex(t.doc, "/")+1]
		last := t.doc[strings.LastIndex(t.doc, "/")+1:]
		type form struct{ base, hdr, dt string }
		forms := []form{
			{"", "", "<" + full + ">"},
			{"", "@base <" + t.doc + "> .\n", "<#" + t.frag + ">"},
			{"", caseMix(g.r, "BASE") + " <" + t.doc + ">\n", "<#" + t.frag + ">"},
			{t.doc, "", "<#" + t.frag + ">"},
			{dir + "index.html", "", "<" + last + "#" + t.frag + ">"},
			{"", "@base <" + dir + "x/y> .\n", "<../" + last + "#" + t.frag + ">"},
			{"", "@base <" + dir + "x/y> .\n", "<./.././" + last + "#" + t.frag + ">"},
			{t.doc, "", "<#" + t.frag[:len(t.frag)-1] + fmt.Sprintf("\\u%04X", t.frag[len(t.frag)-1]) + ">"},
			{dir, "@base <" + last + "> .\n", "<#" + t.frag + ">"},
			{"http://other.example/d/f", "", "<#" + t.frag + ">"},
		}
		for li, l := range labels {
			if (li+ti)%3 != 0 && l != "r" && l != "a" { // a third of the labels per target, `r` and `a` always
				continue
			}
			forms = append(forms,
				form{"", "@prefix " + l + ": <" + t.doc + "#> .\n", l + ":" + t.frag},
				form{t.doc, "@prefix " + l + ": <#> .\n", l + ":" + t.frag},
				form{"", "@base <" + t.doc + "> .\n" + caseMix(g.r, "PREFIX") + " " + l + ": <#>\n", l + ":" + t.frag},
				form{dir + "index.html", "@prefix " + l + ": <" + last + "#> .\n", l + ":" + t.frag},
				form{"", "@prefix " + l + ": <" + t.doc + "#" + t.frag[:2] + "> .\n", l + ":" + t.frag[2:]},
				form{dir + "q", "@prefix " + l + ": <" + last + "#" + t.frag[:1] + "> .\n", l + ":" + t.frag[1:]},
				form{"", "@prefix " + l + ": <" + full + "> .\n", l + ":"},
			)
		}
		for fi, f := range forms {
			lit := quotes[(fi+ti)%len(quotes)] + "^^" + f.dt
			if strings.HasPrefix(f.dt, "<") && !hasScheme(f.dt[1:]) {
				// documents (4 shapes per form) whose datatype is a relative IRIREF, by what it resolves to
				ref := strings.ReplaceAll(strings.TrimSuffix(f.dt[1:], ">"), fmt.Sprintf("\\u%04X", t.frag[len(t.frag)-1]), t.frag[len(t.frag)-1:])
				g.rep.Hist["dt:reldt_"+reldtClass(hdrBase(f.base, f.hdr), ref)] += len(shapes) + len(trigShapes)
			}
			for _, sh := range shapes {
				doc := []byte(f.hdr + strings.ReplaceAll(sh, "%s", lit))
				g.c07("dt-ttl", f.base, doc, false)
				n++
			}
			for _, sh := range trigShapes {
				doc := []byte(f.hdr + strings.ReplaceAll(sh, "%s", lit))
				g.dec("dt-trig", "trig", false, f.base, doc, true)
				g.dec("dt-trig-as-turtle", "turtle", false, f.base, doc, true)
				n++
			}
		}
	}
	g.rep.Hist["dt:docs"] += n
}

// kwLabels: prefix labels that collide with a keyword look-ahead of the top-level functions, of
// reader_scan_PredicateObjectList ('a') or of reader_scan_Object ('true' / 'false'): proper prefixes of,
// the keywords themselves, and extensions, in several spellings.
var kwLabels = []string{
	"g", "gr", "gra", "grap", "graph", "graphs", "grant", "gram", "grab", "graPh", "Gra", "GRA", "GRAP", "GRAPH", "GRAPHx", "gRaPhic", "gx", "grx",
	"p", "pr", "pre", "pref", "prefi", "prefix", "prefixx", "prez", "prefab", "P", "PR", "PRE", "PREFI", "PREFIX", "PREFIXES", "pRefIy",
	"b", "ba", "bas", "base", "based", "bat", "bass", "B", "BA", "BAS", "BASE", "BASEx", "bAsk",
	"a", "ab", "aa", "A",
	"t", "tr", "tru", "trub", "true", "truex", "trx", "f", "fa", "fal", "fals", "falsy", "false", "falsex", "fx",
}

// shortened: every label obtained by deleting one character (what a look-ahead that forgets to push a rune back reads).
func shortened(l string) []string {
	seen := map[string]bool{l: true}
	var out []string
	for i := range l {
		s := l[:i] + l[i+1:]
		if !seen[s] {
			seen[s] = true
			out = append(out, s)
		}
	}
	return out
}

// kwDocs: every keyword-like label in every position (subject, predicate, object, list member, datatype, graph
// name), with and without the shortened labels declared too (distinct namespaces, so a lost rune shows either
// as an unknown prefix or as a different IRI).
func (g *gen) kwDocs() {
	ttlBodies := []string{
		"%[1]s:s o:p o:o .", "o:s %[1]s:p o:o .", "o:s o:p %[1]s:o .", "o:s o:p o:x , %[1]s:o ; o:q %[1]s:o2 .",
		"o:s o:p \"x\"^^%[1]s:d .", "o:s o:p ( %[1]s:a %[1]s:b ) .", "[ %[1]s:p %[1]s:o ] o:p o:o .", "( %[1]s:a ) %[1]s:p %[1]s:o .",
		"%[1]s:s a %[1]s:o .", "%[1]s:s\t%[1]s:p\n%[1]s:o.", "o:s o:p o:o .\n%[1]s:s o:p o:o .", "%[1]s: %[1]s: %[1]s: .",
	}
	trigBodies := []string{
		"%[1]s:g { o:s o:p o:o }", "GRAPH %[1]s:g { %[1]s:s %[1]s:p %[1]s:o }", "graph\t%[1]s:g{%[1]s:s a %[1]s:o.}", "{ %[1]s:s %[1]s:p %[1]s:o }",
		"{ o:s o:p o:o . %[1]s:s o:p %[1]s:o }", "%[1]s:g { ( %[1]s:a ) o:p [ %[1]s:q %[1]s:o ] }", "o:g { o:s o:p o:o } %[1]s:s o:p o:o .",
	}
	for li, l := range kwLabels {
		for _, withShort := range []bool{false, true} {
			var hdr strings.Builder
			decl := func(lab string) {
				if (li+len(lab))%2 == 0 {
					fmt.Fprintf(&hdr, "@prefix %s: <http://k.example/n-%s/> .\n", lab, lab)
				} else {
					fmt.Fprintf(&hdr, "%s %s: <http://k.example/n-%s/>\n", caseMix(g.r, "PREFIX"), lab, lab)
				}
			}
			decl("o")
			decl(l)
			if withShort {
				for _, s := range shortened(l) {
					if s != "o" {
						decl(s)
					}
				}
			}
			for _, b := range ttlBodies {
				doc := []byte(hdr.String() + fmt.Sprintf(b, l))
				g.c07("kw-ttl", "", doc, false)
				g.rep.Count("kw:docs")
			}
			for _, b := range trigBodies {
				doc := []byte(hdr.String() + fmt.Sprintf(b, l))
				g.dec("kw-trig", "trig", false, "", doc, true)
				g.dec("kw-trig-as-turtle", "turtle", false, "", doc, true)
				g.rep.Count("kw:docs")
			}
		}
	}
}

// ---------------------------------------------------------------- grammar-directed generator

type docGen struct {
	r        *vh.Rng
	sb       bytes.Buffer
	trig     bool
	prefixes []string // declared prefix labels
	depth    int
	spans    []span
	hasBase  bool // an absolute base is in force (relative directive IRIs are generated only then)
	// relative datatype references (reldt.go)
	optBase                 string         // the decoder's default base option ("" = none)
	curBase                 string         // the base the generator believes to be in force ("" = none, unknownBase = some other)
	bias                    bool           // document biased towards RDF-namespace bases and relative datatype references
	stats                   map[string]int // counters handed to the report
	harmful                 int            // literals written whose relative datatype resolves to rdf:langString / rdf:dirLangString
	inColl, inBnpl, inGraph int
	quoteCuts               []int // offsets right after the closing quote of every string (oneshot.go)
}

// genQuoteCuts: quoteCuts of the document genDoc produced last.
var genQuoteCuts []int

var safeSegs = []string{"a", "b", "c", "d", "x1", "y-2", "z_3", "q.r", "~t", "A", "B9"}
var hosts = []string{"e", "example.org", "a.b", "h-1.x"}
var schemes = []string{"http", "https", "ex", "urn"}

func (d *docGen) absIRI() string {
	s := vh.Pick(d.r, schemes) + "://" + vh.Pick(d.r, hosts)
	for i, n := 0, d.r.Intn(3); i < n; i++ {
		s += "/" + vh.Pick(d.r, safeSegs)
	}
	switch d.r.Intn(6) {
	case 0:
		s += "/"
	case 1:
		s += "#"
	case 2:
		s += "#" + vh.Pick(d.r, safeSegs)
	case 3:
		s += "?" + vh.Pick(d.r, safeSegs) + "=" + vh.Pick(d.r, safeSegs)
	}
	return s
}

func (d *docGen) relIRI() string {
	switch d.r.Intn(10) {
	case 0:
		return ""
	case 1:
		return "#" + vh.Pick(d.r, safeSegs)
	case 2:
		return "?" + vh.Pick(d.r, safeSegs)
	case 3:
		return "../" + vh.Pick(d.r, safeSegs)
	case 4:
		return "./" + vh.Pick(d.r, safeSegs)
	case 5:
		return "/" + vh.Pick(d.r, safeSegs) + "/" + vh.Pick(d.r, safeSegs)
	case 6:
		return "//" + vh.Pick(d.r, hosts) + "/" + vh.Pick(d.r, safeSegs)
	case 7:
		return vh.Pick(d.r, safeSegs) + "/../../" + vh.Pick(d.r, safeSegs)
	case 8:
		return vh.Pick(d.r, safeSegs) + "/"
	}
	return vh.Pick(d.r, safeSegs)
}

// ws writes insignificant white space / comments; must=true forces at least one separator.
func (d *docGen) ws(must bool) {
	n := d.r.Intn(3)
	if must && n == 0 {
		n = 1
	}
	if !must && d.r.Chance(60) {
		n = 0
	}
	for i := 0; i < n; i++ {
		switch d.r.Intn(12) {
		case 0:
			d.sb.WriteString("\n")
		case 1:
			d.sb.WriteString("\t")
		case 2:
			d.sb.WriteString("\r\n")
		case 3:
			d.sb.WriteString("# " + vh.Pick(d.r, []string{"c", "<x> .", "\"", "é", ""}) + "\n")
		case 4:
			d.sb.WriteString("#\n")
		default:
			d.sb.WriteString(" ")
		}
	}
}

func (d *docGen) iriTok() {
	switch {
	case len(d.prefixes) > 0 && d.r.Chance(45):
		d.sb.WriteString(vh.Pick(d.r, d.prefixes) + ":" + d.local())
	case d.r.Chance(4):
		d.sb.WriteString("undecl:" + d.local())
	case d.r.Chance(35):
		d.sb.WriteString("<" + d.relIRI() + ">")
	case d.r.Chance(8) && (!d.hasBase || d.r.Chance(10)):
		// UCHAR escapes in an IRIREF; mostly without a base (non-ASCII is outside the model resolver's safe fragment)
		d.sb.WriteString("<http://e/\\u00e9\\U0001F41B>")
	default:
		d.sb.WriteString("<" + d.absIRI() + ">")
	}
}

func (d *docGen) local() string {
	switch d.r.Intn(14) {
	case 0:
		return ""
	case 1:
		return "a.b"
	case 2:
		return "a\\.b"
	case 3:
		return "%41b"
	case 4:
		return "1a"
	case 5:
		return "a:b"
	case 6:
		return "a\\~\\-x"
	case 7:
		return "é·x"
	case 8:
		return "true"
	case 9:
		return "a-"
	}
	return vh.Pick(d.r, []string{"a", "b", "c", "s1", "p_2", "o3"})
}

func (d *docGen) bnodeTok() {
	d.sb.WriteString("_:" + vh.Pick(d.r, []string{"a", "b", "b1", "x.y", "n-1", "0", "é"}))
}

func (d *docGen) stringTok() {
	body := ""
	for i, n := 0, d.r.Intn(4); i < n; i++ {
		body += vh.Pick(d.r, []string{"x", "y z", "\\n", "\\t", "\\\"", "\\'", "\\\\", "\\u00e9", "\\U0001F41B", "é", "🐛", "#", "@", "^", ".", "<", "1"})
	}
	switch d.r.Intn(6) {
	case 0:
		d.sb.WriteString("'" + body + "'")
	case 1:
		d.sb.WriteString("'''" + body + vh.Pick(d.r, []string{"", "\n", "'x", "''x", "\"\""}) + "'''")
	case 2:
		d.sb.WriteString("\"\"\"" + body + vh.Pick(d.r, []string{"", "\n", "\"x", "\"\"x", "''"}) + "\"\"\"")
	default:
		d.sb.WriteString("\"" + body + "\"")
	}
	k := d.r.Intn(9)
	if d.bias && d.r.Chance(40) {
		k = 4
	}
	d.quoteCuts = append(d.quoteCuts, d.sb.Len()) // after the closing quote: before @lang / ^^datatype, or after a plain string
	switch k {
	case 0, 1:
		d.sb.WriteString("@" + d.r.LangTag())
	case 2:
		d.sb.WriteString("^^")
		d.iriTok()
	case 3:
		d.sb.WriteString("^^<http://www.w3.org/2001/XMLSchema#" + vh.Pick(d.r, []string{"integer", "string", "date"}) + ">")
	case 4:
		// relative datatype references: under a base that is the RDF or XSD namespace document they become
		// rdf:langString, rdf:HTML, xsd:string …
		d.relDatatype()
	}
}

func (d *docGen) object() {
	d.depth++
	defer func() { d.depth-- }()
	k := d.r.Intn(16)
	if d.depth > 3 && k >= 12 {
		k = d.r.Intn(12)
	}
	switch k {
	case 0, 1, 2, 3:
		d.iriTok()
	case 4:
		d.bnodeTok()
	case 5, 6, 7:
		d.stringTok()
	case 8:
		d.sb.WriteString(vh.Pick(d.r, []string{"1", "-2", "+3", "0", "1.5", "-.5", "+0.0", "1e3", "1.0E-2", ".5e+1", "12."}))
	case 9:
		d.sb.WriteString(vh.Pick(d.r, []string{"true", "false"}))
	case 10, 11:
		d.sb.WriteString("[")
		d.ws(false)
		d.sb.WriteString("]")
	case 12, 13:
		d.sb.WriteString("[")
		d.ws(false)
		d.inBnpl++
		d.pol()
		d.inBnpl--
		d.ws(false)
		d.sb.WriteString("]")
	default:
		d.collection()
	}
}

func (d *docGen) collection() {
	d.sb.WriteString("(")
	n := d.r.Intn(4)
	d.inColl++
	for i := 0; i < n; i++ {
		d.ws(i > 0)
		d.object()
	}
	d.inColl--
	d.ws(false)
	d.sb.WriteString(")")
}

func (d *docGen) verb() {
	if d.r.Chance(20) {
		d.sb.WriteString("a")
		d.ws(true)
		return
	}
	d.iriTok()
	d.ws(true)
}

func (d *docGen) pol() {
	n := 1 + d.r.Intn(3)
	for i := 0; i < n; i++ {
		if i > 0 {
			d.ws(false)
			d.sb.WriteString(";")
			if d.r.Chance(10) {
				d.ws(false)
				d.sb.WriteString(";")
			}
			d.ws(false)
		}
		d.verb()
		m := 1 + d.r.Intn(100)/70 + d.r.Intn(100)/90
		for j := 0; j < m; j++ {
			if j > 0 {
				d.ws(false)
				d.sb.WriteString(",")
				d.ws(false)
			}
			d.object()
		}
	}
	if d.r.Chance(15) {
		d.ws(false)
		d.sb.WriteString(";")
	}
}

// triples writes `subject predicateObjectList` (no terminator).
func (d *docGen) triples() {
	switch d.r.Intn(12) {
	case 0:
		d.sb.WriteString("[")
		d.ws(false)
		d.sb.WriteString("]")
		d.ws(true)
		d.pol()
	case 1:
		d.sb.WriteString("[")
		d.ws(false)
		d.inBnpl++
		d.pol()
		d.inBnpl--
		d.ws(false)
		d.sb.WriteString("]")
		if d.r.Chance(50) {
			d.ws(true)
			// only a single predicate-object pair: `;` after a blankNodePropertyList subject is rejected (D42)
			d.verb()
			d.object()
		}
	case 2:
		d.collection()
		d.ws(true)
		d.pol()
	case 3:
		d.bnodeTok()
		d.ws(true)
		d.pol()
	default:
		d.iriTok()
		d.ws(true)
		d.pol()
	}
}

func caseMix(r *vh.Rng, s string) string {
	b := []byte(s)
	for i := range b {
		if r.Bool() {
			b[i] = bytes.ToLower(b[i : i+1])[0]
		}
	}
	return string(b)
}

func (d *docGen) directive() {
	if d.bias && d.r.Chance(50) {
		d.baseDirective(d.rdfBaseRef())
		return
	}
	start := d.sb.Len()
	switch d.r.Intn(4) {
	case 0:
		p := vh.Pick(d.r, []string{"", "p", "q", "ex", "b", "base", "prefix", "graph", "a", "true", "p.q", "é"})
		if d.r.Chance(35) {
			p = pickKwLabel(d.r)
		}
		d.sb.WriteString("@prefix")
		d.ws(true)
		d.sb.WriteString(p + ":")
		d.ws(false)
		d.sb.WriteString("<" + d.nsIRI() + ">")
		d.ws(false)
		d.sb.WriteString(".")
		d.prefixes = append(d.prefixes, p)
	case 1:
		p := vh.Pick(d.r, []string{"", "p", "q", "ex", "b", "P", "G", "t", "f"})
		if d.r.Chance(35) {
			p = pickKwLabel(d.r)
		}
		d.sb.WriteString(caseMix(d.r, "PREFIX"))
		d.ws(true)
		d.sb.WriteString(p + ":")
		d.ws(false)
		d.sb.WriteString("<" + d.nsIRI() + ">")
		d.prefixes = append(d.prefixes, p)
	case 2:
		b := d.baseIRI()
		d.sb.WriteString("@base")
		d.ws(false)
		d.sb.WriteString("<" + b + ">")
		d.ws(false)
		d.sb.WriteString(".")
		d.hasBase = true
		d.curBase = nextBase(d.curBase, b)
	default:
		b := d.baseIRI()
		d.sb.WriteString(caseMix(d.r, "BASE"))
		d.ws(false)
		d.sb.WriteString("<" + b + ">")
		d.hasBase = true
		d.curBase = nextBase(d.curBase, b)
	}
	d.spans = append(d.spans, span{start, d.sb.Len() - 1})
}

// baseIRI: mostly without a fragment (the iri package keeps a base's fragment for an empty
// reference, unlike RFC 3986; such bases are outside the model resolver's safe fragment).
func (d *docGen) baseIRI() string {
	if d.r.Chance(6) {
		return vh.Pick(d.r, []string{"http://www.w3.org/1999/02/22-rdf-syntax-ns", "http://www.w3.org/1999/02/x", "http://www.w3.org/2001/XMLSchema"})
	}
	s := d.nsIRI()
	if i := strings.IndexByte(s, '#'); i >= 0 && d.r.Chance(90) {
		s = s[:i]
	}
	// an absolute base with an empty path is outside the safe fragment too (no "/" inserted on merge)
	if strings.Contains(s, "://") && strings.Count(s, "/") == 2 && !strings.ContainsAny(s, "?#") && d.r.Chance(90) {
		s += "/"
	}
	return s
}

func (d *docGen) nsIRI() string {
	if d.r.Chance(30) && (d.hasBase || d.r.Chance(5)) {
		return d.relIRI()
	}
	s := d.absIRI()
	if !strings.ContainsAny(s, "#?") && !strings.HasSuffix(s, "/") && d.r.Chance(70) {
		s += vh.Pick(d.r, []string{"/", "#"})
	}
	return s
}

func (d *docGen) graphBlock() {
	start := d.sb.Len()
	switch d.r.Intn(5) {
	case 0:
		d.sb.WriteString(caseMix(d.r, "GRAPH"))
		d.ws(true)
		switch d.r.Intn(4) {
		case 0:
			d.bnodeTok()
		case 1:
			d.sb.WriteString("[")
			d.ws(false)
			d.sb.WriteString("]")
		default:
			d.iriTok()
		}
		d.ws(false)
	case 1:
		d.iriTok()
		d.ws(false)
	case 2:
		d.bnodeTok()
		d.ws(false)
	case 3:
		d.sb.WriteString("[")
		d.ws(false)
		d.sb.WriteString("]")
		d.ws(false)
	}
	d.sb.WriteString("{")
	n := d.r.Intn(4)
	if d.bias {
		n = 1 + d.r.Intn(3)
	}
	d.inGraph++
	defer func() { d.inGraph-- }()
	for i := 0; i < n; i++ {
		d.ws(false)
		d.triples()
		d.ws(false)
		if i+1 < n || d.r.Bool() {
			d.sb.WriteString(".")
		}
	}
	d.ws(false)
	d.sb.WriteString("}")
	d.spans = append(d.spans, span{start, d.sb.Len() - 1})
}

// genDoc: base is the default base option the document will be decoded with; bias = the document is about
// relative datatype references under RDF-namespace bases (reldt.go). The third result are histogram counters.
func genDoc(r *vh.Rng, trigDoc bool, base string, bias bool) ([]byte, []span, map[string]int) {
	d := &docGen{r: r, trig: trigDoc, hasBase: base != "", optBase: base, curBase: base, bias: bias}
	n := r.Intn(6)
	if bias {
		n = 1 + r.Intn(5)
		if !strings.HasPrefix(base, "http://www.w3.org/1999/02/") || r.Chance(25) {
			d.ws(false)
			d.baseDirective(d.rdfBaseRef())
		}
	}
	for i := 0; i < n; i++ {
		d.ws(false)
		switch {
		case r.Chance(25):
			d.directive()
		case trigDoc && r.Chance(40):
			d.graphBlock()
		default:
			start := d.sb.Len()
			d.triples()
			d.ws(false)
			d.sb.WriteString(".")
			d.spans = append(d.spans, span{start, d.sb.Len() - 1})
		}
	}
	d.ws(false)
	if bias {
		d.count("gen.reldt_biased-docs")
	}
	if d.harmful > 0 {
		d.count("gen.reldt_docs-with-langString-or-dirLangString")
	}
	genQuoteCuts = d.quoteCuts
	return d.sb.Bytes(), d.spans, d.stats
}

var hotBytes = []byte("<>\"'\\ \t\n.;,:@^#()[]{}_-aAtfGgBbPp0e+%\x00\xc3\xa9")

func (g *gen) generated(n, cutsPerDoc int) {
	for i := 0; i < n; i++ {
		trigDoc := g.r.Chance(40)
		base := ""
		if g.r.Chance(50) {
			base = "http://" + vh.Pick(g.r, hosts) + "/" + vh.Pick(g.r, []string{"", "d/", "d/f", "d/e/f.ttl"})
		}
		if g.r.Chance(8) {
			base = vh.Pick(g.r, []string{"http://www.w3.org/1999/02/22-rdf-syntax-ns", "http://www.w3.org/1999/02/index.html", "http://www.w3.org/2001/XMLSchema"})
		}
		bias := g.r.Chance(12)
		if bias {
			// default base option: the RDF namespace document, a sibling of it, none (the document declares it)
			base = vh.Pick(g.r, []string{rdfNSDoc, rdfNSSibling, "http://www.w3.org/1999/02/", "", "", base})
		}
		doc, spans, stats := genDoc(g.r.Fork(), trigDoc, base, bias)
		quoteCuts := genQuoteCuts
		for k, v := range stats {
			g.rep.Hist[k] += v
		}
		if trigDoc {
			g.dec("gen-trig", "trig", false, base, doc, true)
			g.dec("gen-trig-as-turtle", "turtle", false, base, doc, true)
			g.cutsOf("trig", base, doc, spans, cutsPerDoc)
		} else {
			g.c07("gen-ttl", base, doc, false)
			g.cutsOf(vh.Pick(g.r, []string{"turtle", "trig"}), base, doc, spans, cutsPerDoc)
		}
		g.quoteCutsOf(trigDoc, base, doc, spans, quoteCuts)
		if i%4 == 0 {
			g.c15chunk(vh.Pick(g.r, []string{"turtle", "trig"}), base, doc, g.r.Chance(20))
		}
		for k := 0; k < 3; k++ {
			m := g.r.Mutate(doc, hotBytes)
			fail := g.r.Chance(15)
			if g.r.Bool() {
				g.c07("mutated", base, m, fail)
			} else {
				g.dec("mutated", "trig", fail, base, m, true)
			}
			if k == 0 && i%8 == 0 {
				g.c15chunk(vh.Pick(g.r, []string{"turtle", "trig"}), base, m, fail)
			}
		}
	}
}

func (g *gen) ntDocs(n int) {
	for i := 0; i < n; i++ {
		tbl := vh.NewBNTable(func(i int) string { return fmt.Sprintf("b%d", i) })
		qs := g.r.Dataset(vh.DatasetOpts{MaxQuads: 4, NBNodes: 3, NIRIs: 3, IRI: vh.IRIOpts{Exotic: g.r.Chance(20)}})
		var buf bytes.Buffer
		e, err := ntriples.NewEncoder(&buf, ntriples.EncoderConfig{}.SetASCII(g.r.Bool()).SetBlankNodeStringProvider(tbl))
		if err != nil {
			continue
		}
		ok := true
		for _, q := range qs {
			if err := e.AddTriple(context.Background(), tbl.Quad(q).Triple); err != nil {
				ok = false
			}
		}
		e.Close()
		if !ok {
			continue
		}
		g.c07nt("gen-nt", buf.Bytes())
	}
}

func (g *gen) resolveCases(n int) {
	d := &docGen{r: g.r}
	for i := 0; i < n; i++ {
		base := ""
		if g.r.Chance(80) {
			base = d.absIRI()
		}
		ref := d.relIRI()
		if g.r.Chance(30) {
			ref = d.absIRI()
		}
		line := fmt.Sprintf("ttld.resolve %s %s", baseTok(base), vh.XS(ref))
		g.items = append(g.items, item{line: line, goR: goResolve(base, ref), kind: "resolve"})
		g.rep.Count("op:resolve")
	}
}

// ---------------------------------------------------------------- shrinking (delta debugging on the document bytes)

func disagrees(pkg string, fail bool, base string, b []byte) (bool, string, string) {
	res := goDecode(pkg, fail, base, b, 0)
	line := fmt.Sprintf("ttld.dec %s %s %s %s", pkg, endName(fail), baseTok(base), vh.X(b))
	m, err := vh.Driver{Path: *driver}.Run([]string{line})
	if err != nil || len(m) != 1 {
		return false, "", ""
	}
	if m[0] == res.wire {
		return false, res.wire, m[0]
	}
	ms, mv := splitWire(m[0])
	gs, _ := splitWire(res.wire)
	if mv == "err:resolve" && isPrefixOf(ms, gs) {
		return false, res.wire, m[0]
	}
	return true, res.wire, m[0]
}

func shrinkLine(line string) string {
	f := strings.Fields(line)
	if len(f) != 5 || f[0] != "ttld.dec" {
		return line
	}
	doc, _ := vh.UnX(f[4])
	base := ""
	if f[3] != "-" {
		bb, _ := vh.UnX(f[3])
		base = string(bb)
	}
	fail := f[2] == "io"
	bad := func(b []byte) bool { d, _, _ := disagrees(f[1], fail, base, b); return d }
	if !bad(doc) {
		return line
	}
	for chunk := len(doc) / 2; chunk >= 1; {
		progress := false
		for i := 0; i+chunk <= len(doc); {
			cand := append(append([]byte(nil), doc[:i]...), doc[i+chunk:]...)
			if bad(cand) {
				doc = cand
				progress = true
			} else {
				i += chunk
			}
		}
		if !progress || chunk > len(doc) {
			chunk /= 2
		}
	}
	if base != "" && bad(doc) {
		if d, _, _ := disagrees(f[1], fail, "", doc); d {
			base = ""
		}
	}
	_, gw, mw := disagrees(f[1], fail, base, doc)
	return fmt.Sprintf("ttld.dec %s %s %s %s\n      doc=%q base=%q\n      go=%s\n      model=%s", f[1], f[2], baseTok(base), vh.X(doc), doc, base, gw, mw)
}

// runDriver splits a batch over several driver processes by size (the model is the slow side on long documents).
func runDriver(lines []string) ([]string, error) {
	workers := 8
	if len(lines) < 64 {
		workers = 1
	}
	total := 0
	for _, l := range lines {
		total += len(l) + 1
	}
	out := make([]string, len(lines))
	var wg sync.WaitGroup
	var mu sync.Mutex
	var firstErr error
	start, acc := 0, 0
	for i, l := range lines {
		acc += len(l) + 1
		if acc >= total/workers+1 || i == len(lines)-1 {
			a, b := start, i+1
			start, acc = b, 0
			wg.Add(1)
			go func() {
				defer wg.Done()
				res, err := vh.Driver{Path: *driver}.Run(lines[a:b])
				if err != nil {
					mu.Lock()
					if firstErr == nil {
						firstErr = err
					}
					mu.Unlock()
					return
				}
				copy(out[a:b], res)
			}()
		}
	}
	wg.Wait()
	return out, firstErr
}

// ---------------------------------------------------------------- main

func splitWire(w string) ([]string, string) {
	i := strings.LastIndex(w, "|")
	if i < 0 {
		return nil, w
	}
	if w[:i] == "" {
		return nil, w[i+1:]
	}
	return strings.Split(w[:i], ";"), w[i+1:]
}

func main() {
	flag.Parse()
	seed := vh.SeedFromEnv()
	rep := vh.NewReport(*prop, *tier, seed, "all W3C Turtle/TriG/N-Triples files shipped in the repository (with and without base), hand-picked corner documents around past findings, grammar-directed Turtle and TriG documents (directives in any case, prefixed names with escapes, relative IRIs under changing bases, relative datatype references under RDF-namespace bases, four string styles, numeric/boolean shorthand, 'a', nested [ ] and ( ), ;/, lists with trailing ;, comments and white space anywhere, GRAPH and bare graph blocks), byte-level mutations, prefixes (cuts) of those, chunked and failing readers; non-trivial = the implementation yielded at least one statement")
	startWatchdog(rep)
	fs, err := vh.LoadFindings(*findings)
	if err != nil {
		fmt.Fprintln(os.Stderr, "findings:", err)
		os.Exit(2)
	}
	known := map[string]vh.Finding{}
	for _, p := range []string{"C02", "C05", "C06", "C07", "C15"} {
		for k, v := range vh.KnownKeys(fs, p) {
			known[k] = v
		}
	}
	g := &gen{r: vh.NewRng(seed), rep: rep, known: known, seenD: map[uint64]struct{}{}}

	var disagreements []vh.Case
	compare := func() {
		if len(g.items) == 0 {
			return
		}
		lines := make([]string, len(g.items))
		for i, it := range g.items {
			lines[i] = it.line
		}
		res, err := runDriver(lines)
		if err != nil {
			fmt.Fprintln(os.Stderr, err)
			os.Exit(2)
		}
		for i, it := range g.items {
			rep.Compared++
			if res[i] == it.goR {
				continue
			}
			if it.kind == "resolve" {
				if res[i] == "unsure" {
					rep.Count("resolve:outside-safe-fragment")
					continue
				}
				disagreements = append(disagreements, vh.Case{Kind: "disagreement", Op: it.line, Go: it.goR, Model: res[i], Detail: "IRI resolution inside the safe fragment"})
				continue
			}
			ms, mv := splitWire(res[i])
			gs, _ := splitWire(it.goR)
			if mv == "err:resolve" && isPrefixOf(ms, gs) {
				// the model's resolver declined (outside its safe fragment); the statements before agree
				rep.Count("resolver-skip")
				rep.Count("resolver-skip:" + it.kind)
				if os.Getenv("C05TTL_SHOWSKIPS") != "" && len(it.line) < 400 {
					f := strings.Fields(it.line)
					raw, _ := vh.UnX(f[4])
					fmt.Printf("SKIP %s %s %q\n", f[1], f[3], raw)
				}
				continue
			}
			if len(disagreements) < 200 {
				disagreements = append(disagreements, vh.Case{Kind: "disagreement", Op: it.line, Go: it.goR, Model: res[i], Detail: it.kind})
			}
			if *shrinkN > 0 {
				*shrinkN--
				fmt.Println("DISAGREEMENT (minimised):", shrinkLine(it.line))
			}
		}
		g.items = g.items[:0]
		g.queued = 0
	}
	if !*nomodel {
		g.flush = compare
	}

	replayLines := func(path string) {
		b, err := os.ReadFile(path)
		if err != nil {
			fmt.Fprintln(os.Stderr, err)
			os.Exit(2)
		}
		lines := strings.Split(strings.TrimSpace(string(b)), "\n")
		var rj struct {
			Violations    []vh.Case `json:"violations"`
			Disagreements []vh.Case `json:"disagreements"`
		}
		if json.Unmarshal(b, &rj) == nil && len(rj.Violations)+len(rj.Disagreements) > 0 {
			// a replay file written by ./check: the ops of its cases
			lines = lines[:0]
			for _, c := range append(rj.Violations, rj.Disagreements...) {
				op := c.Op
				if i := strings.Index(op, " on x"); i >= 0 && strings.HasPrefix(op, "turtle vs trig") {
					op = "ttld.dec turtle eof - " + op[i+4:]
				}
				lines = append(lines, op)
			}
		}
		for _, l := range lines {
			f := strings.Fields(l)
			if len(f) == 6 && f[0] == "oneshot" && strings.HasPrefix(f[2], "at=") {
				// a one-shot reader failure (oneshot.go): oneshot <pkg> at=<k> chunk=<c> <base> <doc>
				raw, _ := vh.UnX(f[5])
				base := ""
				if f[4] != "-" {
					bb, _ := vh.UnX(f[4])
					base = string(bb)
				}
				var k int
				fmt.Sscanf(f[2], "at=%d", &k)
				if k > 0 && k < len(raw) {
					full := g.dec("replay", f[1], false, base, raw, true)
					g.c15oneshot(f[1], base, raw, k, full, goDecode(f[1], true, base, raw[:k], 0))
					g.c15cuts(f[1], base, raw, nil, []int{k})
				}
				continue
			}
			if len(f) == 5 && f[0] == "ttld.dec" {
				raw, _ := vh.UnX(f[4])
				base := ""
				if f[3] != "-" {
					bb, _ := vh.UnX(f[3])
					base = string(bb)
				}
				if f[1] == "turtle" {
					g.c07("replay", base, raw, f[2] == "io")
				} else {
					g.dec("replay", f[1], f[2] == "io", base, raw, true)
				}
				g.c15chunk(f[1], base, raw, f[2] == "io")
			}
		}
	}

	if *replay != "" {
		replayLines(*replay)
	} else {
		if *hints != "" {
			replayLines(*hints)
		}
		for _, d := range cornerDocs {
			for _, base := range []string{"", "http://e/d/f"} {
				g.c07("corner", base, []byte(d), false)
				g.dec("corner", "turtle", true, base, []byte(d), true)
				g.dec("corner", "trig", true, base, []byte(d), true)
			}
			g.c15chunk("turtle", "", []byte(d), false)
			g.c15chunk("trig", "", []byte(d), false)
		}
		g.reldtCornerDocs()
		rep.Exhaustive = append(rep.Exhaustive, fmt.Sprintf("%d fixed documents with relative datatype references (fragment-only, sibling, dot-segment, absolute-path and network-path references; base from @base / BASE / the default base option / changing in the document; plain objects, collections, blank-node property lists, graph blocks) that resolve to rdf:langString / rdf:dirLangString or to harmless near misses", len(reldtCorners)))
		g.kwDocs()
		g.kwFamDocs(*tier == "thorough")
		g.strTagCutDocs()
		g.graphOghamDocs()
		g.dtDocs()
		rep.Exhaustive = append(rep.Exhaustive, "datatype IRIs of 6 datatypes (rdf:langString, rdf:dirLangString, rdf:HTML, xsd:string, xsd:integer, a plain IRI) written as absolute and relative IRIREFs under @base / BASE / default bases and as prefixed names with absolute, relative and mid-name namespaces and keyword-like labels, in 4 statement shapes, both packages")
		rep.Exhaustive = append(rep.Exhaustive, fmt.Sprintf("%d keyword-like prefix labels (prefixes, spellings and extensions of graph/prefix/base/a/true/false) x 19 statement shapes (subject, predicate, object, list member, datatype, graph name) x shortened labels declared or not", len(kwLabels)))
		n, cuts, w3cuts := 2500**scale, 8, 4
		if *tier == "thorough" {
			n, cuts, w3cuts = 20000**scale, -1, -1
			rep.Exhaustive = append(rep.Exhaustive, "every proper prefix of every generated document and of every W3C Turtle/TriG file of at most 700 bytes (150 random prefixes of the larger ones)")
		} else {
			cuts = 64 / 8
		}
		// quick: 64 random cuts per W3C file is too slow for 700 files x 2; 64 cuts on generated documents
		if *tier == "quick" {
			cuts, w3cuts = 64, 6
		}
		g.w3c(w3cuts)
		g.generated(n, cuts)
		g.ntDocs(n / 2)
		g.resolveCases(n)
	}

	finish := func() {
		if len(disagreements) > 40 {
			disagreements = disagreements[:40]
		}
		for _, c := range disagreements {
			rep.Add(c)
		}
		for _, kind := range []string{"violation", "known"} {
			for _, c := range g.viol {
				if c.Kind == kind {
					rep.Add(c)
				}
			}
		}
		if err := rep.Write(*out); err != nil {
			fmt.Fprintln(os.Stderr, err)
			os.Exit(2)
		}
		fmt.Printf("c05ttl[%s]: %d evaluations, %d compared with the model, %d failures, %d known, resolver-skips=%d\n", *prop, rep.Evaluations, rep.Compared, rep.Failures(), len(rep.Cases)-rep.Failures(), rep.Hist["resolver-skip"])
		if rep.Failures() > 0 {
			os.Exit(1)
		}
	}
	if *nomodel {
		finish()
		return
	}
	compare()
	finish()
}
