/-
  Definitions used by the token-level theorems of C02 / C07 / C08 (Turtle and TriG): the facts about
  the regenerated tables (T1) the proofs rest on, and the hypotheses on inputs.
  `Props/C02TokensTables.lean` proves `TablesOK` for the tables regenerated from /repo on this run.
-/
import RdfModel.Model.TurtleTokens
import RdfModel.Spec.TurtlePrinter
namespace RdfModel.C02
open RdfModel RdfModel.Ttl

def Scalars (s : List Nat) : Prop := ∀ c ∈ s, IsScalar c

/-- Facts about the regenerated tables. Each is a statement over *every* code point;
    `Props/C02TokensTables.lean` proves them by `decide` on the table entries. -/
structure TablesOK (T : Tables) : Prop where
  iri_mode : ∀ a c, lookup (T.iriEsc a) 0 c ≤ 2
  /-- a rune `formatIRI` leaves raw is one `produceIRIREF` takes raw -/
  iri_raw : ∀ a c, lookup (T.iriEsc a) 0 c = 0 → iriForbidden c = false ∧ c ≠ 0x3e ∧ c ≠ 0x5c
  iri_u4 : ∀ a c, lookup (T.iriEsc a) 0 c = 1 → c ≤ 0xFFFF
  lit_mode : ∀ a c, lookup (T.litEsc a) 0 c ≤ 3
  lit_raw : ∀ a c, lookup (T.litEsc a) 0 c = 0 → c ≠ 0x22 ∧ c ≠ 0x5c
  lit_echar : ∀ a c, lookup (T.litEsc a) 0 c = 1 → echarDecode (lookup T.echar 0 c) = some c
  lit_u4 : ∀ a c, lookup (T.litEsc a) 0 c = 2 → c ≤ 0xFFFF
  hex : ∀ d, d < 16 → lookup T.hexDec 0 (hexUpper d) = d + 1
  hex_lower : ∀ d, d < 16 → lookup T.hexDec 0 (hexLower d) = d + 1
  hex_all : ∀ c, Spec.TtlPrint.isHex c = true → lookup T.hexDec 0 c ≠ 0
  /-- local-name escape selector: a rune left raw is accepted raw by `producePrefixedName` at that position -/
  loc_raw_first : ∀ l c, c ≤ 0x10FFFF → lookup (T.localEsc true l) 0 c = 0 →
      (inRanges T.pnCharsU c || c = 0x3a || isDigit c) = true
  loc_raw_body : ∀ l c, c ≤ 0x10FFFF → lookup (T.localEsc false l) 0 c = 0 →
      (inRanges T.pnChars c || c = 0x2e || c = 0x3a) = true
  /-- … and a raw last rune is never '.', which the decoder would hand back -/
  loc_raw_last : ∀ f c, lookup (T.localEsc f true) 0 c = 0 → c ≠ 0x2e
  /-- a rune written `\x` is one of the PN_LOCAL_ESC characters the decoder accepts -/
  loc_esc : ∀ f l c, lookup (T.localEsc f l) 0 c = 2 → isLocalEsc c = true
  /-- delimiters are not name characters -/
  pn_colon : inRanges T.pnChars 0x3a = false
  pn_dot : inRanges T.pnChars 0x2e = false
  pn_pct : inRanges T.pnChars 0x25 = false
  pn_bs : inRanges T.pnChars 0x5c = false
  pnU_dot : inRanges T.pnCharsU 0x2e = false
  pnU_pct : inRanges T.pnCharsU 0x25 = false
  pnU_bs : inRanges T.pnCharsU 0x5c = false
  pn_sp : inRanges T.pnChars 0x20 = false
  pn_lf : inRanges T.pnChars 0x0a = false
  pnU_sp : inRanges T.pnCharsU 0x20 = false
  pnU_lf : inRanges T.pnCharsU 0x0a = false
  /-- hex digits are name characters (a printed `%XX` continues with two raw name characters) -/
  pn_hex : ∀ c, Spec.TtlPrint.isHex c = true → inRanges T.pnChars c = true
  /-- digits are name characters -/
  pn_digit : ∀ c, isDigit c = true → inRanges T.pnChars c = true

/-- A local name `format_PN_LOCAL` writes without changing it: every rune is left raw or written
    `\x` (no rune is percent-encoded, none is unrepresentable). This is what the repaired encoder
    guarantees for IRIs that contain IRI characters only (D5). -/
def localOKFrom (T : Tables) : Bool → List Nat → Bool
  | _, [] => true
  | first, c :: rest =>
    (lookup (T.localEsc first rest.isEmpty) 0 c = 0 || lookup (T.localEsc first rest.isEmpty) 0 c = 2)
      && localOKFrom T false rest

def PNLocalOK (T : Tables) (loc : List Nat) : Bool := localOKFrom T true loc

/-- A prefix label `producePNAME_NS` reads: empty, or PN_CHARS_BASE followed by PN_CHARS / '.'. -/
def prefixOK (T : Tables) (p : List Nat) : Bool :=
  match p with
  | [] => true
  | c :: rest => inRanges T.pnCharsBase c && c != 0x3a && rest.all (fun x => (inRanges T.pnChars x || x = 0x2e) && x != 0x3a)

/-- What may follow a prefixed name so that the local name ends there: the end of the input, or a
    rune that is neither a name character nor one of `. : % \`. (The encoder writes a space or a
    line feed, which qualify: `TablesOK.pn_sp` …) -/
def LocalStop (T : Tables) (e : End) (rest : List Nat) : Prop :=
  match rest with
  | [] => e = .eof
  | c :: _ => inRanges T.pnChars c = false ∧ inRanges T.pnCharsU c = false ∧ isDigit c = false ∧
      c ≠ 0x2e ∧ c ≠ 0x3a ∧ c ≠ 0x25 ∧ c ≠ 0x5c

/-- What may follow a bare numeric token: the end of the input, or a rune that cannot continue a
    number (not a digit, '.', 'e', 'E'); or a '.' that is itself followed by such a rune or the end
    (the statement terminator written without a space). -/
def numStopRune (c : Nat) : Bool := !(isDigit c) && c != 0x2e && c != 0x65 && c != 0x45

def NumStop (e : End) (rest : List Nat) : Prop :=
  match rest with
  | [] => e = .eof
  | c :: r => numStopRune c = true ∨
      (c = 0x2e ∧ (match r with | [] => e = .eof | d :: _ => (!(isDigit d) && d != 0x65 && d != 0x45) = true))

/-- Language tag `[a-zA-Z]+ ('-' [a-zA-Z0-9]+)*`. -/
def langRest : List Nat → Bool → Bool
  | [], needAlnum => !needAlnum
  | c :: rest, needAlnum =>
    if isAlpha c || isDigit c then langRest rest false
    else if c = 0x2d then (!needAlnum && langRest rest true)
    else false

def langPrim : List Nat → Bool → Bool
  | [], seen => seen
  | c :: rest, seen =>
    if isAlpha c then langPrim rest true
    else if c = 0x2d then (seen && langRest rest true)
    else false

def langOK (t : List Nat) : Bool := langPrim t false

/-- What may follow a language tag: the end of the input or a rune that is not a letter, digit or '-'. -/
def LangStop (e : End) (rest : List Nat) : Prop :=
  match rest with
  | [] => e = .eof
  | c :: _ => isAlpha c = false ∧ isDigit c = false ∧ c ≠ 0x2d

/-- Blank node label `(PN_CHARS_U | [0-9]) ((PN_CHARS | '.')* PN_CHARS)?`. -/
def labelOK (T : Tables) (l : List Nat) : Bool :=
  match l with
  | [] => false
  | c :: rest =>
    (inRanges T.pnCharsU c || isDigit c) &&
    rest.all (fun x => inRanges T.pnChars x || x = 0x2e) &&
    (match rest.getLast? with
      | none => true
      | some z => inRanges T.pnChars z)

/-- What may follow a short string for the printed text to be read as that string: nothing is
    required unless the string is empty and written in a short style — then the next rune must not
    be the same quote (which would open a long string) and the input must not end in a reader error
    (the producer looks one rune ahead after `""`). -/
def StrStop (e : End) (st : Spec.TtlPrint.Style) (s rest : List Nat) : Prop :=
  st.long = true ∨ s ≠ [] ∨ (match rest with | [] => e = .eof | c :: _ => c ≠ st.delim)

/-- What may follow the closing quote when the encoder wrote the empty string `""`: not another `"`
    (it would open a long string), and not a reader error (the producer looks one rune ahead). -/
def EmptyStrStop (e : End) (rest : List Nat) : Prop :=
  match rest with
  | [] => e = .eof
  | c :: _ => c ≠ 0x22

def LabelStop (T : Tables) (e : End) (rest : List Nat) : Prop :=
  match rest with
  | [] => e = .eof
  | c :: _ => inRanges T.pnChars c = false ∧ c ≠ 0x2e

end RdfModel.C02
