/-
  Property C12 — T2 tie: structural facts regenerated from iri/parsed_iri.go on every run
  (lean/RdfModel/Gen/IRIFacts.lean, written by go/cmd/extract/gen_c12.go) against what the
  hand-written model `Model.IRI` hard-codes. A change of the source that alters one of these facts
  makes the corresponding theorem fail to build.
-/
import RdfModel.Gen.IRIFacts
import RdfModel.Model.IRI
namespace RdfModel.C12

/-- the guard of the reclassification block is exactly the conjunction `Model.IRI.reclassify` tests -/
theorem gen_reclassify_guard :
    Gen.IRIFacts.reclassifyGuard =
      ["u.Scheme!=\"\"", "u.Scheme!=\"http\"", "u.Scheme!=\"https\"", "u.Scheme!=\"file\"", "u.Host==\"\"", "u.Opaque==\"\""] := rfl

/-- the schemes kept hierarchical are the model's `sHttp`, `sHttps`, `sFile` -/
theorem gen_hierarchical_schemes :
    Gen.IRIFacts.hierarchicalSchemes = [IRI.sHttp, IRI.sHttps, IRI.sFile] := by decide

/-- forceFragment is `HasSuffix(s, "#")`, combined by `||` in ResolveReference -/
theorem gen_force_fragment :
    Gen.IRIFacts.forceFragmentSuffix = "#" ∧
    Gen.IRIFacts.forceFragmentCombine = "iri.forceFragment||ref.forceFragment" := ⟨rfl, rfl⟩

/-- the only literals resolvePath compares `elem` with are "." and ".." -/
theorem gen_resolvePath_literals :
    Gen.IRIFacts.resolvePathElemLiterals = [".", ".."] := rfl

/-- the exported API of iri/parsed_iri.go and iri/base_iri.go is exactly the list the T3 histories drive
    (go/cmd/c12/hist.go, wrap.go; `RelativizeIRI` by go/cmd/c13). Hand-written expectation: a NEW exported function
    or method makes this fact fail until it is modelled (Model/ParsedIRI.lean `HOp`) and driven.
      func.ParseIRI            piri.parse / every op            ParsedIRI.String        every op (state field 1)
      ParsedIRI.Parse          piri.resolve/chain, hist P C     ParsedIRI.DropFragment  hist D Q C
      ParsedIRI.ResolveReference  hist Q V                       ParsedIRI.IsAbs         hist (state field 15), piri.base
      ParsedIRI.URL            every op (state fields 4..14), hist U
      func.NewBaseIRI / func.ParseBaseIRI  piri.base, hist B     BaseIRI.Parse / ResolveReference / String / IsAbs  hist B
      BaseIRI.RelativizeIRI    property C13 (Model/Prefix.lean, go/cmd/c13) -/
theorem gen_parsedIRI_api :
    Gen.IRIFacts.parsedIRIApi =
      ["BaseIRI.IsAbs", "BaseIRI.Parse", "BaseIRI.RelativizeIRI", "BaseIRI.ResolveReference", "BaseIRI.String",
       "ParsedIRI.DropFragment", "ParsedIRI.IsAbs", "ParsedIRI.Parse", "ParsedIRI.ResolveReference", "ParsedIRI.String",
       "ParsedIRI.URL", "func.NewBaseIRI", "func.ParseBaseIRI", "func.ParseIRI"] := rfl

/-- `DropFragment` is the three unconditional assignments `Model.PIRI.ParsedIRI.dropFragment` performs -/
theorem gen_dropFragment_body :
    Gen.IRIFacts.dropFragmentBody =
      ["u.forceFragment=false", "u.u.Fragment=\"\"", "u.u.RawFragment=\"\""] := rfl

end RdfModel.C12
