/-
  C20F: strconv.ParseFloat (the model `Xsd.parseFloat`) on the lexical space of xsd:decimal reads
  exactly the number the XSD lexical mapping (`Spec.Xsd.decimalLex`) assigns.
-/
import RdfModel.Props.C20FloatDefs
import RdfModel.Proofs.C20Str
namespace RdfModel.Proofs.C20F
open RdfModel RdfModel.Xsd
open RdfModel.Proofs.C20 (nv nv_eq natValue_eq_nv isDigit_eq)


/-- shorthand -/
abbrev spanD := Spec.Xsd.spanDigits

/-- the unsigned part of `decimalLex` -/
def decBody (r : Bytes) : Option (Nat × Nat) :=
  match (spanD r).2 with
  | [] => if (spanD r).1.isEmpty then none else some (Spec.Xsd.natValue (spanD r).1, 0)
  | c :: r2 =>
    if c = 0x2E then
      if (spanD r2).2.isEmpty && !((spanD r).1.isEmpty && (spanD r2).1.isEmpty) then
        some (Spec.Xsd.natValue ((spanD r).1 ++ (spanD r2).1), (spanD r2).1.length) else none
    else none

theorem decimalLex_body {a : Bytes} {neg : Bool} {n k : Nat}
    (h : Spec.Xsd.decimalLex a = some (neg, n, k)) :
    (Spec.Xsd.signSplit a).1 = neg ∧ decBody (Spec.Xsd.signSplit a).2 = some (n, k) := by
  unfold Spec.Xsd.decimalLex at h
  unfold decBody
  generalize Spec.Xsd.signSplit a = p at *
  obtain ⟨ng, r⟩ := p
  simp only at h ⊢
  generalize hs : Spec.Xsd.spanDigits r = q at *
  obtain ⟨i, r1⟩ := q
  simp only at h ⊢
  cases r1 with
  | nil =>
    simp only at h ⊢
    split at h
    · simp at h
    · simp_all
  | cons c r2 =>
    simp only at h ⊢
    split at h
    · generalize hs2 : Spec.Xsd.spanDigits r2 = q2 at *
      obtain ⟨f, r3⟩ := q2
      simp only at h ⊢
      split at h
      · simp_all
      · simp at h
    · simp at h



theorem rfLoop_nil (st : RF) : rfLoop 10 st [] = (st, []) := by simp [rfLoop]

theorem rfLoop_dot (st : RF) (r : Bytes) (h : st.sawdot = false) :
    rfLoop 10 st (0x2E :: r) = rfLoop 10 { st with sawdot := true, dp := st.nd } r := by
  simp [rfLoop, h]

theorem rfLoop_digit (st : RF) (c : Nat) (r : Bytes) (h : Spec.Xsd.isDigit c = true) :
    rfLoop 10 st (c :: r) =
      if c = 0x30 ∧ st.nd = 0 then rfLoop 10 { st with sawdigits := true, dp := st.dp - 1 } r
      else rfLoop 10 { st with sawdigits := true, nd := st.nd + 1, mant := st.mant * 10 + (c - 0x30) } r := by
  have h' := (C20.isDigit_iff c).1 h
  have h1 : c ≠ 0x5F := by omega
  have h2 : c ≠ 0x2E := by omega
  rw [rfLoop]
  simp only [h1, h2, if_false, isDigit_eq, h, if_true]

theorem rfLoop_nondigit (st : RF) (c : Nat) (r : Bytes) (h : Spec.Xsd.isDigit c = false)
    (h1 : c ≠ 0x5F) (h2 : c ≠ 0x2E) : rfLoop 10 st (c :: r) = (st, c :: r) := by
  rw [rfLoop]
  simp [h1, h2, isDigit_eq, h]

/-- the digit run: `rfLoop` over the maximal digit prefix -/
theorem rfLoop_span (s : Bytes) : ∀ st : RF, (st.nd = 0 → st.mant = 0) →
    ∃ st' : RF, rfLoop 10 st s = rfLoop 10 st' (spanD s).2 ∧
      st'.mant = nv st.mant (spanD s).1 ∧
      (st'.nd : Int) - st'.dp = st.nd - st.dp + (spanD s).1.length ∧
      st'.sawdot = st.sawdot ∧ st'.underscores = st.underscores ∧
      st'.sawdigits = (st.sawdigits || !(spanD s).1.isEmpty) ∧
      (st'.nd = 0 → st'.mant = 0) := by
  induction s with
  | nil => intro st h; exact ⟨st, by simp [spanD, Spec.Xsd.spanDigits, nv]; exact h⟩
  | cons c r ih =>
    intro st h
    by_cases hc : Spec.Xsd.isDigit c = true
    · have hsd : spanD (c :: r) = (c :: (spanD r).1, (spanD r).2) := by
        simp [spanD, Spec.Xsd.spanDigits, hc]
      rw [hsd, rfLoop_digit st c r hc]
      by_cases hz : c = 0x30 ∧ st.nd = 0
      · rw [if_pos hz]
        obtain ⟨st', e1, e2, e3, e4, e5, e6, e7⟩ :=
          ih { st with sawdigits := true, dp := st.dp - 1 } (by simpa using h)
        refine ⟨st', e1, ?_, ?_, e4, e5, ?_, e7⟩
        · rw [e2]; simp [nv, h hz.2, hz.1]
        · rw [e3]; simp; omega
        · rw [e6]; simp
      · rw [if_neg hz]
        obtain ⟨st', e1, e2, e3, e4, e5, e6, e7⟩ :=
          ih { st with sawdigits := true, nd := st.nd + 1, mant := st.mant * 10 + (c - 0x30) } (by simp)
        refine ⟨st', e1, ?_, ?_, e4, e5, ?_, e7⟩
        · rw [e2]; simp [nv]
        · rw [e3]; simp; omega
        · rw [e6]; simp
    · have hc' : Spec.Xsd.isDigit c = false := by simpa using hc
      have hsd : spanD (c :: r) = ([], c :: r) := C20.spanDigits_nondigit hc'
      rw [hsd]
      exact ⟨st, by simp [nv]; exact h⟩


theorem readFloat_of {a s1 : Bytes} {neg : Bool} {st : RF}
    (hsp : Spec.Xsd.signSplit a = (neg, s1)) (ha : a ≠ [])
    (hx : ∀ z x c r, s1 = z :: x :: c :: r → ¬(z = 0x30 ∧ lower x = 0x78))
    (hloop : rfLoop 10 {} s1 = (st, [])) (hd : st.sawdigits = true) (hu : st.underscores = false) :
    readFloat a = some (.fin neg st.mant 10
      (if st.mant ≠ 0 then (if st.sawdot then st.dp else (st.nd : Int)) - st.nd else 0) st.nd, a.length) := by
  cases a with
  | nil => exact absurd rfl ha
  | cons b r =>
    unfold readFloat
    by_cases h1 : b = 0x2B
    · subst h1
      simp [Spec.Xsd.signSplit] at hsp
      obtain ⟨rfl, rfl⟩ := hsp
      rcases r with _ | ⟨z, _ | ⟨x, _ | ⟨c, r'⟩⟩⟩
      · simp [hloop, hd, hu]
      · simp [hloop, hd, hu]
      · simp [hloop, hd, hu]
      · have := hx z x c r' rfl
        simp only [if_true, if_neg this]
        simp [hloop, hd, hu]
    · by_cases h2 : b = 0x2D
      · subst h2
        simp [Spec.Xsd.signSplit] at hsp
        obtain ⟨rfl, rfl⟩ := hsp
        rcases r with _ | ⟨z, _ | ⟨x, _ | ⟨c, r'⟩⟩⟩
        · simp [hloop, hd, hu]
        · simp [hloop, hd, hu]
        · simp [hloop, hd, hu]
        · have := hx z x c r' rfl
          simp [if_neg this, hloop, hd, hu]
      · simp [Spec.Xsd.signSplit, h1, h2] at hsp
        obtain ⟨rfl, rfl⟩ := hsp
        simp only [if_neg h1, if_neg h2]
        rcases r with _ | ⟨x, _ | ⟨c, r'⟩⟩
        · simp [hloop, hd, hu]
        · simp [hloop, hd, hu]
        · have := hx b x c r' rfl
          simp only [if_neg this]
          simp [hloop, hd, hu]
theorem body_head {s : Bytes} {p : Nat × Nat} (h : decBody s = some p) :
    ∃ x t, s = x :: t ∧ (Spec.Xsd.isDigit x = true ∨ x = 0x2E) := by
  cases s with
  | nil => simp [decBody, spanD, Spec.Xsd.spanDigits] at h
  | cons x t =>
    refine ⟨x, t, rfl, ?_⟩
    by_cases hx : Spec.Xsd.isDigit x = true
    · exact Or.inl hx
    · have hx' : Spec.Xsd.isDigit x = false := by simpa using hx
      have hsd : spanD (x :: t) = ([], x :: t) := C20.spanDigits_nondigit hx'
      unfold decBody at h
      rw [hsd] at h
      simp only at h
      split at h
      · next he => exact Or.inr he
      · simp at h

theorem lower_ne_x : ∀ x, x < 0x3A → 0x2E ≤ x → lower x ≠ 0x78 := by decide

theorem body_nohex {s : Bytes} {p : Nat × Nat} (h : decBody s = some p) :
    ∀ z x c r, s = z :: x :: c :: r → ¬(z = 0x30 ∧ lower x = 0x78) := by
  intro z x c r hs ⟨hz, hl⟩
  subst hs hz
  by_cases hx : Spec.Xsd.isDigit x = true
  · have := (C20.isDigit_iff x).1 hx
    exact lower_ne_x x (by omega) (by omega) hl
  · have hx' : Spec.Xsd.isDigit x = false := by simpa using hx
    have hsd : spanD (0x30 :: x :: c :: r) = ([0x30], x :: c :: r) := by
      have h0 : Spec.Xsd.isDigit 0x30 = true := by decide
      show Spec.Xsd.spanDigits (0x30 :: x :: c :: r) = _
      rw [Spec.Xsd.spanDigits, C20.spanDigits_nondigit hx']
      simp [h0]
    unfold decBody at h
    rw [hsd] at h
    simp only at h
    split at h
    · next he => subst he; revert hl; decide
    · simp at h

theorem cpl_zero {x : Nat} {t p : Bytes} {q : Nat} (h : Spec.Xsd.isDigit x = true ∨ x = 0x2E)
    (hq : 0x61 ≤ q) : commonPrefixLenIC (x :: t) (q :: p) = 0 := by
  have hx : x ≤ 0x39 := by
    rcases h with h | h
    · exact ((C20.isDigit_iff x).1 h).2
    · omega
  simp only [commonPrefixLenIC]
  have : ¬(0x41 ≤ x ∧ x ≤ 0x5A) := by omega
  rw [if_neg this, if_neg (by omega)]

theorem special_none {a s1 : Bytes} {neg : Bool} {x : Nat} {t : Bytes}
    (hsp : Spec.Xsd.signSplit a = (neg, s1)) (hs : s1 = x :: t)
    (hx : Spec.Xsd.isDigit x = true ∨ x = 0x2E) : special a = none := by
  have hinf : asc "infinity" = [0x69, 0x6E, 0x66, 0x69, 0x6E, 0x69, 0x74, 0x79] := by decide
  have hnan : asc "nan" = [0x6E, 0x61, 0x6E] := by decide
  have hx39 : x ≤ 0x39 ∧ 0x2E ≤ x := by
    rcases hx with h | h
    · have := (C20.isDigit_iff x).1 h; omega
    · omega
  cases a with
  | nil => rfl
  | cons b r =>
    unfold special
    simp only [hinf, hnan]
    by_cases h2 : b = 0x2D
    · subst h2
      simp [Spec.Xsd.signSplit] at hsp
      obtain ⟨rfl, rfl⟩ := hsp
      subst hs
      simp [cpl_zero hx]
    · by_cases h1 : b = 0x2B
      · subst h1
        simp [Spec.Xsd.signSplit] at hsp
        obtain ⟨rfl, rfl⟩ := hsp
        subst hs
        simp [cpl_zero hx]
      · simp [Spec.Xsd.signSplit, h1, h2] at hsp
        obtain ⟨rfl, rfl⟩ := hsp
        cases hs
        have e1 : x ≠ 0x69 := by omega
        have e2 : x ≠ 0x49 := by omega
        have e3 : x ≠ 0x6E := by omega
        have e4 : x ≠ 0x4E := by omega
        simp [h1, h2, e1, e2, e3, e4]

/-- the mantissa loop on the unsigned part of a decimal -/
theorem rfLoop_body {s : Bytes} {n k : Nat} (h : decBody s = some (n, k)) :
    ∃ st : RF, rfLoop 10 {} s = (st, []) ∧ st.sawdigits = true ∧ st.underscores = false ∧
      st.mant = n ∧
      (if st.mant ≠ 0 then (if st.sawdot then st.dp else (st.nd : Int)) - st.nd else 0)
        = (if n ≠ 0 then -(k : Int) else 0) := by
  obtain ⟨st1, e1, m1, d1, w1, u1, g1, z1⟩ := rfLoop_span s {} (by simp)
  unfold decBody at h
  cases hr : (spanD s).2 with
  | nil =>
    rw [hr] at h e1
    simp only at h
    split at h
    · simp at h
    · next hne =>
      simp only [Option.some.injEq, Prod.mk.injEq] at h
      obtain ⟨hn, hk⟩ := h
      refine ⟨st1, by rw [e1, rfLoop_nil], ?_, u1, ?_, ?_⟩
      · rw [g1]; simpa using hne
      · rw [m1, ← hn]; rfl
      · have : st1.sawdot = false := w1
        simp [this, ← hk]
  | cons c r2 =>
    rw [hr] at h e1
    simp only at h
    split at h
    · next hc =>
      subst hc
      split at h
      · next hcond =>
        simp only [Option.some.injEq, Prod.mk.injEq] at h
        obtain ⟨hn, hk⟩ := h
        simp only [Bool.and_eq_true, Bool.not_eq_true', Bool.and_eq_false_iff, List.isEmpty_iff] at hcond
        obtain ⟨hr3, hne⟩ := hcond
        have w1' : st1.sawdot = false := w1
        obtain ⟨st2, e2, m2, d2, w2, u2, g2, z2⟩ :=
          rfLoop_span r2 { st1 with sawdot := true, dp := st1.nd } z1
        rw [rfLoop_dot st1 r2 w1', e2, hr3, rfLoop_nil] at e1
        refine ⟨st2, e1, ?_, ?_, ?_, ?_⟩
        · rw [g2]; simp only [g1]
          rcases hne with hne | hne
          · cases hi : (spanD s).1 with
            | nil => exact absurd hi (by simpa using hne)
            | cons _ _ => simp
          · cases hf : (spanD r2).1 with
            | nil => exact absurd hf (by simpa using hne)
            | cons _ _ => simp
        · rw [u2]; exact u1
        · rw [m2, ← hn]; simp only [m1]
          simp [nv, Spec.Xsd.natValue, List.foldl_append]
        · have hm : st2.mant = n := by
            rw [m2, ← hn]; simp only [m1]
            simp [nv, Spec.Xsd.natValue, List.foldl_append]
          have w2' : st2.sawdot = true := w2
          simp only [w2', if_true, hm]
          simp only at d2
          split
          · rw [← hk]; omega
          · rfl
      · simp at h
    · simp at h

/-- on the xsd:decimal lexical space `readFloat` reads the whole string as the number of the lexical mapping -/
theorem readFloat_decimal {a : Bytes} {neg : Bool} {n k : Nat}
    (h : Spec.Xsd.decimalLex a = some (neg, n, k)) :
    ∃ nd, special a = none ∧
      readFloat a = some (.fin neg n 10 (if n ≠ 0 then -(k : Int) else 0) nd, a.length) := by
  obtain ⟨hneg, hb⟩ := decimalLex_body h
  have hsp : Spec.Xsd.signSplit a = (neg, (Spec.Xsd.signSplit a).2) := by rw [← hneg]
  obtain ⟨x, t, hs, hx⟩ := body_head hb
  obtain ⟨st, hl, hd, hu, hm, he⟩ := rfLoop_body hb
  have ha : a ≠ [] := by
    intro h0; subst h0; simp [Spec.Xsd.signSplit] at hs
  refine ⟨st.nd, special_none hsp hs hx, ?_⟩
  rw [readFloat_of hsp ha (body_nohex hb) hl hd hu, he, hm]

/-- on a string of the xsd:decimal lexical space strconv.ParseFloat (the model) reads exactly the number
    the XSD lexical mapping assigns: mantissa = all digits as one number, exponent = −(number of
    fraction digits) (0 when the mantissa is 0); it fails only with the range error -/
theorem parseFloat_decimal {a : Bytes} {neg : Bool} {n k : Nat}
    (h : Spec.Xsd.decimalLex a = some (neg, n, k)) (bits : Nat) :
    ∃ nd, parseFloat a bits =
      (if overflows bits (.fin neg n 10 (if n ≠ 0 then -(k : Int) else 0) nd) = true then .error .range
       else .ok (.fin neg n 10 (if n ≠ 0 then -(k : Int) else 0) nd)) := by
  obtain ⟨nd, hs, hr⟩ := readFloat_decimal h
  refine ⟨nd, ?_⟩
  unfold parseFloat
  rw [hs, hr]
  simp

end RdfModel.Proofs.C20F
