/-
  RdfModel.Spec.RFC3986 — reference resolution of RFC 3986, written from the standard, over code
  points (`List Nat`; the delimiters are ASCII, so the same functions apply unchanged to UTF-8 bytes).

    * `split`               Appendix B:  ^(([^:/?#]+):)?(//([^/?#]*))?([^?#]*)(\?([^#]*))?(#(.*))?
                            (`none` = component undefined, `some []` = defined and empty)
    * `recompose`           section 5.3
    * `merge`               section 5.2.3
    * `removeDotSegments`   section 5.2.4, steps 2A–2E literally (input buffer / output buffer)
    * `resolveParts`, `resolve`   section 5.2.2 (strict), no normalisation of any kind

  Core-only, executable, total. Independent of the Go code and of `Model.IRI`.
-/
namespace RdfModel.Spec.RFC3986

abbrev Str := List Nat

abbrev cColon : Nat := 0x3a
abbrev cSlash : Nat := 0x2f
abbrev cQuest : Nat := 0x3f
abbrev cHash : Nat := 0x23
abbrev cDot : Nat := 0x2e

structure Parts where
  scheme : Option Str
  authority : Option Str
  path : Str
  query : Option Str
  fragment : Option Str
deriving DecidableEq, Repr

/-! ### Appendix B -/

/-- `[^:/?#]` -/
def notGenDelim (c : Nat) : Bool := c != cColon && c != cSlash && c != cQuest && c != cHash
/-- `[^/?#]` -/
def notSQH (c : Nat) : Bool := c != cSlash && c != cQuest && c != cHash
/-- `[^?#]` -/
def notQH (c : Nat) : Bool := c != cQuest && c != cHash
/-- `[^#]` -/
def notH (c : Nat) : Bool := c != cHash

/-- `(([^:/?#]+):)?` — the scheme and what follows its colon. -/
def splitScheme (s : Str) : Option Str × Str :=
  match s.dropWhile notGenDelim with
  | c :: rest =>
    if c = cColon ∧ s.takeWhile notGenDelim ≠ [] then (some (s.takeWhile notGenDelim), rest) else (none, s)
  | [] => (none, s)

/-- `(//([^/?#]*))?` -/
def splitAuthority (s : Str) : Option Str × Str :=
  match s with
  | a :: b :: rest =>
    if a = cSlash ∧ b = cSlash then (some (rest.takeWhile notSQH), rest.dropWhile notSQH) else (none, s)
  | _ => (none, s)

/-- `(\?([^#]*))?` -/
def splitQuery (s : Str) : Option Str × Str :=
  match s with
  | c :: rest => if c = cQuest then (some (rest.takeWhile notH), rest.dropWhile notH) else (none, s)
  | [] => (none, s)

/-- `(#(.*))?` -/
def splitFragment (s : Str) : Option Str :=
  match s with
  | c :: rest => if c = cHash then some rest else none
  | [] => none

def split (s : Str) : Parts :=
  let (scheme, r1) := splitScheme s
  let (authority, r2) := splitAuthority r1
  let path := r2.takeWhile notQH
  let (query, r4) := splitQuery (r2.dropWhile notQH)
  { scheme, authority, path, query, fragment := splitFragment r4 }

/-! ### 5.3 Component recomposition -/

/-- `if defined(scheme) then append scheme; append ":"` -/
def schemePart : Option Str → Str
  | some s => s ++ [cColon]
  | none => []
/-- `if defined(authority) then append "//"; append authority` -/
def authorityPart : Option Str → Str
  | some a => cSlash :: cSlash :: a
  | none => []
/-- `if defined(query) then append "?"; append query` -/
def queryPart : Option Str → Str
  | some q => cQuest :: q
  | none => []
/-- `if defined(fragment) then append "#"; append fragment` -/
def fragmentPart : Option Str → Str
  | some f => cHash :: f
  | none => []

def recompose (p : Parts) : Str :=
  schemePart p.scheme ++ authorityPart p.authority ++ p.path ++ queryPart p.query ++ fragmentPart p.fragment

/-! ### 5.2.3 Merge paths -/

/-- everything up to and including the last `/` (`[]` when there is none) -/
def dirOf (p : Str) : Str := (p.reverse.dropWhile (· != cSlash)).reverse

def merge (baseHasAuthority : Bool) (basePath ref : Str) : Str :=
  if baseHasAuthority ∧ basePath = [] then cSlash :: ref else dirOf basePath ++ ref

/-! ### 5.2.4 Remove dot segments -/

/-- "removing the last segment and its preceding "/" (if any) from the output buffer" -/
def popSegment (out : Str) : Str := ((out.reverse.dropWhile (· != cSlash)).drop 1).reverse

/-- the first path segment of the input buffer "including the initial "/" character (if any) and any
    subsequent characters up to, but not including, the next "/" character or the end" -/
def firstSegment (inp : Str) : Str :=
  match inp with
  | c :: rest => if c = cSlash then c :: rest.takeWhile (· != cSlash) else inp.takeWhile (· != cSlash)
  | [] => []

def afterFirstSegment (inp : Str) : Str :=
  match inp with
  | c :: rest => if c = cSlash then rest.dropWhile (· != cSlash) else inp.dropWhile (· != cSlash)
  | [] => []

/-- `pre` is a prefix of the input buffer ("the input buffer begins with a prefix of …") -/
def beginsWith (pre inp : Str) : Bool := pre.isPrefixOf inp

/-- One iteration of step 2 (the input buffer is not empty). -/
def rdsStep (inp out : Str) : Str × Str :=
  -- A. "../" or "./" prefix: remove it
  if beginsWith [cDot, cDot, cSlash] inp then (inp.drop 3, out)
  else if beginsWith [cDot, cSlash] inp then (inp.drop 2, out)
  -- B. "/./" prefix, or "/." where "." is a complete segment: replace by "/"
  else if beginsWith [cSlash, cDot, cSlash] inp then (inp.drop 2, out)
  else if inp = [cSlash, cDot] then ([cSlash], out)
  -- C. "/../" prefix, or "/..": replace by "/" and remove the last output segment
  else if beginsWith [cSlash, cDot, cDot, cSlash] inp then (inp.drop 3, popSegment out)
  else if inp = [cSlash, cDot, cDot] then ([cSlash], popSegment out)
  -- D. "." or "..": remove
  else if inp = [cDot] ∨ inp = [cDot, cDot] then ([], out)
  -- E. move the first path segment to the end of the output buffer
  else (afterFirstSegment inp, out ++ firstSegment inp)

/-- Step 2 as a loop; every iteration shortens the input buffer, so `fuel = |input| + 1` suffices. -/
def rdsLoop : Nat → Str → Str → Str
  | 0, _, out => out
  | fuel + 1, inp, out =>
    if inp = [] then out
    else
      let (inp', out') := rdsStep inp out
      rdsLoop fuel inp' out'

def removeDotSegments (p : Str) : Str := rdsLoop (p.length + 1) p []

/-! ### 5.2.2 Transform references (strict) -/

def resolveParts (B R : Parts) : Parts :=
  if R.scheme.isSome then
    { scheme := R.scheme, authority := R.authority, path := removeDotSegments R.path,
      query := R.query, fragment := R.fragment }
  else if R.authority.isSome then
    { scheme := B.scheme, authority := R.authority, path := removeDotSegments R.path,
      query := R.query, fragment := R.fragment }
  else if R.path = [] then
    { scheme := B.scheme, authority := B.authority, path := B.path,
      query := if R.query.isSome then R.query else B.query, fragment := R.fragment }
  else if R.path.head? = some cSlash then
    { scheme := B.scheme, authority := B.authority, path := removeDotSegments R.path,
      query := R.query, fragment := R.fragment }
  else
    { scheme := B.scheme, authority := B.authority,
      path := removeDotSegments (merge B.authority.isSome B.path R.path),
      query := R.query, fragment := R.fragment }

/-- Resolve the reference `r` against the base `b`: parse both, transform, recompose. -/
def resolve (b r : Str) : Str := recompose (resolveParts (split b) (split r))

/-! ### Segments (used to state the absence of dot segments) -/

/-- the pieces between `/` characters: `segments "/a//b" = ["", "a", "", "b"]` -/
def segments : Str → List Str
  | [] => [[]]
  | c :: rest =>
    if c = cSlash then [] :: segments rest
    else match segments rest with
      | s :: ss => (c :: s) :: ss
      | [] => [[c]]

def isDotSegment (s : Str) : Bool := s = [cDot] || s = [cDot, cDot]

/-- no complete path segment is `.` or `..` -/
def NoDotSegments (p : Str) : Prop := ∀ s ∈ segments p, isDotSegment s = false

instance (p : Str) : Decidable (NoDotSegments p) := by unfold NoDotSegments; exact inferInstance

end RdfModel.Spec.RFC3986
