/-
  Proofs.C01Ascii — with the ASCII option every written code point is below 0x80.
-/
import RdfModel.Props.C01Defs
namespace RdfModel.Proofs.C01
open RdfModel RdfModel.NQ RdfModel.C01

variable {β : Type}

def Asc (l : List Nat) : Prop := ∀ c ∈ l, c < 0x80

@[simp] theorem Asc_nil : Asc [] := by simp [Asc]
@[simp] theorem Asc_cons (a : Nat) (l : List Nat) : Asc (a :: l) ↔ a < 0x80 ∧ Asc l := by
  simp [Asc]
@[simp] theorem Asc_append (l m : List Nat) : Asc (l ++ m) ↔ Asc l ∧ Asc m := by
  simp only [Asc, List.mem_append]
  constructor
  · intro h; exact ⟨fun c hc => h c (Or.inl hc), fun c hc => h c (Or.inr hc)⟩
  · rintro ⟨h1, h2⟩ c (hc | hc); exact h1 c hc; exact h2 c hc

theorem Asc_flatMap {α : Type} (f : α → List Nat) (l : List α) (h : ∀ x ∈ l, Asc (f x)) :
    Asc (l.flatMap f) := by
  induction l with
  | nil => simp
  | cons x l ih =>
    simp only [List.flatMap_cons, Asc_append]
    exact ⟨h x List.mem_cons_self, ih (fun y hy => h y (List.mem_cons_of_mem _ hy))⟩

theorem hexUpper_lt (d : Nat) (hd : d < 16) : hexUpper d < 0x80 := by
  unfold hexUpper; split <;> omega

theorem Asc_hex4 (c : Nat) : Asc (hex4 c) := by
  simp only [hex4, Asc_cons, Asc_nil, and_true]
  refine ⟨?_, ?_, ?_, ?_⟩ <;> exact hexUpper_lt _ (by omega)

theorem Asc_hex8 (c : Nat) : Asc (hex8 c) := by
  simp only [hex8, Asc_cons, Asc_nil, and_true]
  refine ⟨?_, ?_, ?_, ?_, ?_, ?_, ?_, ?_⟩ <;> exact hexUpper_lt _ (by omega)

theorem Asc_escIRIRune (T : Tables) (hA : TablesAscii T) (c : Nat) (hc : c ≤ 0x10FFFF) :
    Asc (escIRIRune T true c) := by
  have hm := hA.iri_mode_a c
  have h0 := hA.iri_ascii c hc
  unfold escIRIRune
  split
  · simp [Asc_hex4]
  · simp [Asc_hex8]
  · next h1 h2 =>
    have : lookup (T.iriEsc true) 0 c = 0 := by
      rcases Nat.lt_or_ge (lookup (T.iriEsc true) 0 c) 1 with h | h
      · omega
      · rcases Nat.eq_or_lt_of_le h with h | h
        · exact absurd h.symm h1
        · exact absurd (by omega) h2
    simp [h0 this]

theorem Asc_writeIRI (T : Tables) (hA : TablesAscii T) (s : List Nat) (hs : RunesInRange s) :
    Asc (writeIRI T true s) := by
  simp only [writeIRI, Asc_cons, Asc_append, Asc_nil, iriBody]
  exact ⟨by omega, Asc_flatMap _ _ (fun c hc => Asc_escIRIRune T hA c (hs c hc)), by omega, trivial⟩

theorem Asc_escLitRune (T : Tables) (hA : TablesAscii T) (c : Nat) (hc : c ≤ 0x10FFFF) :
    Asc (escLitRune T true c) := by
  have hm := hA.lit_mode_a c
  have h0 := hA.lit_ascii c hc
  unfold escLitRune
  split
  · simp [hA.echar_ascii c]
  · simp [Asc_hex4]
  · simp [Asc_hex8]
  · next h1 h2 h3 =>
    have : lookup (T.litEsc true) 0 c = 0 := by
      generalize lookup (T.litEsc true) 0 c = m at *
      match m, hm, h1, h2, h3 with
      | 0, _, _, _, _ => rfl
      | 1, _, h1, _, _ => exact absurd rfl h1
      | 2, _, _, h2, _ => exact absurd rfl h2
      | 3, _, _, _, h3 => exact absurd rfl h3
      | n + 4, hm, _, _, _ => omega
    simp [h0 this]

theorem Asc_writeLiteral (T : Tables) (hA : TablesAscii T) (lex dt : List Nat)
    (lang : Option (List Nat)) (hlex : RunesInRange lex) (hdt : RunesInRange dt)
    (hlang : ∀ t, lang = some t → Asc t) :
    Asc (writeLiteral T true lex dt lang) := by
  have hq : Asc (0x22 :: (litBody T true lex ++ [0x22])) := by
    simp only [Asc_cons, Asc_append, Asc_nil, litBody]
    exact ⟨by omega, Asc_flatMap _ _ (fun c hc => Asc_escLitRune T hA c (hlex c hc)), by omega, trivial⟩
  unfold writeLiteral
  simp only
  split
  · exact hq
  · split
    · cases lang with
      | none => exact hq
      | some t =>
        refine (Asc_append _ _).2 ⟨hq, ?_⟩
        simp only [Asc_cons]
        exact ⟨by omega, hlang t rfl⟩
    · refine (Asc_append _ _).2 ⟨hq, ?_⟩
      simp only [Asc_cons]
      exact ⟨by omega, by omega, Asc_writeIRI T hA dt hdt⟩

theorem Asc_writeNode (T : Tables) (hA : TablesAscii T) (label : β → List Nat)
    (hlab : ∀ b, Asc (label b)) (t : Term β) (hr : TermInRange t) (w : List Nat)
    (h : writeNode T true label t = some w) : Asc w := by
  cases t with
  | iri v => simp only [writeNode, Option.some.injEq] at h; subst h; exact Asc_writeIRI T hA v hr
  | bnode b =>
    simp only [writeNode, Option.some.injEq] at h; subst h
    simp only [Asc_cons]; exact ⟨by omega, by omega, hlab b⟩
  | lit l d t => simp [writeNode] at h

theorem Asc_writePredicate (T : Tables) (hA : TablesAscii T) (t : Term β) (hr : TermInRange t)
    (w : List Nat) (h : writePredicate T true t = some w) : Asc w := by
  cases t with
  | iri v => simp only [writePredicate, Option.some.injEq] at h; subst h; exact Asc_writeIRI T hA v hr
  | bnode b => simp [writePredicate] at h
  | lit l d t => simp [writePredicate] at h

theorem Asc_writeObject (T : Tables) (hA : TablesAscii T) (label : β → List Nat)
    (hlab : ∀ b, Asc (label b)) (t : Term β) (hr : TermInRange t)
    (hlang : ∀ l d tg, t = .lit l d (some tg) → Asc tg) (w : List Nat)
    (h : writeObject T true label t = some w) : Asc w := by
  cases t with
  | iri v => simp only [writeObject] at h; exact Asc_writeNode T hA label hlab _ hr w h
  | bnode b => simp only [writeObject] at h; exact Asc_writeNode T hA label hlab _ hr w h
  | lit l d tg =>
    simp only [writeObject, Option.some.injEq] at h; subst h
    exact Asc_writeLiteral T hA l d tg hr.1 hr.2 (fun t' ht' => hlang l d t' (by rw [ht']))

theorem Asc_encodeQuad (T : Tables) (hA : TablesAscii T) (label : β → List Nat)
    (hlab : ∀ b, Asc (label b)) (quads : Bool) (q : Quad β) (hr : QuadInRange q)
    (hlang : ∀ l d tg, q.o = .lit l d (some tg) → Asc tg) :
    Asc ((encodeQuad T true label quads q).getD []) := by
  obtain ⟨s, p, o, g⟩ := q
  obtain ⟨hrs, hrp, hro, hrg⟩ := hr
  simp only at hlang hrs hrp hro hrg
  unfold encodeQuad
  simp only
  cases hs : writeNode T true label s with
  | none => simp
  | some ws =>
    cases hp : writePredicate T true p with
    | none => simp
    | some wp =>
      cases ho : writeObject T true label o with
      | none => simp
      | some wo =>
        have h1 := Asc_writeNode T hA label hlab _ hrs _ hs
        have h2 := Asc_writePredicate T hA _ hrp _ hp
        have h3 := Asc_writeObject T hA label hlab _ hro hlang _ ho
        have base : Asc (ws ++ 0x20 :: wp ++ 0x20 :: wo ++ [] ++ [0x20, 0x2e, 0x0a]) := by
          simp [h1, h2, h3]
        cases quads with
        | false => simpa using base
        | true =>
          cases g with
          | none => simpa using base
          | some g =>
            cases hgw : writeNode T true label g with
            | none => simp [hgw]
            | some wg =>
              have h4 := Asc_writeNode T hA label hlab _ (hrg g rfl) _ hgw
              simp [hgw, h1, h2, h3, h4]

theorem ascii_output (T : Tables) (hA : TablesAscii T) (label : β → List Nat)
    (hlab : ∀ b, ∀ c ∈ label b, c < 0x80) (quads : Bool) (qs : List (Quad β))
    (hrange : ∀ q ∈ qs, QuadInRange q)
    (hlang : ∀ q ∈ qs, ∀ l d t, q.o = .lit l d (some t) → ∀ c ∈ t, c < 0x80) :
    ∀ c ∈ encodeDoc T true label quads qs, c < 0x80 := by
  have : Asc (encodeDoc T true label quads qs) := by
    unfold encodeDoc
    exact Asc_flatMap _ _ (fun q hq => Asc_encodeQuad T hA label hlab quads q (hrange q hq) (hlang q hq))
  exact this

theorem langRest_ascii (t : List Nat) : ∀ need, langRest t need = true → Asc t := by
  induction t with
  | nil => intro _ _; simp
  | cons x t ih =>
    intro need h
    unfold langRest at h
    simp only [Asc_cons]
    split at h
    · next hx =>
      refine ⟨?_, ih _ h⟩
      simp only [isAlpha, isDigit, Bool.or_eq_true, Bool.and_eq_true, decide_eq_true_eq] at hx
      omega
    · split at h
      · next hd =>
        simp only [Bool.and_eq_true] at h
        exact ⟨by omega, ih _ h.2⟩
      · simp at h

theorem langPrim_ascii (t : List Nat) : ∀ seen, langPrim t seen = true → Asc t := by
  induction t with
  | nil => intro _ _; simp
  | cons x t ih =>
    intro seen h
    unfold langPrim at h
    simp only [Asc_cons]
    split at h
    · next hx =>
      refine ⟨?_, ih _ h⟩
      simp only [isAlpha, Bool.or_eq_true, Bool.and_eq_true, decide_eq_true_eq] at hx
      omega
    · split at h
      · next hd =>
        simp only [Bool.and_eq_true] at h
        exact ⟨by omega, langRest_ascii _ _ h.2⟩
      · simp at h

theorem langOK_ascii (t : List Nat) (h : langOK t = true) : ∀ c ∈ t, c < 0x80 :=
  langPrim_ascii t false h

end RdfModel.Proofs.C01
