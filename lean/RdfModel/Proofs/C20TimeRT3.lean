/-
  C20 (date/time family): a parse that used neither the comma nor the signed-fraction branch never
  ends in a layout with a ".000000000" element — the plain layout with the same tail, tried earlier,
  accepts the same text through the "fraction not in the layout" rule (`gap_time`, `gap_dateTime`).
-/
import RdfModel.Proofs.C20TimeRT2
namespace RdfModel.Proofs.C20Time
open RdfModel RdfModel.GoTime
open RdfModel.Xsd (Tok Bytes layoutToks nextIsFrac)

theorem takeWhile_append_stop {ds r : Bytes} (hd : ds.all Xsd.isDigit = true) (hr : NoDigitHead r) :
    (ds ++ r).takeWhile Xsd.isDigit = ds := by
  induction ds with
  | nil =>
    cases r with
    | nil => rfl
    | cons c r' => have := hr c r' rfl; simp [List.takeWhile, isDigit_eq, this]
  | cons b t ih =>
    simp only [List.all_cons, Bool.and_eq_true] at hd
    simp [List.takeWhile, hd.1, ih hd.2]

theorem tz_indep {s s' x : PS} {r : Bytes} (h : step [] .tz s r = some (x, [])) :
    ∃ y, step [] .tz s' r = some (y, []) := by
  match r with
  | [] => simp [step] at h
  | z :: r0 =>
    by_cases hz : z = 0x5A
    · subst hz
      simp only [step, if_true, Option.some.injEq, Prod.mk.injEq] at h
      rw [h.2]; exact ⟨_, sf_tz_Z [] s' []⟩
    · match r0 with
      | [] | [_] | [_, _] | [_, _, _] | [_, _, _, _] => simp [step, hz] at h
      | h1 :: h2 :: c :: m1 :: m2 :: r =>
        simp only [step, hz, if_false] at h
        split at h
        · simp at h
        · next hc =>
          split at h
          · next hr x1 mm x2 e1 e2 =>
            split at h
            · simp at h
            · next hrange =>
              split at h
              · next hs =>
                simp only [Option.some.injEq, Prod.mk.injEq] at h
                rw [h.2]
                subst hs; have hc' : c = 58 := by simpa using hc
                subst hc'; exact ⟨_, by simp [step, e1, e2, hrange]; rfl⟩
              · next hs =>
                split at h
                · next hs2 =>
                  simp only [Option.some.injEq, Prod.mk.injEq] at h
                  rw [h.2]
                  subst hs2; have hc' : c = 58 := by simpa using hc
                  subst hc'; exact ⟨_, by simp [step, e1, e2, hrange]; rfl⟩
                · simp at h
          · simp at h

/-- success of the tail does not depend on the state -/
theorem tail_indep {tl : Tail} {s s' x : PS} {r : Bytes} (h : parseToks tl.toks s r = some x) :
    ∃ y, parseToks tl.toks s' r = some y := by
  cases tl with
  | none =>
    simp only [toks_none, parseToks] at h ⊢
    obtain ⟨rfl, _⟩ := end_inv h
    exact ⟨s', by simp⟩
  | z =>
    simp only [toks_z] at h ⊢
    unfold_parse at h
    obtain ⟨s2, r2, ⟨rfl, rfl⟩, hend⟩ := h
    obtain ⟨rfl, _⟩ := end_inv hend
    exact ⟨s', by simp [parseToks, sf_lit]⟩
  | tz =>
    simp only [toks_tz] at h ⊢
    unfold_parse at h
    obtain ⟨s2, r2, htz, hend⟩ := h
    obtain ⟨rfl, _⟩ := end_inv hend
    have : ∃ y, step [] .tz s' r = some (y, []) := tz_indep htz
    obtain ⟨y, hy⟩ := this
    exact ⟨y, by simp [parseToks, hy]⟩
theorem nextIsFrac_tail (tl : Tail) : nextIsFrac tl.toks = false := by cases tl <;> rfl

/-- if hh:mm:ss.000000000<tail> reads `a` with '.' and no sign, so does hh:mm:ss<tail> (fraction rule) -/
theorem frac_to_plain_C {tl : Tail} {a : Bytes} {st0 st : PS}
    (hp : parseToks (.hour :: .lit 0x3A :: .minute :: .lit 0x3A :: .second :: .frac0 9 0x2E :: tl.toks) st0 a = some st)
    (hc : st.n.comma = false) (hs : st.n.fsign = false) :
    ∃ y, parseToks (.hour :: .lit 0x3A :: .minute :: .lit 0x3A :: .second :: tl.toks) st0 a = some y := by
  unfold_parse at hp
  obtain ⟨s1, r1, ⟨hh, one, e1, hlt, rfl⟩, s2, r2, ⟨rfl, rfl⟩, s3, r3, ⟨m, e2, mlt, rfl⟩, s4, r4, ⟨rfl, rfl⟩, s5, r5, hsec, s6, r6, hfr, hrest⟩ := hp
  obtain ⟨s, r5', e3, slt, hcase⟩ := step_second_inv hsec
  rcases hcase with ⟨rfl, rfl⟩ | ⟨hnf, _⟩
  · obtain ⟨hlen, f, hpn, rfl, rfl⟩ := step_frac0_inv hfr
    obtain ⟨htl, zo, w, rfl, _⟩ := tail_inv hrest
    simp only at hc hs
    match r5, hlen, hpn, e3, hrest, htl with
    | c :: t, hlen, hpn, e3, hrest, htl =>
      obtain ⟨hpc, hcomma⟩ := parseNanos_comma hpn
      have hp' : c = 0x2E := by
        rw [hc] at hcomma
        have : ¬ c = 0x2C := by simpa using hcomma.symm
        omega
      subst hp'
      have hds := parseNanos_unsigned hpn hs
      simp only [Nat.lt_irrefl, if_false] at hds
      have hds' : (t.take 9).all Xsd.isDigit = true := by simpa using hds
      have hl9 : 9 ≤ t.length := by simp at hlen; omega
      match t, hds', hl9, hpn, e3, hrest, htl with
      | d :: r2', hds', hl9, hpn, e3, hrest, htl =>
        have hd : Xsd.isDigit d = true := by
          simp only [List.take_succ_cons, List.all_cons, Bool.and_eq_true] at hds'; exact hds'.1
        have h8 : (r2'.take 8).all Xsd.isDigit = true := by
          simp only [List.take_succ_cons, List.all_cons, Bool.and_eq_true] at hds'; exact hds'.2
        have hdrop : (0x2E :: d :: r2').drop (1 + 9) = r2'.drop 8 := by simp
        rw [hdrop] at hrest htl
        have htw : (r2'.takeWhile Xsd.isDigit).length = 8 := by
          have := takeWhile_append_stop h8 (tailHead_noDigit htl)
          rw [List.take_append_drop] at this
          rw [this]; simp at hl9 ⊢; omega
        have hsec' : step tl.toks .second
            { t := { st0.t with hour := hh, min := m }, n := { st0.n with hour1 := one } } r4 =
            some ({ t := { st0.t with hour := hh, min := m, sec := s, nsec := f.ns },
                    n := { st0.n with hour1 := one, comma := f.comma, fracDropped := decide (f.ns ≠ 0) } }, r2'.drop 8) := by
          have hn60 : ¬ 60 ≤ s := by omega
          simp only [step, e3, hn60, if_false, hd, nextIsFrac_tail, htw, and_self, true_or, if_true]
          have : 2 + 8 = 1 + 9 := rfl
          simp only [this, hpn, hdrop]
        have key : ∀ s', ∃ y, parseToks tl.toks s' (r2'.drop 8) = some y := fun s' => tail_indep hrest
        obtain ⟨y, hy⟩ := key { t := { st0.t with hour := hh, min := m, sec := s, nsec := f.ns }, n := { st0.n with hour1 := one, comma := f.comma, fracDropped := decide (f.ns ≠ 0) } }
        refine ⟨y, ?_⟩
        simp only [parseToks, Option.bind_eq_some_iff, Prod.exists, step_lit_iff, step_hour_iff, step_minute_iff]
        exact ⟨_, _, ⟨hh, one, e1, hlt, rfl⟩, _, _, ⟨rfl, rfl⟩, _, _, ⟨m, e2, mlt, rfl⟩, _, _, ⟨rfl, rfl⟩, _, _, hsec', hy⟩
  · simp [nextIsFrac] at hnf

theorem dayOK_frame {toks : List Tok} {s0 y : PS} (h : Frame toks s0 y)
    (h1 : Tok.year ∉ toks) (h2 : Tok.month ∉ toks) (h3 : Tok.day ∉ toks) : dayOK y.t = dayOK s0.t := by
  obtain ⟨a1, a2, a3, _⟩ := h
  simp [dayOK, a1 h1, a2 h2, a3 h3]

theorem clock_notin (tl : Tail) (fr : Bool) :
    let toks := (Tok.hour :: .lit 0x3A :: .minute :: .lit 0x3A :: .second :: (if fr then .frac0 9 0x2E :: tl.toks else tl.toks))
    Tok.year ∉ toks ∧ Tok.month ∉ toks ∧ Tok.day ∉ toks := by
  cases tl <;> cases fr <;> simp [Tail.toks]

/-- time: the plain layout with the same tail parses whatever the fraction layout parses cleanly -/
theorem gap_time {tl : Tail} {a : Bytes} {st : PS}
    (h : parseWith (.hour :: .lit 0x3A :: .minute :: .lit 0x3A :: .second :: .frac0 9 0x2E :: tl.toks) a = some st)
    (hc : st.n.comma = false) (hs : st.n.fsign = false) :
    ∃ y, parseWith (.hour :: .lit 0x3A :: .minute :: .lit 0x3A :: .second :: tl.toks) a = some y := by
  obtain ⟨hp, _⟩ := parseWith_inv h
  obtain ⟨y, hy⟩ := frac_to_plain_C hp hc hs
  have hn := clock_notin tl false
  simp only [Bool.false_eq_true, if_false] at hn
  have hd : dayOK y.t = true := by
    rw [dayOK_frame (parseToks_frame _ _ _ _ hy) hn.1 hn.2.1 hn.2.2]; decide
  exact ⟨y, by simp [parseWith, hy, hd]⟩

theorem ymdT_intro {ts : List Tok} {st y : PS} {v r2 r4 r6 : Bytes} {yy m d : Nat}
    (hy : getYear v = some (yy, 0x2D :: r2)) (hm : getnum2 r2 = some (m, 0x2D :: r4)) (hm1 : 1 ≤ m) (hm2 : m ≤ 12)
    (hd : getnum2 r4 = some (d, 0x54 :: r6))
    (hrest : parseToks ts { st with t := { st.t with year := yy, month := some m, day := some d } } r6 = some y) :
    parseToks (.year :: .lit 0x2D :: .month :: .lit 0x2D :: .day :: .lit 0x54 :: ts) st v = some y := by
  simp only [parseToks, Option.bind_eq_some_iff, Prod.exists, step_lit_iff, step_year_iff, step_month_iff, step_day_iff]
  exact ⟨_, _, ⟨yy, hy, rfl⟩, _, _, ⟨rfl, rfl⟩, _, _, ⟨m, hm, hm1, hm2, rfl⟩, _, _, ⟨rfl, rfl⟩, _, _, ⟨d, hd, rfl⟩, _, _, ⟨rfl, rfl⟩, hrest⟩

/-- dateTime / dateTimeStamp: the same -/
theorem gap_dateTime {tl : Tail} {a : Bytes} {st : PS}
    (h : parseWith (.year :: .lit 0x2D :: .month :: .lit 0x2D :: .day :: .lit 0x54 ::
          .hour :: .lit 0x3A :: .minute :: .lit 0x3A :: .second :: .frac0 9 0x2E :: tl.toks) a = some st)
    (hc : st.n.comma = false) (hs : st.n.fsign = false) :
    ∃ y, parseWith (.year :: .lit 0x2D :: .month :: .lit 0x2D :: .day :: .lit 0x54 ::
          .hour :: .lit 0x3A :: .minute :: .lit 0x3A :: .second :: tl.toks) a = some y := by
  obtain ⟨hp, hdst⟩ := parseWith_inv h
  obtain ⟨yy, mo, d, r2, r4, rT, hy, hm, hm1, hm2, hdd, hp'⟩ := ymdT_inv hp
  obtain ⟨y, hyy⟩ := frac_to_plain_C hp' hc hs
  have hn := clock_notin tl false
  have hn' := clock_notin tl true
  simp only [Bool.false_eq_true, if_false, if_true] at hn hn'
  have hd : dayOK y.t = true := by
    rw [dayOK_frame (parseToks_frame _ _ _ _ hyy) hn.1 hn.2.1 hn.2.2,
      ← dayOK_frame (parseToks_frame _ _ _ _ hp') hn'.1 hn'.2.1 hn'.2.2]
    exact hdst
  exact ⟨y, by simp [parseWith, ymdT_intro hy hm hm1 hm2 hdd hyy, hd]⟩

end RdfModel.Proofs.C20Time
