/-
  C17 helper lemmas, part 5: assembling the single-graph result.
-/
import RdfModel.Proofs.C17Perm
import RdfModel.Proofs.C17Term
import RdfModel.Spec.GraphIso
namespace RdfModel.Proofs.C17
open RdfModel RdfModel.Desc RdfModel.C17

variable {β : Type} [DecidableEq β]

/-! ### the renaming read off an allocation list -/

/-- `al[i] ↦ fresh (n+i)`, everything else stays -/
def sigmaOf : List β → Nat → β → BN β
  | [], _, b => BN.orig b
  | a :: al, n, b => if b = a then BN.fresh n else sigmaOf al (n + 1) b

theorem sigmaOf_not_mem (al : List β) (n : Nat) (b : β) (h : b ∉ al) : sigmaOf al n b = BN.orig b := by
  induction al generalizing n with
  | nil => rfl
  | cons a al ih =>
    simp only [List.mem_cons, not_or] at h
    simp [sigmaOf, h.1, ih (n + 1) h.2]

theorem sigmaOf_fresh_ge (al : List β) (n : Nat) (b : β) (k : Nat) (h : sigmaOf al n b = BN.fresh k) :
    n ≤ k ∧ b ∈ al := by
  induction al generalizing n with
  | nil => simp [sigmaOf] at h
  | cons a al ih =>
    simp only [sigmaOf] at h
    split at h
    · rename_i hb
      simp only [BN.fresh.injEq] at h
      exact ⟨by omega, by simp [hb]⟩
    · obtain ⟨h1, h2⟩ := ih (n + 1) h
      exact ⟨by omega, by simp [h2]⟩

theorem sigmaOf_map (al : List β) (n : Nat) (hn : al.Nodup) :
    al.map (sigmaOf al n) = (List.range' n al.length).map BN.fresh := by
  induction al generalizing n with
  | nil => rfl
  | cons a al ih =>
    rw [List.nodup_cons] at hn
    simp only [List.map_cons, List.length_cons, List.range'_succ, sigmaOf, if_true]
    congr 1
    rw [← ih (n + 1) hn.2]
    apply List.map_congr_left
    intro b hb
    have : b ≠ a := fun e => hn.1 (e ▸ hb)
    simp [this]

theorem sigmaOf_injective (al : List β) (n : Nat) : Function.Injective (sigmaOf al n) := by
  induction al generalizing n with
  | nil => intro b c h; simpa [sigmaOf] using h
  | cons a al ih =>
    intro b c h
    simp only [sigmaOf] at h
    by_cases hb : b = a <;> by_cases hc : c = a
    · rw [hb, hc]
    · simp only [hb, hc, if_true, if_false] at h
      have := (sigmaOf_fresh_ge al (n + 1) c n h.symm).1
      omega
    · simp only [hb, hc, if_true, if_false] at h
      have := (sigmaOf_fresh_ge al (n + 1) b n h).1
      omega
    · simp only [hb, hc, if_false] at h
      exact ih (n + 1) h

/-! ### the exported roots -/

def isAnonRoot (B : Builder β) (opts : Opts) : Term β → Bool
  | .bnode b => opts.useAnon && B.refCount b == 0
  | _ => false

omit [DecidableEq β] in
theorem newTriplesList_cons (r : Resource β) (rs : List (Resource β)) (n : Nat) :
    newTriplesList (r :: rs) n =
      ((r.newTriples n).1 ++ (newTriplesList rs (r.newTriples n).2).1, (newTriplesList rs (r.newTriples n).2).2) := by
  simp [newTriplesList]

omit [DecidableEq β] in
theorem term_map_orig_eq (s : Term β) (σ : β → BN β) (h : ∀ b, s = Term.bnode b → σ b = BN.orig b) :
    s.map σ = s.map BN.orig := term_map_congr s σ BN.orig h

/-- everything the proof needs to know about the export of a list of root subjects -/
theorem roots_good (B : Builder β) (opts : Opts) (hB : RefsOK B) (K : Nat) :
    ∀ (roots : List (Term β)) (rs : List (Resource β)),
      mapOpt (B.exportResource opts K) roots = some rs →
      ∃ (Ws : List (List (Triple β))) (al : List β), mapOpt (cw B opts K) roots = some Ws ∧
        (al.map Term.bnode).Perm (((Ws.flatten.map (·.o)).filter (B.isInl opts)) ++ roots.filter (isAnonRoot B opts)) ∧
        (∀ n, (newTriplesList rs n).2 = n + al.length) ∧
        (∀ n (σ : β → BN β), al.map σ = (List.range' n al.length).map BN.fresh →
          (∀ b, 1 ≤ B.refCount b → B.isInl opts (Term.bnode b) = false → σ b = BN.orig b) →
          (∀ s ∈ roots, isAnonRoot B opts s = false → s.map σ = s.map BN.orig) →
          (newTriplesList rs n).1 = Ws.flatten.map (Triple.map σ)) := by
  intro roots
  induction roots with
  | nil =>
    intro rs h
    simp only [mapOpt_nil, Option.some.injEq] at h; subst h
    exact ⟨[], [], rfl, by simp, by intro n; simp [newTriplesList], by intro n σ _ _ _; simp [newTriplesList]⟩
  | cons s roots ih =>
    intro rs h
    obtain ⟨r, rs', hr, hrs', rfl⟩ := mapOpt_cons_some.1 h
    obtain ⟨Ws', al', hWs', hp', hc', hi'⟩ := ih rs' hrs'
    unfold Builder.exportResource at hr
    obtain ⟨st, hst, hrst⟩ := Option.map_eq_some_iff.1 hr
    obtain ⟨W, al, hW, g⟩ := local_good B opts hB K s st hst
    by_cases ha : isAnonRoot B opts s = true
    · -- AnonResource
      obtain ⟨b, rfl⟩ : ∃ b, s = Term.bnode b := by
        cases s with
        | bnode b => exact ⟨b, rfl⟩
        | iri v => simp [isAnonRoot] at ha
        | lit l d t => simp [isAnonRoot] at ha
      have ha' := ha
      simp only [isAnonRoot] at ha'
      simp only [ha', if_true] at hrst
      subst hrst
      refine ⟨W :: Ws', b :: (al ++ al'), mapOpt_cons_some.2 ⟨W, Ws', hW, hWs', rfl⟩, ?_, ?_, ?_⟩
      · simp only [List.map_cons, List.map_append, List.flatten_cons, List.filter_append, List.filter_cons, ha,
          if_true]
        -- b :: (al ++ al') ~ (fW ++ fW') ++ b :: anon'
        have e : (al.map Term.bnode ++ al'.map Term.bnode).Perm
            ((List.filter (B.isInl opts) (W.map (·.o)) ++ List.filter (B.isInl opts) (Ws'.flatten.map (·.o))) ++
              roots.filter (isAnonRoot B opts)) := by
          rw [List.append_assoc]
          exact List.Perm.append g.perm hp'
        exact (List.Perm.cons _ e).trans List.perm_middle.symm
      · intro n
        rw [newTriplesList_cons]
        simp only [Resource.newTriples, g.count, hc', List.length_cons, List.length_append]
        omega
      · intro n σ hal hrest hroot
        have hal' : ([b] ++ (al ++ al')).map σ = (List.range' n ([b].length + (al ++ al').length)).map BN.fresh := by
          simpa [Nat.add_comm] using hal
        obtain ⟨hσb, hal2⟩ := (split_alloc σ [b] (al ++ al') n).1 hal'
        simp only [List.length_append] at hal2
        obtain ⟨halb, hal'2⟩ := (split_alloc σ al al' (n + [b].length)).1 hal2
        simp only [List.map_cons, List.map_nil, List.length_cons, List.length_nil, Nat.zero_add,
          List.range'_one, List.cons.injEq, and_true] at hσb
        simp only [List.length_cons, List.length_nil, Nat.zero_add] at halb hal'2
        rw [newTriplesList_cons]
        simp only [Resource.newTriples, g.count]
        rw [g.image (Term.bnode (BN.fresh n)) (n + 1) σ (by simp [Term.map, hσb]) halb hrest]
        rw [hi' (n + 1 + al.length) σ hal'2 hrest (fun s' hs' => hroot s' (by simp [hs']))]
        simp
    · -- SubjectResource
      have ha' : isAnonRoot B opts s = false := by simpa using ha
      have hrst' : r = Resource.subject (some s) st := by
        cases s with
        | bnode b =>
          simp only [isAnonRoot] at ha'
          simp only [ha', Bool.false_eq_true, if_false] at hrst
          exact hrst.symm
        | iri v => exact hrst.symm
        | lit l d t => exact hrst.symm
      subst hrst'
      refine ⟨W :: Ws', al ++ al', mapOpt_cons_some.2 ⟨W, Ws', hW, hWs', rfl⟩, ?_, ?_, ?_⟩
      · simp only [List.map_append, List.flatten_cons, List.filter_append, List.filter_cons, ha',
          Bool.false_eq_true, if_false]
        rw [List.append_assoc]
        exact List.Perm.append g.perm hp'
      · intro n
        rw [newTriplesList_cons]
        simp only [Resource.newTriples, g.count, hc', List.length_append]
        omega
      · intro n σ hal hrest hroot
        obtain ⟨hal1, hal2⟩ := (split_alloc σ al al' n).1 (by simpa using hal)
        rw [newTriplesList_cons]
        simp only [Resource.newTriples, g.count]
        rw [g.image (s.map BN.orig) n σ (hroot s (by simp) ha') hal1 hrest]
        rw [hi' (n + al.length) σ hal2 hrest (fun s' hs' => hroot s' (by simp [hs']))]
        simp


/-! ### one graph -/

theorem nodup_of_map {α γ : Type} (f : α → γ) (l : List α) (h : (l.map f).Nodup) : l.Nodup := by
  unfold List.Nodup at *
  rw [List.pairwise_map] at h
  exact h.imp (fun hne e => hne (by rw [e]))

theorem exportResource_mono_le (B : Builder β) (opts : Opts) {k k' : Nat} (hk : k ≤ k') {s : Term β}
    {r : Resource β} (h : B.exportResource opts k s = some r) : B.exportResource opts k' s = some r := by
  unfold Builder.exportResource at h ⊢
  obtain ⟨st, hst, hr⟩ := Option.map_eq_some_iff.1 h
  exact Option.map_eq_some_iff.2 ⟨st, export_mono_le B opts hk hst, hr⟩

omit [DecidableEq β] in
theorem mem_tripleNodes_s {t : Triple β} {b : β} (h : t.s = Term.bnode b) : b ∈ tripleNodes t := by
  simp [tripleNodes, termNodes, h]

omit [DecidableEq β] in
theorem mem_tripleNodes_o {t : Triple β} {b : β} (h : t.o = Term.bnode b) : b ∈ tripleNodes t := by
  simp [tripleNodes, termNodes, h]

/-- The single-graph result in the form the dataset proof can combine: the export terminates, its
    name-reusing flattening `W` is a permutation of `T`, and the real flattening is the image of `W`
    under any renaming that numbers the allocated nodes `al` consecutively and fixes the other nodes of `T`. -/
theorem graph_strong (T : List (Triple β)) (opts : Opts) (ord : List (Term β))
    (hord : ord.Perm (build T).subjects) (h : opts.inline = true → Acyclic1 T) (K : Nat)
    (hK : T.length + 1 ≤ K) :
    ∃ (rs : List (Resource β)) (W : List (Triple β)) (al : List β),
      (build T).exportResources opts ord K = some rs ∧ W.Perm T ∧ al.Nodup ∧
      (∀ b ∈ al, anonymizedIn T opts b = true) ∧
      (∀ n, (newTriplesList rs n).2 = n + al.length) ∧
      (∀ n (σ : β → BN β), al.map σ = (List.range' n al.length).map BN.fresh →
          (∀ t ∈ T, ∀ b ∈ tripleNodes t, b ∉ al → σ b = BN.orig b) →
          (newTriplesList rs n).1 = W.map (Triple.map σ)) := by
  obtain ⟨K', rfl⟩ : ∃ K', K = K' + 1 := ⟨K - 1, by omega⟩
  have hB := refsOK_build T
  -- termination
  have hte : ∀ y, ((build T).exportStatements opts (K' + 1) y).isSome := by
    intro y
    obtain ⟨L, hL⟩ := Option.isSome_iff_exists.1 (export_isSome T opts h y)
    rw [export_mono_le (build T) opts hK hL]; rfl
  have htc : ∀ y, (cw (build T) opts (K' + 1) y).isSome := by
    intro y
    obtain ⟨L, hL⟩ := Option.isSome_iff_exists.1 (hte y)
    obtain ⟨W, _, hW, _⟩ := local_good (build T) opts hB _ y L hL
    rw [hW]; rfl
  have hrs : ((build T).exportResources opts ord (K' + 1)).isSome := by
    unfold Builder.exportResources
    apply mapOpt_isSome
    intro s _
    unfold Builder.exportResource
    rw [Option.isSome_map]
    exact hte s
  obtain ⟨rs, hrs⟩ := Option.isSome_iff_exists.1 hrs
  obtain ⟨Ws, al, hWs, hperm, hcount, himage⟩ :=
    roots_good (build T) opts hB (K' + 1) ((build T).roots opts ord) rs hrs
  obtain ⟨Ws2, hWs2, hpT⟩ := closure_perm T opts ord hord K' htc
  rw [hWs] at hWs2
  cases hWs2
  have hn : ord.Nodup := (hord.nodup_iff).2 (subjects_build_nodup T)
  -- the allocated nodes
  have hperm2 : (al.map Term.bnode).Perm
      (inlObjs T opts ++ ((build T).roots opts ord).filter (isAnonRoot (build T) opts)) := by
    refine hperm.trans (List.Perm.append_right _ ?_)
    exact (hpT.map _).filter _
  have hmem : ∀ b ∈ al, (build T).isInl opts (Term.bnode b) = true ∨
      (isAnonRoot (build T) opts (Term.bnode b) = true ∧ Term.bnode b ∈ (build T).roots opts ord) := by
    intro b hb
    have := hperm2.mem_iff.1 (List.mem_map.2 ⟨b, hb, rfl⟩)
    rcases List.mem_append.1 this with h1 | h1
    · exact Or.inl (List.mem_filter.1 h1).2
    · exact Or.inr ⟨(List.mem_filter.1 h1).2, (List.mem_filter.1 h1).1⟩
  have hsub : ∀ s ∈ (build T).roots opts ord, ∃ t ∈ T, t.s = s := by
    intro s hs
    exact (mem_subjects_build T s).1 (hord.mem_iff.1 (List.mem_filter.1 hs).1)
  refine ⟨rs, Ws.flatten, al, hrs, hpT, ?_, ?_, hcount, ?_⟩
  · -- Nodup
    have : (al.map Term.bnode).Nodup := by
      rw [hperm2.nodup_iff, List.nodup_append]
      refine ⟨inlObjs_nodup T opts, (hn.sublist List.filter_sublist).sublist List.filter_sublist, ?_⟩
      intro x hx y hy hxy
      subst hxy
      have h1 := (List.mem_filter.1 hx).2
      have h2 := (List.mem_filter.1 hy).2
      obtain ⟨b, rfl⟩ := isInl_bnode h1
      simp only [Builder.isInl, Bool.and_eq_true, beq_iff_eq] at h1
      simp only [isAnonRoot, Bool.and_eq_true, beq_iff_eq] at h2
      omega
    exact nodup_of_map _ _ this
  · -- anonymized
    intro b hb
    unfold anonymizedIn
    rcases hmem b hb with h1 | ⟨h1, h2⟩
    · simp only [Builder.isInl, refCount_build, Bool.and_eq_true, beq_iff_eq] at h1
      simp [h1.1, h1.2]
    · simp only [isAnonRoot, refCount_build, Bool.and_eq_true, beq_iff_eq] at h1
      obtain ⟨t, ht, hts⟩ := hsub _ h2
      have : T.any (fun t => decide (t.s = Term.bnode b)) = true :=
        List.any_eq_true.2 ⟨t, ht, by simp [hts]⟩
      simp [h1.1, h1.2, this]
  · -- image
    intro n σ hal hfix
    apply himage n σ hal
    · intro b hb1 hb2
      rw [refCount_build] at hb1
      have hpos : 0 < refs T b := by omega
      obtain ⟨t, ht, hto⟩ := List.countP_pos_iff.1 hpos
      simp only [decide_eq_true_eq] at hto
      apply hfix t ht b (mem_tripleNodes_o hto)
      intro hbal
      rcases hmem b hbal with h1 | ⟨h1, _⟩
      · rw [hb2] at h1; cases h1
      · simp only [isAnonRoot, refCount_build, Bool.and_eq_true, beq_iff_eq] at h1
        omega
    · intro s hs hsa
      apply term_map_orig_eq
      intro b hsb
      subst hsb
      obtain ⟨t, ht, hts⟩ := hsub _ hs
      apply hfix t ht b (mem_tripleNodes_s hts)
      intro hbal
      rcases hmem b hbal with h1 | ⟨h1, _⟩
      · have := (List.mem_filter.1 hs).2
        simp only [Bool.not_eq_true'] at this
        rw [this] at h1; cases h1
      · rw [hsa] at h1; cases h1

/-- C17 for one graph. -/
theorem flatten_export (T : List (Triple β)) (opts : Opts) (ord : List (Term β))
    (hord : ord.Perm (build T).subjects) (h : opts.inline = true → Acyclic1 T) (n : Nat) :
    ∃ rs, (build T).exportResources opts ord (T.length + 1) = some rs ∧
      Spec.Iso (newTriplesList rs n).1 T := by
  obtain ⟨rs, W, al, hrs, hpT, hnd, _, _, himage⟩ :=
    graph_strong T opts ord hord h (T.length + 1) (Nat.le_refl _)
  refine ⟨rs, hrs, sigmaOf al n, sigmaOf_injective al n, ?_⟩
  rw [himage n (sigmaOf al n) (sigmaOf_map al n hnd) (fun _ _ b _ hb => sigmaOf_not_mem al n b hb)]
  exact hpT.map _

end RdfModel.Proofs.C17
