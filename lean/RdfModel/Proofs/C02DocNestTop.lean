/-
  Proofs.C02DocNestTop — nested-resource mode, the whole document: `AddResource` for every resource and
  `Close` give the printed form of an abstract document (header directives as a parameter `HdrOK`), which
  by C08 `decode_print_partial` decodes to its denotation — the flattening of a deep permutation of the
  resource list — which is isomorphic to the flattening of the resource list itself
  (Proofs/C02DocPermIso.lean).
-/
import RdfModel.Proofs.C02DocNestDoc
namespace RdfModel.Proofs.C02Doc
open RdfModel RdfModel.Ttl RdfModel.TtlEnc RdfModel.C02 RdfModel.Desc RdfModel.Spec.TtlPrint

variable {T : Tables} {β : Type} [DecidableEq β] {C : TtlDoc.Cfg} {c : Ctx β} {base : Option (List Nat)}

theorem dDoc_append (R : TA.Resolver) : ∀ (a b : TA.Doc) (st : TA.DState),
    TA.dDoc R st (a ++ b) =
      (match TA.dDoc R st a with
        | none => none
        | some (qs, st1) =>
          match TA.dDoc R st1 b with
          | none => none
          | some (qs', st2) => some (qs ++ qs', st2))
  | [], b, st => by
    simp only [List.nil_append, TA.dDoc]
    cases TA.dDoc R st b with
    | none => rfl
    | some x => rfl
  | x :: a, b, st => by
    simp only [List.cons_append, TA.dDoc]
    cases TA.dBlock R st x with
    | none => rfl
    | some r =>
      obtain ⟨qs, st1⟩ := r
      simp only [dDoc_append R a b st1]
      cases TA.dDoc R st1 a with
      | none => rfl
      | some r2 =>
        obtain ⟨qs2, st2⟩ := r2
        simp only
        cases TA.dDoc R st2 b with
        | none => rfl
        | some r3 => simp

/-- sections one after the other -/
theorem sections_den : ∀ (xs : List (SecItem β)), (∀ x ∈ xs, BlockDen C c base x.b x.r' x.used) →
    ∀ (D : List Nat → Prop) (st : TA.DState), StOK base c.pm D st → (∀ x ∈ xs, ∀ l ∈ x.used, D l) →
      ∃ (ts : List (Triple TA.B)),
        TA.dDoc C.resolve st (xs.map (·.b)) =
          some (ts.map quadOf, { st with next := (newTriplesList (xs.map (·.r')) st.next).2 }) ∧
        ts.Perm ((newTriplesList (xs.map (·.r')) st.next).1.map (Triple.map (sig c.label)))
  | [], _, D, st, _, _ => by
    refine ⟨[], ?_, List.Perm.refl _⟩
    cases st
    rfl
  | x :: xs, h, D, st, hst, hD => by
    obtain ⟨ts1, h1, hp1⟩ := h x List.mem_cons_self D st hst (hD x List.mem_cons_self)
    obtain ⟨ts2, h2, hp2⟩ := sections_den xs (fun y hy => h y (List.mem_cons_of_mem _ hy)) D _
      (hst.next (x.r'.newTriples st.next).2) (fun y hy => hD y (List.mem_cons_of_mem _ hy))
    refine ⟨ts1 ++ ts2, ?_, ?_⟩
    · simp only [List.map_cons, TA.dDoc, h1, h2, newTriplesList]
      simp
    · simp only [List.map_cons, newTriplesList, List.map_append]
      exact List.Perm.append hp1 hp2

/-- what `AddResource` returns on every resource of a well-formed list -/
theorem sections_all (S : Setup C T c base) (hC : NestCfgOK C T) (tp : TokPrint T) : ∀ (rs : List (Resource β)),
    (∀ r ∈ rs, ResourceOK c base r) →
    ∃ (ys : List (Option (List Nat) × List (List Nat))) (xs : List (SecItem β)),
      mapOR (resourceSection c false) rs = OR.ok ys ∧ ys.filterMap (·.1) = xs.map (·.text) ∧
      ys.flatMap (·.2) = xs.flatMap (·.used) ∧ RP rs (xs.map (·.r')) ∧
      (∀ x ∈ xs, BSyn T x.toBItem ∧ BlockDen C c base x.b x.r' x.used)
  | [], _ => ⟨[], [], rfl, rfl, rfl, .nil, fun _ h => by cases h⟩
  | r :: rs, h => by
    obtain ⟨ys, xs, h1, h2, h3, h4, h5⟩ := sections_all S hC tp rs (fun x hx => h x (List.mem_cons_of_mem _ hx))
    by_cases hne : resStmts r = []
    · have hsec : resourceSection c false r = OR.ok (none, []) := by
        cases r with
        | anon st =>
          have : st = [] := hne
          subst this
          rfl
        | subject so st =>
          have : st = [] := hne
          subst this
          rfl
      refine ⟨(none, []) :: ys, xs, ?_, ?_, ?_, .drop hne h4, h5⟩
      · simp only [mapOR, hsec, h1, OR.bind, OR.ok]
      · simpa using h2
      · simpa using h3
    · obtain ⟨x, hx, hb, hs, hd, hden⟩ := section_inv S hC tp r (h r List.mem_cons_self) hne
      refine ⟨(some x.text, x.used) :: ys, x :: xs, ?_, ?_, ?_, .cons hs hd h4, ?_⟩
      · simp only [mapOR, hx, h1, OR.bind, OR.ok]
      · simpa using h2
      · simpa using h3
      · intro y hy
        rcases List.mem_cons.1 hy with rfl | hy
        · exact ⟨hb, hden⟩
        · exact h5 y hy

/-- What is needed of the header `hdr` written in front of the sections: it is a printed list of
    directive blocks that takes the decoder's initial state (defaults `b0`, `ns0`) into a state that
    agrees with the encoder's configuration on the labels `D`. -/
def HdrOK (T : Tables) (C : TtlDoc.Cfg) (base : Option (List Nat)) (pm : Prefix.PM) (hdr : List Nat)
    (b0 : Option (List Nat)) (ns0 : List (List Nat × List Nat)) (D : List Nat → Prop) : Prop :=
  ∃ (hs : List BItem) (st1 : TA.DState), (∀ x ∈ hs, BSyn T x) ∧ hs.flatMap (·.text) = hdr ∧
    TA.dDoc C.resolve { base := b0, ns := ns0, next := 0 } (hs.map (·.b)) = some ([], st1) ∧ st1.next = 0 ∧
    StOK base pm D st1

theorem tripleOfStmt_quadOf (t : Triple TA.B) :
    tripleOfStmt (C08.toStmt (quadOf t)) = some (t.map C08.toBN) := rfl

theorem toBN_injective : Function.Injective C08.toBN := by
  intro a b h
  cases a <;> cases b <;> simp only [C08.toBN] at h
  · injection h with h; rw [h]
  · cases h
  · cases h
  · injection h with h; rw [h]

theorem triple_map_map {α γ δ : Type} (f : α → γ) (g : γ → δ) (t : Triple α) :
    (t.map f).map g = t.map (g ∘ f) := by
  cases t with
  | mk s p o => cases s <;> cases o <;> rfl

/-- header ++ sections (in the order `xs`) decode to a graph isomorphic to the flattening of `rs` -/
theorem decode_sections (hT : DocTablesOK T) (hT2 : C08.TablesOK2 T) (hC : NestCfgOK C T)
    (hinj : Function.Injective c.label) (rs : List (Resource β)) (xs : List (SecItem β))
    (hrp : RP rs (xs.map (·.r'))) (hxs : ∀ x ∈ xs, BSyn T x.toBItem ∧ BlockDen C c base x.b x.r' x.used)
    (hdr : List Nat) (b0 : Option (List Nat)) (ns0 : List (List Nat × List Nat)) (D : List Nat → Prop)
    (hh : HdrOK T C base c.pm hdr b0 ns0 D) (hD : ∀ x ∈ xs, ∀ l ∈ x.used, D l) :
    ∃ (out : List TtlDoc.Stmt) (tr : List (Triple TtlDoc.BN)),
      TtlDoc.run C .eof b0 ns0 (hdr ++ (xs.map (·.text)).flatten) = (out, .clean) ∧
      out.map tripleOfStmt = tr.map some ∧ Spec.Iso tr (newTriplesList rs 0).1 := by
  obtain ⟨hs, st1, hhs, hht, hhd, hn1, hst1⟩ := hh
  obtain ⟨ts, hd, hp⟩ := sections_den xs (fun x hx => (hxs x hx).2) D st1 hst1 hD
  rw [hn1] at hd hp
  let items : List BItem := hs ++ xs.map (·.toBItem)
  have hitems : ∀ x ∈ items, BSyn T x := by
    intro x hx
    rcases List.mem_append.1 hx with h | h
    · exact hhs x h
    · obtain ⟨y, hy, rfl⟩ := List.mem_map.1 h
      exact (hxs y hy).1
  obtain ⟨hpr, hwf, hnb, hch⟩ := doc_print items hitems
  have htext : items.flatMap (·.text) = hdr ++ (xs.map (·.text)).flatten := by
    simp only [items, List.flatMap_append, hht, List.flatMap_map]
    rw [List.flatMap_def]
  have hden : TA.denote C.resolve b0 ns0 (items.map (·.b)) = some (ts.map quadOf) := by
    simp only [TA.denote, items, List.map_append, List.map_map, Function.comp_def, dDoc_append, hhd, hd,
      List.nil_append, Option.map_some]
  have hrun := C08.decode_print_partial T hT.tok hT2 C hC.c08 b0 ns0 (items.map (·.b)) _ (ts.map quadOf)
    (by rw [hC.c02.trig]; exact hwf) hnb hch hden
  rw [hpr, htext] at hrun
  obtain ⟨σ, hσ, hiso⟩ := newTriplesList_iso_of_RP hrp 0
  refine ⟨(ts.map quadOf).map C08.toStmt, ts.map (Triple.map C08.toBN), hrun, ?_, ?_⟩
  · simp only [List.map_map, Function.comp_def, tripleOfStmt_quadOf]
  · refine ⟨C08.toBN ∘ sig c.label ∘ σ, toBN_injective.comp ((sig_injective hinj).comp hσ), ?_⟩
    have h1 := (hp.trans (hiso.map _)).map (Triple.map C08.toBN)
    simpa [List.map_map, Function.comp_def, triple_map_map] using h1

end RdfModel.Proofs.C02Doc
