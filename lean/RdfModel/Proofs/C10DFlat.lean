/-
  Proofs for C10D (3): the model reads the expansion of a flattened expanded document (`JL.writeFlat`)
  back as the dataset itself.
-/
import RdfModel.Props.C10DDefs
import RdfModel.Props.C10Defs
namespace RdfModel.Proofs.C10D
open RdfModel RdfModel.Desc RdfModel.JLD RdfModel.C10D

end RdfModel.Proofs.C10D
