/-
  Proofs.C02DocNestObj — nested-resource mode as a printed abstract document, TERM level: the text of
  `writeObject` / `writePredicate` / `writeSubject` is `TA.pObj` / `TA.pVerb` / `TA.pSubj` of an abstract
  token (under some spelling choices, followed by whatever white space the encoder writes next), the token
  is well-formed for C08's theorem, and denotes the term.
-/
import RdfModel.Proofs.C02DocNestSyn
import RdfModel.Proofs.C02DocRes
import RdfModel.Props.C02Tokens
namespace RdfModel.Proofs.C02Doc
open RdfModel RdfModel.Ttl RdfModel.TtlEnc RdfModel.C02 RdfModel.Desc RdfModel.Spec.TtlPrint

/-- blank nodes of a flattening (`Desc.BN`) as blank nodes of a denotation (`TA.B`): input nodes by their
    label, the `k`-th fresh node as the `k`-th anonymous node -/
def sig {β : Type} (label : β → List Nat) : Desc.BN β → TA.B
  | .orig b => .lbl (label b)
  | .fresh k => .anon k

theorem sig_injective {β : Type} {label : β → List Nat} (h : Function.Injective label) :
    Function.Injective (sig label) := by
  intro a b hab
  cases a <;> cases b <;> simp only [sig] at hab
  · injection hab with hab; rw [h hab]
  · cases hab
  · cases hab
  · injection hab with hab; rw [hab]

/-- a triple of the default graph as the quad `TA.denote` yields -/
def quadOf (t : Triple TA.B) : TA.QuadB := ⟨t.s, .iri t.p, t.o, none⟩

theorem map_orig_sig {β : Type} (label : β → List Nat) (o : Term β) :
    (o.map Desc.BN.orig).map (sig label) = o.map (fun b => TA.B.lbl (label b)) := by
  cases o <;> rfl

theorem agree_one {ch : TA.Choices} {i : Nat} {s : TA.Slot} (h : Agree ch i [s]) : ch.at i = s :=
  (agree_cons.1 h).1

theorem agree_two {ch : TA.Choices} {i : Nat} {s s' : TA.Slot} (h : Agree ch i [s, s']) :
    ch.at i = s ∧ ch.at (i + 1) = s' :=
  ⟨(agree_cons.1 h).1, (agree_cons.1 (agree_cons.1 h).2).1⟩

variable {T : Tables}

/-- The text `text` is the printed form of the abstract object `x` under the slots `sl t`, where `t` is
    the white space that follows the object's last token. -/
structure ObjSyn (T : Tables) (x : TA.Obj) (sl : List Nat → List TA.Slot) (text : List Nat) : Prop where
  wf : C08.objWf T x = true
  nb : C08.objNoBoolPfx x = true
  len : ∀ t, (sl t).length = TA.objSlots x
  ng : ∀ t, noGlue (sl t)
  pr : ∀ (ch : TA.Choices) (i : Nat) (t rest : List Nat), WS t → t ≠ [] → Agree ch i (sl t) →
    TA.pObj ⟨T, ch⟩ i x rest = text ++ (t ++ rest)

theorem noGlue_tok (cs : List Choice) (t : List Nat) : noGlue [tokSlot cs t] := by
  intro s hs
  simp only [List.mem_singleton] at hs
  subst hs
  rfl

section Terms
variable {β : Type} {C : TtlDoc.Cfg} {c : Ctx β} {base : Option (List Nat)}

/-- an IRI in object position -/
theorem iri_obj_syn (S : Setup C T c base) (hC : NestCfgOK C T) (tp : TokPrint T) (v : List Nat)
    (hv : iriTermOK c base v) :
    ∃ (text : List Nat) (x : TA.IriS) (cs : List Choice), writeIRI c v = .ok text ∧
      C08.iriWf T x = true ∧ C08.objNoBoolPfx (.iri x) = true ∧
      (∀ (ch : TA.Choices) (i : Nat) (t rest : List Nat), WS t → t ≠ [] → ch.at i = tokSlot cs t →
        TA.pIri ⟨T, ch⟩ i x rest = text ++ (t ++ rest)) ∧
      (∀ (D : List Nat → Prop) (st : TA.DState), StOK base c.pm D st → (∀ l ∈ usedOfIRI c.pm v, D l) →
        TA.iriOf C.resolve st x = some v) := by
  obtain ⟨text, htext⟩ := writeIRI_isOk S v
  obtain ⟨w, hw, rfl⟩ := writeIRI_ok htext
  obtain ⟨x, cs, hwf, hnb, hpr, hden⟩ := iri_syn S.hT hC tp c S.cT base S.cb S.baseOK S.labels v hv w hw
  refine ⟨_, x, cs, htext, hwf, hnb, ?_, hden⟩
  intro ch i t rest ht hne hat
  simp only [TA.pIri]
  rw [hat, hpr ⟨T, ch⟩ (tokSlot cs t) rfl rfl, after_ws _ _ t ht hne rfl, S.cT]

/-- `writeObject` on a well-formed object term -/
theorem object_syn (S : Setup C T c base) (hC : NestCfgOK C T) (tp : TokPrint T) (o : Term β)
    (ho : objectOK c base o) :
    ∃ (text : List Nat) (x : TA.Obj) (sl : List Nat → List TA.Slot), writeObject c o = .ok text ∧
      ObjSyn T x sl text ∧
      (∀ (D : List Nat → Prop) (st : TA.DState), StOK base c.pm D st → (∀ l ∈ usedOfObject c.pm o, D l) →
        TA.dObj C.resolve none st x = some (o.map (fun b => TA.B.lbl (c.label b)), [], st)) := by
  cases o with
  | bnode b =>
    have hl := S.lbl.ok b
    refine ⟨0x5f :: 0x3a :: c.label b, .bn (c.label b), fun t => [tokSlot [] t], rfl, ?_, ?_⟩
    · refine ⟨?_, rfl, fun _ => rfl, fun t => noGlue_tok _ t, ?_⟩
      · simp only [C08.objWf, C08.labelWf, scalarsB_of hl.2, hl.1, Bool.and_self]
      · intro ch i t rest ht hne hag
        simp only [TA.pObj, TA.pBNode]
        rw [agree_one hag, after_ws _ _ t ht hne rfl]
        simp
    · intro D st _ _
      rfl
  | iri v =>
    obtain ⟨text, x, cs, htext, hwf, hnb, hpr, hden⟩ := iri_obj_syn S hC tp v ho
    refine ⟨text, .iri x, fun t => [tokSlot cs t], htext, ?_, ?_⟩
    · refine ⟨hwf, hnb, fun _ => rfl, fun t => noGlue_tok _ t, ?_⟩
      intro ch i t rest ht hne hag
      simp only [TA.pObj]
      exact hpr ch i t rest ht hne (agree_one hag)
    · intro D st hst hD
      simp only [TA.dObj, hden D st hst hD, Option.map_some, Term.map]
  | lit lex dt lang =>
    obtain ⟨hlex, hl⟩ := ho
    by_cases hsh : literalShorthand dt lex = true
    · -- bare token
      have hbare : bareLiteralDatatype lex = some dt := by simpa [literalShorthand] using hsh
      have hlang : lang = none := by
        cases lang with
        | none => rfl
        | some t =>
          exfalso
          obtain ⟨hdt, _⟩ := hl
          subst hdt
          rcases C02.shorthand_datatypes _ _ hsh with h | h | h | h <;> exact absurd h (by decide)
      subst hlang
      by_cases hb : dt = xsdBoolean
      · subst hb
        have hlex2 : lex = asc "true" ∨ lex = asc "false" := by
          rcases C02.shorthand_sound .eof xsdBoolean lex [] hsh rfl with ⟨h, _⟩ | ⟨_, h⟩
          · exact absurd rfl h
          · rcases h with ⟨h, _⟩ | ⟨h, _⟩
            · exact Or.inl h
            · exact Or.inr h
        obtain ⟨bv, hbv⟩ : ∃ bv : Bool, lex = TA.boolText bv := by
          rcases hlex2 with h | h
          · exact ⟨true, h⟩
          · exact ⟨false, h⟩
        refine ⟨lex, .lit (.bool bv), fun t => [tokSlot [] t], by simp [writeObject, hsh], ?_, ?_⟩
        · refine ⟨rfl, rfl, fun _ => rfl, fun t => noGlue_tok _ t, ?_⟩
          intro ch i t rest ht hne hag
          simp only [TA.pObj, TA.pLit]
          rw [agree_one hag, after_ws _ _ t ht hne rfl, hbv]
        · intro D st _ _
          subst hbv
          cases bv <;> rfl
      · refine ⟨lex, .lit (.num lex), fun t => [tokSlot [] t], by simp [writeObject, hsh], ?_, ?_⟩
        · refine ⟨?_, rfl, fun _ => rfl, fun t => noGlue_tok _ t, ?_⟩
          · simp only [C08.objWf, C08.litWf, hbare]
            simpa using hb
          · intro ch i t rest ht hne hag
            simp only [TA.pObj, TA.pLit]
            rw [agree_one hag, after_ws _ _ t ht hne rfl]
        · intro D st _ _
          simp only [TA.dObj, TA.litOf, hbare, hb, ↓reduceIte, Option.map_some, Term.map]
    · have hsh' : literalShorthand dt lex = false := by simpa using hsh
      obtain ⟨cs, hcs⟩ := tp.str lex
      cases lang with
      | some tag =>
        obtain ⟨hdt, htag⟩ := hl
        subst hdt
        refine ⟨formatLiteralLexicalForm c.T false lex ++ 0x40 :: tag, .lit (.lang lex tag), fun t => [tokSlot cs t],
          by simp [writeObject, hsh'], ?_, ?_⟩
        · refine ⟨?_, rfl, fun _ => rfl, fun t => noGlue_tok _ t, ?_⟩
          · simp only [C08.objWf, C08.litWf, scalarsB_of hlex, htag, Bool.and_self]
          · intro ch i t rest ht hne hag
            simp only [TA.pObj, TA.pLit]
            rw [agree_one hag, after_ws _ _ t ht hne rfl]
            simp only [tokSlot, hcs, S.cT, List.append_assoc, List.cons_append]
        · intro D st _ _
          rfl
      | none =>
        obtain ⟨hnl, hnd, hdt⟩ := hl
        by_cases hxs : dt = xsdString
        · subst hxs
          refine ⟨formatLiteralLexicalForm c.T false lex, .lit (.plain lex), fun t => [tokSlot cs t],
            by simp [writeObject, hsh', hnl], ?_, ?_⟩
          · refine ⟨?_, rfl, fun _ => rfl, fun t => noGlue_tok _ t, ?_⟩
            · simp only [C08.objWf, C08.litWf, scalarsB_of hlex]
            · intro ch i t rest ht hne hag
              simp only [TA.pObj, TA.pLit]
              rw [agree_one hag, after_ws _ _ t ht hne rfl]
              simp only [tokSlot, hcs, S.cT]
          · intro D st _ _
            rfl
        · obtain ⟨dtext, x, cs2, hdtext, hwf, _, hpr, hden⟩ := iri_obj_syn S hC tp dt hdt
          refine ⟨formatLiteralLexicalForm c.T false lex ++ 0x5e :: 0x5e :: dtext, .lit (.typed lex x),
            fun t => [tokSlot cs [], tokSlot cs2 t], by simp [writeObject, hsh', hnl, hxs, hdtext, Res.map, Res.bind], ?_, ?_⟩
          · refine ⟨?_, rfl, fun _ => rfl, ?_, ?_⟩
            · simp only [C08.objWf, C08.litWf, scalarsB_of hlex, hwf, Bool.and_self]
            · intro t s hs
              simp only [List.mem_cons, List.mem_nil_iff, or_false] at hs
              rcases hs with rfl | rfl <;> rfl
            · intro ch i t rest ht hne hag
              obtain ⟨h1, h2⟩ := agree_two hag
              simp only [TA.pObj, TA.pLit]
              rw [h1, hpr ch (i + 1) t rest ht hne h2]
              simp only [tokSlot, hcs, S.cT, List.append_assoc, List.cons_append]
          · intro D st hst hD
            have hD' : ∀ l ∈ usedOfIRI c.pm dt, D l := by
              intro l hl
              exact hD l (by simp [usedOfObject, hsh', hnl, hxs, hl])
            simp only [TA.dObj, TA.litOf, hden D st hst hD', hnl, hnd, or_self, ↓reduceIte, Option.map_some, Term.map]

/-- `writePredicate` -/
theorem predicate_syn (S : Setup C T c base) (hC : NestCfgOK C T) (tp : TokPrint T) (p : List Nat)
    (hp : iriTermOK c base p) :
    ∃ (text : List Nat) (v : TA.Verb) (cs : List Choice), writePredicate c p = .ok text ∧
      C08.verbWf T v = true ∧
      (∀ (ch : TA.Choices) (i : Nat) (t rest : List Nat), WS t → t ≠ [] → ch.at i = tokSlot cs t →
        TA.pVerb ⟨T, ch⟩ i v rest = text ++ (t ++ rest)) ∧
      (∀ (D : List Nat → Prop) (st : TA.DState), StOK base c.pm D st → (∀ l ∈ usedOfPredicate c.pm p, D l) →
        TA.verbOf C.resolve st v = some (.iri p)) := by
  by_cases ha : p = TtlEnc.rdfType
  · refine ⟨[0x61], .a, [], by simp [writePredicate, ha], rfl, ?_, ?_⟩
    · intro ch i t rest ht hne hat
      simp only [TA.pVerb]
      rw [hat, afterKw_ws _ _ t ht hne rfl rfl]
      rfl
    · intro D st _ _
      subst ha
      rfl
  · obtain ⟨text, x, cs, htext, hwf, _, hpr, hden⟩ := iri_obj_syn S hC tp p hp
    refine ⟨text, .iri x, cs, by simp [writePredicate, ha, htext], hwf, ?_, ?_⟩
    · intro ch i t rest ht hne hat
      simp only [TA.pVerb]
      exact hpr ch i t rest ht hne hat
    · intro D st hst hD
      have hD' : ∀ l ∈ usedOfIRI c.pm p, D l := by
        intro l hl
        exact hD l (by simp [usedOfPredicate, ha, hl])
      simp only [TA.verbOf, hden D st hst hD', Option.map_some]

/-- `writeSubject` on an explicit subject -/
theorem subject_syn (S : Setup C T c base) (hC : NestCfgOK C T) (tp : TokPrint T) (s : Term β)
    (hs : subjectOK c base s) :
    ∃ (text : List Nat) (x : TA.Subj) (cs : List Choice), writeSubject c s = .ok text ∧
      C08.subjWf T x = true ∧ C08.subjNoBoolPfx x = true ∧ TA.subjSlots x = 1 ∧
      (∀ (ch : TA.Choices) (i : Nat) (t rest : List Nat), WS t → t ≠ [] → ch.at i = tokSlot cs t →
        TA.pSubj ⟨T, ch⟩ i x rest = text ++ (t ++ rest)) ∧
      (∀ (D : List Nat → Prop) (st : TA.DState), StOK base c.pm D st → (∀ l ∈ usedOfSubject c.pm s, D l) →
        TA.dSubj C.resolve none st x = some (s.map (fun b => TA.B.lbl (c.label b)), [], st)) := by
  cases s with
  | lit _ _ _ => exact absurd hs (by simp [subjectOK])
  | bnode b =>
    have hl := S.lbl.ok b
    refine ⟨0x5f :: 0x3a :: c.label b, .bn (c.label b), [], rfl, ?_, rfl, rfl, ?_, ?_⟩
    · simp only [C08.subjWf, C08.labelWf, scalarsB_of hl.2, hl.1, Bool.and_self]
    · intro ch i t rest ht hne hat
      simp only [TA.pSubj, TA.pObj, TA.pBNode]
      rw [hat, after_ws _ _ t ht hne rfl]
      simp
    · intro D st _ _
      rfl
  | iri v =>
    obtain ⟨text, x, cs, htext, hwf, _, hpr, hden⟩ := iri_obj_syn S hC tp v hs
    refine ⟨text, .iri x, cs, htext, hwf, rfl, rfl, ?_, ?_⟩
    · intro ch i t rest ht hne hat
      simp only [TA.pSubj, TA.pObj]
      exact hpr ch i t rest ht hne hat
    · intro D st hst hD
      simp only [TA.dSubj, TA.dObj, hden D st hst hD, Option.map_some, Term.map]

end Terms

end RdfModel.Proofs.C02Doc
