/-
  Part C09D2: node elements whose property attributes include rdf:type="…" and other names in the RDF namespace.
  The decoder emits rdf:type attribute statements first, then the property attributes outside the RDF namespace,
  then the remaining rdf:-namespace ones; the denotation follows document order: a permutation.
-/
import RdfModel.Proofs.C09DecSim2
import RdfModel.Props.C09Dec2Defs
namespace RdfModel.RXD
open RdfModel RdfModel.Desc RdfModel.RX RdfModel.C09Dec

variable {rs : Str → Str → Str} {render : List Tok → Option Str}

/-- an attribute `processCommonAttr` files under rdfAttrList / otherAttrList without touching the context -/
def AttrOK (a : Attr) : Prop := a.ns ≠ xmlNS ∧ a.ns ≠ xmlnsSpace ∧ a.ns ≠ []

def isRdf (a : Attr) : Bool := decide (a.ns = rdfNS)
def isTypeA (a : Attr) : Bool := decide (a.name = n_type)

theorem commonLoop_mixed (P : Params) (B : List Attr) (hB : ∀ a ∈ B, AttrOK a) (ctx : Ctx) (ra oa : List Attr) (st : St) :
    commonLoop P B ctx ra oa st = .ok ⟨ctx, ra.reverse ++ B.filter isRdf, oa.reverse ++ B.filter (fun a => !isRdf a)⟩ st := by
  induction B generalizing ra oa with
  | nil => simp [commonLoop]
  | cons a B ih =>
    obtain ⟨h2, h3, h4⟩ := hB a (by simp)
    have ih' := fun ra oa => ih (fun x hx => hB x (by simp [hx])) ra oa
    by_cases h1 : a.ns = rdfNS
    · simp only [commonLoop, h1, if_true, ih', List.filter_cons, isRdf, decide_true, Bool.not_true]
      simp
    · simp only [commonLoop, h1, h2, h3, h4, if_false, false_and, ih', List.filter_cons, isRdf, decide_false,
        Bool.not_false]
      simp

theorem commonLoop_append_mixed (P : Params) (A B : List Attr) (hB : ∀ a ∈ B, AttrOK a) (ctx : Ctx) (ra oa : List Attr)
    (st st' : St) (c : Ctx) (R O : List Attr) (h : commonLoop P A ctx ra oa st = .ok ⟨c, R, O⟩ st') :
    commonLoop P (A ++ B) ctx ra oa st = .ok ⟨c, R ++ B.filter isRdf, O ++ B.filter (fun a => !isRdf a)⟩ st' := by
  induction A generalizing ctx ra oa st with
  | nil =>
    simp only [commonLoop, Res.ok.injEq, Common.mk.injEq] at h
    obtain ⟨⟨rfl, rfl, rfl⟩, rfl⟩ := h
    simpa using commonLoop_mixed P B hB ctx ra oa st
  | cons a A ih =>
    simp only [List.cons_append]
    unfold commonLoop at h ⊢
    by_cases h1 : a.ns = rdfNS
    · simp only [h1, if_true] at h ⊢; exact ih _ _ _ _ h
    · simp only [h1, if_false] at h ⊢
      by_cases h2 : a.ns = xmlNS
      · simp only [h2, if_true] at h ⊢
        by_cases h3 : a.name = n_lang
        · simp only [h3, if_true] at h ⊢; exact ih _ _ _ _ h
        · simp only [h3, if_false] at h ⊢
          by_cases h4 : a.name = n_base
          · simp only [h4, if_true] at h ⊢
            cases hr : resolveIRI P ctx a.val with
            | panic => rw [hr] at h; simp at h
            | ok b =>
              rw [hr] at h
              simp only at h ⊢
              by_cases h5 : P.parseOK b = true
              · simp only [h5, if_true] at h ⊢; exact ih _ _ _ _ h
              · simp [h5] at h
          · simp only [h4, if_false] at h ⊢; exact ih _ _ _ _ h
      · simp only [h2, if_false] at h ⊢
        by_cases h3 : a.ns = xmlnsSpace
        · simp only [h3, if_true] at h ⊢; exact ih _ _ _ _ h
        · simp only [h3, if_false] at h ⊢
          by_cases h4 : a.ns = [] ∧ a.name = xmlnsSpace
          · simp only [h4, and_self, if_true] at h ⊢; exact ih _ _ _ _ h
          · simp only [h4, if_false] at h ⊢; exact ih _ _ _ _ h

/-- `processCommonAttr` on a rendered element with arbitrary (well-formed) property attributes -/
theorem pca_stdM (hf : EmptyRefNoFrag rs) (i : AttrInfo) (hp : ∀ a ∈ i.props, AttrOK a) {env : Env} {ctx : Ctx}
    (h : CtxRel env ctx) (st : St) :
    ∃ ctx' st', processCommonAttr (mkP rs render) ctx (stdAttrs i) st =
        .ok ⟨ctx', rdfPart i ++ i.props.filter isRdf, i.props.filter (fun a => !isRdf a)⟩ st' ∧
      CtxRel (env.push rs i.base i.lang) ctx' ∧ st'.next = st.next ∧ st'.out = st.out := by
  obtain ⟨ctx', st', h1, h2, h3, h4, _⟩ := pca_std (render := render) hf { i with props := [] } (by simp) h st
  refine ⟨ctx', st', ?_, h2, h3, h4⟩
  rw [stdAttrs_split]
  unfold processCommonAttr at h1 ⊢
  have := commonLoop_append_mixed (mkP rs render) _ i.props hp ctx [] [] st st' ctx' _ _ h1
  simpa [rdfPart] using this

/-! ### processNodeElt with such attributes -/

/-- a rendered rdf:-namespace property attribute: its name is none of the syntax / reserved names -/
def RdfPropName (a : Attr) : Prop := badAttrName a.name = false ∧ syntaxAttrName a.name = false

theorem rdfPropName_facts {a : Attr} (h : RdfPropName a) :
    a.name ≠ n_ID ∧ a.name ≠ n_nodeID ∧ a.name ≠ n_about ∧ nodeAttrForbidden.contains a.name = false := by
  obtain ⟨h1, h2⟩ := h
  simp only [badAttrName, syntaxAttrName, oldTerms, List.cons_append, List.nil_append, List.contains_cons, List.contains_nil,
    Bool.or_false, Bool.or_eq_false_iff, beq_eq_false_iff_ne, ne_eq] at h1 h2
  refine ⟨fun e => h2.1 e, fun e => h2.2.2.1 e, fun e => h2.2.1 e, ?_⟩
  simp only [nodeAttrForbidden, List.contains_cons, List.contains_nil, Bool.or_false, Bool.or_eq_false_iff,
    beq_eq_false_iff_ne, ne_eq]
  exact ⟨h1.1, h2.2.2.2.1, h1.2.2.2.2.2, h2.2.2.2.2.2, h1.2.2.2.1, h1.2.2.2.2.1, h1.2.2.1⟩

theorem subjLoop_skip (P : Params) (ctx : Ctx) (A : List Attr) (hA : ∀ a ∈ A, RdfPropName a) (s : Option (Term BN)) (n : Nat)
    (st : St) : subjLoop P ctx A s n st = .ok (s, n) st := by
  induction A with
  | nil => rfl
  | cons a A ih =>
    obtain ⟨h1, h2, h3, _⟩ := rdfPropName_facts (hA a (by simp))
    simp only [subjLoop, h1, h2, h3, if_false]
    exact ih (fun x hx => hA x (by simp [hx]))

theorem subjLoop_append (P : Params) (ctx : Ctx) (A B : List Attr) (s : Option (Term BN)) (n : Nat) (st : St) :
    subjLoop P ctx (A ++ B) s n st = match subjLoop P ctx A s n st with
      | .ok r st1 => subjLoop P ctx B r.1 r.2 st1
      | .fail e st1 => .fail e st1
      | .panic => .panic := by
  induction A generalizing s n st with
  | nil => simp [subjLoop]
  | cons a A ih =>
    simp only [List.cons_append, subjLoop]
    repeat' split
    all_goals first | exact ih _ _ _ | rfl | simp_all

theorem nodeRdfLoop_mixed (hf : EmptyRefNoFrag rs) {env : Env} {ctx : Ctx} (hrel : CtxRel env ctx) (s : Term BN)
    (A : List Attr) (hA : ∀ a ∈ A, RdfPropName a) (extra : List Attr) (st : St) :
    ∃ st1, nodeRdfLoop (mkP rs render) ctx s A extra st = .ok (extra.reverse ++ A.filter (fun a => !isTypeA a)) st1 ∧
      st1.out = ((A.filter isTypeA).map (fun a => (⟨s, rdfType, .iri (rs env.base a.val)⟩ : T))).reverse ++ st.out ∧
      st1.next = st.next := by
  induction A generalizing extra st with
  | nil => exact ⟨st, by simp [nodeRdfLoop], by simp, rfl⟩
  | cons a A ih =>
    obtain ⟨h1, h2, h3, h4⟩ := rdfPropName_facts (hA a (by simp))
    have hA' : ∀ x ∈ A, RdfPropName x := fun x hx => hA x (by simp [hx])
    by_cases ht : a.name = n_type
    · obtain ⟨st1, e1, e2, e3⟩ := ih hA' extra (st.emit ⟨s, rdfType, .iri (rs env.base a.val)⟩)
      have t1 : n_type ≠ n_ID := by decide
      have t2 : n_type ≠ n_nodeID := by decide
      have t3 : n_type ≠ n_about := by decide
      refine ⟨st1, ?_, ?_, by rw [e3]; rfl⟩
      · simp only [nodeRdfLoop, h1, h2, h3, t1, t2, t3, or_self, if_false, ht, if_true, resolveIRI_sim hf hrel, e1, List.filter_cons,
          isTypeA, decide_true, Bool.not_true, Bool.false_eq_true]
      · rw [e2]; simp [List.filter_cons, isTypeA, ht, St.emit]
    · obtain ⟨st1, e1, e2, e3⟩ := ih hA' (a :: extra) st
      refine ⟨st1, ?_, ?_, e3⟩
      · simp only [nodeRdfLoop, h1, h2, h3, or_self, if_false, ht, h4, Bool.false_eq_true, e1, List.filter_cons, isTypeA,
          decide_false, Bool.not_false, if_true]
        simp
      · rw [e2]; simp [List.filter_cons, isTypeA, ht]

theorem nodeRdfLoop_skip_append (P : Params) (ctx : Ctx) (s : Term BN) (A B : List Attr)
    (hA : ∀ a ∈ A, a.name = n_ID ∨ a.name = n_nodeID ∨ a.name = n_about) (extra : List Attr) (st : St) :
    nodeRdfLoop P ctx s (A ++ B) extra st = nodeRdfLoop P ctx s B extra st := by
  induction A with
  | nil => rfl
  | cons a A ih =>
    simp only [List.cons_append, nodeRdfLoop, hA a (by simp), if_true]
    exact ih (fun x hx => hA x (by simp [hx]))

theorem litAttrLoop_simG {env : Env} {ctx : Ctx} (hrel : CtxRel env ctx) (s : Term BN) (as : List Attr)
    (hns : ∀ a ∈ as, ¬(a.ns = rdfNS ∧ a.name = n_type)) (st : St) :
    (litAttrLoop ctx s as st).out = (as.map (propAttrTriple rs env s)).reverse ++ st.out ∧
    (litAttrLoop ctx s as st).next = st.next := by
  induction as generalizing st with
  | nil => simp [litAttrLoop]
  | cons a as ih =>
    have ha := hns a (by simp)
    obtain ⟨h1, h2⟩ := ih (fun x hx => hns x (by simp [hx])) (st.emit ⟨s, a.ns ++ a.name, mkLitCtx a.val ctx⟩)
    simp only [litAttrLoop]
    refine ⟨?_, by rw [h2]; rfl⟩
    rw [h1]
    simp [St.emit, propAttrTriple, ha, mkLitCtx, hrel.2]

/-! ### the node element -/

theorem subj_part (hf : EmptyRefNoFrag rs) {env' : Env} {nctx : Ctx} (hrel' : CtxRel env' nctx) (sc : Scope) (A : List Attr)
    (subj : Subj) (hls : leafSubj subj = true) {S S0 : RX.St} (hsub : wfSubj rs env' S subj = some S0) (st1 : St)
    (hn1 : st1.next = S.next) :
    ∃ so n, subjLoop (mkP rs render) nctx (rdfPart (subj.info sc A)) none 0 st1 = .ok (so, n) st1 ∧ ¬(n > 1) ∧
      (subjOrFresh so st1).1 = subj.term ∧ (subjOrFresh so st1).2.out = st1.out ∧ (subjOrFresh so st1).2.next = S0.next ∧
      (∀ a ∈ rdfPart (subj.info sc A), a.name = n_ID ∨ a.name = n_nodeID ∨ a.name = n_about) := by
  have hres := fun v => resolveIRI_sim (render := render) hf hrel' v
  have e1 : n_about ≠ n_ID := by decide
  have e2 : n_about ≠ n_nodeID := by decide
  have e3 : n_nodeID ≠ n_ID := by decide
  cases subj with
  | id _ _ => simp [leafSubj] at hls
  | about iri ref =>
    simp only [wfSubj] at hsub
    split at hsub
    · rename_i hc
      simp only [Option.some.injEq] at hsub
      subst hsub
      refine ⟨some (.iri iri), 1, ?_, by omega, rfl, rfl, hn1, ?_⟩
      · simp [Subj.info, rdfPart, optAttr, subjLoop, e1, e2, hres, hc]
      · simp [Subj.info, rdfPart, optAttr]
    · simp at hsub
  | nodeID l =>
    simp only [wfSubj] at hsub
    split at hsub
    · rename_i hc
      simp only [Option.some.injEq] at hsub
      subst hsub
      refine ⟨some (.bnode (.named l)), 1, ?_, by omega, rfl, rfl, hn1, ?_⟩
      · simp [Subj.info, rdfPart, optAttr, subjLoop, e3, hc]
      · simp [Subj.info, rdfPart, optAttr]
    · simp at hsub
  | anon n =>
    simp only [wfSubj] at hsub
    split at hsub
    · rename_i hc
      simp only [Option.some.injEq] at hsub
      subst hsub
      subst hc
      refine ⟨none, 0, ?_, by omega, ?_, rfl, ?_, ?_⟩
      · simp [Subj.info, rdfPart, optAttr, subjLoop]
      · simp [subjOrFresh, St.fresh, Subj.term, hn1]
      · simp [subjOrFresh, St.fresh, hn1]
      · simp [Subj.info, rdfPart, optAttr]
    · simp at hsub

theorem attrs_of_wf {env : Env} {pattrs : List PAttr} (hpl : pattrs.all nodePAttr = true)
    (hwf : wfPAttrs rs env pattrs = true) :
    ∀ a ∈ pattrs.map PAttr.render, AttrOK a ∧ (a.ns = rdfNS → RdfPropName a) := by
  intro a ha
  have hprop := wfPAttrs_isProp rs env pattrs hwf a ha
  obtain ⟨b, hb, rfl⟩ := List.mem_map.mp ha
  have hnp := List.all_eq_true.mp hpl b hb
  simp only [isPropAttr, Bool.and_eq_true, decide_eq_true_eq, ne_eq, decide_not, Bool.not_eq_true', Bool.and_eq_false_iff,
    decide_eq_false_iff_not, Bool.or_eq_false_iff] at hprop
  have hx : (b.render).ns ≠ xmlnsSpace := by
    cases b with
    | lit ns name val lang => simpa [nodePAttr, PAttr.render] using hnp
    | type _ _ => simp only [PAttr.render]; decide
  refine ⟨⟨hprop.1.2, hx, hprop.1.1⟩, ?_⟩
  intro hr
  rcases hprop.2 with h | h
  · exact absurd hr h
  · exact h

theorem filter3_perm (A : List Attr) :
    ((A.filter isRdf).filter isTypeA ++ (A.filter (fun a => !isRdf a) ++ (A.filter isRdf).filter (fun a => !isTypeA a))).Perm A := by
  have h1 := List.filter_append_perm isRdf A
  have h2 := List.filter_append_perm isTypeA (A.filter isRdf)
  refine List.Perm.trans ?_ h1
  refine List.Perm.trans ?_ (List.Perm.append_right _ h2)
  rw [List.append_assoc]
  exact List.Perm.append_left _ List.perm_append_comm

/-- `processNodeElt` up to its property elements, property attributes of any kind -/
theorem nodeEntry_simM (hf : EmptyRefNoFrag rs) (sc : Scope) (subj : Subj) (typ : Option (Str × Str)) (pattrs : List PAttr)
    (hls : leafSubj subj = true) (hpl : pattrs.all nodePAttr = true) {env : Env} {ctx : Ctx} (hrel : CtxRel env ctx)
    (S S0 : RX.St) (htyp : wfTyp typ = true) (hpa : wfPAttrs rs (env.push rs sc.base sc.lang) pattrs = true)
    (hsub : wfSubj rs (env.push rs sc.base sc.lang) S subj = some S0) (st : St) (hn : st.next = S.next) :
    ∃ (nctx : Ctx) (st1 : St) (ts0 : List T), nodeEntry (mkP rs render) ctx (typNs typ) (typName typ)
        (stdAttrs (subj.info sc (pattrs.map PAttr.render))) st = .ok (.props nctx subj.term 0 (.node subj.term)) st1 ∧
      CtxRel (env.push rs sc.base sc.lang) nctx ∧ st1.out = ts0.reverse ++ st.out ∧
      ts0.Perm (typTriple subj.term typ ++ pattrs.map (PAttr.triple subj.term)) ∧ st1.next = S0.next := by
  have hattrs := attrs_of_wf hpl hpa
  obtain ⟨f1, f2, f3, f4, f5, f6, f7, f8⟩ := Subj.info_fields sc (pattrs.map PAttr.render) subj
  obtain ⟨nctx, st1, hpca, hrel', hn1, ho1⟩ := pca_stdM (render := render) hf (subj.info sc (pattrs.map PAttr.render))
    (by rw [f1]; exact fun a ha => (hattrs a ha).1) hrel st
  rw [f7, f8] at hrel'
  rw [f1] at hpca
  obtain ⟨so, n, hsl, hn1', hterm, hfout, hfnext, hnames⟩ := subj_part (render := render) hf hrel' sc (pattrs.map PAttr.render) subj hls hsub st1
    (by rw [hn1]; exact hn)
  have hAr : ∀ a ∈ (pattrs.map PAttr.render).filter isRdf, RdfPropName a := by
    intro a ha
    simp only [List.mem_filter, isRdf, decide_eq_true_eq] at ha
    exact (hattrs a ha.1).2 ha.2
  obtain ⟨_, htt⟩ := wfTyp_facts subj.term typ htyp
  have htype : ∀ st' : St, (if typNs typ = rdfNS ∧ typName typ = n_Description then st'
      else st'.emit ⟨subj.term, rdfType, .iri (typNs typ ++ typName typ)⟩).out = (typTriple subj.term typ).reverse ++ st'.out ∧
      (if typNs typ = rdfNS ∧ typName typ = n_Description then st'
      else st'.emit ⟨subj.term, rdfType, .iri (typNs typ ++ typName typ)⟩).next = st'.next := by
    intro st'
    rw [← htt]
    unfold typeTriple
    split <;> simp [St.emit]
  obtain ⟨st5, hrl, ho5, hn5⟩ := nodeRdfLoop_mixed (render := render) hf hrel' subj.term _ hAr []
    (if typNs typ = rdfNS ∧ typName typ = n_Description then (subjOrFresh so st1).2
      else (subjOrFresh so st1).2.emit ⟨subj.term, rdfType, .iri (typNs typ ++ typName typ)⟩)
  simp only [List.reverse_nil, List.nil_append] at hrl
  have hlitns : ∀ a ∈ (pattrs.map PAttr.render).filter (fun a => !isRdf a) ++
      ((pattrs.map PAttr.render).filter isRdf).filter (fun a => !isTypeA a),
      ¬(a.ns = rdfNS ∧ a.name = n_type) := by
    intro a ha
    simp only [List.mem_append, List.mem_filter, isRdf, isTypeA, Bool.not_eq_true',
      decide_eq_false_iff_not, decide_eq_true_eq] at ha
    rcases ha with ha | ha
    · exact fun h => ha.2 h.1
    · exact fun h => ha.2 h.2
  have hlit := litAttrLoop_simG (rs := rs) hrel' subj.term _ hlitns st5
  refine ⟨nctx, litAttrLoop nctx subj.term ((pattrs.map PAttr.render).filter (fun a => !isRdf a) ++
      ((pattrs.map PAttr.render).filter isRdf).filter (fun a => !isTypeA a)) st5,
    typTriple subj.term typ ++ (((pattrs.map PAttr.render).filter isRdf).filter isTypeA).map
      (fun a => (⟨subj.term, rdfType, .iri (rs (env.push rs sc.base sc.lang).base a.val)⟩ : T)) ++
      ((pattrs.map PAttr.render).filter (fun a => !isRdf a) ++
        ((pattrs.map PAttr.render).filter isRdf).filter (fun a => !isTypeA a)).map
        (propAttrTriple rs (env.push rs sc.base sc.lang) subj.term), ?_, hrel', ?_, ?_, ?_⟩
  · unfold nodeEntry
    simp only [hpca, subjLoop_append, hsl, subjLoop_skip _ _ _ hAr, hn1', if_false, hterm,
      nodeRdfLoop_skip_append _ _ _ _ _ hnames, hrl]
  · rw [hlit.1, ho5, (htype _).1, hfout, ho1]; simp
  · rw [← wfPAttrs_triples rs _ subj.term pattrs hpa, List.append_assoc]
    refine List.Perm.append_left _ ?_
    have hmap : (((pattrs.map PAttr.render).filter isRdf).filter isTypeA).map
        (fun a => (⟨subj.term, rdfType, .iri (rs (env.push rs sc.base sc.lang).base a.val)⟩ : T)) =
        (((pattrs.map PAttr.render).filter isRdf).filter isTypeA).map (propAttrTriple rs (env.push rs sc.base sc.lang) subj.term) := by
      apply List.map_congr_left
      intro a ha
      simp only [List.mem_filter, isRdf, isTypeA, decide_eq_true_eq] at ha
      simp [propAttrTriple, ha.1.2, ha.2]
    rw [hmap, ← List.map_append]
    exact List.Perm.map _ (by simpa using filter3_perm (pattrs.map PAttr.render))
  · rw [hlit.2, hn5, (htype _).2, hfnext]

end RdfModel.RXD
