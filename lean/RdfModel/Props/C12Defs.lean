/-
  Property C12 — definitions used by the theorem statements: the path that RFC 3986 5.2.2 hands to
  remove_dot_segments, and the decidable classes of inputs on which the implementation is known to
  deviate (known findings D14-*). The same predicates are implemented in go/cmd/c12/classes.go; the
  driver op `iri.classes` evaluates the ones below so that the harness can compare both.

  Core-only (the driver imports this file).
-/
import RdfModel.Spec.RFC3986
import RdfModel.Model.IRI
namespace RdfModel.C12
open RdfModel.Spec.RFC3986

/-! ### the class attached to `resolvePath` (the only class that concerns modelled code) -/

/-- the next segment is empty and is not the last one -/
def nextEmptyNotLast (rest : List Str) : Bool :=
  match rest with
  | e :: _ :: _ => e == []
  | _ => false

/-- Walking the segments after the leading "/" with the depth of the output: some ".." leaves the
    output empty and is directly followed by an empty segment that is not the last one. -/
def ddeAux : Nat → List Str → Bool
  | _, [] => false
  | depth, s :: rest =>
    if s = [cDot] then ddeAux depth rest
    else if s = [cDot, cDot] then
      ((depth - 1 == 0) && nextEmptyNotLast rest) || ddeAux (depth - 1) rest
    else ddeAux (depth + 1) rest

/-- predicate of known finding `dotdot-then-empty-segment` on the merged path -/
def dotdotThenEmpty (full : Str) : Bool :=
  match full with
  | c :: r => c == cSlash && ddeAux 0 (segments r)
  | [] => false

/-- The string `resolvePath(base, ref)` removes dot segments from, computed the RFC way:
    `base` when the reference path is empty, the reference when it starts with "/", otherwise the
    5.2.3 merge (for a base path starting with "/" the "authority and empty path" clause is moot). -/
def rfcFull (base ref : Str) : Str :=
  if ref = [] then base
  else if ref.head? = some cSlash then ref
  else merge false base ref

/-! ### input classes of the known findings (mirror of go/cmd/c12/classes.go) -/

def lower (c : Nat) : Nat := if 0x41 ≤ c ∧ c ≤ 0x5a then c + 32 else c
def hasUpper (s : Str) : Bool := s.any (fun c => 0x41 ≤ c && c ≤ 0x5a)
def hasHigh (s : Str) : Bool := s.any (fun c => c ≥ 0x80)

def sHttp : Str := [0x68, 0x74, 0x74, 0x70]
def sHttps : Str := [0x68, 0x74, 0x74, 0x70, 0x73]
def sFile : Str := [0x66, 0x69, 0x6c, 0x65]

/-- schemes that `ParseIRI` keeps hierarchical: http, https, file (compared after lower-casing) -/
def special (scheme : Str) : Bool :=
  let s := scheme.map lower
  s == sHttp || s == sHttps || s == sFile

/-- userinfo (when present) and host[:port] of an authority: split at the first `@` -/
def authSplit (a : Str) : Option Str × Str :=
  if a.contains 0x40 then (some (a.takeWhile (· != 0x40)), (a.dropWhile (· != 0x40)).drop 1) else (none, a)

def isAlnum (c : Nat) : Bool := (0x61 ≤ c && c ≤ 0x7a) || (0x41 ≤ c && c ≤ 0x5a) || (0x30 ≤ c && c ≤ 0x39)

/-- what net/url prints back unchanged: `[A-Za-z0-9-._~$&+,;=]*` with at most one `:` -/
def plainUserinfo (s : Str) : Bool :=
  s.all (fun c => isAlnum c || [0x2d, 0x2e, 0x5f, 0x7e, 0x24, 0x26, 0x2b, 0x2c, 0x3b, 0x3d, 0x3a].contains c)
    && (s.filter (· == 0x3a)).length ≤ 1

def hasDotSegment (p : Str) : Bool := (segments p).any isDotSegment

def startsWith (pre s : Str) : Bool := pre.isPrefixOf s

/-- `strings.Contains(s, sub)` -/
def isInfix (sub : Str) : Str → Bool
  | [] => sub.isEmpty
  | c :: rest => sub.isPrefixOf (c :: rest) || isInfix sub rest

def auth (p : Parts) : Str := p.authority.getD []
def schemeOf (p : Parts) : Str := p.scheme.getD []
def queryOf (p : Parts) : Str := p.query.getD []
def fragOf (p : Parts) : Str := p.fragment.getD []

/-- the path handed to remove_dot_segments by 5.2.2 (`none` when none is) -/
def rfcTargetInput (B R : Parts) : Option Str :=
  if R.scheme.isSome || R.authority.isSome then some R.path
  else if R.path = [] then none
  else if R.path.head? = some cSlash then some R.path
  else some (merge B.authority.isSome B.path R.path)

/-- Chain-only class `chain-sticky-empty-fragment`: the private forceFragment flag is or-ed along a chain
    of re-bases and never reset, so once the base or an earlier reference of the chain ended with `#`,
    every later target whose reference has no fragment gets a `#`. `earlier` = the original base and the
    references of the previous steps. -/
def chainStickyEmptyFragment (earlier : List Str) (ref : Str) : Bool :=
  earlier.any (fun s => s.getLast? == some cHash) && (split ref).fragment.isNone

/-- names of the classes whose predicate holds on `(a, b)`; `isParse`: only `a` is given -/
def classes (isParse : Bool) (a b : Str) : List String :=
  let pa := split a
  let pb := split b
  let each (f : Parts → Bool) : Bool := f pa || (!isParse && f pb)
  let relRef := pb.scheme.isNone && pb.authority.isNone
  let emptyRef := relRef && pb.path == [] && pb.query.isNone
  let c1 := each (fun p => p.scheme.isSome && hasUpper (schemeOf p))
  let c2 := each (fun p => p.authority.isSome && hasHigh (authSplit (auth p)).2)
  let c3 := each (fun p => p.authority.isSome && (authSplit (auth p)).2.contains 0x25)
  let c4 := each (fun p => p.authority.isSome &&
    (match (authSplit (auth p)).1 with | some ui => !plainUserinfo ui | none => false))
  let c5 := each (fun p => p.authority.isSome &&
    (startsWith [0x5b, 0x76] (authSplit (auth p)).2 || startsWith [0x5b, 0x56] (authSplit (auth p)).2))
  let c6 := each (fun p => p.authority.isSome &&
    ((auth p == [] && (p.scheme.isNone || p.path == [])) ||
     ((authSplit (auth p)).2 == [] &&
        (!special (if p.scheme.isSome then schemeOf p else schemeOf pa) || p.path == []))))
  let c7 := each (fun p => p.scheme.isSome && !special (schemeOf p) && p.authority.isNone && startsWith [cSlash] p.path)
  let c8 := !isParse && special (schemeOf pa) && pa.authority.isNone && relRef
  let c9 := !isParse && pa.authority.isNone && !startsWith [cSlash] pa.path && relRef && pb.path != [] &&
    (if startsWith [cSlash] pb.path then hasDotSegment pb.path
     else startsWith [cSlash] (removeDotSegments (merge false pa.path pb.path)))
  let c10 := !isParse && startsWith [cSlash] pa.path && hasDotSegment pa.path && relRef && pb.path == []
  let c11 := !isParse && pa.query == some [] && emptyRef
  let c12 := !isParse && pa.fragment.isSome &&
    ((fragOf pa == [] && pb.fragment.isNone) || (fragOf pa != [] && emptyRef && fragOf pb == []))
  let c13 := !isParse && (match rfcTargetInput pa pb with | some full => dotdotThenEmpty full | none => false)
  let c15 := !isParse && pa.authority.isSome && pa.path == [] && relRef && pb.path != [] && !startsWith [cSlash] pb.path &&
    (let t := removeDotSegments (cSlash :: pb.path); t == [cSlash] || startsWith [cSlash, cSlash] t ||
      startsWith [cSlash, 0x25, 0x32, 0x66] t || startsWith [cSlash, 0x25, 0x32, 0x46] t)
  let c14 := !isParse && pb.scheme.isSome && pb.authority.isNone && !startsWith [cSlash] pb.path && hasDotSegment pb.path
  let pr := if isParse then pa else pb
  let c16 := pr.scheme.isNone && pr.authority.isNone && (pr.path == [0x25, 0x32, 0x41] ||
    (!isParse && pa.authority.isSome && pa.path == [] && pr.path != [] && !startsWith [cSlash] pr.path &&
      removeDotSegments (cSlash :: pr.path) == [cSlash, 0x25, 0x32, 0x41]))
  let seg0 := pa.path.takeWhile (· != cSlash)
  let c17 := isParse && pa.scheme.isNone && pa.authority.isNone &&
    (isInfix [0x25, 0x33, 0x61] seg0 || isInfix [0x25, 0x33, 0x41] seg0)
  (if c1 then ["scheme-has-uppercase"] else []) ++
  (if c2 then ["host-non-ascii"] else []) ++
  (if c3 then ["host-pct-encoded"] else []) ++
  (if c4 then ["userinfo-not-plain"] else []) ++
  (if c5 then ["host-ipvfuture"] else []) ++
  (if c6 then ["empty-host"] else []) ++
  (if c7 then ["opaque-reclassified-abs-path"] else []) ++
  (if c16 then ["relative-path-escaped-asterisk"] else []) ++
  (if c17 then ["relative-first-segment-encoded-colon"] else []) ++
  (if c8 then ["special-scheme-no-authority-base"] else []) ++
  (if c9 then ["rootless-base-path-reference"] else []) ++
  (if c10 then ["base-dot-segments-empty-path-reference"] else []) ++
  (if c11 then ["base-empty-query-dropped"] else []) ++
  (if c12 then ["base-fragment-inherited"] else []) ++
  (if c13 then ["dotdot-then-empty-segment"] else []) ++
  (if c15 then ["empty-base-path-reference-to-root"] else []) ++
  (if c14 then ["absolute-reference-rootless-dot-segments"] else [])

end RdfModel.C12
