/-
  Property C08, DOCUMENT level — decoding the printed form of a Turtle / TriG document yields the
  dataset the document denotes.

    Spec/TurtleAbstract.lean   abstract syntax `Doc`, `denote` (Turtle 1.1 §7 / TriG 1.1), `print`
                               (every lexical and layout choice, see the header of that file)
    Model/TurtleDoc.lean       the decoder model the driver runs (`TtlDoc.run`, flag `trig`)

  PROVED (`decode_print_partial`): for every well-formed document — all four directives in any
  keyword case, changing base, prefixed names with every escape, the four string styles with every
  escape, language tags, datatypes as IRIREF or prefixed name, numeric and boolean shorthand, `a`,
  `;` and `,` lists with repeated and trailing `;`, `[]`, `()`, labelled blank nodes, blank-node
  property lists and collections NESTED TO ANY DEPTH in object and subject position (`[ … ]` as
  subject with or without a following predicate-object list), and in TriG `GRAPH g { }`, `g { }`,
  `{ }` with iri / label / `[]` graph names and optional last `.` — every choice list (layout: any
  mix of SP/TAB/LF/CR and comments ended by LF, CR LF, CR or the end of the document, also none
  where the grammar allows), both packages, default base present or absent, any resolver:
      `TtlDoc.run C .eof base pf (print T doc ch) = ((denote C.resolve base pf doc).map toStmt, .clean)`
  — the same statements in the same order with the same blank nodes (`toBN`: fresh nodes by their
  number, labelled nodes by their label), hence a fortiori the same dataset up to blank-node
  renaming.  `decode_print_flat_partial` is the special case without nesting.  The proof composes
  the token theorems of `Props/C08Tokens.lean` (through `Proofs/C08DocTok.lean`: stop conditions
  from the printer's `clash`, incl. a `.` glued to a name, label or number) with a symbolic run of
  the statement machine (`Proofs/C08Mach.lean`: fuel-free `Steps` and the bridge to `run`;
  `Proofs/C08DocStep/Run/Top/Nest.lean`: one lemma per scan function and production, structural
  recursion over the nested syntax).

  The theorem is `_partial` because of THREE deviations of the decoder from the grammar (model and Go
  agree; witnesses below; the full statement `decode_print` is FALSE for the code as it is), each
  excluded by an explicit decidable hypothesis:
    * `choicesOK ch`: no keyword `a` / `PREFIX` / `BASE` / `GRAPH` directly followed by a
      non-white-space character such as `<`, `[` or `#` (finding `keyword-glue`; `BASE<…>` is
      accepted);
    * `docNoBoolPfx doc`: no object written as a prefixed name whose prefix label starts with
      `true` / `false` (finding `pname-bool-prefix`: read as the boolean keyword);
    * inside `docWf` (`prefixOK2`): no prefix label containing U+1680, a PN_CHARS_BASE character that
      Go's `unicode.IsSpace` swallows (finding `pname-prefix-space`).
  Two further deviations found here are REPAIRED (patches `fix-ttl-bnpl-subject-semicolon` = D42,
  `fix-ttl-comment-cr` = D44) and the model is of the repaired code; see `repaired_*` below.

  Printer restrictions (documented in the Spec, not hypotheses): no layout between a string and
  its `@lang` / `^^datatype`.
-/
import RdfModel.Proofs.C08DocNest
import RdfModel.Props.C08DocTables
import RdfModel.Proofs.TtlDocReal
import RdfModel.Props.C02TokensTables
namespace RdfModel.C08
open RdfModel RdfModel.TA RdfModel.C02 RdfModel.Ttl RdfModel.TtlDoc

/-- FULL STATEMENT for the nesting-free fragment (false for the code as it is: findings
    `keyword-glue`, `pname-bool-prefix`, `pname-prefix-space`; see the witnesses below). -/
def decode_print_flat : Prop :=
  ∀ (T : Tables) (C : Cfg), TablesOK T → TablesOK2 T → C.P = Producers.real T → (∀ c, C.pnBase c = inRanges T.pnCharsBase c) →
    (∀ c, C.isSpace c = inRanges Gen.unicodeSpace c) →
    ∀ (base : Option (List Nat)) (pf : List (List Nat × List Nat)) (doc : Doc) (ch : Choices) (qs : List QuadB),
      docWf T C.trig doc = true → docFlat doc = true →
      denote C.resolve base pf doc = some qs →
      run C .eof base pf (print T doc ch) = (qs.map toStmt, .clean)

/-- FULL STATEMENT of C08 at document level (false for the code as it is: the three findings). -/
def decode_print : Prop :=
  ∀ (T : Tables) (C : Cfg), TablesOK T → TablesOK2 T → C.P = Producers.real T → (∀ c, C.pnBase c = inRanges T.pnCharsBase c) →
    (∀ c, C.isSpace c = inRanges Gen.unicodeSpace c) →
    ∀ (base : Option (List Nat)) (pf : List (List Nat × List Nat)) (doc : Doc) (ch : Choices) (qs : List QuadB),
      docWf T C.trig doc = true →
      denote C.resolve base pf doc = some qs →
      run C .eof base pf (print T doc ch) = (qs.map toStmt, .clean)

/-- Decoding the printed form of a document yields exactly what the document denotes — any nesting,
    every choice list without glued keywords, Turtle and TriG. -/
theorem decode_print_partial (T : Tables) (hT : TablesOK T) (hT2 : TablesOK2 T) (C : Cfg) (hC : CfgOK T C)
    (base : Option (List Nat)) (pf : List (List Nat × List Nat)) (doc : Doc) (ch : Choices) (qs : List QuadB)
    (hwf : docWf T C.trig doc = true) (hnb : docNoBoolPfx doc = true)
    (hch : choicesOK ch = true) (hd : denote C.resolve base pf doc = some qs) :
    run C .eof base pf (print T doc ch) = (qs.map toStmt, .clean) := by
  simp only [denote, Option.map_eq_some_iff] at hd
  obtain ⟨⟨qs', st'⟩, hdd, rfl⟩ := hd
  have hcons : C.P.Consumes := by rw [hC.prod]; exact real_consumes T hT2.nul
  have hfit : ∀ b ∈ doc, BlockFit T C ch b := by
    intro b hb
    exact blockFit_all hT hT2 hC hch b (List.all_eq_true.1 hwf b hb) (List.all_eq_true.1 hnb b hb)
  have hsteps := doc_good hT hT2 hC hch doc hfit 1 {} [] (print T doc ch) { base := base, ns := pf, next := 0 } st' qs' rfl rfl hdd
    (after_skip (T := T) hC .punct (ch.at 0) (slot_ok hch 0) _)
  exact run_of_steps hcons base pf (print T doc ch) _ _ hsteps rfl

/-- … for the configuration the driver runs (tables regenerated from /repo, `unicode.IsSpace`). -/
theorem decode_print_real (trig : Bool) (resolve : Option (List Nat) → List Nat → Option (List Nat))
    (base : Option (List Nat)) (pf : List (List Nat × List Nat)) (doc : Doc) (ch : Choices) (qs : List QuadB)
    (hwf : docWf (if trig then Gen.trig else Gen.turtle) trig doc = true)
    (hnb : docNoBoolPfx doc = true) (hch : choicesOK ch = true) (hd : denote resolve base pf doc = some qs) :
    run (C05.realCfg trig resolve (inRanges Gen.unicodeSpace)) .eof base pf
        (print (if trig then Gen.trig else Gen.turtle) doc ch) = (qs.map toStmt, .clean) := by
  have hT : TablesOK (if trig then Gen.trig else Gen.turtle) := by cases trig; exact gen_turtle_ok; exact gen_trig_ok
  have hT2 : TablesOK2 (if trig then Gen.trig else Gen.turtle) := by cases trig; exact gen_turtle_ok2; exact gen_trig_ok2
  exact decode_print_partial _ hT hT2 _ (cfgOK_real trig resolve) base pf doc ch qs (by cases trig <;> exact hwf) hnb hch hd

/-- Decoding the printed form of a nesting-free document yields exactly what the document denotes
    — for every choice list without glued keywords, Turtle and TriG. -/
theorem decode_print_flat_partial (T : Tables) (hT : TablesOK T) (hT2 : TablesOK2 T) (C : Cfg) (hC : CfgOK T C)
    (base : Option (List Nat)) (pf : List (List Nat × List Nat)) (doc : Doc) (ch : Choices) (qs : List QuadB)
    (hwf : docWf T C.trig doc = true) (_hflat : docFlat doc = true) (hnb : docNoBoolPfx doc = true)
    (hch : choicesOK ch = true) (hd : denote C.resolve base pf doc = some qs) :
    run C .eof base pf (print T doc ch) = (qs.map toStmt, .clean) :=
  decode_print_partial T hT hT2 C hC base pf doc ch qs hwf hnb hch hd

/-- … for the configuration the driver runs (tables regenerated from /repo, `unicode.IsSpace`). -/
theorem decode_print_flat_real (trig : Bool) (resolve : Option (List Nat) → List Nat → Option (List Nat))
    (base : Option (List Nat)) (pf : List (List Nat × List Nat)) (doc : Doc) (ch : Choices) (qs : List QuadB)
    (hwf : docWf (if trig then Gen.trig else Gen.turtle) trig doc = true) (hflat : docFlat doc = true)
    (hnb : docNoBoolPfx doc = true) (hch : choicesOK ch = true) (hd : denote resolve base pf doc = some qs) :
    run (C05.realCfg trig resolve (inRanges Gen.unicodeSpace)) .eof base pf
        (print (if trig then Gen.trig else Gen.turtle) doc ch) = (qs.map toStmt, .clean) := by
  have hT : TablesOK (if trig then Gen.trig else Gen.turtle) := by cases trig; exact gen_turtle_ok; exact gen_trig_ok
  have hT2 : TablesOK2 (if trig then Gen.trig else Gen.turtle) := by cases trig; exact gen_turtle_ok2; exact gen_trig_ok2
  exact decode_print_flat_partial _ hT hT2 _ (cfgOK_real trig resolve) base pf doc ch qs
    (by cases trig <;> exact hwf) hflat hnb hch hd

def idResolve : Option (List Nat) → List Nat → Option (List Nat) := fun _ r => some r

/-! ### Non-vacuity: a document exercising most productions satisfies the hypotheses -/

/-- `@prefix ex: <http://e/> . BASE <http://e/d/> ex:a a <b> , "x"@en ; ex:p.q 1.5 , [] , true ;; .` -/
def exDoc : Doc :=
  [.dir (.prefixAt (asc "ex") (asc "http://e/")), .dir (.baseKw (asc "http://e/d/")),
   .triples ⟨.iri (.pn (asc "ex") (asc "a")),
     [.mk .a [.iri (.ref (asc "b")), .lit (.lang (asc "x") (asc "en"))],
      .mk (.iri (.pn (asc "ex") (asc "p.q"))) [.lit (.num (asc "1.5")), .anon, .lit (.bool true)]]⟩]

def exChoices : Choices :=
  [{}, { lay := [.ws 2] }, {}, { lay := [.comment (asc "c") 0] }, {}, { n := 5, lay := [.ws 1] }, {},
   { lay := [.ws 0] }, {}, { cs := [.u4 true], lay := [.comment (asc "x") 2] }, {}, { sty := .lsq, cs := [.u8 false] }, {}, { n := 1 }, {}, {}, {}, {}, {}, {}, { n := 2 }]

example : docWf Gen.turtle false exDoc = true ∧ docFlat exDoc = true ∧ docNoBoolPfx exDoc = true ∧
    choicesOK exChoices = true := by decide

example : (denote (fun b r => some (b.getD [] ++ r)) none [] exDoc).isSome = true := by decide

/-- `[ <p> ( 1 [ <q> "x" ] ) ] <r> () ; <s> [] .` — nesting in subject and object position -/
def exNested : Doc :=
  [.triples ⟨.bnpl [.mk (.iri (.ref (asc "p"))) [.coll [.lit (.num (asc "1")), .bnpl [.mk (.iri (.ref (asc "q"))) [.lit (.plain (asc "x"))]]]]],
     [.mk (.iri (.ref (asc "r"))) [.coll []], .mk (.iri (.ref (asc "s"))) [.anon]]⟩]

example : docWf Gen.turtle false exNested = true ∧ docNoBoolPfx exNested = true ∧
    (denote idResolve none [] exNested).isSome = true := by decide

/-- … so the theorem applies to them: whatever `exDoc` / `exNested` denote is what the Turtle and the
    TriG configuration decode from the printed text -/
example : ∃ qs, denote idResolve none [] exDoc = some qs ∧
    run (C05.realCfg false idResolve (inRanges Gen.unicodeSpace)) .eof none [] (print Gen.turtle exDoc exChoices) =
      (qs.map toStmt, .clean) := by
  obtain ⟨qs, h⟩ := Option.isSome_iff_exists.1 (by decide : (denote idResolve none [] exDoc).isSome = true)
  exact ⟨qs, h, decode_print_real false idResolve none [] exDoc exChoices qs (by decide) (by decide) (by decide) h⟩

example : ∃ qs, denote idResolve none [] exNested = some qs ∧
    run (C05.realCfg true idResolve (inRanges Gen.unicodeSpace)) .eof none [] (print Gen.trig exNested []) =
      (qs.map toStmt, .clean) := by
  obtain ⟨qs, h⟩ := Option.isSome_iff_exists.1 (by decide : (denote idResolve none [] exNested).isSome = true)
  exact ⟨qs, h, decode_print_real true idResolve none [] exNested [] qs (by decide) (by decide) (by decide) h⟩

/-! ### Witnesses of the three findings on the model (the Go decoders behave the same), and the
    repaired behaviour at the two defects fixed here (D42, D44) -/

def realTtl : Cfg := C05.realCfg false idResolve (inRanges Gen.unicodeSpace)
def realTrig : Cfg := C05.realCfg true idResolve (inRanges Gen.unicodeSpace)

/-- D44 (repaired, patch `fix-ttl-comment-cr`): a comment ends at CR; before, the statement after
    `#c` CR was swallowed by the comment and the run ended cleanly with no statement -/
theorem repaired_comment_cr :
    run realTtl .eof none [] (asc "#c\r<a:a> <a:b> <a:c> .\n") =
      ([⟨some (.iri (asc "a:a")), some (.iri (asc "a:b")), .iri (asc "a:c"), none⟩], .clean) := by decide

/-- D42 (repaired, patch `fix-ttl-bnpl-subject-semicolon`): `;` after a blank-node property list in
    subject position, both packages -/
theorem repaired_bnpl_subject_semicolon :
    (run realTtl .eof none [] (asc "[ <a:p> <a:o> ] <a:q> <a:r> ; <a:s> <a:t> .")).2 = .clean ∧
    (run realTtl .eof none [] (asc "[ <a:p> <a:o> ] <a:q> <a:r> ; <a:s> <a:t> .")).1.length = 3 ∧
    (run realTrig .eof none [] (asc "[ <a:p> <a:o> ] <a:q> <a:r> ; <a:s> <a:t> .")).2 = .clean ∧
    (run realTrig .eof none [] (asc "[ <a:p> <a:o> ] <a:q> <a:r> ; <a:s> <a:t> .")).1.length = 3 := by decide

/-- `keyword-glue`: `<a:a> a<a:c>.` is rejected -/
theorem finding_keyword_glue :
    (run realTtl .eof none [] (asc "<a:a> a<a:c>.")).2 = .error .syntax ∧
    (run realTrig .eof none [] (asc "GRAPH<a:g>{}")).2 = .error .syntax := by decide

/-- `pname-bool-prefix`: the object `truex:a` is read as `true` followed by garbage -/
theorem finding_pname_bool_prefix :
    (run realTtl .eof none [(asc "truex", asc "a:")] (asc "<a:a> <a:b> truex:a .")).2 = .error .syntax := by decide

/-- `pname-prefix-space`: U+1680 at the start of a prefix label is skipped as white space, the name
    ` x:a` is read as `x:a` -/
theorem finding_pname_prefix_space :
    (run realTtl .eof none [(asc "x", asc "a:2"), ([0x1680, 0x78], asc "a:1")] ([0x1680] ++ asc "x:a <a:b> <a:c> .")).1 =
      [⟨some (.iri (asc "a:2a")), some (.iri (asc "a:b")), .iri (asc "a:c"), none⟩] := by decide

end RdfModel.C08
