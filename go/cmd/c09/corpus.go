package main

// The W3C RDF/XML test documents shipped with the repository, parsed into abstract trees with
// encoding/xml (namespace-resolved names, xmlns declarations dropped, adjacent character data merged,
// comments and processing instructions dropped, content of rdf:parseType="Literal" kept as raw bytes).

import (
	"archive/tar"
	"bytes"
	"compress/gzip"
	"encoding/xml"
	"fmt"
	"io"
	"os"
	"path"
	"sort"
	"strings"

	"verifharness/vh"

	"github.com/dpb587/rdfkit-go/encoding/ntriples"
	"github.com/dpb587/rdfkit-go/rdf"
)

func parseXMLTree(doc []byte) (*Node, error) {
	dec := xml.NewDecoder(bytes.NewReader(doc))
	var stack []*Node
	var root *Node
	for {
		tok, err := dec.Token()
		if err == io.EOF {
			break
		}
		if err != nil {
			return nil, err
		}
		switch t := tok.(type) {
		case xml.Directive:
			return nil, fmt.Errorf("directive")
		case xml.StartElement:
			n := &Node{Kind: 'e', NS: t.Name.Space, Name: t.Name.Local}
			raw := false
			for _, a := range t.Attr {
				if a.Name.Space == "xmlns" || (a.Name.Space == "" && a.Name.Local == "xmlns") {
					continue
				}
				n.Attrs = append(n.Attrs, Attr{a.Name.Space, a.Name.Local, a.Value})
				if a.Name.Space == rdfNS && a.Name.Local == "parseType" && a.Value != "Resource" && a.Value != "Collection" {
					raw = true
				}
			}
			if len(stack) > 0 {
				p := stack[len(stack)-1]
				p.Kids = append(p.Kids, n)
			} else if root == nil {
				root = n
			} else {
				return nil, fmt.Errorf("second root element")
			}
			if raw {
				start := dec.InputOffset()
				depth := 0
				for {
					prev := dec.InputOffset()
					tk, err := dec.Token()
					if err != nil {
						return nil, err
					}
					if _, ok := tk.(xml.StartElement); ok {
						depth++
					}
					if _, ok := tk.(xml.EndElement); ok {
						if depth == 0 {
							n.Kids = []*Node{{Kind: 'r', Text: string(doc[start:prev])}}
							break
						}
						depth--
					}
				}
				continue
			}
			stack = append(stack, n)
		case xml.EndElement:
			stack = stack[:len(stack)-1]
		case xml.CharData:
			if len(stack) == 0 {
				continue
			}
			p := stack[len(stack)-1]
			if k := len(p.Kids); k > 0 && p.Kids[k-1].Kind == 't' {
				p.Kids[k-1].Text += string(t)
			} else if len(t) > 0 {
				p.Kids = append(p.Kids, &Node{Kind: 't', Text: string(t)})
			}
		}
	}
	if root == nil {
		return nil, fmt.Errorf("no root element")
	}
	return root, nil
}

// wireG renders decoded triples in the driver's term syntax, blank nodes as G<first-occurrence index>.
func wireG(ts []rdf.Triple) []string {
	ids := map[rdf.BlankNodeIdentifier]int{}
	term := func(t rdf.Term) string {
		if b, ok := t.(rdf.BlankNode); ok {
			n, ok := ids[b.Identifier]
			if !ok {
				n = len(ids)
				ids[b.Identifier] = n
			}
			return wGen(n)
		}
		return vh.TermWire(t, nil)
	}
	out := make([]string, len(ts))
	for i, t := range ts {
		out[i] = term(t.Subject) + "," + term(t.Predicate) + "," + term(t.Object)
	}
	return out
}

const w3cPrefix = "http://www.w3.org/2013/RDFXMLTests/"

func (h *harness) runCorpus(d vh.Driver) {
	repo := os.Getenv("VERIF_REPO")
	if repo == "" {
		repo = "/repo"
	}
	f, err := os.Open(path.Join(repo, "encoding/rdfxml/testsuites/w3-2013-RDFXMLTests/testdata.tar.gz"))
	if err != nil {
		h.count("w3c:archive-missing")
		return
	}
	defer f.Close()
	gz, err := gzip.NewReader(f)
	if err != nil {
		h.count("w3c:archive-missing")
		return
	}
	files := map[string][]byte{}
	tr := tar.NewReader(gz)
	for {
		hd, err := tr.Next()
		if err != nil {
			break
		}
		name := strings.TrimPrefix(hd.Name, "./")
		if strings.HasPrefix(path.Base(name), "._") || hd.Typeflag != tar.TypeReg {
			continue
		}
		b, _ := io.ReadAll(tr)
		files[name] = b
	}
	var names []string
	for n := range files {
		if strings.HasSuffix(n, ".rdf") {
			names = append(names, n)
		}
	}
	sort.Strings(names)
	var cases []*docCase
	var lines []string
	for _, n := range names {
		doc := files[n]
		c := &docCase{origin: "w3c:" + n, base: w3cPrefix + n, doc: doc, negative: strings.HasPrefix(path.Base(n), "error")}
		tree, err := parseXMLTree(doc)
		if err != nil {
			h.count("w3c:not-a-tree (" + strings.SplitN(err.Error(), ":", 2)[0] + ")")
			continue
		}
		c.tree = tree
		if nt, ok := files[strings.TrimSuffix(n, ".rdf")+".nt"]; ok && !c.negative {
			dec, err := ntriples.NewDecoder(bytes.NewReader(nt))
			if err == nil {
				var ts []rdf.Triple
				for dec.Next() {
					ts = append(ts, dec.Triple())
				}
				if dec.Err() == nil {
					c.expectNT = wireG(ts)
					if c.expectNT == nil {
						c.expectNT = []string{}
					}
				}
			}
		}
		cases = append(cases, c)
		lines = append(lines, "rx.denote "+vh.XS(c.base)+" "+tree.Wire())
	}
	if !*nomodel {
		res, err := d.RunParallel(lines)
		if err != nil {
			fmt.Fprintln(os.Stderr, err)
			os.Exit(2)
		}
		for i, c := range cases {
			c.denote = res[i]
		}
	}
	for _, c := range cases {
		h.rep.Eval(c.replayLine(), true)
		h.count("w3c:documents")
		if *nomodel && c.expectNT != nil {
			// without the model the published result stands in for the denotation
			c.intended = c.expectNT
		}
		h.evaluate(c)
	}
	if !*nomodel {
		h.resolvePending(d)
	}
}
