/-
  RdfModel.Model.JsonLdContext — executable model of the JSON-LD context machinery of /repo
  (encoding/jsonld/internal/jsonldinternal), function by function, as coded:

    * `iriExpandBody` (steps 1–5) + `iriExpandRest` (6–9: `suppressCyclic`, `expandTail`) / `iriExpandStr` / `iriExpand`
                                                       algorithm_iri_expansion.go  `algorithmIRIExpansion.Call`
    * `ctdBody` (with one function per step: `typeTermStep`, `normalizeValue`, `protectedStep`, `typeStep`,
      `reverseStep`, `iriStep`, `containerStep`, `containerTypeStep`, `indexExpand`, `languageStep`, `directionStep`,
      `nestStep`, `prefixStep`, `keysStep`) / `ctd`    algorithm_create_term_definition.go `algorithmCreateTermDefinition.Call`
    * `processBody` / `processItem` / `processObj` (`versionStep`, `importStep`, `baseStep`, `vocabStep`, `langStep`,
      `dirStep`, `propagateStep`, `termsStep`) / `processCtx`
                                                       algorithm_context_processing.go `algorithmContextProcessing.Call`
    * `Context`, `Core`, `TermDef`, `clone`, `TermDef.equals`   context.go, term_definition.go

  Conventions
    * strings are the BYTES of the Go strings (`Str = List Nat`); JSON values are `JL.Json` with objects as
      key-sorted member lists without duplicates (the representation of `inspectjson.ObjectValue.Members`,
      a Go map; the hook renders it that way). A number is `.dbl "1.1E0"` iff its float64 value is 1.1.
    * a Go map is its key-sorted association list (`mset`/`mdel`/`mget`); `defined` is an association list.
    * the three algorithms are mutually recursive in Go; here every algorithm is a non-recursive `…Body`
      taking the other algorithms as callbacks, and the mutual block `iriExpandStr`/`ctd`/`processCtx`
      ties the knot by structural recursion on a fuel counter (one unit per Go call of `.Call()`).
      Running out of fuel is the explicit outcome `fuel`; `fuelFor` is the amount the driver supplies
      (proved sufficient: Props/C10Ctx.ctx_fuel_sufficient).
    * CreateTermDefinition mutates the active context and `defined` in place and IRI expansion continues
      after a suppressed `cyclic IRI mapping` error, so an error outcome carries the mutated state.
    * `iri.ParsedIRI` is a parameter (`IriOps P`): `ParseIRI`, `IsAbs`, `ResolveReference`, `String`, and
      `url.Parse(v)` succeeding with `IsAbs()`; the driver instantiates it with Model/ParsedIRI.lean.
    * remote contexts (a string as a context) and `@import` with a string value are `unmodelled`.
    * a stored term definition always has an IRI mapping in Go (every path of steps 13–18 assigns one
      before the definition is stored), so `TermDef.iri` is not optional; the branch `definition.IRI == nil`
      of step 25.3 is dead code. An expanded IRI stored in a context is never an `ExpandedIRIasRawValue`
      (IRI expansion of a string never yields one), so stored mappings have type `SIri`; `EIri` adds it.
    * text offsets, the inverse context (always reset to nil) are outside the model.
  Core-only, executable, total.
-/
import RdfModel.Spec.JsonLdFragment
import RdfModel.Model.StrOrd
namespace RdfModel.JLC
open RdfModel RdfModel.JL

/-! ## Data types -/

/-- `contextProcessor.processingMode`: an unvalidated string, compared with the two constants only -/
inductive Mode where
  | v10 | v11 | other
  deriving DecidableEq, Repr, Inhabited

/-- the error codes (`jsonldtype.ErrorCode`) these algorithms return; `plain…` = a `fmt.Errorf` error -/
inductive Err where
  | cyclicIRIMapping | invalidTermDefinition | keywordRedefinition | invalidAtProtectedValue
  | invalidTypeMapping | invalidReverseProperty | invalidIRIMapping | invalidKeywordAlias
  | invalidContainerMapping | invalidScopedContext | invalidLanguageMapping | invalidBaseDirection
  | invalidAtNestValue | invalidAtPrefixValue | protectedTermRedefinition | invalidContextNullification
  | invalidLocalContext | invalidAtVersionValue | processingModeConflict | invalidContextEntry
  | invalidAtImportValue | invalidBaseIRI | invalidVocabMapping | invalidDefaultLanguage
  | invalidAtPropagateValue | plainPrefixType | plainVocabType
  deriving DecidableEq, Repr, Inhabited

/-- `ExpandedIRI` values that IRI expansion of a string yields and contexts store -/
inductive SIri where
  | nil                 -- ExpandedIRIasNil
  | kw (k : Str)        -- ExpandedIRIasKeyword
  | iri (v : Str)       -- ExpandedIRIasIRI
  | bnode (v : Str)     -- ExpandedIRIasBlankNode (the whole string, with `_:`)
  deriving DecidableEq, Repr, Inhabited

/-- `ExpandedIRI` -/
inductive EIri where
  | s (e : SIri)
  | raw (j : Json)      -- ExpandedIRIasRawValue
  deriving Repr, Inhabited

structure TermDef where
  iri : SIri
  iriValue : Option (Option Str)       -- IRIValue: nil | null | string
  pfx : Bool
  prot : Bool
  reverse : Bool
  baseURL : Option Str                 -- BaseURL, by its String() (all these algorithms use of it)
  context : Option Json
  container : List Str                 -- nil and empty are not distinguished by the code
  direction : Option (Option Str)
  index : Option Str
  language : Option (Option Str)
  nest : Option Str
  typeMapping : Option SIri
  typeValue : Option Str
  deriving Repr, Inhabited

/-- `(*TermDefinition).Equals` on two non-nil definitions: every field but Context and the source values -/
def TermDef.equals (d d2 : TermDef) : Bool :=
  d.iri == d2.iri && d.pfx == d2.pfx && d.prot == d2.prot && d.reverse == d2.reverse &&
  d.baseURL == d2.baseURL && d.container == d2.container && d.direction == d2.direction &&
  d.index == d2.index && d.language == d2.language && d.nest == d2.nest && d.typeMapping == d2.typeMapping

abbrev TermMap := List (Str × TermDef)

/-- the fields of `Context` (without the previous context and the processor) -/
structure Core (P : Type) where
  terms : TermMap
  base : Option P
  baseValue : Option Str
  origBase : Option P
  vocab : Option SIri
  vocabValue : Option Str
  lang : Option Str
  dir : Option Str
  deriving Repr, Inhabited

/-- a `*Context` with its chain of previous contexts (`PreviousContext`, then its `PreviousContext`, …) -/
structure Context (P : Type) where
  core : Core P
  prev : List (Core P)
  deriving Repr, Inhabited

def Context.initial {P : Type} (base : Option P) : Context P :=
  { core := { terms := [], base, baseValue := none, origBase := base, vocab := none, vocabValue := none,
              lang := none, dir := none }, prev := [] }

/-- `(*Context).clone`: a new map with the same entries; every field copied except
    `VocabularyMappingValue`, which the function does not mention -/
def Context.clone {P : Type} (c : Context P) : Context P :=
  { core := { terms := c.core.terms, base := c.core.base, baseValue := c.core.baseValue,
              origBase := c.core.origBase, vocab := c.core.vocab, vocabValue := none,
              lang := c.core.lang, dir := c.core.dir },
    prev := c.prev }

/-! ## Go maps -/

def mget {α : Type} (k : Str) (m : List (Str × α)) : Option α := m.lookup k

def mdel {α : Type} (k : Str) (m : List (Str × α)) : List (Str × α) := m.filter (fun e => e.1 != k)

def mset {α : Type} (k : Str) (v : α) : List (Str × α) → List (Str × α)
  | [] => [(k, v)]
  | (k', v') :: r =>
    if k = k' then (k, v) :: r
    else if strLt k k' then (k, v) :: (k', v') :: r
    else (k', v') :: mset k v r

/-! ## parsed IRIs as a parameter -/

inductive PR (P : Type) where
  | ok (p : P)
  | err
  | unmodelled
  | panic
  deriving Repr

inductive AbsR where
  | yes | no | unmodelled | panic
  deriving DecidableEq, Repr

structure IriOps (P : Type) where
  parse : Str → PR P                  -- iri.ParseIRI
  isAbs : P → Bool                    -- (*ParsedIRI).IsAbs
  resolve : P → P → Option P          -- (*ParsedIRI).ResolveReference; none = panic
  str : P → Str                       -- (*ParsedIRI).String
  goAbs : Str → AbsR                  -- url.Parse(v) without error and IsAbs()

/-! ## outcomes -/

structure St (P : Type) where
  ctx : Context P
  defined : List (Str × Bool)

/-- outcome of an algorithm that works on the state in place -/
inductive Res (P : Type) (α : Type) where
  | ok (a : α) (s : St P)
  | err (e : Err) (s : St P)
  | panic
  | unmodelled
  | fuel

/-- outcome of Context Processing -/
inductive Out (α : Type) where
  | ok (a : α)
  | err (e : Err)
  | panic
  | unmodelled
  | fuel
  deriving Repr

def Res.bind {P α β : Type} (r : Res P α) (f : α → St P → Res P β) : Res P β :=
  match r with
  | .ok a s => f a s
  | .err e s => .err e s
  | .panic => .panic
  | .unmodelled => .unmodelled
  | .fuel => .fuel

def Res.ofExcept {P α : Type} (s : St P) : Except Err α → Res P α
  | .ok a => .ok a s
  | .error e => .err e s

/-! ## strings -/

def kReverse := asc "@reverse"
def kIndex := asc "@index"
def kNest := asc "@nest"
def kPrefix := asc "@prefix"
def kProtected := asc "@protected"
def kPropagate := asc "@propagate"
def kDirection := asc "@direction"
def kImport := asc "@import"
def kJson := asc "@json"
def kNone := asc "@none"

/-- `hasIRIScheme` -/
def hasIRIScheme (s : Str) : Bool := isScheme s

/-- `isIRI(processingMode, v)` (util.go) -/
def isIRI (mode : Mode) (v : Str) : Bool :=
  match splitColon v with
  | none => false
  | some (p, _) =>
    if p.head? == some cUnderscore then false
    else if mode == Mode.v11 then !(v.contains 0x20) && hasIRIScheme p
    else true

def isKw (e : SIri) (k : Str) : Bool := e == .kw k

/-! ## IRI Expansion -/

/-- steps 7–9 of IRI expansion -/
def expandTail {P : Type} (ops : IriOps P) (c : Core P) (st : St P) (s : Str) (docRel vocab : Bool) : Res P SIri :=
  match (if vocab then c.vocab else none) with
  | some (.iri t) => .ok (.iri (t ++ s)) st
  | some (.bnode t) => .ok (.bnode (t ++ s)) st
  | _ =>
    match (if docRel then c.base else none) with
    | some b =>
      match ops.parse s with
      | .ok r =>
        match ops.resolve b r with
        | some p => .ok (.iri (ops.str p)) st
        | none => .panic
      | .err => .ok (.iri s) st
      | .unmodelled => .unmodelled
      | .panic => .panic
    | none => .ok (.iri s) st

/-- the suppression of a `cyclic IRI mapping` error of a nested Create Term Definition (steps 3 and 6.3 as
    coded): processing goes on with the state the failed call left behind -/
def suppressCyclic {P : Type} (keep : St P → Bool) : Res P Unit → Res P Unit
  | .err e st' => if e == .cyclicIRIMapping && keep st' then .ok () st' else .err e st'
  | r => r

/-- steps 6–9 of IRI expansion -/
def iriExpandRest {P : Type} (ops : IriOps P) (ctdCb : St P → Str → Res P Unit)
    (loc : Option (List (Str × Json))) (st : St P) (s : Str) (docRel vocab : Bool) : Res P SIri :=
  match (if colonAfterFirst s then splitColon s else none) with
  | some (p, suf) =>
    if p == [cUnderscore] then .ok (.bnode s) st                            -- 6.2
    else if suf.take 2 == [cSlash, cSlash] then .ok (.iri s) st
    else
      -- 6.3
      let r63 : Res P Unit :=
        match loc with
        | some ms =>
          if hasKey p ms && !(mget p st.defined == some true) then
            suppressCyclic (fun st' => !(mget p st'.defined == some false)) (ctdCb st p)
          else .ok () st
        | none => .ok () st
      r63.bind fun _ st =>
      -- 6.4
      match (match mget p st.ctx.core.terms with
             | some d => if d.pfx then (match d.iri with
                | .iri t => some (SIri.iri (t ++ suf))
                | .bnode t => some (SIri.bnode (t ++ suf))
                | _ => none) else none
             | none => none) with
      | some e => .ok e st
      | none =>
        if hasIRIScheme p then .ok (.iri s) st                              -- 6.5
        else expandTail ops st.ctx.core st s docRel vocab
  | none => expandTail ops st.ctx.core st s docRel vocab

/-- `algorithmIRIExpansion.Call` for a string value. `ctdCb st term` = Create Term Definition for a
    member `term` of the local context `loc` (defaults: no base URL, not protected, no override). -/
def iriExpandBody {P : Type} (ops : IriOps P) (ctdCb : St P → Str → Res P Unit)
    (loc : Option (List (Str × Json))) (st : St P) (s : Str) (docRel vocab : Bool) : Res P SIri :=
  if isKeyword s then .ok (.kw s) st                                            -- 1
  else if isKeywordForm s then .ok .nil st                                      -- 2
  else
    -- 3
    let r3 : Res P Unit :=
      match loc with
      | some ms =>
        if hasKey s ms && !(mget s st.defined == some true) then
          suppressCyclic (fun st' => mget s st'.defined == some false) (ctdCb st s)
        else .ok () st
      | none => .ok () st
    r3.bind fun _ st =>
    -- 4, 5
    match mget s st.ctx.core.terms with
    | some d =>
      (match d.iri with
       | .kw _ => .ok d.iri st
       | .nil => .ok d.iri st
       | _ => if vocab then .ok d.iri st else iriExpandRest ops ctdCb loc st s docRel vocab)
    | none => iriExpandRest ops ctdCb loc st s docRel vocab

/-! ## Create Term Definition -/

/-- the part of a term definition computed by steps 12–18 -/
structure IriPart where
  iri : SIri
  iriValue : Option (Option Str)
  pfx : Bool

def genDelims : List Nat := [0x3a, 0x2f, 0x3f, 0x23, 0x5b, 0x5d, 0x40]

/-- "contains a colon anywhere but as the first or last character, or a slash": as coded, a term of
    length ≤ 1 is searched as a whole -/
def hasColonOrSlash (term : Str) : Bool :=
  (if term.length > 1 then (term.drop 1).dropLast else term).contains cColon || term.contains cSlash

/-- step 14.2.5 -/
def prefixFlag145 (mode : Mode) (term : Str) (simple : Bool) (iri : SIri) : Bool :=
  if mode == Mode.v10 then true
  else if !hasColonOrSlash term && simple then
    match iri with
    | .iri t => (match t.getLast? with | some c => genDelims.contains c | none => false)
    | .bnode _ => true
    | _ => false
  else false

/-- step 19: the container mapping -/
def containerStep (mode : Mode) (vo : List (Str × Json)) : Except Err (List Str) :=
  match getKey kContainer vo with
  | none => .ok []
  | some (.str c) =>
    if [asc "@graph", asc "@id", asc "@type"].contains c then
      if mode == Mode.v10 then .error .invalidContainerMapping else .ok [c]
    else if [asc "@index", asc "@language", asc "@list", asc "@set"].contains c then .ok [c]
    else .error .invalidContainerMapping
  | some (.arr xs) =>
    if mode == Mode.v10 then .error .invalidContainerMapping else
    let all7 := [asc "@graph", asc "@id", asc "@index", asc "@language", asc "@list", asc "@set", asc "@type"]
    match xs.mapM (fun x => match x with
        | .str c => if all7.contains c then some c else none
        | _ => none) with
    | none => .error .invalidContainerMapping
    | some cs =>
      let u := cs.eraseDups
      if u.length == 0 then .error .invalidContainerMapping
      else if u.length == 1 then .ok cs
      else if u.contains (asc "@set") then
        if u.all (fun c => [asc "@set", asc "@index", asc "@graph", asc "@id", asc "@type", asc "@language"].contains c)
        then .ok cs else .error .invalidContainerMapping
      else if u.contains (asc "@graph") then
        let hasId := u.contains (asc "@id")
        let hasIndex := u.contains (asc "@index")
        if hasId && hasIndex then .error .invalidContainerMapping
        else if !hasId && !hasIndex then .error .invalidContainerMapping
        else if u.length > 2 && !(u.all (fun c => [asc "@graph", asc "@id", asc "@index"].contains c))
        then .error .invalidContainerMapping
        else .ok cs
      else .ok cs
  | some _ => .error .invalidContainerMapping

/-- step 19.4 -/
def containerTypeStep (cont : List Str) (tm : Option SIri) : Except Err (Option SIri) :=
  if cont.contains kType then
    let tm := match tm with | none => some (SIri.kw kId) | x => x
    if tm != some (.kw kId) && tm != some (.kw kVocab) then .error .invalidTypeMapping else .ok tm
  else .ok tm

/-- step 22 -/
def languageStep (vo : List (Str × Json)) : Except Err (Option (Option Str)) :=
  match getKey kLanguage vo with
  | none => .ok none
  | some v =>
    if hasKey kType vo then .ok none else
    match v with
    | .null => .ok (some none)
    | .str s => .ok (some (some s))
    | _ => .error .invalidLanguageMapping

/-- step 23 -/
def directionStep (vo : List (Str × Json)) : Except Err (Option (Option Str)) :=
  match getKey kDirection vo with
  | none => .ok none
  | some .null => .ok (some none)
  | some (.str s) => if s != asc "ltr" && s != asc "rtl" then .error .invalidBaseDirection else .ok (some (some s))
  | some _ => .error .invalidBaseDirection

/-- step 24 -/
def nestStep (mode : Mode) (vo : List (Str × Json)) : Except Err (Option Str) :=
  match getKey kNest vo with
  | none => .ok none
  | some v =>
    if mode == Mode.v10 then .error .invalidTermDefinition else
    match v with
    | .str s => if isKeywordForm s && s != kNest then .error .invalidAtNestValue else .ok (some s)
    | _ => .error .invalidAtNestValue

/-- step 25: the prefix flag after the `@prefix` entry -/
def prefixStep (mode : Mode) (term : Str) (vo : List (Str × Json)) (iri : SIri) (pfx : Bool) : Except Err Bool :=
  match getKey kPrefix vo with
  | none => .ok pfx
  | some v =>
    if mode == Mode.v10 then .error .invalidTermDefinition
    else if term.contains cColon || term.contains cSlash then .error .invalidTermDefinition
    else match v with
      | .bool true => (match iri with | .kw _ => .error .invalidTermDefinition | _ => .ok true)
      | .bool false => .ok false
      | _ => .error .invalidAtPrefixValue

def allowedDefKeys : List Str :=
  [kId, kReverse, kContainer, kContext, kDirection, kIndex, kLanguage, kNest, kPrefix, kProtected, kType]

/-- step 26 -/
def keysStep (vo : List (Str × Json)) : Except Err Unit :=
  if vo.all (fun m => allowedDefKeys.contains m.1) then .ok () else .error .invalidTermDefinition

/-- step 11 -/
def protectedStep (mode : Mode) (vo : List (Str × Json)) (dflt : Bool) : Except Err Bool :=
  match getKey kProtected vo with
  | none => .ok dflt
  | some v =>
    if mode == Mode.v10 then .error .invalidTermDefinition else
    match v with
    | .bool b => .ok b
    | _ => .error .invalidAtProtectedValue

/-- step 4 for the term `@type` -/
def typeTermStep (mode : Mode) (value : Json) : Except Err Unit :=
  if mode == Mode.v10 then .error .keywordRedefinition else
  match value with
  | .obj ms =>
    match (match getKey kContainer ms with
           | some (.str c) => if c == kSet then some 1 else none
           | some _ => none
           | none => some 0) with
    | none => .error .keywordRedefinition
    | some n =>
      let valid := n + (if hasKey kProtected ms then 1 else 0)
      if valid == 0 || ms.length != valid then .error .keywordRedefinition else .ok ()
  | _ => .error .keywordRedefinition

/-- steps 7–9: the definition as a map, and *simple term* -/
def normalizeValue (value : Json) : Except Err (List (Str × Json) × Bool) :=
  match value with
  | .null => .ok ([(kId, .null)], false)
  | .str s => .ok ([(kId, .str s)], true)
  | .obj ms => .ok (ms, false)
  | _ => .error .invalidTermDefinition

/-- step 12: the type mapping -/
def typeStep {P : Type} (mode : Mode) (expand : St P → Str → Bool → Res P SIri) (vo : List (Str × Json)) (st : St P) :
    Res P (Option SIri × Option Str) :=
  match getKey kType vo with
  | none => .ok (none, none) st
  | some (.str t) =>
    (expand st t true).bind fun e st =>
      match e with
      | .kw k =>
        if (k == kJson || k == kNone) && mode == Mode.v10 then .err .invalidTypeMapping st
        else if k != kId && k != kJson && k != kNone && k != kVocab then .err .invalidTypeMapping st
        else .ok (some e, some t) st
      | .iri v => if !isIRI mode v then .err .invalidTypeMapping st else .ok (some e, some t) st
      | _ => .err .invalidTypeMapping st
  | some _ => .err .invalidTypeMapping st

/-- step 20.2 (also used by the `@reverse` path): the `@index` value expands to an IRI -/
def indexExpand {P : Type} (mode : Mode) (expand : St P → Str → Bool → Res P SIri) (v : Json) (st : St P) : Res P Str :=
  match v with
  | .str s =>
    (expand st s true).bind fun e st =>
      match e with
      | .iri i => if !isIRI mode i then .err .invalidTermDefinition st else .ok s st
      | _ => .err .invalidTermDefinition st
  | _ => .err .invalidTermDefinition st

/-- step 13: `@reverse`; `none` = the early `return nil` of 13.3 -/
def reverseStep {P : Type} (mode : Mode) (expand : St P → Str → Bool → Res P SIri) (term : Str)
    (vo : List (Str × Json)) (rv : Json) (prot : Bool) (tm : Option SIri × Option Str) (st : St P) : Res P Unit :=
  if hasKey kId vo then .err .invalidReverseProperty st
  else if hasKey kNest vo then .err .invalidReverseProperty st
  else match rv with
    | .str r =>
      if isKeywordForm r then .ok () st else
      (expand st r true).bind fun e st =>
        let okIri : Bool := match e with
          | .iri v => isIRI mode v
          | .bnode _ => true
          | _ => false
        if !okIri then .err .invalidIRIMapping st else
        let cont : Except Err (List Str) :=
          match getKey kContainer vo with
          | none => .ok []
          | some .null => .ok []
          | some (.str c) => if c != kSet && c != kIndex then .error .invalidReverseProperty else .ok [c]
          | some _ => .error .invalidReverseProperty
        match cont with
        | .error er => .err er st
        | .ok cont =>
          let d : TermDef := {
            iri := e, iriValue := some (some r), pfx := false, prot := prot, reverse := true,
            baseURL := none, context := none, container := cont, direction := none, index := none,
            language := none, nest := none, typeMapping := tm.1, typeValue := tm.2 }
          let st : St P := { ctx := { st.ctx with core := { st.ctx.core with terms := mset term d st.ctx.core.terms } },
                             defined := (term, true) :: st.defined }
          match getKey kIndex vo with
          | none => .ok () st
          | some iv =>
            (indexExpand mode expand iv st).bind fun idx st =>
              -- `definition.IndexMapping = &index.Value`: the stored definition is updated through its pointer
              .ok () { st with ctx := { st.ctx with core := { st.ctx.core with
                  terms := match mget term st.ctx.core.terms with
                    | some d' => mset term { d' with index := some idx } st.ctx.core.terms
                    | none => st.ctx.core.terms } } }
    | _ => .err .invalidIRIMapping st

/-- steps 14–18: the IRI mapping and the prefix flag; `none` = the early `return nil` of 14.2.2 -/
def iriStep {P : Type} (mode : Mode) (expand : St P → Str → Bool → Res P SIri) (ctdCb : St P → Str → Res P Unit)
    (loc : List (Str × Json)) (term : Str) (vo : List (Str × Json)) (simple : Bool) (tm : Option SIri)
    (st : St P) : Res P (Option IriPart) :=
  let idv : Option Json :=
    match getKey kId vo with
    | some (.str i) => if i == term then none else some (.str i)
    | x => x
  match idv with
  | some .null => .ok (some { iri := .nil, iriValue := some none, pfx := false }) st     -- 14.1
  | some (.str i) =>
    if !isKeyword i && isKeywordForm i then .ok none st else                           -- 14.2.2
    (expand st i true).bind fun e st =>
      let bad : Option Err :=
        match e with
        | .kw k =>
          if k == kContext then some .invalidKeywordAlias
          else if k == kType && !simple && tm == some (.kw kId) && mode == Mode.v11 then some .invalidIRIMapping
          else none
        | .iri _ => none
        | .bnode _ => none
        | .nil => some .invalidIRIMapping
      match bad with
      | some er => .err er st
      | none =>
        let hcs := hasColonOrSlash term
        let r : Res P Unit :=
          if hcs then
            let st : St P := { st with defined := (term, true) :: st.defined }
            if !(match e with | .kw _ => true | _ => false) && mode != Mode.v10 then
              (expand st term false).bind fun et st =>
                if et != e then .err .invalidIRIMapping st else .ok () st
            else .ok () st
          else .ok () st
        r.bind fun _ st =>
          .ok (some { iri := e, iriValue := some (some i), pfx := prefixFlag145 mode term simple e }) st
  | some _ => .err .invalidIRIMapping st                                                -- 14.2.1
  | none =>
    -- 15
    match (match splitColon term with
           | some (p, suf) => if p.length > 0 then some (p, suf) else none
           | none => none) with
    | some (p, suf) =>
      let r : Res P Unit := if hasKey p loc then ctdCb st p else .ok () st              -- 15.1
      r.bind fun _ st =>
        match mget p st.ctx.core.terms with
        | some pd =>
          (match pd.iri with
           | .iri t => .ok (some { iri := .iri (t ++ suf), iriValue := none, pfx := false }) st
           | _ => .err .plainPrefixType st)
        | none =>
          if (asc "_:").isPrefixOf term then .ok (some { iri := .bnode term, iriValue := none, pfx := false }) st
          else .ok (some { iri := .iri term, iriValue := none, pfx := false }) st
    | none =>
      if term.contains cSlash then                                                      -- 16
        (expand st term false).bind fun e st =>
          match e with
          | .iri t => .ok (some { iri := .iri t, iriValue := none, pfx := false }) st
          | _ => .err .invalidIRIMapping st
      else if term == kType then .ok (some { iri := .kw kType, iriValue := none, pfx := false }) st   -- 17
      else match st.ctx.core.vocab with                                                 -- 18
        | some (.iri t) => .ok (some { iri := .iri (t ++ term), iriValue := none, pfx := false }) st
        | some _ => .err .plainVocabType st
        | none => .err .invalidIRIMapping st

/-- `algorithmCreateTermDefinition.Call`. `expand st s vocab` = IRI expansion with this local context and
    `defined`; `ctdCb` = the recursive call of step 15.1; `nested ctx j` = Context Processing of a scoped
    context `j` on top of `ctx` (override protected, no validation of scoped contexts). -/
def ctdBody {P : Type} (mode : Mode) (expand : St P → Str → Bool → Res P SIri) (ctdCb : St P → Str → Res P Unit)
    (nested : Context P → Json → Out (Context P))
    (loc : List (Str × Json)) (st : St P) (term : Str) (baseStr : Option Str) (protArg overrideProtected : Bool) : Res P Unit :=
  -- 1
  match mget term st.defined with
  | some true => .ok () st
  | some false => .err .cyclicIRIMapping st
  | none =>
  -- 2
  if term == [] then .err .invalidTermDefinition st else
  let st : St P := { st with defined := (term, false) :: st.defined }
  -- 3
  match getKey term loc with
  | none => .panic        -- `valueValue.GetGrammarName()` on a nil interface; every caller checks membership
  | some value =>
  -- 4, 5
  let r45 : Except Err Bool :=      -- true = continue, false = return nil
    if term == kType then (typeTermStep mode value).map fun _ => true
    else if isKeyword term then .error .keywordRedefinition
    else if isKeywordForm term then .ok false
    else .ok true
  match r45 with
  | .error e => .err e st
  | .ok false => .ok () st
  | .ok true =>
  -- 6
  let previous := mget term st.ctx.core.terms
  let st : St P := { st with ctx := { st.ctx with core := { st.ctx.core with terms := mdel term st.ctx.core.terms } } }
  -- 7–9
  match normalizeValue value with
  | .error e => .err e st
  | .ok (vo, simple) =>
  -- 10, 11
  match protectedStep mode vo protArg with
  | .error e => .err e st
  | .ok prot =>
  -- 12
  (typeStep mode expand vo st).bind fun tm st =>
  -- 13
  match getKey kReverse vo with
  | some rv => reverseStep mode expand term vo rv prot tm st
  | none =>
  -- 14–18
  (iriStep mode expand ctdCb loc term vo simple tm.1 st).bind fun ip st =>
  match ip with
  | none => .ok () st
  | some ip =>
  -- 19
  match containerStep mode vo with
  | .error e => .err e st
  | .ok cont =>
  match containerTypeStep cont tm.1 with
  | .error e => .err e st
  | .ok tmap =>
  -- 20
  let r20 : Res P (Option Str) :=
    match getKey kIndex vo with
    | none => .ok none st
    | some iv =>
      if mode == Mode.v10 then .err .invalidTermDefinition st
      else if !cont.contains kIndex then .err .invalidTermDefinition st
      else (indexExpand mode expand iv st).bind fun s st => .ok (some s) st
  r20.bind fun index st =>
  -- 21
  let r21 : Res P (Option Json × Option Str) :=
    match getKey kContext vo with
    | none => .ok (none, none) st
    | some cj =>
      if mode == Mode.v10 then .err .invalidTermDefinition st else
      match nested st.ctx cj with
      | .ok _ => .ok (some cj, baseStr) st
      | .err _ => .err .invalidScopedContext st
      | .panic => .panic
      | .unmodelled => .unmodelled
      | .fuel => .fuel
  r21.bind fun cx st =>
  -- 22–26
  let rest : Except Err (Option (Option Str) × Option (Option Str) × Option Str × Bool) := do
    let language ← languageStep vo
    let direction ← directionStep vo
    let nest ← nestStep mode vo
    let pfx ← prefixStep mode term vo ip.iri ip.pfx
    keysStep vo
    pure (language, direction, nest, pfx)
  match rest with
  | .error e => .err e st
  | .ok (language, direction, nest, pfx) =>
  let d : TermDef := {
    iri := ip.iri, iriValue := ip.iriValue, pfx := pfx, prot := prot, reverse := false,
    baseURL := cx.2, context := cx.1, container := cont, direction := direction, index := index, language := language, nest := nest,
    typeMapping := tmap, typeValue := tm.2 }
  -- 27
  let r27 : Except Err TermDef :=
    match previous with
    | some pd =>
      if !overrideProtected && pd.prot then
        if !({ d with prot := pd.prot }).equals pd then .error .protectedTermRedefinition else .ok pd
      else .ok d
    | none => .ok d
  match r27 with
  | .error e => .err e st
  | .ok d =>
  -- 28
  .ok () { ctx := { st.ctx with core := { st.ctx.core with terms := mset term d st.ctx.core.terms } },
           defined := (term, true) :: st.defined }

/-! ## Context Processing -/

def ctxKeywords : List Str := [kBase, kDirection, kImport, kLanguage, kPropagate, kProtected, kVersion, kVocab]

def Out.bind {α β : Type} (r : Out α) (f : α → Out β) : Out β :=
  match r with
  | .ok a => f a
  | .err e => .err e
  | .panic => .panic
  | .unmodelled => .unmodelled
  | .fuel => .fuel

def Out.ofExcept {α : Type} : Except Err α → Out α
  | .ok a => .ok a
  | .error e => .err e

/-- step 5.5 -/
def versionStep (mode : Mode) (ms : List (Str × Json)) : Out Unit :=
  let verBad : Bool := match getKey kVersion ms with
    | some (.dbl l) => l != lex11
    | some (.int _) => true
    | _ => false
  if verBad then .err .invalidAtVersionValue
  else if hasKey kVersion ms && mode == Mode.v10 then .err .processingModeConflict
  else .ok ()

/-- step 5.6: `@import` (a string value = a remote context: unmodelled) -/
def importStep (mode : Mode) (ms : List (Str × Json)) : Out Unit :=
  match getKey kImport ms with
  | none => .ok ()
  | some v =>
    if mode == Mode.v10 then .err .invalidContextEntry
    else match v with
      | .str _ => .unmodelled
      | _ => .err .invalidAtImportValue

/-- step 5.7 (remote contexts is always empty here) -/
def baseStep {P : Type} (ops : IriOps P) (result : Context P) (ms : List (Str × Json)) : Out (Context P) :=
  match getKey kBase ms with
  | none => .ok result
  | some .null => .ok { result with core := { result.core with base := none, baseValue := none } }
  | some (.str s) =>
    match ops.parse s with
    | .err => .err .invalidBaseIRI
    | .unmodelled => .unmodelled
    | .panic => .panic
    | .ok v =>
      if ops.isAbs v then .ok { result with core := { result.core with base := some v, baseValue := some s } }
      else match result.core.base with
        | some b =>
          (match ops.resolve b v with
           | some r => .ok { result with core := { result.core with base := some r, baseValue := some s } }
           | none => .panic)
        | none => .err .invalidBaseIRI
  | some _ => .err .invalidBaseIRI

/-- the additional JSON-LD 1.0 validation of `@vocab` -/
def vocabPre {P : Type} (ops : IriOps P) (mode : Mode) (s : Str) : Out Unit :=
  if mode == Mode.v10 && !(asc "_:").isPrefixOf s then
    match ops.goAbs s with
    | .yes => .ok ()
    | .no => .err .invalidVocabMapping
    | .unmodelled => .unmodelled
    | .panic => .panic
  else .ok ()

/-- step 5.8 -/
def vocabStep {P : Type} (ops : IriOps P) (mode : Mode) (expandNoLocal : St P → Str → Res P SIri)
    (result : Context P) (ms : List (Str × Json)) : Out (Context P) :=
  match getKey kVocab ms with
  | none => .ok result
  | some .null => .ok { result with core := { result.core with vocab := none, vocabValue := none } }
  | some (.str s) =>
    (vocabPre ops mode s).bind fun _ =>
      match expandNoLocal { ctx := result, defined := [] } s with
      | .ok .nil _ => .ok { result with core := { result.core with vocab := none, vocabValue := none } }
      | .ok (.bnode t) _ => .ok { result with core := { result.core with vocab := some (.bnode t), vocabValue := some s } }
      | .ok (.iri t) _ => .ok { result with core := { result.core with vocab := some (.iri t), vocabValue := some s } }
      | .ok (.kw _) _ => .err .invalidVocabMapping
      | .err e _ => .err e
      | .panic => .panic
      | .unmodelled => .unmodelled
      | .fuel => .fuel
  | some _ => .err .invalidVocabMapping

/-- step 5.9 -/
def langStep {P : Type} (result : Context P) (ms : List (Str × Json)) : Out (Context P) :=
  match getKey kLanguage ms with
  | none => .ok result
  | some .null => .ok { result with core := { result.core with lang := none } }
  | some (.str s) => .ok { result with core := { result.core with lang := some s } }
  | some _ => .err .invalidDefaultLanguage

/-- step 5.10 -/
def dirStep {P : Type} (mode : Mode) (result : Context P) (ms : List (Str × Json)) : Out (Context P) :=
  match getKey kDirection ms with
  | none => .ok result
  | some v =>
    if mode == Mode.v10 then .err .invalidContextEntry else
    match v with
    | .null => .ok { result with core := { result.core with dir := none } }
    | .str s =>
      if s != asc "ltr" && s != asc "rtl" then .err .invalidBaseDirection
      else .ok { result with core := { result.core with dir := some s } }
    | _ => .err .invalidBaseDirection

/-- step 5.11 -/
def propagateStep (mode : Mode) (ms : List (Str × Json)) : Out Unit :=
  match getKey kPropagate ms with
  | none => .ok ()
  | some v =>
    if mode == Mode.v10 then .err .invalidContextEntry else
    match v with
    | .bool _ => .ok ()
    | _ => .err .invalidAtPropagateValue

/-- the keys of step 5.13, in the order of `slices.SortFunc(contextKeys, strings.Compare)` (`ms` is sorted) -/
def termKeys (ms : List (Str × Json)) : List Str := (ms.map (·.1)).filter (fun k => !ctxKeywords.contains k)

/-- steps 5.12, 5.13 -/
def termsStep {P : Type} (ctdCb : St P → Str → Bool → Res P Unit) (result : Context P) (ms : List (Str × Json)) : Out (Context P) :=
  let contextProtected : Bool := match getKey kProtected ms with
    | some (.bool true) => true
    | _ => false
  match (termKeys ms).foldl (fun (acc : Res P Unit) key => acc.bind fun _ st => ctdCb st key contextProtected)
      (.ok () { ctx := result, defined := [] }) with
  | .ok _ st => .ok st.ctx
  | .err e _ => .err e
  | .panic => .panic
  | .unmodelled => .unmodelled
  | .fuel => .fuel

/-- steps 5.5–5.13 for one context definition `ms`; `expandNoLocal` = IRI expansion without a local
    context (document relative, vocab); `ctdCb st key prot` = Create Term Definition -/
def processObj {P : Type} (ops : IriOps P) (mode : Mode)
    (expandNoLocal : St P → Str → Res P SIri) (ctdCb : St P → Str → Bool → Res P Unit)
    (result : Context P) (ms : List (Str × Json)) : Out (Context P) :=
  (versionStep mode ms).bind fun _ =>
  (importStep mode ms).bind fun _ =>
  (baseStep ops result ms).bind fun result =>
  (vocabStep ops mode expandNoLocal result ms).bind fun result =>
  (langStep result ms).bind fun result =>
  (dirStep mode result ms).bind fun result =>
  (propagateStep mode ms).bind fun _ =>
  termsStep ctdCb result ms

/-- one item of the local context array (step 5) -/
def processItem {P : Type} (ops : IriOps P) (mode : Mode)
    (expandNoLocal : St P → Str → Res P SIri) (ctdCb : List (Str × Json) → St P → Str → Bool → Res P Unit)
    (active : Context P) (overrideProtected propagate : Bool) (result : Context P) (item : Json) : Out (Context P) :=
  match item with
  | .null =>
    if !overrideProtected && result.core.terms.any (fun e => e.2.prot) then .err .invalidContextNullification
    else
      .ok { core := (Context.initial active.core.origBase).core,
            prev := if !propagate then result.core :: result.prev else [] }
  | .str _ => .unmodelled
  | .obj ms => processObj ops mode expandNoLocal (ctdCb ms) result ms
  | _ => .err .invalidLocalContext

/-- `algorithmContextProcessing.Call` (remote contexts empty) -/
def processBody {P : Type} (ops : IriOps P) (mode : Mode)
    (expandNoLocal : St P → Str → Res P SIri) (ctdCb : List (Str × Json) → St P → Str → Bool → Res P Unit)
    (active : Context P) (loc : Json) (overrideProtected propagate : Bool) : Out (Context P) :=
  let items := match loc with
    | .arr xs => xs
    | x => [x]
  if items.isEmpty then .ok active else
  -- 1
  let result := active.clone
  -- 2
  let propagate := match loc with
    | .obj ms => (match getKey kPropagate ms with
        | some (.bool b) => b
        | _ => propagate)
    | _ => propagate
  -- 3
  let result := if !propagate && result.prev.isEmpty then { result with prev := active.core :: active.prev } else result
  -- 5
  items.foldl (fun acc item => acc.bind fun result =>
    processItem ops mode expandNoLocal ctdCb active overrideProtected propagate result item) (.ok result)

/-! ## Tying the knot -/

mutual
/-- IRI expansion of a string with the local context `loc` and `defined` in the state -/
def iriExpandStr {P : Type} (ops : IriOps P) (mode : Mode) : Nat → Option (List (Str × Json)) → St P → Str → Bool → Bool → Res P SIri
  | 0, _, _, _, _, _ => .fuel
  | fuel + 1, loc, st, s, docRel, vocab =>
    iriExpandBody ops
      (fun st t => match loc with
        | some ms => ctd ops mode fuel ms st t none false false
        | none => .ok () st)
      loc st s docRel vocab

/-- Create Term Definition -/
def ctd {P : Type} (ops : IriOps P) (mode : Mode) : Nat → List (Str × Json) → St P → Str → Option Str → Bool → Bool → Res P Unit
  | 0, _, _, _, _, _, _ => .fuel
  | fuel + 1, loc, st, term, baseStr, prot, overrideProtected =>
    ctdBody mode
      (fun st s vocab => iriExpandStr ops mode fuel (some loc) st s false vocab)
      (fun st t => ctd ops mode fuel loc st t none false false)
      (fun c j => processCtx ops mode fuel c j baseStr true true)
      loc st term baseStr prot overrideProtected

/-- Context Processing -/
def processCtx {P : Type} (ops : IriOps P) (mode : Mode) : Nat → Context P → Json → Option Str → Bool → Bool → Out (Context P)
  | 0, _, _, _, _, _ => .fuel
  | fuel + 1, active, loc, baseStr, overrideProtected, propagate =>
    processBody ops mode
      (fun st s => iriExpandStr ops mode fuel none st s true true)
      (fun ms st key prot => ctd ops mode fuel ms st key baseStr prot overrideProtected)
      active loc overrideProtected propagate
end

/-- `algorithmIRIExpansion.Call` without a local context, for any JSON value -/
def iriExpand {P : Type} (ops : IriOps P) (mode : Mode) (c : Context P) (v : Json) (docRel vocab : Bool) : Out EIri :=
  match v with
  | .null => .ok (.s .nil)
  | .str s =>
    (match iriExpandStr ops mode 1 none { ctx := c, defined := [] } s docRel vocab with
     | .ok e _ => .ok (.s e)
     | .err e _ => .err e
     | .panic => .panic
     | .unmodelled => .unmodelled
     | .fuel => .fuel)
  | j => .ok (.raw j)

/-! ## fuel -/

mutual
def jsonSize : Json → Nat
  | .arr xs => 1 + jsonSizeList xs
  | .obj ms => 1 + jsonSizeMembers ms
  | _ => 1
def jsonSizeList : List Json → Nat
  | [] => 0
  | x :: xs => jsonSize x + jsonSizeList xs
def jsonSizeMembers : List (Str × Json) → Nat
  | [] => 0
  | (_, v) :: ms => 1 + jsonSize v + jsonSizeMembers ms
end

/-- the fuel the driver supplies for a local context: every nested call of one of the three algorithms
    either defines a not yet defined member of a context definition (two calls per member: the definition
    and the expansion which asked for it) or enters a scoped context, a proper sub-value -/
def fuelFor (loc : Json) : Nat := 3 * jsonSize loc + 4

end RdfModel.JLC
