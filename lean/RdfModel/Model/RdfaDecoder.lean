/-
  RdfModel.Model.RdfaDecoder — function-by-function executable model of the Go RDFa decoder
  /repo/encoding/htmlrdfa (decoder.go, decoder_ectx.go, decoder_config.go, decoder_html_util.go) over an ABSTRACT DOM
  TREE: what golang.org/x/net/html hands to the decoder after parsing (node type, namespace, DataAtom name, Data,
  attribute list in document order with namespace, children).  The HTML5 tokenizer / tree builder is outside.
  The tree type, the Go string functions (`strings.Fields`, `strings.TrimSpace`, the `^\s+` / `^[^\s]+` token loop)
  and `collectTextContent` are shared with the Microdata model (Model/MicrodataDecoder.lean: `Mdd.Node`, `Mdd.fields`,
  `Mdd.trimSpace`, `Mdd.typeTokens`, `Mdd.textContent`).

  Strings are Go strings: lists of BYTES (possibly ill-formed UTF-8).

  Go                                                     here
  ------------------------------------------------------ ------------------------------------------------------
  DecoderConfig.newDecoder (document base)               `decode` (first lines): `Env.parseBase` of DocumentInfo.BaseURL
  Decoder.Next (first call) → walkNode(ectx, root)       `decode`
  Decoder.walkNode                                       `walk` / `walkKids` (structural recursion: no fuel)
    doctype / <html version> profile detection            `detectProfile`, `htmlInit`
    <base href>                                           `baseElem`
    attribute scan                                        `scanAttrs`
    step 2 (@vocab)                                       `stepVocab`
    step 3 (@prefix, xmlns:)                              `prefixEntries`, `pmAddAll`
    step 4 (@lang, xml:lang)                              `stepLang`
    HTML+RDFa rule 7 (filterNonCURIENonURI)               `filterRel`
    steps 5, 6                                            `step5`, `step6`
    step 7 (typeof loop, two regexps)                     `stepTypeof`
    step 8                                                `step8`
    steps 9, 10                                           `step9`, `step10`
    step 11                                               `propertyValue`, `step11`
    step 12                                               `step12`
    step 13                                               `childCtx`
    step 14                                               `flushLists`  (Go ranges over a map: see `St.unordered`)
    rdfa:copy / rdfa:Pattern                              `copyStep`    (in-memory dataset + simplequery as a join)
  resolveIRI (decoder_ectx.go)                           `resolveIRI`
  iri.PrefixManager (Clone/AddPrefixMappings/Expand)     `pmAdd`, `pmLookup` (last write wins; exact-match lookup)
  evaluationContext.TermMappings (ONE shared Go map)     `St.terms`
  globalEvaluationContext (shared pointer)               `St.profile`, `St.foundBase`, `St.special`
  map[rdf.IRI]*listMappingBuilder, shared by reference   heap `St.maps` (map id ↦ insertion-ordered pred ↦ list id) and
                                                          heap `St.lists` (list id ↦ items); `*listMappingBuilder`
                                                          pointer equality = equality of list ids
  blanknodes.StringFactory                               counter `St.nextBn` + label map `St.labels`
  *string DefaultVocabulary compared BY POINTER with     `Vocab.host` | `Vocab.other v`
    Global.HostDefaultVocabulary
  iri.ParseIRI / ParsedIRI.Parse / ResolveReference /    parameters `Env.parseBase`, `Env.resolve`, `Env.xmlBase`; a
    String / DropFragment                                 *ParsedIRI is represented by its String()
  strings.ToLower                                        parameter `Env.lower`
  xsdobject.MapDuration/DateTime/Date/Time/GYearMonth/   parameter `Env.timeMaps`, tried in order
    GYear
  Decoder.xmlRender (x/net/html renderer + regexp)       parameter `Env.xmlRender` (node identity ↦ string | error)
  Decoder.htmlRender (x/net/html renderer)               parameter `Env.htmlRender` (node identity ↦ string | error); the
                                                          model follows the code AFTER patch c11ra-1-fix-rdf-html-literal
                                                          (before it the rdf:HTML branch was shadowed and unreachable)
  text offsets, container resources                      outside the model (they do not influence the triples)

  Outcomes where Go would crash or emit a nil term are explicit:
    `Bad.panic`   a failing `x.(rdf.SubjectValue)` assertion on a nil interface (head/body rule 8 with a nil parent
                  object), a nil term reaching the property-copying dataset;
    `Bad.nilTerm` a statement or list item with a nil subject / object would be appended (the model stops recording
                  there; Props/C11Ra proves it never happens);
    `Bad.err`     walkNode returned an error (xml / html render): Next returns false with Err set and NO statement is yielded.

  `St.asks` is a ghost log of the oracle calls that depend on run-time bases (used by the driver to detect a missing
  table entry); nothing reads it.
  `St.unordered` records that Go's result ORDER was decided by map iteration (step 14 flushing ≥ 2 lists of one
  element; property copying with ≥ 2 query results): the model then fixes one order and the tie compares graphs.
  Core-only, executable.
-/
import RdfModel.Model.MicrodataDecoder
namespace RdfModel.Rdfad
open RdfModel RdfModel.Desc
open RdfModel.Mdd (Node Attr Bytes Subj fields trimSpace typeTokens textContent)

/-! ## constants -/
def rdfNs : Bytes := asc "http://www.w3.org/1999/02/22-rdf-syntax-ns#"
def rdfType : Bytes := asc "http://www.w3.org/1999/02/22-rdf-syntax-ns#type"
def rdfFirst : Bytes := asc "http://www.w3.org/1999/02/22-rdf-syntax-ns#first"
def rdfRest : Bytes := asc "http://www.w3.org/1999/02/22-rdf-syntax-ns#rest"
def rdfNil : Bytes := asc "http://www.w3.org/1999/02/22-rdf-syntax-ns#nil"
def rdfXMLLiteral : Bytes := asc "http://www.w3.org/1999/02/22-rdf-syntax-ns#XMLLiteral"
def rdfHTML : Bytes := asc "http://www.w3.org/1999/02/22-rdf-syntax-ns#HTML"
def usesVocabulary : Bytes := asc "http://www.w3.org/ns/rdfa#usesVocabulary"
def rdfaCopy : Bytes := asc "http://www.w3.org/ns/rdfa#copy"
def rdfaPattern : Bytes := asc "http://www.w3.org/ns/rdfa#Pattern"
def xhv : Bytes := asc "http://www.w3.org/1999/xhtml/vocab#"

/-- w3_2011_rdfacontext_rdfa11_TermMappings -/
def terms11 : List (Bytes × Bytes) :=
  [(asc "describedby", asc "http://www.w3.org/2007/05/powder-s#describedby"),
   (asc "license", asc "http://www.w3.org/1999/xhtml/vocab#license"),
   (asc "role", asc "http://www.w3.org/1999/xhtml/vocab#role")]

/-- w3_2011_rdfacontext_xhtmlrdfa11_TermMappings (every value is xhv ++ key) -/
def xhtmlTermNames : List String :=
  ["alternate", "appendix", "cite", "bookmark", "contents", "chapter", "copyright", "first", "glossary", "help", "icon",
   "index", "last", "license", "meta", "next", "prev", "previous", "section", "start", "stylesheet", "subsection", "top",
   "up", "p3pv1"]
def termsXhtml : List (Bytes × Bytes) := xhtmlTermNames.map (fun s => (asc s, xhv ++ asc s))

/-- htmlIgnoredLinkRels, as `rel/atom` keys -/
def ignoredLinkRels : List Bytes :=
  ["alternate/form", "canonical/a", "canonical/area", "canonical/form", "author/form", "bookmark/link", "bookmark/form",
   "dns-prefetch/link", "dns-prefetch/a", "dns-prefetch/area", "dns-prefetch/form", "expect/link", "expect/a",
   "expect/area", "expect/form", "external/link", "external/a", "external/area", "external/form", "icon/link", "icon/a",
   "icon/area", "icon/form", "manifest/link", "manifest/a", "manifest/area", "manifest/form", "modulepreload/link",
   "modulepreload/a", "modulepreload/area", "modulepreload/form", "nofollow/link", "nofollow/a", "nofollow/area",
   "nofollow/form", "noopener/link", "noopener/a", "noopener/area", "noopener/form", "noreferrer/link", "noreferrer/a",
   "noreferrer/area", "noreferrer/form", "opener/link", "opener/a", "opener/area", "opener/form", "pingback/link",
   "pingback/a", "pingback/area", "pingback/form", "preconnect/link", "preconnect/a", "preconnect/area",
   "preconnect/form", "prefetch/link", "prefetch/a", "prefetch/area", "prefetch/form", "preload/link", "preload/a",
   "preload/area", "preload/form", "privacy-policy/form", "stylesheet/link", "stylesheet/a", "stylesheet/area",
   "stylesheet/form", "tag/link", "tag/form", "terms-of-service/form"].map asc

/-! HtmlProcessingProfile bit patterns -/
def pUnspecified : Nat := 0
def pXHTML1 : Nat := 0b110
def pXHTML5 : Nat := 0b1110
def isActive (p : Nat) : Bool := p / 2 % 2 == 1
def isXHTML1 (p : Nat) : Bool := p == pXHTML1
def isXHTML (p : Nat) : Bool := p == pXHTML1 || p == pXHTML5

/-! ## byte-string helpers -/

def hasPrefix (p : Bytes) : Bytes → Bool
  | s => p.isPrefixOf s

def hasSuffix (p s : Bytes) : Bool := p.reverse.isPrefixOf s.reverse

def hasInfix (p : Bytes) : Bytes → Bool
  | [] => p.isEmpty
  | c :: r => p.isPrefixOf (c :: r) || hasInfix p r

/-- strings.SplitN(v, ":", 2): `none` = one part -/
def splitColon : Bytes → Option (Bytes × Bytes)
  | [] => none
  | c :: rest =>
    if c = 0x3a then some ([], rest)
    else match splitColon rest with
      | some (a, b) => some (c :: a, b)
      | none => none

/-- strings.ContainsAny(s, "/?#") -/
def containsPathish (s : Bytes) : Bool := s.any (fun c => c == 0x2f || c == 0x3f || c == 0x23)

def alookup {α : Type} (k : Bytes) : List (Bytes × α) → Option α
  | [] => none
  | (k', v) :: rest => if k' = k then some v else alookup k rest

/-- insert or replace, keeping the position of an existing key (Go map assignment; order = first insertion) -/
def aset {α : Type} (k : Bytes) (v : α) : List (Bytes × α) → List (Bytes × α)
  | [] => [(k, v)]
  | (k', v') :: rest => if k' = k then (k, v) :: rest else (k', v') :: aset k v rest

/-- PrefixManager.AddPrefixMappings: last write wins -/
def pmAddAll (pm : List (Bytes × Bytes)) : List (Bytes × Bytes) → List (Bytes × Bytes)
  | [] => pm
  | (p, e) :: rest => pmAddAll (aset p e pm) rest

/-! ## terms, statements, state -/

abbrev Obj := Term Nat

structure Stmt where
  s : Subj
  p : Bytes
  o : Obj
  deriving Repr, DecidableEq, Inhabited

inductive Bad where
  | panic
  | nilTerm
  | err
  deriving Repr, DecidableEq, Inhabited

/-- `*string` default vocabulary, compared by pointer with the host default in resolveIRI -/
inductive Vocab where
  | host
  | other (v : Bytes)
  deriving Repr, DecidableEq, Inhabited

def Vocab.str : Vocab → Bytes
  | .host => xhv
  | .other v => v

inductive Incomplete where
  | lst (listId : Nat)
  | fwd (p : Bytes)
  | rev (p : Bytes)
  deriving Repr, DecidableEq, Inhabited

structure Env where
  /-- iri.ParseIRI(v), DropFragment, String(); `none` = parse error -/
  parseBase : Bytes → Option Bytes
  /-- base.ResolveReference(ParseIRI(v)).String(); `none` = ParseIRI error -/
  xmlBase : Bytes → Bytes → Option Bytes
  /-- base.Parse(ref).String(); `none` = error -/
  resolve : Bytes → Bytes → Option Bytes
  /-- strings.ToLower -/
  lower : Bytes → Bytes
  /-- MapDuration, MapDateTime, MapDate, MapTime, MapGYearMonth, MapGYear: lexical form and datatype -/
  timeMaps : List (Bytes → Option (Bytes × Bytes))
  /-- Decoder.xmlRender of the node with this identity; `none` = error -/
  xmlRender : Nat → Option Bytes
  /-- Decoder.htmlRender of the node with this identity; `none` = error -/
  htmlRender : Nat → Option Bytes

structure Cfg where
  /-- DecoderConfig.htmlProcessingProfile (0 = unset) -/
  profile : Nat := 0
  /-- DecoderConfig.defaultVocabulary -/
  defaultVocab : Option Bytes := none
  /-- the host default prefixes (DecoderConfig.defaultPrefixes or the widely-used initial context) -/
  prefixes : List (Bytes × Bytes) := []
  /-- DocumentInfo.BaseURL -/
  base : Bytes := []

structure St where
  nextBn : Nat := 0
  /-- StringFactory: label ↦ node -/
  labels : List (Bytes × Nat) := []
  /-- BlankNodeSpecialSpecific -/
  special : Option Nat := none
  profile : Nat := 0
  foundBase : Bool := false
  terms : List (Bytes × Bytes) := []
  maps : List (List (Bytes × Nat)) := []
  lists : List (List Obj) := []
  /-- v.statements, oldest first -/
  out : List Stmt := []
  asks : List (Nat × Bytes × Bytes) := []
  unordered : Bool := false
  bad : Option Bad := none
  deriving Repr, Inhabited

def St.fail (st : St) (b : Bad) : St := { st with bad := (match st.bad with | some x => some x | none => some b) }

/-- append a statement; a nil subject or object is the explicit outcome `nilTerm` -/
def St.emit (st : St) (s : Option Subj) (p : Bytes) (o : Option Obj) : St :=
  match s, o with
  | some s, some o => { st with out := st.out ++ [⟨s, p, o⟩] }
  | _, _ => st.fail .nilTerm

def St.fresh (st : St) : Nat × St := (st.nextBn, { st with nextBn := st.nextBn + 1 })

def St.ask (st : St) (k : Nat) (a b : Bytes) : St := { st with asks := (k, a, b) :: st.asks }

def St.getMap (st : St) (i : Nat) : List (Bytes × Nat) := st.maps.getD i []
def St.getList (st : St) (i : Nat) : List Obj := st.lists.getD i []
def St.newMap (st : St) : Nat × St := (st.maps.length, { st with maps := st.maps ++ [[]] })
def St.newList (st : St) : Nat × St := (st.lists.length, { st with lists := st.lists ++ [[]] })
def St.setMap (st : St) (i : Nat) (m : List (Bytes × Nat)) : St := { st with maps := st.maps.set i m }
/-- `l.Objects = append(l.Objects, x)`; a nil item is the explicit outcome `nilTerm` -/
def St.pushList (st : St) (i : Nat) (x : Option Obj) : St :=
  match x with
  | some x => { st with lists := st.lists.set i (st.getList i ++ [x]) }
  | none => st.fail .nilTerm

/-- `if _, known := listMapping[p]; !known { listMapping[p] = &listMappingBuilder{} }`; returns the list id -/
def St.ensureList (st : St) (mapId : Nat) (p : Bytes) : Nat × St :=
  match alookup p (st.getMap mapId) with
  | some l => (l, st)
  | none =>
    let (l, st) := st.newList
    (l, st.setMap mapId (aset p l (st.getMap mapId)))

/-- evaluationContext (by value) -/
structure Ctx where
  base : Bytes
  parentSubject : Option Subj := none
  parentObject : Option Subj := none
  incomplete : List Incomplete := []
  listMapping : Nat
  language : Option Bytes := none
  prefixes : List (Bytes × Bytes)
  vocab : Vocab := .host
  deriving Repr, Inhabited

/-! ## resolveIRI -/

def lookupCI (E : Env) (lv : Bytes) : List (Bytes × Bytes) → Option Bytes
  | [] => none
  | (k, v) :: rest => if E.lower k = lv then some v else lookupCI E lv rest

def isSafeCurie (v : Bytes) : Bool := v.head? == some 0x5b && v.getLast? == some 0x5d

/-- the `_:` branch: `_:` alone is ONE special node, `_:label` goes through the string factory -/
def bnodeRef (st : St) (value : Bytes) : Option Subj × St :=
  if value = [0x5f, 0x3a] then
    match st.special with
    | some k => (some (.bn k), st)
    | none => (some (.bn st.nextBn), { st.fresh.2 with special := some st.nextBn })
  else
    match alookup (value.drop 2) st.labels with
    | some k => (some (.bn k), st)
    | none => (some (.bn st.nextBn), { st.fresh.2 with labels := (value.drop 2, st.nextBn) :: st.labels })

/-- `baseURL.Parse(value)` when there is a base (and `cond` holds); the call is logged -/
def tryResolve (E : Env) (st : St) (base : Option Bytes) (cond : Bool) (value : Bytes) : Option Bytes × St :=
  match base with
  | some b => if cond then (E.resolve b value, st.ask 2 b value) else (none, st)
  | none => (none, st)

/-- the `len(valueSplit) == 1` branch -/
def resolvePlain (E : Env) (st : St) (value : Bytes) (base : Option Bytes) (dv : Option Vocab) (allowTerms : Bool) :
    Option Subj × St :=
  let r := tryResolve E st base true value
  match r.1 with
  | some x => (some (.iri x), r.2)
  | none =>
    match (match dv with | some (.other v) => some v | _ => none) with
    | some v => (some (.iri (v ++ value)), r.2)
    | none =>
      if allowTerms then
        match alookup value r.2.terms with
        | some i => (some (.iri i), r.2)
        | none => ((lookupCI E (E.lower value) r.2.terms).map Subj.iri, r.2)
      else (none, r.2)

/-- the `prefix:reference` branch -/
def resolveCurie (E : Env) (st : St) (prefixes : List (Bytes × Bytes)) (value p ref : Bytes) (base : Option Bytes)
    (dv : Option Vocab) : Option Subj × St :=
  match alookup p prefixes with
  | some e => (some (.iri (e ++ ref)), st)
  | none =>
    let r := tryResolve E st base (containsPathish p) value
    match r.1 with
    | some x => (some (.iri x), r.2)
    | none =>
      match (if p.isEmpty then dv else none) with
      | some v => (some (.iri (v.str ++ ref)), r.2)
      | none => (some (.iri value), r.2)

def unbracket (value : Bytes) : Bytes := if isSafeCurie value then (value.drop 1).dropLast else value

def resolveIRI (E : Env) (st : St) (prefixes : List (Bytes × Bytes)) (value : Bytes) (base : Option Bytes)
    (dv : Option Vocab) (allowSafe allowTerms : Bool) : Option Subj × St :=
  if value.isEmpty then (base.map Subj.iri, st)
  else if isSafeCurie value && allowSafe && (unbracket value).isEmpty then (none, st)
  else if hasPrefix [0x5f, 0x3a] (unbracket value) then bnodeRef st (unbracket value)
  else
    match splitColon (unbracket value) with
    | none => resolvePlain E st (unbracket value) base dv allowTerms
    | some (p, ref) => resolveCurie E st prefixes (unbracket value) p ref base dv

/-- `resolveIRI(…).(rdf.IRI)` -/
def resolveAsIRI (E : Env) (st : St) (prefixes : List (Bytes × Bytes)) (value : Bytes) (dv : Option Vocab)
    (allowTerms : Bool) : Option Bytes × St :=
  match resolveIRI E st prefixes value none dv false allowTerms with
  | (some (.iri v), st) => (some v, st)
  | (_, st) => (none, st)

/-- the IRIs of a token list, in order (tokens that do not resolve to an IRI are skipped) -/
def resolveTokens (E : Env) (prefixes : List (Bytes × Bytes)) (dv : Option Vocab) (allowTerms : Bool) :
    List Bytes → St → List Bytes × St
  | [], st => ([], st)
  | t :: ts, st =>
    let (r, st) := resolveAsIRI E st prefixes t dv allowTerms
    let (rs, st) := resolveTokens E prefixes dv allowTerms ts st
    (match r with | some v => v :: rs | none => rs, st)

/-! ## attribute scan -/

structure A where
  prefixAttr : Bytes := []
  about : Option Bytes := none
  content : Option Bytes := none
  datatype : Option Bytes := none
  datetime : Option Bytes := none
  href : Option Bytes := none
  inlist : Option Bytes := none
  lang : Option Bytes := none
  langXml : Option Bytes := none
  property : Option Bytes := none
  rel : Option Bytes := none
  resource : Option Bytes := none
  rev : Option Bytes := none
  src : Option Bytes := none
  typeof : Option Bytes := none
  vocab : Option Bytes := none
  entries : List (Bytes × Bytes) := []
  localBase : Bytes := []
  asks : List (Nat × Bytes × Bytes) := []
  deriving Repr, Inhabited

def kXmlns : Bytes := asc "xmlns:"

def scanAttrs (E : Env) (xhtml : Bool) : List Attr → A → A
  | [], acc => acc
  | a :: rest, acc =>
    if a.ns ≠ [] then scanAttrs E xhtml rest acc
    else if a.key = asc "about" then scanAttrs E xhtml rest { acc with about := some a.val }
    else if a.key = asc "content" then scanAttrs E xhtml rest { acc with content := some a.val }
    else if a.key = asc "datetime" then scanAttrs E xhtml rest { acc with datetime := some a.val }
    else if a.key = asc "datatype" then scanAttrs E xhtml rest { acc with datatype := some a.val }
    else if a.key = asc "href" then scanAttrs E xhtml rest { acc with href := some a.val }
    else if a.key = asc "inlist" then scanAttrs E xhtml rest { acc with inlist := some a.val }
    else if a.key = asc "lang" then scanAttrs E xhtml rest { acc with lang := some a.val }
    else if a.key = asc "prefix" then scanAttrs E xhtml rest { acc with prefixAttr := a.val }
    else if a.key = asc "property" then scanAttrs E xhtml rest { acc with property := some a.val }
    else if a.key = asc "rel" then scanAttrs E xhtml rest { acc with rel := some a.val }
    else if a.key = asc "resource" then scanAttrs E xhtml rest { acc with resource := some a.val }
    else if a.key = asc "rev" then scanAttrs E xhtml rest { acc with rev := some a.val }
    else if a.key = asc "src" then scanAttrs E xhtml rest { acc with src := some a.val }
    else if a.key = asc "typeof" then scanAttrs E xhtml rest { acc with typeof := some a.val }
    else if a.key = asc "vocab" then scanAttrs E xhtml rest { acc with vocab := some a.val }
    else if a.key = asc "xml:base" then
      if xhtml then
        let acc := { acc with asks := (1, acc.localBase, a.val) :: acc.asks }
        match E.xmlBase acc.localBase a.val with
        | some b => scanAttrs E xhtml rest { acc with localBase := b }
        | none => scanAttrs E xhtml rest acc
      else scanAttrs E xhtml rest acc
    else if a.key = asc "xml:lang" then
      if xhtml then scanAttrs E xhtml rest { acc with langXml := some a.val } else scanAttrs E xhtml rest acc
    else if hasPrefix kXmlns a.key then
      let name := E.lower (a.key.drop 6)
      if name.isEmpty then scanAttrs E xhtml rest acc
      else if name.head? == some 0x5f then scanAttrs E xhtml rest acc
      else scanAttrs E xhtml rest { acc with entries := acc.entries ++ [(name, a.val)] }
    else scanAttrs E xhtml rest acc

/-- step 3, the @prefix pairs (`fields` has even length) -/
def prefixPairs (E : Env) : List Bytes → List (Bytes × Bytes)
  | p :: i :: rest =>
    let t := E.lower p
    if !hasSuffix [0x3a] t then prefixPairs E rest
    else if t.head? == some 0x5f then prefixPairs E rest
    else if t.length == 1 then prefixPairs E rest
    else (t.dropLast, i) :: prefixPairs E rest
  | _ => []

def prefixEntries (E : Env) (attr : Bytes) : List (Bytes × Bytes) :=
  if attr.isEmpty then []
  else
    let fs := fields (trimSpace attr)
    if fs.length % 2 != 0 then [] else prefixPairs E fs

/-! ## the steps of walkNode -/

/-- rdfa-in-html rule 5 (doctype) -/
def detectProfile (data : Bytes) : Nat :=
  if hasInfix (asc "//DTD XHTML+RDFa 1.0//") data && hasInfix (asc "\"http://www.w3.org/MarkUp/DTD/xhtml-rdfa-1.dtd\"") data then pXHTML1
  else if hasInfix (asc "//DTD XHTML+RDFa 1.1//") data && hasInfix (asc "\"http://www.w3.org/MarkUp/DTD/xhtml-rdfa-2.dtd\"") data then pXHTML1
  else pXHTML5

/-- the first un-namespaced attribute named `key` (`for … { if … { …; break } }`) -/
def firstAttr (key : Bytes) : List Attr → Option Bytes
  | [] => none
  | a :: rest => if a.ns = [] ∧ a.key = key then some a.val else firstAttr key rest

def versionProfile (attrs : List Attr) : Nat :=
  match firstAttr (asc "version") attrs with
  | some v =>
    if v = asc "HTML+RDFa 1.0" || v = asc "XHTML+RDFa 1.0" || v = asc "HTML+RDFa 1.1" || v = asc "XHTML+RDFa 1.1" then pXHTML1
    else pXHTML5
  | none => pXHTML5

/-- maps.Copy into the shared TermMappings map -/
def addTerms (ts : List (Bytes × Bytes)) : List (Bytes × Bytes) → List (Bytes × Bytes)
  | [] => ts
  | (k, v) :: rest => addTerms (aset k v ts) rest

/-- the `else if n.DataAtom == atom.Html` block -/
def htmlInit (cfg : Cfg) (n : Node) (ctx : Ctx) (st : St) : Ctx × St :=
  let st := if st.profile == pUnspecified then { st with profile := versionProfile n.attrs } else st
  if isActive st.profile then
    let st := { st with terms := addTerms st.terms terms11 }
    let st := if st.profile == pXHTML1 then { st with terms := addTerms st.terms termsXhtml } else st
    let v : Vocab := match cfg.defaultVocab with | some d => .other d | none => .host
    ({ ctx with vocab := v }, st)
  else (ctx, st)

/-- the `if n.DataAtom == atom.Base` block -/
def baseElem (E : Env) (n : Node) (ctx : Ctx) (st : St) : Ctx × St :=
  if st.foundBase then (ctx, st)
  else
    match firstAttr (asc "href") n.attrs with
    | none => (ctx, st)
    | some h =>
      let st := st.ask 0 h []
      match E.parseBase h with
      | none => (ctx, st)
      | some b => ({ ctx with base := b }, { st with foundBase := true })

/-- the locals of walkNode that later steps read -/
structure L where
  skip : Bool := false
  newSubject : Option Subj := none
  cor : Option Subj := none
  typed : Option Subj := none
  prefixes : List (Bytes × Bytes) := []
  incompl : List Incomplete := []
  listMapping : Nat := 0
  lang : Option Bytes := none
  vocab : Vocab := .host
  base : Bytes := []
  rel : Option Bytes := none
  rev : Option Bytes := none
  relValid : Bool := false
  deriving Repr, Inhabited

/-- step 2 -/
def stepVocab (E : Env) (ctx : Ctx) (a : A) (l : L) (st : St) : L × St :=
  match a.vocab with
  | none => (l, st)
  | some v =>
    if v.isEmpty then ({ l with vocab := .host }, st)
    else
      match resolveAsIRI E st l.prefixes v (some l.vocab) true with
      | (some i, st) => ({ l with vocab := .other i }, st.emit (some (.iri ctx.base)) usesVocabulary (some (.iri i)))
      | (none, st) => (l, st)

/-- step 4 -/
def stepLang (active : Bool) (a : A) (cur : Option Bytes) : Option Bytes :=
  match (if active then a.langXml else none) with
  | some x => if x.isEmpty then none else some x
  | none =>
    match a.lang with
    | some x => if x.isEmpty then none else some x
    | none => cur

def joinSp : List Bytes → Bytes
  | [] => []
  | [x] => x
  | x :: y :: rest => x ++ 0x20 :: joinSp (y :: rest)

/-- filterNonCURIENonURI applied to @rel / @rev when @property is present -/
def filterRel (E : Env) (prefixes : List (Bytes × Bytes)) (v : Option Bytes) (st : St) : Option Bytes × St :=
  match v with
  | none => (none, st)
  | some s =>
    let (rs, st) := resolveTokens E prefixes none false (fields (trimSpace s)) st
    let j := joinSp (rs.map (fun r => 0x5b :: r ++ [0x5d]))
    (if j.isEmpty then none else some j, st)

def isHeadBody (n : Node) : Bool := n.atom = asc "head" || n.atom = asc "body"

/-- `x.(rdf.SubjectValue)` on the parent object: a nil interface panics -/
def assertParentObject (ctx : Ctx) (st : St) : Option Subj × St :=
  match ctx.parentObject with
  | some s => (some s, st)
  | none => (none, st.fail .panic)

def res (E : Env) (st : St) (l : L) (v : Bytes) (safe : Bool) : Option Subj × St :=
  resolveIRI E st l.prefixes v (some l.base) (some l.vocab) safe true

/-- `if attr != nil { if s := resolveIRI(*attr, …); s != nil { … } }` -/
def resOpt (E : Env) (st : St) (l : L) (v : Option Bytes) (safe : Bool) : Option Subj × St :=
  match v with
  | some v => res E st l v safe
  | none => (none, st)

/-- `if x == nil { x = f() }` with the state threaded -/
def orElseSt (r : Option Subj × St) (f : St → Option Subj × St) : Option Subj × St :=
  match r with
  | (some s, st) => (some s, st)
  | (none, st) => f st

/-- first non-nil of @resource (SafeCURIE allowed), @href, @src — each tried only while the result is still nil -/
def res3 (E : Env) (a : A) (l : L) (st : St) : Option Subj × St :=
  orElseSt (resOpt E st l a.resource true) (fun st =>
    orElseSt (resOpt E st l a.href false) (fun st => resOpt E st l a.src false))

/-- the `if attrResource … else if attrHref … else if attrSrc` chain of step 5 option 1 (only the FIRST present
    attribute is looked at) -/
def res3First (E : Env) (a : A) (l : L) (st : St) : Option Subj × St :=
  match a.resource with
  | some v => res E st l v true
  | none =>
    match a.href with
    | some v => res E st l v false
    | none => resOpt E st l a.src false

def freshBn (st : St) : Option Subj × St := (some (.bn st.nextBn), st.fresh.2)

/-- the fall-backs for a new subject that no attribute gave: rule 8 (head/body), the root, the parent object -/
def inheritSubject (E : Env) (active isRoot : Bool) (n : Node) (ctx : Ctx) (l : L) (st : St) : Option Subj × St :=
  if active && isHeadBody n then assertParentObject ctx st
  else if isRoot then res E st l [] false
  else (ctx.parentObject, st)

/-- step 5 option 1: @property without @content / @datatype -/
def step5a (E : Env) (active isRoot : Bool) (n : Node) (ctx : Ctx) (a : A) (l : L) (st : St) : L × St :=
  match resOpt E st l a.about true with
  | (aboutRes, st) =>
    match orElseSt (aboutRes, st) (inheritSubject E active isRoot n ctx l) with
    | (ns, st) =>
      let l := { l with newSubject := ns }
      if a.typeof.isSome then
        if a.about.isSome && aboutRes.isSome then ({ l with typed := ns }, st)
        else if isRoot then
          match res E st l [] false with
          | (t, st) => ({ l with typed := t }, st)
        else
          match orElseSt (res3First E a l st) freshBn with
          | (t, st) => ({ l with typed := t, cor := t }, st)
      else (l, st)

/-- step 5 option 2 -/
def step5b (E : Env) (active isRoot : Bool) (n : Node) (ctx : Ctx) (a : A) (l : L) (st : St) : L × St :=
  match orElseSt (resOpt E st l a.about true) (res3 E a l) with
  | (some s, st) =>
    ({ l with newSubject := some s, typed := if a.typeof.isSome then some s else l.typed }, st)
  | (none, st) =>
    if active && isHeadBody n then
      match assertParentObject ctx st with
      | (ns, st) => ({ l with newSubject := ns, typed := if a.typeof.isSome then ns else l.typed }, st)
    else if isRoot then
      match res E st l [] false with
      | (ns, st) => ({ l with newSubject := ns, typed := if a.typeof.isSome then ns else l.typed }, st)
    else if a.typeof.isSome then
      match freshBn st with
      | (ns, st) => ({ l with newSubject := ns, typed := ns }, st)
    else
      match ctx.parentObject with
      | some s => ({ l with newSubject := some s, skip := a.property.isNone }, st)
      | none => (l, st)

/-- step 5 (no @rel/@rev after rule 7) -/
def step5 (E : Env) (active isRoot : Bool) (n : Node) (ctx : Ctx) (a : A) (l : L) (st : St) : L × St :=
  if a.property.isSome && a.content.isNone && a.datatype.isNone then step5a E active isRoot n ctx a l st
  else step5b E active isRoot n ctx a l st

/-- step 6 (@rel or @rev present after rule 7) -/
def step6 (E : Env) (isRoot : Bool) (ctx : Ctx) (a : A) (l : L) (st : St) : L × St :=
  match resOpt E st l a.about true with
  | (aboutRes, st) =>
    let typed0 : Option Subj := if a.typeof.isSome then aboutRes else none
    match orElseSt (aboutRes, st) (fun st => if isRoot then res E st l [] false else (ctx.parentObject, st)) with
    | (ns, st) =>
      let l := { l with newSubject := ns, typed := typed0 }
      match res3 E a l st with
      | (cor, st) =>
        match (if a.typeof.isSome && a.about.isNone then orElseSt (cor, st) freshBn else (cor, st)) with
        | (cor, st) =>
          ({ l with cor := cor, typed := if a.typeof.isSome && a.about.isNone && typed0.isNone then cor else typed0 }, st)

def emitTypes (typed : Subj) : List Bytes → St → St
  | [], st => st
  | i :: is, st => emitTypes typed is (st.emit (some typed) rdfType (some (.iri i)))

/-- step 7 -/
def stepTypeof (E : Env) (a : A) (l : L) (st : St) : St :=
  match l.typed, a.typeof with
  | some t, some ty =>
    let (is, st) := resolveTokens E l.prefixes (some l.vocab) true (typeTokens ty) st
    emitTypes t is st
  | _, _ => st

def subjEq (a b : Subj) : Bool := a == b

/-- step 8 -/
def step8 (ctx : Ctx) (l : L) (st : St) : L × St :=
  match l.newSubject with
  | some s =>
    if (match ctx.parentSubject with | some p => !(subjEq p s) | none => true) then
      ({ l with listMapping := st.newMap.1 }, st.newMap.2)
    else (l, st)
  | none => (l, st)

/-- the `htmlIgnoredLinkRels` filter on one @rel token -/
def relIgnored (E : Env) (profile : Nat) (n : Node) (tok : Bytes) : Bool :=
  isActive profile && !isXHTML1 profile &&
    (n.atom = asc "form" || n.atom = asc "a" || n.atom = asc "area" || n.atom = asc "link") &&
    ignoredLinkRels.contains (E.lower tok ++ 0x2f :: n.atom)

def relTokens (E : Env) (profile : Nat) (n : Node) (rel : Bytes) : List Bytes :=
  (fields (trimSpace rel)).filter (fun t => !relIgnored E profile n t)

def emitEach (f : Bytes → St → St) : List Bytes → St → St
  | [], st => st
  | p :: ps, st => emitEach f ps (f p st)

/-- `if _, known := listMapping[p]; !known {…}; listMapping[p].Objects = append(…, v)` -/
def pushTo (mapId : Nat) (v : Option Obj) (p : Bytes) (st : St) : St :=
  (st.ensureList mapId p).2.pushList (st.ensureList mapId p).1 v

/-- step 9, `if attrInlist != nil && attrRel != nil` -/
def step9a (E : Env) (n : Node) (a : A) (o : Subj) (l : L) (st : St) : L × St :=
  match a.inlist, l.rel with
  | some _, some rel =>
    let r := resolveTokens E l.prefixes (some l.vocab) true (relTokens E st.profile n rel) st
    ({ l with relValid := l.relValid || !r.1.isEmpty }, emitEach (pushTo l.listMapping (some o.term)) r.1 r.2)
  | _, _ => (l, st)

/-- step 9, `if attrRel != nil && attrInlist == nil` -/
def step9b (E : Env) (n : Node) (a : A) (o : Subj) (l : L) (st : St) : L × St :=
  match l.rel, a.inlist with
  | some rel, none =>
    let r := resolveTokens E l.prefixes (some l.vocab) true (relTokens E st.profile n rel) st
    ({ l with relValid := l.relValid || !r.1.isEmpty },
     emitEach (fun p st => st.emit l.newSubject p (some o.term)) r.1 r.2)
  | _, _ => (l, st)

/-- step 9, `if attrRev != nil` -/
def step9c (E : Env) (o : Subj) (l : L) (st : St) : L × St :=
  match l.rev with
  | some rev =>
    let r := resolveTokens E l.prefixes (some l.vocab) true (fields (trimSpace rev)) st
    (l, emitEach (fun p st => st.emit (some o) p (l.newSubject.map Subj.term)) r.1 r.2)
  | none => (l, st)

/-- step 9 (current object resource present) -/
def step9 (E : Env) (n : Node) (a : A) (l : L) (o : Subj) (st : St) : L × St :=
  let r1 := step9a E n a o l st
  let r2 := step9b E n a o r1.1 r1.2
  step9c E o r2.1 r2.2

def addIncompleteLists (mapId : Nat) : List Bytes → St → List Incomplete × St
  | [], st => ([], st)
  | p :: ps, st =>
    let e := st.ensureList mapId p
    let r := addIncompleteLists mapId ps e.2
    (.lst e.1 :: r.1, r.2)

def step10rel (E : Env) (n : Node) (a : A) (l : L) (st : St) : L × St :=
  match l.rel with
  | some rel =>
    let r := resolveTokens E l.prefixes (some l.vocab) true (relTokens E st.profile n rel) st
    let inc : List Incomplete × St :=
      if a.inlist.isSome then addIncompleteLists l.listMapping r.1 r.2 else (r.1.map Incomplete.fwd, r.2)
    ({ l with incompl := l.incompl ++ inc.1, relValid := l.relValid || !r.1.isEmpty }, inc.2)
  | none => (l, st)

def step10rev (E : Env) (l : L) (st : St) : L × St :=
  match l.rev with
  | some rev =>
    let r := resolveTokens E l.prefixes (some l.vocab) true (fields (trimSpace rev)) st
    ({ l with incompl := l.incompl ++ r.1.map Incomplete.rev }, r.2)
  | none => (l, st)

/-- step 10 (no current object resource, @rel or @rev present) -/
def step10 (E : Env) (n : Node) (a : A) (l : L) (st : St) : L × St :=
  let r1 := step10rel E n a { l with cor := some (.bn st.nextBn) } st.fresh.2
  step10rev E r1.1 r1.2

def firstMap (v : Bytes) : List (Bytes → Option (Bytes × Bytes)) → Obj
  | [] => .lit v xsdString none
  | f :: fs => match f v with | some (lex, dt) => .lit lex dt none | none => firstMap v fs

/-- `resolveIRI(*attrDatatype, …).(rdf.IRI)` with the two language-string datatypes treated as unresolved -/
def datatypeIRI (E : Env) (a : A) (l : L) (st : St) : Bytes × St :=
  match a.datatype with
  | some d =>
    (match resolveAsIRI E st l.prefixes d (some l.vocab) true with
     | (some i, st) => (if i = rdfLangString || i = rdfDirLangString then [] else i, st)
     | (none, st) => ([], st))
  | none => ([], st)

/-- the last branch of step 11's chain: no @content, no @datatype (or rdf:HTML shadowed): a resource or the text -/
def valueResource (E : Env) (n : Node) (a : A) (l : L) (st : St) : Option Obj × St :=
  match (if !l.relValid && l.rev.isNone then res3 E a l st else (none, st)) with
  | (some s, st) => (some s.term, st)
  | (none, st) =>
    if a.typeof.isSome && a.about.isNone then (l.typed.map Subj.term, st)
    else (some (.lit (textContent n) xsdString none), st)

/-- step 11: the current property value before the language is applied; outer `none` = xml render error -/
def propertyValue (E : Env) (active : Bool) (n : Node) (a : A) (l : L) (st : St) : Option (Option Obj) × St :=
  match datatypeIRI E a l st with
  | (dt, st) =>
    if active && n.atom = asc "time" && a.content.isNone then
      let v := match a.datetime with | some d => d | none => textContent n
      (some (some (if !dt.isEmpty then .lit v dt none else firstMap v E.timeMaps)), st)
    else if a.datatype.isSome && !dt.isEmpty && dt ≠ rdfXMLLiteral && dt ≠ rdfHTML then
      (some (some (.lit (match a.content with | some c => c | none => textContent n) dt none)), st)
    else if a.datatype.isSome && dt.isEmpty then
      (some (some (.lit (match a.content with | some c => c | none => textContent n) xsdString none)), st)
    else if a.datatype.isSome && dt = rdfXMLLiteral then
      match E.xmlRender n.id with
      | some s => (some (some (.lit s rdfXMLLiteral none)), st)
      | none => (none, st)
    else if a.datatype.isSome && dt = rdfHTML then
      match E.htmlRender n.id with
      | some s => (some (some (.lit s rdfHTML none)), st)
      | none => (none, st)
    else
      match a.content with
      | some c => (some (some (.lit c xsdString none)), st)
      | none =>
        match valueResource E n a l st with
        | (v, st) => (some v, st)

def applyLang (lang : Option Bytes) (v : Option Obj) : Option Obj :=
  match lang, v with
  | some lg, some (.lit lex dt _) => if dt = xsdString then some (.lit lex rdfLangString (some lg)) else v
  | _, _ => v

/-- step 11 -/
def step11 (E : Env) (active : Bool) (n : Node) (a : A) (l : L) (st : St) : St :=
  match a.property with
  | none => st
  | some pv =>
    match propertyValue E active n a l st with
    | (none, st) => st.fail .err
    | (some v, st) =>
      let r := resolveTokens E l.prefixes (some l.vocab) true (fields (trimSpace pv)) st
      if a.inlist.isSome then emitEach (pushTo l.listMapping (applyLang l.lang v)) r.1 r.2
      else emitEach (fun p st => st.emit l.newSubject p (applyLang l.lang v)) r.1 r.2

/-- step 12 -/
def step12 (ctx : Ctx) (l : L) (st : St) : St :=
  match l.newSubject with
  | some s =>
    if l.skip then st
    else
      ctx.incomplete.foldl (fun st i =>
        match i with
        | .lst id => st.pushList id (some s.term)
        | .fwd p => st.emit ctx.parentSubject p (some s.term)
        | .rev p => st.emit (some s) p (ctx.parentSubject.map Subj.term)) st
  | none => st

/-- step 13: the evaluation context of the children -/
def childCtx (ctx : Ctx) (l : L) : Ctx :=
  if l.skip then { ctx with language := l.lang, prefixes := l.prefixes, vocab := l.vocab }
  else
    let ps := match l.newSubject with | some s => some s | none => ctx.parentSubject
    { base := l.base,
      parentSubject := ps,
      parentObject := (match l.cor with | some o => some o | none => ps),
      incomplete := l.incompl, listMapping := l.listMapping, language := l.lang, prefixes := l.prefixes,
      vocab := l.vocab }

/-- the rdf:first / rdf:rest cells of one list; `cells` = the blank nodes made for the items -/
def listCells : List Nat → List Obj → St → St
  | [], _, st => st
  | _, [], st => st
  | [c], x :: _, st => (st.emit (some (.bn c)) rdfFirst (some x)).emit (some (.bn c)) rdfRest (some (.iri rdfNil))
  | c :: d :: cs, x :: xs, st =>
    listCells (d :: cs) xs ((st.emit (some (.bn c)) rdfFirst (some x)).emit (some (.bn c)) rdfRest (some (.bnode d)))

def freshN : Nat → St → List Nat × St
  | 0, st => ([], st)
  | k + 1, st => (st.nextBn :: (freshN k st.fresh.2).1, (freshN k st.fresh.2).2)

/-- step 14 for the entries of the local list mapping that the context's mapping does not share -/
def flushLists (parentMap : List (Bytes × Nat)) (subj : Option Subj) : List (Bytes × Nat) → St → St
  | [], st => st
  | (p, id) :: rest, st =>
    if alookup p parentMap = some id then flushLists parentMap subj rest st
    else if (st.getList id).isEmpty then flushLists parentMap subj rest (st.emit subj p (some (.iri rdfNil)))
    else
      let c := freshN (st.getList id).length st
      flushLists parentMap subj rest ((listCells c.1 (st.getList id) c.2).emit subj p (c.1.head?.map Term.bnode))

def flushCount (parentMap : List (Bytes × Nat)) (m : List (Bytes × Nat)) : Nat :=
  (m.filter (fun e => alookup e.1 parentMap != some e.2)).length

/-! ### property copying (rdfa-in-html 3.5) -/

def patternStmt (t : Stmt) : Bool := t.p = rdfType && t.o = .iri rdfaPattern

/-- the simplequery join `?subject rdfa:copy ?target . ?target rdf:type rdfa:Pattern . ?target ?predicate ?object`
    over the (deduplicated) statements: (subject, target, predicate, object) -/
def copyBindings (ds : List Stmt) : List (Subj × Subj × Bytes × Obj) :=
  ds.flatMap (fun c =>
    if c.p = rdfaCopy then
      ds.flatMap (fun ty =>
        if ty.s.term = c.o && patternStmt ty then
          ds.filterMap (fun t => if t.s.term = c.o then some (c.s, t.s, t.p, t.o) else none)
        else [])
    else [])

def copyStep (st : St) : St :=
  let bs := copyBindings st.out.eraseDups
  let added : List Stmt :=
    bs.filterMap (fun b => if b.2.2.1 = rdfType && b.2.2.2 = .iri rdfaPattern then none else some ⟨b.1, b.2.2.1, b.2.2.2⟩)
  let all := st.out ++ added
  let keep (t : Stmt) : Bool :=
    if t.p = rdfaCopy then !(bs.any (fun b => b.1 = t.s && b.2.1.term = t.o))
    else if patternStmt t then !(bs.any (fun b => b.2.1 = t.s))
    else !(bs.any (fun b => b.2.1 = t.s && b.2.2.1 = t.p && b.2.2.2 = t.o))
  { st with out := all.filter keep, unordered := st.unordered || bs.length ≥ 2 }

/-! ## walkNode -/

/-- profile detection (doctype, <html version>) and <base href> -/
def pre (E : Env) (cfg : Cfg) (n : Node) (ctx : Ctx) (st : St) : Ctx × St :=
  let c : Ctx × St :=
    if n.typ = 5 && st.profile == pUnspecified then (ctx, { st with profile := detectProfile n.data })
    else if n.atom = asc "html" then htmlInit cfg n ctx st
    else (ctx, st)
  if n.atom = asc "base" then baseElem E n c.1 c.2 else c

def locals0 (ctx : Ctx) (a : A) : L :=
  { prefixes := ctx.prefixes, listMapping := ctx.listMapping, lang := ctx.language, vocab := ctx.vocab,
    base := a.localBase, rel := a.rel, rev := a.rev }

/-- steps 3 and 4 -/
def step34 (E : Env) (active : Bool) (a : A) (l : L) : L :=
  let entries := a.entries ++ prefixEntries E a.prefixAttr
  { l with prefixes := if entries.isEmpty then l.prefixes else pmAddAll l.prefixes entries,
           lang := stepLang active a l.lang }

/-- rdfa-in-html rule 7 -/
def rule7 (E : Env) (a : A) (l : L) (st : St) : L × St :=
  if a.property.isSome then
    let r := filterRel E l.prefixes l.rel st
    let v := filterRel E l.prefixes l.rev r.2
    ({ l with rel := r.1, rev := v.1 }, v.2)
  else (l, st)

def step56 (E : Env) (active isRoot : Bool) (n : Node) (ctx : Ctx) (a : A) (l : L) (st : St) : L × St :=
  if l.rel.isNone && l.rev.isNone then step5 E active isRoot n ctx a l st else step6 E isRoot ctx a l st

def step910 (E : Env) (n : Node) (a : A) (l : L) (st : St) : L × St :=
  match l.cor with
  | some o => step9 E n a l o st
  | none => if l.rel.isSome || l.rev.isSome then step10 E n a l st else (l, st)

/-- everything walkNode does before it recurses into the children: (context after profile/base handling, locals,
    state) -/
def enter (E : Env) (cfg : Cfg) (isRoot : Bool) (n : Node) (ctx : Ctx) (st : St) : Ctx × L × St :=
  let c := pre E cfg n ctx st
  let a := scanAttrs E (isXHTML c.2.profile) n.attrs { localBase := c.1.base }
  let st := { c.2 with asks := a.asks ++ c.2.asks }
  let active := isActive st.profile
  let r2 := stepVocab E c.1 a (locals0 c.1 a) st
  let r7 := rule7 E a (step34 E active a r2.1) r2.2
  let r6 := step56 E active isRoot n c.1 a r7.1 r7.2
  let r8 := step8 c.1 r6.1 (stepTypeof E a r6.1 r6.2)
  let r9 := step910 E n a r8.1 r8.2
  (c.1, r9.1, step12 c.1 r9.1 (step11 E active n a r9.1 r9.2))

/-- steps 14 and property copying, after the children -/
def leave (isRoot : Bool) (ctx : Ctx) (l : L) (st : St) : St :=
  let pm := st.getMap ctx.listMapping
  let m := st.getMap l.listMapping
  let st := if flushCount pm m ≥ 2 then { st with unordered := true } else st
  let st := flushLists pm l.newSubject m st
  if isRoot && isActive st.profile then copyStep st else st

mutual
/-- Decoder.walkNode. Once `bad` is set nothing more is recorded (Go has crashed or returned the error). -/
def walk (E : Env) (cfg : Cfg) (isRoot : Bool) (ctx : Ctx) (st : St) : Node → St
  | .mk i t ns atm d as ks =>
    if st.bad.isSome then st
    else
      let e := enter E cfg isRoot (Node.mk i t ns atm d as ks) ctx st
      if e.2.2.bad.isSome then e.2.2
      else
        let st' := walkKids E cfg (t == 2) (childCtx e.1 e.2.1) e.2.2 ks
        if st'.bad.isSome then st' else leave isRoot e.1 e.2.1 st'
/-- `for c := n.FirstChild; c != nil; c = c.NextSibling`; `parentDoc`: the parent is a DocumentNode -/
def walkKids (E : Env) (cfg : Cfg) (parentDoc : Bool) (ctx : Ctx) (st : St) : List Node → St
  | [] => st
  | k :: ks => walkKids E cfg parentDoc ctx (walk E cfg (parentDoc && k.typ == 3) ctx st k) ks
end

inductive Outcome where
  /-- the statements Next yields, in order; `unordered`: Go's order depended on map iteration -/
  | ok (stmts : List Stmt) (unordered : Bool)
  /-- NewDecoder failed (document base does not parse) -/
  | newErr
  /-- Next returned false at once with Err set -/
  | err
  | panic
  | nilTerm
  deriving Repr, DecidableEq, Inhabited

def initSt (cfg : Cfg) : St := { profile := cfg.profile, maps := [[]] }

def initCtx (cfg : Cfg) (base : Bytes) : Ctx :=
  { base := base, listMapping := 0, prefixes := cfg.prefixes,
    vocab := match cfg.defaultVocab with | some d => .other d | none => .host }

/-- the final state of NewDecoder + the first Next on document `doc` -/
def run (E : Env) (cfg : Cfg) (doc : Node) : Option St :=
  let base : Option Bytes := if cfg.base.isEmpty then some [] else E.parseBase cfg.base
  match base with
  | none => none
  | some b => some (walk E cfg true (initCtx cfg b) (initSt cfg) (Mdd.relabel doc))

def decode (E : Env) (cfg : Cfg) (doc : Node) : Outcome :=
  match run E cfg doc with
  | none => .newErr
  | some st =>
    match st.bad with
    | some .panic => .panic
    | some .nilTerm => .nilTerm
    | some .err => .err
    | none => .ok st.out st.unordered

end RdfModel.Rdfad
