import RdfModel.Props.C02TokensDefs
namespace RdfModel.Proofs.C02Tok
open RdfModel RdfModel.Ttl RdfModel.C02

/-! ## (1) no-panic theorems -/

theorem scanIRIREF_no_panic (T : Tables) (e : End) (st : SState) (inp acc : List Nat) :
    scanIRIREF T e st inp acc ≠ .panic := by
  fun_induction scanIRIREF T e st inp acc <;> simp_all

theorem produceIRIREF_no_panic (T : Tables) (e : End) (inp : List Nat) : produceIRIREF T e inp ≠ .panic := by
  unfold produceIRIREF
  split
  · simp
  · split
    · exact scanIRIREF_no_panic _ _ _ _ _
    · simp

theorem scanString_no_panic (T : Tables) (e : End) (delim : Nat) (triple : Bool) (st : SState)
    (inp acc : List Nat) : scanString T e delim triple st inp acc ≠ .panic := by
  fun_induction scanString T e delim triple st inp acc <;> simp_all

theorem produceString_no_panic (T : Tables) (e : End) (inp : List Nat) : produceString T e inp ≠ .panic := by
  unfold produceString
  split
  · simp
  · split
    · split
      · simp
      · split
        · split
          · cases e <;> simp
          · split
            · exact scanString_no_panic _ _ _ _ _ _ _
            · simp
        · exact scanString_no_panic _ _ _ _ _ _ _
    · simp


theorem pnameNsLoop_no_panic (T : Tables) (e : End) (inp acc : List Nat) :
    pnameNsLoop T e inp acc ≠ .panic := by
  fun_induction pnameNsLoop T e inp acc <;> simp_all

theorem producePNAME_NS_no_panic (T : Tables) (e : End) (inp : List Nat) : producePNAME_NS T e inp ≠ .panic := by
  unfold producePNAME_NS
  split
  · simp
  · split
    · simp
    · split
      · exact pnameNsLoop_no_panic _ _ _ _
      · simp

theorem localDone_no_panic (acc : List Nat) (le : Bool) (rest : List Nat) (h : acc ≠ []) :
    localDone acc le rest ≠ .panic := by
  unfold localDone
  split
  · exact absurd rfl h
  · split <;> simp

theorem scanLocal_no_panic (T : Tables) (e : End) (st : LState) (inp acc : List Nat) (le : Bool)
    (h : st = .body → acc ≠ []) : scanLocal T e st inp acc le ≠ .panic := by
  fun_induction scanLocal T e st inp acc le <;> simp_all [localDone_no_panic]

theorem producePrefixedName_no_panic (T : Tables) (e : End) (inp : List Nat) : producePrefixedName T e inp ≠ .panic := by
  unfold producePrefixedName
  have h1 := producePNAME_NS_no_panic T e inp
  split
  · simp
  · contradiction
  · have h2 := scanLocal_no_panic T e .first ‹_› [] false (by simp)
    split
    · simp
    · simp
    · contradiction

theorem bnDone_no_panic (T : Tables) (acc rest : List Nat) (h : acc ≠ []) : bnDone T acc rest ≠ .panic := by
  unfold bnDone
  split
  · exact absurd rfl h
  · simp only
    split
    · simp
    · split <;> simp

theorem bnLoop_no_panic (T : Tables) (e : End) (inp acc : List Nat) (h : acc ≠ []) :
    bnLoop T e inp acc ≠ .panic := by
  fun_induction bnLoop T e inp acc <;> simp_all [bnDone_no_panic]

theorem produceBlankNode_no_panic (T : Tables) (e : End) (inp : List Nat) : produceBlankNode T e inp ≠ .panic := by
  unfold produceBlankNode
  split
  · simp
  · split
    · simp
    · split
      · simp
      · split
        · simp
        · split
          · simp
          · split
            · exact bnLoop_no_panic _ _ _ _ (by simp)
            · simp

theorem langDone_no_panic (acc rest : List Nat) : langDone acc rest ≠ .panic := by
  unfold langDone; split <;> simp

theorem langSecondary_no_panic (e : End) (inp acc : List Nat) : langSecondary e inp acc ≠ .panic := by
  fun_induction langSecondary e inp acc <;> simp_all [langDone_no_panic]

theorem langPrimary_no_panic (e : End) (inp acc : List Nat) : langPrimary e inp acc ≠ .panic := by
  fun_induction langPrimary e inp acc <;> simp_all [langDone_no_panic, langSecondary_no_panic]

theorem produceLANGTAG_no_panic (e : End) (inp : List Nat) : produceLANGTAG e inp ≠ .panic := by
  unfold produceLANGTAG
  split
  · simp
  · split
    · exact langPrimary_no_panic _ _ _
    · simp

theorem numDone_no_panic (acc : List Nat) (k : Option NumKind) (rest : List Nat) (h : acc ≠ []) :
    numDone acc k rest ≠ .panic := by
  unfold numDone
  split
  · exact absurd rfl h
  · split
    · simp
    · split <;> simp

theorem scanNum_no_panic (e : End) (st : NState) (k : Option NumKind) (inp acc : List Nat)
    (h : acc ≠ []) : scanNum e st k inp acc ≠ .panic := by
  fun_induction scanNum e st k inp acc <;> simp_all [numDone_no_panic]

theorem produceNumericLiteral_no_panic (e : End) (inp : List Nat) : produceNumericLiteral e inp ≠ .panic := by
  unfold produceNumericLiteral
  split
  · simp
  · split
    · exact scanNum_no_panic _ _ _ _ _ (by simp)
    · split
      · exact scanNum_no_panic _ _ _ _ _ (by simp)
      · simp


/-! ## (3) language tags and blank node labels -/

theorem isAlpha_scalar {c : Nat} (h : isAlpha c = true) : IsScalar c := by
  simp [isAlpha, NQ.isAlpha] at h
  unfold IsScalar; omega

theorem isDigit_scalar {c : Nat} (h : isDigit c = true) : IsScalar c := by
  simp [isDigit, NQ.isDigit] at h
  unfold IsScalar; omega

theorem langRest_scalars (t : List Nat) : ∀ need, langRest t need = true → ∀ c ∈ t, IsScalar c := by
  induction t with
  | nil => intro _ _ c hc; cases hc
  | cons x t ih =>
    intro need h c hc
    unfold langRest at h
    split at h
    · next hx =>
      rcases List.mem_cons.1 hc with rfl | hc
      · rcases Bool.or_eq_true _ _ ▸ hx with hx | hx
        · exact isAlpha_scalar hx
        · exact isDigit_scalar hx
      · exact ih _ h c hc
    · split at h
      · next hd =>
        simp only [Bool.and_eq_true] at h
        rcases List.mem_cons.1 hc with rfl | hc
        · subst hd; unfold IsScalar; omega
        · exact ih _ h.2 c hc
      · simp at h

theorem langPrim_scalars (t : List Nat) : ∀ seen, langPrim t seen = true → ∀ c ∈ t, IsScalar c := by
  induction t with
  | nil => intro _ _ c hc; cases hc
  | cons x t ih =>
    intro seen h c hc
    unfold langPrim at h
    split at h
    · next hx =>
      rcases List.mem_cons.1 hc with rfl | hc
      · exact isAlpha_scalar hx
      · exact ih _ h c hc
    · split at h
      · next hd =>
        simp only [Bool.and_eq_true] at h
        rcases List.mem_cons.1 hc with rfl | hc
        · subst hd; unfold IsScalar; omega
        · exact langRest_scalars t _ h.2 c hc
      · simp at h

theorem langSecondary_ok (e : End) (rest : List Nat) (hstop : LangStop e rest) (t : List Nat) :
    ∀ (acc : List Nat) (need : Bool), langRest t need = true →
      (need = true → acc.head? = some 0x2d) → (need = false → acc.head? ≠ some 0x2d) →
      langSecondary e (t ++ rest) acc = .ok (goString (acc.reverse ++ t)) rest := by
  induction t with
  | nil =>
    intro acc need h h1 h2
    have hn : need = false := by simpa [langRest] using h
    have := h2 hn
    cases rest with
    | nil =>
      have he : e = .eof := hstop
      subst he
      simp [langSecondary, langDone, this]
    | cons c r =>
      obtain ⟨ha, hd, hc⟩ : isAlpha c = false ∧ isDigit c = false ∧ c ≠ 0x2d := hstop
      simp [langSecondary, langDone, this, ha, hd, hc]
  | cons x t ih =>
    intro acc need h h1 h2
    unfold langRest at h
    simp only [List.cons_append]
    unfold langSecondary
    split at h
    · next hx =>
      rw [if_pos hx]
      have hx' : x ≠ 0x2d := by
        intro hh; subst hh; simp [isAlpha, isDigit, NQ.isAlpha, NQ.isDigit] at hx
      rw [ih (x :: acc) false h (by simp) (by simp [hx'])]
      simp
    · next hx =>
      rw [if_neg hx]
      split at h
      · next hd =>
        subst hd
        simp only [Bool.and_eq_true, Bool.not_eq_true'] at h
        have := h2 h.1
        simp only [if_true, if_neg this]
        rw [ih (0x2d :: acc) true h.2 (by simp) (by simp)]
        simp
      · simp at h

theorem langPrimary_ok (e : End) (rest : List Nat) (hstop : LangStop e rest) (t : List Nat) :
    ∀ (acc : List Nat) (seen : Bool), langPrim t seen = true →
      (seen = !acc.isEmpty) → (acc.head? ≠ some 0x2d) →
      langPrimary e (t ++ rest) acc = .ok (goString (acc.reverse ++ t)) rest := by
  induction t with
  | nil =>
    intro acc seen h h1 h2
    have hs : seen = true := by simpa [langPrim] using h
    have hne : acc.isEmpty = false := by simpa [hs] using h1
    cases rest with
    | nil =>
      have he : e = .eof := hstop
      subst he
      simp [langPrimary, langDone, hne, h2]
    | cons c r =>
      obtain ⟨ha, hd, hc⟩ : isAlpha c = false ∧ isDigit c = false ∧ c ≠ 0x2d := hstop
      simp [langPrimary, langDone, hne, h2, ha, hc]
  | cons x t ih =>
    intro acc seen h h1 h2
    unfold langPrim at h
    simp only [List.cons_append]
    unfold langPrimary
    split at h
    · next hx =>
      rw [if_pos hx]
      have hx' : x ≠ 0x2d := by
        intro hh; subst hh; simp [isAlpha, NQ.isAlpha] at hx
      rw [ih (x :: acc) true h (by simp) (by simp [hx'])]
      simp
    · next hx =>
      rw [if_neg hx]
      split at h
      · next hd =>
        subst hd
        simp only [Bool.and_eq_true] at h
        have : acc.isEmpty = false := by simpa [h.1] using h1
        simp only [if_true, this, Bool.false_eq_true, if_false]
        rw [langSecondary_ok e rest hstop t (0x2d :: acc) true h.2 (by simp) (by simp)]
        simp
      · simp at h

theorem langtag_roundtrip (e : End) (t rest : List Nat) (h : langOK t = true) (hstop : LangStop e rest) :
    produceLANGTAG e (0x40 :: t ++ rest) = .ok t rest := by
  have := langPrimary_ok e rest hstop t [] false h (by simp) (by simp)
  simp only [List.cons_append, produceLANGTAG, if_true, this, List.reverse_nil, List.nil_append]
  rw [goString_id_of_scalar (langPrim_scalars t false h)]


theorem bnLoop_ok (T : Tables) (e : End) (rest : List Nat) (hstop : LabelStop T e rest) (xs : List Nat) :
    ∀ acc, (∀ x ∈ xs, (inRanges T.pnChars x || x = 0x2e) = true) →
      bnLoop T e (xs ++ rest) acc = bnDone T (xs.reverse ++ acc) rest := by
  induction xs with
  | nil =>
    intro acc _
    cases rest with
    | nil =>
      have he : e = .eof := hstop
      subst he
      simp [bnLoop]
    | cons c r =>
      obtain ⟨h1, h2⟩ : inRanges T.pnChars c = false ∧ c ≠ 0x2e := hstop
      simp [bnLoop, h1, h2]
  | cons x xs ih =>
    intro acc h
    have hx := h x List.mem_cons_self
    simp only [List.cons_append]
    unfold bnLoop
    rw [if_pos hx, ih _ (fun y hy => h y (List.mem_cons_of_mem _ hy))]
    simp

theorem bnode_roundtrip (T : Tables) (hT : TablesOK T) (e : End) (l rest : List Nat) (hs : Scalars l)
    (hl : labelOK T l = true) (hstop : LabelStop T e rest) :
    produceBlankNode T e (0x5f :: 0x3a :: l ++ rest) = .ok l rest := by
  have hg : goString l = l := goString_id_of_scalar hs
  cases l with
  | nil => simp [labelOK] at hl
  | cons c xs =>
    simp only [labelOK, Bool.and_eq_true, List.all_eq_true] at hl
    obtain ⟨⟨h1, h2⟩, h3⟩ := hl
    have hc : c ≠ 0x2e := by
      intro hh; subst hh
      rw [hT.pnU_dot] at h1
      simp [isDigit, NQ.isDigit] at h1
    simp only [List.cons_append]
    simp only [produceBlankNode, ne_eq, not_true_eq_false, if_false]
    rw [if_pos h1, bnLoop_ok T e rest hstop xs [c] h2]
    rcases List.eq_nil_or_concat xs with rfl | ⟨init, z, rfl⟩
    · simp [bnDone, hc]
      simpa using hg
    · have hz : inRanges T.pnChars z = true := by simpa using h3
      have hz' : z ≠ 0x2e := by
        intro hh; subst hh; rw [hT.pn_dot] at hz; exact Bool.noConfusion hz
      simp [bnDone, hz, hz']
      simpa using hg


/-! ## (2) numeric / boolean shorthand -/

theorem spanDigits_spec (l : List Nat) :
    ∃ ds, l = ds ++ (spanDigits l).2 ∧ ds.length = (spanDigits l).1 ∧ (∀ d ∈ ds, isDigit d = true) ∧
      (∀ c r, (spanDigits l).2 = c :: r → isDigit c = false) := by
  induction l with
  | nil => exact ⟨[], by simp [spanDigits]⟩
  | cons c rest ih =>
    obtain ⟨ds, h1, h2, h3, h4⟩ := ih
    unfold spanDigits
    by_cases hc : isDigit c = true
    · rw [if_pos hc]
      refine ⟨c :: ds, ?_, ?_, ?_, ?_⟩
      · simp only [List.cons_append]; rw [← h1]
      · simp [h2]
      · intro d hd
        rcases List.mem_cons.1 hd with rfl | hd
        · exact hc
        · exact h3 d hd
      · exact h4
    · rw [if_neg hc]
      refine ⟨[], by simp, by simp, by simp, ?_⟩
      intro c' r' h
      simp only [List.cons.injEq] at h
      rw [← h.1]; simpa using hc

theorem dropSign_spec (l : List Nat) :
    ∃ sg, l = sg ++ dropSign l ∧ (sg = [] ∨ sg = [0x2b] ∨ sg = [0x2d]) := by
  cases l with
  | nil => exact ⟨[], by simp [dropSign]⟩
  | cons c rest =>
    simp only [dropSign]
    by_cases h : c = 0x2b ∨ c = 0x2d
    · rw [if_pos h]
      rcases h with rfl | rfl
      · exact ⟨[0x2b], by simp⟩
      · exact ⟨[0x2d], by simp⟩
    · rw [if_neg h]
      exact ⟨[], by simp⟩

theorem scanNum_digits (e : End) (st : NState) (hst : st ≠ .exp0) (k : Option NumKind)
    (ds tail : List Nat) (hd : ∀ d ∈ ds, isDigit d = true) :
    ∀ acc, scanNum e st k (ds ++ tail) acc = scanNum e st k tail (ds.reverse ++ acc) := by
  induction ds with
  | nil => intro acc; rfl
  | cons d ds ih =>
    intro acc
    have h1 := hd d List.mem_cons_self
    have h2 := ih (fun x hx => hd x (List.mem_cons_of_mem _ hx))
    cases st with
    | exp0 => exact absurd rfl hst
    | sign => simp [scanNum, h1, h2]
    | int => simp [scanNum, h1, h2]
    | exp => simp [scanNum, h1, h2]

def GoodAcc (acc : List Nat) : Prop := ∃ l more, acc = l :: more ∧ isDigit l = true

theorem goodAcc_digits (ds acc : List Nat) (hd : ∀ d ∈ ds, isDigit d = true) (hne : ds ≠ []) :
    GoodAcc (ds.reverse ++ acc) := by
  rcases List.eq_nil_or_concat ds with rfl | ⟨init, z, rfl⟩
  · exact absurd rfl hne
  · exact ⟨z, init.reverse ++ acc, by simp, hd z (by simp)⟩

theorem numDone_good (acc : List Nat) (k : Option NumKind) (rest : List Nat) (h : GoodAcc acc) :
    numDone acc k rest = .ok (k.getD .integer, goString acc.reverse) rest := by
  obtain ⟨l, more, rfl, hl⟩ := h
  simp [isDigit, NQ.isDigit] at hl
  have h1 : l ≠ 0x2e := by omega
  have h2 : ¬ (l = 0x2d ∨ l = 0x2b ∨ l = 0x65 ∨ l = 0x45) := by omega
  simp only [numDone, if_neg h1, if_neg h2]

theorem numStop_tail {e : End} {c : Nat} {r : List Nat} (h : NumStop e (c :: r)) :
    isDigit c = false ∧ c ≠ 0x65 ∧ c ≠ 0x45 := by
  rcases h with h | ⟨rfl, _⟩
  · simp [numStopRune] at h
    exact ⟨h.1.1.1, h.1.2, h.2⟩
  · decide

theorem scanNum_stop (e : End) (st : NState) (hst : st = .int ∨ st = .exp) (k : Option NumKind)
    (rest acc : List Nat) (hstop : NumStop e rest) (hacc : GoodAcc acc) :
    scanNum e st k rest acc = .ok (k.getD .integer, goString acc.reverse) rest := by
  cases rest with
  | nil =>
    have he : e = .eof := hstop
    subst he
    rcases hst with rfl | rfl <;> simp [scanNum, numDone_good _ _ _ hacc]
  | cons c r =>
    obtain ⟨h1, h2, h3⟩ := numStop_tail hstop
    rcases hst with rfl | rfl <;> simp [scanNum, numDone_good _ _ _ hacc, h1, h2, h3]

theorem scanNum_stop_sign (e : End) (rest acc : List Nat) (hstop : NumStop e rest) (hacc : GoodAcc acc) :
    scanNum e .sign none rest acc = .ok (.integer, goString acc.reverse) rest := by
  cases rest with
  | nil =>
    have he : e = .eof := hstop
    subst he
    simp [scanNum, numDone_good _ _ _ hacc]
  | cons c r =>
    rcases hstop with h | ⟨rfl, h⟩
    · simp [numStopRune] at h
      obtain ⟨⟨⟨h1, h2⟩, h3⟩, h4⟩ := h
      simp [scanNum, numDone_good _ _ _ hacc, h1, h2, h3, h4]
    · have h0 : isDigit 0x2e = false := by decide
      simp only [scanNum, h0]
      simp only [Bool.false_eq_true, if_false, if_true]
      cases r with
      | nil =>
        have he : e = .eof := h
        subst he
        simp [scanNum, numDone]
      | cons d r' =>
        simp at h
        obtain ⟨⟨h1, h2⟩, h3⟩ := h
        simp [scanNum, numDone, h1, h2, h3]

theorem sign_not_digit {sg : List Nat} (h : sg = [] ∨ sg = [0x2b] ∨ sg = [0x2d]) :
    ∀ c ∈ sg, c = 0x2b ∨ c = 0x2d := by
  rcases h with rfl | rfl | rfl <;> simp

theorem scanNum_exp (e : End) (st : NState) (hst : st = .sign ∨ st = .int) (k : Option NumKind)
    (c : Nat) (hc : c = 0x65 ∨ c = 0x45) (sg3 : List Nat) (hsg3 : sg3 = [] ∨ sg3 = [0x2b] ∨ sg3 = [0x2d])
    (ds3 : List Nat) (hd3 : ∀ d ∈ ds3, isDigit d = true) (hne : ds3 ≠ [])
    (rest : List Nat) (hstop : NumStop e rest) (acc : List Nat) :
    scanNum e st k (c :: (sg3 ++ (ds3 ++ rest))) acc =
      .ok (.double, goString ((ds3.reverse ++ (sg3.reverse ++ c :: acc)).reverse)) rest := by
  have hcd : isDigit c = false := by rcases hc with rfl | rfl <;> decide
  have hc' : c ≠ 0x2e := by rcases hc with rfl | rfl <;> decide
  have step1 : scanNum e st k (c :: (sg3 ++ (ds3 ++ rest))) acc =
      scanNum e .exp0 (some .double) (sg3 ++ (ds3 ++ rest)) (c :: acc) := by
    rcases hst with rfl | rfl <;> simp [scanNum, hcd, hc', hc]
  rw [step1]
  have step2 : scanNum e .exp0 (some .double) (sg3 ++ (ds3 ++ rest)) (c :: acc) =
      scanNum e .exp (some .double) rest (ds3.reverse ++ (sg3.reverse ++ c :: acc)) := by
    rcases hsg3 with rfl | rfl | rfl
    · cases ds3 with
      | nil => exact absurd rfl hne
      | cons d ds =>
        have h1 := hd3 d List.mem_cons_self
        simp only [List.nil_append, List.cons_append, scanNum, h1, or_true, if_true]
        rw [scanNum_digits e .exp (by decide) _ ds rest (fun x hx => hd3 x (List.mem_cons_of_mem _ hx))]
        simp
    · simp only [List.cons_append, List.nil_append, scanNum]
      simp only [true_or, or_true, if_true]
      rw [scanNum_digits e .exp (by decide) _ ds3 rest hd3]
      simp
    · simp only [List.cons_append, List.nil_append, scanNum]
      simp only [true_or, if_true]
      rw [scanNum_digits e .exp (by decide) _ ds3 rest hd3]
      simp
  rw [step2, scanNum_stop e .exp (Or.inr rfl) _ rest _ hstop (goodAcc_digits _ _ hd3 hne)]
  rfl

theorem produce_start (e : End) (sg : List Nat) (hsg : sg = [] ∨ sg = [0x2b] ∨ sg = [0x2d])
    (ds1 : List Nat) (hd1 : ∀ d ∈ ds1, isDigit d = true) (hne : sg ++ ds1 ≠ []) (t : List Nat) :
    produceNumericLiteral e (sg ++ (ds1 ++ t)) = scanNum e .sign none t (ds1.reverse ++ sg.reverse) := by
  rcases hsg with rfl | rfl | rfl
  · cases ds1 with
    | nil => exact absurd rfl hne
    | cons d ds =>
      have h1 := hd1 d List.mem_cons_self
      simp only [List.nil_append, List.cons_append, produceNumericLiteral, h1, or_true, if_true]
      rw [scanNum_digits e .sign (by decide) _ ds t (fun x hx => hd1 x (List.mem_cons_of_mem _ hx))]
      simp
  · simp only [List.cons_append, List.nil_append, produceNumericLiteral]
    simp only [true_or, or_true, if_true]
    rw [scanNum_digits e .sign (by decide) _ ds1 t hd1]
    simp
  · simp only [List.cons_append, List.nil_append, produceNumericLiteral]
    simp only [true_or, if_true]
    rw [scanNum_digits e .sign (by decide) _ ds1 t hd1]
    simp

theorem produce_start_dot (e : End) (sg : List Nat) (hsg : sg = [] ∨ sg = [0x2b] ∨ sg = [0x2d])
    (ds1 : List Nat) (hd1 : ∀ d ∈ ds1, isDigit d = true) (t : List Nat) :
    produceNumericLiteral e (sg ++ (ds1 ++ 0x2e :: t)) =
      scanNum e .int (some .decimal) t (0x2e :: (ds1.reverse ++ sg.reverse)) := by
  by_cases hne : sg ++ ds1 = []
  · simp only [List.append_eq_nil_iff] at hne
    obtain ⟨rfl, rfl⟩ := hne
    simp [produceNumericLiteral, isDigit, NQ.isDigit]
  · rw [produce_start e sg hsg ds1 hd1 hne]
    simp [scanNum, isDigit, NQ.isDigit]

def ascB (l : List Nat) : Bool := l.all (fun c => decide (c < 128))

theorem goString_ascB {l : List Nat} (h : ascB l = true) : goString l = l := by
  apply goString_id_of_scalar
  intro c hc
  simp only [ascB, List.all_eq_true, decide_eq_true_eq] at h
  have := h c hc
  unfold IsScalar; omega

theorem ascB_digits {ds : List Nat} (hd : ∀ d ∈ ds, isDigit d = true) : ascB ds = true := by
  simp only [ascB, List.all_eq_true, decide_eq_true_eq]
  intro c hc
  have := hd c hc
  simp [isDigit, NQ.isDigit] at this
  omega

theorem ascB_sign {sg : List Nat} (h : sg = [] ∨ sg = [0x2b] ∨ sg = [0x2d]) : ascB sg = true := by
  rcases h with rfl | rfl | rfl <;> decide

theorem ascB_append (a b : List Nat) : ascB (a ++ b) = (ascB a && ascB b) := by
  simp [ascB]

theorem ascB_cons (a : Nat) (b : List Nat) : ascB (a :: b) = (decide (a < 128) && ascB b) := by
  simp [ascB]

theorem exp_shape (r : List Nat) (h1 : (spanDigits (dropSign r)).snd = [])
    (h2 : (spanDigits (dropSign r)).fst > 0) :
    ∃ sg3 ds3, r = sg3 ++ ds3 ∧ (sg3 = [] ∨ sg3 = [0x2b] ∨ sg3 = [0x2d]) ∧
      (∀ d ∈ ds3, isDigit d = true) ∧ ds3 ≠ [] := by
  obtain ⟨sg3, hsg3, hsg3'⟩ := dropSign_spec r
  obtain ⟨ds3, hds3, hn3, hd3, _⟩ := spanDigits_spec (dropSign r)
  rw [h1, List.append_nil] at hds3
  refine ⟨sg3, ds3, by rw [← hds3]; exact hsg3, hsg3', hd3, ?_⟩
  intro h0; subst h0; simp at hn3; omega

theorem numeric_shorthand (e : End) (lex dt : List Nat) (rest : List Nat)
    (h : bareLiteralDatatype lex = some dt) (hdt : dt ≠ xsdBoolean) (hstop : NumStop e rest) :
    ∃ k : NumKind, k.datatype = dt ∧ produceNumericLiteral e (lex ++ rest) = .ok (k, lex) rest := by
  unfold bareLiteralDatatype at h
  split at h
  · simp at h; exact absurd h.symm hdt
  · obtain ⟨sg, hsg, hsg'⟩ := dropSign_spec lex
    obtain ⟨ds1, hds1, hn1, hd1, hr1⟩ := spanDigits_spec (dropSign lex)
    generalize hp : spanDigits (dropSign lex) = p at *
    obtain ⟨nInt, r1⟩ := p
    simp only at h hds1 hn1 hr1
    have ha0 := ascB_sign hsg'
    have ha1 := ascB_digits hd1
    cases r1 with
    | nil =>
      simp only [Bool.not_false, Bool.true_and, Bool.false_and, Bool.false_eq_true, if_false] at h
      split at h
      · next hpos =>
        have hdt' : xsdInteger = dt := by simpa using h
        have hne1 : ds1 ≠ [] := by
          intro h0; subst h0; simp at hn1; subst hn1; simp at hpos
        have hlex : lex = sg ++ (ds1 ++ []) := by rw [← hds1]; exact hsg
        refine ⟨.integer, hdt', ?_⟩
        rw [hlex]
        simp only [List.append_nil, List.append_assoc]
        rw [produce_start e sg hsg' ds1 hd1 (by simp [hne1]),
          scanNum_stop_sign e rest _ hstop (goodAcc_digits _ _ hd1 hne1)]
        have hg : goString (sg ++ ds1) = sg ++ ds1 := goString_ascB (by simp [ascB_append, ha0, ha1])
        simp [hg]
      · simp at h
    | cons c r =>
      by_cases hc : c = 0x2e
      · subst hc
        obtain ⟨ds2, hds2, hn2, hd2, hr2⟩ := spanDigits_spec r
        simp only [if_true] at h
        generalize hp2 : spanDigits r = p2 at *
        obtain ⟨nFrac, r2⟩ := p2
        simp only at h hds2 hn2 hr2
        have ha2 := ascB_digits hd2
        cases r2 with
        | nil =>
          simp only [Bool.not_true, Bool.false_and, Bool.false_eq_true, if_false, Bool.true_and] at h
          split at h
          · next hpos =>
            have hdt' : xsdDecimal = dt := by simpa using h
            have hne2 : ds2 ≠ [] := by
              intro h0; subst h0; simp at hn2; subst hn2; simp at hpos
            have hlex : lex = sg ++ (ds1 ++ 0x2e :: (ds2 ++ [])) := by rw [← hds2, ← hds1]; exact hsg
            refine ⟨.decimal, hdt', ?_⟩
            rw [hlex]
            simp only [List.append_nil, List.append_assoc, List.cons_append]
            rw [produce_start_dot e sg hsg' ds1 hd1,
              scanNum_digits e .int (by decide) _ ds2 rest hd2,
              scanNum_stop e .int (Or.inl rfl) _ rest _ hstop (goodAcc_digits _ _ hd2 hne2)]
            have hg : goString (sg ++ (ds1 ++ 0x2e :: ds2)) = sg ++ (ds1 ++ 0x2e :: ds2) :=
              goString_ascB (by simp [ascB_append, ascB_cons, ha0, ha1, ha2])
            simp [hg]
          · simp at h
        | cons c r' =>
          simp only at h
          split at h
          · next hce =>
            split at h
            · next hcond =>
              have hdt' : xsdDouble = dt := by simpa using h
              obtain ⟨sg3, ds3, hr', hsg3, hd3, hne3⟩ := exp_shape r' hcond.1 hcond.2.1
              have hlex : lex = sg ++ (ds1 ++ 0x2e :: (ds2 ++ c :: (sg3 ++ ds3))) := by
                rw [← hr', ← hds2, ← hds1]; exact hsg
              refine ⟨.double, hdt', ?_⟩
              rw [hlex]
              simp only [List.append_assoc, List.cons_append]
              rw [produce_start_dot e sg hsg' ds1 hd1,
                scanNum_digits e .int (by decide) _ ds2 _ hd2,
                scanNum_exp e .int (Or.inr rfl) _ c hce sg3 hsg3 ds3 hd3 hne3 rest hstop]
              have hcA : c < 128 := by rcases hce with rfl | rfl <;> decide
              have hg : goString (sg ++ (ds1 ++ 0x2e :: (ds2 ++ c :: (sg3 ++ ds3)))) =
                  sg ++ (ds1 ++ 0x2e :: (ds2 ++ c :: (sg3 ++ ds3))) :=
                goString_ascB (by simp [ascB_append, ascB_cons, ha0, ha1, ha2, hcA, ascB_sign hsg3, ascB_digits hd3])
              simp [hg]
            · simp at h
          · simp at h
      · simp only [if_neg hc] at h
        split at h
        · next hce =>
          split at h
          · next hcond =>
            have hdt' : xsdDouble = dt := by simpa using h
            obtain ⟨sg3, ds3, hr', hsg3, hd3, hne3⟩ := exp_shape r hcond.1 hcond.2.1
            have hne1 : ds1 ≠ [] := by
              intro h0; subst h0; simp at hn1; subst hn1; simp at hcond
            have hlex : lex = sg ++ (ds1 ++ c :: (sg3 ++ ds3)) := by
              rw [← hr', ← hds1]; exact hsg
            refine ⟨.double, hdt', ?_⟩
            rw [hlex]
            simp only [List.append_assoc, List.cons_append]
            rw [produce_start e sg hsg' ds1 hd1 (by simp [hne1]),
              scanNum_exp e .sign (Or.inl rfl) _ c hce sg3 hsg3 ds3 hd3 hne3 rest hstop]
            have hcA : c < 128 := by rcases hce with rfl | rfl <;> decide
            have hg : goString (sg ++ (ds1 ++ c :: (sg3 ++ ds3))) =
                sg ++ (ds1 ++ c :: (sg3 ++ ds3)) :=
              goString_ascB (by simp [ascB_append, ascB_cons, ha0, ha1, hcA, ascB_sign hsg3, ascB_digits hd3])
            simp [hg]
          · simp at h
        · simp at h


theorem asc_true : asc "true" = [0x74, 0x72, 0x75, 0x65] := by decide
theorem asc_false : asc "false" = [0x66, 0x61, 0x6c, 0x73, 0x65] := by decide
theorem asc_rue : asc "rue" = [0x72, 0x75, 0x65] := by decide
theorem asc_alse : asc "alse" = [0x61, 0x6c, 0x73, 0x65] := by decide

theorem bare_dt (lex dt : List Nat) (h : bareLiteralDatatype lex = some dt)
    (hn : ¬(lex = asc "true" ∨ lex = asc "false")) :
    dt = xsdInteger ∨ dt = xsdDecimal ∨ dt = xsdDouble := by
  unfold bareLiteralDatatype at h
  rw [if_neg hn] at h
  generalize spanDigits (dropSign lex) = p at h
  obtain ⟨nInt, r1⟩ := p
  simp only at h
  cases r1 with
  | nil =>
    simp only [Bool.not_false, Bool.true_and, Bool.false_and, Bool.false_eq_true, if_false] at h
    split at h
    · exact Or.inl (by simpa using h.symm)
    · simp at h
  | cons c r =>
    by_cases hc : c = 0x2e
    · subst hc
      simp only [if_true] at h
      generalize spanDigits r = p2 at h
      obtain ⟨nFrac, r2⟩ := p2
      simp only at h
      cases r2 with
      | nil =>
        simp only [Bool.not_true, Bool.false_and, Bool.false_eq_true, if_false, Bool.true_and] at h
        split at h
        · exact Or.inr (Or.inl (by simpa using h.symm))
        · simp at h
      | cons c r' =>
        simp only at h
        split at h
        · split at h
          · exact Or.inr (Or.inr (by simpa using h.symm))
          · simp at h
        · simp at h
    · simp only [if_neg hc] at h
      split at h
      · split at h
        · exact Or.inr (Or.inr (by simpa using h.symm))
        · simp at h
      · simp at h

theorem boolean_shorthand (e : End) (lex : List Nat) (rest : List Nat)
    (h : bareLiteralDatatype lex = some xsdBoolean) :
    (lex = asc "true" ∧ scanBoolean e (lex ++ rest) = .bool true rest) ∨
    (lex = asc "false" ∧ scanBoolean e (lex ++ rest) = .bool false rest) := by
  by_cases hn : lex = asc "true" ∨ lex = asc "false"
  · rcases hn with rfl | rfl
    · left
      refine ⟨rfl, ?_⟩
      rw [asc_true]
      simp [scanBoolean, asc_rue, matchKeyword]
    · right
      refine ⟨rfl, ?_⟩
      rw [asc_false]
      simp [scanBoolean, asc_alse, matchKeyword]
  · rcases bare_dt lex _ h hn with h | h | h
    · exact absurd h (by decide)
    · exact absurd h (by decide)
    · exact absurd h (by decide)

end RdfModel.Proofs.C02Tok
