/-
  RdfModel.Spec.JsonLdFragment — denotational semantics `toRdf` of a fragment of JSON-LD 1.1
  (Deserialize JSON-LD to RDF = Expansion + Object-to-RDF, written as one pass over the document under an
  active context), independent of /repo's implementation and written from the W3C recommendation
  (JSON-LD 1.1 Processing Algorithms and API: §4.1 Context Processing, §4.2 Create Term Definition,
  §5.1 Expansion, §5.2 IRI Expansion, §5.3 Value Expansion, §8 Deserialize JSON-LD to RDF).

  THE FRAGMENT
  * JSON value trees: objects are ordered member lists (member names pairwise distinct, `Json.wf`),
    numbers are split in two classes by whoever parses the text (the JSON text layer is outside the
    model): `int i` = a number without fractional part and of absolute value ≤ 2^53, `dbl lex` = any other
    number, given by the canonical `xsd:double` lexical form of its value.
  * inline contexts (object, array of contexts, `null`): `@base`, `@vocab`, `@language`, `@version` (1.1),
    simple term definitions, expanded term definitions with `@id`, `@type` (`@id`, `@vocab`, a datatype),
    `@container` (`@list`, `@set`, `@language`), `@language`; compact-IRI terms; dependencies between the
    terms of one context.
  * context inheritance: an `@context` member of any node object (top level, embedded, member of `@graph`)
    is processed on top of the active context it inherits (`nodeHead`: `processLocal c cj`), so inherited
    term definitions, `@base`, `@vocab` and the default `@language` stay in force unless overridden
    (`"@language": null` resets the default language; `"@context": null` resets everything);
  * node objects (`@id`, `@type`, properties, embedded `@context`), embedded node objects, value objects
    (`@value`/`@type`/`@language`), list objects and list containers, language maps, `@graph` (default
    graph at the top level, named graphs), native numbers and booleans, blank node identifiers, relative
    IRI references resolved against the base with RFC 3986 §5.2.
  * everything else — remote contexts, `@import`, `@nest`, `@included`, `@reverse`, `@json`, `@index`,
    `@direction`, `@set` objects, scoped/propagated/protected contexts, keyword aliases, terms mapped to
    blank nodes, identifiers that do not expand to an absolute IRI — is OUTSIDE: `toRdf` answers `none`.
  Processing mode is a parameter (`mode11`): in 1.0 every term defined with an `@id` can be used as a
  prefix, in 1.1 only simple terms whose IRI ends in a gen-delim character; `@version` requires 1.1.

  Blank nodes of the result: `BN.orig l` for the identifier `_:l` of the document, `BN.fresh n` for the
  n-th node the processor generates itself (node objects without `@id`, list cells), in document order.
  Core-only, executable, total; the driver runs exactly these definitions.
-/
import RdfModel.Model.Description
import RdfModel.Spec.RFC3986Lite
namespace RdfModel.JL
open RdfModel RdfModel.Desc

abbrev Str := List Nat

/-! ## JSON values -/

inductive Json where
  | null
  | bool (b : Bool)
  | int (i : Int)
  | dbl (lex : Str)
  | str (s : Str)
  | arr (xs : List Json)
  | obj (ms : List (Str × Json))
  deriving Repr, Inhabited

/-- first member with the given name -/
def getKey (k : Str) : List (Str × Json) → Option Json
  | [] => none
  | (k', v) :: ms => if k' = k then some v else getKey k ms

def hasKey (k : Str) (ms : List (Str × Json)) : Bool := ms.any (fun m => m.1 == k)

mutual
/-- member names of every object are pairwise distinct -/
def Json.wf : Json → Bool
  | .arr xs => wfList xs
  | .obj ms => (ms.map (·.1)).Nodup && wfMembers ms
  | _ => true
def wfList : List Json → Bool
  | [] => true
  | x :: xs => x.wf && wfList xs
def wfMembers : List (Str × Json) → Bool
  | [] => true
  | (_, v) :: ms => v.wf && wfMembers ms
end

/-! ## Characters, keywords, IRIs -/

def cAt : Nat := 0x40
def cColon : Nat := 0x3a
def cSlash : Nat := 0x2f
def cUnderscore : Nat := 0x5f

def isAlpha (c : Nat) : Bool := (0x41 ≤ c && c ≤ 0x5a) || (0x61 ≤ c && c ≤ 0x7a)
def isDigit (c : Nat) : Bool := 0x30 ≤ c && c ≤ 0x39

def kId := asc "@id"
def kType := asc "@type"
def kValue := asc "@value"
def kLanguage := asc "@language"
def kList := asc "@list"
def kSet := asc "@set"
def kGraph := asc "@graph"
def kContext := asc "@context"
def kBase := asc "@base"
def kVocab := asc "@vocab"
def kVersion := asc "@version"
def kContainer := asc "@container"

/-- the keywords of JSON-LD 1.1 (§1.7 of the syntax document) -/
def keywords : List Str :=
  [asc "@base", asc "@container", asc "@context", asc "@direction", asc "@graph", asc "@id", asc "@import",
   asc "@included", asc "@index", asc "@json", asc "@language", asc "@list", asc "@nest", asc "@none",
   asc "@prefix", asc "@propagate", asc "@protected", asc "@reverse", asc "@set", asc "@type",
   asc "@value", asc "@version", asc "@vocab"]

def isKeyword (v : Str) : Bool := keywords.contains v

/-- `"@" 1*ALPHA` -/
def isKeywordForm : Str → Bool
  | c :: d :: rest => c == cAt && isAlpha d && rest.all isAlpha
  | _ => false

/-- split at the first colon -/
def splitColon : Str → Option (Str × Str)
  | [] => none
  | c :: cs =>
    if c = cColon then some ([], cs)
    else match splitColon cs with
      | some (p, s) => some (c :: p, s)
      | none => none

/-- "contains a colon anywhere after the first character" -/
def colonAfterFirst (v : Str) : Bool := (v.drop 1).contains cColon

/-- RFC 3986 `scheme = ALPHA *( ALPHA / DIGIT / "+" / "-" / "." )` -/
def isScheme : Str → Bool
  | [] => false
  | c :: cs => isAlpha c && cs.all (fun x => isAlpha x || isDigit x || x == 0x2b || x == 0x2d || x == 0x2e)

/-- characters RDF excludes from IRIs: controls, space, `<>"{}|\^` and backquote -/
def iriCharOK (c : Nat) : Bool :=
  0x20 < c && !([0x3c, 0x3e, 0x22, 0x7b, 0x7d, 0x7c, 0x5c, 0x5e, 0x60].contains c)

/-- an absolute IRI as far as this fragment checks: a scheme, only characters allowed in IRIs, at most one `#` -/
def absIri (v : Str) : Bool :=
  match splitColon v with
  | some (p, _) => isScheme p && v.all iriCharOK && (v.filter (· == 0x23)).length ≤ 1
  | none => false

/-- a language tag of the shape `ALPHA{1,8} ("-" ALNUM{1,8})*` (BCP 47 well-formedness as far as RDF needs it) -/
def subtagsOK : Bool → Nat → Str → Bool
  | _, k, [] => 0 < k
  | first, k, c :: cs =>
    if c = 0x2d then 0 < k && subtagsOK false 0 cs
    else (isAlpha c || (!first && isDigit c)) && k < 8 && subtagsOK first (k + 1) cs

def langOK (l : Str) : Bool := subtagsOK true 0 l

/-- gen-delims of RFC 3986 -/
def endsGenDelim (v : Str) : Bool :=
  match v.getLast? with
  | some c => [0x3a, 0x2f, 0x3f, 0x23, 0x5b, 0x5d, 0x40].contains c
  | none => false

def xsd (s : String) : Str := asc ("http://www.w3.org/2001/XMLSchema#" ++ s)
def xsdBoolean := xsd "boolean"
def xsdInteger := xsd "integer"
def xsdDouble := xsd "double"
def rdfNs (s : String) : Str := asc ("http://www.w3.org/1999/02/22-rdf-syntax-ns#" ++ s)
def rdfType := rdfNs "type"

/-! ## Active context -/

inductive TypeMap where
  | none | id | vocab | dt (iri : Str)
  deriving Repr, DecidableEq, Inhabited

inductive Container where
  | none | list | set | language
  deriving Repr, DecidableEq, Inhabited

/-- term definition: IRI mapping (always an absolute IRI here), prefix flag, type mapping, container
    mapping, language mapping (`none` = absent, `some none` = `null`) -/
structure TermDef where
  iri : Str
  pfx : Bool
  typ : TypeMap
  cont : Container
  lang : Option (Option Str)
  deriving Repr, DecidableEq, Inhabited

/-- the term definition used for a property that is not a term -/
def TermDef.plain : TermDef := { iri := [], pfx := false, typ := .none, cont := .none, lang := none }

structure Ctx where
  mode11 : Bool
  docBase : Option Str
  base : Option Str
  vocab : Option Str
  lang : Option Str
  terms : List (Str × TermDef)
  deriving Repr, Inhabited

def Ctx.initial (mode11 : Bool) (base : Option Str) : Ctx :=
  { mode11, docBase := base, base, vocab := none, lang := none, terms := [] }

def Ctx.term? (c : Ctx) (k : Str) : Option TermDef := c.terms.lookup k

/-! ## IRI expansion (§5.2, without a local context) -/

inductive Exp where
  | null
  | kw (k : Str)
  | iri (v : Str)
  | bnode (label : Str)
  deriving Repr, DecidableEq, Inhabited

/-- steps 7–9: vocabulary, then base, then as is -/
def expandRel (c : Ctx) (vocab docRel : Bool) (v : Str) : Exp :=
  match (if vocab then c.vocab else none) with
  | some V => .iri (V ++ v)
  | none =>
    match (if docRel then c.base else none) with
    | some b => .iri (Spec.RFC3986Lite.resolve b v)
    | none => .iri v

def expandIri (c : Ctx) (vocab docRel : Bool) (v : Str) : Exp :=
  if isKeyword v then .kw v                                        -- 1
  else if isKeywordForm v then .null                               -- 2
  else
    match (if vocab then c.term? v else none) with                 -- 5
    | some td => .iri td.iri
    | none =>
      match (if colonAfterFirst v then splitColon v else none) with -- 6
      | some (p, s) =>
        if p = [cUnderscore] then .bnode s                         -- 6.2
        else if s.take 2 = [cSlash, cSlash] then .iri v
        else
          match c.term? p with                                     -- 6.4
          | some td => if td.pfx then .iri (td.iri ++ s) else
              if isScheme p then .iri v else expandRel c vocab docRel v
          | none => if isScheme p then .iri v else expandRel c vocab docRel v   -- 6.5
      | none => expandRel c vocab docRel v

/-! ## Context processing (§4.1) and term definitions (§4.2) -/

structure DSt where
  ctx : Ctx
  defined : List (Str × Bool)

def jstr? : Json → Option Str
  | .str s => some s
  | _ => none

/-- the parts of a term definition value: (`@id`, `@type`, `@container`, `@language`, simple) -/
structure RawDef where
  id : Option Str
  typ : Option Str
  cont : Option Str
  lang : Option (Option Str)
  simple : Bool

def parseDef : Json → Option RawDef
  | .str s => some { id := some s, typ := none, cont := none, lang := none, simple := true }
  | .obj ms =>
    if ms.all (fun m => [kId, kType, kContainer, kLanguage].contains m.1) then
      let str? (k : Str) : Option (Option Str) :=
        match getKey k ms with
        | none => some none
        | some (.str s) => some (some s)
        | some _ => none
      match str? kId, str? kType, str? kContainer with
      | some id, some typ, some cont =>
        match getKey kLanguage ms with
        | none => some { id, typ, cont, lang := none, simple := false }
        | some .null => some { id, typ, cont, lang := some none, simple := false }
        | some (.str l) => if langOK l then some { id, typ, cont, lang := some (some l), simple := false } else none
        | some _ => none
      | _, _, _ => none
    else none
  | _ => none

def parseContainer : Option Str → Option Container
  | none => some .none
  | some s =>
    if s = kList then some .list
    else if s = kSet then some .set
    else if s = kLanguage then some .language
    else none

/-- Create Term Definition for `term` of the local context `loc`; `fuel` bounds the dependency depth.
    `none` = error or outside the fragment. -/
def defineTerm : Nat → List (Str × Json) → DSt → Str → Option DSt
  | 0, _, _, _ => none
  | fuel + 1, loc, st, term =>
    match st.defined.lookup term with
    | some true => some st
    | some false => none                          -- cyclic IRI mapping
    | none =>
      if term = [] || isKeyword term || isKeywordForm term || term.contains cSlash then none else
      match (getKey term loc).bind parseDef with
      | none => none
      | some raw =>
        -- dependencies: a string that is itself a term of `loc`, or whose prefix is one, is defined first
        let ensure (st : DSt) (s : Str) : Option DSt :=
          let st1 := if hasKey s loc then defineTerm fuel loc st s else some st
          st1.bind fun st1 =>
            match (if colonAfterFirst s then splitColon s else none) with
            | some (p, suf) =>
              if p ≠ [cUnderscore] && suf.take 2 ≠ [cSlash, cSlash] && hasKey p loc then defineTerm fuel loc st1 p
              else some st1
            | none => some st1
        let st0 : DSt := { ctx := { st.ctx with terms := st.ctx.terms.filter (fun e => e.1 != term) },
                           defined := (term, false) :: st.defined }
        -- 12: type mapping
        let typR : Option (DSt × TypeMap) :=
          match raw.typ with
          | none => some (st0, .none)
          | some t =>
            (ensure st0 t).bind fun st1 =>
              match expandIri st1.ctx true false t with
              | .kw k => if k = kId then some (st1, .id) else if k = kVocab then some (st1, .vocab) else none
              | .iri d => if absIri d then some (st1, .dt d) else none
              | _ => none
        typR.bind fun (st1, typ) =>
        let inner := (term.drop 1).dropLast.contains cColon
        -- 14–18: IRI mapping and prefix flag
        let iriR : Option (DSt × Str × Bool) :=
          match (if raw.id = some term then none else raw.id) with
          | some i =>
            if isKeywordForm i then none else
            (ensure st1 i).bind fun st2 =>
              match expandIri st2.ctx true false i with
              | .iri m =>
                if !absIri m then none
                else if inner then
                  -- 14.2.4: a compact-IRI term must expand to its own mapping
                  let st3 : DSt := { st2 with defined := (term, true) :: st2.defined }
                  (ensure st3 term).bind fun st4 =>
                    if expandIri st4.ctx false false term = .iri m then some (st4, m, !st4.ctx.mode11) else none
                else some (st2, m, !st2.ctx.mode11 || (raw.simple && endsGenDelim m))
              | _ => none
          | none =>
            if colonAfterFirst term then
              match splitColon term with
              | some (p, suf) =>
                let st2 := if hasKey p loc then defineTerm fuel loc st1 p else some st1
                st2.bind fun st2 =>
                  match st2.ctx.term? p with
                  | some tdp => some (st2, tdp.iri ++ suf, false)
                  | none => if absIri term then some (st2, term, false) else none
              | none => none
            else
              match st1.ctx.vocab with
              | some V => some (st1, V ++ term, false)
              | none => none
        iriR.bind fun (st2, m, pfx) =>
        (parseContainer raw.cont).bind fun cont =>
          let td : TermDef := { iri := m, pfx, typ, cont, lang := raw.lang }
          some { ctx := { st2.ctx with terms := (term, td) :: st2.ctx.terms.filter (fun e => e.1 != term) },
                 defined := (term, true) :: st2.defined }

/-- the canonical lexical form of the number 1.1 -/
def lex11 : Str := asc "1.1E0"

/-- one context object -/
def processCtxObj (c : Ctx) (ms : List (Str × Json)) : Option Ctx :=
  if !(ms.all fun m => m.1.head? ≠ some cAt || [kBase, kVocab, kLanguage, kVersion].contains m.1) then none else
  let verOK : Bool :=
    match getKey kVersion ms with
    | none => true
    | some (.dbl l) => l == lex11 && c.mode11
    | some _ => false
  if !verOK then none else
  let baseR : Option (Option Str) :=
    match getKey kBase ms with
    | none => some c.base
    | some .null => some none
    | some (.str s) =>
      if absIri s then some (some s)
      else match c.base with
        | some b => if absIri (Spec.RFC3986Lite.resolve b s) then some (some (Spec.RFC3986Lite.resolve b s)) else none
        | none => none
    | some _ => none
  baseR.bind fun base =>
  let c1 : Ctx := { c with base }
  let vocabR : Option (Option Str) :=
    match getKey kVocab ms with
    | none => some c1.vocab
    | some .null => some none
    | some (.str s) =>
      if !c1.mode11 && !absIri s then none else
      match expandIri c1 true true s with
      | .iri v => if absIri v then some (some v) else none
      | _ => none
    | some _ => none
  vocabR.bind fun vocab =>
  let langR : Option (Option Str) :=
    match getKey kLanguage ms with
    | none => some c1.lang
    | some .null => some none
    | some (.str s) => if langOK s then some (some s) else none
    | some _ => none
  langR.bind fun lang =>
  let c2 : Ctx := { c1 with vocab, lang }
  let terms := (ms.filter fun m => m.1.head? ≠ some cAt).map (·.1)
  (terms.foldl (fun st t => st.bind fun st => defineTerm (ms.length + 1) ms st t)
      (some ({ ctx := c2, defined := [] } : DSt))).map (·.ctx)

/-- a local context: `null`, a context object, or an array of those -/
def processLocal (c : Ctx) : Json → Option Ctx
  | .null => some (Ctx.initial c.mode11 c.docBase)
  | .obj ms => processCtxObj c ms
  | .arr xs =>
    xs.foldl (fun c x => c.bind fun c =>
      match x with
      | .null => some (Ctx.initial c.mode11 c.docBase)
      | .obj ms => processCtxObj c ms
      | _ => none) (some c)
  | _ => none

/-! ## Literals from native values (§8.6 Data Round Tripping) -/

def digitsAux : Nat → Nat → List Nat → List Nat
  | 0, _, acc => acc
  | fuel + 1, n, acc => if n < 10 then (0x30 + n) :: acc else digitsAux fuel (n / 10) ((0x30 + n % 10) :: acc)

/-- decimal digits of a natural number -/
def natDigits (n : Nat) : Str := digitsAux (n + 1) n []

/-- canonical `xsd:integer` lexical form -/
def intLex (i : Int) : Str :=
  match i with
  | .ofNat n => natDigits n
  | .negSucc n => 0x2d :: natDigits (n + 1)

def dropTrailingZeros (ds : Str) : Str := (ds.reverse.dropWhile (· == 0x30)).reverse

/-- canonical `xsd:double` lexical form of an integer of absolute value ≤ 2^53 (exactly representable) -/
def intDoubleLex (i : Int) : Str :=
  let ds := natDigits i.natAbs
  let sign : Str := if i < 0 then [0x2d] else []
  match ds with
  | [] => asc "0.0E0"
  | d :: rest =>
    let frac := dropTrailingZeros rest
    sign ++ [d, 0x2e] ++ (if frac = [] then [0x30] else frac) ++ [0x45] ++ natDigits rest.length

abbrev B := BN Str
abbrev T := Term B
abbrev Q := DQuad B

def maxSafe : Nat := 9007199254740992

/-- the literal for a native JSON value with an optional explicit datatype -/
def nativeLit (j : Json) (dt : Option Str) : Option T :=
  match j with
  | .bool b => some (.lit (if b then asc "true" else asc "false") (dt.getD xsdBoolean) none)
  | .int i =>
    if i.natAbs > maxSafe then none
    else if dt = some xsdDouble then some (.lit (intDoubleLex i) xsdDouble none)
    else some (.lit (intLex i) (dt.getD xsdInteger) none)
  | .dbl l => some (.lit l (dt.getD xsdDouble) none)
  | _ => none

/-! ## Values -/

/-- a node reference from an expanded identifier; only absolute IRIs and blank node identifiers -/
def nodeRef : Exp → Option T
  | .iri v => if absIri v then some (.iri v) else none
  | .bnode l => if l = [] then none else some (.bnode (.orig l))   -- `_:` alone is not an identifier
  | _ => none

/-- §5.3 Value Expansion of a scalar under the term definition of the active property, then §8 -/
def evalScalar (c : Ctx) (td : TermDef) (j : Json) : Option T :=
  match j with
  | .str x =>
    match td.typ with
    | .id => nodeRef (expandIri c false true x)
    | .vocab => nodeRef (expandIri c true true x)
    | .dt d => some (.lit x d none)
    | .none =>
      match (match td.lang with | some l => l | none => c.lang) with
      | some l => some (.lit x rdfLangString (some l))
      | none => some (.lit x xsdString none)
  | _ =>
    match td.typ with
    | .dt d => nativeLit j (some d)
    | _ => nativeLit j none

/-- a value object; `some none` = `@value` is `null` (no triple) -/
def evalValueObj (c : Ctx) (ms : List (Str × Json)) : Option (Option T) :=
  if !(ms.all fun m => [kValue, kType, kLanguage].contains m.1) then none else
  match getKey kValue ms with
  | none => none
  | some v =>
    match getKey kType ms with
    | some (.str t) =>
      if hasKey kLanguage ms then none else
      match expandIri c true true t with
      | .iri d =>
        if !absIri d then none else
        match v with
        | .null => some none
        | .str x => some (some (.lit x d none))
        | .arr _ => none
        | .obj _ => none
        | _ => (nativeLit v (some d)).map some
      | _ => none
    | some _ => none
    | none =>
      match getKey kLanguage ms with
      | some (.str l) =>
        if !langOK l then none else
        match v with
        | .null => some none
        | .str x => some (some (.lit x rdfLangString (some l)))
        | _ => none
      | some _ => none
      | none =>
        match v with
        | .null => some none
        | .str x => some (some (.lit x xsdString none))
        | .arr _ => none
        | .obj _ => none
        | _ => (nativeLit v none).map some

def quad (s : T) (p : Str) (o : T) (g : Option T) : Q := ⟨⟨s, p, o⟩, g⟩

/-- values of `@type` -/
def evalTypes (c : Ctx) (v : Json) : Option (List T) :=
  let one (x : Json) : Option T :=
    match x with
    | .str t => nodeRef (expandIri c true true t)
    | _ => none
  match v with
  | .arr xs => mapOpt one xs
  | x => (one x).map fun t => [t]

/-- the subject of a node object: its `@id`, or a fresh blank node -/
def evalId (c : Ctx) (id : Option Json) (n : Nat) : Option (T × Nat) :=
  match id with
  | none => some (.bnode (.fresh n), n + 1)
  | some (.str x) => (nodeRef (expandIri c false true x)).map fun t => (t, n)
  | some _ => none

/-- a language map: member names are the tags, values strings or arrays of strings (`null` skipped) -/
def evalLangMap (s : T) (p : Str) (g : Option T) (ms : List (Str × Json)) : Option (List Q) :=
  (mapOpt (fun (m : Str × Json) =>
    if !langOK m.1 then none else
    match m.2 with
    | .null => some []
    | .str x => some [quad s p (.lit x rdfLangString (some m.1)) g]
    | .arr xs => (mapOpt (fun (x : Json) =>
        match x with
        | .null => some []
        | .str y => some [quad s p (.lit y rdfLangString (some m.1)) g]
        | _ => none) xs).map List.flatten
    | _ => none) ms).map List.flatten

/-- how a member name of a node object is interpreted -/
inductive KeyClass where
  | context | id | type | graph
  | prop (p : Str) (td : TermDef)
  | ignored          -- does not expand to an IRI: the member is dropped
  | outside
  deriving Repr, DecidableEq

def classifyKey (c : Ctx) (k : Str) : KeyClass :=
  if k = kContext then .context
  else if k = kId then .id
  else if k = kType then .type
  else if k = kGraph then .graph
  else if isKeyword k || isKeywordForm k then .outside
  else
    match expandIri c true false k with
    | .iri p =>
      if !p.contains cColon then .ignored
      else if absIri p then .prop p ((c.term? k).getD TermDef.plain)
      else .outside
    | _ => .outside

/-! ## Node objects -/

/-- The head of a node object with members `ms`: its embedded context is processed, its subject is
    determined (`@id` or a fresh blank node). `top` = the object is the document itself; the last
    component says that it holds the default graph (nothing but `@context` and `@graph`). -/
def nodeHead (c : Ctx) (top : Bool) (ms : List (Str × Json)) (n : Nat) : Option (Ctx × T × Nat × Bool) :=
  match (match getKey kContext ms with
         | some cj => processLocal c cj
         | none => some c) with
  | none => none
  | some c' =>
    match evalId c' (getKey kId ms) n with
    | none => none
    | some (s, n1) =>
      -- "the expanded output is a map that contains only an @graph entry": besides `@context` and
      -- `@graph` only members that expansion drops (name not an IRI, or value `null`)
      some (c', s, n1, top && ms.all (fun m =>
        m.1 == kContext || m.1 == kGraph ||
        (match m.2 with | .null => true | _ => false) ||
        (match classifyKey c' m.1 with | .ignored => true | _ => false)))

/-- items of a list must be present (lists from which expansion would drop an item are outside the
    fragment); in processing mode 1.0 they must not be lists themselves -/
def listItemOK (c : Ctx) : Json → Bool
  | .null => false
  | .arr _ => false
  | .obj ms =>
    (c.mode11 || !hasKey kList ms) &&
    -- a value object whose value is `null` expands to `null` and would be dropped from the list
    (match getKey kValue ms with
     | some .null => false
     | _ => true)
  | _ => true

/-- a one-element list whose item produced `r` with subject `fresh n` -/
def list1Wrap (s : T) (p : Str) (g : Option T) (n : Nat) (r : Option (List Q × Nat)) : Option (List Q × Nat) :=
  match r with
  | none => none
  | some (qs, n1) =>
    some (quad s p (.bnode (.fresh n)) g :: qs ++ [quad (.bnode (.fresh n)) rdfRest (.iri rdfNil) g], n1)

/-- sequencing of two evaluations -/
def andThen (r : Option (List Q × Nat)) (f : Nat → Option (List Q × Nat)) : Option (List Q × Nat) :=
  match r with
  | none => none
  | some (q1, n1) =>
    match f n1 with
    | none => none
    | some (q2, n2) => some (q1 ++ q2, n2)

/-- the quads of `@type` -/
def typeQuads (c : Ctx) (g : Option T) (s : T) (v : Json) (n : Nat) : Option (List Q × Nat) :=
  (evalTypes c v).map fun ts => (ts.map fun t => quad s rdfType t g, n)

/-- a value object as a value of `p` -/
def valueObjQuads (c : Ctx) (g : Option T) (s : T) (p : Str) (ms : List (Str × Json)) (n : Nat) : Option (List Q × Nat) :=
  (evalValueObj c ms).map fun
    | some o => ([quad s p o g], n)
    | none => ([], n)

mutual
/-- the members of a node object with subject `s`, evaluated in graph `g` under the context `c`
    (already updated by the object's own `@context`) -/
def evalMembers (c : Ctx) (g : Option T) (s : T) (dflt : Bool) : List (Str × Json) → Nat → Option (List Q × Nat)
  | [], n => some ([], n)
  | (k, .arr xs) :: ms, n =>
    andThen
      (match classifyKey c k with
       | .context => some ([], n)
       | .id => some ([], n)
       | .type => typeQuads c g s (.arr xs) n
       | .graph => evalNodes c (if dflt then g else some s) xs n
       | .prop p td => if td.cont = .list then evalList c td g s p xs n else evalItems c td g s p xs n
       | .ignored => some ([], n)
       | .outside => none)
      (fun n1 => evalMembers c g s dflt ms n1)
  | (k, .obj ms') :: ms, n =>
    andThen
      (match classifyKey c k with
       | .context => some ([], n)
       | .id => some ([], n)
       | .type => typeQuads c g s (.obj ms') n
       | .graph =>
         match nodeHead c false ms' n with
         | none => none
         | some (c', s', n1, _) => evalMembers c' (if dflt then g else some s) s' false ms' n1
       | .prop p td =>
         if td.cont = .language then (evalLangMap s p g ms').map fun qs => (qs, n)
         else if td.cont = .list && !hasKey kList ms' then
           -- a single value object whose value is `null` would be dropped by expansion (no list at all): outside
           if listItemOK c (.obj ms') then
             list1Wrap s p g n (evalItem c td g (.bnode (.fresh n)) rdfFirst (.obj ms') (n + 1))
           else none
         else evalItem c td g s p (.obj ms') n
       | .ignored => some ([], n)
       | .outside => none)
      (fun n1 => evalMembers c g s dflt ms n1)
  | (k, x) :: ms, n =>
    andThen
      (match classifyKey c k with
       | .context => some ([], n)
       | .id => some ([], n)
       | .type => typeQuads c g s x n
       | .graph => none
       | .prop p td =>
         if td.cont = .list then
           if listItemOK c x then list1Wrap s p g n (evalItem c td g (.bnode (.fresh n)) rdfFirst x (n + 1)) else none
         else evalItem c td g s p x n
       | .ignored => some ([], n)
       | .outside => none)
      (fun n1 => evalMembers c g s dflt ms n1)

/-- the node objects of an array (top level, `@graph`) -/
def evalNodes (c : Ctx) (g : Option T) : List Json → Nat → Option (List Q × Nat)
  | [], n => some ([], n)
  | .obj ms :: rest, n =>
    andThen
      (match nodeHead c false ms n with
       | none => none
       | some (c', s, n0, _) => evalMembers c' g s false ms n0)
      (fun n1 => evalNodes c g rest n1)
  | _ :: _, _ => none

def evalItems (c : Ctx) (td : TermDef) (g : Option T) (s : T) (p : Str) : List Json → Nat → Option (List Q × Nat)
  | [], n => some ([], n)
  | x :: xs, n => andThen (evalItem c td g s p x n) (fun n1 => evalItems c td g s p xs n1)

/-- one value of property `p` of subject `s`: `null`, a scalar, a value object, a list object, a node
    object (embedded or a reference) -/
def evalItem (c : Ctx) (td : TermDef) (g : Option T) (s : T) (p : Str) : Json → Nat → Option (List Q × Nat)
  | .null, n => some ([], n)
  | .arr _, _ => none
  | .obj [(k, .arr xs)], n =>
    if k = kValue then none
    else if k = kList then evalList c td g s p xs n
    else if k = kSet then none
    else
      match nodeHead c false [(k, .arr xs)] n with
      | none => none
      | some (c', o, n0, _) =>
        andThen (evalMembers c' g o false [(k, .arr xs)] n0) (fun n1 => some ([quad s p o g], n1))
  | .obj [(k, x)], n =>
    if k = kValue then valueObjQuads c g s p [(k, x)] n
    else if k = kList then
      (if listItemOK c x then list1Wrap s p g n (evalItem c td g (.bnode (.fresh n)) rdfFirst x (n + 1)) else none)
    else if k = kSet then none
    else
      match nodeHead c false [(k, x)] n with
      | none => none
      | some (c', o, n0, _) =>
        andThen (evalMembers c' g o false [(k, x)] n0) (fun n1 => some ([quad s p o g], n1))
  | .obj ms, n =>
    if hasKey kValue ms then valueObjQuads c g s p ms n
    else if hasKey kList ms then none
    else if hasKey kSet ms then none
    else
      match nodeHead c false ms n with
      | none => none
      | some (c', o, n0, _) =>
        andThen (evalMembers c' g o false ms n0) (fun n1 => some ([quad s p o g], n1))
  | x, n => (evalScalar c td x).map fun o => ([quad s p o g], n)

/-- an RDF list with items `xs` as the value of `p` -/
def evalList (c : Ctx) (td : TermDef) (g : Option T) (s : T) (p : Str) : List Json → Nat → Option (List Q × Nat)
  | [], n => some ([quad s p (.iri rdfNil) g], n)
  | x :: xs, n =>
    if !listItemOK c x then none else
    match evalItem c td g (.bnode (.fresh n)) rdfFirst x (n + 1) with
    | none => none
    | some (q1, n1) =>
      match evalCells c td g (.bnode (.fresh n)) xs n1 with
      | none => none
      | some (q2, n2) => some (quad s p (.bnode (.fresh n)) g :: q1 ++ q2, n2)

/-- the rest of a list after the cell `cell` -/
def evalCells (c : Ctx) (td : TermDef) (g : Option T) (cell : T) : List Json → Nat → Option (List Q × Nat)
  | [], n => some ([quad cell rdfRest (.iri rdfNil) g], n)
  | x :: xs, n =>
    if !listItemOK c x then none else
    match evalItem c td g (.bnode (.fresh n)) rdfFirst x (n + 1) with
    | none => none
    | some (q1, n1) =>
      match evalCells c td g (.bnode (.fresh n)) xs n1 with
      | none => none
      | some (q2, n2) => some (quad cell rdfRest (.bnode (.fresh n)) g :: q1 ++ q2, n2)
end

/-- a node object: subject, quads, counter -/
def evalNode (c : Ctx) (g : Option T) (top : Bool) (ms : List (Str × Json)) (n : Nat) : Option (T × List Q × Nat) :=
  match nodeHead c top ms n with
  | none => none
  | some (c', s, n1, dflt) =>
    match evalMembers c' g s dflt ms n1 with
    | none => none
    | some (qs, n2) => some (s, qs, n2)

/-! ## Documents -/

/-- Deserialize JSON-LD to RDF for the fragment; `none` = outside the fragment (or an error). -/
def toRdf (mode11 : Bool) (base : Option Str) (doc : Json) : Option (List Q) :=
  if !doc.wf then none else
  match doc with
  | .arr xs => (evalNodes (Ctx.initial mode11 base) none xs 0).map (·.1)
  | .obj ms => (evalNode (Ctx.initial mode11 base) none true ms 0).map (·.2.1)
  | _ => none

end RdfModel.JL
