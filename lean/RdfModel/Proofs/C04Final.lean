import RdfModel.Proofs.C04Refine
import RdfModel.Proofs.C03FirstDegree
namespace RdfModel.Proofs.C04
open RdfModel RdfModel.Proofs.StrOrd RdfModel.C04

set_option linter.unusedSectionVars false

variable {β : Type} [DecidableEq β]

/-! ### step 7 -/

theorem encodeLine_known (T : NQ.Tables) (henc : EncOK T) {cm : Rdfcanon.Issuer β} {cs : Spec.RDFC10.Issuer β}
    (hc : CRel cm cs) (q : Quad β) (idx : Nat) (hwf : WFQuad T q)
    (hk : ∀ b ∈ Spec.RDFC10.quadBnodes q, (cs.get? b).isSome) :
    Rdfcanon.encodeLine cm (cquadOf T q idx)
      = (⟨idx, Spec.RDFC10.nquad (fun b => (cs.get? b).getD []) q⟩, cm) := by
  have hget : ∀ b ∈ Spec.RDFC10.quadBnodes q, cm.get b = ((cs.get? b).getD [], cm) := by
    intro b hb
    obtain ⟨id, hid⟩ := Option.isSome_iff_exists.mp (hk b hb)
    rw [hc.get_known b id hid, hid]; rfl
  obtain ⟨s, p, o, g⟩ := q
  obtain ⟨hs, hp, ho, hg⟩ := hwf
  cases p with
  | bnode _ => exact absurd hp (by simp [WFPredicate])
  | lit _ _ _ => exact absurd hp (by simp [WFPredicate])
  | iri pv =>
    have hpv := henc.iri pv hp
    rw [nquad_eq]
    cases s with
    | lit _ _ _ => exact absurd hs (by simp [WFNode])
    | iri sv =>
      have hsv := henc.iri sv hs
      cases o with
      | iri ov =>
        have hov := henc.iri ov ho
        cases g with
        | none => simp [Rdfcanon.encodeLine, cquadOf, hsv, hpv, hov, specG, Spec.RDFC10.term, Spec.RDFC10.iriRef, Rdfcanon.sp, Rdfcanon.eol]
        | some g =>
          cases g with
          | lit _ _ _ => exact absurd (hg _ rfl) (by simp [WFNode])
          | iri gv =>
            have hgv := henc.iri gv (hg _ rfl)
            simp [Rdfcanon.encodeLine, cquadOf, hsv, hpv, hov, hgv, specG, Spec.RDFC10.term, Spec.RDFC10.iriRef, Rdfcanon.sp, Rdfcanon.eol]
          | bnode gb =>
            have h1 := hget gb (by simp [Spec.RDFC10.quadBnodes, Spec.RDFC10.bnodeOf])
            simp [Rdfcanon.encodeLine, cquadOf, hsv, hpv, hov, h1, specG, Spec.RDFC10.term, Spec.RDFC10.iriRef, Rdfcanon.sp, Rdfcanon.eol]
      | lit l d t =>
        have hov := henc.lit l d t ho
        have hne := literal_ne_nil l d t
        cases g with
        | none => simp [Rdfcanon.encodeLine, cquadOf, hsv, hpv, hov, hne, specG, Spec.RDFC10.term, Spec.RDFC10.iriRef, Rdfcanon.sp, Rdfcanon.eol]
        | some g =>
          cases g with
          | lit _ _ _ => exact absurd (hg _ rfl) (by simp [WFNode])
          | iri gv =>
            have hgv := henc.iri gv (hg _ rfl)
            simp [Rdfcanon.encodeLine, cquadOf, hsv, hpv, hov, hne, hgv, specG, Spec.RDFC10.term, Spec.RDFC10.iriRef, Rdfcanon.sp, Rdfcanon.eol]
          | bnode gb =>
            have h1 := hget gb (by simp [Spec.RDFC10.quadBnodes, Spec.RDFC10.bnodeOf])
            simp [Rdfcanon.encodeLine, cquadOf, hsv, hpv, hov, hne, h1, specG, Spec.RDFC10.term, Spec.RDFC10.iriRef, Rdfcanon.sp, Rdfcanon.eol]
      | bnode ob =>
        have h2 := hget ob (by simp [Spec.RDFC10.quadBnodes, Spec.RDFC10.bnodeOf])
        cases g with
        | none => simp [Rdfcanon.encodeLine, cquadOf, hsv, hpv, h2, specG, Spec.RDFC10.term, Spec.RDFC10.iriRef, Rdfcanon.sp, Rdfcanon.eol]
        | some g =>
          cases g with
          | lit _ _ _ => exact absurd (hg _ rfl) (by simp [WFNode])
          | iri gv =>
            have hgv := henc.iri gv (hg _ rfl)
            simp [Rdfcanon.encodeLine, cquadOf, hsv, hpv, h2, hgv, specG, Spec.RDFC10.term, Spec.RDFC10.iriRef, Rdfcanon.sp, Rdfcanon.eol]
          | bnode gb =>
            have h1 := hget gb (by simp [Spec.RDFC10.quadBnodes, Spec.RDFC10.bnodeOf])
            simp [Rdfcanon.encodeLine, cquadOf, hsv, hpv, h2, h1, specG, Spec.RDFC10.term, Spec.RDFC10.iriRef, Rdfcanon.sp, Rdfcanon.eol]
    | bnode sb =>
      have h3 := hget sb (by simp [Spec.RDFC10.quadBnodes, Spec.RDFC10.bnodeOf])
      cases o with
      | iri ov =>
        have hov := henc.iri ov ho
        cases g with
        | none => simp [Rdfcanon.encodeLine, cquadOf, h3, hpv, hov, specG, Spec.RDFC10.term, Spec.RDFC10.iriRef, Rdfcanon.sp, Rdfcanon.eol]
        | some g =>
          cases g with
          | lit _ _ _ => exact absurd (hg _ rfl) (by simp [WFNode])
          | iri gv =>
            have hgv := henc.iri gv (hg _ rfl)
            simp [Rdfcanon.encodeLine, cquadOf, h3, hpv, hov, hgv, specG, Spec.RDFC10.term, Spec.RDFC10.iriRef, Rdfcanon.sp, Rdfcanon.eol]
          | bnode gb =>
            have h1 := hget gb (by simp [Spec.RDFC10.quadBnodes, Spec.RDFC10.bnodeOf])
            simp [Rdfcanon.encodeLine, cquadOf, h3, hpv, hov, h1, specG, Spec.RDFC10.term, Spec.RDFC10.iriRef, Rdfcanon.sp, Rdfcanon.eol]
      | lit l d t =>
        have hov := henc.lit l d t ho
        have hne := literal_ne_nil l d t
        cases g with
        | none => simp [Rdfcanon.encodeLine, cquadOf, h3, hpv, hov, hne, specG, Spec.RDFC10.term, Spec.RDFC10.iriRef, Rdfcanon.sp, Rdfcanon.eol]
        | some g =>
          cases g with
          | lit _ _ _ => exact absurd (hg _ rfl) (by simp [WFNode])
          | iri gv =>
            have hgv := henc.iri gv (hg _ rfl)
            simp [Rdfcanon.encodeLine, cquadOf, h3, hpv, hov, hne, hgv, specG, Spec.RDFC10.term, Spec.RDFC10.iriRef, Rdfcanon.sp, Rdfcanon.eol]
          | bnode gb =>
            have h1 := hget gb (by simp [Spec.RDFC10.quadBnodes, Spec.RDFC10.bnodeOf])
            simp [Rdfcanon.encodeLine, cquadOf, h3, hpv, hov, hne, h1, specG, Spec.RDFC10.term, Spec.RDFC10.iriRef, Rdfcanon.sp, Rdfcanon.eol]
      | bnode ob =>
        have h2 := hget ob (by simp [Spec.RDFC10.quadBnodes, Spec.RDFC10.bnodeOf])
        cases g with
        | none => simp [Rdfcanon.encodeLine, cquadOf, h3, hpv, h2, specG, Spec.RDFC10.term, Spec.RDFC10.iriRef, Rdfcanon.sp, Rdfcanon.eol]
        | some g =>
          cases g with
          | lit _ _ _ => exact absurd (hg _ rfl) (by simp [WFNode])
          | iri gv =>
            have hgv := henc.iri gv (hg _ rfl)
            simp [Rdfcanon.encodeLine, cquadOf, h3, hpv, h2, hgv, specG, Spec.RDFC10.term, Spec.RDFC10.iriRef, Rdfcanon.sp, Rdfcanon.eol]
          | bnode gb =>
            have h1 := hget gb (by simp [Spec.RDFC10.quadBnodes, Spec.RDFC10.bnodeOf])
            simp [Rdfcanon.encodeLine, cquadOf, h3, hpv, h2, h1, specG, Spec.RDFC10.term, Spec.RDFC10.iriRef, Rdfcanon.sp, Rdfcanon.eol]

/-- The lines of step 7 before sorting, numbered from `idx`. -/
def lineList (lab : β → Str) : List (Quad β) → Nat → List Rdfcanon.Line
  | [], _ => []
  | q :: rest, idx => ⟨idx, Spec.RDFC10.nquad lab q⟩ :: lineList lab rest (idx + 1)

theorem lineList_encoded (lab : β → Str) : ∀ (qs : List (Quad β)) (idx : Nat),
    (lineList lab qs idx).map (·.encoded) = qs.map (Spec.RDFC10.nquad lab)
  | [], _ => rfl
  | q :: rest, idx => by simp [lineList, lineList_encoded lab rest (idx + 1)]

theorem encodeAll_cquads (T : NQ.Tables) (henc : EncOK T) {cm : Rdfcanon.Issuer β} {cs : Spec.RDFC10.Issuer β}
    (hc : CRel cm cs) : ∀ (qs : List (Quad β)) (idx : Nat), (∀ q ∈ qs, WFQuad T q) →
    (∀ q ∈ qs, ∀ b ∈ Spec.RDFC10.quadBnodes q, (cs.get? b).isSome) →
    Rdfcanon.encodeAll (cquads T qs idx) cm = (lineList (fun b => (cs.get? b).getD []) qs idx, cm)
  | [], _, _, _ => rfl
  | q :: rest, idx, hwf, hk => by
    simp only [cquads, Rdfcanon.encodeAll, lineList]
    rw [encodeLine_known T henc hc q idx (hwf q (by simp)) (hk q (by simp))]
    simp only
    rw [encodeAll_cquads T henc hc rest (idx + 1) (fun q' h => hwf q' (by simp [h])) (fun q' h => hk q' (by simp [h]))]

/-! ### steps 3 and 4 -/

/-- Step 4, one entry, specification. -/
def step4S (c : Spec.RDFC10.Issuer β) (e : Str × List β) : Spec.RDFC10.Issuer β :=
  match e.2 with
  | [n] => (c.issue n).2
  | _ => c

/-- Step 4, one entry, Go. -/
def step4M (c : Rdfcanon.Issuer β) (e : Str × List β) : Rdfcanon.Issuer β :=
  if e.2.length > 1 then c else
    match e.2 with
    | n :: _ => (c.get n).2
    | [] => c

theorem step4_one {cm : Rdfcanon.Issuer β} {cs : Spec.RDFC10.Issuer β} (hc : CRel cm cs) (e : Str × List β) :
    CRel (step4M cm e) (step4S cs e) := by
  obtain ⟨k, l⟩ := e
  cases l with
  | nil => simpa [step4M, step4S] using hc
  | cons n l' =>
    cases l' with
    | nil => simpa [step4M, step4S] using (hc.get n).2
    | cons m l'' => simpa [step4M, step4S] using hc

theorem step4_rel : ∀ (sorted : List (Str × List β)) (cm : Rdfcanon.Issuer β) (cs : Spec.RDFC10.Issuer β),
    CRel cm cs → CRel (sorted.foldl step4M cm) (sorted.foldl step4S cs)
  | [], _, _, hc => hc
  | e :: rest, cm, cs, hc => by
    simp only [List.foldl_cons]
    exact step4_rel rest _ _ (step4_one hc e)

theorem step4S_sub (cs : Spec.RDFC10.Issuer β) (e : Str × List β) : Sub cs (step4S cs e) := by
  obtain ⟨k, l⟩ := e
  cases l with
  | nil => exact Sub.refl cs
  | cons n l' => cases l' with
    | nil => exact issue_sub cs n
    | cons _ _ => exact Sub.refl cs

theorem step4_sub (sorted : List (Str × List β)) (cs : Spec.RDFC10.Issuer β) :
    Sub cs (sorted.foldl step4S cs) ∧
    ∀ e ∈ sorted, ∀ n, e.2 = [n] → ((sorted.foldl step4S cs).get? n).isSome := by
  induction sorted generalizing cs with
  | nil => exact ⟨Sub.refl cs, by simp⟩
  | cons e rest ih =>
    simp only [List.foldl_cons]
    obtain ⟨ih1, ih2⟩ := ih (step4S cs e)
    refine ⟨(step4S_sub cs e).trans ih1, ?_⟩
    intro e' he n hn
    simp only [List.mem_cons] at he
    rcases he with he | he
    · subst he
      apply ih1 n
      obtain ⟨k, l⟩ := e'
      simp only at hn
      subst hn
      simp only [step4S]
      exact issue_knows cs n
    · exact ih2 e' he n hn

/-! ### the algorithm as a whole -/

def h2bM (H : Str → Str) (ord : List β → List β) (mb : List (β × List (Rdfcanon.CQuad β))) : List (Str × List β) :=
  (ord (mb.map (·.1))).foldl (fun m n => addToMap m (Rdfcanon.hashFirstDegree H mb n) n) []

def h2bS (H : Str → Str) (ord : List β → List β) (sb : Spec.RDFC10.B2Q β) : List (Str × List β) :=
  (ord (sb.map (·.1))).foldl (fun m n => addToMap m (Spec.RDFC10.hashFirstDegree H sb n) n) []

theorem canon_unfold (T : NQ.Tables) (H : Str → Str) (lim : Rdfcanon.Limits) (ord : List β → List β)
    (qs : List (Quad β)) (st : Rdfcanon.State β)
    (hi : Rdfcanon.ingest T qs 0 ⟨[], Rdfcanon.newCanonicalIssuer, []⟩ = .ok st) :
    Rdfcanon.canon T H lim ord qs =
      match Rdfcanon.step5 H lim ((sortByKey (h2bM H ord st.b2q)).filter (fun e => e.2.length > 1))
          { st with canon := (sortByKey (h2bM H ord st.b2q)).foldl step4M st.canon } with
      | .limit l => .limit l
      | .panic => .panic
      | .ok st' =>
        .ok ⟨(Rdfcanon.encodeAll st'.all st'.canon).1.mergeSort (fun a b => strLe a.encoded b.encoded),
            (Rdfcanon.encodeAll st'.all st'.canon).2⟩ := by
  unfold Rdfcanon.canon
  rw [hi]
  rfl

theorem canonFuel_unfold (H : Str → Str) (ord : List β → List β) (perms : List β → List (List β))
    (fuel : Nat) (qs : List (Quad β)) :
    Spec.RDFC10.canonFuel H ord perms true fuel qs =
      match Spec.RDFC10.step5 H perms (Spec.RDFC10.bnodeToQuads true qs) fuel
          ((sortByKey (h2bS H ord (Spec.RDFC10.bnodeToQuads true qs))).filter (fun e => e.2.length ≠ 1))
          ((sortByKey (h2bS H ord (Spec.RDFC10.bnodeToQuads true qs))).foldl step4S
            (Spec.RDFC10.Issuer.new Spec.RDFC10.c14nPrefix)) with
      | none => none
      | some canon =>
        some ⟨sortStr (qs.map (Spec.RDFC10.nquad (fun b => (canon.get? b).getD []))), canon.issued⟩ := by
  rfl

theorem h2b_nonempty (H : Str → Str) (ord : List β → List β) (sb : Spec.RDFC10.B2Q β) :
    ∀ e ∈ h2bS H ord sb, e.2 ≠ [] := by
  unfold h2bS
  generalize ord (sb.map (·.1)) = l
  suffices ∀ (m : List (Str × List β)), (∀ e ∈ m, e.2 ≠ []) →
      ∀ e ∈ l.foldl (fun m n => addToMap m (Spec.RDFC10.hashFirstDegree H sb n) n) m, e.2 ≠ [] from
    this [] (by simp)
  induction l with
  | nil => intro m hm; simpa using hm
  | cons a rest ih =>
    intro m hm
    simp only [List.foldl_cons]
    exact ih _ (addToMap_nonempty m _ a hm)

theorem addToMap_has (m : List (Str × List β)) (k : Str) (v : β) : ∃ e ∈ addToMap m k v, v ∈ e.2 := by
  have := getList_addToMap m k k v
  simp only [if_true] at this
  have hv : v ∈ getList (addToMap m k v) k := by rw [this]; simp
  exact getList_mem _ _ _ hv

theorem addToMap_mono (m : List (Str × List β)) (k : Str) (v x : β) (h : ∃ e ∈ m, x ∈ e.2) :
    ∃ e ∈ addToMap m k v, x ∈ e.2 := by
  obtain ⟨e, he, hx⟩ := h
  induction m with
  | nil => simp at he
  | cons e0 rest0 ih0 =>
    obtain ⟨k0, vs⟩ := e0
    by_cases hk : k0 = k
    · simp only [List.mem_cons] at he
      rcases he with he | he
      · subst he
        exact ⟨(k0, vs ++ [v]), by simp [addToMap, hk], by simp [hx]⟩
      · exact ⟨e, by simp [addToMap, hk, he], hx⟩
    · simp only [List.mem_cons] at he
      rcases he with he | he
      · subst he
        exact ⟨(k0, vs), by simp [addToMap, hk], hx⟩
      · obtain ⟨e', he', hx'⟩ := ih0 he
        exact ⟨e', by simp [addToMap, hk, he'], hx'⟩

/-- Every node visited in step 3 ends up in the identifier list of some hash. -/
theorem h2b_covers (H : Str → Str) (sb : Spec.RDFC10.B2Q β) (l : List β) :
    ∀ (m : List (Str × List β)) (n : β), (n ∈ l ∨ ∃ e ∈ m, n ∈ e.2) →
    ∃ e ∈ l.foldl (fun m n => addToMap m (Spec.RDFC10.hashFirstDegree H sb n) n) m, n ∈ e.2 := by
  induction l with
  | nil =>
    intro m n h
    rcases h with h | h
    · simp at h
    · simpa using h
  | cons a rest ih =>
    intro m n h
    simp only [List.foldl_cons]
    apply ih
    rcases h with h | h
    · simp only [List.mem_cons] at h
      rcases h with h | h
      · subst h; exact Or.inr (addToMap_has _ _ _)
      · exact Or.inl h
    · exact Or.inr (addToMap_mono _ _ _ _ h)

theorem assoc_of_mem_nodup (l : List (β × Str)) (hnd : (l.map (·.1)).Nodup) (k : β) (v : Str)
    (h : (k, v) ∈ l) : assoc l k = some v := by
  induction l with
  | nil => simp at h
  | cons e rest ih =>
    obtain ⟨k0, v0⟩ := e
    simp only [List.map_cons, List.nodup_cons] at hnd
    simp only [List.mem_cons, Prod.mk.injEq] at h
    rcases h with ⟨h1, h2⟩ | h
    · subst h1; subst h2; simp [assoc]
    · have hk : k0 ≠ k := by
        intro hh; subst hh
        exact hnd.1 (List.mem_map.mpr ⟨(k0, v), h, rfl⟩)
      simp [assoc, hk, ih hnd.2 h]

/-- Structure of a result of the Go canonicalizer (model): the canonical issuer corresponds to the
    specification's after step 5, knows every blank node of the dataset, and the lines are the sorted
    relabelled quads carrying their original positions. -/
theorem canon_structure (T : NQ.Tables) (hT : TablesCanon T) (H : Str → Str) (lim : Rdfcanon.Limits)
    (ord : List β → List β) (hord : OrdOK ord) (perms : List β → List (List β))
    (hperms : PermsAgree lim.maxPermutations perms) (qs : List (Quad β)) (hwf : ∀ q ∈ qs, WFQuad T q)
    (out : Rdfcanon.Out β) (h : Rdfcanon.canon T H lim ord qs = .ok out) :
    ∃ cs5 : Spec.RDFC10.Issuer β,
      Spec.RDFC10.step5 H perms (Spec.RDFC10.bnodeToQuads true qs) (lim.maxRecursionDepth + 1)
        ((sortByKey (h2bS H ord (Spec.RDFC10.bnodeToQuads true qs))).filter (fun e => e.2.length ≠ 1))
        ((sortByKey (h2bS H ord (Spec.RDFC10.bnodeToQuads true qs))).foldl step4S
          (Spec.RDFC10.Issuer.new Spec.RDFC10.c14nPrefix)) = some cs5 ∧
      CRel out.canon cs5 ∧
      (∀ q ∈ qs, ∀ b ∈ Spec.RDFC10.quadBnodes q, (cs5.get? b).isSome) ∧
      out.lines = (lineList (fun b => (cs5.get? b).getD []) qs 0).mergeSort
        (fun a b => strLe a.encoded b.encoded) := by
  have henc := encOK_of_tables T hT
  obtain ⟨st0, hi1, hi2, hi3, hi4, hi5⟩ := ingest_wf T qs 0 ⟨[], Rdfcanon.newCanonicalIssuer, []⟩ hwf (by simp)
  have hsb : forget st0.b2q = Spec.RDFC10.bnodeToQuads true qs := by
    rw [hi4, bnodeToQuads_eq]; rfl
  have hb0 : BRel T st0.b2q (Spec.RDFC10.bnodeToQuads true qs) := ⟨hsb, hi5⟩
  rw [canon_unfold T H lim ord qs st0 hi1] at h
  -- step 3: the same hash to blank nodes map
  have hkeys : st0.b2q.map (·.1) = (Spec.RDFC10.bnodeToQuads true qs).map (·.1) := by
    rw [← hsb, keys_forget]
  have hh2b : h2bM H ord st0.b2q = h2bS H ord (Spec.RDFC10.bnodeToQuads true qs) := by
    unfold h2bM h2bS
    rw [hkeys]
    apply foldl_ext_mem
    intro n _ acc
    rw [hashFirstDegree_eq T henc H hb0 n]
  rw [hh2b] at h
  generalize hsorted : sortByKey (h2bS H ord (Spec.RDFC10.bnodeToQuads true qs)) = sorted at h ⊢
  have hsmem : ∀ e, e ∈ sorted ↔ e ∈ h2bS H ord (Spec.RDFC10.bnodeToQuads true qs) := by
    intro e; rw [← hsorted]; simp [sortByKey]
  have hne : ∀ e ∈ sorted, e.2 ≠ [] := fun e he => h2b_nonempty H ord _ e ((hsmem e).mp he)
  -- step 4
  have hc4 : CRel (sorted.foldl step4M st0.canon)
      (sorted.foldl step4S (Spec.RDFC10.Issuer.new Spec.RDFC10.c14nPrefix)) := by
    rw [hi2]; exact step4_rel sorted _ _ CRel.init
  have hfilter : sorted.filter (fun e => e.2.length ≠ 1) = sorted.filter (fun e => e.2.length > 1) := by
    apply List.filter_congr
    intro e he
    have := hne e he
    have hpos : 0 < e.2.length := List.length_pos_iff.mpr this
    simp only [ne_eq, gt_iff_lt, decide_eq_decide]
    omega
  rw [hfilter]
  -- step 5
  cases h5 : Rdfcanon.step5 H lim (sorted.filter (fun e => e.2.length > 1))
      { st0 with canon := sorted.foldl step4M st0.canon } with
  | limit l => rw [h5] at h; simp at h
  | panic => rw [h5] at h; simp at h
  | ok st5 =>
    rw [h5] at h
    simp only [Rdfcanon.Res.ok.injEq] at h
    obtain ⟨cs5, hs1, hs2, hs3, hs4⟩ := step5_rel T henc H lim perms hperms _
      { st0 with canon := sorted.foldl step4M st0.canon } _ hb0 hc4 st5 h5
    -- every blank node of the dataset has a canonical identifier
    obtain ⟨hsub5, hcov5⟩ := step5_covers H perms _ _ _ _ _ hs1
    obtain ⟨hsub4, hcov4⟩ := step4_sub sorted (Spec.RDFC10.Issuer.new Spec.RDFC10.c14nPrefix)
    have hall : ∀ n ∈ (Spec.RDFC10.bnodeToQuads true qs).map (·.1), (cs5.get? n).isSome := by
      intro n hn
      have hn' : n ∈ ord ((Spec.RDFC10.bnodeToQuads true qs).map (·.1)) := (hord _).mem_iff.mpr hn
      obtain ⟨e, he, hne'⟩ := h2b_covers H (Spec.RDFC10.bnodeToQuads true qs) _ [] n (Or.inl hn')
      have hes : e ∈ sorted := (hsmem e).mpr he
      by_cases hlen : e.2.length > 1
      · exact hcov5 e (List.mem_filter.mpr ⟨hes, by simpa using hlen⟩) n hne'
      · have hpos : 0 < e.2.length := List.length_pos_iff.mpr (hne e hes)
        have h1 : e.2.length = 1 := by omega
        obtain ⟨x, hx⟩ := List.length_eq_one_iff.mp h1
        rw [hx] at hne'
        simp only [List.mem_singleton] at hne'
        subst hne'
        exact hsub5 n (hcov4 e hes n hx)
    have hknown : ∀ q ∈ qs, ∀ b ∈ Spec.RDFC10.quadBnodes q, (cs5.get? b).isSome := by
      intro q hq b hb
      apply hall
      rw [Proofs.C03.mem_keys_bnodeToQuads]
      exact List.mem_flatMap.mpr ⟨q, hq, hb⟩
    -- step 7
    have hall5 : st5.all = cquads T qs 0 := by rw [hs4]; simp [hi3]
    rw [hall5, encodeAll_cquads T henc hs2 qs 0 hwf hknown] at h
    simp only at h
    refine ⟨cs5, hs1, ?_, hknown, ?_⟩
    · rw [← h]; exact hs2
    · rw [← h]

/-- **C04**: a result of the Go canonicalizer (model) is the result of the specification. -/
theorem canon_refines_spec (T : NQ.Tables) (hT : TablesCanon T) (H : Str → Str) (lim : Rdfcanon.Limits)
    (ord : List β → List β) (hord : OrdOK ord) (perms : List β → List (List β))
    (hperms : PermsAgree lim.maxPermutations perms) (qs : List (Quad β)) (hwf : ∀ q ∈ qs, WFQuad T q)
    (out : Rdfcanon.Out β) (h : Rdfcanon.canon T H lim ord qs = .ok out) :
    Spec.RDFC10.canonFuel H ord perms true (lim.maxRecursionDepth + 1) qs = some (specView out) := by
  obtain ⟨cs5, hs1, hs2, _, hlines⟩ := canon_structure T hT H lim ord hord perms hperms qs hwf out h
  rw [canonFuel_unfold, hs1]
  simp only
  unfold specView Rdfcanon.Out.issued
  congr 2
  · -- lines
    rw [hlines, List.map_mergeSort (s := strLe) (f := fun (l : Rdfcanon.Line) => l.encoded) (fun a _ b _ => rfl)]
    rw [lineList_encoded]
    rfl
  · -- issued map
    rw [hs2.order, List.map_map]
    have hnd := hs2.nodup
    have hlook := hs2.look
    have hself : ∀ e ∈ cs5.issued, ((fun b => (b, (assoc out.canon.known b).getD [])) ∘ fun x => x.1) e = e := by
      intro e he
      obtain ⟨k, v⟩ := e
      simp only [Function.comp, hlook k, assoc_of_mem_nodup _ hnd k v he, Option.getD_some]
    rw [List.map_congr_left hself]
    simp

end RdfModel.Proofs.C04
